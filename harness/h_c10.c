/* C10 - the Teletext cache (src/cache.c + cache-priv.h + dlist.h), compiled with CACHE_CONSISTENCY=1 so
 * that its own assert()s are proof obligations.
 *
 * INV-STEP obligations (h_get, h_ref, h_unref, h_get_network, ...): build_state() creates, through the allocator
 * model and the real vbi_cache_new(), a cache with <= 2 (3) networks and <= 3 pages.  audit() is the
 * representation invariant, evaluated on the ACTUAL memory (it walks the real lists), so "audit(pre) holds" is
 * asserted, not assumed.  Then one real operation, audit() again, plus the functional contract of the operation
 * stated over the two views (struct view = list orders + scalar snapshot).
 * SEQ obligations (h_seq): from the real empty cache, k operations, audit + reference map after each.
 *
 * What had to be made CONCRETE (runner grid) for CBMC to answer at all, each measured (see the comments at the
 * definitions): page number and reference class of every page slot, number of pages/networks, the operation's page
 * number, for unref also reference count / zombie flag of the released page and the networks' zombie flags.
 * Harnesses h_put, h_net_unref, h_add_network, h_purge, h_delete, h_foreach and the longer h_seq variants are
 * kept for the native build (the self-test drives them with random inputs under ASan/UBSan/LSan) but are NOT
 * obligations: symex does not finish on them (list walks that delete while iterating; see the report in the
 * runner description / C10.py `outside`).
 */
#include "verif.h"
#include "c10_env.h"
#define CACHE_CONSISTENCY 1
#ifdef C10_DLIST
#define DLIST_CONSISTENCY 1
#endif
#include "src/cache.c"

/* ---------------------------------------------------------------- allocator model (see models/c10_env.h) */
#define NP C10_NP
#define NN C10_NN
static cache_page *pg_ptr[NP];
static cache_network *net_ptr[NN];
static int pg_live[NP], net_live[NN], ca_live;
static unsigned pg_size[NP];
static unsigned n_alloc, n_free;

/* Every page allocation of one run has the same size class C10_PSIZE (grid): the pool slots are exact-size
 * objects, so running off the end of an allocation is a bounds failure.  Under CBMC a slot is a struct with
 * the layout of the cache_page header followed by C10_DATA body bytes (the memcpy model below stands for the body
 * copy): with the real cache_page type (4504 bytes, 14 K scalar fields after field expansion) every imprecise
 * pointer write re-assigned all fields (measured: 900 K SSA steps, 110 s for the builder alone; later: symex stalls). */
#ifndef C10_PSIZE
#define C10_PSIZE 1564            /* LOP: header 88 + struct ttx_lop 1476 */
#endif
#ifndef C10_FN
#define C10_FN PAGE_FUNCTION_LOP  /* a page function whose cache_page_size() is C10_PSIZE (checked) */
#endif
#ifndef C10_FN2
#define C10_FN2 C10_FN            /* a second function of the same size class (e.g. UNKNOWN for LOP) */
#endif
#if defined(C10_TYPED) && !defined(C10_DATA)
#define C10_DATA 0
#endif
#ifndef C10_PUT_PSIZE
#define C10_PUT_PSIZE C10_PSIZE   /* h_put_limit: size class of the page that is put (may differ from the size class of the cached pages) */
#endif
#ifndef C10_DATA
#define C10_DATA 8                /* bytes of page body kept under CBMC (see the memcpy model below) */
#endif
#ifndef C10_X26
#define C10_X26 0
#endif
#ifndef C10_X28
#define C10_X28 0
#endif
struct __attribute__((packed)) c10_page {
  struct node hash_node, pri_node; cache_network *network; unsigned ref_count; cache_priority priority;
  enum ttx_page_function function; vbi_pgno pgno; vbi_subno subno; int national;
  unsigned flags, lop_packets, x26_designations, x27_designations, x28_designations, pad_;
  uint8_t data[C10_DATA];
};
typedef char c10_layout_check[(sizeof(struct c10_page) == 88 + C10_DATA && offsetof(struct c10_page, data) == offsetof(cache_page, data)
  && offsetof(struct c10_page, x28_designations) == offsetof(cache_page, x28_designations) && offsetof(struct c10_page, pgno) == offsetof(cache_page, pgno)
  && offsetof(struct c10_page, network) == offsetof(cache_page, network) && offsetof(struct c10_page, priority) == offsetof(cache_page, priority)) ? 1 : -1];
#ifdef VERIF_CBMC
#ifdef C10_TYPED
static cache_page PGO0, PGO1, PGO2, PGO3, SRCO, SRCO2;
#else
static _Alignas(8) struct c10_page PGO0, PGO1, PGO2, PGO3, SRCO, SRCO2;
#endif
static cache_network NTO0, NTO1;
#if C10_NN > 2
static cache_network NTO2;
#else
#define NTO2 NTO1
#endif
static vbi_cache CAO;
static void *pool_page(int i) { return i == 0 ? (void *) &PGO0 : i == 1 ? (void *) &PGO1 : i == 2 ? (void *) &PGO2 : (void *) &PGO3; }
static void *pool_net(int i) { return i == 0 ? (void *) &NTO0 : i == 1 ? (void *) &NTO1 : (void *) &NTO2; }
#endif

#ifndef VERIF_CBMC
/* allocation size hidden from the optimiser: cache_page is a variable-size struct by design (cache-priv.h), UBSan's
 * object-size check would flag every header access of a short page once it can see the malloc size */
static void *(*volatile c10_calloc)(size_t, size_t) = calloc;
#endif
static void *c10_alloc(size_t size)
{
  int i;
  if (size == sizeof(vbi_cache)) {
    V_ASSUME(!ca_live); ca_live = 1; n_alloc++;
#ifdef VERIF_CBMC
    return &CAO;
#else
    return malloc(size);
#endif
  }
  if (size == sizeof(cache_network)) {
    for (i = 0; i < NN; i++) if (!net_live[i]) {
      net_live[i] = 1; n_alloc++;
#ifdef VERIF_CBMC
      net_ptr[i] = (cache_network *) pool_net(i);
#else
      net_ptr[i] = (cache_network *) malloc(size);
#endif
      return net_ptr[i];
    }
    V_ASSUME(0);   /* bound: <= NN networks alive */
    return NULL;
  }
  V_ASSERT(size >= sizeof(cache_page) - sizeof(((cache_page *) 0)->data) && size <= sizeof(cache_page), "alloc_size_is_a_page_size");
  V_ASSERT(size == C10_PSIZE || size == C10_PUT_PSIZE, "alloc_size_is_the_configured_page_size");
  for (i = 0; i < NP; i++) if (!pg_live[i]) {
    pg_live[i] = 1; pg_size[i] = (unsigned) size; n_alloc++;
#ifdef VERIF_CBMC
    pg_ptr[i] = (cache_page *) pool_page(i);
#else
    pg_ptr[i] = (cache_page *) c10_calloc(1, size);
#endif
    return pg_ptr[i];
  }
  V_ASSUME(0);     /* bound: <= NP pages alive */
  return NULL;
}

static void c10_free(void *p)
{
  int i, found = 0;
  if (!p) return;
  for (i = 0; i < NP; i++) if (pg_live[i] && (void *) pg_ptr[i] == p) { pg_live[i] = 0; found = 1; }
  for (i = 0; i < NN; i++) if (net_live[i] && (void *) net_ptr[i] == p) { net_live[i] = 0; found = 1; }
  if (!found && ca_live) { ca_live = 0; found = 1; }     /* the cache object itself (vbi_cache_delete) */
  V_ASSERT(found, "free_of_live_object");
  n_free++;
#ifndef VERIF_CBMC
  free(p);
#endif
}

#ifdef VERIF_CBMC
/* memcpy model (CBMC only; the native build uses libc on exact-size malloc blocks).  cache.c calls memcpy once:
 * _vbi_cache_put_page copies the page body.  The model records the call (the harness asserts the contract
 * dst == body of the new allocation, src == body of the source, n == allocation size - header size, which is
 * what keeps the copy inside both exact-size objects) and copies the first C10_DATA bytes, so the pool
 * objects need only hold header + C10_DATA bytes: a whole-object update through a list pointer then costs
 * 96 bytes instead of 1.2 .. 4.5 KB. */
static const void *MC_dst, *MC_src; static size_t MC_n; static unsigned MC_calls;
void *memcpy(void *dst, const void *src, size_t n)
{
  unsigned i;
  MC_dst = dst; MC_src = src; MC_n = n; MC_calls++;
  for (i = 0; i < C10_DATA; i++) if (i < n) ((uint8_t *) dst)[i] = ((const uint8_t *) src)[i];
  return dst;
}
/* memset model (CBMC only).  cache.c uses memset only as CLEAR(*cn) (add_network, delete_network) and CLEAR(*ca)
 * (vbi_cache_new, vbi_cache_delete); the model performs them as typed struct assignments from zero objects
 * (the library model's byte-wise view of the 35 KB network object cost minutes of symex per call) and rejects
 * any other use. */
static const cache_network C10_ZERO_NET; static const vbi_cache C10_ZERO_CA;
void *memset(void *s, int c, size_t n)
{
  if (c == 0 && n == sizeof(cache_network)) *(cache_network *) s = C10_ZERO_NET;
  else if (c == 0 && n == sizeof(vbi_cache)) *(vbi_cache *) s = C10_ZERO_CA;
  else V_ASSERT(0, "memset_model_covers_only_CLEAR_of_network_and_cache");
  return s;
}
#endif

/* log / intl environment: never reached with log hooks off, bodies needed at link time */
_vbi_log_hook _vbi_global_log;
void _vbi_log_printf(vbi_log_fn *f, void *u, vbi_log_mask m, const char *a, const char *b, const char *c, ...) { (void) f; (void) u; (void) m; (void) a; (void) b; (void) c; }
void _vbi_log_vprintf(vbi_log_fn *f, void *u, vbi_log_mask m, const char *a, const char *b, const char *c, va_list ap) { (void) f; (void) u; (void) m; (void) a; (void) b; (void) c; (void) ap; }
int _vbi_vasprintf(char **d, const char *t, va_list ap) { (void) t; (void) ap; *d = NULL; return -1; }
const char _zvbi_intl_domainname[] = "zvbi";

/* ---------------------------------------------------------------- page alphabet */
/* All three page numbers hash to bucket 111 (pgno % 113 == 111).  Two reasons: (1) they collide, so every chain
 * operation is exercised with foreign page numbers on the same chain; (2) measured: CBMC's points-to sets are not
 * refined by loop guards, so after FOR_ALL_NODES the list head itself, seen as a cache_page, stays a candidate for
 * cp; for bucket 111 that phantom's ->network field overlays the integer counters behind hash[] (not a pointer),
 * for any other bucket it overlays another list head and every later write through cp->network->cache becomes a
 * symbolic-offset update of all objects (symex did not finish in 300 s). */
#ifndef C10_PG0
#define C10_PG0 0x151   /* BCD page, normal priority */
#endif
#ifndef C10_PG1
#define C10_PG1 0x233   /* BCD page, other magazine, same bucket */
#endif
#ifndef C10_PG2
#define C10_PG2 0x1C2   /* hex page (subpage key = S1 nibble), same bucket */
#endif
#define NA 3
static const int PGA[NA] = { C10_PG0, C10_PG1, C10_PG2 };
static int pga_index(int pgno) { int a; for (a = 0; a < NA; a++) if (PGA[a] == pgno) return a; return -1; }
static int bucket_first(int a) { int b; for (b = 0; b < a; b++) if (PGA[b] % HASH_SIZE == PGA[a] % HASH_SIZE) return b; return a; }

static vbi_cache *CA;
#ifndef C10_P
#define C10_P 0
#endif

/* ---------------------------------------------------------------- view = audit result + scalar snapshot */
struct view {
  int hn[NA], hs[NA][NP];          /* hash chain of the bucket of alphabet entry a (only a == bucket_first(a)), head first */
  int pn, ps[NP], rn, rs[NP];      /* priority list, referenced list */
  int nn, ns[NN];                  /* networks list */
  int p_live[NP], p_ref[NP], p_pri[NP], p_pgno[NP], p_subno[NP], p_net[NP], p_fn[NP], p_nat[NP];
  unsigned p_size[NP], p_flags[NP]; uint8_t p_m0[NP];
  int n_live[NN], n_ref[NN], n_zombie[NN]; unsigned n_cached[NN], n_refd[NN], n_maxc[NN];
  unsigned ca_pages, ca_nets, ca_ref; unsigned long ca_mem, ca_limit;
  struct ttx_page_stat st[NN][NA];
};

#if defined(C10_TYPED) && defined(VERIF_CBMC)
#define M0_OF(cp) 0
#define M0_SET(cp, v) ((void) (v))
#else
#define M0_OF(cp) (*(const uint8_t *) &(cp)->data)
#define M0_SET(cp, v) (*(uint8_t *) &(cp)->data = (uint8_t) (v))
#endif
#define K_HASH 0
#define K_PRI 1
#define K_NET 2
static int node_index(const struct node *q, int kind)
{
  int i;
  if (kind == K_NET) { for (i = 0; i < NN; i++) if (net_live[i] && q == &net_ptr[i]->node) return i; return -1; }
  for (i = 0; i < NP; i++) if (pg_live[i] && q == (kind == K_HASH ? &pg_ptr[i]->hash_node : &pg_ptr[i]->pri_node)) return i;
  return -1;
}
/* walks list l, which must be a consistent ring of l and nodes of live objects; at most max nodes */
static int walk(const struct node *l, int kind, int max, int *seq, int *n)
{
  const struct node *q = l->_succ, *prev = l; int k, i;
  *n = 0;
  for (k = 0; k <= max; k++) {
    if (q == l) return l->_pred == prev;
    if (k == max) return 0;
    i = node_index(q, kind);
    if (i < 0) return 0;
    if (q->_pred != prev) return 0;
    seq[*n] = i; (*n)++;
    prev = q; q = q->_succ;
  }
  return 0;
}
static int net_index(const cache_network *cn) { int i; for (i = 0; i < NN; i++) if (net_live[i] && cn == net_ptr[i]) return i; return -1; }

static int ref_is_bcd(unsigned v) { int k; for (k = 0; k < 8; k++) if (((v >> (4 * k)) & 15) > 9) return 0; return 1; }
/* the stored-key domain (what CACHE_CONSISTENCY in cache_network_add_page spells out) */
static int key_ok(int pgno, int subno)
{
  if (pgno < 0x100 || pgno > 0x8FF || (pgno & 0xFF) == 0xFF) return 0;
  if (subno < 0 || subno > 0x3F7F) return 0;
  if (ref_is_bcd((unsigned) pgno)) {
    if (!ref_is_bcd((unsigned) subno)) return 0;
    if (subno >= 0x100) return subno <= 0x2359 && (subno & 0xFF) <= 0x59;
    return subno <= 0x79;
  }
  return (subno & ~0x3F7F) == 0;
}
/* independent reading of cache_page_size(): header + the union member the page function selects */
static unsigned ref_size(int fn, unsigned x26, unsigned x28)
{
  const unsigned hdr = (unsigned) offsetof(cache_page, data);
  switch (fn) {
  case PAGE_FUNCTION_UNKNOWN: case PAGE_FUNCTION_LOP:
    if (x28 & 0x13) return hdr + (unsigned) sizeof(((cache_page *) 0)->data.ext_lop);
    if (x26) return hdr + (unsigned) sizeof(((cache_page *) 0)->data.enh_lop);
    return hdr + (unsigned) sizeof(struct ttx_lop);
  case PAGE_FUNCTION_GPOP: case PAGE_FUNCTION_POP: return hdr + (unsigned) sizeof(((cache_page *) 0)->data.pop);
  case PAGE_FUNCTION_GDRCS: case PAGE_FUNCTION_DRCS: return hdr + (unsigned) sizeof(((cache_page *) 0)->data.drcs);
  case PAGE_FUNCTION_AIT: return hdr + (unsigned) sizeof(((cache_page *) 0)->data.ait);
  default: return (unsigned) sizeof(cache_page);
  }
}

static const struct ttx_page_stat STAT_ZERO;
static void view_clear(struct view *v)      /* field by field: a whole-struct assignment cost 25 s of symex per audit */
{
  int i, k;
  for (i = 0; i < NA; i++) { v->hn[i] = 0; for (k = 0; k < NP; k++) v->hs[i][k] = 0; }
  v->pn = v->rn = v->nn = 0;
  for (k = 0; k < NP; k++) { v->ps[k] = v->rs[k] = 0; v->p_live[k] = v->p_ref[k] = v->p_pri[k] = v->p_pgno[k] = v->p_subno[k] = v->p_net[k] = v->p_fn[k] = v->p_nat[k] = 0;
    v->p_size[k] = v->p_flags[k] = 0; v->p_m0[k] = 0; }
  for (k = 0; k < NN; k++) { v->ns[k] = 0; v->n_live[k] = v->n_ref[k] = v->n_zombie[k] = 0; v->n_cached[k] = v->n_refd[k] = v->n_maxc[k] = 0;
    for (i = 0; i < NA; i++) v->st[k][i] = STAT_ZERO; }
  v->ca_pages = v->ca_nets = v->ca_ref = 0; v->ca_mem = v->ca_limit = 0;
}
static int stat_zero(const struct ttx_page_stat *x)
{ return x->page_type == 0 && x->charset_code == 0 && x->subcode == 0 && x->flags == 0 && x->n_subpages == 0 && x->max_subpages == 0 && x->subno_min == 0 && x->subno_max == 0; }

/* The representation invariant, evaluated on the real memory.  Returns 1 iff it holds; fills *v. */
#if defined(VERIF_NATIVE) && defined(C10_DEBUG)
#define CHK(c) do { if (!(c)) { ok = 0; fprintf(stderr, "audit: line %d: %s\n", __LINE__, #c); } } while (0)
#else
#define CHK(c) (ok &= (c))
#endif
static int audit(struct view *v)
{
  int ok = 1, i, n, a, k, cnt_h[NP], cnt_p[NP], cnt_r[NP], cnt_n[NN], nlive = 0, nnets = 0, nnz = 0;
  unsigned long mem = 0;
  view_clear(v);
  if (!ca_live) return 0;
  for (i = 0; i < NP; i++) cnt_h[i] = cnt_p[i] = cnt_r[i] = 0;
  for (n = 0; n < NN; n++) cnt_n[n] = 0;
  /* networks list */
  CHK(walk(&CA->networks, K_NET, NN, v->ns, &v->nn));
  for (k = 0; k < NN; k++) if (k < v->nn) cnt_n[v->ns[k]]++;
  for (n = 0; n < NN; n++) {
    v->n_live[n] = net_live[n];
    if (!net_live[n]) continue;
    nnets++;
    CHK(cnt_n[n] == 1);
    CHK(net_ptr[n]->cache == CA);
    v->n_ref[n] = (int) net_ptr[n]->ref_count; v->n_zombie[n] = net_ptr[n]->zombie;
    v->n_cached[n] = net_ptr[n]->n_cached_pages; v->n_refd[n] = net_ptr[n]->n_referenced_pages; v->n_maxc[n] = net_ptr[n]->max_cached_pages;
    CHK(net_ptr[n]->zombie == 0 || net_ptr[n]->zombie == 1);
    if (!net_ptr[n]->zombie) nnz++;
    for (a = 0; a < NA; a++) {
      v->st[n][a] = net_ptr[n]->_pages[PGA[a] - 0x100];
      /* frame: the statistics of the neighbouring page numbers (never stored by the harness) stay all-zero */
      CHK(stat_zero(&net_ptr[n]->_pages[PGA[a] - 0x100 - 1]) && stat_zero(&net_ptr[n]->_pages[PGA[a] - 0x100 + 1]));
    }
  }
  CHK(v->nn == nnets);
  v->ca_nets = CA->n_cached_networks; CHK(CA->n_cached_networks == (unsigned) nnz);
  /* hash chains: the alphabet buckets are walked, every other head must be empty */
  for (a = 0; a < NA; a++) if (bucket_first(a) == a) {
    CHK(walk(&CA->hash[PGA[a] % HASH_SIZE], K_HASH, NP, v->hs[a], &v->hn[a]));
    for (k = 0; k < NP; k++) if (k < v->hn[a]) cnt_h[v->hs[a][k]]++;
  }
  for (k = 0; k < HASH_SIZE; k++) {
    int alpha = 0;
    for (a = 0; a < NA; a++) if (PGA[a] % HASH_SIZE == k) alpha = 1;
    if (!alpha) CHK(CA->hash[k]._succ == &CA->hash[k] && CA->hash[k]._pred == &CA->hash[k]);
  }
  CHK(walk(&CA->priority, K_PRI, NP, v->ps, &v->pn));
  for (k = 0; k < NP; k++) if (k < v->pn) cnt_p[v->ps[k]]++;
  CHK(walk(&CA->referenced, K_PRI, NP, v->rs, &v->rn));
  for (k = 0; k < NP; k++) if (k < v->rn) cnt_r[v->rs[k]]++;
  /* pages */
  for (i = 0; i < NP; i++) {
    const cache_page *cp;
    v->p_live[i] = pg_live[i];
    if (!pg_live[i]) continue;
    cp = pg_ptr[i]; nlive++;
    v->p_ref[i] = (int) cp->ref_count; v->p_pri[i] = (int) cp->priority; v->p_pgno[i] = cp->pgno; v->p_subno[i] = cp->subno;
    v->p_fn[i] = (int) cp->function; v->p_nat[i] = cp->national; v->p_flags[i] = cp->flags; v->p_m0[i] = M0_OF(cp);
    v->p_net[i] = net_index(cp->network);
    v->p_size[i] = ref_size((int) cp->function, cp->x26_designations, cp->x28_designations);
    CHK(v->p_size[i] == pg_size[i]);                      /* the allocation has exactly the size the page needs */
    CHK(v->p_net[i] >= 0);                                /* network pointer of a live page is a live network */
    CHK(key_ok(cp->pgno, cp->subno));
    CHK(pga_index(cp->pgno) >= 0);                        /* (harness alphabet) */
    CHK(cp->priority == CACHE_PRI_ZOMBIE || cp->priority == CACHE_PRI_NORMAL || cp->priority == CACHE_PRI_SPECIAL);
    if (cp->priority == CACHE_PRI_ZOMBIE) {                /* zombie: replaced/dropped while referenced */
      CHK(cp->ref_count > 0);
      CHK(cnt_h[i] == 0);
    } else {                                               /* on the chain of its bucket, exactly once */
      CHK(cnt_h[i] == 1);
      for (a = 0; a < NA; a++) if (bucket_first(a) == a) for (k = 0; k < NP; k++) if (k < v->hn[a] && v->hs[a][k] == i) CHK(PGA[a] % HASH_SIZE == cp->pgno % HASH_SIZE);
    }
    if (cp->ref_count == 0) { CHK(cnt_p[i] == 1 && cnt_r[i] == 0); mem += v->p_size[i]; }
    else { CHK(cnt_p[i] == 0 && cnt_r[i] == 1); }
  }
  v->ca_pages = CA->n_cached_pages; CHK(CA->n_cached_pages == (unsigned) nlive);
  v->ca_mem = CA->memory_used; v->ca_limit = CA->memory_limit; v->ca_ref = CA->ref_count;
  CHK(CA->memory_used == mem);
  CHK(CA->memory_used <= CA->memory_limit);
  /* per network / per page number statistics */
  for (n = 0; n < NN; n++) if (net_live[n]) {
    unsigned c = 0, r = 0, sub[NA];
    for (a = 0; a < NA; a++) sub[a] = 0;
    for (i = 0; i < NP; i++) if (pg_live[i] && v->p_net[i] == n) {
      c++; if (v->p_ref[i] > 0) r++;
      for (a = 0; a < NA; a++) if (PGA[a] == v->p_pgno[i]) sub[a]++;
    }
    CHK(v->n_cached[n] == c);
    CHK(v->n_refd[n] == r);
    CHK(v->n_maxc[n] >= c);
    if (v->n_zombie[n]) CHK(v->n_ref[n] > 0 || r > 0);    /* a zombie network exists only while something holds it */
    for (a = 0; a < NA; a++) {
      CHK(v->st[n][a].n_subpages == sub[a]);
      CHK(v->st[n][a].max_subpages >= sub[a]);
    }
  }
  return ok;
}

/* ---------------------------------------------------------------- state builder */
/* Page number (alphabet index) and reference class (0 = unreferenced: on the priority list, 1 = referenced: on the
 * referenced list, zombie or not) of each page slot are CONCRETE (runner grid).  Measured reason: CBMC's points-to
 * sets keep one offset per object; a pri_node that may hang on either ca->priority or ca->referenced, or a
 * hash_node on one of several ca->hash[] heads, makes every later list write a symbolic-offset update of the
 * whole vbi_cache object (builder + audit alone: 3 M variables, 20 M clauses, no verdict for any operation).
 * Everything else is symbolic: liveness, network, subpage number, reference count, zombie flag, priority,
 * statistics, and the ORDER of every list (a symbolic permutation, linked with concrete neighbours). */
#ifndef C10_S0
#define C10_S0 0
#endif
#ifndef C10_S1
#define C10_S1 0
#endif
#ifndef C10_S2
#define C10_S2 1
#endif
#ifndef C10_S3
#define C10_S3 2
#endif
#ifndef C10_R0
#define C10_R0 0
#endif
#ifndef C10_R1
#define C10_R1 1
#endif
#ifndef C10_R2
#define C10_R2 0
#endif
#ifndef C10_R3
#define C10_R3 1
#endif
static const int SPA[4] = { C10_S0, C10_S1, C10_S2, C10_S3 };
static const int SRC_[4] = { C10_R0, C10_R1, C10_R2, C10_R3 };
/* zombie flag of each built network: 0 / 1 concrete, 2 = symbolic.  Concrete 0 lets constant propagation prune
 * delete_network() behind `cn->zombie && ...` in cache_page_unref (symex of that path did not finish, see report) */
#ifndef C10_Z0
#define C10_Z0 2
#endif
#ifndef C10_Z1
#define C10_Z1 2
#endif
#ifndef C10_Z2
#define C10_Z2 2
#endif
static const int SZ_[3] = { C10_Z0, C10_Z1, C10_Z2 };
/* zombie flag of each referenced page slot: 0 / 1 concrete, 2 = symbolic (concrete: ca->memory_used stays a constant
 * through cache_page_unref, so that `memory_used > memory_limit` folds and delete_surplus_pages() is not explored) */
#ifndef C10_PZ0
#define C10_PZ0 2
#endif
#ifndef C10_PZ1
#define C10_PZ1 2
#endif
#ifndef C10_PZ2
#define C10_PZ2 2
#endif
static const int SPZ_[3] = { C10_PZ0, C10_PZ1, C10_PZ2 };
/* reference count of each referenced page slot: 0 = symbolic (1..2), else concrete */
#ifndef C10_RC0
#define C10_RC0 0
#endif
#ifndef C10_RC1
#define C10_RC1 0
#endif
#ifndef C10_RC2
#define C10_RC2 0
#endif
static const int SRC2_[3] = { C10_RC0, C10_RC1, C10_RC2 };

/* builder-side allocation: slot index concrete, liveness symbolic */
static void *take_page(int i, unsigned size, int live)
{
#ifdef VERIF_CBMC
  pg_ptr[i] = (cache_page *) pool_page(i);
#else
  pg_ptr[i] = live ? (cache_page *) c10_calloc(1, size) : NULL;   /* pool objects are zero-initialised statics under CBMC */
#endif
  pg_live[i] = live; pg_size[i] = size; if (live) n_alloc++;
  return pg_ptr[i];
}
static void *take_net(int n, int live)
{
#ifdef VERIF_CBMC
  net_ptr[n] = (cache_network *) pool_net(n);
#else
  net_ptr[n] = live ? (cache_network *) c10_calloc(1, sizeof(cache_network)) : NULL;
#endif
  net_live[n] = live; if (live) n_alloc++;
  return net_ptr[n];
}

/* links the member nodes into list head in the order of permutation number perm (of n <= 3 candidates) */
static const int PERM[6][3] = { {0, 1, 2}, {0, 2, 1}, {1, 0, 2}, {1, 2, 0}, {2, 0, 1}, {2, 1, 0} };
static void link_list(struct node *head, struct node *n0, struct node *n1, struct node *n2, const int *member, int n, unsigned perm)
{
  unsigned p; int k;
  for (p = 0; p < 6; p++) if (perm == p) {
    struct node *prev = head;
    for (k = 0; k < 3; k++) {
      const int j = PERM[p][k];
      struct node *nd = j == 0 ? n0 : j == 1 ? n1 : n2;
      if (j < n && member[j]) { prev->_succ = nd; nd->_pred = prev; prev = nd; }
    }
    prev->_succ = head; head->_pred = prev;
  }
}

#if NN > 3
#error "builder handles up to 3 networks"
#endif
/* number of pages / networks the builder creates: CONCRETE (grid), all of them live.  With symbolic liveness
 * ca->memory_used is symbolic and symex explores delete_surplus_pages() behind `memory_used > memory_limit`
 * (1 GB, unreachable) in every unref; concrete counts let constant propagation prune it. */
#ifndef C10_NB
#define C10_NB (NP < 3 ? NP : 3)
#endif
#ifndef C10_NNB
#define C10_NNB (NN < 2 ? NN : 2)
#endif
#define NPB C10_NB
#if C10_NB > 3 || C10_NB > C10_NP || C10_NNB > C10_NN
#error "C10_NB <= min(3, C10_NP), C10_NNB <= C10_NN"
#endif
/* max_pages: number of page slots the state may use (the rest stays free for the operation) */
static void build_state(int max_pages)
{
  int i, n, a, memb[3];
  unsigned perm_n, perm_p, perm_r, perm_h[NA];
  struct node *nd[3];
  CA = vbi_cache_new();
  for (n = 0; n < C10_NNB; n++) {
    unsigned live = 1, ref = in_u8(), zombie = in_u8(), maxc = in_u8();
    struct ttx_page_stat st[NA];
    cache_network *cn;
    for (a = 0; a < NA; a++) { st[a].page_type = in_u8(); st[a].charset_code = in_u8(); st[a].subcode = in_u16(); st[a].flags = in_u32();
      st[a].n_subpages = 0; st[a].max_subpages = in_u8(); st[a].subno_min = in_u8(); st[a].subno_max = in_u8(); }
    if (SZ_[n] != 2) zombie = (unsigned) SZ_[n];
    V_ASSUME(ref <= 2 && zombie <= 1);
    cn = (cache_network *) take_net(n, (int) live);
    if (!live) continue;
    cn->cache = CA; cn->ref_count = ref; cn->zombie = (vbi_bool) zombie; cn->max_cached_pages = maxc;
    for (a = 0; a < NA; a++) cn->_pages[PGA[a] - 0x100] = st[a];
    if (!zombie) CA->n_cached_networks++;
  }
  for (i = 0; i < NPB; i++) {
    unsigned live = 1, net = in_u8(), subno = in_u16(), fnsel = in_u8(), ref = in_u8(), zombie = in_u8(), pri = in_u8(),
             nat = in_u8(), flags = in_u32(), m0 = in_u8();
    const int pgno = PGA[SPA[i]];
    int fn; cache_page *cp; cache_network *cn; struct ttx_page_stat *ps;
    (void) max_pages;
    if (SRC_[i] && SRC2_[i]) ref = (unsigned) SRC2_[i];
    if (SRC_[i] && SPZ_[i] != 2) { zombie = (unsigned) SPZ_[i]; pri = 0; }   /* priority field fully concrete: switch (cp->priority) folds */
    if (SRC_[i]) { V_ASSUME(ref >= 1 && ref <= 2 && zombie <= 1); } else { ref = 0; zombie = 0; }
    V_ASSUME(net < NN && pri <= 1 && fnsel <= 1);
    if (live) V_ASSUME(net_live[net] && key_ok(pgno, (int) subno));
    fn = fnsel ? (int) (C10_FN2) : (int) (C10_FN);
    cp = (cache_page *) take_page(i, C10_PSIZE, (int) live);
    if (!live) continue;
    cn = net_ptr[net]; ps = &cn->_pages[pgno - 0x100];
    cp->network = cn; cp->ref_count = ref; cp->priority = zombie ? CACHE_PRI_ZOMBIE : (pri ? CACHE_PRI_SPECIAL : CACHE_PRI_NORMAL);
    cp->function = (enum ttx_page_function) fn; cp->pgno = pgno; cp->subno = (int) subno; cp->national = (int) nat; cp->flags = flags;
    cp->x26_designations = C10_X26; cp->x28_designations = C10_X28;
    M0_SET(cp, m0);
    if (SRC_[i]) cn->n_referenced_pages++; else CA->memory_used += C10_PSIZE;   /* concrete branch: memory_used stays a constant */
    CA->n_cached_pages++; cn->n_cached_pages++; ps->n_subpages++;
  }
  perm_n = in_u8(); perm_p = in_u8(); perm_r = in_u8();
  for (a = 0; a < NA; a++) perm_h[a] = in_u8();
  V_ASSUME(perm_n < 6 && perm_p < 6 && perm_r < 6);
  /* networks list */
  for (n = 0; n < 3; n++) { memb[n] = n < C10_NNB; nd[n] = n < C10_NNB ? &net_ptr[n]->node : &CA->networks; }
  link_list(&CA->networks, nd[0], nd[1], nd[2], memb, C10_NNB, perm_n);
  /* hash chains, priority list, referenced list */
  for (i = 0; i < 3; i++) nd[i] = i < NPB && pg_ptr[i] ? &pg_ptr[i]->hash_node : &CA->priority;
  for (a = 0; a < NA; a++) if (bucket_first(a) == a) {
    V_ASSUME(perm_h[a] < 6);
    for (i = 0; i < 3; i++) memb[i] = i < NPB && pg_live[i] && PGA[SPA[i]] % HASH_SIZE == PGA[a] % HASH_SIZE && pg_ptr[i]->priority != CACHE_PRI_ZOMBIE;
    link_list(&CA->hash[PGA[a] % HASH_SIZE], nd[0], nd[1], nd[2], memb, NPB, perm_h[a]);
  }
  for (i = 0; i < 3; i++) nd[i] = i < NPB && pg_ptr[i] ? &pg_ptr[i]->pri_node : &CA->priority;
  for (i = 0; i < 3; i++) memb[i] = i < NPB && pg_live[i] && !SRC_[i];
  link_list(&CA->priority, nd[0], nd[1], nd[2], memb, NPB, perm_p);
  for (i = 0; i < 3; i++) memb[i] = i < NPB && pg_live[i] && SRC_[i];
  link_list(&CA->referenced, nd[0], nd[1], nd[2], memb, NPB, perm_r);
  /* the history-dependent parts of the invariant that are free inputs: high-water marks, and a zombie network
   * exists only while somebody holds it or one of its pages */
  for (n = 0; n < NN; n++) if (net_live[n]) {
    const cache_network *cn = net_ptr[n];
    V_ASSUME(cn->max_cached_pages >= cn->n_cached_pages);
    V_ASSUME(!cn->zombie || cn->ref_count > 0 || cn->n_referenced_pages > 0);
    for (a = 0; a < NA; a++) V_ASSUME(cn->_pages[PGA[a] - 0x100].max_subpages >= cn->_pages[PGA[a] - 0x100].n_subpages);
  }
  V_ASSERT(ref_size((int) (C10_FN), C10_X26, C10_X28) == C10_PSIZE && ref_size((int) (C10_FN2), C10_X26, C10_X28) == C10_PSIZE, "grid_function_matches_size_class");
}

/* first page on the chain of alphabet entry a's bucket (pre view order) that matches (net, pgno, subno under mask) */
static int first_match(const struct view *v, int net, int pgno, int subno, int mask)
{
  int a = pga_index(pgno), k, r = -1;
  if (a < 0) return -1;
  a = bucket_first(a);
  for (k = NP - 1; k >= 0; k--) if (k < v->hn[a]) {
    int i = v->hs[a][k];
    if (v->p_net[i] == net && v->p_pgno[i] == pgno && ((v->p_subno[i] ^ subno) & mask) == 0) r = i;
  }
  return r;
}
static int page_same(const struct view *x, const struct view *y, int i)
{
  return x->p_live[i] == y->p_live[i] && (!x->p_live[i] || (x->p_ref[i] == y->p_ref[i] && x->p_pri[i] == y->p_pri[i] && x->p_pgno[i] == y->p_pgno[i]
    && x->p_subno[i] == y->p_subno[i] && x->p_net[i] == y->p_net[i] && x->p_fn[i] == y->p_fn[i] && x->p_nat[i] == y->p_nat[i] && x->p_flags[i] == y->p_flags[i]
    && x->p_m0[i] == y->p_m0[i] && x->p_size[i] == y->p_size[i]));
}
/* content and key of page i unchanged (what a holder of a reference relies on) */
static int page_intact(const struct view *x, const struct view *y, int i)
{
  return y->p_live[i] && x->p_pgno[i] == y->p_pgno[i] && x->p_subno[i] == y->p_subno[i] && x->p_net[i] == y->p_net[i] && x->p_fn[i] == y->p_fn[i]
    && x->p_nat[i] == y->p_nat[i] && x->p_flags[i] == y->p_flags[i] && x->p_m0[i] == y->p_m0[i] && x->p_size[i] == y->p_size[i];
}
/* sequence y == sequence x without the elements flagged in gone[] (gone may be NULL) */
static int seq_without(const int *x, int xn, const int *y, int yn, const int *gone)
{
  int k, j = 0, ok = 1;
  for (k = 0; k < NP; k++) if (k < xn && !(gone && gone[x[k]])) { ok &= j < yn && y[j < NP ? j : 0] == x[k]; j++; }
  return ok && j == yn;
}
static int seq_minus(const int *x, int xn, const int *y, int yn, int e)
{
  int g[NP], i; for (i = 0; i < NP; i++) g[i] = i == e;
  return seq_without(x, xn, y, yn, g);
}
static int seq_eq(const int *x, int xn, const int *y, int yn) { return seq_without(x, xn, y, yn, NULL); }
static int stat_eq(const struct ttx_page_stat *x, const struct ttx_page_stat *y)
{
  return x->page_type == y->page_type && x->charset_code == y->charset_code && x->subcode == y->subcode && x->flags == y->flags
    && x->n_subpages == y->n_subpages && x->max_subpages == y->max_subpages && x->subno_min == y->subno_min && x->subno_max == y->subno_max;
}
/* the decoder-owned part of a page statistic, which no cache operation may touch */
static int stat_decoder_part_eq(const struct ttx_page_stat *x, const struct ttx_page_stat *y)
{ return x->page_type == y->page_type && x->charset_code == y->charset_code && x->subcode == y->subcode && x->flags == y->flags; }
static int net_same(const struct view *x, const struct view *y, int n)
{
  int a, ok = x->n_live[n] == y->n_live[n];
  if (!x->n_live[n]) return ok;
  ok &= x->n_ref[n] == y->n_ref[n] && x->n_zombie[n] == y->n_zombie[n] && x->n_cached[n] == y->n_cached[n] && x->n_refd[n] == y->n_refd[n] && x->n_maxc[n] == y->n_maxc[n];
  for (a = 0; a < NA; a++) ok &= stat_eq(&x->st[n][a], &y->st[n][a]);
  return ok;
}
static int netseq_without(const struct view *x, const struct view *y, const int *gone, int skip_head)
{
  int k, j = skip_head, ok = 1;
  for (k = 0; k < NN; k++) if (k < x->nn && !(gone && gone[x->ns[k]])) { ok &= j < y->nn && y->ns[j < NN ? j : 0] == x->ns[k]; j++; }
  return ok && j == y->nn;
}
static int nets_same(const struct view *x, const struct view *y)
{
  int n, ok = x->ca_nets == y->ca_nets && netseq_without(x, y, NULL, 0);
  for (n = 0; n < NN; n++) ok &= net_same(x, y, n);
  return ok;
}
static int lists_without(const struct view *x, const struct view *y, const int *gone)
{
  int a, ok = 1;
  for (a = 0; a < NA; a++) ok &= seq_without(x->hs[a], x->hn[a], y->hs[a], y->hn[a], gone);
  ok &= seq_without(x->ps, x->pn, y->ps, y->pn, gone) && seq_without(x->rs, x->rn, y->rs, y->rn, gone);
  return ok;
}
static int all_same(const struct view *x, const struct view *y)
{
  int i, ok = nets_same(x, y) && x->ca_pages == y->ca_pages && x->ca_mem == y->ca_mem && x->ca_limit == y->ca_limit;
  for (i = 0; i < NP; i++) ok &= page_same(x, y, i);
  return ok && lists_without(x, y, NULL);
}

static struct view V0, V1;
static int GP[NP], GN[NN];          /* expected-gone flags */

static int ref_digit_gt(unsigned v, unsigned max) { int k; for (k = 0; k < 8; k++) if (((v >> (4 * k)) & 15) > ((max >> (4 * k)) & 15)) return 1; return 0; }
/* EN 300 706 Annex A.1 as the cache documents it: under which subpage number a received (pgno, subcode) is
 * stored and which stored versions it supersedes (those equal under *mask) */
static void ref_put_key(int pgno, int subno, int page_type, int *s2, int *mask)
{
  *s2 = subno; *mask = 0;
  if (!ref_is_bcd((unsigned) pgno)) { *mask = 0x0F; return; }           /* hex page: S1 is the subpage number */
  if (subno == 0) return;                                               /* no subpages: one version */
  if (page_type == VBI_NONSTD_SUBPAGES || subno >= 0x0100) {            /* clock / rolling page: one version, subcode = time */
    if (ref_digit_gt((unsigned) subno, 0x2959) || subno > 0x2300) *s2 = 0;
    return;
  }
  if (ref_digit_gt((unsigned) subno, 0x79)) { *s2 = 0; return; }       /* not a subpage number: one version */
  *mask = 0xFF;                                                         /* page with subpages: all versions */
}

/* ================================================================ obligations */

/* vbi_cache_new() establishes the invariant (INIT |= I) with the documented defaults */
V_HARNESS(h_new)
{
  V_INIT();
  CA = vbi_cache_new();
  V_ASSERT(CA != NULL, "new_nonnull");
  V_ASSERT(audit(&V0), "new_audit");
  V_ASSERT(V0.ca_pages == 0 && V0.ca_mem == 0 && V0.ca_limit == (1u << 30) && V0.ca_ref == 1 && V0.nn == 0 && CA->n_networks_limit == 1, "new_defaults");
  vbi_cache_delete(CA);
  V_ASSERT(n_alloc == 1 && n_free == 1, "new_delete_frees");
  V_END();
}

/* _vbi_cache_get_page: returns the first page on the bucket's chain (= most recently stored or looked up)
 * whose key matches under the mask, NULL iff none; takes a reference; makes it the chain head */
V_HARNESS(h_get)
{
  unsigned nsel, psel; int pgno, subno, mask, e, i, a, net; cache_page *r;
  V_INIT();
  build_state(NP);
  nsel = in_u8(); subno = (int) in_u32(); mask = (int) in_u32();
  V_ASSUME(nsel < NN && net_live[nsel]);
  psel = C10_P;      /* operation's page number: concrete (grid): alphabet index, or NA.. = invalid numbers */
  pgno = psel < NA ? PGA[psel] : psel == NA ? 0x1FF : psel == NA + 1 ? 0x0FF : 0x900;
  V_ASSERT(audit(&V0), "pre_audit");
  net = (int) nsel;

  r = _vbi_cache_get_page(CA, net_ptr[nsel], pgno, subno, mask);

  V_ASSERT(audit(&V1), "post_audit");
  e = psel < NA ? first_match(&V0, net, pgno, subno, subno == VBI_ANY_SUBNO ? 0 : mask) : -1;
  V_ASSERT((e < 0) == (r == NULL), "get_found_iff_stored");
  if (e < 0) {
    V_ASSERT(all_same(&V0, &V1), "get_miss_changes_nothing");
    V_REACH("miss");
  } else {
    int ab = bucket_first(pga_index(pgno));
    V_ASSERT(r == pg_ptr[e], "get_returns_first_match");
    V_ASSERT(page_intact(&V0, &V1, e) && V1.p_ref[e] == V0.p_ref[e] + 1 && V1.p_pri[e] == V0.p_pri[e], "get_page_intact_ref_plus_one");
    for (i = 0; i < NP; i++) if (i != e) V_ASSERT(page_same(&V0, &V1, i), "get_other_pages_untouched");
    V_ASSERT(V1.hn[ab] == V0.hn[ab] && V1.hs[ab][0] == e && seq_minus(V0.hs[ab], V0.hn[ab], &V1.hs[ab][1], V1.hn[ab] - 1, e), "get_moves_to_chain_head");
    for (a = 0; a < NA; a++) if (a != ab) V_ASSERT(seq_eq(V0.hs[a], V0.hn[a], V1.hs[a], V1.hn[a]), "get_other_chains_untouched");
    if (V0.p_ref[e] == 0) {
      V_ASSERT(seq_minus(V0.ps, V0.pn, V1.ps, V1.pn, e) && V1.rn == V0.rn + 1 && V1.rs[V0.rn] == e && seq_eq(V0.rs, V0.rn, V1.rs, V0.rn), "get_first_ref_moves_to_referenced_tail");
      V_ASSERT(V1.ca_mem == V0.ca_mem - V0.p_size[e] && V1.n_refd[net] == V0.n_refd[net] + 1 && V1.n_zombie[net] == 0, "get_first_ref_accounting");
      V_REACH("first_ref");
    } else {
      V_ASSERT(seq_eq(V0.ps, V0.pn, V1.ps, V1.pn) && seq_eq(V0.rs, V0.rn, V1.rs, V1.rn) && V1.ca_mem == V0.ca_mem && V1.n_refd[net] == V0.n_refd[net]
               && V1.n_zombie[net] == V0.n_zombie[net], "get_more_refs_lists_unchanged");
    }
    V_ASSERT(V1.ca_pages == V0.ca_pages && V1.n_cached[net] == V0.n_cached[net] && V1.n_ref[net] == V0.n_ref[net], "get_counters");
    for (i = 0; i < NN; i++) if (i != net) V_ASSERT(net_same(&V0, &V1, i), "get_other_networks_untouched");
    V_ASSERT(netseq_without(&V0, &V1, NULL, 0), "get_network_order_unchanged");
    V_REACH("hit");
  }
  V_END();
}

/* _vbi_cache_put_page */
#ifndef C10_PUT_FN
#define C10_PUT_FN C10_FN
#endif
#ifndef C10_PUT_X26
#define C10_PUT_X26 C10_X26
#endif
#define C10_PUT_X28 C10_X28
#ifdef VERIF_CBMC
#define BODY_LAST (88 + C10_DATA - 1)
#else
#define BODY_LAST (C10_PSIZE - 1)
#endif
static cache_page *SRCP;            /* exact-size source object: reading beyond cache_page_size(src) is a bounds failure */
#define SRC (*SRCP)
static void src_new(void)
{
#ifdef VERIF_CBMC
  SRCP = (cache_page *) &SRCO;
#else
  SRCP = (cache_page *) c10_calloc(1, C10_PUT_PSIZE);
#endif
}
V_HARNESS(h_put)
{
  unsigned nsel, psel, size; int pgno, subno, s2, mask, v, ri, i, a, net, ab, vfree; cache_page *r; uint8_t m0, mlast;
  V_INIT();
  build_state(NP - 1);
  src_new();
  nsel = in_u8(); subno = (int) in_u16(); SRC.national = (int) in_u8(); SRC.flags = in_u32(); SRC.lop_packets = in_u32(); m0 = in_u8(); mlast = in_u8();
  V_ASSUME(nsel < NN && net_live[nsel] && (subno & ~0x3F7F) == 0);
  psel = C10_P;
  pgno = psel < NA ? PGA[psel] : 0x1FF;
  SRC.function = (enum ttx_page_function) (C10_PUT_FN); SRC.x26_designations = C10_PUT_X26; SRC.x28_designations = C10_PUT_X28;
  size = ref_size((int) (C10_PUT_FN), C10_PUT_X26, C10_PUT_X28);
  V_ASSERT(size == C10_PSIZE, "grid_function_matches_size_class");
  SRC.pgno = pgno; SRC.subno = subno;
  ((uint8_t *) SRCP)[offsetof(cache_page, data)] = m0; ((uint8_t *) SRCP)[BODY_LAST] = mlast;
  V_ASSERT(audit(&V0), "pre_audit");
  net = (int) nsel;

  r = _vbi_cache_put_page(CA, net_ptr[nsel], SRCP);

  V_ASSERT(audit(&V1), "post_audit");
  if (psel >= NA) {
    V_ASSERT(r == NULL && all_same(&V0, &V1), "put_filler_page_number_rejected");
    V_REACH("rejected");
  } else {
    ref_put_key(pgno, subno, V0.st[net][psel].page_type, &s2, &mask);
    v = first_match(&V0, net, pgno, s2 & mask, mask);
    ri = -1; for (i = 0; i < NP; i++) if (pg_live[i] && r == pg_ptr[i]) ri = i;
    V_ASSERT(r != NULL && ri >= 0, "put_returns_live_page");
    V_ASSERT(V1.p_pgno[ri] == pgno && V1.p_subno[ri] == s2 && V1.p_fn[ri] == (int) (C10_PUT_FN) && V1.p_nat[ri] == SRC.national && V1.p_flags[ri] == SRC.flags
             && V1.p_m0[ri] == m0 && ((const uint8_t *) r)[BODY_LAST] == mlast && r->lop_packets == SRC.lop_packets && r->x26_designations == C10_PUT_X26
             && r->x28_designations == C10_PUT_X28 && V1.p_net[ri] == net && V1.p_ref[ri] == 1 && V1.p_size[ri] == size, "put_stores_copy_under_normalised_key");
#ifdef VERIF_CBMC
    V_ASSERT(MC_calls == 1 && MC_dst == (const void *) ((const char *) r + offsetof(cache_page, data)) && MC_src == (const void *) ((const char *) SRCP + offsetof(cache_page, data))
             && MC_n == C10_PSIZE - offsetof(cache_page, data) && pg_size[ri] == C10_PSIZE, "put_body_copy_stays_inside_both_allocations");
#endif
    if ((pgno & 0xFF) == 0) V_ASSERT(V1.p_pri[ri] == CACHE_PRI_SPECIAL, "put_magazine_start_page_is_special");
    vfree = v >= 0 && V0.p_ref[v] == 0;
    if (v < 0) {
      V_ASSERT(!V0.p_live[ri] && V1.ca_pages == V0.ca_pages + 1, "put_new_uses_fresh_allocation");
      V_REACH("put_new");
    } else if (vfree) {
      V_ASSERT((ri == v || !V1.p_live[v]) && V1.ca_pages == V0.ca_pages, "put_replaces_unreferenced_victim");
      V_REACH("put_replace");
    } else {
      V_ASSERT(ri != v && !V0.p_live[ri] && page_intact(&V0, &V1, v) && V1.p_ref[v] == V0.p_ref[v] && V1.p_pri[v] == CACHE_PRI_ZOMBIE && V1.ca_pages == V0.ca_pages + 1,
               "put_referenced_victim_survives_as_zombie");
      V_REACH("put_zombie");
    }
    for (i = 0; i < NP; i++) if (i != v && i != ri) V_ASSERT(page_same(&V0, &V1, i), "put_other_pages_untouched");
    ab = bucket_first(pga_index(pgno));
    V_ASSERT(V1.hn[ab] >= 1 && V1.hs[ab][0] == ri && seq_minus(V0.hs[ab], V0.hn[ab], &V1.hs[ab][1], V1.hn[ab] - 1, v), "put_new_page_is_chain_head");
    for (a = 0; a < NA; a++) if (a != ab) V_ASSERT(seq_eq(V0.hs[a], V0.hn[a], V1.hs[a], V1.hn[a]), "put_other_chains_untouched");
    V_ASSERT(seq_minus(V0.ps, V0.pn, V1.ps, V1.pn, vfree ? v : -1), "put_priority_list");
    V_ASSERT(V1.rn == V0.rn + 1 && V1.rs[V0.rn] == ri && seq_eq(V0.rs, V0.rn, V1.rs, V0.rn), "put_new_page_at_referenced_tail");
    V_ASSERT(V1.ca_mem == V0.ca_mem - (vfree ? V0.p_size[v] : 0), "put_memory_accounting");
    V_ASSERT(V1.n_refd[net] == V0.n_refd[net] + 1 && V1.n_ref[net] == V0.n_ref[net] && V1.n_zombie[net] == 0
             && V1.ca_nets == V0.ca_nets + (unsigned) V0.n_zombie[net], "put_network_accounting");
    for (i = 0; i < NN; i++) if (i != net) V_ASSERT(net_same(&V0, &V1, i), "put_other_networks_untouched");
    V_ASSERT(netseq_without(&V0, &V1, NULL, 0), "put_network_order_unchanged");
    for (a = 0; a < NA; a++) {
      V_ASSERT(stat_decoder_part_eq(&V0.st[net][a], &V1.st[net][a]), "put_decoder_statistics_untouched");
      if (a != (int) psel) V_ASSERT(stat_eq(&V0.st[net][a], &V1.st[net][a]), "put_other_page_statistics_untouched");
    }
    V_ASSERT(V1.st[net][psel].subno_min <= s2 && (s2 > 0xFF || V1.st[net][psel].subno_max >= s2), "put_subno_range_contains_new_page");
  }
  V_END();
}

/* _vbi_cache_put_page at the memory limit with an unreferenced cached page of a DIFFERENT size class, as a SEQ from the real empty cache (the INV-STEP
 * form - arbitrary pre-state, symbolic or grid-concrete limit - does not finish: put's eviction walks over a built priority list, > 600 s of symex):
 *   vbi_cache_new, add_network, put(page of size class C10_PSIZE, e.g. AIT = 1196 bytes), release it (it stays cached, unreferenced: memory_used = 1196),
 *   memory_limit := C10_LIMIT (runner grid: boundary values derived from the two sizes; vbi_cache_new sets 1 GB, with which the boundary needs ~700 000
 *   cached pages - out of reach of any bounded history, so the limit is a parameter of the sequence), put(page of size class C10_PUT_PSIZE, e.g. LOP = 1564).
 * Both page numbers are grid-concrete, both sub-codes symbolic: the second put replaces the cached page (same key) or not (then the page is evicted iff room is needed).
 * Contract of the second put: it may fail only when a page with another key would have to be given up (documented: NULL = out of memory), never when it
 * replaces the cached page or fits next to it, and never succeeds beyond the limit; the block returned has exactly the size of the new page - an allocation of another size class is never reused - and the body copy stays inside both
 * allocations; the cached page is freed exactly when it is replaced or has to make room; a failed put changes nothing; audit (accounting exact, within the limit). */
#ifndef C10_LIMIT
#define C10_LIMIT (1u << 30)
#endif
#ifndef C10_Q0
#define C10_Q0 0
#endif
#ifndef C10_Q1
#define C10_Q1 0
#endif
V_HARNESS(h_seq_limit)
{
  cache_network *cn; cache_page *r0, *r1, *srca, *srcb; int s0, s1, k0, k1, m0_, m1_, same, room, must_go, ri, i; uint8_t mk0, mk1; unsigned pt;
  const int pg0 = PGA[C10_Q0], pg1 = PGA[C10_Q1];
  V_INIT();
  CA = vbi_cache_new();
  cn = _vbi_cache_add_network(CA, NULL, 0);
  V_ASSERT(cn != NULL && audit(&V0) && V0.nn == 1, "seq_first_network");
#ifdef VERIF_CBMC
  srca = (cache_page *) &SRCO; srcb = (cache_page *) &SRCO2;
#else
  srca = (cache_page *) c10_calloc(1, C10_PSIZE); srcb = (cache_page *) c10_calloc(1, C10_PUT_PSIZE);
#endif
  s0 = (int) in_u16(); s1 = (int) in_u16(); mk0 = in_u8(); mk1 = in_u8(); pt = in_u8();
  V_ASSUME((s0 & ~0x3F7F) == 0 && (s1 & ~0x3F7F) == 0);
  V_ASSERT(ref_size((int) (C10_FN), C10_X26, C10_X28) == C10_PSIZE && ref_size((int) (C10_PUT_FN), C10_PUT_X26, C10_PUT_X28) == C10_PUT_PSIZE, "grid_functions_match_size_classes");
  cn->_pages[pg0 - 0x100].page_type = (uint8_t) pt; cn->_pages[pg1 - 0x100].page_type = (uint8_t) pt;      /* the decoder (packet.c) owns page_type */
  srca->function = (enum ttx_page_function) (C10_FN); srca->x26_designations = C10_X26; srca->x28_designations = C10_X28;
  srca->pgno = pg0; srca->subno = s0; ((uint8_t *) srca)[offsetof(cache_page, data)] = mk0;
  r0 = _vbi_cache_put_page(CA, cn, srca);
  V_ASSERT(r0 != NULL && r0 == pg_ptr[0] && pg_size[0] == C10_PSIZE, "seqlimit_first_put");
  cache_page_unref(r0);
  V_ASSERT(C10_LIMIT >= C10_PSIZE, "grid_limit_not_below_memory_used");
  CA->memory_limit = C10_LIMIT;
  V_ASSERT(audit(&V0) && V0.pn == 1 && V0.rn == 0 && V0.ca_mem == C10_PSIZE && V0.ca_pages == 1, "seqlimit_released_page_stays_cached");
  srcb->function = (enum ttx_page_function) (C10_PUT_FN); srcb->x26_designations = C10_PUT_X26; srcb->x28_designations = C10_PUT_X28;
  srcb->pgno = pg1; srcb->subno = s1; ((uint8_t *) srcb)[offsetof(cache_page, data)] = mk1;
#ifdef VERIF_CBMC
  MC_calls = 0;
#endif

  r1 = _vbi_cache_put_page(CA, cn, srcb);

  V_ASSERT(audit(&V1), "seqlimit_audit_after_put");
  ref_put_key(pg0, s0, (int) pt, &k0, &m0_); ref_put_key(pg1, s1, (int) pt, &k1, &m1_);
  same = pg0 == pg1 && ((k0 ^ k1) & m1_) == 0;              /* the new page has the key of the cached one */
  room = (unsigned long) C10_LIMIT >= C10_PUT_PSIZE && (unsigned long) C10_LIMIT - C10_PSIZE >= C10_PUT_PSIZE;      /* fits next to the cached page */
  if (!same && !room) V_REACH("eviction_needed");
  if (r1 == NULL) {
    /* "NULL on failure (out of memory)" is the documented contract; the property demands exact bookkeeping, not that put finds room whenever room could be made
       (it does not: a victim taken in the LAST pass of the eviction walks - SPECIAL priority, network held - is never followed by the `enough now?' test, so the
       put fails although giving up that page would do; reported as an observation, not asserted) */
    V_ASSERT(all_same(&V0, &V1), "seqlimit_failed_put_changes_nothing");
    V_ASSERT(!((same && (unsigned long) C10_LIMIT >= C10_PUT_PSIZE) || room), "seqlimit_put_fails_only_when_a_foreign_page_would_have_to_go");
    V_REACH("failed");
  } else {
    V_ASSERT((unsigned long) C10_LIMIT >= C10_PUT_PSIZE, "seqlimit_no_success_without_room");
    must_go = same || !room;
    ri = -1; for (i = 0; i < NP; i++) if (pg_live[i] && r1 == pg_ptr[i]) ri = i;
    V_ASSERT(ri >= 0, "seqlimit_returns_live_page");
    V_ASSERT(pg_size[ri] == C10_PUT_PSIZE && V1.p_size[ri] == C10_PUT_PSIZE, "seqlimit_block_has_the_size_of_the_new_page");
#ifdef VERIF_CBMC
    V_ASSERT(MC_calls == 1 && MC_dst == (const void *) ((const char *) r1 + offsetof(cache_page, data)) && MC_src == (const void *) ((const char *) srcb + offsetof(cache_page, data))
             && MC_n == C10_PUT_PSIZE - offsetof(cache_page, data), "seqlimit_body_copy_stays_inside_both_allocations");
#endif
    V_ASSERT(V1.p_pgno[ri] == pg1 && V1.p_subno[ri] == k1 && V1.p_fn[ri] == (int) (C10_PUT_FN) && V1.p_m0[ri] == mk1 && V1.p_ref[ri] == 1, "seqlimit_stores_copy_under_normalised_key");
    if (must_go) {
      V_ASSERT((ri == 0 || !V1.p_live[0]) && V1.ca_pages == 1 && V1.ca_mem == 0 && V1.pn == 0, "seqlimit_victim_gone_accounting_exact");
      if (same) V_REACH("replaced"); else V_REACH("evicted");
    } else {
      V_ASSERT(ri != 0 && page_same(&V0, &V1, 0) && V1.ca_pages == 2 && V1.ca_mem == V0.ca_mem, "seqlimit_cached_page_kept_when_room_suffices");
      V_REACH("kept");
    }
    V_ASSERT(V1.rn == 1 && V1.rs[0] == ri && V1.ca_mem <= C10_LIMIT, "seqlimit_new_page_held_and_within_limit");
  }
  V_END();
}

/* cache_page_ref on any live page */
#ifndef C10_SLOT
#define C10_SLOT 0
#endif
V_HARNESS(h_ref)
{
  const int e = C10_SLOT; int i, net; cache_page *r;
  V_INIT();
  build_state(NP);
  V_ASSUME(pg_live[e]);
  V_ASSERT(audit(&V0), "pre_audit");
  net = V0.p_net[e];

  r = cache_page_ref(pg_ptr[e]);

  V_ASSERT(audit(&V1), "post_audit");
#ifdef C10_MUT      /* sensitivity check (by hand): a wrong expectation must make the obligation fail */
  V_ASSERT(V1.ca_mem == V0.ca_mem, "mutant_expectation_memory_unchanged");
#endif
  V_ASSERT(r == pg_ptr[e] && page_intact(&V0, &V1, e) && V1.p_ref[e] == V0.p_ref[e] + 1 && V1.p_pri[e] == V0.p_pri[e], "ref_page_intact_ref_plus_one");
  for (i = 0; i < NP; i++) if (i != e) V_ASSERT(page_same(&V0, &V1, i), "ref_other_pages_untouched");
  for (i = 0; i < NA; i++) V_ASSERT(seq_eq(V0.hs[i], V0.hn[i], V1.hs[i], V1.hn[i]), "ref_chains_untouched");
  if (V0.p_ref[e] == 0) {
    V_ASSERT(seq_minus(V0.ps, V0.pn, V1.ps, V1.pn, e) && V1.rn == V0.rn + 1 && V1.rs[V0.rn] == e && seq_eq(V0.rs, V0.rn, V1.rs, V0.rn), "ref_first_ref_moves_to_referenced_tail");
    V_ASSERT(V1.ca_mem == V0.ca_mem - V0.p_size[e] && V1.n_refd[net] == V0.n_refd[net] + 1 && V1.n_zombie[net] == 0
             && V1.ca_nets == V0.ca_nets + (unsigned) V0.n_zombie[net], "ref_first_ref_accounting");
    V_REACH("first_ref");
  } else {
    V_ASSERT(all_same(&V0, &V1) == 0 && seq_eq(V0.ps, V0.pn, V1.ps, V1.pn) && seq_eq(V0.rs, V0.rn, V1.rs, V1.rn) && V1.ca_mem == V0.ca_mem && nets_same(&V0, &V1), "ref_more_refs_only_count_changes");
    V_REACH("more_refs");
  }
  V_ASSERT(V1.ca_pages == V0.ca_pages && V1.n_cached[net] == V0.n_cached[net] && V1.n_ref[net] == V0.n_ref[net], "ref_counters");
  for (i = 0; i < NN; i++) if (i != net) V_ASSERT(net_same(&V0, &V1, i), "ref_other_networks_untouched");
  V_END();
}

/* cache_page_unref on any live page: last reference of a zombie page frees it; last reference into a zombie
 * network that nobody holds frees the network and its remaining pages */
V_HARNESS(h_unref)
{
  const int e = C10_SLOT; int i, net, ref0, netdel;
  V_INIT();
  build_state(NP);
  V_ASSUME(pg_live[e]);
  V_ASSERT(audit(&V0), "pre_audit");
  net = V0.p_net[e]; ref0 = V0.p_ref[e];

  cache_page_unref(pg_ptr[e]);

  V_ASSERT(audit(&V1), "post_audit");
  for (i = 0; i < NP; i++) GP[i] = 0;
  for (i = 0; i < NN; i++) GN[i] = 0;
  if (ref0 == 0) {
    V_ASSERT(all_same(&V0, &V1), "unref_of_unreferenced_page_is_a_noop");
    V_REACH("noop");
  } else if (ref0 >= 2) {
    V_ASSERT(page_intact(&V0, &V1, e) && V1.p_ref[e] == ref0 - 1 && V1.p_pri[e] == V0.p_pri[e], "unref_decrements");
    for (i = 0; i < NP; i++) if (i != e) V_ASSERT(page_same(&V0, &V1, i), "unref_other_pages_untouched");
    V_ASSERT(lists_without(&V0, &V1, NULL) && nets_same(&V0, &V1) && V1.ca_mem == V0.ca_mem && V1.ca_pages == V0.ca_pages, "unref_decrement_changes_nothing_else");
    V_REACH("decrement");
  } else {
    netdel = V0.n_zombie[net] && V0.n_refd[net] == 1 && V0.n_ref[net] == 0;
    if (V0.p_pri[e] == CACHE_PRI_ZOMBIE) GP[e] = 1;
    if (netdel) { GN[net] = 1; for (i = 0; i < NP; i++) if (V0.p_live[i] && V0.p_net[i] == net) GP[i] = 1; }
    for (i = 0; i < NP; i++) {
      if (GP[i]) V_ASSERT(!V1.p_live[i], "unref_last_reference_frees_zombie_page_and_dropped_network_pages");
      else if (i != e) V_ASSERT(page_same(&V0, &V1, i), "unref_other_pages_untouched");
    }
    if (!GP[e]) {
      unsigned long m = V0.ca_mem + V0.p_size[e];
      V_ASSERT(page_intact(&V0, &V1, e) && V1.p_ref[e] == 0 && V1.p_pri[e] == V0.p_pri[e], "unref_last_reference_keeps_cached_page");
      V_ASSERT(V1.pn == V0.pn + 1 && V1.ps[V0.pn] == e && seq_eq(V0.ps, V0.pn, V1.ps, V0.pn) && seq_minus(V0.rs, V0.rn, V1.rs, V1.rn, e), "unref_moves_to_priority_tail");
      for (i = 0; i < NA; i++) V_ASSERT(seq_eq(V0.hs[i], V0.hn[i], V1.hs[i], V1.hn[i]), "unref_chains_untouched");
      V_ASSERT(V1.ca_mem == m, "unref_memory_accounting");
      V_REACH("to_priority");
    } else {
      GP[e] = 1;
      V_ASSERT(lists_without(&V0, &V1, GP), "unref_lists_lose_exactly_the_freed_pages");
      if (netdel) V_REACH("network_dropped"); else V_REACH("zombie_freed");
    }
    for (i = 0; i < NN; i++) {
      if (GN[i]) V_ASSERT(!V1.n_live[i], "unref_frees_unheld_zombie_network");
      else if (i != net) V_ASSERT(net_same(&V0, &V1, i), "unref_other_networks_untouched");
      else V_ASSERT(V1.n_live[i] && V1.n_refd[i] == V0.n_refd[i] - 1 && V1.n_ref[i] == V0.n_ref[i] && V1.n_zombie[i] == V0.n_zombie[i], "unref_network_accounting");
    }
    V_ASSERT(netseq_without(&V0, &V1, GN, 0) && V1.ca_nets == V0.ca_nets, "unref_network_list");
  }
  V_END();
}

/* sum of the sizes of the pages flagged in g[] (all unreferenced in the pre state) */
static unsigned long gone_mem(const struct view *v, const int *g) { unsigned long m = 0; int i; for (i = 0; i < NP; i++) if (g[i] && v->p_live[i] && v->p_ref[i] == 0) m += v->p_size[i]; return m; }

/* cache_network_unref: dropping the last reference runs delete_surplus_networks - from the least recently used end,
 * every network nobody holds is deleted with all its pages if it is a zombie or the cache holds more than
 * n_networks_limit (= 1) networks */
V_HARNESS(h_net_unref)
{
  unsigned nsel; int i, k, m, r0; unsigned cnt;
  V_INIT();
  build_state(NP);
  nsel = in_u8();
  V_ASSUME(nsel < NN && net_live[nsel]);
  V_ASSERT(audit(&V0), "pre_audit");
  r0 = V0.n_ref[nsel];

  cache_network_unref(net_ptr[nsel]);

  V_ASSERT(audit(&V1), "post_audit");
  for (i = 0; i < NP; i++) GP[i] = 0;
  for (i = 0; i < NN; i++) GN[i] = 0;
  if (r0 == 0) {
    V_ASSERT(all_same(&V0, &V1), "netunref_of_unreferenced_network_is_a_noop");
    V_REACH("noop");
  } else {
    cnt = V0.ca_nets;
    if (r0 == 1)
      for (k = NN - 1; k >= 0; k--) if (k < V0.nn) {
        m = V0.ns[k];
        if ((m == (int) nsel ? 0 : V0.n_ref[m]) > 0 || V0.n_refd[m] > 0) continue;
        if (V0.n_zombie[m] || cnt > 1) { GN[m] = 1; if (!V0.n_zombie[m]) cnt--; }
      }
    for (i = 0; i < NP; i++) GP[i] = V0.p_live[i] && GN[V0.p_net[i]];
    for (i = 0; i < NP; i++) { if (GP[i]) V_ASSERT(!V1.p_live[i], "netunref_deleted_network_pages_freed"); else V_ASSERT(page_same(&V0, &V1, i), "netunref_other_pages_untouched"); }
    for (m = 0; m < NN; m++) {
      if (GN[m]) V_ASSERT(!V1.n_live[m], "netunref_surplus_network_freed");
      else if (m != (int) nsel) V_ASSERT(net_same(&V0, &V1, m), "netunref_other_networks_untouched");
      else V_ASSERT(V1.n_live[m] && V1.n_ref[m] == r0 - 1 && V1.n_zombie[m] == V0.n_zombie[m] && V1.n_cached[m] == V0.n_cached[m] && V1.n_refd[m] == V0.n_refd[m], "netunref_decrements");
    }
    V_ASSERT(lists_without(&V0, &V1, GP) && netseq_without(&V0, &V1, GN, 0), "netunref_lists_lose_exactly_the_freed_objects");
    V_ASSERT(V1.ca_nets == cnt && V1.ca_mem == V0.ca_mem - gone_mem(&V0, GP), "netunref_accounting");
    if (GN[nsel]) V_REACH("dropped"); else V_REACH("kept");
  }
  V_END();
}

/* _vbi_cache_add_network(ca, NULL): the channel switch.  With the cache at its network limit the least recently
 * used network nobody holds is recycled (all its pages deleted), else a new one is allocated; either way the
 * returned network has no pages */
V_HARNESS(h_add_network)
{
  int c, m, k, i, rec; cache_network *cn;
  V_INIT();
  build_state(NP);
  V_ASSERT(audit(&V0), "pre_audit");

  cn = _vbi_cache_add_network(CA, NULL, 0);

  V_ASSERT(audit(&V1), "post_audit");
  c = net_index(cn);
  V_ASSERT(cn != NULL && c >= 0, "addnet_returns_live_network");
  rec = -1;
  if (V0.ca_nets >= 1) for (k = 0; k < NN; k++) if (k < V0.nn) { m = V0.ns[k]; if (V0.n_ref[m] == 0 && V0.n_refd[m] == 0) rec = m; }
  for (i = 0; i < NN; i++) GN[i] = i == rec;
  for (i = 0; i < NP; i++) GP[i] = rec >= 0 && V0.p_live[i] && V0.p_net[i] == rec;
  if (rec >= 0) {
    V_ASSERT(c == rec && V1.ca_nets == V0.ca_nets, "addnet_recycles_lru_unheld_network");
    V_REACH("recycled");
  } else {
    V_ASSERT(!V0.n_live[c] && V1.ca_nets == V0.ca_nets + 1, "addnet_allocates_when_nothing_recyclable");
    V_REACH("allocated");
  }
  V_ASSERT(V1.nn >= 1 && V1.ns[0] == c && V1.n_ref[c] == 1 && V1.n_zombie[c] == 0 && V1.n_cached[c] == 0 && V1.n_refd[c] == 0 && V1.n_maxc[c] == 0, "addnet_fresh_network_state");
  for (i = 0; i < NP; i++) {
    if (GP[i]) V_ASSERT(!V1.p_live[i], "addnet_recycled_network_pages_freed"); else V_ASSERT(page_same(&V0, &V1, i), "addnet_other_pages_untouched");
    V_ASSERT(!V1.p_live[i] || V1.p_net[i] != c, "addnet_no_page_of_the_old_network_reachable");
  }
  for (m = 0; m < NN; m++) if (m != c) V_ASSERT(net_same(&V0, &V1, m), "addnet_other_networks_untouched");
  V_ASSERT(lists_without(&V0, &V1, GP) && netseq_without(&V0, &V1, GN, 1), "addnet_lists");
  V_ASSERT(V1.ca_mem == V0.ca_mem - gone_mem(&V0, GP), "addnet_memory_accounting");
  V_END();
}

/* _vbi_cache_get_network by one of the cache's own network pointers / cache_network_ref */
V_HARNESS(h_get_network)
{
  unsigned nsel, foreign; int i, m; cache_network *cn; static vbi_network FOREIGN;
  V_INIT();
  build_state(NP);
  nsel = in_u8(); foreign = in_u8() & 1;
  V_ASSUME(nsel < NN && net_live[nsel]);
  V_ASSERT(audit(&V0), "pre_audit");

  cn = _vbi_cache_get_network(CA, foreign ? &FOREIGN : &net_ptr[nsel]->network);

  V_ASSERT(audit(&V1), "post_audit");
  if (foreign) {
    V_ASSERT(cn == NULL && all_same(&V0, &V1), "getnet_unknown_network_not_found");
    V_REACH("unknown");
  } else {
    for (i = 0; i < NN; i++) GN[i] = i == (int) nsel;
    V_ASSERT(cn == net_ptr[nsel] && V1.n_ref[nsel] == V0.n_ref[nsel] + 1 && V1.n_zombie[nsel] == 0 && V1.ca_nets == V0.ca_nets + (unsigned) V0.n_zombie[nsel]
             && V1.n_cached[nsel] == V0.n_cached[nsel] && V1.n_refd[nsel] == V0.n_refd[nsel], "getnet_takes_reference_and_revives");
    V_ASSERT(V1.nn == V0.nn && V1.ns[0] == (int) nsel && netseq_without(&V0, &V1, GN, 1), "getnet_moves_to_list_head");
    for (m = 0; m < NN; m++) if (m != (int) nsel) V_ASSERT(net_same(&V0, &V1, m), "getnet_other_networks_untouched");
    for (i = 0; i < NP; i++) V_ASSERT(page_same(&V0, &V1, i), "getnet_pages_untouched");
    V_ASSERT(lists_without(&V0, &V1, NULL) && V1.ca_mem == V0.ca_mem, "getnet_lists_untouched");
    cn = cache_network_ref(cn);
    V_ASSERT(cn == net_ptr[nsel] && audit(&V1) && V1.n_ref[nsel] == V0.n_ref[nsel] + 2, "netref_increments");
    V_REACH("found");
  }
  V_END();
}

/* vbi_cache_purge: every unreferenced page is freed; a network nobody holds (no reference, no referenced page) is
 * freed, any other becomes a zombie ("marked for deletion when unreferenced": cache_page_unref / cache_network_unref
 * obligations show the deletion); referenced pages stay intact and reachable for their holders */
V_HARNESS(h_purge)
{
  int i, m; unsigned freed[NN];
  V_INIT();
  build_state(NP);
  V_ASSERT(audit(&V0), "pre_audit");

  vbi_cache_purge(CA);

  V_ASSERT(audit(&V1), "post_audit");
  for (m = 0; m < NN; m++) freed[m] = 0;
  for (i = 0; i < NP; i++) { GP[i] = V0.p_live[i] && V0.p_ref[i] == 0; if (GP[i]) freed[V0.p_net[i]]++; }
  for (m = 0; m < NN; m++) GN[m] = V0.n_live[m] && V0.n_ref[m] == 0 && V0.n_refd[m] == 0;
  for (i = 0; i < NP; i++) if (V0.p_live[i]) {
    if (GP[i]) V_ASSERT(!V1.p_live[i], "purge_frees_unreferenced_pages");
    else { V_ASSERT(page_same(&V0, &V1, i), "purge_referenced_page_untouched"); V_REACH("page_kept"); }
  }
  for (m = 0; m < NN; m++) if (V0.n_live[m]) {
    if (GN[m]) V_ASSERT(!V1.n_live[m], "purge_frees_unheld_networks");
    else { V_ASSERT(V1.n_live[m] && V1.n_zombie[m] == 1 && V1.n_ref[m] == V0.n_ref[m] && V1.n_refd[m] == V0.n_refd[m] && V1.n_cached[m] == V0.n_cached[m] - freed[m], "purge_held_network_becomes_zombie"); V_REACH("net_zombie"); }
  }
  V_ASSERT(V1.pn == 0 && lists_without(&V0, &V1, GP) && netseq_without(&V0, &V1, GN, 0) && V1.ca_nets == 0 && V1.ca_mem == 0, "purge_lists_and_accounting");
  V_END();
}

/* vbi_cache_delete with no reference outstanding: every allocation is freed (the allocator model counts) */
V_HARNESS(h_delete)
{
  int i;
  V_INIT();
  build_state(NP);
  for (i = 0; i < NP; i++) V_ASSUME(!pg_live[i] || pg_ptr[i]->ref_count == 0);
  for (i = 0; i < NN; i++) V_ASSUME(!net_live[i] || net_ptr[i]->ref_count == 0);
  V_ASSERT(audit(&V0), "pre_audit");

  vbi_cache_delete(CA);

  V_ASSERT(n_free == n_alloc && !ca_live, "delete_frees_every_allocation");
  for (i = 0; i < NP; i++) V_ASSERT(!pg_live[i], "delete_frees_pages");
  for (i = 0; i < NN; i++) V_ASSERT(!net_live[i], "delete_frees_networks");
  V_END();
}

/* ---------------------------------------------------------------- SEQ-k from the empty cache
 * vbi_cache_new(), one network (_vbi_cache_add_network as vbi_decoder does), then C10_K operations.  Kind and page
 * number of each operation are concrete (grid: C10_O<k> in 'P' put, 'G' get, 'U' unref of a page the harness
 * holds, 'N' channel switch = cache_network_unref + _vbi_cache_add_network; C10_Q<k> alphabet index), subpage
 * numbers, masks, which held page is released and the decoder's page type are symbolic.  After every operation
 * the audit must hold and the result is compared with a reference map: a recency-ordered list of
 * (page number, stored subpage number, the pointer put returned). */
#ifndef C10_K
#define C10_K 3
#endif
#ifndef C10_O0
#define C10_O0 'P'
#endif
#ifndef C10_O1
#define C10_O1 'P'
#endif
#ifndef C10_O2
#define C10_O2 'G'
#endif
#ifndef C10_O3
#define C10_O3 'U'
#endif
#ifndef C10_Q0
#define C10_Q0 0
#endif
#ifndef C10_Q1
#define C10_Q1 0
#endif
#ifndef C10_Q2
#define C10_Q2 0
#endif
#ifndef C10_Q3
#define C10_Q3 0
#endif
#define MAXK 4
static const int SEQ_OP[MAXK] = { C10_O0, C10_O1, C10_O2, C10_O3 };
static const int SEQ_PG[MAXK] = { C10_Q0, C10_Q1, C10_Q2, C10_Q3 };
struct ment { int used, pgno, subno; cache_page *cp; uint8_t m0; };       /* reference map entry, [0] = most recent */
static struct ment MAP[MAXK];
static int map_n;
static cache_page *HELD[2 * MAXK]; static int held_n;
static int map_find(int pgno, int subno, int mask)
{ int k, r = -1; for (k = MAXK - 1; k >= 0; k--) if (k < map_n && MAP[k].pgno == pgno && ((MAP[k].subno ^ subno) & mask) == 0) r = k; return r; }
static void map_remove(int j) { int k; for (k = 0; k < MAXK - 1; k++) if (k >= j) MAP[k] = MAP[k + 1]; map_n--; }
static void map_front(struct ment e) { int k; for (k = MAXK - 1; k > 0; k--) MAP[k] = MAP[k - 1]; MAP[0] = e; map_n++; }

V_HARNESS(h_seq)
{
  int k, j; cache_network *cn;
  V_INIT();
  CA = vbi_cache_new();
  cn = _vbi_cache_add_network(CA, NULL, 0);
  V_ASSERT(cn != NULL && audit(&V0) && V0.nn == 1 && V0.n_ref[0] == 1, "seq_first_network");
  src_new();
  for (k = 0; k < C10_K; k++) {
    const int op = SEQ_OP[k], pgno = PGA[SEQ_PG[k]];
    unsigned subno = in_u16(), mask = in_u32(), hsel = in_u8(), ptype = in_u8(); uint8_t m0 = in_u8();
    if (op == 'P') {
      int s2, m, v; cache_page *r; struct ment e;
      V_ASSUME((subno & ~0x3F7Fu) == 0);
      cn->_pages[pgno - 0x100].page_type = (uint8_t) ptype;       /* the decoder (packet.c) owns page_type */
      SRC.function = (enum ttx_page_function) (C10_FN); SRC.x26_designations = C10_X26; SRC.x28_designations = C10_X28;
      SRC.pgno = pgno; SRC.subno = (int) subno; ((uint8_t *) SRCP)[offsetof(cache_page, data)] = m0;
      r = _vbi_cache_put_page(CA, cn, SRCP);
      V_ASSERT(r != NULL, "seq_put_succeeds");
#ifdef VERIF_CBMC
      V_ASSERT(MC_dst == (const void *) ((const char *) r + offsetof(cache_page, data)) && MC_src == (const void *) ((const char *) SRCP + offsetof(cache_page, data))
               && MC_n == C10_PSIZE - offsetof(cache_page, data), "seq_put_body_copy_stays_inside_both_allocations");
#endif
      ref_put_key(pgno, (int) subno, (int) ptype, &s2, &m);
      v = map_find(pgno, s2 & m, m);
      if (v >= 0) map_remove(v);
      e.used = 1; e.pgno = pgno; e.subno = s2; e.cp = r; e.m0 = m0;
      map_front(e);
      V_ASSERT(r->pgno == pgno && r->subno == s2 && M0_OF(r) == m0 && r->ref_count == 1, "seq_put_result");
      HELD[held_n++] = r;
    } else if (op == 'G') {
      cache_page *r; int v;
      r = _vbi_cache_get_page(CA, cn, pgno, (int) subno, (int) mask);
      v = map_find(pgno, (int) subno, (int) subno == VBI_ANY_SUBNO ? 0 : (int) mask);
      V_ASSERT((v < 0) == (r == NULL), "seq_get_found_iff_in_map");
      if (v >= 0) {
        struct ment e = MAP[v];
        V_ASSERT(r == e.cp && r->pgno == e.pgno && r->subno == e.subno && M0_OF(r) == e.m0, "seq_get_returns_most_recent_version");
        map_remove(v); map_front(e);
        HELD[held_n++] = r;
        V_REACH("seq_hit");
      } else HELD[held_n++] = NULL;
    } else if (op == 'U') {
      V_ASSUME(hsel < (unsigned) held_n);
      for (j = 0; j < 2 * MAXK; j++) if (j == (int) hsel) { cache_page_unref(HELD[j]); HELD[j] = NULL; }   /* NULL: no-op by contract */
    } else {                                                      /* 'N': vbi_chsw_reset */
      cache_network_unref(cn);
      cn = _vbi_cache_add_network(CA, NULL, 0);
      V_ASSERT(cn != NULL, "seq_switch_gets_network");
      map_n = 0;                                                  /* no page of the old network is reachable */
    }
    V_ASSERT(audit(&V1), "seq_audit_after_every_operation");
    /* every map entry is a live, non-zombie page of the current network with that key; nothing else is */
    { int cnt = 0, i;
      for (i = 0; i < NP; i++) if (V1.p_live[i] && V1.p_pri[i] != CACHE_PRI_ZOMBIE && net_ptr[V1.p_net[i]] == cn) cnt++;
      V_ASSERT(cnt == map_n, "seq_map_size");
      for (j = 0; j < MAXK; j++) if (j < map_n) {
        int ok = 0;
        for (i = 0; i < NP; i++) if (V1.p_live[i] && pg_ptr[i] == MAP[j].cp) ok = V1.p_pri[i] != CACHE_PRI_ZOMBIE && V1.p_pgno[i] == MAP[j].pgno && V1.p_subno[i] == MAP[j].subno && V1.p_m0[i] == MAP[j].m0;
        V_ASSERT(ok, "seq_map_entry_is_cached_intact");
      }
    }
#ifdef C10_RANGE
    /* what _vbi_cache_foreach_page (vbi_search) and vbi_cache_hi_subno rely on: the subpage range recorded for a page
     * number covers every cached subpage (subpage numbers proper, 0 .. 0x79) */
    { int i;
      for (i = 0; i < NP; i++) if (V1.p_live[i] && V1.p_pri[i] != CACHE_PRI_ZOMBIE && net_ptr[V1.p_net[i]] == cn && V1.p_subno[i] <= 0x79) {
        const struct ttx_page_stat *ps = &cn->_pages[V1.p_pgno[i] - 0x100];
        V_ASSERT(ps->subno_min <= V1.p_subno[i] && V1.p_subno[i] <= ps->subno_max, "seq_subno_range_covers_cached_subpages");
      }
    }
#endif
#ifdef C10_MINMAX
    { int a; for (a = 0; a < NA; a++) { const struct ttx_page_stat *ps = &cn->_pages[PGA[a] - 0x100];
        V_ASSERT(ps->n_subpages == 0 || ps->subno_min <= ps->subno_max, "seq_subno_min_le_max_when_cached"); } }
#endif
  }
#ifdef C10_RELEASE
  /* release everything: every allocation is freed.  NOT part of any shipped obligation: cache_page_unref with a
   * symbolic memory_used explores delete_surplus_pages(), vbi_cache_delete() walks ca->priority - symex of both
   * did not finish (see the report); kept for native runs (LeakSanitizer) */
  for (j = 0; j < 2 * MAXK; j++) if (j < held_n) cache_page_unref(HELD[j]);
  V_ASSERT(audit(&V1) && V1.rn == 0, "seq_audit_after_release");
  cache_network_unref(cn);
  vbi_cache_delete(CA);
  V_ASSERT(n_free == n_alloc && !ca_live, "seq_release_frees_every_allocation");
#endif
  V_END();
}

/* _vbi_cache_foreach_page (the walk vbi_search runs): from a state in which the recorded subpage range of every
 * page number covers its cached subpages, the walk visits the start page (if cached), then every other cached
 * page of the network exactly once in page/subpage order, wraps once and stops where the callback says so */
#ifndef C10_DIR
#define C10_DIR 1
#endif
static struct { int n; cache_page *cp[8]; int wrapped[8]; } FE;
static int fe_cb(cache_page *cp, vbi_bool wrapped, void *ud)
{
  (void) ud;
  if (FE.n < 8) { FE.cp[FE.n] = cp; FE.wrapped[FE.n] = wrapped; }
  FE.n++;
  V_ASSERT(cp != NULL && cp->ref_count >= 1, "foreach_callback_gets_a_referenced_page");
  return wrapped ? 1 : 0;
}
static int key_lt(const struct view *v, int i, int j) { return v->p_pgno[i] < v->p_pgno[j] || (v->p_pgno[i] == v->p_pgno[j] && v->p_subno[i] < v->p_subno[j]); }
V_HARNESS(h_foreach)
{
  int pgno, subno, i, j, k, r, m[NP], nm = 0, exp[NP + 2], ne = 0, start = -1, first;
  V_INIT();
  build_state(NP);
  subno = in_u8(); V_ASSUME(subno <= 1);
  pgno = PGA[C10_P];
  V_ASSERT(audit(&V0), "pre_audit");
  for (i = 0; i < NP; i++) { m[i] = V0.p_live[i] && V0.p_net[i] == 0 && V0.p_pri[i] != CACHE_PRI_ZOMBIE; if (m[i]) nm++; }
  V_ASSUME(nm >= 1);                                     /* a network holding nothing but zombies is not walked (see report) */
  for (i = 0; i < NP; i++) if (m[i]) {
    const struct ttx_page_stat *ps = &V0.st[0][pga_index(V0.p_pgno[i])];
    V_ASSUME(V0.p_subno[i] <= 1 && ps->subno_min <= V0.p_subno[i] && V0.p_subno[i] <= ps->subno_max);
    for (j = 0; j < i; j++) if (m[j]) V_ASSUME(V0.p_pgno[i] != V0.p_pgno[j] || V0.p_subno[i] != V0.p_subno[j]);
  }
  for (k = 0; k < NA; k++) V_ASSUME(V0.st[0][k].subno_max <= 1);

  r = _vbi_cache_foreach_page(CA, net_ptr[0], pgno, subno, C10_DIR, fe_cb, NULL);

  V_ASSERT(audit(&V1), "post_audit");
  /* the walk looks pages up (get + unref): list ORDER changes (a visited page becomes most recently used), nothing else */
  for (i = 0; i < NP; i++) V_ASSERT(page_same(&V0, &V1, i), "foreach_pages_untouched");
  /* (looking up an unreferenced page of a zombie network revives the network: cache_page_ref) */
  V_ASSERT(V1.n_ref[0] == V0.n_ref[0] && V1.n_cached[0] == V0.n_cached[0] && V1.n_refd[0] == V0.n_refd[0] && V1.n_zombie[0] <= V0.n_zombie[0]
           && V1.ca_nets == V0.ca_nets + (unsigned) (V0.n_zombie[0] - V1.n_zombie[0]) && netseq_without(&V0, &V1, NULL, 0), "foreach_network_untouched");
  for (k = 0; k < NA; k++) V_ASSERT(stat_eq(&V0.st[0][k], &V1.st[0][k]), "foreach_statistics_untouched");
  for (k = 1; k < NN; k++) V_ASSERT(net_same(&V0, &V1, k), "foreach_other_networks_untouched");
  V_ASSERT(V1.ca_mem == V0.ca_mem && V1.ca_pages == V0.ca_pages && V1.pn == V0.pn && V1.rn == V0.rn, "foreach_counters_untouched");
  /* expected visits: start page, then the others in walk order, then (wrapped) the first page of the cycle */
  for (i = 0; i < NP; i++) if (m[i] && V0.p_pgno[i] == pgno && V0.p_subno[i] == subno) start = i;
  if (start >= 0) exp[ne++] = start;
  for (k = 0; k < NP; k++) {                               /* selection sort of the pages beyond the start key */
    int best = -1;
    for (i = 0; i < NP; i++) if (m[i] && i != start) {
      int beyond = C10_DIR > 0 ? (V0.p_pgno[i] > pgno || (V0.p_pgno[i] == pgno && V0.p_subno[i] > subno)) : (V0.p_pgno[i] < pgno || (V0.p_pgno[i] == pgno && V0.p_subno[i] < subno));
      int taken = 0;
      for (j = 0; j < NP + 2; j++) if (j < ne && exp[j] == i) taken = 1;
      if (beyond && !taken && (best < 0 || (C10_DIR > 0 ? key_lt(&V0, i, best) : key_lt(&V0, best, i)))) best = i;
    }
    if (best >= 0) exp[ne++] = best;
  }
  first = -1;
  for (i = 0; i < NP; i++) if (m[i] && (first < 0 || (C10_DIR > 0 ? key_lt(&V0, i, first) : key_lt(&V0, first, i)))) first = i;
  V_ASSERT(r == 1 && FE.n == ne + 1, "foreach_visits_every_page_once_then_wraps");
  for (k = 0; k < NP + 2; k++) if (k < ne) V_ASSERT(FE.cp[k] == pg_ptr[exp[k]] && !FE.wrapped[k], "foreach_order");
  V_ASSERT(FE.cp[ne < 8 ? ne : 0] == pg_ptr[first] && FE.wrapped[ne < 8 ? ne : 0], "foreach_wraps_to_first_page");
  if (ne >= 2) V_REACH("two_before_wrap");
  V_END();
}

/* the builder alone: every constructed state satisfies the invariant (sanity of the generator) */
V_HARNESS(h_build)
{
  V_INIT();
  build_state(NP);
  V_ASSERT(audit(&V0), "pre_audit");
  V_END();
}
