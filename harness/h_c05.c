/* C05 - raw decoding never touches memory outside the raw image / the output array.
 * Layer 1 (h_slice_exact): the REAL vbi3 bit slicer on one line with arbitrary content in exact-size objects.
 * Layer 2 (h_params_lemma): vbi3_bit_slicer_set_params at broadcast parameters, closed form of the last byte read.
 * Layer 3b (h_slice_bufsize): vbi3_bit_slicer_slice output buffer size check.
 * Real unit: src/bit_slicer.c (included).  src/raw_decoder.c is linked for _vbi_service_table (layer 2).
 *
 * Known defects of the tree (see report / known_findings): with -DKNOWN_SLICER_OVERREAD the raw line object gets
 * SLACK extra bytes (exactly the over-read the closed form predicts for the grid point; the harness asserts
 * that the prediction is tight) and the lemma asserts the over-read bounds OVER_GEN/OVER_LP (samples) instead of
 * "inside the line".
 * With -DKNOWN_SLICE_BUFSIZE_UNITS the output object is sized by the payload, not by buffer_size.
 * Without these defines the harness states the property as written and is refuted on the current tree. */
#include "verif.h"
#include "src/bit_slicer.c"
#include "src/raw_decoder.h"

#ifndef FMT
#define FMT VBI_PIXFMT_YUV420
#endif
#ifndef BPS
#define BPS 1
#endif
#ifndef RATE
#define RATE 2500
#endif
#ifndef SPL
#define SPL 40
#endif
#ifndef OFF
#define OFF 0
#endif
#ifndef CRI_RATE
#define CRI_RATE 1000
#endif
#ifndef PAY_RATE
#define PAY_RATE 1000
#endif
#ifndef CRI_BITS
#define CRI_BITS 4
#endif
#ifndef FRC_BITS
#define FRC_BITS 2
#endif
#ifndef PAY_BITS
#define PAY_BITS 8
#endif
#ifndef MOD
#define MOD VBI3_MODULATION_NRZ_LSB
#endif
#ifndef SLACK
#define SLACK 0
#endif
#ifndef KNOWN_SLICER_OVERREAD
#undef SLACK
#define SLACK 0
#endif
#ifndef SHORT            /* witness against vacuity: -DSHORT=1 makes the line object one byte short */
#define SHORT 0
#endif

/* ---- closed form: index of the last byte of the line object the configured slicer can read ---------------
 * Independent reading of the algorithm (bit_slicer.c CORE/PAYLOAD/SAMPLE and low_pass_bit_slicer_Y8):
 * the CRI search visits positions p = 0 .. cri_samples-1 (in samples, after skip bytes); at position p it reads
 * the green component of samples p and p+1; when the CRI matches at p the FRC+payload bits are sampled at
 * p + ((phase_shift + k*step) >> 8) and the following sample, k = 0 .. nbits-1.
 * Low-pass: 16-sample window; the search reads samples p .. p+16, has advanced to p+1 when it matches and then
 * reads samples (p+1) + ((phase_shift + k*step) >> 8) + 0..15.
 * green_bytes: 2 for the 16-bit formats (both bytes of the pixel are loaded), else 1. */
static long c05_last_byte(const vbi3_bit_slicer *bs, unsigned nbits)
{
  unsigned bps = bs->bytes_per_sample;
  unsigned gb = (bs->func == bit_slicer_RGB16_LE || bs->func == bit_slicer_RGB16_BE) ? 2 : 1;
  unsigned long imax = (unsigned long) bs->phase_shift + (unsigned long) (nbits - 1) * bs->step;
  long a, b;
  if (bs->func == low_pass_bit_slicer_Y8) {
    a = (long) bs->skip + ((long) bs->cri_samples - 1 + 16) * bps;                 /* search phase */
    b = (long) bs->skip + ((long) bs->cri_samples + (long) (imax >> 8) + 15) * bps;  /* payload phase */
    if (nbits == 0) b = a;
    return a > b ? a : b;
  }
  a = (long) bs->skip + ((long) bs->cri_samples - 1 + 1) * bps + gb - 1;
  b = (long) bs->skip + ((long) bs->cri_samples - 1 + (long) (imax >> 8) + 1) * bps + gb - 1;
  if (nbits == 0) b = a;
  return a > b ? a : b;
}

static unsigned c05_nbits(const vbi3_bit_slicer *bs)
{ return bs->frc_bits + ((bs->endian & 2) ? bs->payload : bs->payload * 8); }

/* =========================== layer 1: real slicer, exact-size objects ================================== */
#define RAW_BYTES (SPL * BPS + SLACK - SHORT)
#define OUT_BYTES ((PAY_BITS + 7) / 8)
static _Alignas(8) uint8_t RAW[RAW_BYTES];      /* exact-size line object: any access outside is a bounds failure */
static uint8_t OUT[OUT_BYTES];                  /* exact-size payload buffer */
static vbi3_bit_slicer BS;

V_HARNESS(h_slice_exact)
{
  unsigned cri, cri_mask, frc, i;
  uint8_t out0[OUT_BYTES];
  vbi_bool ok, r;
  long last;
  V_INIT();
  in_bytes(RAW, RAW_BYTES);
  in_bytes(OUT, OUT_BYTES);
  cri = in_u32(); cri_mask = in_u32(); frc = in_u32();
  for (i = 0; i < OUT_BYTES; i++) out0[i] = OUT[i];

  _vbi3_bit_slicer_init(&BS);
  ok = vbi3_bit_slicer_set_params(&BS, FMT, RATE, OFF, SPL, cri, cri_mask, CRI_BITS, CRI_RATE, ~0u,
                                  frc, FRC_BITS, PAY_BITS, PAY_RATE, MOD);
  V_ASSERT(ok, "grid_point_accepted");          /* the grid only lists parameters the function accepts */
  V_ASSERT(BS.bytes_per_sample == BPS, "bps_as_documented");

  /* closed form tied to the real loops: it must be inside the object exactly when CBMC's pointer checks pass */
  last = c05_last_byte(&BS, c05_nbits(&BS));
#if SLACK > 0
  V_ASSERT(last == (long) SPL * BPS + SLACK - 1, "known_overread_is_exactly_SLACK_bytes");
#else
  V_ASSERT(last < (long) SPL * BPS, "closed_form_last_byte_inside_line");
#endif

  r = vbi3_bit_slicer_slice(&BS, OUT, OUT_BYTES, RAW);
  if (r) {
    V_REACH("sliced");
  } else {
    /* documented: "When the function fails, the buffer remains unmodified." */
    for (i = 0; i < OUT_BYTES; i++) V_ASSERT(OUT[i] == out0[i], "buffer_unmodified_on_failure");
    V_REACH("no_signal");
  }
  V_END();
}

/* =========================== layer 3b: output buffer size check ========================================= */
#ifndef BUFSZ
#define BUFSZ 1
#endif
#ifdef KNOWN_SLICE_BUFSIZE_UNITS
#define OUT2_BYTES (BUFSZ > OUT_BYTES ? BUFSZ : OUT_BYTES)
#else
#define OUT2_BYTES BUFSZ
#endif
static uint8_t OUT2[OUT2_BYTES];               /* the caller's buffer, exactly buffer_size bytes */
static _Alignas(8) uint8_t RAW2[SPL * BPS + 64];  /* generous line: this obligation is about the output side only */

V_HARNESS(h_slice_bufsize)
{
  unsigned cri, cri_mask, frc;
  vbi_bool ok, r;
  V_INIT();
  in_bytes(RAW2, SPL * BPS + 64);
  in_bytes(OUT2, OUT2_BYTES);
  cri = in_u32(); cri_mask = in_u32(); frc = in_u32();
  _vbi3_bit_slicer_init(&BS);
  ok = vbi3_bit_slicer_set_params(&BS, FMT, RATE, OFF, SPL, cri, cri_mask, CRI_BITS, CRI_RATE, ~0u,
                                  frc, FRC_BITS, PAY_BITS, PAY_RATE, MOD);
  V_ASSERT(ok, "grid_point_accepted");
  r = vbi3_bit_slicer_slice(&BS, OUT2, BUFSZ, RAW2);
  if (r) {
#ifndef KNOWN_SLICE_BUFSIZE_UNITS
    V_ASSERT((unsigned) PAY_BITS <= (unsigned) BUFSZ * 8, "success_only_if_buffer_holds_payload");
#endif
  }
  /* witness "sliced": the decisive outcome of this grid point is reachable - a successful slice where the buffer holds the payload,
     the refusal where it does not (a buffer too small can never be sliced into on the repaired tree) */
  if (((unsigned) BUFSZ * 8 >= (unsigned) PAY_BITS) ? r : !r) V_REACH("sliced");   /* ONE witness assertion per tag (the runner keeps the last status of a tag) */
  V_END();
}

/* =========================== layer 2: arithmetic lemma at broadcast parameters ========================== */
#ifndef ROW
#define ROW 2            /* index into the real _vbi_service_table: Teletext System B, 625 */
#endif
#ifndef OVER_GEN
#define OVER_GEN 0       /* samples beyond the line the generic slicer may read (0 = the property as written) */
#endif
#ifndef OVER_LP
#define OVER_LP 0        /* same, low-pass slicer */
#endif
#ifndef KNOWN_SLICER_OVERREAD
#undef OVER_GEN
#undef OVER_LP
#define OVER_GEN 0
#define OVER_LP 0
#endif
#ifndef RATE_MIN
#define RATE_MIN 0
#endif
#ifndef RATE_MAX
#define RATE_MAX (1u << 27)
#endif
#ifndef SPL_MAX
#define SPL_MAX 4096
#endif
extern const _vbi_service_par _vbi_service_table[];

V_HARNESS(h_params_lemma)
{
  const _vbi_service_par *par = &_vbi_service_table[ROW];
  unsigned rate, spl, off;
  vbi_bool ok;
  V_INIT();
  rate = in_u32(); spl = in_u16(); off = in_u16();
  V_ASSUME(rate >= RATE_MIN && rate <= RATE_MAX);
  V_ASSUME(spl <= SPL_MAX);
  _vbi3_bit_slicer_init(&BS);
  /* exactly the call vbi3_raw_decoder_add_services makes (raw_decoder.c:1039), sample_offset generalised */
  ok = vbi3_bit_slicer_set_params(&BS, FMT, rate, off, spl,
                                  par->cri_frc >> par->frc_bits, par->cri_frc_mask >> par->frc_bits,
                                  par->cri_bits, par->cri_rate, ~0u,
                                  par->cri_frc & ((1U << par->frc_bits) - 1), par->frc_bits,
                                  par->payload, par->bit_rate, par->modulation);
  if (ok) {
    long last = c05_last_byte(&BS, par->frc_bits + par->payload);
    V_REACH("accepted");
    V_ASSERT(BS.bytes_per_sample == BPS, "bps_as_documented");
    V_ASSERT(off <= spl && BS.cri_samples <= spl, "search_window_inside_line");
    if (BS.func == low_pass_bit_slicer_Y8) {
      V_ASSERT(last < ((long) spl + OVER_LP) * BPS, "last_byte_read_inside_line_low_pass");
      V_REACH("low_pass");
    } else {
      V_ASSERT(last < ((long) spl + OVER_GEN) * BPS, "last_byte_read_inside_line");
    }
  } else {
    V_ASSERT(BS.func == null_function, "rejected_params_leave_slicer_unusable");
    V_REACH("rejected");
  }
  V_END();
}
