/* NOT USED BY ANY OBLIGATION (no verdict: symex does not finish in 400 s, see vlib/props/C02.py asm_obs); kept as the starting point.
 * C02 - page assembly across headers (src/packet.c vbi_decode_teletext case 0): "as soon as a page has been terminated by the next header
 * carrying a different page number in its own magazine (in serial mode it may be completed earlier by a header of another magazine,
 * never later) ... exactly one page event carrying that number has been delivered for that transmission".
 *
 * h_asm_terminate: a page mXX is in progress (vt.current, function LOP, control bits symbolic); then TWO headers are decoded:
 *   H2 = header of magazine AM2 (grid; own or another magazine) with page number AP2 (grid), sub-code and control bits symbolic,
 *        the cache answers its look-up with a hit or a miss (symbolic);
 *   H3 = header of the page's OWN magazine with a different page number AP3 (grid), cache miss.
 * After H3 - the latest point the property allows - the page mXX has been handed to the cache exactly once and exactly one TTX_PAGE
 * event carries its number; a header that repeats the page's own number (AM2 == AM1, AP2 == AP1, no erase flag) does not terminate it.
 * Real unit: src/packet.c (included), src/hamm.c linked.  The prelude (type carving, environment stubs) is copied from h_packet.c;
 * here the cache stub RECORDS the page numbers it is handed and answers a store with a page (so that store_lop sends its event). */
#include "verif.h"
#include "ref_codes.h"

#define CC_H
#include <pthread.h>
#include "src/bcd.h"
#include "src/format.h"
#ifndef VBI_DECODER
#define VBI_DECODER
typedef struct vbi_decoder vbi_decoder;
#endif
struct caption { int carved_out; };

#include "src/packet.c"

#ifndef AM1
#define AM1 1          /* magazine (1..8) and page number (tens/units) of the page in progress */
#endif
#ifndef AP1
#define AP1 0x70
#endif
#ifndef AM2
#define AM2 2          /* first following header */
#endif
#ifndef AP2
#define AP2 0x70
#endif
#ifndef ASER1
#define ASER1 1       /* C11 magazine serial of the page in progress / of H2 */
#endif
#ifndef ASER2
#define ASER2 1
#endif
#ifndef AERA1
#define AERA1 0       /* C4 erase page of the page in progress / of H2 */
#endif
#ifndef AERA2
#define AERA2 0
#endif
#ifndef AHIT2
#define AHIT2 1       /* the cache look-up for H2's page: hit (1) or miss (0) */
#endif
#ifndef AP3
#define AP3 0x71       /* second following header: magazine AM1, page AP3 != AP1 */
#endif

/* ---------------- environment (everything packet.c references outside itself) ---------------- */
#define NREC 6
static unsigned ev_n; static int ev_pgno[NREC];
void vbi_send_event(vbi_decoder *vbi, vbi_event *ev)
{ (void) vbi; if (ev->type == VBI_EVENT_TTX_PAGE) { if (ev_n < NREC) ev_pgno[ev_n] = ev->ev.ttx_page.pgno; ev_n++; } }
static unsigned chsw_n;
void vbi_chsw_reset(vbi_decoder *vbi, vbi_nuid nuid) { (void) vbi; (void) nuid; chsw_n++; }
static unsigned put_n; static int put_pgno[NREC]; static int put_fn[NREC];
static cache_page STORED;          /* what a store answers with (never dereferenced by packet.c beyond unref) */
static cache_page *get_result;
cache_page *_vbi_cache_put_page(vbi_cache *ca, cache_network *cn, const cache_page *cp)
{ (void) ca; (void) cn; if (put_n < NREC) { put_pgno[put_n] = cp->pgno; put_fn[put_n] = cp->function; } put_n++; return &STORED; }
cache_page *_vbi_cache_get_page(vbi_cache *ca, cache_network *cn, vbi_pgno pgno, vbi_subno subno, vbi_subno mask)
{ (void) ca; (void) cn; (void) pgno; (void) subno; (void) mask; return get_result; }
void cache_page_unref(cache_page *cp) { (void) cp; }
unsigned int cache_page_size(const cache_page *cp) { (void) cp; return sizeof(cache_page); }
void vbi_eacem_trigger(vbi_decoder *vbi, unsigned char *s) { (void) vbi; (void) s; }
int vbi_format_vt_page(vbi_decoder *vbi, vbi_page *pg, cache_page *vtp, vbi_wst_level max_level, int display_rows, vbi_bool navigation)
{ (void) vbi; (void) pg; (void) vtp; (void) max_level; (void) display_rows; (void) navigation; return 0; }
const struct vbi_cni_entry vbi_cni_table[1];
struct vbi_font_descr vbi_font_descriptors[88];
vbi_bool vbi_decode_teletext_8301_local_time(time_t *t, int *se, const uint8_t b[42]) { (void) t; (void) se; (void) b; return FALSE; }
vbi_bool vbi_decode_teletext_8302_pdc(vbi_program_id *pid, const uint8_t b[42]) { (void) pid; (void) b; return FALSE; }
vbi_bool vbi_decode_vps_cni(unsigned int *cni, const uint8_t b[13]) { (void) cni; (void) b; return FALSE; }
vbi_bool vbi_decode_vps_pdc(vbi_program_id *pid, const uint8_t b[13]) { (void) pid; (void) b; return FALSE; }
size_t _vbi_strlcpy(char *dst, const char *src, size_t size) { size_t i = 0; if (size) { for (; i + 1 < size && src[i]; i++) dst[i] = src[i]; dst[i] = 0; } return i; }

static vbi_decoder VBI;            /* static zero object (R12); the fields that matter are set below */
static cache_network CN;
static cache_page HIT;             /* the cached copy a look-up hit returns: a plain LOP */

/* a clean header packet X/0 (EN 300 706 9.3.1) for magazine mag8, page tens/units pg, sub-code sub (S1..S4 incl. C4, C5, C6), control c7_14 */
static void mk_header(uint8_t *buf, unsigned mag8, unsigned pg, unsigned sub, unsigned ctl)
{
  unsigned pmag = mag8 & 7;      /* packet number 0 */
  buf[0] = ref_ham8(pmag & 15); buf[1] = ref_ham8(pmag >> 4);
  buf[2] = ref_ham8(pg & 15); buf[3] = ref_ham8((pg >> 4) & 15);
  buf[4] = ref_ham8(sub & 15); buf[5] = ref_ham8((sub >> 4) & 15); buf[6] = ref_ham8((sub >> 8) & 15); buf[7] = ref_ham8((sub >> 12) & 15);
  buf[8] = ref_ham8(ctl & 15); buf[9] = ref_ham8((ctl >> 4) & 15);
}

V_HARNESS(h_asm_terminate)
{
  uint8_t h2[42], h3[42]; struct raw_page *r1 = &VBI.vt.raw_page[AM1 & 7];
  unsigned sub2, ctl2, sub3, ctl3, fl1, k, puts1 = 0, evs1 = 0; vbi_bool hit2; const int pg1 = AM1 * 256 + AP1;
  V_INIT();
  in_bytes(h2 + 10, 32); in_bytes(h3 + 10, 32);
  sub2 = in_u16(); ctl2 = in_u8(); sub3 = in_u16(); ctl3 = in_u8(); fl1 = in_u32(); hit2 = in_bool();
  /* serial/parallel (C11) and erase (C4) of the page in progress and of H2, and the cache's answer to H2, are case-split on the runner grid: they
     decide WHICH raw page the decoder terminates; symbolic, every store would go through a two-way pointer into the 220 KB decoder (R8: symex stalls) */
  /* the remaining control bits and the sub-codes of the page in progress and of H2 are concrete too (0, C7 set): store_lop branches on C5..C10 of the
     page it stores; with symbolic bits both sides (incl. the channel switch heuristic over the symbolic header text) are explored: no verdict in 400 s */
  fl1 = (ASER1 ? C11_MAGAZINE_SERIAL : 0) | (AERA1 ? C4_ERASE_PAGE : 0);
  ctl2 = 0x01u | (ASER2 ? 0x10u : 0); sub2 = (AERA2 ? 0x80u : 0);
  hit2 = AHIT2;
  mk_header(h2, AM2, AP2, sub2, ctl2); mk_header(h3, AM1, AP3, sub3, ctl3);

  VBI.cn = &CN; VBI.event_mask = VBI_EVENT_TTX_PAGE; VBI.vt.max_level = VBI_WST_LEVEL_1p5;
  /* the page in progress: opened by an earlier header of magazine AM1; serial/parallel (C11), erase (C4) and the other control bits arbitrary,
     except that its header does not take part in the channel switch heuristic of store_lop (C7 suppress header set: roll_header FALSE), which may
     legitimately swallow a page */
  r1->page->function = PAGE_FUNCTION_LOP; r1->page->pgno = pg1; r1->page->subno = (int) (fl1 & 0x3F7F);
  r1->page->flags = (int) ((fl1 & 0xFFFFFF) | C7_SUPPRESS_HEADER);
  r1->lop_packets = 1; r1->page->lop_packets = 1;
  VBI.vt.current = r1;
  HIT.function = PAGE_FUNCTION_LOP; HIT.pgno = AM2 * 256 + AP2; HIT.lop_packets = 1;

  get_result = hit2 ? &HIT : NULL;
  (void) vbi_decode_teletext(&VBI, h2);
  get_result = NULL;
  (void) vbi_decode_teletext(&VBI, h3);

  for (k = 0; k < NREC; k++) {
    if (k < put_n && put_pgno[k] == pg1) puts1++;
    if (k < ev_n && ev_pgno[k] == pg1) evs1++;
  }
  V_ASSERT(put_n <= NREC && ev_n <= NREC, "record_room");
#if (AM2 == AM1) && (AP2 == AP1)
  /* H2 repeats the page's own number: a new transmission only if the erase flag says so; H3 terminates what is then in progress */
  V_ASSERT(puts1 >= 1, "page_stored_by_next_header_of_its_magazine");
#else
  V_ASSERT(puts1 == 1, "page_stored_exactly_once_by_next_header_of_its_magazine");
  V_ASSERT(evs1 == 1, "exactly_one_page_event_for_the_transmission");
#endif
  V_ASSERT(chsw_n == 0, "no_channel_switch_assumed");
  V_END();
}
