/* C08 - Closed Caption display memory follows EIA-608 / 47 CFR 15.119.
 *
 * Real units: src/caption.c (included textually), src/lang.c (vbi_caption_unicode, font descriptors), src/hamm.c
 * (parity table) linked.  Environment: models/c08_env.c (mutex flag model, event log, trigger log).
 * Type carving: struct teletext replaced by a stand-in (models/c08_carve.h); struct caption and everything in
 * cc.h / format.h are the real types.
 *
 * Harnesses:  h_cc_seq   SEQ skeletons from the reset state against the reference model (section 4)
 *             h_cc_fetch vbi_fetch_cc_page contract + the 64 bit word view of vbi_char (section 5)
 *             h_cc_route field 2 routing caption / XDS (section 6)
 *             h_cc_itv   ITV separator INV-STEP (section 7)
 *             h_cc_inv   one command from an arbitrary channel state: invariant + frame (h_c08_inv.c)
 *
 * Encoding facts that shape this file (all measured, see DESIGN.md section 4 and the C08 report):
 *  - the caption state lives inside the 168 KB struct caption; every pointer the code computes from data
 *    (ch = &cc->channel[chan], ch->line = pg[hidden].text + row * 34, acp = &pg[..].text[row1 * 34]) must be a
 *    syntactic constant during symbolic execution, otherwise each access rewrites the whole decoder object
 *    (a single fully symbolic pair from reset: no verdict in 200 s).  CBMC does not fold "(0x40 | x) >> 5 & 1",
 *    so every byte the decoder *dispatches* on has to be a literal at the call site: the first byte of every
 *    pair, and both bytes of every control code.
 *  - therefore a SEQ obligation is a SKELETON (macro SKEL, from the runner grid): a sequence of steps whose
 *    command class is fixed; what stays symbolic is named per step kind below (second byte of text pairs incl.
 *    its parity bit; PAC attribute / indent / underline bits, mid-row / special character code, choice among the
 *    data commands: these are fed through an N-way if / else-if chain over literals inside the harness).
 *  - the reference model (47 CFR 15.119 as quoted in /repo/test/cc608-*.xml and src/cc608_decoder.c, EIA 608-B
 *    annexes as quoted there) decodes the same bytes independently with no knowledge of the skeleton.
 *  - symex cost is dominated by accesses into the decoder object (pointer checks: six assertions per dereference,
 *    each walking the 170 KB type): the harness' own helper code has those checks switched off, copies rows out
 *    with memcpy and compares 64 bit words; --max-field-sensitivity-array-size 9 keeps the number of field
 *    symbols of the decoder small.
 *  - where src/caption.c deviates from the standard a KNOWN_<name> macro removes exactly the affected inputs
 *    from the claim (V_ASSUME in the reference model); building without the macro re-arms the assertion
 *    (obligations dev_* in vlib/props/C08.py replay each deviation natively).
 */
#include "c08_carve.h"
#include "verif.h"
#include "c08_env.h"
#include "src/caption.c"

#ifndef CH
#define CH 0                  /* caption channel under test: 0..3 = CC1..CC4; its text sibling is T1..T4 */
#endif
#define CBIT (CH & 1)
#define FIELD2 ((CH >> 1) & 1)
#ifndef LINE_NO
#define LINE_NO (FIELD2 ? 284 : 21)
#endif
#ifndef CTRL_F
#define CTRL_F 0              /* the "f" bit of miscellaneous control codes (001 c10f) */
#endif
#ifndef CC_BUILD_MASK
#define CC_BUILD_MASK 0x1FF   /* channels constructed in the CBMC build (native: always all nine are validated) */
#endif

static vbi_decoder VBI;       /* static zero object = what calloc in vbi_decoder_new leaves */

/* The automatic safety checks (pointer, bounds, overflow) stay on for the library code included above; they are
 * switched off for the harness' own helper code below: every pointer dereference check is six assertions whose
 * symbolic execution walks the 170 KB decoder type (measured: ~10 ms each, 80 % of the symex time). */
#pragma CPROVER check push
#pragma CPROVER check disable "pointer"
#pragma CPROVER check disable "pointer-overflow"
#pragma CPROVER check disable "signed-overflow"
#pragma CPROVER check disable "undefined-shift"
#pragma CPROVER check disable "pointer-primitive"

/* ======================================================================================================
 * 1. post-constructor state, built directly (DESIGN R7), validated natively against vbi_caption_init()
 * ====================================================================================================== */
static void cc_build_channel(vbi_decoder *v, int i)
{
  struct caption *cc = &v->cc; cc_channel *ch = &cc->channel[i]; int k, p;
  vbi_char ts = cc->transp_space[i >= 4];
  if (i < 4) { ch->mode = MODE_NONE; ch->row = ROWS - 1; ch->row1 = ROWS - 3; ch->roll = 3; }
  else { ch->mode = MODE_TEXT; ch->row = 0; ch->row1 = 0; ch->roll = ROWS; }
  ch->col = ch->col1 = 1; ch->nul_ct = 0; ch->time = 0.0; ch->language = NULL;
  ch->attr.opacity = VBI_OPAQUE; ch->attr.foreground = VBI_WHITE; ch->attr.background = VBI_BLACK;
  ch->hidden = 0;
  ch->line = ch->pg[0].text + ch->row * COLUMNS;
  for (p = 0; p < 2; p++) {
    vbi_page *pg = &ch->pg[p];
    pg->vbi = v; pg->pgno = i + 1; pg->subno = 0; pg->rows = ROWS; pg->columns = COLUMNS;
    pg->screen_color = 0; pg->screen_opacity = (i < 4) ? VBI_TRANSPARENT_SPACE : VBI_OPAQUE;
    pg->font[0] = vbi_font_descriptors; pg->font[1] = vbi_font_descriptors;
    pg->dirty.y0 = 0; pg->dirty.y1 = ROWS - 1; pg->dirty.roll = ROWS;
    for (k = 0; k < ROWS * COLUMNS; k++) pg->text[k] = ts;
    if (i < 8) for (k = 0; k < 8; k++) pg->color_map[k] = default_color_map[k];   /* vbi_caption_color_level leaves channel 8 alone */
  }
}

static void cc_build(vbi_decoder *v, unsigned mask)
{
  struct caption *cc = &v->cc; int i;
  for (i = 0; i < 2; i++) {
    cc->transp_space[i].foreground = VBI_WHITE; cc->transp_space[i].background = VBI_BLACK; cc->transp_space[i].unicode = 0x0020;
  }
  cc->transp_space[0].opacity = VBI_TRANSPARENT_SPACE; cc->transp_space[1].opacity = VBI_OPAQUE;
  if (mask & 0x001) cc_build_channel(v, 0);
  if (mask & 0x002) cc_build_channel(v, 1);
  if (mask & 0x004) cc_build_channel(v, 2);
  if (mask & 0x008) cc_build_channel(v, 3);
  if (mask & 0x010) cc_build_channel(v, 4);
  if (mask & 0x020) cc_build_channel(v, 5);
  if (mask & 0x040) cc_build_channel(v, 6);
  if (mask & 0x080) cc_build_channel(v, 7);
  if (mask & 0x100) cc_build_channel(v, 8);
  /* memset 0 leaves: last = {0,0}, curr_chan = 0, sub_packet 0, curr_sp NULL, xds 0, itv_buf 0, itv_count 0, info_cycle 0 */
}

#if V_NATIVE
static vbi_decoder VBI_A, VBI_B;
static vbi_page PG_A, PG_B;
#define NV(c, what) do { if (!(c)) { printf("VP-ASSERT-FAILED init_state_%s %s:%d\n", what, __FILE__, __LINE__); fflush(stdout); _exit(99); } } while (0)
/* every field of struct caption as vbi_caption_init leaves it == as cc_build constructs it */
static void cc_validate_build(void)
{
  int i, p; static int done; struct caption *a = &VBI_A.cc, *b = &VBI_B.cc;
  if (done) return; done = 1;
  memset(&VBI_A, 0xA5, sizeof VBI_A);             /* vbi_caption_init must not depend on the old contents of cc */
  VBI_A.brightness = 128; VBI_A.contrast = 64; VBI_A.event_mask = 0;
  vbi_caption_init(&VBI_A);
  cc_build(&VBI_B, 0x1FF);
  NV(a->last[0] == b->last[0] && a->last[1] == b->last[1] && a->curr_chan == b->curr_chan, "cc_scalars");
  NV(0 == memcmp(a->transp_space, b->transp_space, sizeof a->transp_space), "transp_space");
  NV(0 == memcmp(a->sub_packet, b->sub_packet, sizeof a->sub_packet) && a->curr_sp == NULL && b->curr_sp == NULL && a->xds == b->xds, "xds");
  NV(0 == memcmp(a->itv_buf, b->itv_buf, sizeof a->itv_buf) && a->itv_count == b->itv_count, "itv");
  NV(a->info_cycle[0] == b->info_cycle[0] && a->info_cycle[1] == b->info_cycle[1], "info_cycle");
  NV(a->mutex.__data.__lock == 0 && b->mutex.__data.__lock == 0, "mutex");
  for (i = 0; i < 9; i++) {
    cc_channel *x = &a->channel[i], *y = &b->channel[i];
    NV(x->mode == y->mode && x->col == y->col && x->col1 == y->col1 && x->row == y->row && x->row1 == y->row1 && x->roll == y->roll, "cursor");
    NV(x->nul_ct == y->nul_ct && x->time == y->time && x->language == y->language && x->hidden == y->hidden, "misc");
    NV(0 == memcmp(&x->attr, &y->attr, sizeof x->attr), "attr");
    NV(x->line - x->pg[x->hidden].text == y->line - y->pg[y->hidden].text && x->line == x->pg[0].text + x->row * COLUMNS, "line");
    for (p = 0; p < 2; p++) {
      NV(x->pg[p].vbi == &VBI_A && y->pg[p].vbi == &VBI_B, "pg_vbi");
      PG_A = x->pg[p]; PG_B = y->pg[p]; PG_A.vbi = NULL; PG_B.vbi = NULL;
      NV(0 == memcmp(&PG_A, &PG_B, sizeof PG_A), "page");
    }
  }
}
#endif

static void cc_prologue(void)
{
#if V_NATIVE
  cc_validate_build();
  cc_build(&VBI, 0x1FF);
#else
  cc_build(&VBI, CC_BUILD_MASK);
#endif
}

/* ======================================================================================================
 * 2. reference model: EIA-608 / 47 CFR 15.119 display memory for ONE caption channel and its text sibling
 * ======================================================================================================
 * cell (uint32_t): bits 0-15 Unicode (0 = transparent: nothing addressed / transparent space / erased),
 * 16-18 foreground, 19-21 background (vbi_color numbering), 22-23 opacity (vbi_opacity numbering), 24 underline,
 * 25 italic, 26 flash, 27-29 "the standard does not determine this attribute here" (comparison skipped):
 * 27 foreground/underline/italic, 28 flash, 29 background/opacity. */
#define A_FGUI 1u
#define A_FL 2u
#define A_BG 4u
#define A_ALL 7u
#define ROWS_ALL 0x7FFFu
#define ROWBIT(t) (1u << (t)->row)
enum { RM_NONE, RM_POP, RM_PAINT, RM_ROLL, RM_TEXT };
typedef struct { unsigned fg, bg, op, ul, it, fl, amb; } rpen;
typedef struct {
  int mode;          /* RM_* */
  int roll, base;    /* roll-up: depth 2..4, base row 0..14 */
  int row, col;      /* cursor: row 0..14, column 1..32 */
  int full;          /* a character was stored in column 32 since the cursor got there ("cursor parked") */
  int cur_amb;       /* cursor position not pinned down (only with KNOWN_EOC_MOVES_CURSOR) */
  int disp;          /* which of m[] is the displayed memory */
  int lag;           /* direct modes: characters received since the last word end / cursor command */
  int n_unk;         /* (KNOWN_EOC_ERASES_HIDDEN) non-displayed memory holds a flipped caption */
  unsigned rows;     /* rows the commands since the last comparison may have changed on the screen (bit r = row r); a hint which
                        rows to compare after a step - the whole page is compared at the end of every sequence */
  int dchg;          /* characters of the displayed memory changed since the last comparison */
  unsigned used[2];  /* rows of m[0], m[1] that may hold something (superset; concrete when the rows of the sequence are) */
  rpen pen;
  int ambcol[2][15]; /* EIA 608-B C.7: cells of the row from this column on may have adopted other attributes (a character
                        was stored to their left while they existed); 33 = none.  Conservative: stays until the memory is erased */
  uint32_t m[2][15][32];
} rchan;
static rchan RC, RT;          /* caption channel CH, text channel CH + 4 */
static unsigned r_cur;        /* 0: data on this field belongs to the caption channel, 1: to the text channel */
static int r_last_valid, r_gap; static unsigned r_last1, r_last2;   /* control code repetition */

#define CU(c) ((c) & 0xFFFFu)
static uint32_t r_mk(const rpen *p, unsigned uc)
{ return uc | (p->fg << 16) | (p->bg << 19) | (p->op << 22) | (p->ul << 24) | (p->it << 25) | (p->fl << 26) | (p->amb << 27); }

/* direct indexing (row 0..14, col 1..32; CBMC's bounds checks on these accesses double as sanity checks of the model) */
static void r_set(rchan *t, int k, int row, int col, uint32_t v)
{
  if (k) { t->dchg |= (t->disp == 1) & (CU(t->m[1][row][col - 1]) != CU(v)); t->m[1][row][col - 1] = v; t->used[1] |= 1u << row; }
  else { t->dchg |= (t->disp == 0) & (CU(t->m[0][row][col - 1]) != CU(v)); t->m[0][row][col - 1] = v; t->used[0] |= 1u << row; }
}
static uint32_t r_get(const rchan *t, int k, int row, int col)
{ return k ? t->m[1][row][col - 1] : t->m[0][row][col - 1]; }
static void r_erase(rchan *t, int k)
{
  int r, c; unsigned ne = 0;
  for (r = 0; r < 15; r++) for (c = 0; c < 32; c++) { if (k) { ne |= CU(t->m[1][r][c]); t->m[1][r][c] = 0; } else { ne |= CU(t->m[0][r][c]); t->m[0][r][c] = 0; } }
  if (k == t->disp) { t->dchg |= (ne != 0); t->rows |= k ? t->used[1] : t->used[0]; }
  if (k) t->used[1] = 0; else t->used[0] = 0;
  for (r = 0; r < 15; r++) { if (k) t->ambcol[1][r] = 33; else t->ambcol[0][r] = 33; }
}
static int r_mem_empty(const rchan *t, int k)
{ int r, c; unsigned e = 1; for (r = 0; r < 15; r++) for (c = 0; c < 32; c++) e &= ((k ? t->m[1][r][c] : t->m[0][r][c]) == 0); return (int) e; }
static int r_mems_equal(const rchan *t)
{ int r, c; unsigned e = 1; for (r = 0; r < 15; r++) for (c = 0; c < 32; c++) e &= (CU(t->m[0][r][c]) == CU(t->m[1][r][c])) & ((CU(t->m[0][r][c]) == 0) | (t->m[0][r][c] == t->m[1][r][c])); return (int) e; }
static int r_wmem(const rchan *t) { return (t->mode == RM_POP) ? (t->disp ^ 1) : t->disp; }

static void r_pen_default(rpen *p)
{ p->fg = VBI_WHITE; p->bg = VBI_BLACK; p->op = VBI_OPAQUE; p->ul = 0; p->it = 0; p->fl = 0; p->amb = 0; }

static void r_init(void)
{
  memset(&RC, 0, sizeof RC); memset(&RT, 0, sizeof RT);
  RC.mode = RM_NONE; RC.roll = 3; RC.base = 14; RC.row = 14; RC.col = 1; r_pen_default(&RC.pen);
  RT.mode = RM_TEXT; RT.row = 0; RT.col = 1; r_pen_default(&RT.pen);
  r_cur = 0; r_last_valid = 0; r_gap = 0;
  { int k_, r_; for (k_ = 0; k_ < 2; k_++) for (r_ = 0; r_ < 15; r_++) { RC.ambcol[k_][r_] = 33; RT.ambcol[k_][r_] = 33; } }
}

/* 47 CFR 15.119 (g) character set: ASCII with ten substitutions; special characters 0x30..0x3F */
static unsigned r_unicode(unsigned c)
{
  switch (c) {
  case 0x2A: return 0x00E1; case 0x5C: return 0x00E9; case 0x5E: return 0x00ED; case 0x5F: return 0x00F3;
  case 0x60: return 0x00FA; case 0x7B: return 0x00E7; case 0x7C: return 0x00F7; case 0x7D: return 0x00D1;
  case 0x7E: return 0x00F1; case 0x7F: return 0x25A0; default: return c;
  }
}
static unsigned r_special(unsigned n)
{
  static const uint16_t sp[16] = { 0x00AE, 0x00B0, 0x00BD, 0x00BF, 0x2122, 0x00A2, 0x00A3, 0x266A,
                                   0x00E0, 0x0000, 0x00E8, 0x00E2, 0x00EA, 0x00EE, 0x00F4, 0x00FB };
  unsigned i, v = 0; for (i = 0; i < 16; i++) if (i == n) v = sp[i]; return v;
}
/* colour order of the PAC and mid-row tables: white green blue cyan red yellow magenta */
static unsigned r_color(unsigned n)
{
  static const uint8_t co[7] = { VBI_WHITE, VBI_GREEN, VBI_BLUE, VBI_CYAN, VBI_RED, VBI_YELLOW, VBI_MAGENTA };
  unsigned i, v = VBI_WHITE; for (i = 0; i < 7; i++) if (i == n) v = co[i]; return v;
}

/* store one cell at the cursor and advance.  uc == 0: transparent space (erases, not displayable) */
static void r_put(rchan *t, unsigned uc, unsigned cell_amb)
{
  int k = r_wmem(t), c;
  if (t->mode == RM_NONE) return;
  t->rows |= ROWBIT(t);
#ifdef KNOWN_EOC_ERASES_HIDDEN
  if (t->mode == RM_POP) V_ASSUME(!t->n_unk);
#endif
  V_ASSUME(!t->cur_amb);
  /* EIA 608-B C.7: characters to the right of an overwritten position may adopt other attributes */
  { unsigned any = 0;
    for (c = 1; c <= 32; c++) any |= (unsigned) (c > t->col) & (CU(k ? t->m[1][t->row][c - 1] : t->m[0][t->row][c - 1]) != 0);
    if (any) { if (k) { if (t->ambcol[1][t->row] > t->col + 1) t->ambcol[1][t->row] = t->col + 1; }
               else { if (t->ambcol[0][t->row] > t->col + 1) t->ambcol[0][t->row] = t->col + 1; } } }
  if (uc) r_set(t, k, t->row, t->col, r_mk(&t->pen, uc) | (cell_amb << 27));
  else r_set(t, k, t->row, t->col, 0);
  if (t->col < 32) t->col++; else t->full = 1;                       /* (f)(1)(v): stays in column 32 */
  if (t->mode != RM_POP) t->lag = (uc != 0x20);
}

static void r_midrow(rchan *t, unsigned c2)
{
  unsigned code = (c2 >> 1) & 7;
  if (t->mode == RM_NONE) return;
  t->pen.fl = 0; t->pen.ul = c2 & 1;                                 /* (h)(1)(ii), (iii) */
  if (code < 7) { t->pen.fg = r_color(code); t->pen.it = 0; t->pen.amb &= ~(A_FGUI | A_FL); }
  else {
#ifdef KNOWN_MR_ITALIC_WHITE
    V_ASSUME(t->pen.fg == VBI_WHITE || (t->pen.amb & A_FGUI));
#endif
    t->pen.it = 1; t->pen.amb &= ~A_FL;                              /* italics keeps the colour (h)(1)(ii) */
  }
  r_put(t, 0x20, A_FGUI | A_FL);                                      /* spacing attribute (h)(1)(i); look of the space itself unspecified */
  if (t->mode != RM_POP) t->lag = 0;
}

static void r_flash_on(rchan *t)
{
  if (t->mode == RM_NONE) return;
  t->pen.fl = 1; t->pen.amb &= ~A_FL;
#ifndef KNOWN_FON_NOT_SPACING
  r_put(t, 0x20, A_FGUI | A_FL);                                      /* (h)(1)(i): Flash On is a spacing attribute */
  if (t->mode != RM_POP) t->lag = 0;
#endif
}

static void r_backspace(rchan *t)
{
  if (t->mode == RM_NONE) return;
  t->rows |= ROWBIT(t);
  V_ASSUME(!t->cur_amb);
  if (t->col > 1) {
#ifdef KNOWN_COL32_PARKED
    V_ASSUME(!t->full);
#endif
    if (!t->full) t->col--;    /* EIA 608-B C.13: at column 32, before or after it was filled, BS goes to column 31 */
    else t->col = 31;
    t->full = 0;
    r_set(t, r_wmem(t), t->row, t->col, 0);
    t->pen.amb = A_ALL;        /* attribute codes may have been erased: positional attributes undetermined in a pen model */
    if (t->mode != RM_POP) t->lag = 1;
  }
}

static void r_der(rchan *t)
{
  int c, k = r_wmem(t);
  if (t->mode == RM_NONE) return;
  t->rows |= ROWBIT(t);
  V_ASSUME(!t->cur_amb);
#ifdef KNOWN_COL32_PARKED
  V_ASSUME(!t->full);
#endif
  for (c = 1; c <= 32; c++) if (c >= t->col) r_set(t, k, t->row, c, 0);   /* (f)(1)(vii) */
  t->full = 0;
  t->pen.amb = A_ALL;          /* EIA 608-B C.14 */
  if (t->mode != RM_POP) t->lag = 0;
}

static void r_tab(rchan *t, unsigned n)
{
  unsigned i;
  if (t->mode == RM_NONE) return;
  t->rows |= ROWBIT(t);
  V_ASSUME(!t->cur_amb);
  for (i = 0; i < 3; i++) if (i < n) {
#ifdef KNOWN_TAB_ERASES
    if (!t->full) V_ASSUME(CU(r_get(t, r_wmem(t), t->row, t->col)) == 0);   /* (e)(1)(ii): cells skipped are unaffected */
#endif
    if (t->col < 32) t->col++; else t->full = 1;    /* "full" mirrors the decoder's virtual column 33; relevant only under KNOWN_COL32_PARKED */
  }
}

static void r_cr(rchan *t)
{
  int r, c, k = t->disp;
  if (t->mode == RM_NONE) return;
  t->rows |= ROWBIT(t);
  if (t->mode == RM_POP || t->mode == RM_PAINT) {
#ifdef KNOWN_CR_IN_POPON
    V_ASSUME(0);
#endif
    return;                                           /* (f)(2)(i), (f)(3)(i): no effect */
  }
  if (t->mode == RM_TEXT && t->row < 14) { t->row++; }
  else {
    int top = (t->mode == RM_TEXT) ? 0 : t->base - t->roll + 1;
    for (r = 0; r < 14; r++) for (c = 0; c < 32; c++) if (r >= top && r < t->row) { t->dchg |= (CU(t->m[k][r][c]) != CU(t->m[k][r + 1][c])); t->m[k][r][c] = t->m[k][r + 1][c]; }   /* (f)(1)(iii) */
    for (r = 0; r < 15; r++) for (c = 0; c < 32; c++) if (r == t->row) { t->dchg |= (CU(t->m[k][r][c]) != 0); t->m[k][r][c] = 0; }
    for (r = 0; r < 14; r++) if (r >= top && r < t->row) t->ambcol[k][r] = t->ambcol[k][r + 1];
    for (r = 0; r < 15; r++) if (r == t->row) t->ambcol[k][r] = 33;
    for (r = 0; r < 15; r++) if (r >= top && r <= t->row) { t->rows |= 1u << r; t->used[k] |= 1u << r; }
  }
  t->col = 1; t->full = 0; t->lag = 0;
#ifdef KNOWN_PEN_NOT_RESET_AT_ROW_START
  t->pen.amb = A_ALL;
#else
  r_pen_default(&t->pen);                              /* (h), EIA 608-B C.14: no PAC on a new row: white, no attributes */
#endif
}

static void r_pac(rchan *t, unsigned c1, unsigned c2)
{
  static const int8_t rowtab[8][2] = { {11, -1}, {1, 2}, {3, 4}, {12, 13}, {14, 15}, {5, 6}, {7, 8}, {9, 10} };
  int row = -1, col = 1, i, j, c; unsigned code = (c2 >> 1) & 7;
  for (i = 0; i < 8; i++) for (j = 0; j < 2; j++) if ((unsigned) i == (c1 & 7) && (unsigned) j == ((c2 >> 5) & 1)) row = rowtab[i][j];
  if (row < 0 || t->mode == RM_NONE) return;
  V_ASSUME(t->mode != RM_TEXT);                         /* outside: PAC while Text Mode is selected */
  row -= 1;
  t->rows |= ROWBIT(t) | (1u << row);
  if (t->pen.fl) t->pen.amb |= A_FL;                   /* 47 CFR 15.119 / EIA 608-B silent on PAC vs flash and background */
  if (t->pen.bg != VBI_BLACK || t->pen.op != VBI_OPAQUE) t->pen.amb |= A_BG;
  t->pen.amb &= ~A_FGUI;
  t->pen.ul = c2 & 1;
  if (c2 & 0x10) { t->pen.fg = VBI_WHITE; t->pen.it = 0; col = 1 + 4 * (int) code; }
  else if (code < 7) { t->pen.fg = r_color(code); t->pen.it = 0; }
  else { t->pen.fg = VBI_WHITE; t->pen.it = 1; }
  if (t->mode == RM_ROLL) {
    int nb = (row < t->roll - 1) ? t->roll - 1 : row;  /* EIA 608-B C.4 */
    if (nb != t->base) {
      t->rows = ROWS_ALL;
#ifdef KNOWN_RU_MOVE_ERASES
      V_ASSUME(r_mem_empty(t, t->disp));
#else
      { static uint32_t tmp[15][32]; int r, d = nb - t->base, k = t->disp;             /* (f)(1)(ii): window moves intact */
        for (r = 0; r < 15; r++) for (c = 0; c < 32; c++) tmp[r][c] = t->m[k][r][c];
        for (r = 0; r < 15; r++) for (c = 0; c < 32; c++) { uint32_t v = 0; int s; for (s = 0; s < 15; s++) if (s == r - d) v = tmp[s][c]; t->m[k][r][c] = v; }
        for (r = 0; r < 15; r++) t->ambcol[k][r] = 1; }
#endif
      t->base = nb;
    }
    row = nb; t->rows |= 1u << nb;
  }
  t->row = row; t->col = col; t->full = 0; t->cur_amb = 0;
#ifdef KNOWN_PAC_INDENT_ERASES
  for (c = 1; c <= 32; c++) if (c < col) V_ASSUME(CU(r_get(t, r_wmem(t), row, c)) == 0);   /* (e)(1)(i): indent is non-destructive */
#endif
  if (col > 1 && CU(r_get(t, r_wmem(t), row, col - 1))) t->pen.amb |= A_FGUI;   /* (h)(1): PAC in the midst of a row, EIA 608-B C.7 */
  if (t->mode != RM_POP) t->lag = 0;
}

static void r_leave_direct(rchan *t)
{
#ifdef KNOWN_DIRECT_SHARES_BUFFERS
  if (t->mode == RM_ROLL || t->mode == RM_PAINT) V_ASSUME(r_mems_equal(t));
#endif
  (void) t;
}

static void r_misc(unsigned c2)
{
  rchan *c = &RC;
  RC.rows |= ROWBIT(&RC); RT.rows |= ROWBIT(&RT);
  switch (c2 & 15) {
  case 0: /* RCL */
    if (r_cur) RT.lag = 0; else RC.lag = 0;
    r_cur = 0; r_leave_direct(c); c->mode = RM_POP; c->lag = 0; break;
  case 5: case 6: case 7: { /* RU2..4 */
    int n = (int) (c2 & 7) - 3;
    if (r_cur) RT.lag = 0; else RC.lag = 0;
    r_cur = 0;
    if (c->mode == RM_ROLL) {
      if (c->roll != n) {
#ifdef KNOWN_RU_DEPTH_CHANGE_ERASES
        V_ASSUME(0);
#else
        int r, cc_; for (r = 0; r < 15; r++) for (cc_ = 0; cc_ < 32; cc_++) if (r <= c->base - n && r > c->base - c->roll) c->m[c->disp][r][cc_] = 0;   /* (f)(1)(iv) */
        c->roll = n; c->rows = ROWS_ALL; if (c->base < n - 1) { V_ASSUME(0); }
#endif
      }
    } else {
      r_erase(c, 0); r_erase(c, 1); c->n_unk = 0;          /* (f)(1)(x) */
      c->mode = RM_ROLL; c->roll = n; c->base = 14; c->row = 14; c->col = 1; c->full = 0; c->cur_amb = 0;   /* (f)(1)(ii) */
#ifdef KNOWN_PEN_NOT_RESET_AT_ROW_START
      c->pen.amb = A_ALL;
#else
      r_pen_default(&c->pen);
#endif
    }
    c->lag = 0; break; }
  case 9: /* RDC */
    if (r_cur) RT.lag = 0; else RC.lag = 0;
    r_cur = 0;
#ifdef KNOWN_DIRECT_SHARES_BUFFERS
    if (c->mode == RM_POP || c->mode == RM_NONE) { V_ASSUME(r_mems_equal(c)); V_ASSUME(!c->n_unk); }
#endif
    c->mode = RM_PAINT; c->lag = 0; break;
  case 10: /* TR */
    if (r_cur) RT.lag = 0; else RC.lag = 0;
    r_cur = 1;
#ifdef KNOWN_TR_NO_ERASE
    V_ASSUME(r_mem_empty(&RT, 0));
#else
    r_erase(&RT, 0);
#endif
    RT.row = 0; RT.col = 1; RT.full = 0; RT.lag = 0; break;
  case 11: /* RTD */
    if (r_cur) RT.lag = 0; else RC.lag = 0;
    r_cur = 1; break;
  case 15: /* EOC */
    if (r_cur) RT.lag = 0; else RC.lag = 0;
    r_cur = 0; r_leave_direct(c);
#ifdef KNOWN_EOC_ERASES_HIDDEN
    V_ASSUME(!c->n_unk);
    c->n_unk = !r_mem_empty(c, c->disp);
#endif
    { int r_, c_; unsigned d_ = 0; for (r_ = 0; r_ < 15; r_++) for (c_ = 0; c_ < 32; c_++) d_ |= (CU(c->m[0][r_][c_]) != CU(c->m[1][r_][c_])); c->dchg |= (d_ != 0); }
    c->rows |= c->used[0] | c->used[1];
    c->mode = RM_POP; c->disp ^= 1; c->lag = 0;          /* (f): flip without erasing */
#ifdef KNOWN_EOC_MOVES_CURSOR
    c->cur_amb = 1;
#endif
    break;
  case 8: /* FON */ if (r_cur) r_flash_on(&RT); else r_flash_on(&RC); break;
  case 1: /* BS */ if (r_cur) r_backspace(&RT); else r_backspace(&RC); break;
  case 13: /* CR */ if (r_cur) r_cr(&RT); else r_cr(&RC); break;
  case 4: /* DER */ if (r_cur) r_der(&RT); else r_der(&RC); break;
  case 12: /* EDM */
#ifdef KNOWN_EDM_ENM_IN_TEXT_MODE
    V_ASSUME(r_cur == 0);
#endif
    r_erase(c, c->disp); c->lag = 0; break;            /* acts on the caption channel also while Text Mode is selected (EIA 608-B B.7) */
  case 14: /* ENM */
#ifdef KNOWN_EDM_ENM_IN_TEXT_MODE
    V_ASSUME(r_cur == 0);
#endif
    r_erase(c, c->disp ^ 1); c->n_unk = 0; break;
  default: break;                                       /* reserved: ignored */
  }
}

static int r_parity_ok(unsigned b) { b ^= b >> 4; b ^= b >> 2; b ^= b >> 1; return (int) (b & 1); }

static void r_text_byte(rchan *t, unsigned b)
{
  unsigned c = r_parity_ok(b) ? (b & 0x7F) : 0x7F;      /* parity error: solid block */
  if (c < 0x20) return;
  r_put(t, r_unicode(c), 0);
}

static void ref_step(unsigned b1, unsigned b2)
{
  unsigned c1 = b1 & 0x7F, c2 = b2 & 0x7F; int p1 = r_parity_ok(b1), p2 = r_parity_ok(b2);
  RC.rows = ROWBIT(&RC); RT.rows = ROWBIT(&RT);          /* hint: rows this step may change (kept concrete: never reset under a symbolic guard) */
  V_ASSUME(p1);                                          /* outside: parity error in the first byte of a pair */
  if (c1 >= 0x10 && c1 <= 0x1F) {
    if (!p2) { r_last_valid = 0; return; }               /* damaged control code: ignored */
#ifdef KNOWN_CTRL_C2_RANGE
    V_ASSUME(c2 >= 0x20);
#endif
    if (c2 < 0x20) { r_last_valid = 0; return; }         /* not a control code of (i): ignored */
    if (r_last_valid && r_last1 == c1 && r_last2 == c2) {
      V_ASSUME(!r_gap);                                  /* outside: same control code again after null pairs only */
#ifdef KNOWN_F2_NO_DEDUP
      V_ASSUME(!FIELD2);
#endif
      r_last_valid = 0; return;                          /* (i)(1): second transmission of a control code */
    }
    r_last_valid = 1; r_last1 = c1; r_last2 = c2; r_gap = 0;
    V_ASSUME(((c1 >> 3) & 1) == CBIT);                   /* outside: the other channel of this field */
    if (c2 >= 0x40) { V_ASSUME(r_cur == 0); r_pac(&RC, c1, c2); return; }
    switch (c1 & 7) {
    case 0: V_ASSUME(0); return;                         /* outside: EIA 608-B background attribute codes */
    case 1:
      if (c2 & 0x10) {
        unsigned u = r_special(c2 & 15);
        if (r_cur) r_put(&RT, u, 0); else r_put(&RC, u, 0);
      } else { if (r_cur) r_midrow(&RT, c2); else r_midrow(&RC, c2); }
      return;
    case 2: case 3: V_ASSUME(0); return;                 /* outside: EIA 608-B extended characters (ignored on purpose) */
    case 4: case 5: r_misc(c2); return;
    case 6: return;                                      /* reserved */
    case 7:
      if (c2 >= 0x21 && c2 <= 0x23) { if (r_cur) r_tab(&RT, c2 & 3); else r_tab(&RC, c2 & 3); return; }
      V_ASSUME(!(c2 >= 0x2D && c2 <= 0x2F));             /* outside: EIA 608-B BT, FA, FAU */
      return;
    }
    return;
  }
  V_ASSUME(!(c1 >= 0x01 && c1 <= 0x0F));                 /* outside: XDS range */
  if (b1 == 0x80 && b2 == 0x80) { if (r_last_valid) r_gap = 1; return; }   /* null pair */
#ifdef KNOWN_F2_NUL_FIRST_DROPS_PAIR
  if (LINE_NO == 284) V_ASSUME(c1 != 0);
#endif
  r_last_valid = 0;
  if (r_cur) { r_text_byte(&RT, b1); r_text_byte(&RT, b2); }
  else { r_text_byte(&RC, b1); r_text_byte(&RC, b2); }
}

/* ======================================================================================================
 * 3. comparison of the fetched page with the reference display memory
 * ====================================================================================================== */
static vbi_page PG;
static unsigned EVSEEN[2];
static unsigned n_compared;

/* A vbi_char is read as one 64 bit word (x86-64 bit-field layout, the same in CBMC: asserted by obligation
 * fetch_contract / "cell_layout"): reading the 14 bit-fields one by one costs symex 14 walks into the 170 KB decoder. */
typedef uint64_t __attribute__((may_alias, aligned(4))) u64_alias;
#define W_UNICODE(w) ((unsigned) ((w) >> 48))
#define W_OPACITY(w) ((unsigned) (((w) >> 16) & 0xFF))
#define W_FG(w) ((unsigned) (((w) >> 24) & 0xFF))
#define W_BG(w) ((unsigned) (((w) >> 32) & 0xFF))
#define W_UL(w) ((unsigned) ((w) & 1))
#define W_IT(w) ((unsigned) (((w) >> 2) & 1))
#define W_FL(w) ((unsigned) (((w) >> 3) & 1))
/* bold, conceal, proportional, link, reserved, size, drcs_clut_offs zero; colours < 8; opacity < 4 */
#define W_WELLFORMED(w) ((((w) & 0x0000FF000000FFF2ull) == 0) & (W_FG(w) < 8) & (W_BG(w) < 8) & (W_OPACITY(w) < 4))
/* (macro, not a function: a function call/return costs symex ~10 ms once the decoder state is populated) */
#define LIB_PACK_W(w) (W_UNICODE(w) | (W_FG(w) << 16) | (W_BG(w) << 19) | (W_OPACITY(w) << 22) | (W_UL(w) << 24) | (W_IT(w) << 25) | (W_FL(w) << 26))

static void prev_init(void) { EVSEEN[0] = EVSEEN[1] = 0; n_compared = 0; }

/* which: 0 caption channel, 1 text channel.  Written without branches on symbolic data (bit operations on 0/1 flags). */
#define M_FGUI ((7u << 16) | (3u << 24))
#define M_FL (1u << 26)
#define M_BG ((7u << 19) | (3u << 22))
static void compare_page(rchan *t, int which, unsigned rows)
{
  int r, c, pgno = (CH & 3) + 1 + 4 * which;
  unsigned ok_wf = 1, ok_char = 1, ok_transp = 1, ok_pad = 1, ok_fg = 1, ok_fl = 1, ok_bg = 1;
  uint32_t Dv[COLUMNS], L, Rv, x; uint64_t roww[COLUMNS], w; unsigned lop, amb, nb, e;
  /* The cells are read from the page vbi_fetch_cc_page() copies (cc.channel[pgno - 1].pg[hidden ^ 1]), not from the
     copy: reading 510 cells back out of the memcpy'd 9 KB object stalls symex.  That the copy equals this page
     is the separate obligation fetch_contract (h_cc_fetch). */
  const cc_channel *lch = &VBI.cc.channel[(CH & 3) + 4 * which];
  int hid = lch->hidden;
  const vbi_char *txt;
  vbi_bool ok;
  V_ASSERT(hid == 0 || hid == 1, "hidden_is_0_or_1");
  txt = hid ? lch->pg[0].text : lch->pg[1].text;
  for (r = 0; r < ROWS; r++) if ((rows >> r) & 1) {
    Dv[0] = 0; Dv[COLUMNS - 1] = 0;
    for (c = 0; c < 32; c++) Dv[c + 1] = t->disp ? t->m[1][r][c] : t->m[0][r][c];
    memcpy(roww, &txt[r * COLUMNS], sizeof roww);          /* one copy out of the decoder object per row (fast), then small-object reads */
    for (c = 0; c < COLUMNS; c++) {
      w = roww[c];
      L = LIB_PACK_W(w); Rv = Dv[c]; x = L ^ Rv;
      lop = W_OPACITY(w); amb = (Rv >> 27) | ((c >= (t->disp ? t->ambcol[1][r] : t->ambcol[0][r])) ? (A_FGUI | A_FL) : 0);
      nb = (c > 0 ? CU(Dv[c - 1]) : 0) | (c < COLUMNS - 1 ? CU(Dv[c + 1]) : 0);
      e = (CU(Rv) == 0);
      ok_wf &= (unsigned) W_WELLFORMED(w);
      /* nothing displayable here: transparent (caption) / blank (text); a solid space is tolerated next to a displayable character, (d)(1) */
      ok_transp &= !e | (CU(L) == 0x20);
      ok_pad &= !e | (which != 0) | (lop == VBI_TRANSPARENT_SPACE) | (nb != 0);
      ok_char &= e | (CU(L) == CU(Rv));
      ok_fg &= e | ((amb & A_FGUI) != 0) | ((x & M_FGUI) == 0);
      ok_fl &= e | ((amb & A_FL) != 0) | ((x & M_FL) == 0);
      ok_bg &= e | ((amb & A_BG) != 0) | ((x & M_BG) == 0);
#if V_NATIVE
      if (!(e | (CU(L) == CU(Rv))) || !(!e | (CU(L) == 0x20)) || !(!e | (which != 0) | (lop == VBI_TRANSPARENT_SPACE) | (nb != 0))
          || !(e | ((amb & A_FGUI) != 0) | ((x & M_FGUI) == 0)) || !(e | ((amb & A_FL) != 0) | ((x & M_FL) == 0)) || !(e | ((amb & A_BG) != 0) | ((x & M_BG) == 0)))
        printf("MISMATCH pgno %d row %d col %d: decoder U+%04X attr %03X, reference U+%04X attr %03X amb %u\n", pgno, r + 1, c, CU(L), L >> 16, CU(Rv), (Rv >> 16) & 0x7FF, amb);
#endif
    }
  }
  ok = vbi_fetch_cc_page(&VBI, &PG, pgno, TRUE);
  V_ASSERT(ok, "fetch_ok");
  V_ASSERT(PG.pgno == pgno && PG.rows == ROWS && PG.columns == COLUMNS, "fetch_geometry");
  V_ASSERT(ok_wf, "cell_wellformed");
  V_ASSERT(ok_char, "display_character");
  V_ASSERT(ok_transp, "display_transparent_where_nothing_addressed");
#ifndef KNOWN_STALE_PAD
  V_ASSERT(ok_pad, "display_solid_space_only_next_to_character");
#endif
  V_ASSERT(ok_fg, "display_colour_underline_italic");
  V_ASSERT(ok_fl, "display_flash");
  V_ASSERT(ok_bg, "display_background_opacity");
  /* "visible page changed": the characters of the reference display memory changed since the previous comparison
     (then, both comparisons holding, the fetched page differs too): a caption event must have been sent in between */
#ifndef KNOWN_ERASE_WITHOUT_EVENT
  if (t->dchg) V_ASSERT(c08_ev_caption[pgno] != EVSEEN[which], "caption_event_on_visible_change");
#endif
  t->dchg = 0;
  EVSEEN[which] = c08_ev_caption[pgno];
  n_compared++;
}

/* ======================================================================================================
 * 3b. representation invariant and frame (CBMC's bounds checks on ch->line[..] only check against the end of the
 *     enclosing decoder object, so a write past the 15 x 34 cells or before text[0] would pass silently)
 * ====================================================================================================== */
static void check_channel(int idx)
{
  const cc_channel *c = &VBI.cc.channel[idx];
  int h = c->hidden, p;
  V_ASSERT(h == 0 || h == 1, "inv_hidden");
  V_ASSERT(c->col1 >= 1 && c->col1 <= c->col && c->col <= COLUMNS - 1, "inv_cursor_column");
  V_ASSERT(c->row >= 0 && c->row <= ROWS - 1, "inv_cursor_row");
  V_ASSERT(c->line == (h ? c->pg[1].text : c->pg[0].text) + c->row * COLUMNS, "inv_line_points_to_cursor_row");
  V_ASSERT((unsigned) c->mode <= MODE_TEXT && (c->mode == MODE_TEXT) == (idx >= 4), "inv_mode");
  V_ASSERT(idx >= 4 ? (c->roll == ROWS && c->row1 == 0) : (c->roll >= 2 && c->roll <= 4 && c->row1 >= 0 && c->row1 + c->roll - 1 <= ROWS - 1), "inv_window");
  V_ASSERT(c->nul_ct >= 0, "inv_nul_ct");
  for (p = 0; p < 2; p++) {
    const vbi_page *pg = &c->pg[p];
    /* members right before and after text[]: a store to line[-1] or past the array would land here */
    V_ASSERT(pg->vbi == &VBI && pg->pgno == idx + 1 && pg->subno == 0 && pg->rows == ROWS && pg->columns == COLUMNS, "frame_page_header");
    V_ASSERT(pg->dirty.y0 >= 0 && pg->dirty.y0 <= ROWS && pg->dirty.y1 >= -1 && pg->dirty.y1 <= ROWS - 1 && pg->dirty.roll >= -ROWS && pg->dirty.roll <= ROWS, "frame_dirty_range");
    V_ASSERT(pg->screen_color == 0 && pg->screen_opacity == ((idx < 4) ? VBI_TRANSPARENT_SPACE : VBI_OPAQUE)
             && pg->font[0] == vbi_font_descriptors && pg->font[1] == vbi_font_descriptors, "frame_page_trailer");
  }
}
/* the 34 cells after the 15 rows (a 16th row inside text[1056]) of both pages are never written */
static void check_canary(int idx)
{
  const cc_channel *c = &VBI.cc.channel[idx];
  uint64_t rw[COLUMNS], acc = 0; int p, i;
  for (p = 0; p < 2; p++) {
    memcpy(rw, &c->pg[p].text[ROWS * COLUMNS], sizeof rw);
#ifdef KNOWN_CR_CLEARS_35_CELLS
    for (i = 1; i < COLUMNS; i++) acc |= rw[i];
#else
    for (i = 0; i < COLUMNS; i++) acc |= rw[i];
#endif
  }
  V_ASSERT(acc == 0, "frame_no_write_behind_row_15");
}

/* ======================================================================================================
 * 4. steps
 * ====================================================================================================== */
#define ODD7(x) ((((x) ^ ((x) >> 1) ^ ((x) >> 2) ^ ((x) >> 3) ^ ((x) >> 4) ^ ((x) >> 5) ^ ((x) >> 6)) & 1) ? 0 : 0x80)
#define ODD(x) ((uint8_t) (((x) & 0x7F) | ODD7((x) & 0x7F)))
#define CTL1(k) ODD(0x10 | (CBIT << 3) | (k))

static void lib_feed(uint8_t b1, uint8_t b2)
{
  uint8_t buf[2]; buf[0] = b1; buf[1] = b2;
#if V_NATIVE
  if (getenv("C08_TRACE")) printf("FEED line %d: %02X %02X\n", LINE_NO, b1, b2);   /* byte sequence of a replayed counterexample */
#endif
  vbi_decode_caption(&VBI, LINE_NO, buf);
}

#ifndef CMP_TEXT
#define CMP_TEXT 0
#endif
static void after_step(unsigned b1, unsigned b2)
{
  ref_step(b1, b2);
  V_ASSERT(!c08_mutex_held(&VBI.cc.mutex), "mutex_released");
  check_channel(CH & 3);
#if CMP_TEXT
  check_channel((CH & 3) + 4);
#endif
#ifndef PROBE_NOCMP
  if (!RC.lag) compare_page(&RC, 0, RC.rows);
#endif
#if CMP_TEXT
  if (!RT.lag) compare_page(&RT, 1, RT.rows);
#endif
}
static void step(uint8_t b1, uint8_t b2) { lib_feed(b1, b2); after_step(b1, b2); }

/* literal control codes */
#define S_CTL(k, c2) step(CTL1(k), ODD(c2))
#define S_MISC(c2) S_CTL(4 | CTRL_F, c2)
#define S_RCL S_MISC(0x20)
#define S_BS S_MISC(0x21)
#define S_DER S_MISC(0x24)
#define S_RU2 S_MISC(0x25)
#define S_RU3 S_MISC(0x26)
#define S_RU4 S_MISC(0x27)
#define S_FON S_MISC(0x28)
#define S_RDC S_MISC(0x29)
#define S_TR S_MISC(0x2A)
#define S_RTD S_MISC(0x2B)
#define S_EDM S_MISC(0x2C)
#define S_CR S_MISC(0x2D)
#define S_ENM S_MISC(0x2E)
#define S_EOC S_MISC(0x2F)
#define S_TO(n) S_CTL(7, 0x20 | (n))
#define S_MR(code) S_CTL(1, 0x20 | (code))
#define S_SP(code) S_CTL(1, 0x30 | (code))
#define S_NUL step(0x80, 0x80)
/* literal text pair (keeps the cursor column concrete: cheap positioning) */
#define S_LIT(a, b) step(ODD(a), ODD(b))
/* control code whose second byte arrives with a parity error (must be ignored) */
#define S_CTLBAD(k, c2) step(CTL1(k), (uint8_t) (ODD(c2) ^ 0x80))
#define S_MISCBAD(c2) S_CTLBAD(4 | CTRL_F, c2)
/* PAC, row code rc = 0..15 (index of the PAC table: first byte low bits * 2 + bit 5 of the second byte), low5 literal */
#define S_PAC(rc, low5) S_CTL((rc) >> 1, 0x40 | (((rc) & 1) << 5) | (low5))
/* text pair: first byte literal (with its parity bit), second byte fully symbolic (8 bits) */
#define S_TX(b1) do { uint8_t s_ = in_u8(); step((uint8_t) (b1), s_); } while (0)
#define S_CH S_TX(0x80)
/* one symbolic text byte preceded by a literal printable character */
#define S_TXA S_TX(ODD(0x41))
#define S_TXS S_TX(ODD(0x20))

/* N-way case split over literals: the decoder is called with literal bytes, the reference model once with the symbolic
 * ones.  The split is an if / else-if CHAIN: every call starts from the state before the split (sequential ifs would run
 * the later calls on the merged, no longer concrete state). */
#define X_CASE(i, b1, b2) else if (sel_ == (unsigned) (i)) { lib_feed((b1), (b2)); s1_ = (b1); s2_ = (b2); }
/* the last case is unconditional: then every path through the chain assigns e.g. ch->line, and where all assign the same
   constant the merge folds back to that constant (a residual "no case taken" path would leave an if-then-else behind) */
#define X_LAST(b1, b2) else { lib_feed((b1), (b2)); s1_ = (b1); s2_ = (b2); }
#define X_CASE15(i, b1, f) X_CASE4(i, b1, f) X_CASE4((i) + 4, b1, f) X_CASE4((i) + 8, b1, f) X_CASE((i) + 12, b1, f((i) + 12)) X_CASE((i) + 13, b1, f((i) + 13)) X_CASE((i) + 14, b1, f((i) + 14)) X_LAST(b1, f((i) + 15))
#define X_CASE4(i, b1, f) X_CASE(i, b1, f(i)) X_CASE((i) + 1, b1, f((i) + 1)) X_CASE((i) + 2, b1, f((i) + 2)) X_CASE((i) + 3, b1, f((i) + 3))
#define X_CASE16(i, b1, f) X_CASE4(i, b1, f) X_CASE4((i) + 4, b1, f) X_CASE4((i) + 8, b1, f) X_CASE4((i) + 12, b1, f)

/* PAC to row code rc with symbolic attribute / indent / underline bits (32 literals) */
#define PACX_B2(i) ODD(0x40 | ((rc & 1) << 5) | (i))
static void step_pacx(unsigned rc)
{
  unsigned s1_ = 0, s2_ = 0; unsigned sel_ = in_u8() & 31; uint8_t a = CTL1(rc >> 1);
  if (0) { } X_CASE16(0, a, PACX_B2) X_CASE15(16, a, PACX_B2)
  after_step(s1_, s2_);
}
#define S_PACX(rc) step_pacx(rc)
/* the 16 indent PACs only / the 16 colour PACs only */
static void step_pacx_indent(unsigned rc)
{
  unsigned s1_ = 0, s2_ = 0; unsigned sel_ = 16 + (in_u8() & 15); uint8_t a = CTL1(rc >> 1);
  if (0) { } X_CASE15(16, a, PACX_B2)
  after_step(s1_, s2_);
}
#define S_PACI(rc) step_pacx_indent(rc)
static void step_pacx_colour(unsigned rc)
{
  unsigned s1_ = 0, s2_ = 0; unsigned sel_ = in_u8() & 15; uint8_t a = CTL1(rc >> 1);
  if (0) { } X_CASE15(0, a, PACX_B2)
  after_step(s1_, s2_);
}
#define S_PACC(rc) step_pacx_colour(rc)
/* any mid-row code (16 literals) */
#define MRX_B2(i) ODD(0x20 | (i))
static void step_mrx(void)
{
  unsigned s1_ = 0, s2_ = 0; unsigned sel_ = in_u8() & 15; uint8_t a = CTL1(1);
  if (0) { } X_CASE15(0, a, MRX_B2)
  after_step(s1_, s2_);
}
#define S_MRX step_mrx()
/* any special character (16 literals) */
#define SPX_B2(i) ODD(0x30 | (i))
static void step_spx(void)
{
  unsigned s1_ = 0, s2_ = 0; unsigned sel_ = in_u8() & 15; uint8_t a = CTL1(1);
  if (0) { } X_CASE15(0, a, SPX_B2)
  after_step(s1_, s2_);
}
#define S_SPX step_spx()
/* any of the commands that neither move the cursor to another row nor change the mode:
 * BS DER FON EDM ENM, reserved misc codes 2 and 3, TO1 TO2 TO3, null pair */
static void step_datax(void)
{
  unsigned s1_ = 0, s2_ = 0; unsigned sel_ = in_u8(); uint8_t m = CTL1(4 | CTRL_F), x = CTL1(7);
  V_ASSUME(sel_ < 11);
  if (0) { }
  X_CASE(0, m, ODD(0x21)) X_CASE(1, m, ODD(0x24)) X_CASE(2, m, ODD(0x28)) X_CASE(3, m, ODD(0x2C)) X_CASE(4, m, ODD(0x2E))
  X_CASE(5, m, ODD(0x22)) X_CASE(6, m, ODD(0x23)) X_CASE(7, x, ODD(0x21)) X_CASE(8, x, ODD(0x22)) X_CASE(9, x, ODD(0x23))
  X_LAST(0x80, 0x80)
  after_step(s1_, s2_);
}
#define S_DATAX step_datax()

#ifndef SKEL
#define SKEL S_RU2; S_CH; S_TXS
#endif

V_HARNESS(h_cc_seq)
{
  V_INIT();
  cc_prologue(); r_init(); prev_init();
  SKEL;
  /* whole page at the end (rows the hints above did not name included) */
  if (!RC.lag) compare_page(&RC, 0, ROWS_ALL);
  check_canary(CH & 3);
#if CMP_TEXT
  if (!RT.lag) compare_page(&RT, 1, ROWS_ALL);
  check_canary((CH & 3) + 4);
#endif
  V_ASSERT(n_compared <= 64, "sanity");
  if (n_compared >= 1) V_REACH("compared");
  V_END();
}

/* ======================================================================================================
 * 5. vbi_fetch_cc_page contract: the page handed out is the displayed page pg[hidden ^ 1] of channel pgno - 1
 * ======================================================================================================
 * grid: PGNO (0..9), HID (0/1).  The displayed page gets symbolic dirty fields and symbolic cells at a symbolic
 * position; the copy must show them, the source page keeps them, its dirty fields are reset ("nothing to redraw"),
 * the other page is untouched, the mutex is released; FALSE and no effect for pgno outside 1..8. */
#ifndef PGNO
#define PGNO 1
#endif
#ifndef HID
#define HID 0
#endif
/* all 1056 cells equal, compared as 64 bit words in chunks copied out of the objects (cheap for symex, see compare_page) */
static int text_equal(const vbi_char *a, const vbi_char *b)
{
  uint64_t wa[32], wb[32], d = 0; int k, i;
  for (k = 0; k < 33; k++) {
    memcpy(wa, &a[k * 32], sizeof wa); memcpy(wb, &b[k * 32], sizeof wb);
    for (i = 0; i < 32; i++) d |= wa[i] ^ wb[i];
  }
  return d == 0;
}
#define TEXT_EQUAL(a, b) text_equal((a), (b))
static vbi_char SAVE_D[1056], SAVE_H[1056];
V_HARNESS(h_cc_fetch)
{
  vbi_bool ok; vbi_char cell; int y0, y1, roll, reset;
  cc_channel *ch = &VBI.cc.channel[(PGNO - 1) & 7];
  V_INIT();
  cc_prologue();
  ch->hidden = HID; ch->line = ch->pg[HID].text + ch->row * COLUMNS;
  /* both pages of the channel: all 1056 cells symbolic */
  in_bytes(ch->pg[HID ^ 1].text, sizeof SAVE_D); in_bytes(ch->pg[HID].text, sizeof SAVE_H);
  memcpy(SAVE_D, ch->pg[HID ^ 1].text, sizeof SAVE_D); memcpy(SAVE_H, ch->pg[HID].text, sizeof SAVE_H);
  y0 = in_int(); y1 = in_int(); roll = in_int(); reset = in_bool();
  ch->pg[HID ^ 1].dirty.y0 = y0; ch->pg[HID ^ 1].dirty.y1 = y1; ch->pg[HID ^ 1].dirty.roll = roll;
  memset(&PG, 0, sizeof PG);
  ok = vbi_fetch_cc_page(&VBI, &PG, PGNO, reset);
  V_ASSERT(!c08_mutex_held(&VBI.cc.mutex), "fetch_mutex_released");
  if (PGNO < 1 || PGNO > 8) {
    V_ASSERT(!ok, "fetch_rejects_pgno");
    V_ASSERT(PG.pgno == 0 && PG.rows == 0, "fetch_rejected_no_output");
    V_ASSERT(ch->pg[HID ^ 1].dirty.y0 == y0 && ch->pg[HID ^ 1].dirty.roll == roll, "fetch_rejected_no_effect");
    V_REACH("rejected");
  } else {
    V_ASSERT(ok, "fetch_ok");
    V_ASSERT(PG.vbi == &VBI && PG.pgno == PGNO && PG.subno == 0 && PG.rows == ROWS && PG.columns == COLUMNS, "fetch_header");
    V_ASSERT(PG.screen_opacity == ((PGNO <= 4) ? VBI_TRANSPARENT_SPACE : VBI_OPAQUE), "fetch_screen_opacity");
    V_ASSERT(TEXT_EQUAL(PG.text, SAVE_D), "fetch_text_is_displayed_page");
    V_ASSERT(PG.dirty.y0 == y0 && PG.dirty.y1 == y1 && PG.dirty.roll == roll, "fetch_dirty_copied");
    V_ASSERT(TEXT_EQUAL(ch->pg[HID ^ 1].text, SAVE_D), "fetch_source_unchanged");
    V_ASSERT(TEXT_EQUAL(ch->pg[HID].text, SAVE_H), "fetch_hidden_page_unchanged");
    V_ASSERT(ch->pg[HID ^ 1].dirty.y0 == ROWS && ch->pg[HID ^ 1].dirty.y1 == -1 && ch->pg[HID ^ 1].dirty.roll == 0, "fetch_resets_dirty");
    V_ASSERT(ch->hidden == HID, "fetch_keeps_hidden");
    check_channel((PGNO - 1) & 7);
    V_REACH("fetched");
  }
  /* the 64 bit word view of a cell used by compare_page (one arbitrary cell value at a literal position) */
  in_bytes(&cell, sizeof cell);
  SAVE_D[5] = cell;
  { uint64_t w = *(const u64_alias *) &SAVE_D[5];
    V_ASSERT(W_UNICODE(w) == cell.unicode && W_OPACITY(w) == cell.opacity && W_FG(w) == cell.foreground && W_BG(w) == cell.background
             && W_UL(w) == cell.underline && W_IT(w) == cell.italic && W_FL(w) == cell.flash, "cell_layout");
    V_ASSERT(W_WELLFORMED(w) == (cell.foreground < 8 && cell.background < 8 && cell.opacity < 4 && !cell.bold && !cell.conceal && !cell.proportional
             && !cell.link && !cell.reserved && cell.size == 0 && cell.drcs_clut_offs == 0), "cell_layout_wellformed"); }
  V_END();
}

/* ======================================================================================================
 * 6. field-2 routing of vbi_decode_caption (line 284): caption vs XDS
 * ======================================================================================================
 * The real xds_separator runs (no packet in progress: curr_sp == NULL; the XDS demultiplexer itself is the subject of C09).
 * RB1: first byte, literal with parity bit; RB2: second byte literal where the decoder dispatches on it.  cc.xds symbolic.
 * Channel CC3 was put into roll-up mode by a literal RU2. */
#ifndef RB1
#define RB1 0x01
#endif
#ifndef RB2
#define RB2 -1               /* second byte literal (needed where the decoder dispatches on it: XDS class/type, control codes), -1: symbolic */
#endif
V_HARNESS(h_cc_route)
{
  uint8_t b2; int xds0, col0, nul0, mode0; unsigned c1 = RB1 & 0x7F; int p1 = r_parity_ok(RB1);
  cc_channel *ch = &VBI.cc.channel[2];
  uint8_t buf[2], last0[2];
  V_INIT();
  cc_prologue();
  buf[0] = ODD(0x14); buf[1] = ODD(0x25); vbi_decode_caption(&VBI, 284, buf);          /* RU2 on CC3 */
  V_ASSERT(ch->mode == MODE_ROLL_UP && VBI.cc.curr_chan == 2, "route_setup");
  xds0 = in_bool(); VBI.cc.xds = xds0; b2 = in_u8();
  if (RB2 >= 0) b2 = (uint8_t) RB2;
  col0 = ch->col; nul0 = ch->nul_ct; mode0 = ch->mode;
  /* the control code repetition memory belongs to FIELD 1 (EIA-608: control codes are sent twice on the same field; cc.h: "field 1, cc command
     repetition"): whatever a field-1 code left there, a pair received on field 2 must not touch it - otherwise field-2 traffic between the two
     transmissions of a field-1 code makes the code execute twice */
  last0[0] = in_u8(); last0[1] = in_u8(); VBI.cc.last[0] = last0[0]; VBI.cc.last[1] = last0[1];
  buf[0] = RB1; buf[1] = b2; vbi_decode_caption(&VBI, 284, buf);
  V_ASSERT(!c08_mutex_held(&VBI.cc.mutex), "route_mutex_released");
  V_ASSERT(VBI.cc.last[0] == last0[0] && VBI.cc.last[1] == last0[1], "route_field2_pair_leaves_field1_repeat_memory");
  if (p1 && c1 == 0) {
    V_ASSERT(VBI.cc.xds == xds0 && ch->col == col0 && ch->nul_ct == nul0 && ch->mode == mode0, "route_nul_first_byte_no_effect");
  } else if (p1 && c1 <= 0x0E) {
    V_ASSERT(VBI.cc.xds == 1 && ch->col == col0 && ch->nul_ct == nul0 && ch->mode == mode0, "route_xds_start_continue");
  } else if (p1 && c1 == 0x0F) {
    V_ASSERT(VBI.cc.xds == 0 && ch->col == col0 && ch->nul_ct == nul0 && ch->mode == mode0, "route_xds_end");
  } else if (p1 && c1 <= 0x1F) {
    V_ASSERT(VBI.cc.xds == 0, "route_caption_control_ends_xds");
    if (RB1 == ODD(0x14) && b2 == ODD(0x20)) { V_ASSERT(ch->mode == MODE_POP_ON, "route_control_code_executed"); V_REACH("rcl"); }
  } else if (xds0) {
    V_ASSERT(VBI.cc.xds == 1 && ch->col == col0 && ch->nul_ct == nul0 && ch->mode == mode0, "route_xds_payload_not_caption");
    V_REACH("payload");
  } else {
    V_ASSERT(VBI.cc.xds == 0, "route_caption_text_keeps_xds_off");
    if (p1 && r_parity_ok(b2) && (b2 & 0x7F) >= 0x20) { V_ASSERT(ch->col == col0 + 2, "route_caption_text_stored"); V_REACH("text"); }
    if (!p1) { V_ASSERT(ch->col == col0 + 2, "route_bad_parity_two_blocks"); }
  }
  V_END();
}

/* ======================================================================================================
 * 7. ITV (WebTV link) separator on T2: INV-STEP
 * ======================================================================================================
 * arbitrary itv_buf[256], itv_count in [0, 255] (invariant; initial 0), event mask symbolic, one character. */
V_HARNESS(h_cc_itv)
{
  int cnt0, c; char ch_; unsigned mask; unsigned n0;
  V_INIT();
  cc_prologue();
  in_bytes(VBI.cc.itv_buf, 256);
  cnt0 = in_int(); V_ASSUME(cnt0 >= 0 && cnt0 <= 255);
  VBI.cc.itv_count = cnt0;
  mask = in_u32(); VBI.event_mask = (int) mask;
  c = in_u8(); V_ASSUME(c < 0x80); ch_ = (char) c;
  n0 = c08_trig_n; VBI.cc.xds = 0x5A5A; VBI.cc.info_cycle[0] = 0x3C3C;
  itv_separator(&VBI, &VBI.cc, ch_);
  V_ASSERT(VBI.cc.xds == 0x5A5A && VBI.cc.info_cycle[0] == 0x3C3C, "itv_frame_neighbours_untouched");   /* members before itv_buf / after itv_count */
  V_ASSERT(VBI.cc.itv_count >= 0 && VBI.cc.itv_count <= 255, "itv_count_invariant");
  if (!(mask & VBI_EVENT_TRIGGER)) {
    V_ASSERT(VBI.cc.itv_count == cnt0 && c08_trig_n == n0, "itv_disabled_no_effect");
  } else if (c >= 0x20 && c != '<') {
    V_ASSERT(c08_trig_n == n0, "itv_no_trigger_on_text");
    V_ASSERT(VBI.cc.itv_count == ((cnt0 > 254) ? 1 : cnt0 + 1), "itv_appended");
    V_ASSERT(VBI.cc.itv_buf[(cnt0 > 254) ? 0 : cnt0] == (uint8_t) c, "itv_char_stored");
    V_REACH("append");
  } else {
    V_ASSERT(c08_trig_n == n0 + 1 && c08_trig_ptr == VBI.cc.itv_buf, "itv_trigger_called_once");
    V_ASSERT(c08_trig_len <= (unsigned) cnt0, "itv_string_terminated_in_buffer");
    V_ASSERT(VBI.cc.itv_count == ((c == '<') ? 1 : 0), "itv_restart");
    V_REACH("trigger");
  }
  V_END();
}
