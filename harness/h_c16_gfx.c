/* h_c16_gfx.c - C16 group 3: region rendering, vbi_draw_vt_page_region / vbi_draw_cc_page_region of src/exp-gfx.c.
 *
 * A RW x RH character region (grid: 1x1, 2x1, 1x2) of a 3 x 2 cell page is drawn into a canvas that is an exact-size
 * heap object of the DOCUMENTED size rowstride * RH * cell-height bytes; rowstride (grid RSX = extra bytes per row,
 * or -1 = "pg->columns cells per row") >= RW * cell-width * bytes-per-pixel.  Region position symbolic, all six cells
 * fully symbolic (unicode, size, colours, flash, conceal, bold, italic, underline, DRCS clut offset), colour map,
 * DRCS clut, reveal / flash_on symbolic; font tables and DRCS bitmaps constant (all 0x00 or all 0xFF, grid FONTFILL: only
 * WHERE the renderer reads/writes is checked, and that each pixel gets one of the two pen colours).
 *   - every access inside the canvas / page / font / pen objects (CBMC pointer checks, exact-size objects);
 *   - guard pixels between the rows of the rectangle (row r: bytes [RW*cw*bpp, rowstride)) keep their symbolic fill value;
 *   - unsupported pixel format: canvas untouched;
 *   - 1x1 region, ordinary character: every pixel of the rectangle is one of the cell's two colours.
 * FMT grid: 32 = VBI_PIXFMT_RGBA32_LE, 6 = VBI_PIXFMT_PAL8, 1 = VBI_PIXFMT_YUV420 (unsupported).
 *
 * Page invariants assumed (what the formatter in teletext.c / caption.c guarantees): colour indices < 40 (size of
 * color_map), DRCS code points U+F000 + 64 * plane + glyph with glyph < 48, drcs[plane] NULL or 48 x 60 bytes,
 * drcs_clut NULL or 64 entries < 40, drcs_clut_offs == 0 (teletext.c never sets it).
 *
 * Optional case split -DSIZE0=.. -DSIZE1=.. -DDRCS=0|1: see the comment in the harness.
 *
 * KNOWN_C16_ITALIC_CYRILLIC: unicode_wstfont2() maps italic U+0440..U+045F (Cyrillic small letters) to glyph numbers
 * 1536..1567, but wstfont2 has 1536 glyphs: draw_char reads the font bitmap out of bounds (beyond the end of the table
 * in the last glyph row).  With the define these cells are made non-italic.
 *
 * KNOWN_C16_CUT_WIDE: a DOUBLE_WIDTH / DOUBLE_SIZE / DOUBLE_SIZE2 cell in the LAST column of the region is drawn 2
 * cells wide: it writes outside the region's pixel rectangle, and in the last pixel row beyond the documented
 * canvas size when rowstride has no slack.  With the define such regions are excluded (assumed away).
 */
#include "verif.h"
#include "config.h"
#undef HAVE_CONFIG_H
#undef HAVE_LIBPNG               /* PNG export (libpng) is outside the claim; without it exp-gfx.c needs no libpng at link time */
#include "src/exp-gfx.c"

#ifndef RW
#define RW 1
#endif
#ifndef RH
#define RH 1
#endif
#ifndef FMT
#define FMT 32
#endif
#ifndef RSX
#define RSX 0                    /* extra BYTES per canvas row; a multiple of 4 for the 4-byte formats (pixel-aligned rows) */
#endif
#ifndef FONTFILL
#define FONTFILL 0
#endif
#ifndef CC
#define CC 0                      /* 1: closed caption renderer */
#endif
#define PCOLS 3
#define PROWS 2
#define BPP (FMT == 6 ? 1 : 4)    /* bytes per pixel the harness sizes the canvas for (unsupported format: 4) */
#define CW (CC ? CCW : TCW)
#define CH (CC ? CCH : TCH)
#define RECTW (RW * CW * BPP)
#define STRIDE (RSX < 0 ? PCOLS * CW * BPP : RECTW + RSX)
#define CSIZE (STRIDE * RH * CH)

/* the canvas is an array of PIXELS (uint32_t for the 4-byte formats, uint8_t for PAL8): a byte-typed object written
   through uint32_t pointers costs CBMC a byte_update of the whole object per pixel (measured: symex > 200 s for one cell) */
#if BPP == 4
typedef uint32_t pix_t;
#define IN_PIX() in_u32()
#else
typedef uint8_t pix_t;
#define IN_PIX() in_u8()
#endif
#define NPIX (CSIZE / BPP)
#define PSTRIDE (STRIDE / BPP)

static vbi_page PAGE;
static uint8_t DRCS_FONT[48 * 60];
static uint8_t CLUT[64];

V_HARNESS(h_c16_gfx)
{
  pix_t *canvas, fill;
  int column, row, reveal, flash_on, have_clut, have_drcs;
  unsigned i, x, y;
  vbi_char *first;
  V_INIT();
  V_ASSERT(VBI_PIXFMT_PAL8 == 6 && VBI_PIXFMT_RGBA32_LE == 32 && VBI_PIXFMT_YUV420 == 1, "pixfmt_numbers_of_the_grid");
  PAGE.columns = PCOLS; PAGE.rows = PROWS;
  for (i = 0; i < PCOLS * PROWS; i++) {
    vbi_char *c = &PAGE.text[i];
    in_bytes(c, sizeof(vbi_char));
    /* page invariants by construction (see above) */
    c->foreground = c->foreground % 40; c->background = c->background % 40;
    c->size = c->size % 8;
    c->drcs_clut_offs = 0;            /* never set by the formatter (teletext.c leaves it 0) */
    if (c->unicode >= 0xF000) c->unicode = 0xF000 | (c->unicode & 0x7C0) | ((c->unicode & 0x3F) % 48);
#ifdef KNOWN_C16_ITALIC_CYRILLIC
    if (c->unicode >= 0x0440 && c->unicode <= 0x045F) c->italic = 0;
#endif
  }
  in_bytes(PAGE.color_map, sizeof PAGE.color_map);
  for (i = 0; i < 64; i++) CLUT[i] = 0;
  for (i = 2; i < 42; i++) CLUT[i] = in_u8() % 40;
  have_clut = in_bool(); have_drcs = in_bool();
  PAGE.drcs_clut = have_clut ? CLUT : NULL;
  for (i = 0; i < 32; i++) PAGE.drcs[i] = have_drcs ? DRCS_FONT : NULL;
  column = in_u8() % (PCOLS - RW + 1); row = in_u8() % (PROWS - RH + 1);
#ifdef SIZE0
  /* case split for the 4-byte pixel formats (the pen is read through a byte pointer into a 256-byte union, which costs
     a 256-way multiplexer per pixel; all five size variants x DRCS at once do not convert in 280 s): the size attribute
     of the cells in page column 0 / 1 and "DRCS or ordinary character" are fixed by the grid, the region sits at (0,0) */
  column = 0; row = 0;
  for (i = 0; i < PCOLS * PROWS; i++) {
    vbi_char *c = &PAGE.text[i];
    if (i % PCOLS == 0) c->size = SIZE0;
    if (i % PCOLS == 1) c->size = SIZE1;
    if (DRCS) c->unicode = 0xF000 | (c->unicode & 0x7C0) | ((c->unicode & 0x3F) % 48);
    else if (c->unicode >= 0xF000) c->unicode &= 0x7FFF;
  }
#endif
  reveal = in_bool(); flash_on = in_bool();
  fill = IN_PIX();
  /* Font bitmaps and the DRCS bitmap are filled with the byte FONTFILL (grid: 0x00 = every font bit background / DRCS
     pixel value 0, 0xFF = every font bit foreground / DRCS pixel value 15): the claim is about addresses, not glyph shapes,
     and a constant bitmap keeps the pen index of every pixel concrete.  (With arbitrary bitmaps each of the 120..416
     pixels reads the pen at a symbolic index: VT 1x1 PAL8 = 175 s SSA conversion alone, no verdict in 280 s.)
     WHERE the fonts are read still depends on the symbolic unicode/italic/size: those reads are bounds-checked. */
  memset(wstfont2_bits, FONTFILL, sizeof wstfont2_bits);
  memset(ccfont2_bits, FONTFILL, sizeof ccfont2_bits);
  memset(DRCS_FONT, FONTFILL, sizeof DRCS_FONT);
#ifdef KNOWN_C16_CUT_WIDE
  for (y = 0; y < RH; y++) {
    vbi_char *last = &PAGE.text[(row + y) * PCOLS + column + RW - 1];
    if (!CC && (last->size == VBI_DOUBLE_WIDTH || last->size == VBI_DOUBLE_SIZE || last->size == VBI_DOUBLE_SIZE2)) last->size = VBI_NORMAL_SIZE;
  }
#endif
  canvas = (pix_t *) malloc(NPIX * sizeof(pix_t));           /* the documented size (CSIZE bytes), exactly */
  V_ASSUME(canvas != NULL);
  for (i = 0; i < NPIX; i++) canvas[i] = fill;

  if (CC) vbi_draw_cc_page_region(&PAGE, (vbi_pixfmt) FMT, canvas, RSX < 0 ? -1 : STRIDE, column, row, RW, RH);
  else vbi_draw_vt_page_region(&PAGE, (vbi_pixfmt) FMT, canvas, RSX < 0 ? -1 : STRIDE, column, row, RW, RH, reveal, flash_on);

  if (FMT != 32 && FMT != 6) {
    for (i = 0; i < NPIX; i++) V_ASSERT(canvas[i] == fill, "unsupported_format_draws_nothing");
  } else {
    /* guard pixels to the right of the rectangle in every pixel row */
    for (y = 0; y < RH * CH; y++)
      for (x = RW * CW; x < PSTRIDE; x++)
        V_ASSERT(canvas[y * PSTRIDE + x] == fill, "pixels_between_rows_untouched");
    first = &PAGE.text[row * PCOLS + column];
    if (RW == 1 && RH == 1 && (CC || (first->unicode < 0xF000 && first->size != VBI_OVER_TOP && first->size != VBI_OVER_BOTTOM
                                     && first->size != VBI_DOUBLE_WIDTH && first->size != VBI_DOUBLE_SIZE && first->size != VBI_DOUBLE_SIZE2))) {
      /* every pixel of the cell is drawn in one of its two colours */
      for (y = 0; y < CH; y++)
        for (x = 0; x < CW; x++) {
          pix_t v = canvas[y * PSTRIDE + x];
          if (FMT == 6) V_ASSERT(v == first->foreground || v == first->background, "pixel_has_a_pen_colour");
          else V_ASSERT(v == PAGE.color_map[first->foreground] || v == PAGE.color_map[first->background], "pixel_has_a_pen_colour");
        }
      V_REACH("plain_cell");
    }
    if (!CC && first->unicode >= 0xF000 && have_drcs) V_REACH("drcs");
    if (!CC && first->size == VBI_DOUBLE_HEIGHT2) V_REACH("lower_half");
  }
  free(canvas);
  V_END();
}
