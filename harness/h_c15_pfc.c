/* C15 part 2 - Page Format Clear demultiplexer (src/pfc_demux.c, stand-alone).
 * Real unit: src/pfc_demux.c (included), src/hamm.c (linked: _vbi_hamm8_inv). */
#include "verif.h"
#include "ref_codes.h"
#include "c15_ref.h"
/* CBMC only: model of the unit's single memcpy (<= 39 bytes into block[2048] at a data dependent offset and
   length).  Both ranges are checked for the full length (w_ok/r_ok, like CBMC's own model).
   PFC_MEMCPY_PREFIX == 0: bounded byte loop, exact.
   PFC_MEMCPY_PREFIX == k: only the bytes that land in block[0..k-1] are copied (stores at constant indices), the
   rest of the destination keeps its (arbitrary) old contents.  Used by h_pfc_step only, where the block buffer
   starts arbitrary and nothing but the 4 byte structure header at block[0..3] is ever read back.
   The native build uses the real memcpy. */
#ifndef PFC_MEMCPY_PREFIX
#define PFC_MEMCPY_PREFIX 0
#endif
#ifdef VERIF_CBMC
static uint8_t *c15_blk;		/* = PX.block.block */
static void *c15_memcpy(void *d, const void *s, size_t n)
{
  size_t i;
  __CPROVER_assert(__CPROVER_w_ok(d, n), "VP:pfc_memcpy_destination_in_bounds");
  __CPROVER_assert(__CPROVER_r_ok(s, n), "VP:pfc_memcpy_source_in_bounds");
  /* w_ok only knows the enclosing object: pin the destination to the member block[2048] explicitly */
  __CPROVER_assert(__CPROVER_same_object(d, c15_blk) && (uint8_t *) d >= c15_blk
		   && (size_t) ((uint8_t *) d - c15_blk) <= 2048 && n <= 2048 - (size_t) ((uint8_t *) d - c15_blk),
		   "VP:pfc_memcpy_inside_block_member");
  if (PFC_MEMCPY_PREFIX) {
    size_t off = (size_t) ((uint8_t *) d - c15_blk);
    for (i = 0; i < PFC_MEMCPY_PREFIX; i++)
      if (off <= i && i - off < n) c15_blk[i] = ((const uint8_t *) s)[i - off];
  } else for (i = 0; i < n; i++) ((uint8_t *) d)[i] = ((const uint8_t *) s)[i];
  return d;
}
#define memcpy c15_memcpy
#endif
#include "src/pfc_demux.c"
#undef memcpy

static vbi_pfc_demux PX;		/* exact size object: any access outside is a bounds failure */
static unsigned pcb_n;

/* representation invariant of the demux between two feed() calls */
static int pfc_inv(const vbi_pfc_demux *d)
{
  if (!(d->ci <= 15 || d->ci == 256)) return 0;
  if (!((d->packet >= 1 && d->packet <= 26) || d->packet == 256)) return 0;
  if (d->n_packets > 31) return 0;
  if (d->block.application_id == (unsigned int) -1)	/* expecting / reading a structure header */
    return (d->bi == 0 && d->left == 0) || (d->bi <= 4 && d->left == 4 - d->bi);
  return d->block.application_id <= 31 && d->block.block_size <= 2047
    && d->bi <= d->block.block_size && d->left == d->block.block_size - d->bi;
}

/* ---- 1. INV-STEP ------------------------------------------------------- */
#define STEP_CBMAX 8
static uint8_t step_cb_ret[STEP_CBMAX];

static vbi_bool pfc_step_cb(vbi_pfc_demux *dx, void *ud, const vbi_pfc_block *b)
{
  vbi_bool r;
  V_ASSERT(dx == &PX && ud == (void *) &pcb_n && b == &PX.block, "pfc_cb_args");
  V_ASSERT(b->block_size >= 1 && b->block_size <= 2047, "pfc_cb_size_1_2047");
  V_ASSERT(b->application_id <= 31, "pfc_cb_app_id");
  V_ASSERT(PX.bi == b->block_size && PX.left == 0, "pfc_cb_block_complete");
  r = (pcb_n < STEP_CBMAX) ? (step_cb_ret[pcb_n] & 1) : TRUE;
  pcb_n++;
  return r;
}

#ifdef KNOWN_PFC_BLOCK_END_OVERREAD
#define PFC_SLACK 1	/* defect pfc_block_end_overread: buffer[42] is read; give the packet one more readable (arbitrary)
			   byte, as inside vbi_sliced.data[56], so that everything else can be decided */
#else
#define PFC_SLACK 0
#endif
V_HARNESS(h_pfc_step)
{
  uint8_t pkt[42 + PFC_SLACK]; vbi_bool r; unsigned i;
  vbi_pgno pgno0; unsigned stream0, o_ci, o_packet, o_np, o_bi, o_left, o_app, o_size;
  int mp, mag, ourmag, packet;
  V_INIT();
  in_bytes(&PX, sizeof PX);			/* arbitrary state, arbitrary block buffer contents */
  PX.callback = pfc_step_cb; PX.user_data = &pcb_n;
#ifdef VERIF_CBMC
  c15_blk = PX.block.block;
#endif
  V_ASSUME(pfc_inv(&PX));
  in_bytes(pkt, 42 + PFC_SLACK);
  in_bytes(step_cb_ret, STEP_CBMAX);
  pgno0 = PX.block.pgno; stream0 = PX.block.stream;
  o_ci = PX.ci; o_packet = PX.packet; o_np = PX.n_packets; o_bi = PX.bi; o_left = PX.left;
  o_app = PX.block.application_id; o_size = PX.block.block_size;

  r = vbi_pfc_demux_feed(&PX, pkt);

  V_ASSERT(pfc_inv(&PX), "pfc_step_invariant");
  V_ASSERT(PX.block.pgno == pgno0 && PX.block.stream == stream0, "pfc_step_filter_unchanged");
  V_ASSERT(PX.callback == pfc_step_cb && PX.user_data == (void *) &pcb_n, "pfc_step_cb_unchanged");
  /* frame: a packet of another magazine (not a page header) or a packet 26..31 leaves the state alone */
  { int a = ref_unham8(pkt[0]), b = ref_unham8(pkt[1]);
    mp = (a < 0 || b < 0) ? -1 : (a | (b << 4)); }
  mag = mp & 7; packet = mp >> 3; ourmag = (pgno0 >> 8) & 15;	/* magazine 8 is transmitted as 0 */
  if (mp >= 0 && packet != 0 && ((mag ? mag : 8) != ourmag || packet > 25)) {
    V_ASSERT(r, "pfc_step_unrelated_true");
    V_ASSERT(pcb_n == 0, "pfc_step_unrelated_no_delivery");
    V_ASSERT(PX.ci == o_ci && PX.packet == o_packet && PX.n_packets == o_np && PX.bi == o_bi && PX.left == o_left
	     && PX.block.application_id == o_app && PX.block.block_size == o_size, "pfc_step_unrelated_frame");
    V_REACH("unrelated");
  }
  if (mp < 0) { V_ASSERT(!r && pcb_n == 0, "pfc_step_address_error_false"); }
  if (pcb_n >= 1) V_REACH("delivered");
  if (pcb_n >= 2) V_REACH("delivered2");
  (void) i;
  V_END();
}

/* ---- 2. SEQ with a reference SENDER (EN 300 708 section 4) --------------------
 * NPAGES pages of PPP packets each on page MAG/PG, stream STREAM, consecutive continuity indices from CI0.
 *   page header X/0: page number, S1 = continuity index, S2 (3 bit) + S4 (2 bit) = number of packets, S3 = stream
 *   packet X/1..PPP: byte 2 = block pointer BP (Hamming 8/4; 3*BP = offset of the first block separator of the
 *                    packet in its 39 data bytes, 13 = no block starts here), bytes 3..41 data
 *   data stream: [fillers 0x03] BS 0x0C, structure header = 4 Hamming 8/4 nibbles, lsn first, of
 *                (application id | block size << 5), block bytes, [fillers] BS ...; BS, filler Hamming 8/4;
 *                the first BS of a packet is moved by fillers to an offset divisible by 3
 * Everything that steers the demux (geometry, sizes, paddings, application ids, page, stream, CI, which packet is
 * lost) comes from the grid: the layout is concrete (CBMC rules 2 and 3; one fully symbolic packet costs minutes,
 * see h_pfc_step).  Symbolic: all block bytes, header control bits and text, contents of the interleaved
 * unrelated packets.  DROP = index in the sequence (header, PPP packets) x NPAGES of the one packet that is not
 * fed (-1 none). */
#ifndef NPAGES
#define NPAGES 3
#endif
#ifndef PPP
#define PPP 2
#endif
#ifndef NB
#define NB 3
#endif
#ifndef SZ0
#define SZ0 5
#endif
#ifndef SZ1
#define SZ1 40
#endif
#ifndef SZ2
#define SZ2 3
#endif
#ifndef SZ3
#define SZ3 1
#endif
#ifndef PAD0
#define PAD0 0
#endif
#ifndef PAD1
#define PAD1 0
#endif
#ifndef PAD2
#define PAD2 0
#endif
#ifndef PAD3
#define PAD3 0
#endif
#ifndef DROP
#define DROP -1
#endif
#ifndef MAG
#define MAG 1
#endif
#ifndef PG
#define PG 0xF7
#endif
#ifndef STREAM
#define STREAM 5
#endif
#ifndef CI0
#define CI0 14
#endif
#ifndef CBITS
#define CBITS 0x1A
#endif
#ifndef APP0
#define APP0 9		/* application id of block b = (APP0 + 7 b) & 31 */
#endif
#ifndef UNREL
#define UNREL 1		/* interleave unrelated packets */
#endif
/* One Hamming 8/4 protected byte is hit by bit errors: sent code word XOR DMG_MASK.  DMG_MASK with two bits set: not decodable (the
 * code has distance 4: every double error is detected - C03 decides that for the real table and all 256 values); one bit set:
 * corrected, nothing may change.  DMG_KIND 0 none; 1 byte DMG_BYTE of fed packet DMG_F (page header: bytes 0..7 = address, page
 * number, S1..S4; data packet: bytes 0..2 = address, block pointer); 2 nibble DMG_NIB of the structure header of block DMG_BLK;
 * 3 the block separator of block DMG_BLK.  Place AND mask come from the grid: the decoded value of such a byte steers the demux (a
 * symbolic value leaves symex with a symbolic continuity index / block size on the branch the solver knows to be infeasible: no
 * verdict in 7 min per instance, measured).  Symbolic: block bytes, header text, unrelated packets. */
#ifndef DMG_KIND
#define DMG_KIND 0
#endif
#ifndef DMG_F
#define DMG_F 0
#endif
#ifndef DMG_BYTE
#define DMG_BYTE 4
#endif
#ifndef DMG_BLK
#define DMG_BLK 1
#endif
#ifndef DMG_NIB
#define DMG_NIB 0
#endif
#ifndef DMG_MASK
#define DMG_MASK 0x21
#endif
#define DMG_BITS (((DMG_MASK) & 1) + (((DMG_MASK) >> 1) & 1) + (((DMG_MASK) >> 2) & 1) + (((DMG_MASK) >> 3) & 1) \
		  + (((DMG_MASK) >> 4) & 1) + (((DMG_MASK) >> 5) & 1) + (((DMG_MASK) >> 6) & 1) + (((DMG_MASK) >> 7) & 1))
/* FOREIGN_HDR 1: before every page header of ours but the first, the header of ANOTHER page of the same magazine is fed (what a
 * serial mode transmission looks like: other pages lie between two transmissions of ours); 2: the header of a page of another
 * magazine is fed right after every page header of ours (parallel mode, C11 = 0: it does not end our page, EN 300 706 9.3.1.3). */
/* FOREIGN_HDR 3: as 1, followed by packet X/1 of that foreign page. */
#ifndef FOREIGN_HDR
#define FOREIGN_HDR 0
#endif
#define NDP (NPAGES * PPP)		/* data packets */
#define CAP (NDP * 39)
#define NFEED (NPAGES * (PPP + 1))
#define SZMAX 128
#define NBMAX 4

static const unsigned b_size[NBMAX] = { SZ0, SZ1, SZ2, SZ3 };
static const unsigned b_pad[NBMAX] = { PAD0, PAD1, PAD2, PAD3 };
static uint8_t b_data[NBMAX][SZMAX]; static unsigned b_app[NBMAX];
static unsigned b_first[NBMAX], b_last[NBMAX];	/* data packet holding the BS / the last block byte */
static unsigned b_endoff[NBMAX];			/* offset 0..38 of the last block byte in its packet */
static unsigned b_bspos[NBMAX];				/* position of the block separator in the data stream */
static uint8_t p_stream[CAP]; static unsigned p_bp[NDP]; static uint8_t p_seen[NDP];

static struct { unsigned app, size, stream; vbi_pgno pgno; uint8_t d[SZMAX]; } pcb_log[NBMAX];
static unsigned pexp_n, pexp_idx[NBMAX];	/* oracle, computed before the first packet is fed: blocks that must be delivered, in order */

static vbi_bool pfc_seq_cb(vbi_pfc_demux *dx, void *ud, const vbi_pfc_block *b)
{
  unsigned i;
  V_ASSERT(dx == &PX && ud == (void *) &pcb_n && b == &PX.block, "pfc_cb_args");
  V_ASSERT(b->block_size >= 1 && b->block_size <= 2047, "pfc_cb_size_1_2047");
  {
    /* every delivery is the next block of the oracle's list (size and application id are concrete in every run).  Checked here and
       then assumed: a demux that has framed a block wrongly goes on reading SYMBOLIC block bytes as separators and structure
       headers, and symex would follow every such path to the end of the run (no verdict in 600 s on the seeded change) */
    int as_sent = 0;
    for (i = 0; i < NBMAX; i++)
      if (i == pcb_n && i < pexp_n) as_sent = (b->block_size == b_size[pexp_idx[i]] && b->application_id == b_app[pexp_idx[i]]);
    V_ASSERT(as_sent, "pfc_delivery_is_the_next_intact_block");
    V_ASSUME(as_sent);
  }
  if (pcb_n < NBMAX) {
    pcb_log[pcb_n].app = b->application_id; pcb_log[pcb_n].size = b->block_size;
    pcb_log[pcb_n].stream = b->stream; pcb_log[pcb_n].pgno = b->pgno;
    for (i = 0; i < SZMAX; i++) pcb_log[pcb_n].d[i] = (i < b->block_size) ? b->block[i] : 0;
  }
  pcb_n++;
  return TRUE;
}

static int pfc_layout(void)
{
  unsigned pos = 0, b, i, k;
  for (k = 0; k < NDP; k++) { p_bp[k] = 13; p_seen[k] = 0; }
  for (b = 0; b < NB; b++) {
    unsigned sh = b_app[b] | (b_size[b] << 5);
    for (i = 0; i < b_pad[b]; i++) { if (pos >= CAP) return 0; p_stream[pos++] = ref_ham8(C15_FILL); }
    if (pos >= CAP) return 0;
    if (!p_seen[pos / 39])
      while ((pos % 39) % 3) { p_stream[pos++] = ref_ham8(C15_FILL); if (pos >= CAP) return 0; }
    if (!p_seen[pos / 39]) { p_seen[pos / 39] = 1; p_bp[pos / 39] = (pos % 39) / 3; }
    if (pos + 5 + b_size[b] > CAP) return 0;
    b_first[b] = pos / 39; b_bspos[b] = pos;
    p_stream[pos++] = ref_ham8(C15_BS);
    for (i = 0; i < 4; i++) p_stream[pos++] = ref_ham8((sh >> (4 * i)) & 15);
    for (i = 0; i < b_size[b]; i++) p_stream[pos++] = b_data[b][i];
    b_last[b] = (pos - 1) / 39; b_endoff[b] = (pos - 1) % 39;
  }
  while (pos < CAP) p_stream[pos++] = ref_ham8(C15_FILL);
  return 1;
}

V_HARNESS(h_pfc_seq)
{
  unsigned f, b, i, exp_n = 0, *e_idx = pexp_idx; const int drop = DROP; vbi_bool r;
  const vbi_pgno pgno = (vbi_pgno) ((((MAG) ? (MAG) : 8) << 8) | (PG));
  uint8_t pkt[42], unrel[42], dmg_v; int dmg_bad = 0; unsigned dmg_feed = NFEED, dmg_gp = 0, dmg_before = NBMAX;
  V_INIT();
#ifdef VERIF_CBMC
  c15_blk = PX.block.block;
#endif
  r = _vbi_pfc_demux_init(&PX, pgno, STREAM, pfc_seq_cb, &pcb_n);
  V_ASSERT(r && pfc_inv(&PX), "pfc_init_invariant");
  for (b = 0; b < NB; b++) { b_app[b] = (APP0 + 7 * b) & 31; in_bytes(b_data[b], SZMAX); }
  V_ASSUME(pfc_layout());
  V_ASSUME(DMG_KIND == 0 || DMG_BITS == 1 || DMG_BITS == 2);
  if (DMG_KIND == 2 || DMG_KIND == 3) {		/* structure header nibble / block separator of block DMG_BLK */
    unsigned q = b_bspos[DMG_BLK] + (DMG_KIND == 2 ? 1 + (DMG_NIB) : 0);
    int d0 = ref_unham8(p_stream[q]), d;
    V_ASSUME(DMG_BLK < NB && drop < 0);
    dmg_v = p_stream[q] ^ (uint8_t) (DMG_MASK); d = ref_unham8(dmg_v);
    V_ASSERT(DMG_BITS == 2 ? d < 0 : d == d0, "ref_hamming_double_error_detected_single_corrected");
    p_stream[q] = dmg_v; dmg_bad = d < 0;
    /* the demux looks at the structure header when its 4th byte has arrived, at a separator when it reaches it */
    dmg_gp = (b_bspos[DMG_BLK] + (DMG_KIND == 2 ? 4 : 0)) / 39;
    dmg_feed = dmg_gp / PPP * (PPP + 1) + 1 + dmg_gp % PPP;
    dmg_before = DMG_BLK;			/* blocks 0 .. DMG_BLK-1 were complete before */
  }
#ifdef KNOWN_PFC_BLOCK_END_OVERREAD
  /* defect (obligation pfc_block_end_overread): a block whose last byte is the last byte of a packet makes
     _vbi_pfc_demux_decode read buffer[42] */
  for (b = 0; b < NB; b++) V_ASSUME(!(b_size[b] >= 1 && b_endoff[b] == 38));
#endif
#ifdef KNOWN_PFC_LAST_PACKET_LOSS
  /* defect (obligation pfc_last_packet_loss): losing the last packet(s) of a page while a block is in progress */
  if (drop >= 0 && drop % (PPP + 1) == PPP)
    for (b = 0; b < NB; b++) {
      unsigned gd = (unsigned) drop / (PPP + 1) * PPP + PPP - 1;
      V_ASSUME(!(b_size[b] >= 1 && b_first[b] < gd && b_last[b] >= gd));
    }
#endif
  if (DMG_KIND == 1) {				/* byte DMG_BYTE of fed packet DMG_F (applied below, when the packet is built) */
    unsigned g = (unsigned) (DMG_F) / (PPP + 1), j = (unsigned) (DMG_F) % (PPP + 1);
    dmg_bad = (DMG_BITS == 2); dmg_feed = DMG_F; dmg_gp = (j == 0) ? g * PPP : g * PPP + (j - 1);
    dmg_before = NBMAX;				/* decided by the packet: blocks that ended in earlier packets */
  }
  /* oracle (before anything is fed: the callback compares every delivery with it): the blocks received completely, in order */
  for (b = 0; b < NB; b++) {
    int ok = b_size[b] >= 1;
    if (drop >= 0) {
      unsigned g = (unsigned) drop / (PPP + 1), j = (unsigned) drop % (PPP + 1);
      unsigned lost_from = (j == 0) ? g * PPP : g * PPP + (j - 1);	/* first data packet not processed */
      unsigned resume = (g + 1) * PPP;					/* first data packet of the next page */
      if (!(b_last[b] < lost_from || b_first[b] >= resume)) ok = 0;
    }
    if (DMG_KIND && dmg_bad) {
      /* the block hit (or every block touching the packet hit) is discarded; blocks completed before are delivered; delivery
         resumes with the first block that starts on the page after the one the error was noticed on */
      unsigned resume = (dmg_gp / PPP + 1) * PPP;
      int before = (dmg_before < NBMAX) ? (b < dmg_before) : (b_last[b] < dmg_gp);
      if (!(before || b_first[b] >= resume)) ok = 0;
    }
    if (ok) e_idx[exp_n++] = b;
  }
  pexp_n = exp_n;
  for (f = 0; f < NFEED; f++) {
    unsigned g = f / (PPP + 1), j = f % (PPP + 1);
    if (UNREL) {	/* unrelated traffic: a packet 1..25 of another magazine, or a packet 26..31 of ours; body arbitrary */
      unsigned um = (f & 1) ? (MAG) : (((MAG) + 1 + f) & 7), up = (f & 1) ? 26 + (f % 6) : 1 + (f % 25);
      if (um == (MAG) && up <= 25) um = ((MAG) + 1) & 7;
      in_bytes(unrel, 42);
      unrel[0] = ref_ham8(um | ((up & 1) << 3)); unrel[1] = ref_ham8(up >> 1);
      r = vbi_pfc_demux_feed(&PX, unrel);
      V_ASSERT(r, "pfc_unrelated_returns_true");
    }
    if (((FOREIGN_HDR == 1 || FOREIGN_HDR == 3) && j == 0 && g > 0) || (FOREIGN_HDR == 2 && j == 1)) {
      unsigned fm = (FOREIGN_HDR != 2) ? (MAG) : (((MAG) + 1) & 7), fp = (FOREIGN_HDR != 2) ? ((PG) ^ 0x01) : (PG);
      in_bytes(unrel, 42);			/* sub-code, control bits, header text: arbitrary */
      unrel[0] = ref_ham8(fm); unrel[1] = ref_ham8(0);
      unrel[2] = ref_ham8(fp & 15); unrel[3] = ref_ham8(fp >> 4);
      r = vbi_pfc_demux_feed(&PX, unrel);
      V_ASSERT(r, "pfc_unrelated_returns_true");
#if FOREIGN_HDR == 3
      /* ... and a row X/1 of that foreign page (same magazine, arbitrary body): a whole unrelated page between two pages of ours */
      in_bytes(unrel, 42);
      unrel[0] = ref_ham8((MAG) | 8); unrel[1] = ref_ham8(0);
      r = vbi_pfc_demux_feed(&PX, unrel);
      V_ASSERT(r, "pfc_unrelated_returns_true");
#endif
    }
    in_bytes(pkt, 42);				/* header bytes 8..41: control bits, header text: don't care */
    if (j == 0) {
      unsigned s1 = (CI0 + g) & 15, cbits = (CBITS) >> g;	/* C4, C5, C6: concrete, they share Hamming bytes with S2/S4 */
      pkt[0] = ref_ham8(MAG); pkt[1] = ref_ham8(0);
      pkt[2] = ref_ham8((PG) & 15); pkt[3] = ref_ham8((PG) >> 4);
      pkt[4] = ref_ham8(s1);
      pkt[5] = ref_ham8((PPP & 7) | ((cbits & 1) << 3));			/* S2, C4 */
      pkt[6] = ref_ham8(STREAM);
      pkt[7] = ref_ham8(((PPP >> 3) & 3) | (((cbits >> 1) & 3) << 2));	/* S4, C5, C6 */
    } else {
      unsigned gp = g * PPP + (j - 1);
      pkt[0] = ref_ham8((MAG) | ((j & 1) << 3)); pkt[1] = ref_ham8(j >> 1);
      pkt[2] = ref_ham8(p_bp[gp]);
      for (i = 0; i < 39; i++) pkt[3 + i] = p_stream[gp * 39 + i];
    }
    if (DMG_KIND == 1 && f == (DMG_F)) {
      int d0 = ref_unham8(pkt[DMG_BYTE]), d;
      V_ASSUME((DMG_F) < NFEED && (DMG_BYTE) < (j == 0 ? 8 : 3) && drop < 0);
      dmg_v = pkt[DMG_BYTE] ^ (uint8_t) (DMG_MASK); d = ref_unham8(dmg_v);
      V_ASSERT(DMG_BITS == 2 ? d < 0 : d == d0, "ref_hamming_double_error_detected_single_corrected");
      pkt[DMG_BYTE] = dmg_v;
    }
    if ((int) f != drop) {
      r = vbi_pfc_demux_feed(&PX, pkt);
      if (DMG_KIND && dmg_bad && f == dmg_feed) {
        /* documented: "FALSE if the packet contained uncorrectable errors" */
        V_ASSERT(!r, "pfc_uncorrectable_packet_returns_false");
        V_REACH("refused");
      } else V_ASSERT(r, "pfc_clean_packet_returns_true");
      V_ASSERT(pfc_inv(&PX), "pfc_seq_invariant");
    }
  }
  if (DMG_KIND && !dmg_bad) V_REACH("corrected");
  V_ASSERT(pcb_n == exp_n, "pfc_delivered_exactly_the_intact_blocks");
  for (i = 0; i < NBMAX; i++) if (i < exp_n && i < pcb_n) {
    unsigned k; b = e_idx[i];
    V_ASSERT(pcb_log[i].size == b_size[b] && pcb_log[i].app == b_app[b], "pfc_block_header");
    V_ASSERT(pcb_log[i].pgno == pgno && pcb_log[i].stream == STREAM, "pfc_block_source");
    for (k = 0; k < SZMAX; k++) if (k < b_size[b]) V_ASSERT(pcb_log[i].d[k] == b_data[b][k], "pfc_block_bytes");
  }
  /* frame: what the demux has no business to change */
  V_ASSERT(PX.block.pgno == pgno && PX.block.stream == STREAM && PX.callback == pfc_seq_cb && PX.user_data == (void *) &pcb_n, "pfc_seq_frame");
  if (exp_n >= 1) V_REACH("some");
  V_END();
}
