/* C14 - PIL -> time conversion, nearest-year inference, validity windows, TZ preservation.
 * Real unit: src/pdc.c (included).  Environment: models/c14_time.c (calendar, clock, TZ cell).
 *
 * Scenario (all harnesses): the reference time is built FORWARD from symbolic canonical local civil
 * fields L = (ys, ms, ds, hs, mins, ss) of the zone under test (offset Z seconds east of UTC):
 *     S = secs_from_civil(L) - Z
 * Every instant of the year range has exactly one such L, so all reference times in range are covered.
 *
 * How results are pinned down without asking the SAT solver to compare two multiplier circuits:
 * the model keeps a ghost log of every mktime() call (fields passed, zone in effect, secs_from_civil(fields)).
 * A harness asserts (a) the logged fields are exactly the expected civil fields - PIL month/day/hour/minute,
 * second 0, year Ye with month distance (Ye*12 + PIL month) - (ys*12 + ms) in [-6, +5] (doc comment of
 * vbi_pil_to_time: "more than five months after start => earlier date") - (b) the conversion ran in the
 * requested zone, (c) the returned time_t is logged_secs - Z.  (a)-(c) say: result + Z, i.e. the result
 * viewed in the zone, is the civil time with the PIL's fields in the nearest year.  secs_from_civil() is
 * linear in mday/hour/minute by construction, which gives the window lengths from the logged fields.
 *
 * Grid/bounds macros: C14_Y0..C14_Y1 years of L; C14_OFFMAX max |offset|; TZMODE 0 = NULL, 1 = "UTC", 2 = named;
 * C14_TZ_SYMBOLIC: named zone string symbolic (3 chars) or "NMD"; C14_PILCLS: PIL class split of the window harnesses.
 */
#include "verif.h"
#include "c14_time.h"
/* C14_NATIVE_NOOPT (native replay build only): compile the unit without optimisation, so that a local that is read before it was
 * written (saved_errno in valid_pil_validity_window before commit 311393e) is really loaded from its stack slot; at -O1 clang deletes
 * the store of the undefined value and errno keeps mktime's EOVERFLOW by accident, i.e. the counterexample would not replay. */
#if defined(VERIF_NATIVE) && defined(C14_NATIVE_NOOPT)
#pragma clang optimize off
#endif
#include "src/pdc.c"
#if defined(VERIF_NATIVE) && defined(C14_NATIVE_NOOPT)
#pragma clang optimize on
/* fills the stack area the next call will use with a recognisable pattern (0x5A5A5A5A is no errno value) */
__attribute__((noinline)) static void c14_stack_pattern(void)
{
  volatile unsigned char a[4096]; unsigned i;
  for (i = 0; i < sizeof a; i++) a[i] = 0x5A;
}
#else
#define c14_stack_pattern() ((void) 0)
#endif
#undef mktime
#undef timegm

#ifndef C14_Y0
#define C14_Y0 1990
#endif
#ifndef C14_Y1
#define C14_Y1 2030
#endif
#ifndef C14_OFFMAX
#define C14_OFFMAX 50400
#endif
#ifndef TZMODE
#define TZMODE 2
#endif
#ifndef C14_TZ_SYMBOLIC
#define C14_TZ_SYMBOLIC 0   /* 1: the named tz argument is a symbolic string, 0: the fixed name "NMD" */
#endif

#define DAY INT64_C(86400)
#define HOUR INT64_C(3600)

struct scen {
  unsigned pil; int pm0, pd, ph, pmi;       /* PIL and its fields (month 0-based; -1 if the month field is 0) */
  int ys, ms, ds, hs, mins, ss;             /* local civil fields of the reference time */
  int32_t Z;                                /* offset of the zone under test */
  int zone;                                 /* TZ cell id the conversion has to run in */
  int utc_path;                             /* API converts through UTC + explicit offset (lto functions, tz "UTC") */
  int64_t S;                                /* reference instant */
  time_t start_arg;                         /* what is passed: S or (time_t)-1 ("now") */
  int cell0;                                /* initial TZ cell */
  int use_now, time_fail;
  char tzbuf[4]; const char *tz;
};

/* value restricted to lo..hi: an assumption under CBMC; the native build folds any input into the range
 * (identity on values that satisfy the assumption, so counterexamples replay unchanged) so that the
 * smoke inputs exercise the code instead of stopping at the assumption */
#ifdef VERIF_NATIVE
#define IN_RANGE(v, lo, hi) do { long long w_ = (long long) (hi) - (lo) + 1, x_ = ((long long) (v) - (lo)) % w_; \
                                 if (x_ < 0) x_ += w_; (v) = (lo) + x_; } while (0)
#else
#define IN_RANGE(v, lo, hi) V_ASSUME((v) >= (lo) && (v) <= (hi))
#endif

static int32_t in_off(void)
{
  int32_t o = (int32_t) in_u32();
  IN_RANGE(o, -C14_OFFMAX, C14_OFFMAX);
  return o;
}

/* lto: 0 = zone from TZMODE (tz string API), 1 = zone is a free seconds_east (lto API) */
static void scen_read(struct scen *sc, int lto)
{
  int ambient_set;
  int32_t seconds_east;
  sc->pil = in_u32() & 0xFFFFF;
  sc->ys = in_u16(); sc->ms = in_u8(); sc->ds = in_u8(); sc->hs = in_u8(); sc->mins = in_u8(); sc->ss = in_u8();
  ambient_set = in_bool();
  M14.off[M14_TZ_UNSET] = in_off(); M14.off[M14_TZ_AMBIENT] = in_off(); M14.off[M14_TZ_UTC] = 0; M14.off[M14_TZ_NAMED] = in_off();
  seconds_east = in_off();
  M14.setenv_fail_mask = in_u8(); M14.mktime_fail_mask = in_u8();
  sc->use_now = in_bool(); sc->time_fail = in_bool();
  sc->tzbuf[0] = (char) in_u8(); sc->tzbuf[1] = (char) in_u8(); sc->tzbuf[2] = (char) in_u8(); sc->tzbuf[3] = 0;

  sc->pm0 = (int) VBI_PIL_MONTH(sc->pil) - 1; sc->pd = VBI_PIL_DAY(sc->pil);
  sc->ph = VBI_PIL_HOUR(sc->pil); sc->pmi = VBI_PIL_MINUTE(sc->pil);

  IN_RANGE(sc->ys, C14_Y0, C14_Y1);
  IN_RANGE(sc->ms, 0, 11);
  IN_RANGE(sc->ds, 1, m14_days_in_month(sc->ys, sc->ms));
  IN_RANGE(sc->hs, 0, 23); IN_RANGE(sc->mins, 0, 59); IN_RANGE(sc->ss, 0, 59);

  m14_reset(ambient_set);
  sc->cell0 = M14.cell;
  if (lto) { sc->Z = seconds_east; sc->tz = 0; sc->zone = M14_TZ_UTC; sc->utc_path = 1; }
  else if (TZMODE == 0) { sc->Z = M14.off[sc->cell0]; sc->tz = 0; sc->zone = sc->cell0; sc->utc_path = 0; }
  else if (TZMODE == 1) { sc->Z = 0; sc->tz = "UTC"; sc->zone = M14_TZ_UTC; sc->utc_path = 1; }
  else {
#if C14_TZ_SYMBOLIC
    /* any string of up to 3 characters (empty, with '=', ...) that is neither "UTC" nor the ambient value */
#ifdef VERIF_NATIVE
    if (m14_classify(sc->tzbuf) != M14_TZ_NAMED) sc->tzbuf[0] = 'N';
#endif
    V_ASSUME(m14_classify(sc->tzbuf) == M14_TZ_NAMED);
#else
    sc->tzbuf[0] = 'N'; sc->tzbuf[1] = 'M'; sc->tzbuf[2] = 'D';
#endif
    M14.named_tz = sc->tzbuf;   /* this very pointer denotes the NAMED zone (content checked/assumed above) */
    sc->Z = M14.off[M14_TZ_NAMED]; sc->tz = sc->tzbuf; sc->zone = M14_TZ_NAMED; sc->utc_path = 0;
  }
}

static void scen_start(struct scen *sc)
{
  sc->S = m14_hint_civil(sc->ys, sc->ms, sc->ds, sc->hs, sc->mins, sc->ss) - sc->Z;
  if (sc->use_now) { sc->start_arg = (time_t) -1; M14.now = sc->time_fail ? -1 : sc->S; }
  else { sc->start_arg = (time_t) sc->S; M14.now = sc->S; }
}

/* after EVERY call: TZ variable and libc zone state as before */
static void post_tz(const struct scen *sc)
{
  V_ASSERT(M14.cell == sc->cell0, "tz_env_restored");
  V_ASSERT(M14.active == sc->cell0, "tz_state_restored_tzset_after_last_change");
  V_ASSERT(M14.n_localtime_dirty == 0, "tz_localtime_without_tzset");
  if (!sc->tz && !sc->utc_path) V_ASSERT(M14.n_setenv == 0 && M14.n_unsetenv == 0, "tz_null_never_touches_env");
}

static int env_failed(void) { return M14.n_time_failed || M14.n_setenv_failed || M14.n_mktime_failed; }

/* the k-th mktime() converted exactly these civil fields (second 0), in zone `zone` */
static void expect_mk(unsigned k, int y, int mon0, int mday, int h, int mi, int zone)
{
  const struct m14_mkcall *c = &M14.mk[k];
  V_ASSERT(c->y == y, "converted_year_is_nearest_year");
  V_ASSERT(c->mon0 == mon0 && c->mday == mday, "converted_month_day");
  V_ASSERT(c->h == h && c->mi == mi && c->s == 0, "converted_hour_minute");
  V_ASSERT(c->zone == zone, "converted_in_requested_zone");
}

/* independent reading: a PIL is a date iff month 1..12, day 1..(31,29,31,30,...), hour < 24, minute < 60 */
static int ref_day_ok(int pm0, int pd)
{
  static const unsigned char dmax[12] = { 31, 29, 31, 30, 31, 30, 31, 31, 30, 31, 30, 31 };
  return pm0 >= 0 && pm0 <= 11 && pd >= 1 && pd <= dmax[pm0];
}
static int ref_valid(const struct scen *sc) { return ref_day_ok(sc->pm0, sc->pd) && sc->ph < 24 && sc->pmi < 60; }

/* nearest-year rule in its documented form: month distance in [-6, +5] */
static int ref_year(const struct scen *sc)
{
  int adj, y = 0;
  for (adj = -1; adj <= 1; adj++) {
    int dist = 12 * adj + sc->pm0 - sc->ms;
    if (dist >= -6 && dist <= 5) y = sc->ys + adj;
  }
  return y;
}

static void check_to_time(const struct scen *sc, time_t r)
{
  int valid = ref_valid(sc), leap_ok = 0, Ye = 0;
  post_tz(sc);
  if (valid) { Ye = ref_year(sc); leap_ok = sc->pd <= m14_days_in_month(Ye, sc->pm0); }
  V_ASSERT(((time_t) -1 == r) == (!valid || !leap_ok || env_failed()), "fail_iff_invalid_or_feb29_nonleap_or_env");
  if ((time_t) -1 != r) {
    V_ASSERT(M14.n_mktime == 1, "one_conversion");
    expect_mk(0, Ye, sc->pm0, sc->pd, sc->ph, sc->pmi, sc->zone);
    V_ASSERT((int64_t) r == M14.mk[0].local - sc->Z, "result_is_converted_fields_minus_zone_offset");
    /* "within about six months of start": corollary of the month-distance rule, see h_m14_six_month_lemma */
    if (sc->pm0 == 1 && sc->pd == 29) V_REACH("feb29_ok");
    if (Ye != sc->ys) V_REACH("other_year");
    V_REACH("ok");
  } else {
    if (valid && !leap_ok) V_REACH("feb29_refused");
    if (valid && leap_ok) V_REACH("env_failure");
    if (M14.n_setenv_failed) V_REACH("setenv_failed");
  }
}

/* ------------------------------------------------------------------------------------------------ */
V_HARNESS(h_lto_to_time)
{
  struct scen sc; time_t r;
  V_INIT();
  scen_read(&sc, 1);
  scen_start(&sc);
  r = vbi_pil_lto_to_time(sc.pil, sc.start_arg, sc.Z);
  check_to_time(&sc, r);
  V_END();
}

/* Reference times within |offset| of the epoch.  time_t is a signed 64-bit type here, so every result around 1970
 * (negative ones included) is representable and the documented contract (fail only if not representable) asks for
 * the converted time.  pdc.c refuses (EOVERFLOW) when seconds_east < 0 and start + seconds_east < 0, and when
 * seconds_east > 0 and the result is negative - but not for seconds_east == 0 (checks written for an unsigned time_t). */
V_HARNESS(h_lto_to_time_epoch)
{
  struct scen sc; time_t r; int valid, leap_ok = 0, Ye = 0;
  V_INIT();
  scen_read(&sc, 1);
  sc.use_now = 0;
  scen_start(&sc);
  V_ASSUME(sc.S != -1);
  r = vbi_pil_lto_to_time(sc.pil, sc.start_arg, sc.Z);
  post_tz(&sc);
  valid = ref_valid(&sc);
  if (valid) { Ye = ref_year(&sc); leap_ok = sc.pd <= m14_days_in_month(Ye, sc.pm0); }
  if (valid && leap_ok && !env_failed()) {
    int refused_region = (sc.Z < 0 && sc.S + sc.Z < 0) || (sc.Z > 0 && M14.n_mktime >= 1 && M14.mk[0].local - sc.Z < 0);
    if (M14.n_mktime >= 1) expect_mk(0, Ye, sc.pm0, sc.pd, sc.ph, sc.pmi, sc.zone);
#ifdef KNOWN_PDC_EPOCH_EDGE
    if (!refused_region)
#endif
    V_ASSERT(M14.n_mktime == 1 && (int64_t) r == M14.mk[0].local - sc.Z, "epoch_representable_result_is_returned");
    if (refused_region) V_REACH("epoch_refused_region");
    if (!refused_region && r < 0) V_REACH("negative_result_ok");
  } else V_ASSERT((time_t) -1 == r, "fails");
  V_END();
}

V_HARNESS(h_pil_to_time)
{
  struct scen sc; time_t r;
  V_INIT();
  scen_read(&sc, 0);
  scen_start(&sc);
  r = vbi_pil_to_time(sc.pil, sc.start_arg, sc.tz);
  check_to_time(&sc, r);
  V_END();
}

/* ------------------------------------------------------------------------------------------------ */
/* EN 300 231 (as documented in pdc.c): a PTY is valid from its last transmission until 04:00 local time of
 * the day four weeks + one day later.  arith != 0: the implementation computes in UTC without mktime. */
static void check_pty(const struct scen *sc, int arith, vbi_bool ok, time_t b, time_t e, time_t b0, time_t e0)
{
  if (!ok) {
    V_ASSERT(env_failed(), "pty_fails_only_on_env_failure");
    V_ASSERT(b == b0 && e == e0, "pty_outputs_unchanged_on_failure");
    V_REACH("pty_failed");
  } else {
    V_ASSERT(!env_failed(), "pty_env_failure_reported");
    V_ASSERT((int64_t) b == sc->S, "pty_begin_is_last_transmission");
    if (arith) {
      V_ASSERT(M14.n_mktime == 0, "pty_utc_no_conversion");
      V_ASSERT((int64_t) e == M14.hint_midnight + 29 * DAY + 4 * HOUR - sc->Z, "pty_end_0400_local_day_plus_29");
    } else {
      V_ASSERT(M14.n_mktime == 1, "one_conversion");
      expect_mk(0, sc->ys, sc->ms, sc->ds + 29, 4, 0, sc->zone);
      V_ASSERT((int64_t) e == M14.mk[0].local - sc->Z, "pty_end_0400_local_day_plus_29");
    }
    /* begin < end: directly in the arithmetic path; in the mktime path from the logged fields by h_m14_window_lemmas
       (end - begin = 29 d + 4 h - second of the day of begin) */
    if (arith) V_ASSERT(b < e, "pty_begin_before_end");
    V_REACH("pty_ok");
  }
}

V_HARNESS(h_pty_window)
{
  struct scen sc; time_t b, e, b0, e0; vbi_bool ok;
  V_INIT();
  scen_read(&sc, 0);
  b0 = b = (time_t) in_u64(); e0 = e = (time_t) in_u64();
  sc.use_now = 0;
  scen_start(&sc);
  ok = vbi_pty_validity_window(&b, &e, sc.start_arg, sc.tz);
  post_tz(&sc);
  check_pty(&sc, TZMODE == 1, ok, b, e, b0, e0);
  V_END();
}

/* ------------------------------------------------------------------------------------------------ */
/* EN 300 231 sect. 9.3 / Annex F as documented in pdc.c; class of a PIL for the validity window */
enum { W_UNALLOC, W_INDEFINITE, W_DATE, W_NSPV };
static int ref_window_class(const struct scen *sc)
{
  unsigned month = VBI_PIL_MONTH(sc->pil);
  if (month == 0) return W_UNALLOC;
  if (month <= 12) return ref_day_ok(sc->pm0, sc->pd) ? W_DATE : W_INDEFINITE;   /* invalid days: indefinite */
  if (month <= 14) return W_INDEFINITE;
  if (sc->pd == 0 && sc->pmi == 63 && sc->ph >= 28) return W_INDEFINITE;        /* CONT, INT, RI/T, TC */
  if (sc->pd == 15 && sc->ph == 31 && sc->pmi == 63) return W_NSPV;
  return W_UNALLOC;
}

/* C14_PILCLS splits the window obligations: 1 = dated PILs only (month 1..12 with a valid day), 2 = all other codes */
#ifndef C14_PILCLS
#define C14_PILCLS 0
#endif
static void assume_pil_class(int cls)
{
#ifdef VERIF_NATIVE
  (void) cls;   /* replay/smoke: any class */
#else
  if (C14_PILCLS == 1) V_ASSUME(cls == W_DATE);
  if (C14_PILCLS == 2) V_ASSUME(cls != W_DATE);
#endif
}

/* pty_arith: NSPV goes through the UTC arithmetic path */
static void check_window(const struct scen *sc, int cls, int pty_arith, vbi_bool ok, time_t b, time_t e, time_t b0, time_t e0)
{
  post_tz(sc);
  switch (cls) {
  case W_UNALLOC:
    V_ASSERT(!ok, "win_unallocated_refused"); V_REACH("win_unalloc"); break;
  case W_INDEFINITE:
    V_ASSERT(ok && b == TIME_MIN && e == TIME_MAX, "win_indefinite"); V_REACH("win_indef"); break;
  case W_NSPV:
    check_pty(sc, pty_arith, ok, b, e, b0, e0); break;
  default: {
    int Ye = ref_year(sc);
    int leap_ok = sc->pd <= m14_days_in_month(Ye, sc->pm0);
    int early = sc->ph < 4, dated = 0;
    V_ASSERT((!ok) == (env_failed() != 0), "win_fails_iff_env_failure");
    if (ok && !leap_ok) {
      V_ASSERT(b == TIME_MIN && e == TIME_MAX, "win_feb29_nonleap_indefinite"); V_REACH("win_feb29_indef");
    } else if (ok && sc->utc_path) {
      /* one conversion of 00:00 of the PIL day, begin/end by adding hours */
      int64_t M;
      V_ASSERT(M14.n_mktime == 1, "one_conversion");
      expect_mk(0, Ye, sc->pm0, sc->pd, 0, 0, sc->zone);
      M = M14.mk[0].local - sc->Z;                                /* 00:00 local of the PIL day */
      V_ASSERT((int64_t) e == M + 28 * HOUR, "win_end_0400_next_day");
      V_ASSERT((int64_t) b == (early ? M - 4 * HOUR : M), "win_begin_0000_or_2000_previous_day");
      V_ASSERT(b < e, "win_begin_before_end");
      V_ASSERT((int64_t) e - (int64_t) b == (early ? 32 : 28) * HOUR, "win_length_28h_or_32h");
      if (sc->ph < 24 && sc->pmi < 60) {
        int64_t tP = M + (int64_t) (sc->ph * 3600 + sc->pmi * 60);           /* what *_to_time returns, see h_*_to_time */
        V_ASSERT((int64_t) b <= tP && tP < (int64_t) e, "win_contains_converted_pil");
      }
      dated = 1;
    } else if (ok) {
      /* two conversions in the zone: begin = 00:00 of the PIL day or 20:00 of the day before (day-1 20:00),
         end = 04:00 of the next day (day+1 04:00) */
      V_ASSERT(M14.n_mktime == 2, "two_conversions");
      expect_mk(0, Ye, sc->pm0, early ? sc->pd - 1 : sc->pd, early ? 20 : 0, 0, sc->zone);
      expect_mk(1, Ye, sc->pm0, sc->pd + 1, 4, 0, sc->zone);
      V_ASSERT((int64_t) b == M14.mk[0].local - sc->Z, "win_begin_0000_or_2000_previous_day");
      V_ASSERT((int64_t) e == M14.mk[1].local - sc->Z, "win_end_0400_next_day");
      /* begin < end, length 28 h / 32 h, begin <= converted PIL < end: from these logged fields by h_m14_window_lemmas */
      dated = 1;
    } else V_REACH("win_env_failure");
    if (dated && early) V_REACH("win_32h");
    if (dated && !early) V_REACH("win_28h");
  } }
}

V_HARNESS(h_lto_window)
{
  struct scen sc; time_t b, e, b0, e0; vbi_bool ok; int cls; int32_t east;
  V_INIT();
  scen_read(&sc, 1);
  b0 = b = (time_t) in_u64(); e0 = e = (time_t) in_u64();
  cls = ref_window_class(&sc);
  assume_pil_class(cls);
  east = sc.Z;
  if (cls == W_NSPV) { sc.use_now = 0; sc.Z = 0; }   /* NSPV: seconds_east documented as ignored, PTY rule in UTC */
  scen_start(&sc);
  ok = vbi_pil_lto_validity_window(&b, &e, sc.pil, sc.start_arg, east);
  check_window(&sc, cls, 1, ok, b, e, b0, e0);
  V_END();
}

V_HARNESS(h_pil_window)
{
  struct scen sc; time_t b, e, b0, e0; vbi_bool ok; int cls;
  V_INIT();
  scen_read(&sc, 0);
  b0 = b = (time_t) in_u64(); e0 = e = (time_t) in_u64();
  cls = ref_window_class(&sc);
  assume_pil_class(cls);
  if (cls == W_NSPV) sc.use_now = 0;
  scen_start(&sc);
  ok = vbi_pil_validity_window(&b, &e, sc.pil, sc.start_arg, sc.tz);
  check_window(&sc, cls, TZMODE == 1, ok, b, e, b0, e0);
  V_END();
}

/* ------------------------------------------------------------------------------------------------ */
/* suspected defect: valid_pil_validity_window() reads saved_errno uninitialised when mktime() fails.
 * Calls the static function directly (the public wrapper of the 0.2 branch overwrites errno with 0). */
V_HARNESS(h_pil_window_mktime_fails)
{
  struct scen sc; time_t b, e; vbi_bool ok;
  V_INIT();
  scen_read(&sc, 0);
  V_ASSUME(ref_valid(&sc));
  V_ASSUME(M14.setenv_fail_mask == 0 && (M14.mktime_fail_mask & 3) != 0);
  sc.use_now = 0;
  scen_start(&sc);
  V_ASSUME(sc.pd <= m14_days_in_month(ref_year(&sc), sc.pm0));
  b = e = 0;
  errno = 0;
  c14_stack_pattern();
  ok = valid_pil_validity_window(&b, &e, sc.pil, sc.start_arg, sc.tz);
  post_tz(&sc);
  V_ASSERT(!ok, "mktime_failure_reported");
  V_ASSERT(M14.n_mktime_failed == 1, "stops_after_first_mktime_failure");
#ifndef KNOWN_PDC_SAVED_ERRNO_UNINIT
  /* every other failure exit of this unit leaves the cause in errno (EOVERFLOW from mktime here) */
  V_ASSERT(errno == EOVERFLOW, "errno_is_mktime_error_not_uninitialised_saved_errno");
#endif
  V_END();
}

/* ------------------------------------------------------------------------------------------------ */
/* the calendar model itself.  CBMC: anchors, leap rule, successor-day step (=> the forward function is strictly
 * monotone in the canonical fields, hence injective: the lemma behind m14_hint_civil).  Native: against glibc. */
#ifdef VERIF_NATIVE
int m14_native_crosscheck(uint64_t seed, unsigned n);
#endif
V_HARNESS(h_m14_selfcheck)
{
  int y, mo, d, h, mi, s; int64_t t, day0; uint64_t seed;
  V_INIT();
  y = in_u16(); mo = in_u8(); d = in_u8(); h = in_u8(); mi = in_u8(); s = in_u8(); seed = in_u64();
#ifdef VERIF_NATIVE
  V_ASSERT(0 == m14_native_crosscheck(seed, 200000), "m14_model_equals_glibc");
#endif
  V_ASSERT(m14_days_from_civil(1970, 0, 1) == 0 && m14_days_from_civil(2000, 2, 1) == 11017
           && m14_days_from_civil(2038, 0, 19) == 24855 && m14_days_from_civil(1900, 0, 1) == -25567
           && m14_days_from_civil(2100, 2, 1) == 47541, "m14_anchors");
  IN_RANGE(y, M14_YLO, M14_YHI); IN_RANGE(mo, 0, 11); IN_RANGE(d, 1, m14_days_in_month(y, mo));
  IN_RANGE(h, 0, 23); IN_RANGE(mi, 0, 59); IN_RANGE(s, 0, 59);
  V_ASSERT(m14_is_leap(y) == ((y % 4 == 0 && y % 100 != 0) || y % 400 == 0), "m14_leap_rule");
  V_ASSERT(m14_days_in_month(y, mo) >= 28 && m14_days_in_month(y, mo) <= 31, "m14_month_length");
  /* seconds of the day stay inside the day */
  t = m14_hint_civil(y, mo, d, h, mi, s);
  day0 = M14.hint_midnight;
  V_ASSERT(t >= day0 && t < day0 + DAY, "m14_secs_within_its_day");
  V_END();
}

/* successor-day step: the day after a canonical date (next day / first of next month / 1 January of next year) is
 * days_from_civil + 1.  With the anchors this pins the forward function down by induction and makes it strictly
 * monotone, hence injective, on canonical fields - the lemma behind m14_hint_civil. */
V_HARNESS(h_m14_successor_day)
{
  int y, mo, d; int64_t a, b;
  V_INIT();
  y = in_u16(); mo = in_u8(); d = in_u8();
  IN_RANGE(y, M14_YLO, M14_YHI); IN_RANGE(mo, 0, 11); IN_RANGE(d, 1, m14_days_in_month(y, mo));
  a = m14_days_from_civil(y, mo, d);
  if (d < m14_days_in_month(y, mo)) b = m14_days_from_civil(y, mo, d + 1);
  else if (mo < 11) b = m14_days_from_civil(y, mo + 1, 1);
  else b = m14_days_from_civil(y + 1, 0, 1);
  V_ASSERT(b == a + 1, "m14_successor_day");
  V_END();
}

/* what the window harnesses leave to the model: differences of conversions within one month (pdc.c passes day-1 20:00,
 * day+1 04:00, day+29 04:00 to mktime and relies on its normalisation) */
V_HARNESS(h_m14_window_lemmas)
{
  int y, mo, d, h, mi, s; int64_t t0, tp = 0, te, tb = 0, tq = 0;
  V_INIT();
  y = in_u16(); mo = in_u8(); d = in_u8(); h = in_u8(); mi = in_u8(); s = in_u8();
  IN_RANGE(y, M14_YLO, M14_YHI); IN_RANGE(mo, 0, 11); IN_RANGE(d, 1, 31);
  IN_RANGE(h, 0, 23); IN_RANGE(mi, 0, 59); IN_RANGE(s, 0, 59);
  /* C14_LEMMA selects one statement per solver run (together they took 60-80 s, separately 1-7 s) */
#ifndef C14_LEMMA
#define C14_LEMMA 0
#endif
  t0 = m14_secs_from_civil(y, mo, d, 0, 0, 0);
  te = m14_secs_from_civil(y, mo, d + 1, 4, 0, 0);
  if (C14_LEMMA == 0 || C14_LEMMA == 1) {
    tb = m14_secs_from_civil(y, mo, d - 1, 20, 0, 0);
    V_ASSERT(te - t0 == 28 * HOUR && te - tb == 32 * HOUR && tb < t0 && t0 < te, "m14_window_28h_32h");
  }
  if (C14_LEMMA == 0 || C14_LEMMA == 2) {
    tp = m14_secs_from_civil(y, mo, d, h, mi, 0);
    V_ASSERT(t0 <= tp && tp < te && tp - t0 == (int64_t) (h * 3600 + mi * 60), "m14_window_contains_pil_time");
  }
  if (C14_LEMMA == 0 || C14_LEMMA == 3) {
    tq = m14_secs_from_civil(y, mo, d, h, mi, s);
    te = m14_secs_from_civil(y, mo, d + 29, 4, 0, 0);
    V_ASSERT(te - tq == 29 * DAY + 4 * HOUR - (int64_t) (h * 3600 + mi * 60 + s) && tq < te, "m14_pty_window_length");
  }
  V_END();
}

/* the instant registered by m14_hint_civil is the forward function of its fields (same sum, other association) */
V_HARNESS(h_m14_hint_consistency)
{
  int y, mo, d, h, mi, s; int64_t t;
  V_INIT();
  y = in_u16(); mo = in_u8(); d = in_u8(); h = in_u8(); mi = in_u8(); s = in_u8();
  IN_RANGE(y, M14_YLO, M14_YHI); IN_RANGE(mo, 0, 11); IN_RANGE(d, 1, m14_days_in_month(y, mo));
  IN_RANGE(h, 0, 23); IN_RANGE(mi, 0, 59); IN_RANGE(s, 0, 59);
  t = m14_hint_civil(y, mo, d, h, mi, s);
  V_ASSERT(t == m14_secs_from_civil(y, mo, d, h, mi, s), "m14_hint_is_forward_function");
  V_ASSERT(M14.hint_midnight == m14_secs_from_civil(y, mo, d, 0, 0, 0), "m14_hint_midnight_is_forward_function");
  V_END();
}

/* calendar corollary used to read "within about six months": if the month distance between a canonical
 * reference date/time and a canonical PIL date (hour/minute < 24/60, second 0) is in [-6, +5] then
 * -215 days < t(PIL) - t(ref) < +184 days.  Pure model arithmetic, no code under test. */
V_HARNESS(h_m14_six_month_lemma)
{
  int ys, ms, ds, hs, mins, ss, ye, pm, pd, ph, pmi, dist; int64_t a, b;
  V_INIT();
  ys = in_u16(); ms = in_u8(); ds = in_u8(); hs = in_u8(); mins = in_u8(); ss = in_u8();
  ye = in_u16(); pm = in_u8(); pd = in_u8(); ph = in_u8(); pmi = in_u8();
  IN_RANGE(ys, M14_YLO + 1, M14_YHI - 1); IN_RANGE(ms, 0, 11); IN_RANGE(ds, 1, m14_days_in_month(ys, ms));
  IN_RANGE(hs, 0, 23); IN_RANGE(mins, 0, 59); IN_RANGE(ss, 0, 59);
  IN_RANGE(ye, ys - 1, ys + 1); IN_RANGE(pm, 0, 11);
  IN_RANGE(ph, 0, 23); IN_RANGE(pmi, 0, 59);
  dist = (ye * 12 + pm) - (ys * 12 + ms);
#ifdef VERIF_NATIVE
  if (dist < -6) ye++; else if (dist > 5) ye--;
  dist = (ye * 12 + pm) - (ys * 12 + ms);
#endif
  V_ASSUME(dist >= -6 && dist <= 5);
  IN_RANGE(pd, 1, m14_days_in_month(ye, pm));
  a = m14_secs_from_civil(ys, ms, ds, hs, mins, ss);
  b = m14_secs_from_civil(ye, pm, pd, ph, pmi, 0);
  V_ASSERT(b - a < 184 * DAY && a - b < 215 * DAY, "m14_month_distance_implies_six_month_window");
  V_END();
}

/* the plain relation (no hint) has exactly one solution: the canonical fields.  This is the injectivity proof
 * done by the solver instead of by the monotonicity argument; expensive. */
V_HARNESS(h_m14_inverse_unique)
{
  int y, mo, d, h, mi, s, y2, mo2, d2, h2, mi2, s2, wd, yd; int64_t t;
  V_INIT();
  y = in_u16(); mo = in_u8(); d = in_u8(); h = in_u8(); mi = in_u8(); s = in_u8();
  IN_RANGE(y, M14_YLO, M14_YHI); IN_RANGE(mo, 0, 11); IN_RANGE(d, 1, m14_days_in_month(y, mo));
  IN_RANGE(h, 0, 23); IN_RANGE(mi, 0, 59); IN_RANGE(s, 0, 59);
  t = m14_secs_from_civil(y, mo, d, h, mi, s);
  m14_civil_from_secs(t, &y2, &mo2, &d2, &h2, &mi2, &s2, &wd, &yd);
  V_ASSERT(y2 == y && mo2 == mo && d2 == d && h2 == h && mi2 == mi && s2 == s, "m14_inverse_unique");
  V_END();
}
