/* h_c19_common.h - world construction, observers and invariants shared by the C18/C19 harnesses.
 * Included after daemon/proxyd.c, so the daemon's static state (`proxy`) and types are visible.
 *
 * World: up to 3 clients (heap objects of exact size, concrete list order), device 0 (open or closed; the model
 * device is a singleton) and device 1 (always closed), a sliced queue of W_NBUF buffers of which NQ (build-time)
 * are queued, the rest free; client cursors symbolic.  Everything else in the client structs is symbolic. */
#ifndef H_C19_COMMON_H
#define H_C19_COMMON_H

#ifndef NCL
#define NCL 2            /* clients in the list */
#endif
#ifndef NQ
#define NQ 0             /* frames queued in proxy.dev[0].p_sliced */
#endif
#ifndef W_NBUF
#define W_NBUF 2         /* buffers owned by device 0 when it is open */
#endif
#ifndef W_CLBUF
#define W_CLBUF 1
#endif
#ifndef W_MAXLINES
#define W_MAXLINES 1     /* max_lines of the open device = count[0] + count[1].  1: a frame buffer is exactly a PROXY_QUEUE, which CBMC then
                            models as a typed object (an oversized malloc becomes a byte array whose p_next has no points-to information) */
#endif

#define W_TMAX ((time_t) 1 << 32)     /* clock range of the claim: 0 <= time() < 2^32 */
#define W_DMAX ((time_t) 1 << 40)     /* |min_duration| a client may ask for in the claim; beyond 2^63 - 2^32 the scheduler's time arithmetic
                                         (proxyd.c:1392) overflows - signed overflow on client supplied data, reported as a note, not checked here */
static PROXY_CLNT *W_cl[3];
static unsigned W_ncl;
static int W_gone[3];        /* client was unlinked and freed by the daemon */
static int w_alive(unsigned i) { return !W_gone[i] && W_cl[i]->state != REQ_STATE_CLOSED; }
static PROXY_QUEUE *W_q[3];
static int W_dev0_open;
static const char W_devname[] = "/dev/vbi0";

/* ---- environment script: every value the environment may return, from the symbolic input ---- */
static void w_init(void)
{
  unsigned i;
  c19_env_reset();
  for (i = 0; i < C19_NIO; i++) { C19.recv_ret[i] = (int32_t) in_u32(); C19.recv_err[i] = in_u8(); }
  for (i = 0; i < C19_NIO; i++) { C19.send_ret[i] = (int32_t) in_u32(); C19.send_err[i] = in_u8(); }
  C19.now = (time_t) in_u32();                      /* clock: any time in [0, 2^32) */
  C19.open_v4l2_ok = in_u8() & 1; C19.open_v4l_ok = in_u8() & 1;
  C19.has_decoder = in_u8() & 1;
#ifdef DEVCASE   /* case split on what opening the device yields (keeps the allocation loops' trip counts concrete):
                    0 V4L2 ok, 1 V4L2 fails + V4L ok, 2 opens but has no slicer, 3 cannot be opened, 4 opens but has no file descriptor */
  C19.open_v4l2_ok = (DEVCASE == 0 || DEVCASE == 2 || DEVCASE == 4); C19.open_v4l_ok = (DEVCASE == 1); C19.has_decoder = (DEVCASE != 2);
#endif
  C19.cap_fd = (int32_t) in_u32(); V_ASSUME(C19.cap_fd >= -1 && C19.cap_fd < 1024);
#ifdef DEVCASE
  C19.cap_fd = (DEVCASE == 4) ? -1 : 9;
#endif
  C19.cap_scanning = (int32_t) in_u32();
  for (i = 0; i < C19_NUPD; i++) { C19.grant_mask[i] = in_u32(); C19.grant_err[i] = in_u8() & 1; }
  C19.dec_start[0] = 7; C19.dec_start[1] = 320; C19.dec_count[0] = 1; C19.dec_count[1] = W_MAXLINES - 1;
  C19.dec_scanning = (in_u8() & 1) ? 625 : 525;
  C19.ioctl_ret = (int32_t) in_u32();
  /* `proxy` is the zero-initialised static of the unit (one harness run per process / solver run) */
  proxy.tcp_ip_fd = -1;
  proxy.dev_count = 2;
  for (i = 0; i < 2; i++) {
    proxy.dev[i].p_dev_name = W_devname; proxy.dev[i].pipe_fd = 3 + (int) i;
    proxy.dev[i].vbi_fd = -1; proxy.dev[i].wr_fd = -1;
  }
  opt_buffer_count = 1;                               /* -buffers 1 (allowed 1..32): keeps the allocation loops short */
  W_ncl = 0; W_dev0_open = 0; W_gone[0] = W_gone[1] = W_gone[2] = 0;
  W_q[0] = W_q[1] = W_q[2] = NULL;
}

/* device 0 open (acquisition running) or closed, other device fields symbolic */
static void w_device(int open)
{
  PROXY_DEV *d = &proxy.dev[0];
  unsigned i;
  d->scanning = in_u32();
  d->chn_prio = (VBI_CHN_PRIO) in_u32();
  d->vbi_api = (VBI_DRIVER_API_REV) (in_u8() & 3);
  d->all_services = in_u32();
  proxy.dev[1].vbi_api = (VBI_DRIVER_API_REV) (in_u8() & 3);
  proxy.dev[1].chn_prio = (VBI_CHN_PRIO) in_u32();
  if (open) {
    uint8_t sv = C19.has_decoder;
    C19.has_decoder = 1;
    d->p_capture = (vbi_capture *) c19_device_handle();
    d->p_decoder = vbi_capture_parameters(d->p_capture);
    C19.has_decoder = sv; C19.n_open = 0;
    d->vbi_fd = C19.cap_fd;
    d->max_lines = W_MAXLINES;
    V_ASSUME(d->all_services != 0);
    V_ASSUME(d->vbi_api == VBI_API_V4L1 || d->vbi_api == VBI_API_V4L2);
    for (i = 0; i < W_NBUF; i++) {
#if W_MAXLINES == 1
      PROXY_QUEUE *q = malloc(sizeof(PROXY_QUEUE));                  /* == QUEUE_ELEM_SIZE(q, 1), written so that CBMC types the object */
#else
      PROXY_QUEUE *q = malloc(QUEUE_ELEM_SIZE(q, W_MAXLINES));
#endif
      q->ref_count = 0; q->use_count = 0; q->line_count = (int) in_u8(); q->timestamp = 0.0;
#ifdef W_FRAME_DATA                                    /* frame contents symbolic (C18); irrelevant for the C19 obligations */
      { uint64_t t = in_u64(); memcpy(&q->timestamp, &t, 8); in_bytes(q->lines, sizeof(vbi_sliced) * W_MAXLINES); }
#endif
      q->p_next = NULL; q->p_raw_data = NULL; q->max_lines = W_MAXLINES;
      V_ASSUME(q->line_count >= 0 && q->line_count < q->max_lines);
      W_q[i] = q;
    }
    W_dev0_open = 1;
  } else {
    d->all_services = 0;
  }
}

/* S: scheduler bookkeeping: cycle_count in 0..2 (proxyd.c:1325), time stamps are clock values */
static int inv_sched(const PROXY_CLNT *c)
{
  return c->chn_state.cycle_count >= 0 && c->chn_state.cycle_count <= 2 &&
         c->chn_state.last_start >= 0 && c->chn_state.last_start < W_TMAX &&
         c->io.lastIoTime >= 0 && c->io.lastIoTime < W_TMAX;
}
/* msg: message buffer symbolic too (the acting client); bystanders get a zero buffer.
 * The struct is filled member by member: a byte copy over a struct that holds pointers makes CBMC's points-to
 * sets of p_next / p_sliced / pWriteBuf collapse (every pointer member "may point" to every object). */
static PROXY_CLNT *w_client(int dev, int msg)
{
  PROXY_CLNT *c = calloc(1, sizeof *c);
  unsigned i;
  c->state = (REQ_STATE) in_u8();
  c->io.sock_fd = (int) in_u16(); c->io.lastIoTime = (time_t) in_u32();
  c->io.writeLen = in_u32(); c->io.writeOff = in_u32(); c->io.readLen = 0; c->io.readOff = 0;
  c->endianSwap = in_u8() & 1; c->client_flags = (VBI_PROXY_CLIENT_FLAGS) in_u32();
  if (msg) in_bytes(&c->msg_buf, sizeof c->msg_buf);
  for (i = 0; i < 4; i++) c->services[i] = in_u32();
  c->all_services = in_u32();
  for (i = 0; i < 2; i++) { c->vbi_start[i] = in_int(); c->vbi_count[i] = in_int(); }
  c->buffer_overflow = in_u8() & 1;
  in_bytes(&c->chn_profile, sizeof c->chn_profile);
  c->chn_state.token_state = (REQ_TOKEN_STATE) in_u8(); c->chn_state.is_completed = in_u8() & 1; c->chn_state.cycle_count = (int) in_u8();
  c->chn_state.last_start = (time_t) in_u32(); c->chn_state.last_duration = (time_t) in_u32();
  c->chn_prio = (VBI_CHN_PRIO) in_u32(); c->chn_status_ind = (VBI_PROXY_CHN_FLAGS) in_u32();
  c->p_next = NULL; c->dev_idx = dev; c->p_sliced = NULL;
  /* between two events a connection is WAIT_CON_REQ or FORWARD: WAIT_CLOSE / CLOSED are left within the loop iteration that
     entered them (proxyd.c:2442, 2516); the acting client of h_msg may be in WAIT_CLOSE too (msg != 0) */
  V_ASSUME(c->state == REQ_STATE_WAIT_CON_REQ || c->state == REQ_STATE_FORWARD || (msg && c->state == REQ_STATE_WAIT_CLOSE));
  V_ASSUME((unsigned) c->chn_state.token_state <= REQ_TOKEN_RETURNED);
  c->buffer_count = W_CLBUF;                                              /* bound: buffers asked for by every client (concrete: it is the trip count of the allocation loops) */
  V_ASSUME(c->io.sock_fd >= 0 && c->io.sock_fd < 1024);
  V_ASSUME(inv_sched(c));
  V_ASSUME(c->chn_profile.min_duration > -W_DMAX && c->chn_profile.min_duration < W_DMAX);   /* bound: see W_DMAX */
  if (c->io.writeLen != 0) {                                              /* a reply is on its way out */
    V_ASSUME(c->io.writeLen >= sizeof(VBIPROXY_MSG_HEADER) && c->io.writeLen <= sizeof(c->msg_buf) && c->io.writeOff < c->io.writeLen);
    c->io.pWriteBuf = &c->msg_buf;
  } else c->io.pWriteBuf = NULL;
  c->io.freeWriteBuf = FALSE;
  if (c->state == REQ_STATE_WAIT_CON_REQ) {                               /* as vbi_proxyd_add_connection left it */
    V_ASSUME(c->chn_state.token_state == REQ_TOKEN_NONE && c->all_services == 0 && c->chn_profile.is_valid == 0);
    V_ASSUME(c->services[0] == 0 && c->services[1] == 0 && c->services[2] == 0 && c->services[3] == 0);
    V_ASSUME(c->chn_prio == DEFAULT_CHN_PRIO && c->chn_status_ind == 0 && c->client_flags == 0);
  }
  W_cl[W_ncl++] = c;
  return c;
}

static void w_link(void)
{
  unsigned i;
  proxy.p_clnts = W_cl[0];
  for (i = 0; i + 1 < W_ncl; i++) W_cl[i]->p_next = W_cl[i + 1];
  proxy.clnt_count = (int) W_ncl;
}

/* NQ queued frames Q0 -> Q1 ..., the others free; cursor of each client on device 0 symbolic;
 * ref_count(Qj) = number of clients whose cursor is at or before Qj; every queued frame is referenced */
static void w_queue(void)
{
  PROXY_DEV *d = &proxy.dev[0];
  unsigned i, j; unsigned cur[3];
  for (i = 0; i < 3; i++) cur[i] = in_u8();
  /* CUR0..CUR2 (build time): cursor of client i concrete (index of the frame it is at; >= NQ: none) - keeps the whole
     pointer structure of the queue concrete, which the list walking loops of the daemon need to terminate in symex */
#ifdef CUR0
  cur[0] = CUR0;
#endif
#ifdef CUR1
  cur[1] = CUR1;
#endif
#ifdef CUR2
  cur[2] = CUR2;
#endif
  if (!W_dev0_open) return;
  for (j = 0; j < W_NBUF; j++) {
    if (j < NQ) { if (j + 1 < NQ) W_q[j]->p_next = W_q[j + 1]; }
    else { W_q[j]->p_next = d->p_free; d->p_free = W_q[j]; W_q[j]->ref_count = 0; }
  }
  if (NQ > 0) d->p_sliced = W_q[0];
  for (i = 0; i < W_ncl; i++) {
    PROXY_CLNT *c = W_cl[i];
    if (c->dev_idx != 0 || c->state != REQ_STATE_FORWARD || cur[i] >= NQ) continue;
    for (j = 0; j < NQ; j++) if (cur[i] == j) c->p_sliced = W_q[j];
  }
  for (j = 0; j < NQ; j++) {
    unsigned n = 0;
    for (i = 0; i < W_ncl; i++) if (W_cl[i]->p_sliced != NULL && cur[i] <= j) n++;
    V_ASSUME(n >= 1);
    W_q[j]->ref_count = n;
  }
}

/* ---- observers (small copies: the big structs are never compared whole) ---- */
struct clnt_obs {
  int state, dev_idx, sock_fd, token_state, is_completed, cycle_count, chn_prio, chn_status_ind, client_flags, buffer_count;
  uint8_t prof_valid, prof_sub_prio;
  time_t last_start, last_duration, min_duration, lastIoTime;
  unsigned services[4], all_services; int vbi_start[2], vbi_count[2];
  uint32_t writeLen, writeOff, readLen, readOff; void *pWriteBuf, *p_sliced, *p_next;
};
static void obs_clnt(struct clnt_obs *o, const PROXY_CLNT *c)
{
  unsigned i;
  o->state = c->state; o->dev_idx = c->dev_idx; o->sock_fd = c->io.sock_fd; o->token_state = c->chn_state.token_state;
  o->is_completed = c->chn_state.is_completed; o->cycle_count = c->chn_state.cycle_count; o->chn_prio = c->chn_prio;
  o->chn_status_ind = c->chn_status_ind; o->client_flags = c->client_flags; o->buffer_count = c->buffer_count;
  o->prof_valid = c->chn_profile.is_valid; o->prof_sub_prio = c->chn_profile.sub_prio;
  o->last_start = c->chn_state.last_start; o->last_duration = c->chn_state.last_duration; o->min_duration = c->chn_profile.min_duration;
  o->lastIoTime = c->io.lastIoTime;
  for (i = 0; i < 4; i++) o->services[i] = c->services[i];
  o->all_services = c->all_services;
  for (i = 0; i < 2; i++) { o->vbi_start[i] = c->vbi_start[i]; o->vbi_count[i] = c->vbi_count[i]; }
  o->writeLen = c->io.writeLen; o->writeOff = c->io.writeOff; o->readLen = c->io.readLen; o->readOff = c->io.readOff;
  o->pWriteBuf = c->io.pWriteBuf; o->p_sliced = c->p_sliced; o->p_next = c->p_next;
}
static int same_clnt(const struct clnt_obs *a, const struct clnt_obs *b)
{
  unsigned i; int r = 1;
  r &= a->state == b->state && a->dev_idx == b->dev_idx && a->sock_fd == b->sock_fd && a->token_state == b->token_state;
  r &= a->is_completed == b->is_completed && a->cycle_count == b->cycle_count && a->chn_prio == b->chn_prio;
  r &= a->chn_status_ind == b->chn_status_ind && a->client_flags == b->client_flags && a->buffer_count == b->buffer_count;
  r &= a->prof_valid == b->prof_valid && a->prof_sub_prio == b->prof_sub_prio && a->last_start == b->last_start;
  r &= a->last_duration == b->last_duration && a->min_duration == b->min_duration && a->lastIoTime == b->lastIoTime;
  for (i = 0; i < 4; i++) r &= a->services[i] == b->services[i];
  r &= a->all_services == b->all_services;
  for (i = 0; i < 2; i++) r &= a->vbi_start[i] == b->vbi_start[i] && a->vbi_count[i] == b->vbi_count[i];
  r &= a->writeLen == b->writeLen && a->writeOff == b->writeOff && a->readLen == b->readLen && a->readOff == b->readOff;
  r &= a->pWriteBuf == b->pWriteBuf && a->p_sliced == b->p_sliced && a->p_next == b->p_next;
  return r;
}

struct dev_obs { void *p_capture, *p_decoder, *p_sliced, *p_free; int vbi_fd, vbi_api, max_lines, chn_prio; unsigned all_services, scanning;
                 unsigned ref[3]; void *next[3]; };
static void obs_dev(struct dev_obs *o, int dev)
{
  const PROXY_DEV *d = &proxy.dev[dev]; unsigned j;
  o->p_capture = d->p_capture; o->p_decoder = d->p_decoder; o->p_sliced = d->p_sliced; o->p_free = d->p_free;
  o->vbi_fd = d->vbi_fd; o->vbi_api = d->vbi_api; o->max_lines = d->max_lines; o->chn_prio = d->chn_prio;
  o->all_services = d->all_services; o->scanning = d->scanning;
  for (j = 0; j < 3; j++) { o->ref[j] = 0; o->next[j] = NULL; }
}
/* device unchanged; the frame queue may only have lost references of the closing client (checked by w_assert_inv) */
static int same_dev_but_queue(const struct dev_obs *a, const struct dev_obs *b)
{
  return a->p_capture == b->p_capture && a->p_decoder == b->p_decoder && a->vbi_fd == b->vbi_fd && a->vbi_api == b->vbi_api &&
         a->max_lines == b->max_lines && a->chn_prio == b->chn_prio && a->all_services == b->all_services && a->scanning == b->scanning;
}

struct env_obs { uint32_t n_close, n_open, n_delete, n_flush, upd_calls, n_ioctl, n_alarm, send_calls, recv_calls, n_read; };
static void obs_env(struct env_obs *o)
{
  o->n_close = C19.n_close; o->n_open = C19.n_open; o->n_delete = C19.n_delete; o->n_flush = C19.n_flush; o->upd_calls = C19.upd_calls;
  o->n_ioctl = C19.n_ioctl; o->n_alarm = C19.n_alarm; o->send_calls = C19.send_calls; o->recv_calls = C19.recv_calls; o->n_read = C19.n_read;
}
static int same_env_but_close(const struct env_obs *a, const struct env_obs *b)
{
  return a->n_open == b->n_open && a->n_delete == b->n_delete && a->n_flush == b->n_flush && a->upd_calls == b->upd_calls &&
         a->n_ioctl == b->n_ioctl && a->n_alarm == b->n_alarm && a->send_calls == b->send_calls && a->recv_calls == b->recv_calls && a->n_read == b->n_read;
}

/* ---- representation invariant of the daemon between two events ----
 * T: per device at most one client whose token_state is not NONE (what vbi_proxyd_get_token_owner() asserts);
 *    in particular at most one client controls the channel.
 * D: device closed <=> no capture, no decoder, no fd, no buffers; open => decoder present.
 * Q: queue of device 0: every queued frame is referenced; ref_count = number of clients whose cursor is at or before it;
 *    cursors point into the queue; free and queued buffers are disjoint; no buffer is lost. */
static int inv_token(int dev)
{
  unsigned i, n = 0;
  for (i = 0; i < W_ncl; i++)
    if (w_alive(i) && W_cl[i]->dev_idx == dev && W_cl[i]->chn_state.token_state != REQ_TOKEN_NONE) n++;
  return n <= 1;
}
static int inv_controls(int dev)
{
  unsigned i, n = 0;
  for (i = 0; i < W_ncl; i++)
    if (w_alive(i) && W_cl[i]->dev_idx == dev && REQ_CONTROLS_CHN(W_cl[i]->chn_state.token_state)) n++;
  return n <= 1;
}
static int inv_dev(int dev)
{
  const PROXY_DEV *d = &proxy.dev[dev];
  if (d->p_capture == NULL)
    return d->p_decoder == NULL && d->p_sliced == NULL && d->p_free == NULL && d->vbi_fd == -1;
  return d->p_decoder != NULL && d->p_tmp_buf == NULL;
}
/* Q, written over ONE walk of each list (pointer chains are symbolic after the step) */
#define W_QS 4      /* longest frame queue looked at */
#define W_QF 5      /* longest free list looked at */
static int inv_queue(void)
{
#ifdef NO_INVQ
  return 1;
#else
  const PROXY_DEV *d = &proxy.dev[0]; const PROXY_QUEUE *p, *qs[W_QS], *qf[W_QF]; unsigned i, k, m, ns = 0, nf = 0; int ok = 1;
  if (d->p_capture == NULL) return 1;
  for (k = 0, p = d->p_sliced; k < W_QS; k++) { qs[k] = p; if (p != NULL) { ns = k + 1; p = p->p_next; } }
  ok &= p == NULL;                                             /* bounded, acyclic */
  for (k = 0, p = d->p_free; k < W_QF; k++) { qf[k] = p; if (p != NULL) { nf = k + 1; p = p->p_next; } }
  ok &= p == NULL;
  for (i = 0; i < W_ncl; i++) {
    const PROXY_CLNT *c = W_cl[i]; int in = 0;
    if (!w_alive(i)) continue;
    if (c->p_sliced == NULL) continue;
    for (k = 0; k < W_QS; k++) in |= (k < ns && c->p_sliced == qs[k]);
    ok &= in && c->dev_idx == 0 && c->state == REQ_STATE_FORWARD;   /* cursors point into the queue of their device */
  }
  for (k = 0; k < W_QS; k++) {
    unsigned n = 0;
    if (k >= ns) continue;
    for (i = 0; i < W_ncl; i++) {
      int at = 0;
      if (!w_alive(i) || W_cl[i]->p_sliced == NULL) continue;
      for (m = 0; m <= k; m++) at |= (W_cl[i]->p_sliced == qs[m]);
      n += (unsigned) at;
    }
    ok &= qs[k]->ref_count == n && n >= 1;                     /* referenced exactly by the clients at or before it */
    for (m = 0; m < W_QF; m++) ok &= !(m < nf && qf[m] == qs[k]);   /* never both queued and free */
    for (m = 0; m < k; m++) ok &= qs[m] != qs[k];
  }
  return ok;
#endif
}
static uint32_t be32(const uint8_t *p) { return ((uint32_t) p[0] << 24) | ((uint32_t) p[1] << 16) | ((uint32_t) p[2] << 8) | p[3]; }
/* x is the k-th element of the list */
static int q_pos_is(const PROXY_QUEUE *head, const PROXY_QUEUE *x, int k)
{
  const PROXY_QUEUE *p = head; int j;
  for (j = 0; j < 4; j++) { if (p == NULL) return 0; if (j == k) return p == x; p = p->p_next; }
  return 0;
}
/* native replay only: print the world (set C19_TRACE=1) */
static void w_dump(const char *tag)
{
#ifndef VERIF_CBMC
  unsigned i; const PROXY_QUEUE *p; int k;
  if (!getenv("C19_TRACE")) return;
  printf("== %s: now=%ld dev0{cap=%p svc=0x%x prio=%d maxl=%d}\n", tag, (long) C19.now, (void *) proxy.dev[0].p_capture, proxy.dev[0].all_services, proxy.dev[0].chn_prio, proxy.dev[0].max_lines);
  for (k = 0, p = proxy.dev[0].p_sliced; p && k < 8; p = p->p_next, k++) printf("   queued %p ref=%u lines=%d\n", (void *) p, p->ref_count, p->line_count);
  for (k = 0, p = proxy.dev[0].p_free; p && k < 8; p = p->p_next, k++) printf("   free   %p ref=%u\n", (void *) p, p->ref_count);
  for (i = 0; i < W_ncl; i++) {
    const PROXY_CLNT *c = W_cl[i];
    if (W_gone[i]) { printf("   client%u gone\n", i); continue; }
    printf("   client%u dev=%d state=%d fd=%d token=%d prio=%d prof{valid=%d sub=%d min=%ld} compl=%d cyc=%d start=%ld svc=0x%x [%x %x %x %x] cur=%p wlen=%u ind=0x%x\n", i, c->dev_idx, c->state, c->io.sock_fd,
           c->chn_state.token_state, c->chn_prio, c->chn_profile.is_valid, c->chn_profile.sub_prio, (long) c->chn_profile.min_duration, c->chn_state.is_completed, c->chn_state.cycle_count,
           (long) c->chn_state.last_start, c->all_services, c->services[0], c->services[1], c->services[2], c->services[3], (void *) c->p_sliced, c->io.writeLen, c->chn_status_ind);
  }
  fflush(stdout);
#else
  (void) tag;
#endif
}
static void w_assume_inv(void)
{
  V_ASSUME(inv_token(0) && inv_token(1));
  V_ASSUME(inv_dev(0) && inv_dev(1));
  /* Q holds by construction (w_queue) */
}
#define w_assert_inv(tag) do { \
  V_ASSERT(inv_controls(0) && inv_controls(1), tag "_inv_one_channel_controller"); \
  V_ASSERT(inv_token(0) && inv_token(1), tag "_inv_one_token_owner"); \
  V_ASSERT(inv_dev(0) && inv_dev(1), tag "_inv_device"); \
  V_ASSERT(inv_queue(), tag "_inv_queue"); \
  { unsigned i_; for (i_ = 0; i_ < W_ncl; i_++) if (!W_gone[i_]) V_ASSERT(inv_sched(W_cl[i_]), tag "_inv_sched"); } \
} while (0)

#endif
