/* C01 "every reference given back" / memory safety of the page title query (src/teletext.c vbi_page_title, ait_title).
 *
 * Real unit: src/teletext.c (included).  Linked: src/lang.c, src/hamm.c.  Type carving as in the C02 formatting harness
 * (models/c02fmt_carve.h: struct caption and the packet assembly buffers are never named by teletext.c).
 * Cache model (part of the claim): _vbi_cache_get_page returns, per call, nothing or one of two harness-owned pages (the choice and the
 * pages' function and AIT content are symbolic) and counts the reference; cache_page_unref gives it back and asserts that it was held.
 * The obligation: whatever the network's TOP link table and the cached pages look like, when vbi_page_title returns every reference it
 * took has been released exactly once (a page left referenced can never be evicted: the cache grows without bound, and the decoder's
 * deletion leaves it allocated), the title is NUL terminated inside the documented 41 bytes, and the answer is TRUE only for a page an
 * AIT entry names. */
#include "verif.h"
#include "ref_codes.h"
#include "c02fmt_carve.h"
#include "src/teletext.c"

const char _zvbi_intl_domainname[] = "zvbi";

#ifndef LINKA
#define LINKA 0
#endif
#ifndef LINKB
#define LINKB 1
#endif
#define NPOOL 2
static cache_page POOL[NPOOL];
static int refs[NPOOL];
static unsigned get_calls, bad_unref;
static uint8_t choice[2];                 /* k-th lookup: 0 = not cached, 1 = POOL[k] */

cache_page *_vbi_cache_get_page(vbi_cache *ca, cache_network *cn, vbi_pgno pgno, vbi_subno subno, vbi_subno mask)
{
  /* the k-th lookup of a run finds nothing or the k-th harness page (the pointer is a constant per call site of the unrolled loop: R16) */
  unsigned k = get_calls++; (void) ca; (void) cn; (void) pgno; (void) subno; (void) mask;
  if (k == 0 && choice[0]) { refs[0]++; return &POOL[0]; }
  if (k == 1 && choice[1]) { refs[1]++; return &POOL[1]; }
  return 0;
}
void cache_page_unref(cache_page *cp)
{
  if (cp == &POOL[0]) { if (refs[0] <= 0) bad_unref++; refs[0]--; }
  else if (cp == &POOL[1]) { if (refs[1] <= 0) bad_unref++; refs[1]--; }
  else if (cp) bad_unref++;
}
cache_page *vbi_convert_page(vbi_decoder *vbi, cache_page *vtp, vbi_bool cached, enum ttx_page_function new_function)
{ (void) vbi; (void) vtp; (void) cached; (void) new_function; return 0; }
void vbi_transp_colormap(vbi_decoder *vbi, vbi_rgba *d, vbi_rgba *s, int entries)
{ int i; (void) vbi; for (i = 0; i < entries; i++) d[i] = s[i]; }

static vbi_decoder VBI;
static cache_network CN;

V_HARNESS(h_page_title)
{
  char buf[41 + 8]; unsigned i, k; int pgno, subno, named = 0; vbi_bool r;
  V_INIT();
  VBI.cn = &CN;
  CN.have_top = in_bool();
  for (i = 0; i < 8; i++) {                                  /* the eight BTT links (packet.c parse_btt stores function, pgno, subno) */
    int f = (int) (in_u8() % 19) - 4; unsigned pg = 0x100 + (in_u16() % 0x800), sub = in_u16() & 0x3F7F;
    /* two links (positions from the runner grid) have a symbolic function, the others are concrete non-AIT links (skipped by the function) */
    CN.btt_link[i].function = (i == LINKA || i == LINKB) ? (enum ttx_page_function) f : PAGE_FUNCTION_LOP;
    CN.btt_link[i].pgno = (int) pg; CN.btt_link[i].subno = (int) sub;
  }
  choice[0] = in_bool(); choice[1] = in_bool();
  for (k = 0; k < NPOOL; k++) {
    POOL[k].function = (enum ttx_page_function) ((int) (in_u8() % 19) - 4);
    POOL[k].national = in_u8() & 7; POOL[k].pgno = 0x100 + (in_u16() % 0x800);
    for (i = 0; i < 46; i += 30) {                            /* a few of the 46 titles carry symbolic links and text, the others are zero */
      POOL[k].data.ait.title[i].link.pgno = in_u16(); in_bytes(POOL[k].data.ait.title[i].text, 12); }
  }
  pgno = 0x100 + (in_u16() % 0x800); subno = in_u16();          /* a valid page number (vbi_pgno): the zero entries of the AIT pages can then never match,
                                                                   ait_title is reached for the symbolic entries only (92 inlined copies otherwise: no verdict) */
  for (i = 0; i < sizeof buf; i++) buf[i] = 0x55;
  r = vbi_page_title(&VBI, pgno, subno, buf);

  V_ASSERT(bad_unref == 0, "title_unref_only_what_is_held");
  V_ASSERT(refs[0] == 0 && refs[1] == 0, "title_every_reference_given_back");
  for (k = 0; k < NPOOL; k++) for (i = 0; i < 46; i++) if (POOL[k].function == PAGE_FUNCTION_AIT && POOL[k].data.ait.title[i].link.pgno == pgno) named = 1;
  if (r) {
    int nul = 0; V_ASSERT(named && CN.have_top, "title_only_for_a_page_an_ait_names");
    for (i = 0; i < 41; i++) nul |= (buf[i] == 0);
    V_ASSERT(nul, "title_nul_terminated_within_41_bytes");
    V_REACH("found");
  }
  for (i = 41; i < sizeof buf; i++) V_ASSERT(buf[i] == 0x55, "title_nothing_behind_the_documented_buffer");
  if (get_calls >= 2) V_REACH("two_lookups");
  V_END();
}
