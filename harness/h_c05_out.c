/* C05 layer 3 - output side and image geometry of the raw decoder.
 * Real units: src/raw_decoder.c (included: vbi3_raw_decoder_decode, decode_pattern, slice), src/sampling_par.c (linked:
 * the REAL _vbi_sampling_par_valid_log is the precondition on the sampling parameters).
 * Stub: models/c05_slicer_stub.h replaces the bit slicer by its contract and checks every pointer it is handed. */
#include "verif.h"
#include "src/raw_decoder.c"

#ifndef LINES
#define LINES 3          /* scan lines of the image = count[0] + count[1] (grid) */
#endif
#ifndef BPL
#define BPL 12           /* bytes per line (multiple of 1,2,3,4 so every pixel format is admissible) */
#endif
#define MAXOUT (LINES + 1)

static vbi3_raw_decoder RD;                     /* exact-size decoder object */
static int8_t PAT[LINES * _VBI3_RAW_DECODER_MAX_WAYS];   /* exact-size pattern table, as add_services allocates it */
static vbi_sliced OUT[MAXOUT + 1];              /* output array + one guard record */
static uint8_t IMG[LINES * BPL];                /* exact-size image: (count[0]+count[1]) x bytes_per_line */
#define ST_RD RD
#define ST_OUT OUT
#define ST_IMG IMG
#define ST_NROWS LINES
#define ST_NOUT (MAXOUT + 1)
#define ST_BPL BPL
#include "c05_slicer_stub.h"

/* representation invariant of the pattern table: models/c05_slicer_stub.h st_pat_inv() */
static int pat_inv(const int8_t *pat, unsigned n_jobs) { return st_pat_inv(pat, LINES, n_jobs); }

/* the public sampling parameter fields, all symbolic (0.2: vbi_sampling_par == vbi_raw_decoder; the private
 * members behind them - mutex, legacy job table - are not read by the units under test and stay zero) */
static void c05_in_sampling_par(vbi_sampling_par *sp)
{
  memset(sp, 0, sizeof *sp);
  sp->scanning = in_int(); sp->sampling_format = (vbi_pixfmt) in_int(); sp->sampling_rate = in_int();
  sp->bytes_per_line = in_int(); sp->offset = in_int();
  sp->start[0] = in_int(); sp->start[1] = in_int(); sp->count[0] = in_int(); sp->count[1] = in_int();
  sp->interlaced = in_int(); sp->synchronous = in_int();
}

V_HARNESS(h_decode_out)
{
  vbi_sliced out0[MAXOUT + 1];
  int8_t pat0[LINES * _VBI3_RAW_DECODER_MAX_WAYS];
  unsigned max_lines, n, k, i, w, x;
  vbi_sampling_par *sp = &RD.sampling;
  V_INIT();
  c05_in_sampling_par(sp);
  in_bytes(PAT, sizeof PAT);
  in_bytes(OUT, sizeof OUT);
  in_bytes(st_verdict, sizeof st_verdict);
  for (i = 0; i < _VBI3_RAW_DECODER_MAX_JOBS; i++) RD.jobs[i].id = in_u32();
  RD.services = in_u32(); RD.n_jobs = in_u8(); RD.readjust = in_u8() & 15; st_fill = in_u8();
  max_lines = in_u8();
  memcpy(out0, OUT, sizeof OUT);
  memcpy(pat0, PAT, sizeof PAT);
#ifdef ILACE            /* grid: field storage and split of the lines between the fields made concrete (the row */
  sp->interlaced = ILACE;  /* addresses handed to the slicer are then constants; everything else stays symbolic) */
#endif
#ifdef C0
  sp->count[0] = C0; sp->count[1] = LINES - C0;
#endif

  RD.pattern = PAT; RD.debug = 0; RD.sp_lines = NULL; RD.log.mask = 0; RD.log.fn = NULL;
  /* preconditions: what vbi3_raw_decoder_set_sampling_par / _init accept, an image object of exactly that size */
  V_ASSUME(_vbi_sampling_par_valid_log(sp, &RD.log));
  V_ASSUME(sp->count[0] >= 0 && sp->count[1] >= 0 && sp->count[0] + sp->count[1] == LINES);
  V_ASSUME(sp->bytes_per_line == BPL);
  V_ASSUME(sp->interlaced == 0 || sp->interlaced == 1);     /* vbi_bool */
  V_ASSUME(RD.n_jobs <= _VBI3_RAW_DECODER_MAX_JOBS);
  V_ASSUME(pat_inv(PAT, RD.n_jobs));
  V_ASSUME(max_lines <= MAXOUT);
  st_max_lines = max_lines;

  n = vbi3_raw_decoder_decode(&RD, OUT, max_lines, IMG);

  V_ASSERT(n <= max_lines, "at_most_max_lines_records");
  V_ASSERT(n <= LINES, "at_most_one_record_per_scan_line");
  V_ASSERT(n == st_n_hits, "one_record_per_positive_slicer_verdict");
  /* nothing beyond the reported number of records is written (incl. the guard record) */
  for (k = 0; k < MAXOUT + 1; k++)
    if (k >= n) {
      V_ASSERT(OUT[k].id == out0[k].id && OUT[k].line == out0[k].line, "records_beyond_n_untouched");
      for (i = 0; i < sizeof OUT[k].data; i++) V_ASSERT(OUT[k].data[i] == out0[k].data[i], "records_beyond_n_untouched");
    }
  /* reported records: id of the matching job, line number per documented rule, storage order */
  for (k = 0; k < MAXOUT; k++)
    if (k < n) {
      unsigned row = (unsigned) st_hit_row[k], j = (unsigned) st_hit_job[k], idx, f, expect = 0;
      V_ASSERT(OUT[k].id == RD.jobs[j].id, "id_is_the_matching_jobs_id");
      if (sp->interlaced) { f = row & 1; idx = row >> 1; }
      else { f = row >= (unsigned) sp->count[0]; idx = f ? row - sp->count[0] : row; }
      if (sp->synchronous && sp->start[f] != 0) expect = sp->start[f] + idx;
      V_ASSERT(OUT[k].line == expect, "line_number_of_the_row");
      if (k > 0 && !sp->interlaced) V_ASSERT(st_hit_row[k] > st_hit_row[k - 1], "one_record_per_row_ascending");
    }
  V_ASSERT(pat_inv(PAT, RD.n_jobs), "pattern_invariant_preserved");
  /* a row's jobs are only reordered: no job appears in a row that did not have it (jobs never migrate between lines) */
  for (i = 0; i < LINES; i++)
    for (w = 0; w < _VBI3_RAW_DECODER_MAX_WAYS; w++) {
      int v = PAT[i * _VBI3_RAW_DECODER_MAX_WAYS + w]; unsigned found = 0;
      for (x = 0; x < _VBI3_RAW_DECODER_MAX_WAYS; x++) found |= pat0[i * _VBI3_RAW_DECODER_MAX_WAYS + x] == v;
      if (v > 0) V_ASSERT(found, "no_job_migrates_between_rows");
    }
  /* ... and no job is lost from a row or duplicated ("try the found service first next time" is a permutation of the row): the
   * services admitted on a scan line stay admitted there over any history of frames (C04: one record per transmitted line) */
  for (i = 0; i < LINES; i++) {
    unsigned n_old = 0, n_new = 0;
    for (w = 0; w < _VBI3_RAW_DECODER_MAX_WAYS; w++) {
      int v = pat0[i * _VBI3_RAW_DECODER_MAX_WAYS + w]; unsigned found = 0;
      for (x = 0; x < _VBI3_RAW_DECODER_MAX_WAYS; x++) found |= PAT[i * _VBI3_RAW_DECODER_MAX_WAYS + x] == v;
      if (v > 0) V_ASSERT(found, "no_job_dropped_from_row");
      n_old += v > 0; n_new += PAT[i * _VBI3_RAW_DECODER_MAX_WAYS + w] > 0;
    }
    V_ASSERT(n_old == n_new, "row_job_count_unchanged");
  }
  V_ASSERT(RD.pattern == PAT && RD.n_jobs <= 8, "decoder_shape_unchanged");
  if ((n == max_lines && max_lines < LINES && max_lines > 0) || LINES < 2) V_REACH("output_full");
  if (n >= 2 || LINES < 2) V_REACH("two_records");
  V_END();
}

/* _vbi_sampling_par_valid_log: accepted parameters describe a sane image */
V_HARNESS(h_par_valid)
{
  vbi_sampling_par S;
  unsigned bpp, f;
  V_INIT();
  c05_in_sampling_par(&S);
  RD.log.mask = 0; RD.log.fn = NULL;
  if (_vbi_sampling_par_valid_log(&S, &RD.log)) {
    V_REACH("accepted");
    bpp = VBI_PIXFMT_BPP(S.sampling_format);
#ifndef KNOWN_VALID_LOG_NEGATIVE_BPL
    V_ASSERT(S.bytes_per_line > 0, "line_not_empty");
#else   /* known finding: the validator only rejects 0; negative values of the int field pass */
    V_ASSERT(S.bytes_per_line != 0, "line_not_empty");
    V_ASSUME(S.bytes_per_line > 0);
#endif
    /* 0.2: samples_per_line := bytes_per_line / bpp (raw_decoder.c:1029), so samples*bpp <= bytes_per_line needs */
    V_ASSERT(S.bytes_per_line % bpp == 0 || S.sampling_format == VBI_PIXFMT_YUV420, "bytes_per_line_multiple_of_pixel_size");
    V_ASSERT((S.bytes_per_line / bpp) * bpp <= S.bytes_per_line, "samples_fit_line");
    V_ASSERT(S.count[0] != 0 || S.count[1] != 0, "some_lines");
    V_ASSERT(S.scanning == 525 || S.scanning == 625, "known_scanning");
    for (f = 0; f < 2; f++)
      if (S.start[f] != 0) {
        unsigned lo = (S.scanning == 525) ? (f ? 263 : 1) : (f ? 312 : 1);
        unsigned hi = (S.scanning == 525) ? (f ? 525 : 262) : (f ? 625 : 311);
        V_ASSERT((unsigned) S.start[f] >= lo, "start_in_field");
        V_ASSERT((unsigned) S.start[f] + (unsigned) S.count[f] <= hi, "end_in_field");
        V_ASSERT((unsigned) S.count[f] <= hi, "count_no_wrap");
      }
    if (S.interlaced) V_ASSERT(S.count[0] == S.count[1] && S.count[0] != 0, "interlaced_equal_fields");
  } else V_REACH("rejected");
  V_END();
}
