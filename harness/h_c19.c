/* C19 - proxy daemon withstands faulty clients; channel control is held by one client.
 * Real units (textually included, so statics are reachable): daemon/proxyd.c, src/proxy-msg.c;
 * linked: src/inout.c (capture wrapper layer), src/misc.c (_vbi_strlcpy).
 * Environment: models/c19_io.c (sockets, clock, capture device behind the real vbi_capture method table). */
#include "verif.h"
#include "c19_io.h"

/* logging has an empty body (brief: m_log); the real logger stays in the unit under another name */
#define vbi_proxy_msg_logger c19_real_msg_logger
#include "src/proxy-msg.c"
#undef vbi_proxy_msg_logger
void vbi_proxy_msg_logger(int level, int clnt_fd, int errCode, const char *pText, ...)
{ (void) level; (void) clnt_fd; (void) errCode; (void) pText; }

#define main proxyd_main
#include "daemon/proxyd.c"
#undef main

#include "h_c19_common.h"

/* =====================================================================================================
 * (1b) message robustness: vbi_proxyd_check_msg + vbi_proxyd_take_message (+ the three lines of glue of
 * vbi_proxyd_handle_client_sockets, proxyd.c:2413-2428) on a FULLY SYMBOLIC message buffer, in every
 * connection state, in an arbitrary daemon state (2 clients, device open or closed, sliced queue of 0..2
 * frames).  Case split on the message type (grid MSGT; MSGT=99: any type that is not a request).
 * ===================================================================================================== */
#ifndef MSGT
#define MSGT 3
#endif
#ifndef ACT
#define ACT 0            /* position of the acting client in the list */
#endif
#ifndef BDEV
#define BDEV 0           /* device of the last bystander */
#endif
#ifndef DEVOPEN
#define DEVOPEN 1        /* device 0 capturing when the message arrives */
#endif

static int tok_holder(int s) { return s == REQ_TOKEN_GRANTED || s == REQ_TOKEN_RECLAIM || s == REQ_TOKEN_RELEASE; }
static int tok_has(int s) { return tok_holder(s) || s == REQ_TOKEN_GRANT; }      /* token assigned to this client (GRANT: indication not yet sent) */

V_HARNESS(h_msg)
{
  PROXY_CLNT *a, *b; struct clnt_obs b0, b1, a0, o0[3], o1[3]; struct dev_obs d0, d1; struct env_obs e0, e1;
  uint32_t type, len, nflags; vbi_bool ok, taken = FALSE; int st0; unsigned i;
  static uint8_t tail0[sizeof(VBIPROXY_MSG)];                 /* copy of the message buffer before the step (frame condition on its tail) */
  V_INIT();
  w_init();
  w_device(DEVOPEN);
  for (i = 0; i < NCL; i++) w_client((i != ACT && i == NCL - 1) ? BDEV : 0, i == ACT);
  w_link();
  w_queue();
  a = W_cl[ACT]; b = W_cl[ACT == 0 ? 1 : 0];
  /* the message: every byte of the buffer symbolic (w_client), header as handle_read leaves it */
  type = a->msg_buf.head.type; len = a->msg_buf.head.len;
#if MSGT == 99
  V_ASSUME(type != MSG_TYPE_CONNECT_REQ && type != MSG_TYPE_CLOSE_REQ && type != MSG_TYPE_SERVICE_REQ &&
           type != MSG_TYPE_CHN_TOKEN_REQ && type != MSG_TYPE_CHN_NOTIFY_REQ && type != MSG_TYPE_CHN_RECLAIM_CNF &&
           type != MSG_TYPE_CHN_SUSPEND_REQ && type != MSG_TYPE_CHN_IOCTL_REQ && type != MSG_TYPE_DAEMON_PID_REQ &&
           type != MSG_TYPE_DAEMON_PID_CNF);
#else
  a->msg_buf.head.type = type = MSGT;
#endif
#if defined(STRICTV) && MSGT == 0      /* case split on the strictness field (used as array index): concrete value from the grid */
  a->msg_buf.body.connect_req.strict = STRICTV;
#endif
#if defined(STRICTV) && MSGT == 5
  a->msg_buf.body.service_req.strict = STRICTV;
#endif
#if MSGT == 8
  V_ASSUME(a->msg_buf.body.chn_token_req.chn_profile.min_duration > -W_DMAX && a->msg_buf.body.chn_token_req.chn_profile.min_duration < W_DMAX);
#endif
#if MSGT == 0
  a->msg_buf.body.connect_req.buffer_count = W_CLBUF;           /* bound: the allocation loop runs once per buffer (up to 255 + clients) */
#endif
  /* established by vbi_proxy_msg_handle_read (obligation read_framing): complete message, 8 <= len <= sizeof msg_buf */
  V_ASSUME(len >= sizeof(VBIPROXY_MSG_HEADER) && len <= sizeof(a->msg_buf));
  a->io.readLen = a->io.readOff = len;
  a->io.writeLen = 0; a->io.pWriteBuf = NULL; a->io.freeWriteBuf = FALSE;
  V_ASSUME(a->io.sock_fd >= 0);
  V_ASSUME(a->state != REQ_STATE_CLOSED);                  /* closed connections are unlinked in the same loop iteration */
  st0 = a->state;
  w_assume_inv();
  obs_clnt(&a0, a); obs_clnt(&b0, b); obs_dev(&d0, 0); obs_env(&e0);
  for (i = 0; i < NCL; i++) obs_clnt(&o0[i], W_cl[i]);
  nflags = a->msg_buf.body.chn_notify_req.notify_flags;
#if MSGT == 5
  memcpy(tail0, &a->msg_buf, sizeof tail0);
#endif

  w_dump("before message");
#ifndef VERIF_CBMC
  if (getenv("C19_TRACE")) { printf("   message from client%d: type=%u len=%u", ACT, type, len); for (i = 0; i < 24; i++) printf(" %02x", ((uint8_t *) &a->msg_buf.body)[i]); printf("\n"); fflush(stdout); }
#endif
  /* ---- proxyd.c:2413-2428 ---- */
  ok = vbi_proxyd_check_msg(&a->msg_buf, &a->endianSwap);
#if MSGT == 99
  V_ASSERT(!ok, "non_request_types_rejected");              /* hence the daemon takes the else branch below */
  vbi_proxyd_close(a, FALSE);
#else
  if (ok) {
    vbi_proxy_msg_close_read(&a->io);
    taken = vbi_proxyd_take_message(a, &a->msg_buf);
    if (taken == FALSE)
      vbi_proxyd_close(a, FALSE);
  } else {
    vbi_proxyd_close(a, FALSE);
  }
#endif

  w_dump("after message");
  obs_clnt(&b1, b); obs_dev(&d1, 0); obs_env(&e1);
  /* a rejected message changes nothing but the connection's own state (which is closed) */
  if (!ok || !taken) {
    V_ASSERT(a->state == REQ_STATE_CLOSED && a->io.sock_fd == -1 && a->p_sliced == NULL, "rejected_closes_connection");
    V_ASSERT(e1.n_close == e0.n_close + 1 && C19.last_closed_fd == a0.sock_fd, "rejected_closes_socket");
    V_ASSERT(same_clnt(&b0, &b1), "rejected_leaves_other_client");
    V_ASSERT(same_dev_but_queue(&d0, &d1), "rejected_leaves_device");
    V_ASSERT(same_env_but_close(&e0, &e1), "rejected_no_device_calls");
    V_ASSERT(a->chn_state.token_state == a0.token_state && a->all_services == a0.all_services, "rejected_leaves_own_claims");
    V_REACH("rejected");
  } else {
    V_REACH("accepted");
    V_ASSERT(st0 == REQ_STATE_WAIT_CON_REQ || st0 == REQ_STATE_FORWARD || type == MSG_TYPE_CHN_SUSPEND_REQ ||
             type == MSG_TYPE_CHN_RECLAIM_CNF || type == MSG_TYPE_CLOSE_REQ, "accepted_only_in_protocol_state");
    V_ASSERT((unsigned) a->state <= REQ_STATE_CLOSED, "state_enum");
    if (a->state != REQ_STATE_CLOSED && type != MSG_TYPE_CHN_RECLAIM_CNF) {
      /* a reply is queued; it lies inside the connection's message buffer */
      V_ASSERT(a->io.pWriteBuf == &a->msg_buf && !a->io.freeWriteBuf, "reply_in_msg_buf");
      V_ASSERT(a->io.writeLen >= sizeof(VBIPROXY_MSG_HEADER) && a->io.writeLen <= sizeof(a->msg_buf) && a->io.writeOff == 0, "reply_fits_msg_buf");
      V_ASSERT(ntohl(a->msg_buf.head.len) == a->io.writeLen, "reply_len_field");
    }
    /* service table stays inside its array: the words around it are untouched */
    V_ASSERT(a->dev_idx == a0.dev_idx && a->p_next == a0.p_next, "own_links_intact");
    if (type == MSG_TYPE_SERVICE_REQ || type == MSG_TYPE_CLOSE_REQ)
      V_ASSERT(a->p_sliced == NULL, "own_queue_released");
    if (type != MSG_TYPE_CHN_TOKEN_REQ && type != MSG_TYPE_CHN_NOTIFY_REQ && type != MSG_TYPE_CHN_RECLAIM_CNF) {
      V_ASSERT(b1.token_state == b0.token_state && a->chn_state.token_state == a0.token_state, "non_token_msg_leaves_token");
    }
    if (type != MSG_TYPE_CONNECT_REQ && type != MSG_TYPE_SERVICE_REQ && type != MSG_TYPE_CHN_IOCTL_REQ)
      V_ASSERT(e1.n_open == e0.n_open && e1.n_delete == e0.n_delete && e1.upd_calls == e0.upd_calls, "no_device_reconfiguration");
    if (type == MSG_TYPE_SERVICE_REQ || type == MSG_TYPE_CHN_IOCTL_REQ || type == MSG_TYPE_CHN_SUSPEND_REQ) {
      struct clnt_obs a1; obs_clnt(&a1, a);                     /* these touch the service table / nothing; the neighbouring words stay */
      V_ASSERT(a1.buffer_count == a0.buffer_count && a1.chn_prio == a0.chn_prio && a1.prof_valid == a0.prof_valid && a1.prof_sub_prio == a0.prof_sub_prio &&
               a1.min_duration == a0.min_duration && a1.is_completed == a0.is_completed && a1.cycle_count == a0.cycle_count &&
               a1.last_start == a0.last_start && a1.last_duration == a0.last_duration && a1.client_flags == a0.client_flags, "service_msg_touches_only_service_state");
    }
    if (type == MSG_TYPE_CLOSE_REQ)
      V_ASSERT(a->state == REQ_STATE_CLOSED && a->io.sock_fd == -1 && same_clnt(&b0, &b1), "close_req_closes");
    if (type == MSG_TYPE_DAEMON_PID_REQ)
      V_ASSERT(a->state == REQ_STATE_WAIT_CLOSE && ntohl(a->msg_buf.head.type) == MSG_TYPE_DAEMON_PID_CNF && same_clnt(&b0, &b1), "pid_req_reply");
    if (type == MSG_TYPE_CONNECT_REQ)
      V_ASSERT((a->state == REQ_STATE_FORWARD && ntohl(a->msg_buf.head.type) == MSG_TYPE_CONNECT_CNF) ||
               (a->state == REQ_STATE_WAIT_CLOSE && ntohl(a->msg_buf.head.type) == MSG_TYPE_CONNECT_REJ), "connect_reply");
#if MSGT == 5
    { /* CBMC checks an index into a MEMBER array only against the end of the enclosing object: services[strict+1] with strict < -1 lands in
         msg_buf, with strict > 2 in the members behind services[] (checked above).  Frame condition: the part of msg_buf behind the reply is untouched */
      /* legitimately written: the reply (SERVICE_REJ: 128 bytes) or, for SERVICE_CNF, anything up to the end of connect_cnf.dec (the code
         addresses the decoder through the connect_cnf layout); behind that nothing */
      unsigned from = sizeof(VBIPROXY_MSG_HEADER) + (ntohl(a->msg_buf.head.type) == MSG_TYPE_SERVICE_CNF
                        ? offsetof(VBIPROXY_CONNECT_CNF, dec) + sizeof(vbi_raw_decoder) : sizeof(VBIPROXY_SERVICE_REJ));
      const uint8_t *m = (const uint8_t *) &a->msg_buf; int same = 1;
      for (i = sizeof(VBIPROXY_MSG_HEADER) + sizeof(VBIPROXY_SERVICE_REJ); i + 8 <= sizeof(VBIPROXY_MSG); i += 8)      /* 107 words */
        if (i >= from) same &= (0 == memcmp(m + i, tail0 + i, 8));
      V_ASSERT(same, "service_msg_leaves_msg_buf_tail");
      /* the confirm carries the device's decoder parameters, without the daemon's pattern pointer; -1 line numbers when not capturing */
      if (ntohl(a->msg_buf.head.type) == MSG_TYPE_SERVICE_CNF) {
        V_ASSERT(a->msg_buf.body.service_cnf.dec.pattern == NULL, "service_cnf_no_pointer_in_reply");
        if (proxy.dev[0].p_decoder != NULL)
          V_ASSERT(a->msg_buf.body.service_cnf.dec.count[0] == proxy.dev[0].p_decoder->count[0] && a->msg_buf.body.service_cnf.dec.start[0] == proxy.dev[0].p_decoder->start[0] &&
                   a->msg_buf.body.service_cnf.dec.scanning == proxy.dev[0].p_decoder->scanning, "service_cnf_decoder_parameters");
        else
          V_ASSERT(a->msg_buf.body.service_cnf.dec.start[0] == -1 && a->msg_buf.body.service_cnf.dec.start[1] == -1 && a->msg_buf.body.service_cnf.dec.count[0] == 0, "service_cnf_not_capturing");
      }
    }
#endif
    if (type == MSG_TYPE_SERVICE_REQ)
      V_ASSERT(a->state == REQ_STATE_FORWARD && (ntohl(a->msg_buf.head.type) == MSG_TYPE_SERVICE_CNF || ntohl(a->msg_buf.head.type) == MSG_TYPE_SERVICE_REJ), "service_reply");
  }
  /* ---- channel token: step relation (history of one step) ----
   * holder = the token is (or is about to be) at the client: GRANTED, RECLAIM (reclaim pending), RELEASE (reclaim sent) */
  for (i = 0; i < NCL; i++) {
    int pre, post, newly;
    obs_clnt(&o1[i], W_cl[i]);
    pre = o0[i].token_state; post = (o1[i].state == REQ_STATE_CLOSED) ? REQ_TOKEN_NONE : o1[i].token_state;
    if (i != ACT)
      V_ASSERT(!tok_holder(pre) || tok_has(post), "token_taken_only_by_holders_own_action");
    else if (tok_holder(pre) && !tok_has(post))
      V_ASSERT(a->state == REQ_STATE_CLOSED || type == MSG_TYPE_CHN_TOKEN_REQ ||
               (type == MSG_TYPE_CHN_NOTIFY_REQ && (nflags & (VBI_PROXY_CHN_RELEASE | VBI_PROXY_CHN_TOKEN))) ||
               (type == MSG_TYPE_CHN_RECLAIM_CNF && pre == REQ_TOKEN_RELEASE), "token_given_up_only_by_return_release_confirm_close");
    newly = (post == REQ_TOKEN_GRANT || post == REQ_TOKEN_GRANTED) && !tok_has(pre);
    if (newly) {
      unsigned j;
      for (j = 0; j < NCL; j++)
        if (j != i && o0[j].dev_idx == o0[i].dev_idx)                  /* nobody else still has it */
          V_ASSERT(W_cl[j]->state == REQ_STATE_CLOSED || !tok_holder(W_cl[j]->chn_state.token_state), "grant_only_after_holder_gave_up");
      V_ASSERT(o1[i].prof_valid && o1[i].chn_prio == VBI_CHN_PRIO_BACKGROUND, "grant_only_to_client_that_asked");
      V_REACH("granted");
    }
    if (post == REQ_TOKEN_RETURNED)
      V_ASSERT(pre != REQ_TOKEN_NONE, "channel_owner_only_after_grant");
  }
  /* VBI_PROXY_CHN_RELEASE ("revoke a previous channel request and return the token", proxy-msg.h): whatever its token state was, an
     accepted NOTIFY with that flag leaves the client WITHOUT a request - no token and no valid profile - so that the scheduler can never
     grant to a client that has withdrawn ("granted only to a client that asked" over more than one step) */
  if (type == MSG_TYPE_CHN_NOTIFY_REQ && (nflags & VBI_PROXY_CHN_RELEASE) && a->state != REQ_STATE_CLOSED && o0[ACT].state == REQ_STATE_FORWARD) {
    V_ASSERT(a->chn_state.token_state == REQ_TOKEN_NONE && !a->chn_profile.is_valid, "release_withdraws_the_request");
    V_REACH("released");
  }
  w_assert_inv("msg");
  V_END();
}

/* =====================================================================================================
 * (1a) message framing: vbi_proxy_msg_handle_read, called as the daemon calls it (k = 3 loop iterations;
 * between two calls vbi_proxy_msg_read_idle() as in vbi_proxyd_get_fd_set, proxyd.c:2369, and
 * vbi_proxy_msg_is_idle() as in vbi_proxyd_handle_client_sockets, proxyd.c:2446), on a client byte stream of
 * arbitrary content delivered by recv() in arbitrary chunks (0..C19_MAXCHUNK bytes, EAGAIN/EINTR/ECONNRESET,
 * orderly shutdown at any byte).  RBUF = 0: the daemon's buffer (sizeof(VBIPROXY_MSG), exact-size heap object);
 * RBUF > 0: a buffer of RBUF bytes (messages complete within the bound, reassembly checked byte by byte).
 * ===================================================================================================== */
#ifndef RBUF
#define RBUF 0
#endif
#define RD_STREAM (2 * 3 * C19_MAXCHUNK)


V_HARNESS(h_read)
{
  static uint8_t stream[RD_STREAM + 8];
  VBIPROXY_MSG_STATE io; VBIPROXY_MSG *buf; const uint32_t max = RBUF ? RBUF : sizeof(VBIPROXY_MSG);
  unsigned it, i, msgs = 0, msg_start = 0; int closed = 0;
  V_INIT();
  w_init();
  in_bytes(stream, RD_STREAM);
  C19.stream = stream; C19.stream_len = in_u8(); V_ASSUME(C19.stream_len <= RD_STREAM);
  buf = malloc(max); memset(buf, 0, max);
  memset(&io, 0, sizeof io); io.sock_fd = 7; io.lastIoTime = C19.now;      /* as vbi_proxyd_add_connection leaves it */
  for (it = 0; it < 3; it++) {
    vbi_bool blocked = FALSE, r; uint32_t off0 = io.readOff, pos0 = C19.stream_pos;
    (void) vbi_proxy_msg_read_idle(&io);                                    /* proxyd.c:2369 */
    if (io.readOff == 0) msg_start = C19.stream_pos;
    r = vbi_proxy_msg_handle_read(&io, &blocked, TRUE, buf, (int) max);     /* proxyd.c:2410 */
    V_ASSERT(io.readOff <= max, "read_offset_within_buffer");
    V_ASSERT(io.readOff - off0 == C19.stream_pos - pos0, "read_stores_what_it_consumes");
    if (!r) { closed = 1; V_REACH("dropped"); break; }                     /* daemon closes the connection */
    V_ASSERT(io.readOff < sizeof(VBIPROXY_MSG_HEADER) ? io.readLen == 0
             : (io.readLen >= sizeof(VBIPROXY_MSG_HEADER) && io.readLen <= max && io.readOff <= io.readLen), "read_state_invariant");
    if (io.readOff != 0 && io.readOff == io.readLen) {                      /* proxyd.c:2413: message complete */
      V_ASSERT(buf->head.len == be32(stream + msg_start) && buf->head.len == io.readLen, "reassembled_len");
      V_ASSERT(buf->head.type == be32(stream + msg_start + 4), "reassembled_type");
      for (i = 8; i < RD_STREAM; i++)
        if (i < io.readLen) V_ASSERT(((uint8_t *) buf)[i] == stream[msg_start + i], "reassembled_body");
      vbi_proxy_msg_close_read(&io);                                        /* proxyd.c:2417 */
      msgs++;
      V_REACH("complete");
    } else if (io.readOff != 0) V_REACH("partial");
    (void) vbi_proxy_msg_is_idle(&io);                                      /* proxyd.c:2446 */
    (void) vbi_proxy_msg_check_timeout(&io, C19.now);                       /* proxyd.c:2503 */
  }
  if (msgs == 2) V_REACH("two");
  (void) closed;
  free(buf);
  V_END();
}

/* =====================================================================================================
 * (1c)/(2) the daemon's event loop body on faulty byte streams and disconnects: LOOPS iterations of
 * vbi_proxyd_get_fd_set + select (any subset ready) + vbi_proxyd_handle_client_sockets, REAL code, with
 * clients that have no services yet (device closed).  The message handlers vbi_proxyd_check_msg /
 * vbi_proxyd_take_message are covered by msg_take and replaced here by "any result, no effect" (solver build:
 * function bodies removed).  Asserts: list/ count bookkeeping, a dropped connection is closed exactly once and
 * unlinked, a client that was not ready and did not time out is untouched.
 * ===================================================================================================== */
#ifndef LOOPS
#define LOOPS 1
#endif
#ifndef RDOFF
#define RDOFF 0
#endif
#define LP_STREAM (2 * 2 * C19_MAXCHUNK)

static int w_in_list(const PROXY_CLNT *c)
{
  const PROXY_CLNT *p = proxy.p_clnts; unsigned k;
  for (k = 0; k < 3; k++) { if (p == NULL) return 0; if (p == c) return 1; p = p->p_next; }
  return 0;
}

V_HARNESS(h_loop)
{
  static uint8_t stream[LP_STREAM + 8];
  fd_set rd, wr; unsigned it, i, alive; struct clnt_obs o0[3], o1; struct env_obs e0, e1;
  V_INIT();
  w_init();
  w_device(0);
  in_bytes(stream, LP_STREAM);
  C19.stream = stream; C19.stream_len = in_u8(); V_ASSUME(C19.stream_len <= LP_STREAM);
  for (i = 0; i < NCL; i++) {
    PROXY_CLNT *c = w_client(0, 0);
    c->io.sock_fd = 10 + (int) i;
    /* concrete, not assumed: symex then skips the service / channel recomputation of the unlink step (covered by upd_services, disconnect) */
    c->all_services = 0; c->services[0] = c->services[1] = c->services[2] = c->services[3] = 0;
    c->chn_state.token_state = REQ_TOKEN_NONE; c->chn_profile.is_valid = 0; c->chn_status_ind = VBI_PROXY_CHN_NONE;
    /* I/O state: client 0 is RDOFF bytes into a message (case split: the offset selects where recv() stores, it must be concrete);
       I/O invariant: readOff < 8 => readLen == 0; else 8 <= readLen <= sizeof msg_buf and readOff < readLen; a read in progress => no write pending */
    { uint32_t rl = in_u32();
      if (i == 0 && RDOFF != 0) {
        c->io.readOff = RDOFF; c->io.writeLen = 0; c->io.pWriteBuf = NULL;
        if (RDOFF >= sizeof(VBIPROXY_MSG_HEADER)) { V_ASSUME(rl > RDOFF && rl <= sizeof(c->msg_buf)); c->io.readLen = rl; }
      } }
  }
  w_link();
  w_queue();
  w_assume_inv();
  for (it = 0; it < LOOPS; it++) {
    uint32_t t = in_u32(); uint8_t ready = in_u8(); unsigned gone_now = 0; int touched[3];
    V_ASSUME((time_t) t >= C19.now); C19.now = (time_t) t;                  /* the clock does not run backwards */
    memset(&rd, 0, sizeof rd); memset(&wr, 0, sizeof wr);
    (void) vbi_proxyd_get_fd_set(&rd, &wr);                                 /* proxyd.c:2804 */
    for (i = 0; i < NCL; i++) {                                             /* select(): any subset is ready */
      touched[i] = 0;
      if (W_gone[i]) continue;
      V_ASSERT(FD_ISSET(10 + (int) i, &rd) || FD_ISSET(10 + (int) i, &wr), "every_connection_is_watched");
      if (!((ready >> i) & 1)) { FD_CLR(10 + (int) i, &rd); FD_CLR(10 + (int) i, &wr); }
      else touched[i] = 1;
      obs_clnt(&o0[i], W_cl[i]);
    }
    obs_env(&e0);
    vbi_proxyd_handle_client_sockets(&rd, &wr);                             /* proxyd.c:2849 */
    obs_env(&e1);
    alive = 0;
    for (i = 0; i < NCL; i++) {
      if (W_gone[i]) continue;
      if (!w_in_list(W_cl[i])) { W_gone[i] = 1; gone_now++; continue; }
      alive++;
      obs_clnt(&o1, W_cl[i]);
      V_ASSERT(o1.state != REQ_STATE_CLOSED && o1.sock_fd == 10 + (int) i, "listed_connections_are_open");
      V_ASSERT(o1.readOff < sizeof(VBIPROXY_MSG_HEADER) ? o1.readLen == 0
               : (o1.readLen >= sizeof(VBIPROXY_MSG_HEADER) && o1.readLen <= sizeof(W_cl[i]->msg_buf) && o1.readOff < o1.readLen), "io_invariant_kept");
      V_ASSERT(o1.readOff == 0 || o1.writeLen == 0, "no_write_while_reading");
      if (o1.readOff != 0) V_REACH("partial");
      if (!touched[i] && o0[i].chn_status_ind == 0 &&
          !(o0[i].state == REQ_STATE_WAIT_CON_REQ && C19.now > o0[i].lastIoTime + SRV_IO_TIMEOUT))
      { o1.p_next = o0[i].p_next;                                         /* list linkage changes when a neighbour is unlinked */
        V_ASSERT(same_clnt(&o0[i], &o1), "idle_connection_untouched"); }
    }
    V_ASSERT(proxy.clnt_count == (int) alive, "client_count");
    V_ASSERT(e1.n_close == e0.n_close + gone_now, "dropped_connection_closed_once");
    V_ASSERT(e1.n_open == e0.n_open && e1.upd_calls == e0.upd_calls, "no_device_activity");
    if (gone_now) V_REACH("dropped");
  }
  if (alive == NCL) V_REACH("survived");
  w_assert_inv("loop");
  V_END();
}

/* token step relation for one client (pre/post observation); actor_gave_up: the step is the holder's own return/release/confirm/disconnect */
static void tok_step_check(const struct clnt_obs *o0, const struct clnt_obs *o1, int gone, int is_actor)
{
  int pre = o0->token_state, post = gone ? REQ_TOKEN_NONE : o1->token_state;
  if (!is_actor)
    V_ASSERT(!tok_holder(pre) || tok_has(post), "token_taken_only_by_holders_own_action");
  if ((post == REQ_TOKEN_GRANT || post == REQ_TOKEN_GRANTED) && !tok_has(pre)) {
    V_ASSERT(o1->prof_valid && o1->chn_prio == VBI_CHN_PRIO_BACKGROUND, "grant_only_to_client_that_asked");
    V_REACH("granted");
  }
  if (post == REQ_TOKEN_RETURNED)
    V_ASSERT(pre != REQ_TOKEN_NONE, "channel_owner_only_after_grant");
}

/* =====================================================================================================
 * (3) token exclusivity, scheduler timer step: vbi_proxyd_channel_timer() (proxyd.c:2851-2856) with a symbolic
 * clock from an arbitrary state of NCL clients satisfying the invariant.
 * ===================================================================================================== */
V_HARNESS(h_timer)
{
  struct clnt_obs o0[3], o1[3]; unsigned i;
  V_INIT();
  w_init();
  w_device(DEVOPEN);
  for (i = 0; i < NCL; i++) w_client((i == NCL - 1) ? BDEV : 0, 0);
  w_link();
  w_queue();
  w_assume_inv();
  for (i = 0; i < NCL; i++) obs_clnt(&o0[i], W_cl[i]);
  proxy.chn_sched_alarm = FALSE;
  vbi_proxyd_channel_timer();
  for (i = 0; i < NCL; i++) { obs_clnt(&o1[i], W_cl[i]); tok_step_check(&o0[i], &o1[i], 0, 0); }
  for (i = 0; i < NCL; i++) {
    V_ASSERT(o1[i].state == o0[i].state && o1[i].p_sliced == o0[i].p_sliced && o1[i].all_services == o0[i].all_services, "timer_touches_only_scheduler_state");
    if (o1[i].token_state != o0[i].token_state) V_REACH("rescheduled");
  }
  w_assert_inv("timer");
  V_END();
}

/* =====================================================================================================
 * (2) disconnect at any point: vbi_proxyd_close() on client ACT in every connection state (any token state, any
 * cursor into the frame queue, idle or in the middle of a reply), followed by what vbi_proxyd_handle_client_sockets
 * does with a CLOSED connection (proxyd.c:2516-2544, replicated: unlink, [vbi_proxyd_update_services: obligation
 * upd_services], REAL vbi_proxyd_channel_update, free).  Running the whole of vbi_proxyd_handle_client_sockets here
 * stalls symex (measured > 400 s: the frame forwarding loop is explored for the merged closed/open state).
 * Asserts: socket closed once, queue references released (queue invariant without the client, frames nobody else
 * needs are back in the free list), the token it held is free: nobody else lost a token, a client granted now had asked.
 * ===================================================================================================== */
V_HARNESS(h_drop)
{
  struct clnt_obs o0[3], o1[3]; struct env_obs e0, e1; unsigned i; PROXY_CLNT *a, *prev, *tmp; int a_fd, dev_idx;
  V_INIT();
  w_init();
  w_device(DEVOPEN);
  for (i = 0; i < NCL; i++) w_client((i != ACT && i == NCL - 1) ? BDEV : 0, 0);
  w_link();
  w_queue();
  w_assume_inv();
  a = W_cl[ACT]; a_fd = a->io.sock_fd;
  for (i = 0; i < NCL; i++) obs_clnt(&o0[i], W_cl[i]);
  obs_env(&e0);

  vbi_proxyd_close(a, FALSE);                                   /* proxyd.c:2431 / 2438 / 2490 / 2506 ... */

  V_ASSERT(a->state == REQ_STATE_CLOSED && a->io.sock_fd == -1 && a->p_sliced == NULL && a->io.pWriteBuf == NULL, "close_releases_connection");
  w_assert_inv("closed");
  /* proxyd.c:2516-2544 */
  dev_idx = a->dev_idx;
  if (proxy.clnt_count > 0) proxy.clnt_count -= 1;
  tmp = a; prev = (ACT == 0) ? NULL : W_cl[ACT - 1];
  if (prev == NULL) proxy.p_clnts = a->p_next; else prev->p_next = a->p_next;
  if (proxy.dev[dev_idx].p_capture != NULL)
    vbi_proxyd_channel_update(dev_idx, NULL, FALSE);
  free(tmp);
  W_gone[ACT] = 1;
  obs_env(&e1);
  V_ASSERT(e1.n_close == e0.n_close + 1 && C19.last_closed_fd == a_fd, "socket_closed_once");
  for (i = 0; i < NCL; i++) {
    if (i == ACT) continue;
    obs_clnt(&o1[i], W_cl[i]);
    tok_step_check(&o0[i], &o1[i], 0, 0);
    V_ASSERT(o1[i].state == o0[i].state && o1[i].sock_fd == o0[i].sock_fd && o1[i].p_sliced == o0[i].p_sliced &&
             o1[i].writeLen == o0[i].writeLen && o1[i].all_services == o0[i].all_services, "other_connections_untouched");
  }
  if (o0[ACT].token_state != REQ_TOKEN_NONE) V_REACH("holder_dropped");
  if (o0[ACT].p_sliced != NULL) V_REACH("reader_dropped");
  w_assert_inv("drop");
  V_END();
}

/* =====================================================================================================
 * (2b) service re-computation after a client left: vbi_proxyd_update_services(dev, NULL, 0, NULL) (proxyd.c:2540)
 * from an arbitrary state: device/queue invariant, no client structure but all_services touched, device closed
 * iff nothing is granted any more.
 * ===================================================================================================== */
V_HARNESS(h_upd)
{
  struct clnt_obs o0[3], o1[3]; unsigned i; vbi_bool r; unsigned un = 0;
  V_INIT();
  w_init();
  w_device(DEVOPEN);
  for (i = 0; i < NCL; i++) w_client((i == NCL - 1) ? BDEV : 0, 0);
  w_link();
  w_queue();
  w_assume_inv();
  for (i = 0; i < NCL; i++) obs_clnt(&o0[i], W_cl[i]);
  r = vbi_proxyd_update_services(0, NULL, 0, NULL);
  (void) r;
  for (i = 0; i < NCL; i++) {
    obs_clnt(&o1[i], W_cl[i]);
    V_ASSERT(o1[i].state == o0[i].state && o1[i].token_state == o0[i].token_state && o1[i].sock_fd == o0[i].sock_fd &&
             o1[i].services[0] == o0[i].services[0] && o1[i].services[1] == o0[i].services[1] &&
             o1[i].services[2] == o0[i].services[2] && o1[i].services[3] == o0[i].services[3], "update_keeps_requests_and_tokens");
    if (o1[i].dev_idx == 0 && o1[i].state == REQ_STATE_FORWARD) un |= o1[i].all_services;
    else V_ASSERT(o1[i].all_services == o0[i].all_services, "update_other_device_untouched");
  }
  if (proxy.dev[0].p_capture != NULL) { V_ASSERT(proxy.dev[0].all_services == un && un != 0, "device_open_for_union_of_grants"); V_REACH("open"); }
  else { V_REACH("closed"); }
  w_assert_inv("upd");
  V_END();
}
