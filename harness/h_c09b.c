/* C09 part 2 - the service decoder's own XDS separator and XDS decoder (src/caption.c).
 * Real unit: src/caption.c (included); linked: src/hamm.c.
 * Cut (DESIGN R2): struct teletext (46 KB member of vbi_decoder, never touched by caption.c) is replaced by a
 * dummy through the include guard of teletext_decoder.h. */
#include "verif.h"
#include "ref_codes.h"

#define TELETEXT_H
#include "src/cache-priv.h"
typedef enum { VBI_WST_LEVEL_1, VBI_WST_LEVEL_1p5, VBI_WST_LEVEL_2p5, VBI_WST_LEVEL_3p5 } vbi_wst_level;
struct teletext { int carved_out; };
#ifndef VBI_DECODER
#define VBI_DECODER
typedef struct vbi_decoder vbi_decoder;
#endif
extern void vbi_teletext_set_default_region(vbi_decoder *vbi, int default_region);
extern void vbi_teletext_set_level(vbi_decoder *vbi, int level);

/* pthread model: a flag per mutex, lock discipline asserted */
#include <pthread.h>
static int mx_held;
int pthread_mutex_lock(pthread_mutex_t *m) { (void) m; V_ASSERT(!mx_held, "mutex_not_relocked"); mx_held = 1; return 0; }
int pthread_mutex_unlock(pthread_mutex_t *m) { (void) m; V_ASSERT(mx_held, "mutex_unlock_held"); mx_held = 0; return 0; }
int pthread_mutex_init(pthread_mutex_t *m, const pthread_mutexattr_t *a) { (void) m; (void) a; return 0; }
int pthread_mutex_destroy(pthread_mutex_t *m) { (void) m; return 0; }

#include "src/caption.c"

/* ---- environment ---- */
#define EVMAX 6
static unsigned EVN; static int EVT[EVMAX];
void vbi_send_event(vbi_decoder *vbi, vbi_event *ev) { (void) vbi; V_ASSERT(!mx_held, "event_sent_with_caption_mutex_released"); if (EVN < EVMAX) EVT[EVN] = ev->type; EVN++; }
void vbi_chsw_reset(vbi_decoder *vbi, vbi_nuid nuid) { (void) vbi; (void) nuid; }
void vbi_reset_prog_info(vbi_program_info *pi) { int f = pi->future; memset(pi, 0, sizeof *pi); pi->future = f; pi->month = -1; pi->length_hour = -1; pi->elapsed_hour = -1;
  pi->aspect.first_line = 22; pi->aspect.last_line = 262; pi->aspect.ratio = 1.0; pi->aspect.open_subtitles = VBI_SUBT_UNKNOWN; }
void vbi_atvef_trigger(vbi_decoder *vbi, unsigned char *s) { (void) vbi; (void) s; }
unsigned int vbi_caption_unicode(unsigned int c, vbi_bool to_upper) { (void) to_upper; return c; }
const char *vbi_rating_string(vbi_rating_auth auth, int id) { (void) auth; (void) id; return ""; }
const char *vbi_prog_type_string(vbi_prog_classf classf, int id) { (void) classf; (void) id; return ""; }
struct vbi_font_descr vbi_font_descriptors[88];
void vbi_transp_colormap(vbi_decoder *vbi, vbi_rgba *d, vbi_rgba *s, int entries) { (void) vbi; (void) d; (void) s; (void) entries; }
size_t _vbi_strlcpy(char *dst, const char *src, size_t size) { size_t i = 0; if (size) { for (; i + 1 < size && src[i]; i++) dst[i] = src[i]; dst[i] = 0; } return i; }

static vbi_decoder VBI;

static int sp_inv(const xds_sub_packet *sp) { return sp->count == 0 || (sp->count >= 2 && sp->count <= 34); }
static int ref_unpar(unsigned b) { return ref_odd_parity(b) ? (int) (b & 0x7F) : -1; }
static xds_sub_packet slot_get(int sc, int si)
{ xds_sub_packet r; unsigned c, i; memset(&r, 0, sizeof r);
  for (c = 0; c < 4; c++) for (i = 0; i < 0x18; i++) if ((int) c == sc && (int) i == si) r = VBI.cc.sub_packet[c][i];
  return r; }
static xds_sub_packet *slot_ptr(int sc, int si)
{ xds_sub_packet *r = NULL; unsigned c, i;
  for (c = 0; c < 4; c++) for (i = 0; i < 0x18; i++) if ((int) c == sc && (int) i == si) r = &VBI.cc.sub_packet[c][i];
  return r; }
static void slot_of_ptr(const xds_sub_packet *p, int *sc, int *si)
{ unsigned c, i; *sc = *si = -1;
  for (c = 0; c < 4; c++) for (i = 0; i < 0x18; i++) if (p == &VBI.cc.sub_packet[c][i]) { *sc = (int) c; *si = (int) i; } }

/* ---- INV-STEP on xds_separator: arbitrary sub-packet table satisfying the invariant, one byte pair (first byte on the grid) ----
 * invariant: counts in {0} u [2,34]; curr_sp NULL or a started slot of the table.
 * contract as for the stand-alone demultiplexer (h_c09.c); deliveries go to xds_decoder, whose own
 * assert(length <= 32) and bounds are part of this obligation (event_mask = 0 keeps its body short). */
#ifndef C1FIX
#define C1FIX 0x41
#endif
V_HARNESS(h_xdssep_step)
{
  uint8_t pair[2]; int c1, c2, cc, ci, nc, ni, hc = -1, hi = -1, oc, oi, t_c = -1, t_i = -1; unsigned i;
  xds_sub_packet o_cur, o_hdr, o_obs, n_cur, n_hdr, n_obs;
  V_INIT();
  /* VBI is a static object: zero initialised (a memset of the whole decoder costs minutes of symex) */
  in_bytes(&VBI.cc.sub_packet[0][0], sizeof VBI.cc.sub_packet);
  { unsigned has = in_u8(), sc = in_u8(), si = in_u8();
    if (has & 1) { V_ASSUME(sc < 4 && si < 0x18); VBI.cc.curr_sp = slot_ptr((int) sc, (int) si); } else VBI.cc.curr_sp = NULL; }
  pair[0] = (C1FIX < 0) ? (uint8_t) (ref_par8(-(C1FIX)) ^ 0x80) : (uint8_t) ref_par8(C1FIX); pair[1] = in_u8();
  c1 = ref_unpar(pair[0]); c2 = ref_unpar(pair[1]);
  /* vbi_decode_caption only hands pairs to the separator whose first byte is 0x01..0x0F, or >= 0x20 while in XDS mode, or has a parity error */
  V_ASSUME(c1 < 0 || (c1 >= 1 && c1 <= 0x0F) || c1 >= 0x20);
  if (c1 >= 1 && c1 <= 0x0E && c2 >= 0 && ((c1 - 1) >> 1) < 4 && c2 < 0x18) { hc = (c1 - 1) >> 1; hi = c2; }
  oc = in_u8(); oi = in_u8(); V_ASSUME(oc < 4 && oi < 0x18);
  slot_of_ptr(VBI.cc.curr_sp, &cc, &ci);
  memset(&o_cur, 0, sizeof o_cur); memset(&o_hdr, 0, sizeof o_hdr);
  if (cc >= 0) { o_cur = slot_get(cc, ci); V_ASSUME(o_cur.count >= 2 && o_cur.count <= 34); V_REACH("cur"); }
  if (hc >= 0) { o_hdr = slot_get(hc, hi); V_ASSUME(sp_inv(&o_hdr)); }
  o_obs = slot_get(oc, oi); V_ASSUME(sp_inv(&o_obs));

  xds_separator(&VBI, pair);

  slot_of_ptr(VBI.cc.curr_sp, &nc, &ni);
  V_ASSERT(VBI.cc.curr_sp == NULL || nc >= 0, "sep_inv_curr_points_to_slot");
  n_cur = o_cur; n_hdr = o_hdr;
  if (cc >= 0) { n_cur = slot_get(cc, ci); V_ASSERT(sp_inv(&n_cur), "sep_inv_prev_current"); }
  if (hc >= 0) { n_hdr = slot_get(hc, hi); V_ASSERT(sp_inv(&n_hdr), "sep_inv_header_slot"); }
  n_obs = slot_get(oc, oi); V_ASSERT(sp_inv(&n_obs), "sep_inv_observer");
  if (nc >= 0) V_ASSERT((nc == cc && ni == ci && n_cur.count >= 2) || (nc == hc && ni == hi && n_hdr.count >= 2), "sep_inv_current_started");
  if (c1 < 0 || c2 < 0) {
    V_ASSERT(nc < 0, "sep_parity_drops_current"); t_c = cc; t_i = ci;
    if (cc >= 0) V_ASSERT(n_cur.count == 0, "sep_parity_clears");
  } else if (c1 <= 0x0E) {
    if (hc < 0) { V_ASSERT(nc < 0, "sep_unknown_header_ends_current"); V_REACH("badhdr"); }
    else if (c1 & 1) { t_c = hc; t_i = hi; V_ASSERT(nc == hc && ni == hi && n_hdr.count == 2 && ((n_hdr.chksum ^ (c1 + c2)) & 0x7F) == 0, "sep_start_resets"); }
    else if (o_hdr.count == 0) { t_c = hc; t_i = hi; V_ASSERT(nc < 0 && n_hdr.count == 0, "sep_continue_without_start"); }
    else V_ASSERT(nc == hc && ni == hi, "sep_continue_selects");
  } else if (c1 == 0x0F) {
    if (cc < 0) V_ASSERT(nc < 0, "sep_end_without_packet");
    else { t_c = cc; t_i = ci; V_ASSERT(nc < 0 && n_cur.count == 0, "sep_end_closes"); V_REACH("end_packet"); }
  } else {
    if (cc < 0) V_ASSERT(nc < 0, "sep_content_ignored");
    else {
      t_c = cc; t_i = ci;
      if (o_cur.count + 2 > 34) { V_ASSERT(nc < 0 && n_cur.count == 0, "sep_overlong_discarded"); V_REACH("overlong"); }
      else {
        V_ASSERT(nc == cc && ni == ci && n_cur.count == o_cur.count + 1 + (c2 != 0) && n_cur.chksum == o_cur.chksum + c1 + c2, "sep_content_count_checksum");
        for (i = 0; i < 32; i++) {
          if ((int) i + 2 < o_cur.count) V_ASSERT(n_cur.buffer[i] == o_cur.buffer[i], "sep_content_prefix_kept");
          if ((int) i + 2 == o_cur.count) V_ASSERT(n_cur.buffer[i] == c1, "sep_content_byte1");
          if ((int) i + 1 == o_cur.count && c2 != 0) V_ASSERT(n_cur.buffer[i] == c2, "sep_content_byte2");
        }
        V_REACH("content");
      }
    }
  }
  if (!(oc == t_c && oi == t_i)) {
    V_ASSERT(n_obs.count == o_obs.count && n_obs.chksum == o_obs.chksum, "sep_frame_count");
    for (i = 0; i < 32; i++) V_ASSERT(n_obs.buffer[i] == o_obs.buffer[i], "sep_frame_bytes");
    V_REACH("frame");
  }
  V_END();
}

/* ---- xds_decoder: every (class, type) with an arbitrary payload of every legal length: memory safety of the programme/network
 * info updates, title copied exactly ---- */
#ifndef XCLS
#define XCLS 0
#endif
#ifndef XLEN
#define XLEN 32
#endif
V_HARNESS(h_xdsdec)
{
  uint8_t buf[33]; int type; unsigned i;
  V_INIT();
  /* VBI is a static object: zero initialised (a memset of the whole decoder costs minutes of symex) */
  VBI.event_mask = VBI_EVENT_ASPECT | VBI_EVENT_PROG_INFO | VBI_EVENT_NETWORK | VBI_EVENT_NETWORK_ID;
  VBI.prog_info[1].future = 1;
  in_bytes(buf, 33); for (i = 0; i < 33; i++) buf[i] &= 0x7F;
  type = in_u8() % 0x18;
  in_bytes(&VBI.prog_info[XCLS & 1].title[0], 16);
  VBI.cc.info_cycle[0] = in_u8(); VBI.cc.info_cycle[1] = in_u8();
  { int k; for (k = 0; k < 0x18; k++) if (k == type) xds_decoder(&VBI, XCLS, k, buf, XLEN); }
  if (XCLS <= 1 && type == 3 && XLEN >= 2) {
    /* programme name: leading blanks skipped, control codes shown as blanks, NUL terminated */
    unsigned s = 0, n = 0; const vbi_program_info *pi = &VBI.prog_info[XCLS & 1];
    while (s < XLEN && buf[s] <= 0x20) s++;
    for (; s < XLEN; s++, n++) V_ASSERT((uint8_t) pi->title[n] == (buf[s] < 0x20 ? 0x20 : buf[s]), "xds_title_bytes");
    V_ASSERT(pi->title[n] == 0, "xds_title_terminated");
    V_REACH("title");
  }
  V_END();
}
