/* C09 part 2 - the service decoder's own XDS separator and XDS decoder (src/caption.c).
 * Real unit: src/caption.c (included); linked: src/hamm.c.
 * Cut common to all builds (DESIGN R2): struct teletext (46 KB member of vbi_decoder, never touched by caption.c) is replaced by a
 * dummy through the include guard of teletext_decoder.h.
 *
 * Two builds of this file (selected by the obligation, vlib/props/C09.py); the runner regenerates the scratch copies named below
 * from the CURRENT /repo source on every run:
 *
 *  separator  -DC09_DECODER_STUB.  The complete caption.c with the real struct caption (168 KB inside vbi_decoder); only the body of
 *             xds_decoder() is replaced (scratch copy of caption.c: its definition becomes a prototype) by a logging stub carrying
 *             its entry contract (assert(length > 0 && length <= 32)).  The real body is decided by the caption_xds_decoder
 *             obligations for every (class, type, length) the separator can hand over (assume-guarantee).  Measured reason: behind a
 *             terminator the real decoder runs with a symbolic class, type and length, and xds_strfu then leaves its destination
 *             pointer at a symbolic offset inside the 168 KB object (no verdict).
 *
 *  decoder    -DC09_SMALL_CC.  h_xdsdec only.
 *             src/cc.h      scratch copy with the member `vbi_page pg[2]` of cc_channel removed (2 x 9 KB display pages per channel,
 *                           9 channels: 157 KB that the XDS code never names), so that struct caption is 4.8 KB, vbi_decoder 10.7 KB;
 *             src/caption.c scratch copy cut before itv_separator(), i.e. the file head, caption_send_event and the whole XDS part
 *                           (xds_strfu, flush_prog_info, xds_decoder, xds_separator) verbatim; the display/ITV code (which needs
 *                           pg) is left out.
 *             Measured reason: xds_strfu's `*d = 0` after its copy loop goes through a pointer whose offset inside vbi_decoder is
 *             symbolic (it depends on how many leading blanks were skipped); cbmc turns that one store into an update of the whole
 *             enclosing object: with the 168 KB struct caption inside, none of the instances got a verdict in 1200 s; with the
 *             reduced one each takes 3-60 s.
 */
#include "verif.h"
#include "ref_codes.h"

#ifdef C09_SMALL_CC
#include "src/cc.h"       /* the scratch copy (the runner puts its directory first on the include path); its guard keeps the real one out */
_Static_assert(sizeof(cc_channel) <= 256 && sizeof(struct caption) <= 8192, "C09_SMALL_CC build must see the reduced copy of src/cc.h");
#endif

#define TELETEXT_H
#include "src/cache-priv.h"
typedef enum { VBI_WST_LEVEL_1, VBI_WST_LEVEL_1p5, VBI_WST_LEVEL_2p5, VBI_WST_LEVEL_3p5 } vbi_wst_level;
struct teletext { int carved_out; };
#ifndef VBI_DECODER
#define VBI_DECODER
typedef struct vbi_decoder vbi_decoder;
#endif
extern void vbi_teletext_set_default_region(vbi_decoder *vbi, int default_region);
extern void vbi_teletext_set_level(vbi_decoder *vbi, int level);

/* pthread model: a flag per mutex, lock discipline asserted */
#include <pthread.h>
static int mx_held;
int pthread_mutex_lock(pthread_mutex_t *m) { (void) m; V_ASSERT(!mx_held, "mutex_not_relocked"); mx_held = 1; return 0; }
int pthread_mutex_unlock(pthread_mutex_t *m) { (void) m; V_ASSERT(mx_held, "mutex_unlock_held"); mx_held = 0; return 0; }
int pthread_mutex_init(pthread_mutex_t *m, const pthread_mutexattr_t *a) { (void) m; (void) a; return 0; }
int pthread_mutex_destroy(pthread_mutex_t *m) { (void) m; return 0; }

#include "src/caption.c"

/* ---- environment ---- */
#define EVMAX 6
static unsigned EVN; static int EVT[EVMAX]; static const void *EVPI[EVMAX];
void vbi_send_event(vbi_decoder *vbi, vbi_event *ev) { (void) vbi; V_ASSERT(!mx_held, "event_sent_with_caption_mutex_released");
  if (EVN < EVMAX) { EVT[EVN] = ev->type; EVPI[EVN] = (ev->type == VBI_EVENT_PROG_INFO) ? (const void *) ev->ev.prog_info : NULL; } EVN++; }
static unsigned CHSW_N;
void vbi_chsw_reset(vbi_decoder *vbi, vbi_nuid nuid) { (void) vbi; (void) nuid; CHSW_N++; }
void vbi_reset_prog_info(vbi_program_info *pi) { int f = pi->future; memset(pi, 0, sizeof *pi); pi->future = f; pi->month = -1; pi->length_hour = -1; pi->elapsed_hour = -1;
  pi->aspect.first_line = 22; pi->aspect.last_line = 262; pi->aspect.ratio = 1.0; pi->aspect.open_subtitles = VBI_SUBT_UNKNOWN; }
void vbi_atvef_trigger(vbi_decoder *vbi, unsigned char *s) { (void) vbi; (void) s; }
unsigned int vbi_caption_unicode(unsigned int c, vbi_bool to_upper) { (void) to_upper; return c; }
const char *vbi_rating_string(vbi_rating_auth auth, int id) { (void) auth; (void) id; return ""; }
const char *vbi_prog_type_string(vbi_prog_classf classf, int id) { (void) classf; (void) id; return ""; }
struct vbi_font_descr vbi_font_descriptors[88];
void vbi_transp_colormap(vbi_decoder *vbi, vbi_rgba *d, vbi_rgba *s, int entries) { (void) vbi; (void) d; (void) s; (void) entries; }
size_t _vbi_strlcpy(char *dst, const char *src, size_t size) { size_t i = 0; if (size) { for (; i + 1 < size && src[i]; i++) dst[i] = src[i]; dst[i] = 0; } return i; }

static vbi_decoder VBI;

#ifdef C09_DECODER_STUB
/* xds_decoder() as the separator sees it: entry contract (its own assert) + a log of what was handed over */
static unsigned DN; static int DCLS, DTYP, DLEN; static const uint8_t *DPTR; static uint8_t DBUF[32];
static void xds_decoder(vbi_decoder *vbi, int _class, int type, uint8_t *buffer, int length)
{
  int i;
  V_ASSERT(vbi == &VBI, "dec_vbi");
  V_ASSERT(length > 0 && length <= 32, "dec_entry_length_1_32");      /* assert() at the top of the real function */
  V_ASSERT(mx_held, "dec_called_with_caption_mutex_held");
  if (DN == 0) { DCLS = _class; DTYP = type; DLEN = length; DPTR = buffer; for (i = 0; i < 32; i++) DBUF[i] = buffer[i]; }
  DN++;
}
#endif

/* invariant of one sub-packet: count in {0} u [2,34]; the checksum is an int here (signed overflow would be undefined): it is the sum of
   at most count 7-bit values, 0 when the slot is empty */
static int sp_inv(const xds_sub_packet *sp)
{ return (sp->count == 0 && sp->chksum == 0) || (sp->count >= 2 && sp->count <= 34 && sp->chksum >= 0 && sp->chksum <= 127 * sp->count); }
static int ref_unpar(unsigned b) { return ref_odd_parity(b) ? (int) (b & 0x7F) : -1; }
static xds_sub_packet slot_get(int sc, int si)
{ xds_sub_packet r; unsigned c, i; memset(&r, 0, sizeof r);
  for (c = 0; c < 4; c++) for (i = 0; i < 0x18; i++) if ((int) c == sc && (int) i == si) r = VBI.cc.sub_packet[c][i];
  return r; }
static xds_sub_packet *slot_ptr(int sc, int si)
{ xds_sub_packet *r = NULL; unsigned c, i;
  for (c = 0; c < 4; c++) for (i = 0; i < 0x18; i++) if ((int) c == sc && (int) i == si) r = &VBI.cc.sub_packet[c][i];
  return r; }
static void slot_of_ptr(const xds_sub_packet *p, int *sc, int *si)
{ unsigned c, i; *sc = *si = -1;
  for (c = 0; c < 4; c++) for (i = 0; i < 0x18; i++) if (p == &VBI.cc.sub_packet[c][i]) { *sc = (int) c; *si = (int) i; } }

/* ---- INV-STEP on xds_separator: arbitrary sub-packet table satisfying the invariant, one byte pair (first byte on the grid) ----
 * invariant: sp_inv for every slot; curr_sp NULL or a started slot of the table.
 * Contract as for the stand-alone demultiplexer (h_c09.c), differences of this implementation that the property text leaves open:
 * a header it does not store only deselects the current packet (which stays resumable).  Deliveries go to xds_decoder: with
 * C09_DECODER_STUB the exact delivery contract (iff checksum good and >= 1 byte; class/type of the slot, length, bytes) is asserted.
 * Encoding as in h_c09.c (one call site per value of the quantity that selects the dereferenced slot, pointer constant at the site):
 *   S_CUR  parity error in the first byte, header of a class >= 4, terminator, content; with C2K=2 header of a stored class whose second
 *          byte has a parity error (two such bytes): tree of call sites over the current slot (CURC: one class per instance)
 *   S_HDR  header of a stored class, second byte with good parity: 128 call sites, one per value (types 0x00-0x17 select a slot,
 *          0x18-0x7F are ignored); current-packet pointer symbolic (only overwritten). */
#ifndef C1FIX
#define C1FIX 0x41
#endif
#define C1V ((C1FIX) < 0 ? -1 : (C1FIX))
#define S_IS_STORED_HDR (C1V >= 1 && C1V <= 8)
#define HC (S_IS_STORED_HDR ? ((C1V - 1) >> 1) : 0)
#ifndef C2K
#define C2K 1
#endif
#define S_HDR (S_IS_STORED_HDR && C2K == 1)
#define S_CUR (!S_HDR)
static xds_sub_packet OLDT[4][0x18];
static int W_key, W_cur, T_set;
static xds_sub_packet L_o, L_n; static int L_none, L_this;

static void sep_contract_cur(int has, int cc, int ci, xds_sub_packet o, xds_sub_packet n, int c1, int c2, int now_none, int now_this)
{
  unsigned i;
  V_ASSERT(now_none || (has && now_this), "sep_inv_curr_points_to_slot");
  if (has) V_ASSERT(sp_inv(&n), "sep_inv_prev_current");
  if (!now_none) V_ASSERT(n.count >= 2, "sep_inv_current_started");
#ifdef C09_DECODER_STUB
  V_ASSERT(DN <= 1, "sep_at_most_one_delivery");
  if (!(c1 == 0x0F && c2 >= 0 && has)) V_ASSERT(DN == 0, "sep_no_delivery_without_terminator");
#endif
  if (c1 < 0 || c2 < 0) {
    V_ASSERT(now_none, "sep_parity_drops_current"); T_set = 1;
    if (has) { V_ASSERT(n.count == 0 && n.chksum == 0, "sep_parity_clears"); W_key = 1; }
  } else if (c1 <= 0x0E) {                      /* header of a class that is not stored: deselects */
    V_ASSERT(now_none, "sep_unknown_header_ends_current");
    if (has) W_key = 1;
  } else if (c1 == 0x0F) {
    if (!has) V_ASSERT(now_none, "sep_end_without_packet");
    else {
      T_set = 1; V_ASSERT(now_none && n.count == 0 && n.chksum == 0, "sep_end_closes");
#ifdef C09_DECODER_STUB
      { int good = (((o.chksum + c1 + c2) & 0x7F) == 0) && o.count > 2;
        V_ASSERT((DN == 1) == good, "sep_deliver_iff_checksum_good");
        if (good) {
          V_ASSERT(DCLS == cc && DTYP == ci, "sep_deliver_class_type");
          V_ASSERT(DLEN == o.count - 2, "sep_deliver_length");
          for (i = 0; i < 32; i++) if ((int) i < o.count - 2) V_ASSERT(DBUF[i] == o.buffer[i], "sep_deliver_bytes");
          if (o.count == 34) W_key = 1;
        }
      }
#else
      W_key = 1;
#endif
    }
  } else {
    if (!has) V_ASSERT(now_none, "sep_content_ignored");
    else {
      T_set = 1;
      if (o.count + 2 > 34) V_ASSERT(now_none && n.count == 0 && n.chksum == 0, "sep_overlong_discarded");
      else {
        V_ASSERT(now_this && n.count == o.count + 1 + (c2 != 0) && n.chksum == o.chksum + c1 + c2, "sep_content_count_checksum");
        for (i = 0; i < 32; i++) {
          if ((int) i + 2 < o.count) V_ASSERT(n.buffer[i] == o.buffer[i], "sep_content_prefix_kept");
          if ((int) i + 2 == o.count) V_ASSERT(n.buffer[i] == c1, "sep_content_byte1");
          if ((int) i + 1 == o.count && c2 != 0) V_ASSERT(n.buffer[i] == c2, "sep_content_byte2");
        }
        if (n.count == 34) W_key = 1;
      }
    }
  }
}

/* header of a stored class, second byte c2 (good parity): o/n = the slot it names before/after (types 0x00-0x17), else ignored */
static void sep_contract_hdr(int c1, int c2, xds_sub_packet o, xds_sub_packet n, int now_none, int now_this)
{
#ifdef C09_DECODER_STUB
  V_ASSERT(DN == 0, "sep_no_delivery_without_terminator");
#endif
  if (c2 >= 0x18) { V_ASSERT(now_none, "sep_unknown_header_ends_current"); return; }      /* nothing else changes: frame with T_set == 0 */
  V_ASSERT(now_none || now_this, "sep_inv_curr_points_to_slot");
  V_ASSERT(sp_inv(&n), "sep_inv_header_slot");
  if (!now_none) V_ASSERT(n.count >= 2, "sep_inv_current_started");
  if (c1 & 1) { T_set = 1; V_ASSERT(now_this && n.count == 2 && n.chksum == c1 + c2, "sep_start_resets"); if (o.count > 2) W_key = 1; }
  else if (o.count == 0) V_ASSERT(now_none && n.count == 0 && n.chksum == 0, "sep_continue_without_start");
  else { V_ASSERT(now_this, "sep_continue_selects"); W_key = 1; }
}

#if S_CUR
static void sep_leaf(unsigned c, unsigned i, int cc, int ci, uint8_t *pair)
{
  xds_sub_packet o = VBI.cc.sub_packet[c][i];
  V_ASSERT((int) c == cc && (int) i == ci, "harness_dispatch");
  V_ASSUME(sp_inv(&o) && o.count >= 2); W_cur = 1;
  VBI.cc.curr_sp = &VBI.cc.sub_packet[c][i];                      /* constant at this call site */
  xds_separator(&VBI, pair);
  L_o = o; L_n = VBI.cc.sub_packet[c][i]; L_none = (VBI.cc.curr_sp == NULL); L_this = (VBI.cc.curr_sp == &VBI.cc.sub_packet[c][i]);
}
#define LEAF(c, i) { sep_leaf((c), (i), cc, ci, pair); }
#define T3(c, i)   { if (ci <= (i)) LEAF(c, i) else { if (ci <= (i) + 1) LEAF(c, (i) + 1) else LEAF(c, (i) + 2) } }
#define T6(c, i)   { if (ci <= (i) + 2) T3(c, i) else T3(c, (i) + 3) }
#define T12(c, i)  { if (ci <= (i) + 5) T6(c, i) else T6(c, (i) + 6) }
#define T24(c)     { if (ci <= 11) T12(c, 0) else T12(c, 12) }
#ifdef CURC
#define T96        T24(CURC)
#else
#define T96        { if (cc <= 1) { if (cc <= 0) T24(0) else T24(1) } else { if (cc <= 2) T24(2) else T24(3) } }
#endif
#if S_IS_STORED_HDR
static const uint8_t c2_bad[] = { 0x00, 0x41 };                    /* even parity */
#define N_C2_BAD 2
#endif
#endif

#if S_HDR
/* 128 call sites, one per second byte with good parity; returns 1 when one was taken, *hi = the slot concerned */
static int sep_hdr_sites(int c1, int c2, uint8_t *pair, int *phi)
{
  unsigned v;
  for (v = 0; v < 128; v++) if (c2 == (int) v) {
    xds_sub_packet o, n; unsigned hi = v < 0x18 ? v : 0;
    o = VBI.cc.sub_packet[HC][hi];
    if (v < 0x18) V_ASSUME(sp_inv(&o));
    pair[1] = (uint8_t) ref_par8(v);                           /* constant at this call site */
    xds_separator(&VBI, pair);
    n = VBI.cc.sub_packet[HC][hi];
    sep_contract_hdr(c1, (int) v, o, n, VBI.cc.curr_sp == NULL, VBI.cc.curr_sp == &VBI.cc.sub_packet[HC][hi]);
    *phi = (int) hi;
    return 1;
  }
  return 0;
}
#endif

V_HARNESS(h_xdssep_step)
{
  uint8_t pair[2]; int c1, c2, cc = -1, ci = -1; unsigned i, c; int o_xds, o_cycle0, o_cycle1;
  V_INIT();
  /* VBI is a static object: zero initialised (a memset of the whole decoder costs minutes of symex) */
  in_bytes(&VBI.cc.sub_packet[0][0], sizeof VBI.cc.sub_packet);
  VBI.cc.curr_sp = NULL;
  { unsigned has = in_u8(), sc = in_u8(), si = in_u8();
    if (has & 1) { V_ASSUME(sc < 4 && si < 0x18); cc = (int) sc; ci = (int) si;
#ifdef CURC
      V_ASSUME(sc == CURC);
#endif
    } }
  pair[0] = (C1FIX < 0) ? (uint8_t) (ref_par8(-(C1FIX)) ^ 0x80) : (uint8_t) ref_par8(C1FIX); pair[1] = in_u8();
  c1 = ref_unpar(pair[0]); c2 = ref_unpar(pair[1]);
  V_ASSERT(c1 == C1V, "harness_first_byte");
  /* vbi_decode_caption only hands pairs to the separator whose first byte is 0x01..0x0F, or >= 0x20 while in XDS mode, or has a parity error */
  V_ASSUME(c1 < 0 || (c1 >= 1 && c1 <= 0x0F) || c1 >= 0x20);
  VBI.cc.xds = in_u8() & 1; VBI.cc.info_cycle[0] = in_u8(); VBI.cc.info_cycle[1] = in_u8();
  o_xds = VBI.cc.xds; o_cycle0 = VBI.cc.info_cycle[0]; o_cycle1 = VBI.cc.info_cycle[1];
  memset(&L_o, 0, sizeof L_o); memset(&L_n, 0, sizeof L_n);
  mx_held = 1;                                   /* vbi_decode_caption holds cc.mutex around the separator */

#if S_CUR
  { unsigned k = 0, sel = 0; (void) k; (void) sel;
#if S_IS_STORED_HDR     /* C2K == 2: the second byte has a parity error */
    sel = in_u8(); V_ASSUME(sel < N_C2_BAD);
#endif
    memcpy(OLDT, VBI.cc.sub_packet, sizeof OLDT);
#if S_IS_STORED_HDR
    for (k = 0; k < N_C2_BAD; k++) if (sel == k) { pair[1] = c2_bad[k]; c2 = -1;
#endif
      if (cc < 0) { xds_separator(&VBI, pair); L_none = (VBI.cc.curr_sp == NULL); L_this = 0; }
      else T96
      sep_contract_cur(cc >= 0, cc, ci, L_o, L_n, c1, c2, L_none, L_this);
      goto called;
#if S_IS_STORED_HDR
    }
#endif
  }
#else /* S_HDR */
  {
    V_ASSUME(c2 >= 0);
    VBI.cc.curr_sp = slot_ptr(cc, ci);                           /* symbolic, only overwritten on this path */
    if (cc >= 0) { xds_sub_packet o = slot_get(cc, ci); V_ASSUME(sp_inv(&o) && o.count >= 2); W_cur = 1; }
    memcpy(OLDT, VBI.cc.sub_packet, sizeof OLDT);
    if (sep_hdr_sites(c1, c2, pair, &ci)) { cc = HC; goto called; }
  }
#endif
  V_ASSERT(0, "harness_one_call_site_taken");
called:

  V_ASSERT(mx_held == 1, "sep_mutex_still_held");
  V_ASSERT(VBI.cc.xds == o_xds && VBI.cc.info_cycle[0] == o_cycle0 && VBI.cc.info_cycle[1] == o_cycle1, "sep_neighbour_members_untouched");
  /* frame: the interrupted packet stays as it was (resumable), no other slot is touched */
  for (c = 0; c < 4; c++)
    for (i = 0; i < 0x18; i++)
      if (!(T_set && (int) c == cc && (int) i == ci)) {
        xds_sub_packet a = VBI.cc.sub_packet[c][i], b = OLDT[c][i]; unsigned j; int same = 1;
        V_ASSERT(a.count == b.count && a.chksum == b.chksum, "sep_frame_count");
        for (j = 0; j < 32; j++) same &= (a.buffer[j] == b.buffer[j]);
        V_ASSERT(same, "sep_frame_bytes");
      }
  if (W_cur) V_REACH("cur");
  if (W_key) V_REACH("key");
  V_END();
}

/* ---- xds_decoder: one (class, type, length) per instance (all three on the grid: the decoder switches on class and type, the
 * length drives its copy loops), payload arbitrary, programme/network information arbitrary (strings NUL terminated as the decoder
 * leaves them).  Decided: memory safety incl. a frame written in the harness (R14: cbmc does not see an overflow from one member
 * of vbi_decoder into the next), exact result for the string fields (title, description lines, network name, call letters:
 * leading blanks skipped, control codes as blanks, NUL terminated) and the plain numeric fields (PIN, length/elapsed, CGMS-A,
 * tape delay), event discipline (only ASPECT/PROG_INFO/NETWORK/NETWORK_ID, PROG_INFO carries the class's record, sent with the
 * caption mutex released and re-taken). ---- */
#ifndef XCLS
#define XCLS 0
#endif
#ifndef XTYP
#define XTYP 3
#endif
#ifndef XLEN
#define XLEN 32
#endif
#if defined(C09_SMALL_CC) && !defined(C09_DECODER_STUB)
/* reference for xds_strfu: skip leading bytes <= 0x20, bytes < 0x20 become blanks, NUL terminated */
static unsigned ref_str(uint8_t *d, const uint8_t *s, unsigned len)
{ unsigned k = 0, n = 0; while (k < len && s[k] <= 0x20) k++; for (; k < len; k++) d[n++] = s[k] < 0x20 ? 0x20 : s[k]; d[n] = 0; return n; }
#define HEAD_SIZE (offsetof(vbi_decoder, vt))
#define IN_MEMBER(off, m) ((off) >= offsetof(vbi_decoder, m) && (off) < offsetof(vbi_decoder, m) + sizeof VBI.m)

/* every byte of the decoder head (all members in front of the Teletext/caption state) outside the write-set of this class/type is unchanged */
static uint8_t head0[HEAD_SIZE], head1[HEAD_SIZE];
static void frame_head(void)
{
  unsigned i;
  for (i = 0; i < HEAD_SIZE; i++) {
    int may = 0;
    if (XCLS <= 1) { may = (i >= offsetof(vbi_decoder, prog_info) + (XCLS & 1) * sizeof (vbi_program_info) && i < offsetof(vbi_decoder, prog_info) + ((XCLS & 1) + 1) * sizeof (vbi_program_info));
      /* aspect ratio packet: the current programme's one also sets aspect_source; a packet of the FUTURE class leaves the current programme's
         record and aspect_source alone (defect of the pinned tree, repaired: it was stored into prog_info[0].aspect and announced) */
      if (XTYP == 9 && XCLS == 0) may = may || IN_MEMBER(i, aspect_source);
    }
    if (XCLS == 2) may = IN_MEMBER(i, network);
    if (!may) V_ASSERT(head0[i] == head1[i], "dec_frame_decoder_head");
  }
}

V_HARNESS(h_xdsdec)
{
  uint8_t buf[33], want[34], lsel[12]; unsigned i, nwant;
  static vbi_program_info pi0; static vbi_network n0; static cc_channel ch0[9], ch1[9]; int o_cyc[2];
  vbi_program_info *pi = &VBI.prog_info[XCLS & 1]; vbi_network *n = &VBI.network.ev.network;
  V_INIT();
  /* VBI is a static object: zero initialised */
  VBI.event_mask = VBI_EVENT_ASPECT | VBI_EVENT_PROG_INFO | VBI_EVENT_NETWORK | VBI_EVENT_NETWORK_ID;
  in_bytes(buf, 33); for (i = 0; i < 33; i++) buf[i] &= 0x7F;            /* the separator stores parity-stripped bytes */
  /* arbitrary programme information of both classes, arbitrary network record */
  in_bytes(&VBI.prog_info[0], sizeof VBI.prog_info[0]); in_bytes(&VBI.prog_info[1], sizeof VBI.prog_info[1]);
  in_bytes(n, sizeof *n);
  in_bytes(lsel, 12);
  for (i = 0; i < 2; i++) { unsigned k;
    VBI.prog_info[i].future = i;                                              /* set by vbi_init / event activation, never changed */
    for (k = 0; k < 2; k++) VBI.prog_info[i].audio[k].language = NULL;
    for (k = 0; k < 8; k++) VBI.prog_info[i].caption_language[k] = NULL; }
  /* language pointers: NULL or one of the decoder's own strings */
  for (i = 0; i < 2; i++) if (lsel[i] & 8) pi->audio[i].language = (unsigned char *) language[lsel[i] & 7];
  for (i = 0; i < 8; i++) if (lsel[2 + i] & 8) pi->caption_language[i] = (unsigned char *) language[lsel[2 + i] & 7];
  /* strings are NUL terminated (the decoder only ever stores them through xds_strfu / vbi.c strlcpy) */
  V_ASSUME(n->call[39] == 0);
  VBI.cc.info_cycle[0] = (int) in_u32(); VBI.cc.info_cycle[1] = (int) in_u32();
  o_cyc[0] = VBI.cc.info_cycle[0]; o_cyc[1] = VBI.cc.info_cycle[1];
  pi0 = *pi; n0 = *n;
  memcpy(head0, &VBI, HEAD_SIZE);
  for (i = 0; i < 9; i++) ch0[i] = VBI.cc.channel[i];
  mx_held = 1;

  xds_decoder(&VBI, XCLS, XTYP, buf, XLEN);

  V_ASSERT(mx_held == 1, "dec_mutex_still_held");
  memcpy(head1, &VBI, HEAD_SIZE);
  for (i = 0; i < 9; i++) ch1[i] = VBI.cc.channel[i];
  /* ---- frame ---- */
  frame_head();
  for (i = 0; i < 9; i++) {
    V_ASSERT(ch0[i].mode == ch1[i].mode && ch0[i].col == ch1[i].col && ch0[i].col1 == ch1[i].col1 && ch0[i].row == ch1[i].row && ch0[i].row1 == ch1[i].row1
             && ch0[i].roll == ch1[i].roll && ch0[i].nul_ct == ch1[i].nul_ct && ch0[i].line == ch1[i].line && ch0[i].hidden == ch1[i].hidden, "dec_frame_channels");
    if (!(XCLS == 0 && XTYP == 7 && i < 8)) V_ASSERT(ch0[i].language == ch1[i].language, "dec_frame_channel_language");
  }
  V_ASSERT(VBI.cc.curr_sp == NULL && VBI.cc.xds == 0 && VBI.cc.itv_count == 0, "dec_frame_caption_members");
  if (XCLS <= 1) V_ASSERT(VBI.cc.info_cycle[1 - (XCLS & 1)] == o_cyc[1 - (XCLS & 1)], "dec_frame_other_info_cycle");
  else V_ASSERT(VBI.cc.info_cycle[0] == o_cyc[0] && VBI.cc.info_cycle[1] == o_cyc[1], "dec_frame_info_cycle");
  /* ---- events ---- */
  V_ASSERT(EVN <= 3, "dec_event_count");
  for (i = 0; i < EVMAX; i++) if (i < EVN) {
    if (XCLS <= 1) { V_ASSERT(EVT[i] == VBI_EVENT_ASPECT || EVT[i] == VBI_EVENT_PROG_INFO, "dec_event_kind_program");
      if (EVT[i] == VBI_EVENT_PROG_INFO) V_ASSERT(EVPI[i] == (const void *) pi, "dec_prog_info_event_carries_class_record"); }
    else if (XCLS == 2) V_ASSERT(XTYP == 1 && (EVT[i] == VBI_EVENT_NETWORK || EVT[i] == VBI_EVENT_NETWORK_ID), "dec_event_kind_network");
    else V_ASSERT(0, "dec_no_event_for_misc");
  }
  if (!(XCLS == 2 && XTYP == 1)) V_ASSERT(CHSW_N == 0, "dec_no_channel_switch");
  V_ASSERT(pi->future == (XCLS & 1), "dec_future_flag_kept");
  /* ---- content ---- */
  nwant = ref_str(want, buf, XLEN);
  if (XCLS <= 1 && XTYP == 3 && XLEN >= 2) {
    for (i = 0; i <= 32; i++) if (i <= nwant) V_ASSERT((uint8_t) pi->title[i] == want[i], "xds_title_bytes");
    V_REACH("string");
  }
  if (XCLS <= 1 && XTYP >= 0x10 && XTYP <= 0x17) {
    unsigned l;
    for (i = 0; i <= 32; i++) if (i <= nwant) V_ASSERT((uint8_t) pi->description[XTYP & 7][i] == want[i], "xds_description_bytes");
    for (l = 0; l < 8; l++) if (l != (XTYP & 7)) for (i = 0; i < 33; i++) V_ASSERT(pi->description[l][i] == pi0.description[l][i], "xds_other_description_lines_kept");
    V_REACH("string");
  }
  /* ---- "announced after the documented repeat": new data is remembered as seen once (never absorbed silently), the second identical
     occurrence raises PROG_INFO.  `changed` is decided on the strings themselves (old record vs. the reference decode of the packet) ---- */
  if (XCLS <= 1 && ((XTYP == 3 && XLEN >= 2) || (XTYP >= 0x10 && XTYP <= 0x17))) {
    const signed char *old = (XTYP == 3) ? pi0.title : pi0.description[XTYP & 7];
    int changed = 0, seen_before = (o_cyc[XCLS & 1] >> XTYP) & 1, prog_ev = 0;
    for (i = 0; i < 33; i++) { if (i < nwant && (uint8_t) old[i] != want[i]) changed = 1; if (i == nwant && old[i] != 0) changed = 1; }
    for (i = 0; i < EVMAX; i++) if (i < EVN && EVT[i] == VBI_EVENT_PROG_INFO) prog_ev = 1;
    if (changed) {
      V_ASSERT((VBI.cc.info_cycle[XCLS & 1] >> XTYP) & 1, "xds_changed_text_is_remembered_for_announcement");
      V_ASSERT(!prog_ev, "xds_changed_text_not_announced_at_first_occurrence");
      V_REACH("changed");
    } else if (XTYP != 3) {
      if (seen_before) { V_ASSERT(prog_ev && VBI.cc.info_cycle[XCLS & 1] == 0, "xds_second_identical_occurrence_is_announced"); V_REACH("announced"); }
      else V_ASSERT(!prog_ev, "xds_unchanged_text_not_announced_again");
    }
  }
  if (XCLS <= 1 && XTYP == 1 && XLEN == 4) {
    int month = buf[3] & 15, day = buf[2] & 31, hour = buf[1] & 31, min = buf[0] & 63;
    if (month >= 1 && month <= 12 && day >= 1 && hour <= 23 && min <= 59) {
      V_ASSERT(pi->month == month - 1 && pi->day == day - 1 && pi->hour == hour && pi->min == min && pi->tape_delayed == !!(buf[3] & 0x10), "xds_pin_fields");
      V_REACH("pin");
    } else V_ASSERT(pi->month == pi0.month && pi->day == pi0.day && pi->hour == pi0.hour && pi->min == pi0.min, "xds_invalid_pin_ignored");
  }
  if (XCLS <= 1 && XTYP == 2 && XLEN >= 2 && XLEN <= 6) {
    int lmin = buf[0] & 63, lhour = buf[1] & 63, emin = XLEN >= 3 ? (buf[2] & 63) : -1, ehour = XLEN >= 3 ? (buf[3] & 63) : -1, esec = XLEN >= 5 ? (buf[4] & 63) : 0;
    if (lmin <= 59 && emin <= 59 && esec <= 59) {
      V_ASSERT(pi->length_hour == lhour && pi->length_min == lmin && pi->elapsed_hour == ehour && pi->elapsed_min == emin && pi->elapsed_sec == esec, "xds_length_fields");
      V_REACH("length");
    } else V_ASSERT(pi->length_hour == pi0.length_hour && pi->length_min == pi0.length_min && pi->elapsed_min == pi0.elapsed_min, "xds_invalid_length_ignored");
  }
  if (XCLS <= 1 && XTYP == 8 && XLEN == 1) V_ASSERT(pi->cgms_a == (buf[0] & 63), "xds_cgms");
  if (XCLS <= 1 && XTYP == 4) {
    for (i = 0; i < 33; i++) { if (i < XLEN) V_ASSERT(pi->type_id[i] == buf[i], "xds_type_ids"); if (i == XLEN) V_ASSERT(pi->type_id[i] == 0, "xds_type_ids_terminated"); }
    V_ASSERT(pi->type_classf == VBI_PROG_CLASSF_EIA_608, "xds_type_classf");
  }
  if (XCLS <= 1 && XTYP != 3) for (i = 0; i < 64; i++) V_ASSERT(pi->title[i] == pi0.title[i] || (XTYP == 1 && XLEN == 4), "xds_title_kept_by_other_types");
  if (XCLS == 2 && XTYP == 1) {
    for (i = 0; i <= 32; i++) if (i <= nwant) V_ASSERT((uint8_t) n->name[i] == want[i], "xds_network_name_bytes");
    for (i = 0; i < 40; i++) V_ASSERT(n->call[i] == n0.call[i], "xds_call_kept_by_name");
    V_REACH("string");
  }
  if (XCLS == 2 && XTYP == 2) {
    for (i = 0; i <= 32; i++) if (i <= nwant) V_ASSERT((uint8_t) n->call[i] == want[i], "xds_call_letters_bytes");
    V_REACH("string");
  }
  if (XCLS == 2 && XTYP == 3 && XLEN == 2) V_ASSERT(n->tape_delay == (buf[1] & 31) * 60 + (buf[0] & 63), "xds_tape_delay");
  if (XCLS == 2 && XTYP != 1 && XTYP != 2) { for (i = 0; i < 64; i++) V_ASSERT(n->name[i] == n0.name[i], "xds_name_kept"); for (i = 0; i < 40; i++) V_ASSERT(n->call[i] == n0.call[i], "xds_call_kept"); }
  V_END();
}
#endif
