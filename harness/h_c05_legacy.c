/* C05 layer 1, legacy interface: vbi_bit_slicer_init() / vbi_bit_slice() (src/decoder.c, public in libzvbi.h)
 * on one line with arbitrary content in exact-size objects.  Real unit: src/decoder.c (included).
 * -DKNOWN_SLICER_OVERREAD: the line object gets SLACK extra bytes = the over-read the closed form predicts
 * (asserted tight); without it the property as written (refuted on the current tree). */
#include "verif.h"
#include "src/decoder.c"

#ifndef FMT
#define FMT VBI_PIXFMT_YUV420
#endif
#ifndef BPS
#define BPS 1
#endif
#ifndef RATE
#define RATE 2500
#endif
#ifndef SPL
#define SPL 40
#endif
#ifndef CRI_RATE
#define CRI_RATE 1000
#endif
#ifndef PAY_RATE
#define PAY_RATE 1000
#endif
#ifndef CRI_BITS
#define CRI_BITS 4
#endif
#ifndef FRC_BITS
#define FRC_BITS 2
#endif
#ifndef PAY_BITS
#define PAY_BITS 8
#endif
#ifndef MOD
#define MOD VBI_MODULATION_NRZ_LSB
#endif
#ifndef SLACK
#define SLACK 0
#endif
#ifndef KNOWN_SLICER_OVERREAD
#undef SLACK
#define SLACK 0
#endif
#ifndef SHORT
#define SHORT 0
#endif

#define RAW_BYTES (SPL * BPS + SLACK - SHORT)
#define OUT_BYTES ((PAY_BITS + 7) / 8)
static _Alignas(8) uint8_t RAW[RAW_BYTES];
static uint8_t OUT[OUT_BYTES];
static vbi_bit_slicer LS;

/* closed form (independent reading of bit_slicer_tmpl/sample): search positions p = 0..cri_bytes-1 in pixels after
 * skip bytes; 8-bit family reads raw[0], raw[bpp] of pixel p resp. p + (offs >> 8); 16-bit family reads 4 bytes */
static long c05_legacy_last_byte(const vbi_bit_slicer *d, unsigned nbits, int is16)
{
  unsigned long imax = (unsigned long) d->phase_shift + (unsigned long) (nbits - 1) * (unsigned) d->step;
  long far = (nbits == 0) ? 0 : (long) (imax >> 8);
  long pmax = (long) d->cri_bytes - 1;
  if (is16) return (pmax + far) * 2 + 3;
  return d->skip + (pmax + far + 1) * BPS;
}

V_HARNESS(h_legacy_exact)
{
  unsigned cri_frc, cri_mask, i, nbits;
  uint8_t out0[OUT_BYTES];
  vbi_bool r;
  long last;
  int is16;
  V_INIT();
  in_bytes(RAW, RAW_BYTES);
  in_bytes(OUT, OUT_BYTES);
  cri_frc = in_u32(); cri_mask = in_u32();
  for (i = 0; i < OUT_BYTES; i++) out0[i] = OUT[i];
  memset(&LS, 0, sizeof LS);
  vbi_bit_slicer_init(&LS, SPL, RATE, CRI_RATE, PAY_RATE, cri_frc, cri_mask, CRI_BITS, FRC_BITS, PAY_BITS, MOD, FMT);
  V_ASSERT(LS.cri_bytes > 0, "grid_point_has_a_search_window");
  is16 = (LS.func != bit_slicer_1 && LS.func != bit_slicer_2 && LS.func != bit_slicer_3 && LS.func != bit_slicer_4);
  nbits = (unsigned) LS.frc_bits + ((LS.endian & 2) ? (unsigned) LS.payload : (unsigned) LS.payload * 8);
  last = c05_legacy_last_byte(&LS, nbits, is16);
#if SLACK > 0
  V_ASSERT(last == (long) SPL * BPS + SLACK - 1, "known_overread_is_exactly_SLACK_bytes");
#else
  V_ASSERT(last < (long) SPL * BPS, "closed_form_last_byte_inside_line");
#endif
  r = vbi_bit_slice(&LS, RAW, OUT);
  if (r) V_REACH("sliced");
  else {
    for (i = 0; i < OUT_BYTES; i++) V_ASSERT(OUT[i] == out0[i], "buffer_unmodified_on_failure");
    V_REACH("no_signal");
  }
  V_END();
}
