/* C15 part 1 - IDL format A demultiplexer (src/idl_demux.c, stand-alone).
 * Real unit: src/idl_demux.c (included), src/hamm.c (linked: _vbi_hamm8_inv).
 *
 * Reference SENDER, written from EN 300 708 section 6.5 as the library's own comments describe it:
 *   byte 0,1  data channel / designation (packet 30/31 -> second nibble 15), Hamming 8/4
 *   byte 2    format type FT, Hamming 8/4: bit0 = 0 (format A), bit1 RI present, bit2 CI present, bit3 DL present
 *   byte 3    IAL, Hamming 8/4: bits 0-2 number of SPA nibbles (0..6), bit3 "dependent" interpretation
 *   SPA       0..6 Hamming 8/4 nibbles, least significant first
 *   [RI]      repeat indicator (not covered by the check word)
 *   [CI]      continuity indicator, 8 bit counter (implicit in the check word if absent)
 *   [DL]      number of user data bytes that follow (dummy bytes counted), 6 bits
 *   user data with a dummy byte (0xAA) after every 8 consecutive equal bytes 0x00 or 0xFF, the run
 *             starting with a transmitted CI; fill bytes up to the check word when DL is short
 *   byte 40,41 check word, generator x^16+x^9+x^7+x^4+1, computed bit serially (models/c15_ref.h)
 * Layout selecting parameters (FT, SPALEN) are enumerated on the grid, everything else is symbolic. */
#include "verif.h"
#include "ref_codes.h"
#include "c15_ref.h"
#include "src/idl_demux.c"

#ifndef FT
#define FT 4
#endif
#ifndef SPALEN
#define SPALEN 1
#endif
#ifndef NPK
#define NPK 2
#endif
#ifndef MAXWANT
#define MAXWANT 36	/* with DL: upper bound of the user bytes offered per packet */
#endif
#ifndef DEP
#define DEP 0		/* IAL bit 3 "dependent": concrete, it is part of the byte the demux derives the layout from */
#endif

#define H_RI (((FT) >> 1) & 1)
#define H_CI (((FT) >> 2) & 1)
#define H_DL (((FT) >> 3) & 1)
#define OFF_RI (4 + (SPALEN))
#define OFF_CRC0 (OFF_RI + H_RI)		/* first byte covered by the check word */
#define OFF_CI OFF_CRC0
#define OFF_DL (OFF_CRC0 + H_CI)
#define OFF_DATA (OFF_DL + H_DL)
#define ROOM (40 - OFF_DATA)
#ifndef UNREL_DESIGNATION
#define UNREL_DESIGNATION 13	/* 15: format B packet (UNREL_FT odd) on our channel */
#endif
#ifndef UNREL_FT
#define UNREL_FT 5
#endif
#define ADDRMASK ((SPALEN) >= 6 ? 0xFFFFFFu : ((1u << (4 * (SPALEN))) - 1u))

/* ---- callback log ---------------------------------------------------- */
#define LOGMAX 4
static struct { unsigned n, flags; uint8_t d[36]; } cb_log[LOGMAX];
static unsigned cb_n;
static vbi_idl_demux DX;		/* exact size object */

static vbi_bool idl_cb(vbi_idl_demux *dx, const uint8_t *buffer, unsigned int n_bytes, unsigned int flags, void *ud)
{
  unsigned i;
  V_ASSERT(dx == &DX && ud == (void *) &cb_n, "idl_cb_args");
  V_ASSERT(n_bytes <= 36, "idl_cb_size");
  if (cb_n < LOGMAX) {
    cb_log[cb_n].n = n_bytes; cb_log[cb_n].flags = flags;
    for (i = 0; i < 36; i++) cb_log[cb_n].d[i] = (i < n_bytes) ? buffer[i] : 0;
  }
  cb_n++;
  return TRUE;
}

/* ---- reference sender ------------------------------------------------- */
/* returns the number of user bytes carried.  want: user bytes offered (with DL: at most that many are sent;
   without DL the packet is filled, want must be >= ROOM) */
static unsigned idl_a_send(uint8_t pk[42], unsigned ch, unsigned dep, unsigned addr, unsigned ri, unsigned ci,
			   const uint8_t user[36], unsigned want, const uint8_t fill[36])
{
  unsigned w, u = 0, cnt, prev, pend = 0, dlv = 0, reg = 0, j, B, T;
  pk[0] = ref_ham8(ch); pk[1] = ref_ham8(15); pk[2] = ref_ham8(FT); pk[3] = ref_ham8((SPALEN) | (dep ? 8 : 0));
  for (j = 0; j < (SPALEN); j++) pk[4 + j] = ref_ham8((addr >> (4 * j)) & 15);
  if (H_RI) pk[OFF_RI] = ri;
  if (H_CI) pk[OFF_CI] = ci;
  prev = H_CI ? ci : 0x100;			/* a run can start with a transmitted CI only */
  cnt = (H_CI && (ci == 0x00 || ci == 0xFF)) ? 1 : 0;
  for (w = 0; w < ROOM; w++) {
    uint8_t o;
    if (pend) { o = 0xAA; pend = 0; prev = 0xAA; cnt = 0; dlv = w + 1; }
    else if (u < want) {
      o = user[u]; u++;
      if ((o == 0x00 || o == 0xFF) && o == prev) cnt++;
      else { prev = o; cnt = (o == 0x00 || o == 0xFF) ? 1 : 0; }
      if (cnt == 8) { pend = 1; cnt = 0; }
      dlv = w + 1;
    } else o = fill[w];
    pk[OFF_DATA + w] = o;
  }
  if (H_DL) pk[OFF_DL] = dlv;
  for (j = OFF_CRC0; j < 40; j++) reg = c15_crc_byte(reg, pk[j]);
  T = H_CI ? 0 : ci * 0x0101u;
  B = c15_checkword(reg, T);
  pk[40] = B & 0xFF; pk[41] = B >> 8;			/* bit 0 of the check word is transmitted first */
  return u;
}

/* Receiver side of the check word, bit serial: register after all 42 bytes. */
static unsigned idl_a_residue(const uint8_t pk[42])
{
  unsigned reg = 0, j;
  for (j = OFF_CRC0; j < 42; j++) reg = c15_crc_byte(reg, pk[j]);
  return reg;
}
/* CRC abstraction (CBMC build only, compositional step).
 * The demux computes  crc' = (crc >> 8) ^ idl_a_crc_table[(crc & 0xFF) ^ byte]  from 0 over bytes OFF_CRC0..41 and
 * then only looks at "crc == 0" (explicit CI) resp. "both bytes of crc equal, value = CI" (implicit CI).
 * Obligation idl_crc_step shows, with the table the real init function built, that one such step equals 8 steps
 * of the bit serial reference for EVERY register value and byte; by induction the demux' crc is the reference
 * residue of the packet.  256-way table lookups at ~40 data dependent indices per packet are what made every
 * end-to-end query with the real table run out of the time cap (measured, see report), so here the table is
 * replaced, per packet, by a constant table K that makes the recurrence end in the same class as the reference
 * residue `res`:  ok, explicit: K = 0 -> crc 0;  ok, implicit CI v: K = v << 8 -> crc = v * 0x0101;
 * not ok: K = 1 -> crc = 1 (non-zero, bytes differ).  The native replay build keeps the REAL table, so every
 * counterexample is re-validated against the unabstracted code. */
static vbi_bool idl_feed(const uint8_t pk[42], int ok, unsigned res)
{
#if defined(VERIF_CBMC) && !defined(REAL_CRC_TABLE)
  unsigned K = ok ? ((res & 0xFF) << 8) : 1, x;
  for (x = 0; x < 256; x++) idl_a_crc_table[x] = (uint16_t) K;
#else
  (void) ok; (void) res;
#endif
  return vbi_idl_demux_feed(&DX, pk);
}
#define RES_OK(res) (H_CI ? ((res) == 0) : (((res) >> 8) == ((res) & 0xFF)))

/* first 7 user bytes equal v and an 8th byte follows */
static int starts_with_7(const uint8_t user[36], unsigned n, unsigned v)
{
  unsigned i; int all = 1;
  for (i = 0; i < 7; i++) if (user[i] != v) all = 0;
  return all && n >= 8;
}

struct slot_in { unsigned kind, ch, a, dep, ri, ci, want; uint8_t user[36], fill[36], raw[42]; };
static void read_slot(struct slot_in *s)
{
  s->kind = in_u8() & 1; s->ch = in_u8() & 15; s->a = in_u32() & ADDRMASK; s->dep = (in_u8(), DEP);
  s->ri = in_u8(); s->ci = in_u8(); s->want = in_u8();
  in_bytes(s->user, 36); in_bytes(s->fill, 36); in_bytes(s->raw, 42);
}
/* assumptions that keep the sender inside the claim */
static void slot_claim(const struct slot_in *s, unsigned n)
{
  /* reading dependent corner, outside the claim: with CI and DL both transmitted the DL byte sits between CI and
     the user data; whether a 0x00/0xFF run continues across it is not settled by the library's comments */
  if (H_CI && H_DL && (s->ci == 0x00 || s->ci == 0xFF) && n >= 1) V_ASSUME(s->user[0] != s->ci);
#ifdef KNOWN_IDL_IMPLICIT_CI_RUN
  /* defect (obligation idl_a_implicit_ci_run): the demux starts the run with the untransmitted implicit CI */
  if (!H_CI && (s->ci == 0x00 || s->ci == 0xFF)) V_ASSUME(!starts_with_7(s->user, n, s->ci));
#endif
}

/* payload that keeps the data path cheap (that path is idl_a_seq1's subject): concrete except the first byte */
static void light_payload(struct slot_in *s)
{
  unsigned i; uint8_t first = s->user[0];
  V_ASSUME(first != 0x00 && first != 0xFF);
  for (i = 0; i < 36; i++) { s->user[i] = (uint8_t) (0x41 + i); s->fill[i] = 0x55; }
  s->user[0] = first;
  s->want = H_DL ? 5 : 36;
}

struct expect { unsigned n, flags; uint8_t d[36]; };
static struct expect E[LOGMAX]; static unsigned exp_n;

static void expect_delivery(const uint8_t user[36], unsigned n, unsigned flags)
{
  unsigned i;
  if (exp_n < LOGMAX) { E[exp_n].n = n; E[exp_n].flags = flags; for (i = 0; i < 36; i++) E[exp_n].d[i] = user[i]; }
  exp_n++;
}
static void compare_log(void)
{
  unsigned k, i;
  V_ASSERT(cb_n == exp_n, "idl_delivery_count");
  for (k = 0; k < LOGMAX; k++) if (k < exp_n && k < cb_n) {
    V_ASSERT(cb_log[k].n == E[k].n, "idl_delivered_length");
    for (i = 0; i < 36; i++) if (i < E[k].n) V_ASSERT(cb_log[k].d[i] == E[k].d[i], "idl_delivered_bytes");
#ifndef KNOWN_IDL_FLAGS
    V_ASSERT(cb_log[k].flags == E[k].flags, "idl_flags_argument");
#else
    V_ASSERT((cb_log[k].flags & ~(unsigned) (VBI_IDL_DATA_LOST | VBI_IDL_DEPENDENT)) == 0, "idl_flags_known_bits_only");
#endif
  }
}

/* ---- 1. SEQ with the reference sender ----------------------------------
 * NPK slots.  Each slot: an IDL-A packet of the grid's layout for a symbolic channel/address (ours or not),
 * optionally preceded by an unrelated Teletext packet.  CI values are symbolic per packet (a value that is not the
 * successor of the previous delivered one IS a continuity gap = dropped packets).  One optional fault in one slot: a symbolic
 * non-zero XOR mask on one symbolic byte of the check word protected part such that the (bit serial) check fails. */
V_HARNESS(h_idl_a_seq)
{
  unsigned chan, addr, k, i; int m_ci = -1, m_lost = 0;
  unsigned f_slot, f_pos, f_mask;
  static struct slot_in S; uint8_t pk[42]; vbi_bool r;
  V_INIT();
  chan = in_u8() & 15; addr = in_u32() & 0xFFFFFF;
  r = _vbi_idl_demux_init(&DX, _VBI_IDL_FORMAT_A, chan, addr, idl_cb, &cb_n);
  V_ASSERT(r, "idl_init_ok");
  f_slot = in_u8(); f_pos = in_u8(); f_mask = in_u8();
  for (k = 0; k < NPK; k++) {
    unsigned n = 0, res; int faulty = (f_slot == k && f_mask != 0), match, ok = 1;
    read_slot(&S);
    if (H_RI) V_ASSUME(S.ri == 0x00);			/* first and only transmission; repeats: h_idl_a_repeat */
    if (!H_DL) S.want = 36;
    V_ASSUME(S.want <= MAXWANT);
    match = (S.ch == chan && S.a == addr);
    /* unrelated traffic first (optional): a Teletext packet that is not packet 30/31 on any magazine, or an IDL
       format B packet on our channel; addressing bytes concrete (CBMC rule: first dispatch byte), rest arbitrary */
    if (S.kind & 1) {
      for (i = 0; i < 42; i++) pk[i] = S.raw[i];
      pk[1] = ref_ham8(UNREL_DESIGNATION);
      if (UNREL_DESIGNATION == 15) { pk[0] = ref_ham8(chan); pk[2] = ref_ham8(UNREL_FT); }
      r = vbi_idl_demux_feed(&DX, pk);		/* returns before the check word is looked at */
      V_ASSERT(r || UNREL_DESIGNATION != 15, "idl_unrelated_ignored");
      V_ASSERT(cb_n == exp_n, "idl_unrelated_not_delivered");
    }
    n = idl_a_send(pk, S.ch, S.dep, S.a, S.ri, S.ci, S.user, S.want, S.fill);
    slot_claim(&S, n);
    if (faulty) {
      V_ASSUME(f_pos >= OFF_CRC0 && f_pos < 42);
      for (i = OFF_CRC0; i < 42; i++) if (i == f_pos) pk[i] ^= (uint8_t) f_mask;	/* header bytes stay concrete */
    }
    res = idl_a_residue(pk); ok = RES_OK(res);
    if (faulty) V_ASSUME(!ok); else V_ASSERT(ok, "ref_sender_receiver_agree");

    r = idl_feed(pk, ok, res);

    if (!match) {
      V_ASSERT(r, "idl_other_address_ignored");
    } else if (faulty) {
      V_ASSERT(!r, "idl_crc_failure_returns_false");
      m_ci = -1; m_lost = 1;
      V_REACH("crcfail");
    } else {
      unsigned fl = ((m_lost || (m_ci >= 0 && m_ci != (int) S.ci)) ? VBI_IDL_DATA_LOST : 0) | (S.dep ? VBI_IDL_DEPENDENT : 0);
      V_ASSERT(r, "idl_good_packet_returns_true");
      expect_delivery(S.user, n, fl);
      m_lost = 0; m_ci = (int) ((S.ci + 1) & 0xFF);
    }
    V_ASSERT(cb_n == exp_n, "idl_delivered_iff_ours_and_intact");
  }
  compare_log();
  if (exp_n == NPK) V_REACH("all");
  V_END();
}

/* ---- 2. the library's CRC table against the bit serial reference, all 256 entries ------------ */
V_HARNESS(h_idl_crc_table)
{
  unsigned i, chan, addr; vbi_bool r;
  V_INIT();
  chan = in_u8() & 15; addr = in_u32() & 0xFFFFFF;
  r = _vbi_idl_demux_init(&DX, _VBI_IDL_FORMAT_A, chan, addr, idl_cb, &cb_n);
  V_ASSERT(r, "idl_init_ok");
  for (i = 0; i < 256; i++)
    V_ASSERT(idl_a_crc_table[i] == c15_crc_byte(0, i), "idl_crc_table_entry");
  V_ASSERT(idl_a_crc_table[1] != 0, "idl_crc_table_init_guard");	/* _vbi_idl_demux_init uses entry 1 as "initialised" mark */
  V_ASSERT(DX.ci < 0 && DX.ri < 0 && DX.channel == (int) chan && DX.address == (int) addr, "idl_init_state");
  V_END();
}

/* ---- 2b. one step of the table driven recurrence == 8 bit serial steps, for every register value and byte ---- */
V_HARNESS(h_idl_crc_step)
{
  unsigned c, b, lib, ref; vbi_bool r;
  V_INIT();
  r = _vbi_idl_demux_init(&DX, _VBI_IDL_FORMAT_A, 0, 0, idl_cb, &cb_n);
  V_ASSERT(r, "idl_init_ok");
  c = in_u16(); b = in_u8();
  lib = (c >> 8) ^ idl_a_crc_table[(c & 0xFF) ^ b];		/* the expression of idl_a_demux_feed(), line 116 */
  ref = c15_crc_byte(c, b);
  V_ASSERT(lib == ref, "idl_crc_table_step_equals_bit_serial");
  V_END();
}

/* ---- 3. first delivery after construction on dirty memory (vbi_idl_a_demux_new uses malloc) ---- */
V_HARNESS(h_idl_a_first_flags)
{
  unsigned chan, addr, n, res; static struct slot_in S; uint8_t pk[42]; vbi_bool r;
  V_INIT();
  in_bytes(&DX, sizeof DX);					/* what malloc() returned */
  chan = in_u8() & 15; addr = in_u32() & ADDRMASK;
  r = _vbi_idl_demux_init(&DX, _VBI_IDL_FORMAT_A, chan, addr, idl_cb, &cb_n);
  V_ASSERT(r, "idl_init_ok");
  read_slot(&S);
  if (H_RI) V_ASSUME(S.ri == 0x00);
  if (!H_DL) S.want = 36;
  V_ASSUME(S.want <= MAXWANT);
  n = idl_a_send(pk, chan, S.dep, addr, S.ri, S.ci, S.user, S.want, S.fill);
  slot_claim(&S, n);
  res = idl_a_residue(pk);
  V_ASSERT(RES_OK(res), "ref_sender_receiver_agree");
  r = idl_feed(pk, 1, res);
  V_ASSERT(r && cb_n == 1, "idl_first_packet_delivered");
  /* nothing can have been lost before the first packet; only documented flag bits */
  V_ASSERT((cb_log[0].flags & ~(unsigned) (VBI_IDL_DATA_LOST | VBI_IDL_DEPENDENT)) == 0, "idl_first_flags_documented_bits_only");
  V_ASSERT(!(cb_log[0].flags & VBI_IDL_DATA_LOST), "idl_first_flags_no_data_lost");
  V_END();
}

/* ---- 4. Hamming 8/4 protected header bytes ------------------------------------------------------
 * One clean packet for our channel/address; every header byte position in turn (concrete loop) is replaced:
 *   channel, designation, SPA nibbles: by a symbolic value that is either within distance 1 of the sent code word
 *     (must be corrected: same delivery) or not decodable (must be refused: FALSE, nothing delivered, state untouched);
 *   FT and IAL (the demux derives the packet layout from them: concrete, CBMC rule 2): by the code word with bit HBIT
 *     flipped (corrected) and with bits HBIT and HBIT+3 flipped (refused). */
#ifndef HBIT
#define HBIT 2
#endif
static unsigned ham_n; static uint8_t ham_first;
static void ham_try(const uint8_t pk[42], unsigned res, unsigned p, uint8_t v)
{
  uint8_t pk2[42]; unsigned i, before = cb_n; int d = ref_unham8(v), o_ci, o_ri; unsigned o_fl; vbi_bool r;
  vbi_idl_demux_reset(&DX); DX.flags = 0;			/* fresh demux for every try */
  o_ci = DX.ci; o_ri = DX.ri; o_fl = DX.flags;
  for (i = 0; i < 42; i++) pk2[i] = pk[i];
  pk2[p] = v;
  r = idl_feed(pk2, 1, res);
  if (d < 0) {
    V_ASSERT(!r, "idl_uncorrectable_returns_false");
    V_ASSERT(cb_n == before, "idl_uncorrectable_not_delivered");
    V_ASSERT(DX.ci == o_ci && DX.ri == o_ri && DX.flags == o_fl, "idl_uncorrectable_state_untouched");
  } else {
    V_ASSERT(r && cb_n == before + 1, "idl_corrected_delivered");
    if (cb_n >= 1 && cb_n <= LOGMAX) {
      V_ASSERT(cb_log[cb_n - 1].n == ham_n, "idl_delivered_length");
      V_ASSERT(cb_log[cb_n - 1].d[0] == ham_first && cb_log[cb_n - 1].d[1] == 0x42, "idl_delivered_bytes");
    }
    cb_n = 0;							/* keep the log slot free */
  }
}
V_HARNESS(h_idl_a_hamming)
{
  unsigned chan, addr, p, res; static struct slot_in S; uint8_t pk[42]; vbi_bool r; int refused = 0, corrected = 0;
  V_INIT();
  chan = in_u8() & 15; addr = in_u32() & ADDRMASK;
  r = _vbi_idl_demux_init(&DX, _VBI_IDL_FORMAT_A, chan, addr, idl_cb, &cb_n);
  V_ASSERT(r, "idl_init_ok");
  read_slot(&S); light_payload(&S);
  ham_n = idl_a_send(pk, chan, S.dep, addr, 0x00, S.ci, S.user, S.want, S.fill); ham_first = S.user[0];
  res = idl_a_residue(pk);
  V_ASSERT(RES_OK(res), "ref_sender_receiver_agree");
  for (p = 0; p < 4 + (SPALEN); p++) {
    uint8_t v = in_u8();
    if (p == 2 || p == 3) {
      uint8_t v1 = pk[p] ^ (uint8_t) (1u << (HBIT)), v2 = v1 ^ (uint8_t) (1u << (((HBIT) + 3) & 7));
      ham_try(pk, res, p, v1); ham_try(pk, res, p, v2);
    } else {
      int d = ref_unham8(v), d0 = ref_unham8(pk[p]);
      V_ASSUME(d < 0 || d == d0);
      if (d < 0) refused = 1; else corrected = 1;
      ham_try(pk, res, p, v);
    }
  }
  if (refused) V_REACH("refused");
  if (corrected) V_REACH("corrected");
  V_END();
}

/* ---- 5. repeated packets (RI) ---------------------------------------------------------------------
 * Packet A is sent twice (RI = 0x80 "will repeat", copy 0; RI = 0x01, copy 1, last), then packet B once (RI = 0).
 * Every transmission is clean, damaged in the check word protected part (symbolic place and mask), or not received
 * at all: ST0, ST1, ST2 from the grid. */
#ifndef ST0
#define ST0 1
#endif
#ifndef ST1
#define ST1 0
#endif
#ifndef ST2
#define ST2 0
#endif
#if H_RI
V_HARNESS(h_idl_a_repeat)
{
  unsigned chan, addr, nA, nB, k; static struct slot_in A, B; uint8_t pk[42]; vbi_bool r;
  unsigned st[3], f_pos[3], f_mask[3]; int a_del, b_del;
  V_INIT();
  chan = in_u8() & 15; addr = in_u32() & ADDRMASK;
  r = _vbi_idl_demux_init(&DX, _VBI_IDL_FORMAT_A, chan, addr, idl_cb, &cb_n);
  V_ASSERT(r, "idl_init_ok");
  read_slot(&A); read_slot(&B); light_payload(&A); light_payload(&B);
  V_ASSUME(A.user[0] != B.user[0]);				/* tell A from B */
  B.ci = (A.ci + 1) & 0xFF;					/* consecutive packets of the service */
  for (k = 0; k < 3; k++) { (void) in_u8(); f_pos[k] = in_u8(); f_mask[k] = in_u8(); }
  st[0] = ST0; st[1] = ST1; st[2] = ST2;			/* 0 clean 1 damaged 2 lost: grid (they steer the demux state) */
  for (k = 0; k < 3; k++) {
    unsigned n, res;
    if (k < 2) n = nA = idl_a_send(pk, chan, A.dep, addr, k == 0 ? 0x80 : 0x01, A.ci, A.user, A.want, A.fill);
    else n = nB = idl_a_send(pk, chan, B.dep, addr, 0x00, B.ci, B.user, B.want, B.fill);
    if (st[k] == 1) {
      unsigned q;
      V_ASSUME(f_pos[k] >= OFF_CRC0 && f_pos[k] < 42 && f_mask[k] != 0);
      for (q = OFF_CRC0; q < 42; q++) if (q == f_pos[k]) pk[q] ^= (uint8_t) f_mask[k];
      res = idl_a_residue(pk);
      V_ASSUME(!RES_OK(res));
    } else { res = idl_a_residue(pk); V_ASSERT(RES_OK(res), "ref_sender_receiver_agree"); }
    if (st[k] != 2) {
      r = idl_feed(pk, st[k] != 1, res);
      if (st[k] == 1) V_ASSERT(!r, "idl_crc_failure_returns_false");
      else V_ASSERT(r, "idl_good_packet_returns_true");
    }
  }
  /* A exactly once if its first copy arrived clean, or arrived damaged and the repeat is clean; never twice;
     never without a clean copy.  (A first copy that never arrived makes this demux discard the repeat: allowed,
     the loss is then flagged on B.)  B iff clean. */
  a_del = (cb_n >= 1 && !(cb_n == 1 && st[2] == 0)) ? 1 : 0;	/* with B clean the last delivery is B */
  b_del = (st[2] == 0);
  V_ASSERT(cb_n <= 2, "idl_repeat_no_duplicate_delivery");
  V_ASSERT(cb_n == (unsigned) a_del + (unsigned) b_del, "idl_repeat_b_iff_clean");
  if (st[0] == 0 || (st[0] == 1 && st[1] == 0)) V_ASSERT(a_del, "idl_repeat_recovers_packet");
  if (a_del) V_ASSERT(st[0] == 0 || st[1] == 0, "idl_repeat_needs_clean_copy");
  exp_n = 0;
  if (a_del) expect_delivery(A.user, nA, A.dep ? VBI_IDL_DEPENDENT : 0);
  /* A's loss is visible to a receiver that starts with A only through a failed check word (no CI to compare with yet);
     a damaged last repeat is flagged by this demux even if A was delivered from its first copy (conservative: accepted) */
  if (b_del) expect_delivery(B.user, nB, ((st[1] == 1 || (!a_del && st[0] == 1)) ? VBI_IDL_DATA_LOST : 0) | (B.dep ? VBI_IDL_DEPENDENT : 0));
  compare_log();						/* the first byte tells the packets apart */
  if (st[0] == 1 && st[1] == 0 && cb_n == 2) V_REACH("recovered");
  if (!a_del && b_del) V_REACH("lost");
  V_END();
}
#endif

/* ---- 6. the flags argument: continuity gap / check word failure -> DATA_LOST on the NEXT delivery; DEPENDENT ------
 * NGAP packets for our channel/address, CI symbolic per packet, payload concrete except its first byte (the data
 * path is idl_a_seq1's subject); with GAP_DAMAGE each packet is optionally damaged in its check word (symbolic mask). */
#ifndef NGAP
#define NGAP 2
#endif
V_HARNESS(h_idl_a_gap_flags)
{
  unsigned chan, addr, k, i; int m_ci = -1, m_lost = 0; uint8_t pk[42], user[36], fill[36]; vbi_bool r;
  V_INIT();
  chan = in_u8() & 15; addr = in_u32() & ADDRMASK;
  r = _vbi_idl_demux_init(&DX, _VBI_IDL_FORMAT_A, chan, addr, idl_cb, &cb_n);
  V_ASSERT(r, "idl_init_ok");
  for (k = 0; k < NGAP; k++) {
    unsigned ci = in_u8(), mask = in_u8(), n, res; int ok; uint8_t first = in_u8();
#ifndef GAP_DAMAGE
    mask = 0;
#endif
    for (i = 0; i < 36; i++) { user[i] = (uint8_t) (0x41 + i); fill[i] = 0x55; }
    V_ASSUME(first != 0x00 && first != 0xFF);			/* no dummy byte business here */
    user[0] = first;
    n = idl_a_send(pk, chan, DEP, addr, 0x00, ci, user, H_DL ? 3 : 36, fill);
    pk[40] ^= (uint8_t) mask;
    res = idl_a_residue(pk); ok = RES_OK(res);
    if (mask) V_ASSUME(!ok); else V_ASSERT(ok, "ref_sender_receiver_agree");
    r = idl_feed(pk, ok, res);
    if (mask) {
      V_ASSERT(!r && cb_n == exp_n, "idl_crc_failure_not_delivered");
      m_ci = -1; m_lost = 1;
    } else {
      unsigned fl = ((m_lost || (m_ci >= 0 && m_ci != (int) ci)) ? VBI_IDL_DATA_LOST : 0) | (DEP ? VBI_IDL_DEPENDENT : 0);
      V_ASSERT(r, "idl_good_packet_returns_true");
      expect_delivery(user, n, fl);
      if ((fl & VBI_IDL_DATA_LOST) && m_lost) V_REACH("lost_after_crc");
      if ((fl & VBI_IDL_DATA_LOST) && !m_lost) V_REACH("lost_after_gap");
      m_lost = 0; m_ci = (int) ((ci + 1) & 0xFF);
    }
  }
  compare_log();
  V_END();
}
