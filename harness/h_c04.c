/* C04 - raw VBI decoding recovers every standard signal bit-exactly, on the right line.
 * (1) h_wave: waveform round trip.  The reference transmitter (src/io-sim.c vbi_raw_vbi_image, libm) is represented
 *     by per-sample tables derived NATIVELY from the real generator at check time (models/c04_gen.c, run by
 *     C04.py:pre_run, validated on 260 payloads): sample i = T[i][two payload bits].  Payload bits are symbolic, the
 *     REAL vbi3 raw decoder (init, add_services -> sampling_par checks -> bit_slicer set_params, decode) runs on a two
 *     line image.  Solver quantifies over ALL payloads (and all chroma / non-green bytes) of a fixed configuration.
 * (2) h_lines / h_add_job / h_remove_job: line-number / pattern-table part with symbolic sampling parameters
 *     (solver over configurations); composed with C05 decode_out (see the comment before h_add_job).
 * Real units: src/raw_decoder.c (included), src/bit_slicer.c, src/sampling_par.c, src/misc.c (linked). */
#include "verif.h"
#include "src/raw_decoder.c"

#ifdef C04_WAVE
#include C04_TAB          /* c04_nd[], c04_dep[][2], c04_t[][4], C04_TAB_SPL, C04_TAB_NBITS */

#ifndef FMT
#define FMT VBI_PIXFMT_YUV420
#endif
#ifndef BPS
#define BPS 1
#endif
#ifndef GOFF              /* byte of the pixel that carries luma / green */
#define GOFF 0
#endif
#ifndef STRICT
#define STRICT 0
#endif
#ifndef ILACE
#define ILACE 0
#endif
#ifndef FIXN
#define FIXN 1
#endif
/* configuration of the transmitter the tables were made for */
#define SVC C04_TAB_SVC
#define SCANNING C04_TAB_SCANNING
#define RATE C04_TAB_RATE
#define OFFSET C04_TAB_OFFSET
#define LINE C04_TAB_LINE
/* 0: signal on the field-1 row, 1: on the field-2 row; the other row is blank */
#define SIGROW ((SCANNING == 625) ? (LINE >= 312) : (LINE >= 263))
#define SPL C04_TAB_SPL
#define NBITS C04_TAB_NBITS
#define NBYTES ((NBITS + 7) / 8)

static _Alignas(8) uint8_t IMG[2 * SPL * BPS];   /* exact-size image: 2 rows */
static vbi_sliced OUT[3];                        /* 2 records + guard */
static vbi3_raw_decoder RD;
static uint8_t PAY[NBYTES];

static uint8_t BITS[NBITS];                      /* the payload bit by bit (so that case-split bits are constants for symex) */

static unsigned paybit(unsigned q) { return BITS[q]; }

static void put_sample(uint8_t *row, unsigned i, unsigned v)
{
#if defined(RGB16)       /* 5:6:5, green = 6 msb of v in bits 5..10; red and blue are 0 here: with symbolic red/blue bits
                          * the masked green value is no constant for symex, the CRI search forks at every position
                          * and the instance gave no verdict in 1100 s */
  unsigned pix = ((v >> 2) << 5);
#if RGB16 == 1           /* little endian */
  row[i * 2] = pix & 255; row[i * 2 + 1] = pix >> 8;
#else
  row[i * 2 + 1] = pix & 255; row[i * 2] = pix >> 8;
#endif
#else
  row[i * BPS + GOFF] = (uint8_t) v;
#endif
}

V_HARNESS(h_wave)
{
  vbi_sampling_par sp;
  vbi_service_set got;
  unsigned i, n, f2;
  vbi_sliced guard1, guard2;
  V_INIT();
  in_bytes(PAY, NBYTES);
  in_bytes(OUT, sizeof OUT);
#if BPS > 1
  in_bytes(IMG, sizeof IMG);                      /* chroma / red / blue / alpha bytes: arbitrary */
#endif
  if (NBITS & 7) PAY[NBYTES - 1] &= (1u << (NBITS & 7)) - 1;
  guard1 = OUT[1]; guard2 = OUT[2];
  for (i = 0; i < NBITS; i++) BITS[i] = (PAY[i >> 3] >> (i & 7)) & 1;
#ifdef FIXVAL
  /* case split (grid: FIXVAL = 0 .. 2^FIXN - 1) on the FIRST FIXN transmitted payload bits, for services whose payload
   * follows the clock run-in without a framing code (VPS, WSS): these bits shape the samples next to the last
   * run-in bit and thereby the slicer's clock recovery; with them symbolic the CRI search forks at every position. */
  {
    unsigned qs[4], nq = 0, k, have;
    for (i = 0; i < SPL && nq < FIXN; i++)
      for (k = 0; k < c04_nd[i] && nq < FIXN; k++) {
        unsigned q = c04_dep[i][k], z;
        have = 0;
        for (z = 0; z < nq; z++) have |= qs[z] == q;
        if (!have) qs[nq++] = q;
      }
    for (k = 0; k < nq; k++) {
      BITS[qs[k]] = ((unsigned) (FIXVAL) >> k) & 1u;
      PAY[qs[k] >> 3] = (uint8_t) ((PAY[qs[k] >> 3] & ~(1u << (qs[k] & 7))) | ((((unsigned) (FIXVAL) >> k) & 1u) << (qs[k] & 7)));
    }
  }
#endif

  /* the transmitted image: signal row from the tables, the other row blank (= the generator's blanking level) */
  for (i = 0; i < SPL; i++) {
    unsigned a = 0;
    if (c04_nd[i] > 0) a |= paybit(c04_dep[i][0]);
    if (c04_nd[i] > 1) a |= paybit(c04_dep[i][1]) << 1;
    put_sample(IMG + SIGROW * SPL * BPS, i, c04_t[i][a]);
    put_sample(IMG + (1 - SIGROW) * SPL * BPS, i, c04_t[0][0]);
  }

  memset(&sp, 0, sizeof sp);
  sp.scanning = SCANNING; sp.sampling_format = FMT; sp.sampling_rate = RATE; sp.bytes_per_line = SPL * BPS; sp.offset = OFFSET;
  f2 = (SCANNING == 625) ? (LINE >= 312) : (LINE >= 263);
  /* one line per field: the signal's line and the corresponding line of the other field */
  sp.start[0] = f2 ? LINE - (SCANNING == 625 ? 313 : 263) : LINE;
  sp.start[1] = f2 ? LINE : LINE + (SCANNING == 625 ? 313 : 263);
  sp.count[0] = 1; sp.count[1] = 1; sp.interlaced = ILACE; sp.synchronous = 1;
  V_ASSERT(SIGROW == (int) f2, "grid_consistent");

  V_ASSERT(_vbi3_raw_decoder_init(&RD, &sp), "sampling_parameters_valid");
  got = vbi3_raw_decoder_add_services(&RD, SVC, STRICT);
  V_ASSERT((got & SVC) != 0 && (got & ~(vbi_service_set) SVC) == 0, "service_admitted");

  n = vbi3_raw_decoder_decode(&RD, OUT, 2, IMG);

  V_ASSERT(n == 1, "exactly_one_record_for_one_transmitted_line");
  V_ASSERT((OUT[0].id & SVC) != 0 && (OUT[0].id & ~(vbi_service_set) SVC) == 0, "identified_as_the_transmitted_service");
  V_ASSERT(OUT[0].line == LINE, "itu_line_number");
  for (i = 0; i < NBYTES; i++) {
    unsigned m = (i == NBYTES - 1 && (NBITS & 7)) ? (1u << (NBITS & 7)) - 1 : 255u;
    V_ASSERT((OUT[0].data[i] & m) == PAY[i], "payload_bit_exact");
  }
  V_ASSERT(0 == memcmp(&OUT[1], &guard1, sizeof guard1) && 0 == memcmp(&OUT[2], &guard2, sizeof guard2), "nothing_written_beyond_reported_records");
  V_END();
}
#endif /* C04_WAVE */

#ifndef C04_WAVE
/* ======================= (2) line numbers / pattern table: solver over configurations ======================== */
#ifndef C0
#define C0 1             /* scan lines of field 1 / field 2 (grid): the pattern table has (C0+C1) x 8 ways */
#endif
#ifndef C1
#define C1 1
#endif
#ifndef REQ
#define REQ VBI_SLICED_TELETEXT_B      /* requested service set (grid) */
#endif
#ifndef ILACE
#define ILACE 0
#endif
#define LINES (C0 + C1)
#define BPL 12             /* multiple of 1,2,3,4: every pixel format admissible; the image is never read here */
#define MAXOUT (LINES + 1)

static vbi3_raw_decoder RD;
static vbi_sliced OUT[MAXOUT + 1];
static uint8_t IMG[LINES * BPL];               /* never read (stubbed slicer); rows are checked by address */
#define ST_RD RD
#define ST_OUT OUT
#define ST_NOUT (MAXOUT + 1)
#define ST_IMG IMG
#define ST_NROWS LINES
#define ST_BPL BPL
#include "c05_slicer_stub.h"

static void c04_in_sampling_par(vbi_sampling_par *sp)
{
  memset(sp, 0, sizeof *sp);
  sp->scanning = in_int(); sp->sampling_format = (vbi_pixfmt) in_int(); sp->sampling_rate = in_int();
  sp->bytes_per_line = BPL; sp->offset = in_int();
  sp->start[0] = in_int(); sp->start[1] = in_int(); sp->count[0] = C0; sp->count[1] = C1;
  sp->interlaced = ILACE; sp->synchronous = in_int();
}

/* independent reading of the service table semantics: is ITU-R line `line` of field f (0/1) a line on which
 * one of the services in `set` may be transmitted?  (first[f]..last[f] of a table row whose id is in the set)
 * KNOWN_LINES_NO_OVERLAP (known finding): when NONE of the sampled lines of the field is a line of the service,
 * lines_containing_data() keeps the whole field instead of nothing (raw_decoder.c:869-871 `continue`), so the
 * service is then searched - and may be reported - on lines where it is never transmitted. */
static int c04_par_permits(const vbi_sampling_par *sp, const _vbi_service_par *par, unsigned f, unsigned line)
{
  if (par->first[f] == 0 || par->last[f] == 0) return 0;
  if (line >= (unsigned) par->first[f] && line <= (unsigned) par->last[f]) return 1;
#ifdef KNOWN_LINES_NO_OVERLAP
  if (sp->count[f] > 0 && ((unsigned) par->first[f] > (unsigned) sp->start[f] + sp->count[f] - 1
                           || (unsigned) par->last[f] < (unsigned) sp->start[f])) return 1;
#endif
  (void) sp;
  return 0;
}

static int c04_line_permitted(const vbi_sampling_par *sp, vbi_service_set set, unsigned f, unsigned line)
{
  const _vbi_service_par *par;
  for (par = _vbi_service_table; par->id; ++par)
    if ((par->id & set) && c04_par_permits(sp, par, f, line)) return 1;
  return 0;
}

static unsigned c04_row_field(const vbi_sampling_par *sp, unsigned row, unsigned *idx)
{ /* decode order: rows 0..count[0]-1 are field 1, the rest field 2 (sequential and interlaced storage alike) */
  if (row >= (unsigned) sp->count[0]) { *idx = row - sp->count[0]; return 1; }
  *idx = row; return 0;
}

/* (A SEQ obligation fresh decoder -> add_services -> decode with symbolic start lines gave no verdict: the row ranges
 * become symbolic pointers into the pattern table and CBMC unrolls add_job_to_pattern's scans to the bound; 400 s cap.
 * The statement is composed instead from h_lines (ranges = permitted lines, inside the table), h_add_job (job entered
 * in exactly those rows, other rows untouched, invariant kept), C05 decode_out (only jobs of a row's pattern are tried
 * on that row, jobs never migrate between rows, id/line of a record are those of the row and the job) and
 * h_remove_job.) */

/* INV-STEP: add_job_to_pattern on an arbitrary table satisfying the invariant (success and failure path) */
static int8_t PATS[LINES * _VBI3_RAW_DECODER_MAX_WAYS];
V_HARNESS(h_add_job)
{
  unsigned start[2], count[2], r, w, job, nj;
  int8_t pat0[LINES * _VBI3_RAW_DECODER_MAX_WAYS];
  vbi_bool ok;
  V_INIT();
  in_bytes(PATS, sizeof PATS);
  start[0] = in_u8(); start[1] = in_u8(); count[0] = in_u8(); count[1] = in_u8(); job = in_u8(); nj = in_u8();
#ifdef S0      /* grid: the two row ranges concrete (pattern pointers then have constant offsets) */
  start[0] = S0; count[0] = N0; start[1] = S1; count[1] = N1;
#endif
  memset(&RD, 0, sizeof RD);
  RD.pattern = PATS; RD.sampling.count[0] = C0; RD.sampling.count[1] = C1; RD.n_jobs = nj;
  V_ASSUME(nj <= _VBI3_RAW_DECODER_MAX_JOBS && job < _VBI3_RAW_DECODER_MAX_JOBS && job <= nj);   /* existing job or the next free one */
  /* what lines_containing_data produces: two row ranges inside the table (shown by h_lines) */
  V_ASSUME(start[0] + count[0] <= LINES && start[1] + count[1] <= LINES && start[0] <= LINES && start[1] <= LINES);
  V_ASSUME(st_pat_inv(PATS, LINES, nj));
  memcpy(pat0, PATS, sizeof PATS);

  ok = add_job_to_pattern(&RD, (int) job, start, count);

  V_ASSERT(st_pat_inv(PATS, LINES, nj > job ? nj : job + 1), "pattern_invariant_preserved");
  for (r = 0; r < LINES; r++) {
    int in_range = (r >= start[0] && r < start[0] + count[0]) || (r >= start[1] && r < start[1] + count[1]);
    unsigned have = 0, same = 1;
    for (w = 0; w < _VBI3_RAW_DECODER_MAX_WAYS; w++) {
      have += PATS[r * 8 + w] == (int) job + 1;
      same &= PATS[r * 8 + w] == pat0[r * 8 + w];
    }
    if (ok && in_range) V_ASSERT(have >= 1, "job_entered_in_each_row_of_the_ranges");
    if (!in_range) V_ASSERT(same, "rows_outside_the_ranges_untouched");
    /* other jobs of a row are never dropped */
    for (w = 0; w < _VBI3_RAW_DECODER_MAX_WAYS; w++) {
      int v = pat0[r * 8 + w]; unsigned x, found = 0;
      for (x = 0; x < _VBI3_RAW_DECODER_MAX_WAYS; x++) found |= PATS[r * 8 + x] == v;
      if (v > 0) V_ASSERT(found, "existing_jobs_kept");
    }
  }
  if (ok) V_REACH("added"); else V_REACH("no_space");
  V_END();
}

/* lines_containing_data: the row ranges lie inside the table and cover exactly the permitted lines */
V_HARNESS(h_lines)
{
  vbi_sampling_par sp;
  unsigned start[2], count[2], f, r;
  const _vbi_service_par *par;
  unsigned row;
  V_INIT();
  c04_in_sampling_par(&sp);
  row = in_u8();
  memset(&RD, 0, sizeof RD);
  V_ASSUME(_vbi3_raw_decoder_init(&RD, &sp));
  V_ASSUME(row < 19);
  par = &_vbi_service_table[row];
  V_ASSUME(par->id != 0 && par->id != VBI_SLICED_VBI_625 && par->id != VBI_SLICED_VBI_525);
  lines_containing_data(start, count, &sp, par);
  V_ASSERT(start[0] + count[0] <= (unsigned) C0 && start[0] <= (unsigned) C0, "field1_range_inside_field1_rows");
  V_ASSERT(start[1] >= (unsigned) C0 && start[1] + count[1] <= LINES && start[1] <= LINES, "field2_range_inside_field2_rows");
  for (f = 0; f < 2; f++)
    for (r = 0; r < LINES; r++) {
      unsigned base = f ? C0 : 0, cnt = f ? C1 : C0;
      if (r >= base && r < base + cnt && sp.synchronous && sp.start[f] != 0) {
        unsigned line = sp.start[f] + (r - base);
        int in = r >= start[f] && r < start[f] + count[f];
        int perm = c04_par_permits(&sp, par, f, line);
        V_ASSERT(in == perm, "rows_selected_iff_line_permitted");
      }
    }
  V_REACH("called");
  V_END();
}

/* INV-STEP: remove_job_from_pattern (the pattern part of vbi3_raw_decoder_remove_services) on an arbitrary table
 * satisfying the invariant: invariant preserved for one job less, the job is gone from every row, jobs above it
 * are renumbered, other jobs and their order are kept.
 * (The job-array part of vbi3_raw_decoder_remove_services - memmove with a path dependent length over the 1 KB job
 * table - gave no verdict: 174 s, 6.4 GB, killed; it is outside.) */
V_HARNESS(h_remove_job)
{
  unsigned r, w, nj, job;
  int8_t pat0[LINES * _VBI3_RAW_DECODER_MAX_WAYS];
  V_INIT();
  in_bytes(PATS, sizeof PATS);
  nj = in_u8(); job = in_u8();
  memset(&RD, 0, sizeof RD);
  RD.pattern = PATS; RD.sampling.count[0] = C0; RD.sampling.count[1] = C1; RD.n_jobs = nj;
  V_ASSUME(nj >= 1 && nj <= _VBI3_RAW_DECODER_MAX_JOBS && job < nj);
  V_ASSUME(st_pat_inv(PATS, LINES, nj));
  memcpy(pat0, PATS, sizeof PATS);
  remove_job_from_pattern(&RD, (int) job);
  V_ASSERT(st_pat_inv(PATS, LINES, nj - 1), "pattern_invariant_preserved");
  for (r = 0; r < LINES; r++) {
    unsigned d = 0;
    for (w = 0; w < _VBI3_RAW_DECODER_MAX_WAYS; w++) {      /* expected row: old row without the job, renumbered, zero filled */
      int v = pat0[r * 8 + w];
      if (v == (int) job + 1) continue;
      V_ASSERT(PATS[r * 8 + d] == (v > (int) job + 1 ? v - 1 : v), "row_compacted_and_renumbered");
      d++;
    }
    for (w = 0; w < _VBI3_RAW_DECODER_MAX_WAYS; w++) if (w >= d) V_ASSERT(PATS[r * 8 + w] == 0, "row_zero_filled");
  }
  V_REACH("called");
  V_END();
}
#endif /* !C04_WAVE */
