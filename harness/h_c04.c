/* C04 - raw VBI decoding recovers every standard signal bit-exactly, on the right line.
 * (1) h_wave: waveform round trip.  The reference transmitter (src/io-sim.c vbi_raw_vbi_image, libm) is represented
 *     by per-sample tables derived NATIVELY from the real generator at check time (models/c04_gen.c, run by
 *     C04.py:pre_run, validated on 260 payloads): sample i = T[i][two payload bits].  Payload bits are symbolic, the
 *     REAL vbi3 raw decoder (init, add_services -> sampling_par checks -> bit_slicer set_params, decode) runs on a two
 *     line image.  Solver quantifies over ALL payloads (and all chroma / non-green bytes) of a fixed configuration.
 * (2) h_add_pattern / h_remove_pattern / h_add_decode: line-number / pattern-table part with symbolic sampling
 *     parameters and a stubbed slicer (solver over configurations).
 * Real units: src/raw_decoder.c (included), src/bit_slicer.c, src/sampling_par.c, src/misc.c (linked). */
#include "verif.h"
#include "src/raw_decoder.c"

#ifdef C04_WAVE
#include C04_TAB          /* c04_nd[], c04_dep[][2], c04_t[][4], C04_TAB_SPL, C04_TAB_NBITS */

#ifndef FMT
#define FMT VBI_PIXFMT_YUV420
#endif
#ifndef BPS
#define BPS 1
#endif
#ifndef GOFF              /* byte of the pixel that carries luma / green */
#define GOFF 0
#endif
#ifndef STRICT
#define STRICT 0
#endif
#ifndef SIGROW            /* 0: signal on the field-1 row, 1: on the field-2 row; the other row is blank */
#define SIGROW 0
#endif
#define SPL C04_TAB_SPL
#define NBITS C04_TAB_NBITS
#define NBYTES ((NBITS + 7) / 8)

static _Alignas(8) uint8_t IMG[2 * SPL * BPS];   /* exact-size image: 2 rows */
static vbi_sliced OUT[3];                        /* 2 records + guard */
static vbi3_raw_decoder RD;
static uint8_t PAY[NBYTES];

static unsigned paybit(unsigned q) { return (PAY[q >> 3] >> (q & 7)) & 1; }

static void put_sample(uint8_t *row, unsigned i, unsigned v)
{
#if defined(RGB16)       /* 5:6:5, green = 6 msb of v in bits 5..10, red/blue bits stay arbitrary */
  unsigned pix = row[i * 2] | (row[i * 2 + 1] << 8);
  pix = (pix & ~0x07E0u) | ((v >> 2) << 5);
#if RGB16 == 1           /* little endian */
  row[i * 2] = pix & 255; row[i * 2 + 1] = pix >> 8;
#else
  row[i * 2 + 1] = pix & 255; row[i * 2] = pix >> 8;
#endif
#else
  row[i * BPS + GOFF] = (uint8_t) v;
#endif
}

V_HARNESS(h_wave)
{
  vbi_sampling_par sp;
  vbi_service_set got;
  unsigned i, n, f2;
  vbi_sliced guard1, guard2;
  V_INIT();
  in_bytes(PAY, NBYTES);
  in_bytes(OUT, sizeof OUT);
#if BPS > 1
  in_bytes(IMG, sizeof IMG);                      /* chroma / red / blue / alpha bytes: arbitrary */
#endif
  if (NBITS & 7) PAY[NBYTES - 1] &= (1u << (NBITS & 7)) - 1;
  guard1 = OUT[1]; guard2 = OUT[2];

  /* the transmitted image: signal row from the tables, the other row blank (= the generator's blanking level) */
  for (i = 0; i < SPL; i++) {
    unsigned a = 0;
    if (c04_nd[i] > 0) a |= paybit(c04_dep[i][0]);
    if (c04_nd[i] > 1) a |= paybit(c04_dep[i][1]) << 1;
    put_sample(IMG + SIGROW * SPL * BPS, i, c04_t[i][a]);
    put_sample(IMG + (1 - SIGROW) * SPL * BPS, i, c04_t[0][0]);
  }

  memset(&sp, 0, sizeof sp);
  sp.scanning = SCANNING; sp.sampling_format = FMT; sp.sampling_rate = RATE; sp.bytes_per_line = SPL * BPS; sp.offset = OFFSET;
  f2 = (SCANNING == 625) ? (LINE >= 312) : (LINE >= 263);
  /* one line per field: the signal's line and the corresponding line of the other field */
  sp.start[0] = f2 ? LINE - (SCANNING == 625 ? 313 : 263) : LINE;
  sp.start[1] = f2 ? LINE : LINE + (SCANNING == 625 ? 313 : 263);
  sp.count[0] = 1; sp.count[1] = 1; sp.interlaced = ILACE; sp.synchronous = 1;
  V_ASSERT(SIGROW == (int) f2, "grid_consistent");

  V_ASSERT(_vbi3_raw_decoder_init(&RD, &sp), "sampling_parameters_valid");
  got = vbi3_raw_decoder_add_services(&RD, SVC, STRICT);
  V_ASSERT((got & SVC) != 0 && (got & ~(vbi_service_set) SVC) == 0, "service_admitted");

  n = vbi3_raw_decoder_decode(&RD, OUT, 2, IMG);

  V_ASSERT(n == 1, "exactly_one_record_for_one_transmitted_line");
  V_ASSERT((OUT[0].id & SVC) != 0 && (OUT[0].id & ~(vbi_service_set) SVC) == 0, "identified_as_the_transmitted_service");
  V_ASSERT(OUT[0].line == LINE, "itu_line_number");
  for (i = 0; i < NBYTES; i++) {
    unsigned m = (i == NBYTES - 1 && (NBITS & 7)) ? (1u << (NBITS & 7)) - 1 : 255u;
    V_ASSERT((OUT[0].data[i] & m) == PAY[i], "payload_bit_exact");
  }
  V_ASSERT(0 == memcmp(&OUT[1], &guard1, sizeof guard1) && 0 == memcmp(&OUT[2], &guard2, sizeof guard2), "nothing_written_beyond_reported_records");
  V_END();
}
#endif /* C04_WAVE */
