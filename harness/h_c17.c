/* h_c17.c - C17: search finds exactly the matching pages, in page order, and ends  (src/search.c).
 *
 * search.c is compiled from a scratch copy in which the definition `int vbi_search_next(...)' carries the return type
 * of its prototype (`vbi_search_status'); goto-cc rejects the mismatch, gcc does not (Ob(patch=...), one textual edit).
 *
 *   h_c17_walk     walk + stop logic with an ABSTRACT matcher.  Real: vbi_search_new (start/stop set-up),
 *                  vbi_search_next, search_page_fwd / search_page_rev up to the point where they format and match
 *                  (stop tests, page-function filter, format call); from there c17_cut() (see below).  Replaced:
 *                    _vbi_cache_foreach_page  by a model that walks a symbolic population of <= NP cached pages in
 *                                             the documented order (cyclic (pgno, subno) order, `wrapped' once the
 *                                             page number wrapped); the real walk in cache.c belongs to C10;
 *                    vbi_format_vt_page       by "a blank 25 x 41 page carrying the page numbers";
 *                    haystack/ure_exec/highlight by the uninterpreted predicate match(page): one occurrence per
 *                                             matching page (c17_cut);
 *                    ure_compile/buffer       by dummies.
 *                  NCALLS successive vbi_search_next calls, direction symbolic per call, start page/subpage
 *                  symbolic (incl. VBI_ANY_SUBNO and hex page numbers), which of the NP pages are cached symbolic PER
 *                  CALL (pages come and go between calls; NP = 0 pages: empty cache).
 *                  Oracle = an independent reading of the property: a cursor and an origin on the cyclic page order;
 *                  each call returns the nearest cached LOP page that matches, strictly ahead of the cursor (the
 *                  cursor page itself counts until it has been returned) and before the origin; none left =>
 *                  NOT_FOUND and the pass restarts; direction change => the origin becomes the cursor.
 *                  Termination: the walk model asserts that the callback stops it within one full wrapped cycle
 *                  (afterwards the callback sees the same arguments again, i.e. the real loop would never end).
 *   h_c17_escape   literal escaping in vbi_search_new (regexp == FALSE), symbolic UCS-2 pattern of <= 5 characters.
 *   h_c17_haystack (search.c compiled with LAST_ROW = 3: text rows 1..2 only)
 *                  haystack construction of search_page_fwd on a page whose rows 1 and 2, columns 0..HC-1 and 39..40,
 *                  are symbolic (size attribute, unicode): characters in row order, one per cell, double width/size
 *                  cells folded into one character, continuation cells skipped, one separator per row, length in
 *                  bounds.
 *
 * KNOWN_C17_NO_STOP_PAGE: the stop tests of search_page_fwd/_rev only fire on a cached page at or beyond the stop
 * position; if no such page is cached (e.g. search started at a page number above every cached page, or the page
 * where the direction was reversed has been evicted) the walk never ends.  With the define the harness assumes such a
 * page exists in every call.
 */
#include "verif.h"
#include "src/search.c"

#ifndef NP
#define NP 2
#endif
#ifndef NCALLS
#define NCALLS 3
#endif

/* ------------------------------------------------------------------ environment */

#ifndef PLEN
#define PLEN 5
#endif
static size_t c17_last_malloc;       /* size of the last malloc request (CBMC build only) */
#ifdef VERIF_CBMC
/* vbi_search_new allocates the 12 KB search object with calloc(1, sizeof(*s)); CBMC's calloc model creates an UNTYPED byte
   array, and every field access of search.c then becomes a byte_extract/byte_update on 12 KB (measured: ~1 s of symex per
   iteration of the haystack loop).  Same contract, typed object: fresh zeroed heap object of exactly that size. */
void *calloc(size_t n, size_t size)
{
  static struct vbi_search c17_zero;
  struct vbi_search *p;
  __CPROVER_assert(n == 1 && size == sizeof(struct vbi_search), "VP:calloc_model_is_for_the_search_object");
  p = (struct vbi_search *) __CPROVER_allocate(sizeof(struct vbi_search), 0);
  *p = c17_zero;
  return p;
}
/* malloc is used once, for the escaped pattern (sizeof(ucs2_t) * pat_len * 2 with a symbolic pat_len).  CBMC's bounds
   checks on a heap object of SYMBOLIC size came back with a spurious "esc_pat + j outside object bounds" (j = 7 with
   pat_len >= 4; not reproducible natively).  Model: an object of the largest possible request, the requested size is
   recorded and the harness asserts (a) the request is exactly 2 characters per pattern character and (b) the number of
   characters written (= the length handed to ure_compile) fits the request. */
void *malloc(size_t n)
{
  c17_last_malloc = n;
  __CPROVER_assert(n <= sizeof(ucs2_t) * 2 * PLEN, "VP:malloc_model_request_bound");
  return __CPROVER_allocate(sizeof(ucs2_t) * 2 * PLEN, 0);
}
#endif

/* the decoder is only a handle here (search.c reads vbi->ca, vbi->cn, vbi->vt.max_level and hands them to the models).
   A static zero object; leaving it undefined under CBMC (extern, nondet contents) was tried and is far slower. */
static vbi_decoder VBI;
static struct _ure_buffer_t { int dummy; } c17_ub;
static struct _ure_dfa_t { int dummy; } c17_ud;

static ucs2_t c17_pat[16];           /* what ure_compile received */
static unsigned long c17_pat_len;
static int c17_casefold;
static unsigned c17_n_compile, c17_n_ub_free, c17_n_ud_free;

ure_buffer_t ure_buffer_create(void) { return &c17_ub; }
void ure_buffer_free(ure_buffer_t b) { V_ASSERT(b == &c17_ub, "ure_buffer_free_arg"); c17_n_ub_free++; }
void ure_dfa_free(ure_dfa_t d) { V_ASSERT(d == &c17_ud, "ure_dfa_free_arg"); c17_n_ud_free++; }
ure_dfa_t ure_compile(ucs2_t *re, unsigned long relen, int casefold, ure_buffer_t buf)
{
  unsigned long i;
  V_ASSERT(buf == &c17_ub, "ure_compile_buffer");
  c17_n_compile++;
  c17_pat_len = relen; c17_casefold = casefold;
  for (i = 0; i < 16; i++)
    if (i < relen) c17_pat[i] = re[i];       /* reads relen characters: the escaped pattern must be that long */
  return &c17_ud;
}

struct c17_page { int pgno, subno; uint8_t lop, match; uint16_t occ; };
static struct c17_page U[NP > 0 ? NP : 1];        /* the universe of pages, ascending */
static uint8_t PRESENT[NP > 0 ? NP : 1];          /* cached in the current call */
static cache_page CP[NP > 0 ? NP : 1];
static int c17_cur = -1;                          /* universe index of the page last formatted */
static vbi_search *S;
static unsigned c17_n_format, c17_n_exec, c17_n_cb;

#ifndef HC
#define HC 3
#endif
#define HROWS ((LAST_ROW - FIRST_ROW) < 2 ? (LAST_ROW - FIRST_ROW) : 2)
static vbi_char HCELL[2][HC + 2];         /* haystack obligation: rows 1 (and 2): columns 0..HC-1, 39, 40 */
static int c17_hay_mode;
static unsigned long c17_hay_len; static long c17_hay_off; static int c17_hay_flags;

#define ROWLEN 41                                  /* 40 characters + separator */
#define HAYLEN ((LAST_ROW - FIRST_ROW) * ROWLEN)  /* 23 rows; the walk obligation compiles search.c with LAST_ROW = 3 */

vbi_bool vbi_format_vt_page(vbi_decoder *vbi, vbi_page *pg, cache_page *vtp, vbi_wst_level max_level, int display_rows, vbi_bool navigation)
{
  int i;
  V_ASSERT(vbi == &VBI && pg == &S->pg && display_rows == 25, "format_args");
  (void) max_level; (void) navigation;
  c17_cur = -1;
  for (i = 0; i < NP; i++) if (vtp == &CP[i]) c17_cur = i;
  V_ASSERT(c17_cur >= 0, "format_of_a_cached_page");
  c17_n_format++;
  /* blank page, all cells VBI_NORMAL_SIZE: the search object comes from calloc and search.c only ever changes the
     colours of cells (highlight), which nothing below depends on - no need to clear 8 KB again per page */
  /* rows/columns are set ONCE by the harness right after vbi_search_new (c17_page_geometry): a store here would sit under
     the symbolic guards of the walk and turn every `i * pg->columns' of search.c into a symbolic index into the 8 KB page */
  V_ASSERT(pg->rows == 25 && pg->columns == 41, "page_geometry_preset");
  pg->pgno = vtp->pgno; pg->subno = vtp->subno;
  if (c17_hay_mode) {
    int r, k;
    for (r = 0; r < HROWS; r++) {
      for (k = 0; k < HC; k++) pg->text[(1 + r) * 41 + k] = HCELL[r][k];
      pg->text[(1 + r) * 41 + 39] = HCELL[r][HC];
      pg->text[(1 + r) * 41 + 40] = HCELL[r][HC + 1];
    }
  }
  return TRUE;
}

int ure_exec(ure_dfa_t dfa, int flags, ucs2_t *text, unsigned long textlen, unsigned long *ms, unsigned long *me)
{
  long off = text - S->haystack;
  (void) flags;
  V_ASSERT(dfa == &c17_ud, "exec_dfa");
  V_ASSERT(off >= 0 && textlen >= 1 && (unsigned long) off + textlen <= HAYLEN, "exec_text_inside_haystack");
  V_ASSERT(c17_cur >= 0, "exec_after_format");
  c17_n_exec++;
  if (c17_hay_mode) { c17_hay_off = off; c17_hay_len = textlen; c17_hay_flags = flags; return 0; }
  {
#ifdef OCC
    unsigned long occ = OCC;              /* literally concrete: a read through the symbolic page index would not fold */
#else
    unsigned long occ = U[c17_cur].occ;
#endif
    if (U[c17_cur].match && occ >= (unsigned long) off && occ < (unsigned long) off + textlen) {
      *ms = occ - (unsigned long) off;
      *me = *ms + 1;
      return 1;
    }
  }
  return 0;
}

/* Walk obligation: the scratch copy of search.c returns c17_cut(...) at the comment "To Unicode" of search_page_fwd /
   search_page_rev, i.e. right after the stop tests, the page-function filter and the format call ("up to the point where
   they format/match").  Haystack construction + ure_exec + highlight of that page are replaced by: one occurrence per
   matching page; when the search RESUMES inside the page it found last (this == start and the continuation row/column
   are not at their pass-start values) the rest of the page holds no further occurrence.  With everything real the
   symbolic continuation position makes `first' / the highlighted cells symbolic and symex does not finish (measured:
   > 280 s for NP = 2, 3 calls, even with text rows cut to 2 and --max-field-sensitivity-array-size 1100). */
int c17_cut(vbi_search *s, cache_page *vtp, int this_key, int start_key, int dir)
{
  int i, idx = -1, resumed;
  for (i = 0; i < NP; i++) if (vtp == &CP[i]) idx = i;
  V_ASSERT(idx >= 0 && idx == c17_cur, "match_follows_format_of_the_same_page");
  c17_n_exec++;
  resumed = (this_key == start_key)
         && (dir > 0 ? !(s->row[0] == FIRST_ROW && s->col[0] == 0) : !(s->row[1] == LAST_ROW + 1 && s->col[1] == 0));
  if (U[idx].match && !resumed) {
    /* what highlight() does to the search state: remember the page, continue after / before the occurrence */
    s->start_pgno = vtp->pgno; s->start_subno = vtp->subno;
    s->row[0] = FIRST_ROW; s->col[0] = 1;
    s->row[1] = FIRST_ROW; s->col[1] = 0;
    return 1;
  }
  return 0;
}

#define MKEY (0x800 << 16)                         /* size of the cyclic key space */
static unsigned c17_key(int pgno, int subno) { return ((unsigned) (pgno - 0x100) << 16) + (unsigned) subno; }

/* model of cache.c:_vbi_cache_foreach_page */
int _vbi_cache_foreach_page(vbi_cache *ca, cache_network *cn, vbi_pgno pgno, vbi_subno subno, int dir,
                            _vbi_cache_foreach_cb *callback, void *user_data)
{
  unsigned cur, it;
  int i, first = -1, n = 0;
  vbi_bool wrapped = FALSE;
  (void) ca; (void) cn;
  V_ASSERT(pgno >= 0x100 && pgno <= 0x8FF, "foreach_pgno_in_range");     /* cache_network_page_stat() asserts this */
  V_ASSERT(dir == 1 || dir == -1, "foreach_dir");
  V_ASSERT(subno >= 0 && subno <= 0xFFFF, "foreach_subno_range");
  for (i = 0; i < NP; i++) if (PRESENT[i]) n++;
  if (n == 0) return 0;
  if (subno == VBI_ANY_SUBNO) {
    subno = 0;
    for (i = 0; i < NP; i++) if (PRESENT[i] && U[i].pgno == pgno && first < 0) { first = i; subno = U[i].subno; }
  } else {
    for (i = 0; i < NP; i++) if (PRESENT[i] && U[i].pgno == pgno && U[i].subno == subno) first = i;
  }
  cur = c17_key(pgno, subno);
  for (i = 0; i < NP; i++) {        /* concrete indices: a store through a symbolic index into 4.5 KB structs stalls symex */
    CP[i].pgno = U[i].pgno; CP[i].subno = U[i].subno;
    CP[i].function = U[i].lop ? PAGE_FUNCTION_LOP : PAGE_FUNCTION_GPOP;
  }
  for (it = 0; it < 2 * NP + 2; it++) {
    int next = -1, lo = -1, hi = -1;
    if (first >= 0) {
      int r = 0;
      c17_n_cb++;
      for (i = 0; i < NP; i++) if (i == first) r = callback(&CP[i], wrapped, user_data);
      if (r != 0) return r;
    }
    /* next cached page strictly beyond `cur' in direction dir; the universe is sorted ascending */
    for (i = 0; i < NP; i++) if (PRESENT[i]) { if (lo < 0) lo = i; hi = i; }
    if (dir > 0) {
      for (i = NP - 1; i >= 0; i--) if (PRESENT[i] && c17_key(U[i].pgno, U[i].subno) > cur) next = i;
      if (next < 0) { if (wrapped) return -1; next = lo; wrapped = TRUE; }
    } else {
      for (i = 0; i < NP; i++) if (PRESENT[i] && c17_key(U[i].pgno, U[i].subno) < cur) next = i;
      if (next < 0) { if (wrapped) return -1; next = hi; wrapped = TRUE; }
    }
    first = next;
    cur = c17_key(U[next].pgno, U[next].subno);
  }
  /* the documented contract of the real walk (cache.c, checked on the real function by obligation foreach_real): the page
     range is walked cyclically, `wrapped' is set when the page number wraps, and the walk ends with -1 when it is about to
     wrap a second time.  The bound 2 * NP + 2 covers two full cycles; reaching this point means the model is wrong. */
  V_ASSERT(0, "search_walk_terminates");
  return -1;
}

static void c17_page_geometry(void) { S->pg.rows = 25; S->pg.columns = 41; }   /* what vbi_format_vt_page always produces */

static int c17_valid_subno(int s) { return s >= 0 && s <= 0x3F7E && (s & 0x80) == 0 && (s & 0x7F) != 0x7F; }

/* ------------------------------------------------------------------ walk obligation */

V_HARNESS(h_c17_walk)
{
  static ucs2_t pattern[2] = { 'a', 0 };
  int pgno0, subno0, i, c;
  unsigned O_f, O_r, C = 0, Uk;
  int active = 0, rdir = 0, incl = 1;
  V_INIT();
  for (i = 0; i < NP; i++) {
    U[i].pgno = 0x100 + (in_u16() & 0x7FF); U[i].subno = in_u16();
    U[i].lop = in_bool(); U[i].match = in_bool(); U[i].occ = in_u16();
#ifdef OCC
    U[i].occ = OCC;                   /* position of the occurrence fixed by the grid (symex cost of highlight()) */
#endif
    V_ASSUME(c17_valid_subno(U[i].subno));
    V_ASSUME(U[i].occ < HAYLEN && U[i].occ % ROWLEN != 40);        /* a character position, not a row separator */
    if (i > 0) V_ASSUME(c17_key(U[i - 1].pgno, U[i - 1].subno) < c17_key(U[i].pgno, U[i].subno));
  }
  pgno0 = 0x100 + (in_u16() & 0x7FF); subno0 = in_u16();
  V_ASSUME(subno0 == VBI_ANY_SUBNO || c17_valid_subno(subno0));

  S = vbi_search_new(&VBI, pgno0, subno0, pattern, FALSE, TRUE, NULL);
  V_ASSERT(S != NULL, "search_new_succeeds");
  c17_page_geometry();

  /* oracle state: origins of a forward / backward pass on the cyclic key space.  Forward: the pass begins AT the start
     page.  Backward: it begins just below it and ends with it (VBI_ANY_SUBNO: all subpages of the start page first). */
  O_f = c17_key(pgno0, subno0 == VBI_ANY_SUBNO ? 0 : subno0);
  /* the largest VALID page key below the start position (subpage numbers are S4 S3 S2 S1 with S2 <= 7, S4 <= 3, at most
     0x3F7E): the exact key matters because a page sitting exactly on the origin is the first/last one of a pass */
  if (subno0 == VBI_ANY_SUBNO) O_r = c17_key(pgno0, 0x3F7E);
  else if (subno0 == 0) O_r = c17_key(pgno0 == 0x100 ? 0x8FF : pgno0 - 1, 0x3F7E);
  else if ((subno0 & 0x7F) == 0) O_r = c17_key(pgno0, (subno0 - 0x100) | 0x7E);
  else O_r = c17_key(pgno0, subno0 - 1);
  (void) Uk;

  for (c = 0; c < NCALLS; c++) {
    int d = in_bool() ? 1 : -1, st, n = 0, best = -1, stop_page = 0;
#ifdef DIRS
    d = ((DIRS >> c) & 1) ? 1 : -1;   /* direction of call c fixed by the grid (bit c of DIRS): keeps the callback pointer concrete */
#endif
    unsigned L, O, bestdist = 0;
    vbi_page *pg = (vbi_page *) &VBI;   /* must be overwritten */
    for (i = 0; i < NP; i++) { PRESENT[i] = in_bool(); n += PRESENT[i]; }

    if (!active) { active = 1; rdir = d; C = (d > 0) ? O_f : O_r; incl = 1; }
    else if (d != rdir) { rdir = d; O_f = O_r = C; }
    O = (d > 0) ? O_f : O_r;
    for (i = 0; i < NP; i++)
      if (PRESENT[i]) {
        unsigned k = c17_key(U[i].pgno, U[i].subno);
        if (d > 0 ? k >= O : k <= O) stop_page = 1;
      }
#ifdef KNOWN_C17_NO_STOP_PAGE
    V_ASSUME(n == 0 || stop_page);
#endif

    st = vbi_search_next(S, &pg, d);

    L = (d > 0) ? (O + MKEY - C) % MKEY : (C + MKEY - O) % MKEY;
    if (L == 0) L = MKEY;
    for (i = 0; i < NP; i++)
      if (PRESENT[i] && U[i].lop && U[i].match) {
        unsigned k = c17_key(U[i].pgno, U[i].subno);
        unsigned dist = (d > 0) ? (k + MKEY - C) % MKEY : (C + MKEY - k) % MKEY;
        if (dist < L && (dist > 0 || incl) && (best < 0 || dist < bestdist)) { best = i; bestdist = dist; }
      }
    if (n == 0) {
      V_ASSERT(st == VBI_SEARCH_CACHE_EMPTY && pg == NULL, "empty_cache_reported");
      V_REACH("empty");
    } else if (best >= 0) {
      V_ASSERT(st == VBI_SEARCH_SUCCESS, "next_matching_page_found");
      V_ASSERT(pg == &S->pg && pg->pgno == U[best].pgno && pg->subno == U[best].subno, "found_page_is_the_nearest_match_in_order");
      C = c17_key(U[best].pgno, U[best].subno); incl = 0;
      if (c == NCALLS - 1) V_REACH("found_in_last_call");
      if (!stop_page) V_REACH("found_without_stop_page");
    } else {
      V_ASSERT(st == VBI_SEARCH_NOT_FOUND && pg == NULL, "not_found_after_all_matches");
      active = 0;
      if (c > 0) V_REACH("not_found_after_success_or_restart");
    }
  }
  vbi_search_delete(S);
  V_ASSERT(c17_n_ub_free == 1 && c17_n_ud_free == 1, "delete_frees_regex_objects");
  V_END();
}

/* ------------------------------------------------------------------ literal escaping */

static int c17_is_meta(unsigned c)
{
  /* the characters vbi_search_new documents/lists as special to the regex syntax */
  static const char meta[] = "!\"#$%&()*+,-./:;=?@[\\]^_{|}~";
  unsigned i;
  for (i = 0; i < sizeof meta - 1; i++) if (c == (unsigned char) meta[i]) return 1;
  return 0;
}
static int c17_is_escape_letter(unsigned c)
{
  /* ure.c: a backslash changes the meaning of exactly these (classes, control characters, hex codes) */
  return c == 'p' || c == 'P' || c == 'a' || c == 'b' || c == 'f' || c == 'n' || c == 'r' || c == 't' || c == 'v'
      || c == 'x' || c == 'X' || c == 'u' || c == 'U';
}

V_HARNESS(h_c17_escape)
{
  static ucs2_t pat[PLEN + 1];
  unsigned i, j, len = PLEN;
  int casefold, extra = 0;
  V_INIT();
  for (i = 0; i < PLEN; i++) pat[i] = in_u16();
  pat[PLEN] = 0;
  casefold = in_bool();
  for (i = 0; i < PLEN; i++) if (pat[PLEN - 1 - i] == 0) len = PLEN - 1 - i;      /* length = first NUL */

  S = vbi_search_new(&VBI, 0x100, VBI_ANY_SUBNO, pat, casefold, /* regexp */ FALSE, NULL);
  if (len == 0) {
    V_ASSERT(S == NULL && c17_n_compile == 0, "empty_pattern_rejected");
    V_REACH("empty");
  } else {
    V_ASSERT(S != NULL && c17_n_compile == 1 && c17_casefold == casefold, "compiled_once");
    V_ASSERT(c17_pat_len >= len && c17_pat_len <= 2 * len, "escaped_length_bounds");
#ifdef VERIF_CBMC
    V_ASSERT(c17_last_malloc == sizeof(ucs2_t) * 2 * len, "escape_buffer_request_is_two_per_character");
    V_ASSERT(c17_pat_len * sizeof(ucs2_t) <= c17_last_malloc, "escaped_pattern_fits_the_buffer");
#endif
    /* de-escaping the compiled pattern gives back the input, every metacharacter carries a backslash, and a backslash
       never lands in front of a character whose meaning it would change */
    j = 0;
    for (i = 0; i < PLEN; i++)
      if (i < len) {
        int esc = 0;
        if (c17_is_meta(pat[i])) {
          V_ASSERT(j < c17_pat_len && c17_pat[j] == '\\', "metacharacter_is_escaped");
          esc = 1;
        } else if (j < c17_pat_len && c17_pat[j] == '\\') {
          esc = 1; extra = 1;
#ifdef C17_STRICT_ESCAPE
          V_ASSERT(0, "only_metacharacters_are_escaped");
#endif
          V_ASSERT(!c17_is_escape_letter(pat[i]), "no_backslash_in_front_of_an_escape_letter");
        }
        j += esc;
        V_ASSERT(j < c17_pat_len && c17_pat[j] == pat[i], "characters_kept_in_order");
        j++;
      }
    V_ASSERT(j == c17_pat_len, "nothing_appended");
    if (extra) V_REACH("harmless_extra_backslash");
    if (c17_pat_len == 2 * len) V_REACH("all_escaped");
    vbi_search_delete(S);
  }
  V_END();
}

/* ------------------------------------------------------------------ haystack construction */

/* the documented page invariant (format.h, vbi_size): the right half of a double width/size character is an OVER_TOP
   cell with the same unicode; partial characters do not appear */
static int c17_cell_ok(const vbi_char *c, const vbi_char *right)
{
  if (c->size > VBI_DOUBLE_SIZE2) return 0;
  if (c->size == VBI_DOUBLE_WIDTH || c->size == VBI_DOUBLE_SIZE)
    return right != NULL && right->size == VBI_OVER_TOP && right->unicode == c->unicode;
  return 1;
}

V_HARNESS(h_c17_haystack)
{
  static ucs2_t pattern[2] = { 'a', 0 };
  static ucs2_t EXPH[2 * ROWLEN + 2];
  unsigned n = 0, rowlen[2] = { 0, 0 }, i;
  int r, k, st;
  vbi_page *pg;
  V_INIT();
  for (r = 0; r < HROWS; r++)
    for (k = 0; k < HC + 2; k++) in_bytes(&HCELL[r][k], sizeof(vbi_char));
#ifdef SIZES
  /* size attributes fixed by the grid (SIZES = 4 decimal digits: cells at columns 0, 1, 39, 40 of both rows; HC must be 2):
     with symbolic sizes the write position in the haystack is symbolic and every store goes through a symbolic offset
     into the 12 KB search object (measured: 10 GB after 100 s for ONE row with 4 symbolic cells) */
  for (r = 0; r < HROWS; r++) {
    HCELL[r][0].size = (SIZES / 1000) % 10; HCELL[r][1].size = (SIZES / 100) % 10;
    HCELL[r][2].size = (SIZES / 10) % 10; HCELL[r][3].size = SIZES % 10;
  }
#endif
  for (r = 0; r < HROWS; r++) {
    for (k = 0; k < HC; k++) V_ASSUME(c17_cell_ok(&HCELL[r][k], k + 1 < HC ? &HCELL[r][k + 1] : NULL));
    V_ASSUME(c17_cell_ok(&HCELL[r][HC], &HCELL[r][HC + 1]));
    V_ASSUME(HCELL[r][HC + 1].size != VBI_DOUBLE_WIDTH && HCELL[r][HC + 1].size != VBI_DOUBLE_SIZE && HCELL[r][HC + 1].size <= VBI_DOUBLE_SIZE2);
  }
  U[0].pgno = 0x100; U[0].subno = 0; U[0].lop = 1; U[0].match = 0; U[0].occ = 0;
  PRESENT[0] = 1;
  c17_hay_mode = 1;
  S = vbi_search_new(&VBI, 0x100, 0, pattern, FALSE, TRUE, NULL);
  V_ASSERT(S != NULL, "search_new_succeeds");
  c17_page_geometry();
  st = vbi_search_next(S, &pg, +1);
  V_ASSERT(st == VBI_SEARCH_NOT_FOUND, "single_page_without_match");
  V_ASSERT(c17_n_exec == 1 && c17_hay_off == 0, "matcher_run_once_on_the_whole_haystack");

  /* oracle: the displayed characters of rows 1..23, columns 0..39, left to right: one character per NORMAL /
     DOUBLE_HEIGHT / DOUBLE_WIDTH / DOUBLE_SIZE cell, nothing for continuation cells, one separator per row */
  for (r = 0; r < HROWS; r++) {
    unsigned start = n;
    for (k = 0; k < 40; k++) {
      const vbi_char *c = (k < HC) ? &HCELL[r][k] : (k == 39) ? &HCELL[r][HC] : NULL;
      if (c == NULL) { EXPH[n++] = 0; continue; }
      if (c->size <= VBI_DOUBLE_SIZE) EXPH[n++] = c->unicode;
    }
    rowlen[r] = n - start;
    EXPH[n++] = SEPARATOR;
  }
  V_ASSERT(c17_hay_len == n + (LAST_ROW - FIRST_ROW - HROWS) * ROWLEN, "haystack_length");
  V_ASSERT(c17_hay_len <= sizeof S->haystack / sizeof S->haystack[0], "haystack_fits_buffer");
  for (i = 0; i < 2 * ROWLEN; i++)
    if (i < n) V_ASSERT(S->haystack[i] == EXPH[i], "haystack_rows_1_2");
  if (LAST_ROW > 3) V_ASSERT(S->haystack[n + 40] == SEPARATOR && S->haystack[n] == 0, "row_3_follows");
  V_ASSERT(S->haystack[c17_hay_len - 1] == SEPARATOR, "last_row_separator");
  if (rowlen[0] < 40) V_REACH("folded");
  if (rowlen[0] == 40 - HC) V_REACH("all_symbolic_cells_skipped_or_folded");
  vbi_search_delete(S);
  V_END();
}

/* ------------------------------------------------------------------ continuation positions left by highlight() */

/* highlight(s, vtp, first, ms, me) is called with the match [ms, me) (offsets relative to `first') and must leave
 *   (row[0], col[0]) = the first cell at or behind the end of the match: where a forward search continues (search_page_fwd starts
 *                      its text at that cell), LAST_ROW + 1 / 0 when the match ends with the page;
 *   (row[1], col[1]) = the cell the match starts in: where a backward search stops (search_page_rev takes the cells strictly
 *                      before it), so that the occurrence just returned is not found again;
 *   start_pgno/subno = the page.
 * Page: 25 x 41, every cell NORMAL_SIZE (one haystack character per cell, 40 per row + separator): offset of cell (i, j) is
 * (i - 1) * 41 + j.  ms, me symbolic.
 * KNOWN_C17_HIGHLIGHT_ROW1 (TODO-defect-candidates.md item 9): a match that begins in the very first cell (ms == 0) leaves row[1] /
 * col[1] at their old values (they are only written for cells in front of the match): the next backward call searches the whole
 * page again, finds the same occurrence and returns the same page for ever.  With the define ms > 0 is assumed. */
V_HARNESS(h_c17_highlight)
{
  static ucs2_t pattern[2] = { 'a', 0 };
  unsigned long ms, me; int er0, ec0, r1_0, c1_0;
  V_INIT();
  ms = in_u16(); me = in_u16(); r1_0 = in_u8(); c1_0 = in_u8();
#ifdef HL_MS
  /* match position fixed by the grid, the state an earlier call left (row[1], col[1]) stays symbolic.  With ms, me symbolic every one of the
     40 x rows cell iterations carries a symbolic early return and up to four guarded colour stores into the 1056 cell page: 9.4 GB after 273 s
     for a 3 row slice (out of memory), no verdict in 900 s for the full page */
  ms = HL_MS; me = HL_ME;
#endif
  V_ASSUME(ms < me && me <= (unsigned long) HAYLEN);
  V_ASSUME(ms % ROWLEN != 40);			/* a match begins with a character, not with a row separator */
#ifdef KNOWN_C17_HIGHLIGHT_ROW1
  V_ASSUME(ms > 0);
#endif
  U[0].pgno = 0x1AB; U[0].subno = 0x12; U[0].lop = 1; PRESENT[0] = 1;
  CP[0].pgno = U[0].pgno; CP[0].subno = U[0].subno; CP[0].function = PAGE_FUNCTION_LOP;
  S = vbi_search_new(&VBI, 0x100, 0, pattern, FALSE, TRUE, NULL);
  V_ASSERT(S != NULL, "search_new_succeeds");
  c17_page_geometry();
  S->row[1] = r1_0; S->col[1] = c1_0;		/* whatever an earlier call left */

  highlight(S, &CP[0], S->haystack, (long) ms, (long) me);

  V_ASSERT(S->start_pgno == 0x1AB && S->start_subno == 0x12, "highlight_remembers_the_page");
  if (me % ROWLEN == 40) { er0 = 2 + (int) (me / ROWLEN); ec0 = 0; } else { er0 = 1 + (int) (me / ROWLEN); ec0 = (int) (me % ROWLEN); }
  if (er0 >= LAST_ROW) { er0 = LAST_ROW + 1; ec0 = 0; }
  V_ASSERT(S->row[0] == er0 && S->col[0] == ec0, "forward_continuation_is_the_first_cell_behind_the_match");
  V_ASSERT(S->row[1] == 1 + (int) (ms / ROWLEN) && S->col[1] == (int) (ms % ROWLEN), "backward_continuation_is_the_cell_the_match_starts_in");
  if (ms == 0) V_REACH("match_in_first_cell");
  if (er0 > LAST_ROW) V_REACH("match_ends_with_page");
  vbi_search_delete(S);
  V_END();
}

