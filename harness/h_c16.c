/* h_c16.c - C16 group 1: the export write layer of src/export.c with a harness-defined exporter.
 *
 * The exporter is an export module whose export() performs 4 operations taken from everything export.h allows a
 * module to do:
 *    vbi_export_write, vbi_export_putc, vbi_export_puts (string / NULL), vbi_export_flush,
 *    "grow the buffer, then store directly into e->buffer.data" (the ppm/png style), and (obligation write_printf,
 *    PFMASK) vbi_export_printf with the template "%s" through a C99 vsnprintf model (models/c16_stubs.c).
 * Byte counts (L0..L3) and operation kinds (KINDS) come from the grid (every kind that appends that many bytes is
 * enumerated), byte contents and the exporter's return value are symbolic.  The byte sequence it means to emit (REF,
 * TOTAL) is computed by the harness from the same operation list.
 * (Symbolic lengths: symbolic-size realloc/memcpy -> 10 GB, no result in 140 s.  Symbolic kinds with concrete lengths:
 *  the buffer pointer becomes a 3..5-way choice of heap objects per operation -> no result in 290 s.)
 *
 *   h_c16_mem    vbi_export_mem into an exact-size heap object of BUFSZ bytes (grid 0..TOTAL+1): returns TOTAL, the
 *                first min(BUFSZ,TOTAL) bytes are REF, buffer[BUFSZ] is never touched (object bounds), export object
 *                left clean; then vbi_export_alloc with the same exporter: TOTAL bytes, equal to REF.
 *   h_c16_stdio  vbi_export_stdio through the fwrite model: TRUE <=> exporter ok and no short write; TRUE => stream
 *                contents == REF; FALSE => contents are a prefix of REF.
 *   h_c16_file   vbi_export_file through the open/write/close/stat/unlink model: TRUE => file == REF, closed once,
 *                not unlinked; FALSE => closed iff opened, unlinked iff regular, contents a prefix of REF.
 *   h_c16_big    (-DG_BIG) one write of 4096 bytes (the fast_write path that by-passes the buffer) between two small
 *                ones, stdio or file target: same bytes in the same order.
 */
#include "verif.h"
#include "c16_io.h"
#include "src/export.c"

#define NOPS 4
#ifndef L0
#define L0 2
#define L1 1
#define L2 0
#define L3 3
#endif
/* bytes appended by each operation: CONCRETE (grid), so that every offset, capacity and allocation size is concrete
   on every path (symbolic-length memcpy/realloc does not get through the SAT conversion: measured 10 GB / no result);
   the KIND of each operation stays symbolic among those that append that many bytes, contents symbolic */
static const uint8_t OPLEN[4] = { L0, L1, L2, L3 };
#define MAX2(a, b) ((a) > (b) ? (a) : (b))
#define LMAX MAX2(MAX2(L0, L1), MAX2(MAX2(L2, L3), 1))
#define LSUM (L0 + L1 + L2 + L3)
#ifndef BUFSZ
#define BUFSZ 7
#endif
#define RMAX (LSUM > 0 ? LSUM : 1)

enum { K_WRITE, K_PUTC, K_PUTS, K_PUTS_NULL, K_FLUSH, K_DIRECT, K_PRINTF, K_N };
/* PFMASK (grid): bit i set = operation i is vbi_export_printf(e, "%s", <string of OPLEN[i] characters>), whatever KINDS says */
#ifndef PFMASK
#define PFMASK 0
#endif

struct c16_op { uint8_t kind, len; uint8_t data[LMAX + 1]; };
static struct c16_op OPS[NOPS];
static char PUTS_SRC[NOPS][LMAX + 1];   /* concrete strings of OPLEN[i] characters (strlen must stay concrete, see above) */
static int EXP_OK;            /* what the exporter returns when no write failed */
static int EXP_CALLS;
static uint8_t REF[RMAX + 1];
static unsigned TOTAL;
static vbi_page *PG_SEEN;
static int MEM_TARGETS;       /* 1: the target cannot fail (mem/alloc): every output call must return TRUE */

static vbi_bool c16_export(vbi_export *e, vbi_page *pg)
{
  unsigned i, j;
  EXP_CALLS++;
  PG_SEEN = pg;
  for (i = 0; i < NOPS; i++) {
    struct c16_op *o = &OPS[i];
    vbi_bool r = TRUE;
    switch (o->kind) {
    case K_WRITE: r = vbi_export_write(e, o->data, o->len); break;
    case K_PUTC: r = vbi_export_putc(e, o->data[0]); break;
    case K_PUTS: r = vbi_export_puts(e, PUTS_SRC[i]); break;
    case K_PUTS_NULL: r = vbi_export_puts(e, NULL); break;
    case K_FLUSH: r = vbi_export_flush(e); break;
    case K_PRINTF: r = vbi_export_printf(e, "%s", PUTS_SRC[i]); break;
    default:
      r = _vbi_export_grow_buffer_space(e, o->len);
      if (r) {
        for (j = 0; j < LMAX; j++)
          if (j < o->len) e->buffer.data[e->buffer.offset + j] = (char) o->data[j];
        e->buffer.offset += o->len;
      } else {
        e->write_error = TRUE;        /* what exp-gfx.c does when the preallocation fails */
      }
      break;
    }
    if (MEM_TARGETS) V_ASSERT(r, "output_call_succeeds_on_memory_target");
    else V_ASSERT(r == !e->write_error, "output_call_result_is_error_flag");
  }
  return EXP_OK && !e->write_error;
}

static vbi_export_info c16_info = { .keyword = "c16", .label = NULL };
static vbi_export_class c16_class = { ._public = &c16_info, .export = c16_export };
static vbi_export E;
static int c16_dummy_page;     /* the write layer hands pg through; it must never look at it */
#define PG ((vbi_page *) &c16_dummy_page)

static void c16_setup(void)
{
  unsigned i, j;
  for (i = 0; i < NOPS; i++) {
    struct c16_op *o = &OPS[i];
    /* the kind must append exactly OPLEN[i] bytes: symbolic choice among the kinds that do */
    static const uint8_t k0[5] = { K_WRITE, K_PUTS, K_PUTS_NULL, K_FLUSH, K_DIRECT };
    static const uint8_t k1[4] = { K_WRITE, K_PUTC, K_PUTS, K_DIRECT };
    static const uint8_t kn[3] = { K_WRITE, K_PUTS, K_DIRECT };
    uint8_t sel = in_u8();
    o->len = OPLEN[i];
    o->kind = (o->len == 0) ? k0[sel % 5] : (o->len == 1) ? k1[sel % 4] : kn[sel % 3];
#ifdef KINDS
    /* kinds fixed by the grid: KINDS is a 4-digit decimal number, digit i (most significant first) = index into the
       list of kinds that append OPLEN[i] bytes */
    {
      static const unsigned div[4] = { 1000, 100, 10, 1 };
      unsigned dg = (KINDS / div[i]) % 10;
      o->kind = (o->len == 0) ? k0[dg % 5] : (o->len == 1) ? k1[dg % 4] : kn[dg % 3];
    }
#endif
    if ((PFMASK >> i) & 1) o->kind = K_PRINTF;
    in_bytes(o->data, LMAX);
    o->data[LMAX] = 0;
    for (j = 0; j < LMAX; j++) PUTS_SRC[i][j] = (j < o->len) ? (char) ('a' + 7 * i + j) : 0;
    PUTS_SRC[i][LMAX] = 0;
  }
  EXP_OK = in_bool();
  /* the reference byte sequence: an independent reading of "what the module emitted" */
  TOTAL = 0;
  for (i = 0; i < NOPS; i++) {
    struct c16_op *o = &OPS[i];
    for (j = 0; j < LMAX; j++)
      if (j < o->len) REF[TOTAL + j] = (o->kind == K_PUTS || o->kind == K_PRINTF) ? (uint8_t) PUTS_SRC[i][j] : o->data[j];
    TOTAL += o->len;
  }
  memset(&E, 0, sizeof E);
  E._class = &c16_class;
}

static void c16_check_clean(void)
{
  /* frame: the members of the export object the write layer has no business with (CBMC checks only the outer object) */
  V_ASSERT(E.network == NULL && E.creator == NULL && E.reveal == 0, "export_options_untouched");
  V_ASSERT(E.target == 0, "target_reset");
  V_ASSERT(E.buffer.data == NULL && E.buffer.offset == 0 && E.buffer.capacity == 0, "buffer_reset");
  V_ASSERT(E._write == NULL, "write_fn_reset");
}

V_HARNESS(h_c16_mem)
{
  uint8_t *buf, *shadow;
  uint8_t fill;
  ssize_t r;
  unsigned i;
  void *abuf = NULL, *p;
  size_t asize = 12345;
  V_INIT();
  c16_setup();
  fill = in_u8();
  MEM_TARGETS = 1;
  buf = (uint8_t *) malloc(BUFSZ);          /* exact size: buffer[BUFSZ] is outside the object */
  V_ASSUME(buf != NULL);
  for (i = 0; i < BUFSZ; i++) buf[i] = fill;

  r = vbi_export_mem(&E, buf, BUFSZ, PG);
  V_ASSERT(EXP_CALLS == 1 && PG_SEEN == PG, "exporter_called_once_with_page");
  if (EXP_OK) {
    V_ASSERT(r == (ssize_t) TOTAL, "mem_returns_size_needed");
    for (i = 0; i < BUFSZ; i++)
      if (i < TOTAL) V_ASSERT(buf[i] == REF[i], "mem_prefix_equals_reference");
    if (TOTAL > BUFSZ) V_REACH("too_small");
    if (TOTAL == BUFSZ && BUFSZ > 0) V_REACH("exact_fit");
    if (TOTAL + 1 == BUFSZ) V_REACH("one_spare");
    if (TOTAL == BUFSZ + 1) V_REACH("one_short");
  } else {
    V_ASSERT(r == -1, "mem_failure_is_minus_one");
  }
  c16_check_clean();

  p = vbi_export_alloc(&E, &abuf, &asize, PG);
  V_ASSERT(EXP_CALLS == 2, "exporter_called_once_per_export");
  if (EXP_OK) {
    V_ASSERT(asize == TOTAL, "alloc_size_is_total");
    V_ASSERT(p == abuf, "alloc_returns_buffer");
    V_ASSERT(p != NULL || TOTAL == 0, "alloc_buffer_exists");
    for (i = 0; i < RMAX; i++)
      if (i < TOTAL) V_ASSERT(((uint8_t *) p)[i] == REF[i], "alloc_equals_reference");
    free(p);
  } else {
    V_ASSERT(p == NULL && abuf == NULL && asize == 12345, "alloc_failure_leaves_outputs");
  }
  c16_check_clean();
  free(buf);
  V_END();
}

static void c16_io_setup(void)
{
  memset(&C16IO, 0, sizeof C16IO);
  C16IO.fault_call = in_u8(); C16IO.fault_kind = in_u8(); C16IO.fault_part = in_u8(); C16IO.zero_repeat = in_u8();
  C16IO.open_eintr = in_u8(); C16IO.open_fail = in_bool(); C16IO.close_fail = in_bool(); C16IO.stat_regular = in_bool();
  C16IO.fault_kind %= 3; C16IO.zero_repeat %= 13; C16IO.open_eintr %= 12;
  C16IO.fp = c16_stream_object;
}

static void c16_check_log(int success)
{
  unsigned i;
  if (success) {
    V_ASSERT(C16IO.len == TOTAL, "target_length_is_total");
    V_REACH("success");
  } else {
    V_ASSERT(C16IO.len <= TOTAL, "target_not_longer_than_total");
  }
  for (i = 0; i < RMAX; i++)
    if (i < C16IO.len) V_ASSERT(C16IO.log[i] == REF[i], "target_bytes_equal_reference_in_order");
}

V_HARNESS(h_c16_stdio)
{
  vbi_bool r;
  int hard;
  V_INIT();
  c16_setup();
  c16_io_setup();
  MEM_TARGETS = 0;
  r = vbi_export_stdio(&E, (FILE *) c16_stream_object, PG);
  V_ASSERT(EXP_CALLS == 1 && PG_SEEN == PG, "exporter_called_once_with_page");
  hard = C16IO.faulted;                            /* stdio: any short fwrite is an error */
  if (!EXP_OK) V_ASSERT(!r, "exporter_failure_propagates");
  if (EXP_OK && !hard) V_ASSERT(r, "success_without_io_fault");
  if (r) V_ASSERT(EXP_OK && !hard, "no_success_after_short_write");
  if (!r && hard) V_REACH("io_fault");
  c16_check_log(r);
  c16_check_clean();
  free(E.errstr); E.errstr = NULL;      /* the error message belongs to the export object (vbi_export_delete frees it) */
  V_END();
}

V_HARNESS(h_c16_file)
{
  vbi_bool r;
  int hard;
  static const char name[] = "out.txt";
  V_INIT();
  c16_setup();
  c16_io_setup();
  MEM_TARGETS = 0;
  r = vbi_export_file(&E, name, PG);
  V_ASSERT(C16IO.fd_open == 0, "descriptor_not_leaked");
  if (C16IO.open_fail || C16IO.open_eintr >= 10) {
    V_ASSERT(!r && EXP_CALLS == 0 && C16IO.n_close == 0 && C16IO.len == 0, "open_failure_nothing_done");
    V_REACH("open_failed");
  } else {
    V_ASSERT(EXP_CALLS == 1 && PG_SEEN == PG, "exporter_called_once_with_page");
    V_ASSERT(C16IO.n_close == 1, "closed_exactly_once");
    /* write(2) returning 0 is retried up to 10 times by write_fd (documented in the code); the 11th is an error */
    hard = C16IO.faulted || C16IO.n_zero > 10;
    if (C16IO.n_zero > 0 && C16IO.n_zero <= 10 && r) V_REACH("retried");
    if (!EXP_OK) V_ASSERT(!r, "exporter_failure_propagates");
    if (EXP_OK && !hard && !C16IO.close_fail) V_ASSERT(r, "success_without_io_fault");
    if (r) V_ASSERT(EXP_OK && !hard && !C16IO.close_fail && C16IO.n_unlink == 0, "success_means_complete_file_kept");
    if (!EXP_OK || hard) V_ASSERT(C16IO.n_unlink == (C16IO.stat_regular ? 1u : 0u), "failed_regular_file_removed_once");
    if (!r && hard) V_REACH("io_fault");
    c16_check_log(r);
    c16_check_clean();
    V_ASSERT(E.name == NULL, "name_reset");
  }
  free(E.errstr); E.errstr = NULL;
  V_END();
}

/* ---- the unbuffered path: writes of >= 4096 bytes go straight to the target after flushing the buffer ---------- */
#ifdef G_BIG      /* compiled in only for write_big: a 4 KB static costs symex time in every harness of this file */
#define BIG 4096
static uint8_t BIGSRC[BIG];
static uint8_t b_pre[2], b_post[2];
static vbi_bool c16_big_export(vbi_export *e, vbi_page *pg)
{
  (void) pg;
  vbi_export_write(e, b_pre, 2);
  vbi_export_write(e, BIGSRC, BIG);
  vbi_export_write(e, b_post, 2);
  return !e->write_error;
}
static vbi_export_class c16_big_class = { ._public = &c16_info, .export = c16_big_export };

V_HARNESS(h_c16_big)
{
  vbi_bool r;
  int use_fd;
  V_INIT();
  in_bytes(b_pre, 2); in_bytes(b_post, 2);
  BIGSRC[0] = in_u8(); BIGSRC[1] = in_u8(); BIGSRC[BIG - 1] = in_u8();
  use_fd = in_bool();
  memset(&E, 0, sizeof E);
  E._class = &c16_big_class;
  memset(&C16IO, 0, sizeof C16IO);
  C16IO.fault_call = 255;
  C16IO.fp = c16_stream_object;
  if (use_fd) r = vbi_export_file(&E, "big.bin", PG);
  else r = vbi_export_stdio(&E, (FILE *) c16_stream_object, PG);
  V_ASSERT(r, "big_success");
  V_ASSERT(C16IO.n_write_calls == 3 && C16IO.len == BIG + 4, "big_three_writes_total_length");
  V_ASSERT(C16IO.call[0].n == 2 && C16IO.call[0].first == b_pre[0] && C16IO.call[0].last == b_pre[1], "big_buffered_bytes_flushed_first");
  V_ASSERT(C16IO.call[1].n == BIG && C16IO.call[1].src == (const void *) BIGSRC, "big_block_written_directly_from_source");
  V_ASSERT(C16IO.log[2] == BIGSRC[0] && C16IO.log[3] == BIGSRC[1] && C16IO.call[1].last == BIGSRC[BIG - 1], "big_block_bytes");
  V_ASSERT(C16IO.call[2].n == 2 && C16IO.call[2].first == b_post[0] && C16IO.call[2].last == b_post[1], "big_tail_after_block");
  c16_check_clean();
  V_END();
}
#endif /* G_BIG */
