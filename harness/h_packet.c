/* Teletext packet decoder leaf obligations (src/packet.c), shared by C01 (memory safety of every parser on
 * arbitrary input), C03 (single-bit-error invariance, containment) and C02 (links).
 *
 * Real unit: src/packet.c (included).  Linked: src/hamm.c.
 * Cut (DESIGN R2): struct caption (168 KB member of vbi_decoder, never touched by packet.c) is replaced by a
 * dummy through the include guard of cc.h. */
#include "verif.h"
#include "ref_codes.h"

#define CC_H
#include <pthread.h>
#ifdef CARVE_PAGE_UNION
/* Cut (R17): the runner hands the LEAF PARSER obligations a scratch copy of cache-priv.h (regenerated from the current source on every run) in
   which the anonymous page union `data` of cache_page is a struct.  cbmc represents a union by its widest member (drcs, 4416 bytes); every
   store to another member is lowered to a byte update that rebuilds all ~4000 scalars of that member: ONE parse_pop call cost 81 s / 3.2 GB,
   with the members laid out side by side 4.5 s / 0.24 GB.  Sound for functions which use a single member of the union (parse_pop: pop,
   parse_ait: ait, parse_27: unknown, parse_28_29: ext_lop.ext, convert_drcs: drcs, parse_mip: unknown, lop_parity_check: lop.raw and
   enh_lop.enh, never enh_lop.lop) - they cannot observe the layout; a store that leaves its member lands in a sibling that must stay zero
   (frame assertions).  NOT used for the dispatcher obligations (vbi_decode_teletext relies on the members overlaying each other).
   Included first so that its include guard wins over /repo/src/cache-priv.h. */
#include "cache-priv.h"
#endif
#include "src/bcd.h"
#include "src/format.h"
#ifndef VBI_DECODER
#define VBI_DECODER
typedef struct vbi_decoder vbi_decoder;
#endif
struct caption { int carved_out; };

#include "src/packet.c"

/* Big static objects are only compiled in when an obligation asks for them (-DG_xxx from the Ob): every static costs
   symex time in __CPROVER_initialize (field-sensitive zero initialisation), whether the harness uses it or not. */
#if !defined(G_DEC) && !defined(G_X28) && !defined(G_DECCOPY) && !defined(G_CP) && !defined(G_CPD) && !defined(G_MAG) && !defined(G_RP) && !defined(G_NONE)
#define G_DEC
#define G_DECCOPY
#define G_CP
#define G_CPD
#define G_MAG
#define G_RP
#endif

#if defined(VERIF_CBMC) && defined(LIBC_BYTE_MODELS)
/* libc models (part of the claim, R19): cbmc's built-in memcpy/memset/memmove replace a byte range of the WHOLE destination object (here the 52 KB
   decoder), after which none of its members constant-folds.  Byte loops with the (concrete) lengths the decoder uses keep it field sensitive.
   The native replay build uses libc. */
void *memcpy(void *dst, const void *src, size_t n) { uint8_t *d = dst; const uint8_t *s = src; size_t i; for (i = 0; i < n; i++) d[i] = s[i]; return dst; }
void *memset(void *dst, int c, size_t n) { uint8_t *d = dst; size_t i; for (i = 0; i < n; i++) d[i] = (uint8_t) c; return dst; }
void *memmove(void *dst, const void *src, size_t n)
{ uint8_t *d = dst; const uint8_t *s = src; size_t i; if (d == s || n == 0) return dst;
  if (d < s) for (i = 0; i < n; i++) d[i] = s[i]; else for (i = n; i > 0; i--) d[i - 1] = s[i - 1]; return dst; }
#endif

/* ---------------- environment stubs (everything packet.c references outside itself) ---------------- */
static unsigned ev_n; static int ev_type[4];
#ifdef PKT_EVENT_HOOK
static void PKT_EVENT_HOOK(vbi_decoder *vbi, vbi_event *ev);
#endif
static unsigned chsw_n; static unsigned chsw_nuid;
void vbi_send_event(vbi_decoder *vbi, vbi_event *ev) { (void) vbi; if (ev_n < 4) ev_type[ev_n] = ev->type; ev_n++;
#ifdef PKT_EVENT_HOOK
  PKT_EVENT_HOOK(vbi, ev);
#endif
}
void vbi_chsw_reset(vbi_decoder *vbi, vbi_nuid nuid) { (void) vbi; chsw_n++; chsw_nuid = nuid; }
static unsigned put_n; static cache_page *get_result;
cache_page *_vbi_cache_put_page(vbi_cache *ca, cache_network *cn, const cache_page *cp) { (void) ca; (void) cn; (void) cp; put_n++; return 0; }
cache_page *_vbi_cache_get_page(vbi_cache *ca, cache_network *cn, vbi_pgno pgno, vbi_subno subno, vbi_subno mask)
{ (void) ca; (void) cn; (void) pgno; (void) subno; (void) mask; return get_result; }
void cache_page_unref(cache_page *cp) { (void) cp; }
unsigned int cache_page_size(const cache_page *cp) { (void) cp; return sizeof(cache_page); }
void vbi_eacem_trigger(vbi_decoder *vbi, unsigned char *s) { (void) vbi; (void) s; }
int vbi_format_vt_page(vbi_decoder *vbi, vbi_page *pg, cache_page *vtp, vbi_wst_level max_level, int display_rows, vbi_bool navigation)
{ (void) vbi; (void) pg; (void) vtp; (void) max_level; (void) display_rows; (void) navigation; return 0; }
#ifndef PKT_OWN_CNI_TABLE
const struct vbi_cni_entry vbi_cni_table[1];
#endif
struct vbi_font_descr vbi_font_descriptors[88];
#ifndef WITH_830
vbi_bool vbi_decode_teletext_8301_local_time(time_t *t, int *se, const uint8_t b[42]) { (void) t; (void) se; (void) b; return FALSE; }
vbi_bool vbi_decode_teletext_8302_pdc(vbi_program_id *pid, const uint8_t b[42]) { (void) pid; (void) b; return FALSE; }
vbi_bool vbi_decode_vps_cni(unsigned int *cni, const uint8_t b[13]) { (void) cni; (void) b; return FALSE; }
vbi_bool vbi_decode_vps_pdc(vbi_program_id *pid, const uint8_t b[13]) { (void) pid; (void) b; return FALSE; }
#endif
size_t _vbi_strlcpy(char *dst, const char *src, size_t size) { size_t i = 0; if (size) { for (; i + 1 < size && src[i]; i++) dst[i] = src[i]; dst[i] = 0; } return i; }

/* ---------------- helpers ---------------- */
/* the state objects are statics, every cbmc run / native replay process executes ONE harness function: they are all-zero already.
   An explicit memset of a 4.4 KB object turns it into one byte array for cbmc (array_set), after which no member constant-folds (R12). */
#define ZERO_STATIC(x) do { } while (0)

/* run `call` with the symbolic value v bound to a compile-time constant k (exhaustive case split lo..hi):
   symex then sees concrete switch arms and concrete indices (DESIGN R2) */
#ifdef PKTSEL   /* the runner enumerates the value (one cbmc run per packet number) */
#define FOR_CONCRETE(k, lo, hi, v, call) do { const int k = (PKTSEL); V_ASSUME((v) == k && k >= (lo) && k <= (hi)); { call; } } while (0)
#else
#define FOR_CONCRETE(k, lo, hi, v, call) do { int k; for (k = (lo); k <= (hi); k++) if ((v) == k) { call; } } while (0)
#endif

/* the comparison helpers below are harness code over harness-owned objects with constant sizes: cbmc's automatic pointer/bounds/overflow
   checks are switched off INSIDE them (they produced > 160 000 VCCs per run and most of the symex time); the code under test keeps every
   check, and the native replay build runs the helpers under ASan/UBSan */
#ifdef VERIF_CBMC
#pragma CPROVER check push
#pragma CPROVER check disable "pointer"
#pragma CPROVER check disable "bounds"
#pragma CPROVER check disable "pointer-overflow"
#pragma CPROVER check disable "signed-overflow"
#pragma CPROVER check disable "unsigned-overflow"
#pragma CPROVER check disable "pointer-primitive"
#pragma CPROVER check disable "conversion"
#endif
static int bytes_eq(const void *a, const void *b, size_t n)
{ const uint8_t *p = a, *q = b; size_t i; int ok = 1; for (i = 0; i < n; i++) ok &= (p[i] == q[i]); return ok; }

/* every byte of obj outside [lo,hi) is zero.  CBMC checks member arrays reached through a pointer only against the END OF THE
   ENCLOSING OBJECT, so an overflow from one member into the next must be caught by such frame assertions (DESIGN 0.2 R14) */
static int zero_except(const void *obj, size_t size, size_t lo, size_t hi)
{ const uint8_t *p = obj; size_t i; int ok = 1; for (i = 0; i < size; i++) if (i < lo || i >= hi) ok &= (p[i] == 0); return ok; }
#include <stddef.h>

/* flip one bit (pos < 8*n) or none (pos >= 8*n) */
static void flip(uint8_t *p, unsigned n, unsigned pos) { unsigned i; for (i = 0; i < n; i++) if (pos / 8 == i) p[i] ^= (uint8_t) (1u << (pos % 8)); }
#ifdef VERIF_CBMC
#pragma CPROVER check pop
#endif
/* overwrite the Hamming 8/4 byte `by` (loop over constants: no symbolic index) with the clean code word of d */
static void put_ham8(uint8_t *raw, unsigned n, unsigned by, unsigned d) { unsigned i; for (i = 0; i < n; i++) if (i == by) raw[i] = (uint8_t) ref_ham8(d & 15); }
/* overwrite triplet t (bytes 1+3t..3+3t) with the clean Hamming 24/18 code word of d */
static void put_ham24(uint8_t *raw, unsigned t, unsigned d) { unsigned k, w = ref_ham24(d & 0x3FFFF);
  for (k = 0; k < 13; k++) if (k == t) { raw[1 + 3 * k] = (uint8_t) w; raw[2 + 3 * k] = (uint8_t) (w >> 8); raw[3 + 3 * k] = (uint8_t) (w >> 16); } }
/* is byte a Hamming 8/4 code word */
static int is_ham8(unsigned c) { unsigned d; int r = 0; for (d = 0; d < 16; d++) r |= (ref_ham8(d) == (c & 0xFF)); return r; }

/* =============== unham_page_link: C02(d) reference encoder, C03 1-bit invariance, 2-bit rejection =============== */
/* EN 300 706 9.6.1: six Hamming 8/4 bytes: page units, page tens, S1, S2+M1(bit 4), S3, S4+M2+M3; link magazine
   = current magazine XOR (M3 M2 M1) */
static void ref_encode_link(uint8_t *raw, unsigned mag_cur /*0..7*/, unsigned mag_link /*1..8*/, unsigned page, unsigned subno)
{
  unsigned rel = (mag_link & 7) ^ mag_cur;
  unsigned s1 = subno & 15, s2 = (subno >> 4) & 7, s3 = (subno >> 8) & 15, s4 = (subno >> 12) & 3;
  raw[0] = ref_ham8(page & 15); raw[1] = ref_ham8(page >> 4);
  raw[2] = ref_ham8(s1); raw[3] = ref_ham8(s2 | ((rel & 1) << 3));
  raw[4] = ref_ham8(s3); raw[5] = ref_ham8(s4 | (((rel >> 1) & 1) << 2) | (((rel >> 2) & 1) << 3));
}

V_HARNESS(h_pagelink)
{
  uint8_t raw[6], bad[6]; struct ttx_page_link a, b, c, o; unsigned mag_cur, mag_link, page, subno, pos, p2; vbi_bool r;
  V_INIT();
  mag_cur = in_u8() & 7; mag_link = 1 + (in_u8() & 7); page = in_u8(); subno = in_u16() & 0x3F7F; pos = in_u8(); p2 = in_u8();
  in_bytes(&a, sizeof a); b = a; c = a; o = a;
  ref_encode_link(raw, mag_cur, mag_link, page, subno);
  r = unham_page_link(&a, raw, (int) mag_cur);
  V_ASSERT(r, "link_clean_accepted");
  V_ASSERT(a.pgno == (int) (mag_link * 256 + page) && a.subno == (int) subno, "link_roundtrip");
  /* one bit error anywhere: same result */
  memcpy(bad, raw, 6); flip(bad, 6, pos % 48);
  r = unham_page_link(&b, bad, (int) mag_cur);
  V_ASSERT(r && b.pgno == a.pgno && b.subno == a.subno, "link_single_error_corrected");
  /* two bit errors in one byte: rejected, output untouched */
  { unsigned by = (pos % 48) / 8, b1 = pos % 8, b2 = p2 % 8; V_ASSUME(b1 != b2);
    memcpy(bad, raw, 6); bad[by] ^= (uint8_t) ((1u << b1) | (1u << b2));
    r = unham_page_link(&c, bad, (int) mag_cur);
    V_ASSERT(!r, "link_double_error_rejected");
    V_ASSERT(bytes_eq(&c, &o, sizeof c), "link_double_error_untouched"); }
  V_END();
}

V_HARNESS(h_pagelink_untouched)
{
  uint8_t raw[6]; struct ttx_page_link a, o; unsigned mag; vbi_bool r; int acc = 1; unsigned i;
  V_INIT();
  in_bytes(raw, 6); mag = in_u8() & 7; in_bytes(&a, sizeof a); o = a;
  r = unham_page_link(&a, raw, (int) mag);
  for (i = 0; i < 6; i++) acc &= (ref_unham8(raw[i]) >= 0);
  V_ASSERT((r != 0) == acc, "link_accept_iff_all_bytes_correctable");
  if (!r) { V_ASSERT(bytes_eq(&a, &o, sizeof a), "link_reject_untouched"); V_REACH("rejected"); }
  else V_ASSERT(a.pgno >= 0x100 && a.pgno <= 0x8FF && (a.subno & ~0x3F7F) == 0, "link_range");
  V_END();
}

/* =============== parse_mot =============== */
#ifdef G_MAG
static struct ttx_magazine MAG, MAG2;
#endif

#if defined(G_MAG)
/* EN 300 706 10.6: MOT packets 1..8 carry the object page associations of 20 pages each (two decades x0..x9), packets 9..14 those
   of the pages with hexadecimal units xA..xF of three decades each (18 entries, 2 unused; packet 14 only 0xFA..0xFF).
   page number (two hex digits) of entry i, or -1 if the entry carries none */
static int ref_mot_page(int packet, int i)
{
  if (packet >= 1 && packet <= 8) return (packet - 1) * 0x20 + (i < 10 ? i : 0x10 + (i - 10));
  if (packet >= 9 && packet <= 14) { int pg = (packet - 9) * 0x30 + (i / 6) * 0x10 + 0x0A + (i % 6);
    /* entries 18 and 19 (the four bytes the standard leaves unused) are stored by the library at the two decimal pages following the third
       decade; no property of the list speaks about MOT associations, so this is tolerated here and noted in DESIGN.md 0.6 */
    if (i >= 18) pg = (packet - 9) * 0x30 + 0x30 + (i - 18);
    return (pg <= 0xFF && !(packet == 14 && i >= 6)) ? pg : -1; }
  return -1;
}
V_HARNESS(h_mot)
{
  uint8_t raw[40], r2[40]; int packet; unsigned pos; int i, k2; int8_t exp_pop[256], exp_drcs[256];
  V_INIT();
  ZERO_STATIC(MAG); ZERO_STATIC(MAG2);   /* parse_mot never reads the magazine: concrete initial state loses nothing */
  in_bytes(raw, 40); packet = in_u8() & 31; pos = in_u16();
  V_ASSUME(pos < 320);
  put_ham8(raw, 40, pos / 8, in_u8());          /* the byte that will be hit is a code word; all others arbitrary */
  memcpy(r2, raw, 40);
  FOR_CONCRETE(k, 0, 31, packet, parse_mot(&MAG, raw, k));
  /* exact result for the link tables (packets 1..14): entry i goes to its page's slot iff both nibbles are correctable; nothing else is written */
  if (packet >= 1 && packet <= 14) {
    for (i = 0; i < 256; i++) exp_pop[i] = exp_drcs[i] = 0;
    for (i = 0; i < 20; i++) {
      int n0 = ref_unham8(raw[2 * i]), n1 = ref_unham8(raw[2 * i + 1]), pg = -1;
      FOR_CONCRETE(k, 1, 14, packet, pg = ref_mot_page(k, i));
      if (pg >= 0 && n0 >= 0 && n1 >= 0) for (k2 = 0; k2 < 256; k2++) if (k2 == pg) { exp_pop[k2] = n0 & 7; exp_drcs[k2] = n1 & 7; }
    }
    V_ASSERT(bytes_eq(MAG.pop_lut, exp_pop, 256), "mot_pop_lut_exact");
    V_ASSERT(bytes_eq(MAG.drcs_lut, exp_drcs, 256), "mot_drcs_lut_exact");
    V_ASSERT(zero_except(&MAG, sizeof MAG, offsetof(struct ttx_magazine, pop_lut), offsetof(struct ttx_magazine, pop_lut) + 512), "mot_lut_packets_write_only_the_luts");
    V_REACH("lut");
  } else if (packet == 0 || (packet >= 15 && packet <= 18) || packet >= 25) {
    V_ASSERT(zero_except(&MAG, sizeof MAG, 0, 0), "mot_unused_packets_write_nothing");
  } else {
    /* 19/20/22/23: object page links, 21/24: DRCS links - never the look-up tables or the extension */
    V_ASSERT(zero_except(&MAG, sizeof MAG, offsetof(struct ttx_magazine, pop_link), sizeof MAG), "mot_link_packets_write_only_links");
  }
  /* C03: a single error in a byte that was a code word is corrected: identical magazine state */
  flip(r2, 40, pos);
  FOR_CONCRETE(k, 0, 31, packet, parse_mot(&MAG2, r2, k));
  V_ASSERT(bytes_eq(&MAG, &MAG2, sizeof MAG), "mot_single_error_same_state");
  V_END();
}
#endif

/* =============== parse_pop =============== */
#ifdef G_CP
static cache_page CP, CP2;
#endif

#if defined(G_CP)
/* Typed frames and comparisons (member-wise): a byte-wise walk over a page costs cbmc ~10 ms of symex per byte (25 000 iterations over the
   side-by-side layout: no end in 300 s); member-wise loops over the tables the parser may touch plus windows into the neighbouring members
   cost a few seconds. */
static int cp_header_eq(const cache_page *a, const cache_page *b)
{ return a->function == b->function && a->pgno == b->pgno && a->subno == b->subno && a->national == b->national && a->flags == b->flags
    && a->lop_packets == b->lop_packets && a->x26_designations == b->x26_designations && a->x27_designations == b->x27_designations
    && a->x28_designations == b->x28_designations && a->ref_count == b->ref_count && a->priority == b->priority && a->network == b->network; }
static int trip_zero(const struct ttx_triplet *t) { return t->address == 0 && t->mode == 0 && t->data == 0; }
static int trip_eq(const struct ttx_triplet *a, const struct ttx_triplet *b) { return a->address == b->address && a->mode == b->mode && a->data == b->data; }
static int plink_zero(const struct ttx_page_link *l) { return l->function == 0 && l->pgno == 0 && l->subno == 0; }
static int plink_eq(const struct ttx_page_link *a, const struct ttx_page_link *b) { return a->function == b->function && a->pgno == b->pgno && a->subno == b->subno; }
static const cache_page ZCP;

V_HARNESS(h_pop)
{
  uint8_t raw[40], r2[40]; int packet; unsigned pos, d, i; vbi_bool a, b;
  V_INIT();
  in_bytes(raw, 40); packet = in_u8() & 31; pos = in_u16(); d = in_u32();
  V_ASSUME(packet >= 1 && packet <= 26);
  V_ASSUME(pos < 320);
  /* the unit (designation byte or triplet) that will be hit is error free; every other byte is arbitrary */
  if (pos / 8 == 0) put_ham8(raw, 1, 0, d); else put_ham24(raw, (pos / 8 - 1) / 3, d);
  memcpy(r2, raw, 40);
  FOR_CONCRETE(k, 1, 26, packet, a = parse_pop(&CP, raw, k));
  { /* frame (EN 300 706 10.5.1): pointer packets 1..4 with odd designation write the 12 pointer pairs of that packet, every other
       accepted packet its 13 triplets; a rejected packet writes nothing (parse_pop only writes: initial state all zero) */
    int des = ref_unham8(raw[0]), pk = packet; unsigned plo = 0, phi = 0, tlo = 0, thi = 0;
    if (packet == 26 && des >= 0) pk = 26 + des;
    if (a) { if (pk <= 4 && (des & 1)) { plo = (unsigned) (pk - 1) * 26 + 2; phi = plo + 24; } else { tlo = (unsigned) (pk - 3) * 13; thi = tlo + 13; } }
    V_ASSERT(phi <= N_ELEMENTS(CP.data.pop.pointer), "pop_pointer_region_inside_pointer_table");
    V_ASSERT(thi <= N_ELEMENTS(CP.data.pop.triplet), "pop_region_inside_tables");
    V_ASSERT(cp_header_eq(&CP, &ZCP), "pop_page_header_untouched");
    for (i = 0; i < N_ELEMENTS(CP.data.pop.pointer); i++) if (i < plo || i >= phi) V_ASSERT(CP.data.pop.pointer[i] == 0, "pop_writes_only_its_pointers_or_triplets");
    for (i = 0; i < N_ELEMENTS(CP.data.pop.triplet); i++) if (i < tlo || i >= thi) V_ASSERT(trip_zero(&CP.data.pop.triplet[i]), "pop_writes_only_its_pointers_or_triplets");
#ifdef CARVE_PAGE_UNION   /* neighbours of data.pop in the side-by-side layout: the tail of gpop, the head of gdrcs */
    for (i = N_ELEMENTS(CP.data.gpop.triplet) - 64; i < N_ELEMENTS(CP.data.gpop.triplet); i++) V_ASSERT(trip_zero(&CP.data.gpop.triplet[i]), "pop_nothing_before_its_tables");
    for (i = 0; i < 160; i++) V_ASSERT(CP.data.gdrcs.lop.raw[i / 40][i % 40] == 0, "pop_nothing_behind_its_tables");
#endif
  }
  flip(r2, 40, pos);
  FOR_CONCRETE(k, 1, 26, packet, b = parse_pop(&CP2, r2, k));
  /* C03: the single error is corrected: same result, same page */
  V_ASSERT(a == b, "pop_single_error_same_result");
  V_ASSERT(cp_header_eq(&CP, &CP2), "pop_single_error_same_state");
  for (i = 0; i < N_ELEMENTS(CP.data.pop.pointer); i++) V_ASSERT(CP.data.pop.pointer[i] == CP2.data.pop.pointer[i], "pop_single_error_same_state");
  for (i = 0; i < N_ELEMENTS(CP.data.pop.triplet); i++) V_ASSERT(trip_eq(&CP.data.pop.triplet[i], &CP2.data.pop.triplet[i]), "pop_single_error_same_state");
  if (a) V_REACH("clean");
  V_END();
}
#endif

/* =============== parse_27 =============== */
#ifdef G_DEC
static vbi_decoder VBI;
#endif

#if defined(G_CP)
V_HARNESS(h_27)
{
  uint8_t raw[40], r2[40]; unsigned pos, mag0, d, des, i; vbi_bool a, b;
  V_INIT();
  /* parse_27 reads only cvtp->function (0 = LOP here; DISCARD returns at once) */
  in_bytes(raw, 40); pos = in_u16(); mag0 = in_u8() & 7; d = in_u32(); des = in_u8() & 15;
#ifdef DESSEL    /* designation code enumerated by the runner */
  des = (DESSEL);
#endif
  V_ASSUME(pos < 8 * 38);                     /* bytes 0..37 are protected; 38/39 is the (ignored) CRC */
  raw[0] = (uint8_t) ref_ham8(des);           /* clean designation code (an error in it is injected below like anywhere else) */
  /* the protected unit that will be hit is error free; everything else arbitrary */
  if (pos / 8 >= 1) { if (des <= 3) put_ham8(raw, 40, pos / 8, d); else if (des <= 5 && pos / 8 <= 36) put_ham24(raw, (pos / 8 - 1) / 3, d); }
  memcpy(r2, raw, 40);
  a = parse_27((vbi_decoder *) 0, raw, &CP, (int) mag0);
  { unsigned lo = 0, hi = 0;     /* frame: designation d writes link[6d .. 6d+5] (and the FLOF flag for d = 0), nothing else */
    if (des <= 5) { lo = des * 6; hi = lo + 6; }
    V_ASSERT(cp_header_eq(&CP, &ZCP), "x27_page_header_untouched");
    for (i = 0; i < N_ELEMENTS(CP.data.unknown.link); i++) if (i < lo || i >= hi) V_ASSERT(plink_zero(&CP.data.unknown.link[i]), "x27_writes_only_its_six_links");
    for (i = 0; i < 26 * 40; i++) V_ASSERT(CP.data.unknown.raw[i / 40][i % 40] == 0, "x27_rows_untouched");
    V_ASSERT(des == 0 || CP.data.unknown.have_flof == 0, "x27_flof_flag_only_from_designation_0");
#ifdef CARVE_PAGE_UNION   /* neighbour behind data.unknown in the side-by-side layout */
    for (i = 0; i < 160; i++) V_ASSERT(CP.data.lop.raw[i / 40][i % 40] == 0, "x27_nothing_behind_the_link_table");
#endif
  }
  flip(r2, 40, pos);
  b = parse_27((vbi_decoder *) 0, r2, &CP2, (int) mag0);
  V_ASSERT(a == b, "x27_single_error_same_result");
  V_ASSERT(cp_header_eq(&CP, &CP2) && CP.data.unknown.have_flof == CP2.data.unknown.have_flof, "x27_single_error_same_state");
  for (i = 0; i < N_ELEMENTS(CP.data.unknown.link); i++) V_ASSERT(plink_eq(&CP.data.unknown.link[i], &CP2.data.unknown.link[i]), "x27_single_error_same_state");
  if (a) V_REACH("clean");
  V_END();
}
#endif

/* C02(d): X/27/0 FLOF links produced by a reference encoder are what parse_27 stores */
#if defined(G_CP)
V_HARNESS(h_27_links)
{
  uint8_t raw[40]; unsigned mag0, i, des; unsigned mag_link[6], page[6], subno[6]; vbi_bool r; unsigned ctl;
  V_INIT();
  CP.function = PAGE_FUNCTION_LOP;
  mag0 = in_u8() & 7; des = in_u8() & 3; ctl = in_u8() & 15;
  raw[0] = ref_ham8(des);
  for (i = 0; i < 6; i++) { mag_link[i] = 1 + (in_u8() & 7); page[i] = in_u8(); subno[i] = in_u16() & 0x3F7F;
    ref_encode_link(raw + 1 + 6 * i, mag0, mag_link[i], page[i], subno[i]); }
  raw[37] = ref_ham8(ctl); raw[38] = in_u8(); raw[39] = in_u8();
  r = parse_27((vbi_decoder *) 0, raw, &CP, (int) mag0);
  V_ASSERT(r, "x27_links_accepted");
  for (i = 0; i < 6; i++) {
    V_ASSERT(CP.data.unknown.link[des * 6 + i].pgno == (int) (mag_link[i] * 256 + page[i]), "x27_link_pgno");
    V_ASSERT(CP.data.unknown.link[des * 6 + i].subno == (int) subno[i], "x27_link_subno");
  }
  if (des == 0) V_ASSERT(CP.data.unknown.have_flof == (int) (ctl >> 3), "x27_have_flof");
  V_END();
}
#endif

/* =============== parse_ait (TOP additional information table) =============== */
#if defined(G_CP)
static int title_zero(const struct ttx_ait_title *t) { unsigned j; int ok = plink_zero(&t->link); for (j = 0; j < 12; j++) ok &= (t->text[j] == 0); return ok; }
static int title_eq(const struct ttx_ait_title *a, const struct ttx_ait_title *b) { unsigned j; int ok = plink_eq(&a->link, &b->link); for (j = 0; j < 12; j++) ok &= (a->text[j] == b->text[j]); return ok; }
V_HARNESS(h_ait)
{
  uint8_t raw[40], r2[40]; int packet; unsigned pos, i;
  V_INIT();
  in_bytes(raw, 40); packet = in_u8() & 31; pos = in_u16();
  /* links (bytes 0..7, 20..27) are Hamming 8/4: single error corrected */
  V_ASSUME(pos < 320 && ((pos / 8) < 8 || ((pos / 8) >= 20 && (pos / 8) < 28)));
  put_ham8(raw, 40, pos / 8, in_u8());
  memcpy(r2, raw, 40);
  FOR_CONCRETE(k, 0, 31, packet, parse_ait(&CP, raw, k));
  { unsigned lo = 0, hi = 0;     /* frame: packet n (1..23) writes title[2(n-1)] and title[2(n-1)+1] only */
    if (packet >= 1 && packet <= 23) { lo = (unsigned) (packet - 1) * 2; hi = lo + 2; }
    V_ASSERT(hi <= N_ELEMENTS(CP.data.ait.title), "ait_region_inside_title_table");
    V_ASSERT(cp_header_eq(&CP, &ZCP), "ait_page_header_untouched");
    for (i = 0; i < N_ELEMENTS(CP.data.ait.title); i++) if (i < lo || i >= hi) V_ASSERT(title_zero(&CP.data.ait.title[i]), "ait_writes_only_its_two_titles");
    V_ASSERT(CP.data.ait.checksum == 0, "ait_writes_only_its_two_titles");
#ifdef CARVE_PAGE_UNION   /* neighbour before data.ait in the side-by-side layout (ait is the last member: behind it the object ends) */
    for (i = 0; i < DRCS_PTUS_PER_PAGE; i++) V_ASSERT(CP.data.drcs.mode[i] == 0, "ait_nothing_before_the_title_table");
    V_ASSERT(CP.data.drcs.invalid == 0, "ait_nothing_before_the_title_table");
#endif
  }
  flip(r2, 40, pos);
  FOR_CONCRETE(k, 0, 31, packet, parse_ait(&CP2, r2, k));
  V_ASSERT(cp_header_eq(&CP, &CP2) && CP.data.ait.checksum == CP2.data.ait.checksum, "ait_single_error_same_state");
  for (i = 0; i < N_ELEMENTS(CP.data.ait.title); i++) V_ASSERT(title_eq(&CP.data.ait.title[i], &CP2.data.ait.title[i]), "ait_single_error_same_state");
  V_END();
}
#endif

/* =============== lop_parity_check: C03 row parity gate =============== */
#ifdef G_RP
static struct raw_page RP;
#endif

#if defined(G_CP) && defined(G_RP)
V_HARNESS(h_lop_parity)
{
  unsigned row, i; int bad = 0;
  V_INIT();
  /* the page as cached so far (arbitrary content), no X/26 enhancement received */
  in_bytes(&CP.data.lop.raw[0][0], sizeof CP.data.lop.raw);
  CP.lop_packets = in_u32() & 0x3FFFFFF; CP.x26_designations = 0;
  CP2 = CP;
  /* newly received rows */
  in_bytes(&RP.lop_raw[0][0], sizeof RP.lop_raw);
  RP.lop_packets = in_u32() & 0x3FFFFFF;
#ifdef ROWSEL    /* observed row enumerated by the runner: a symbolic row index into the page union gave a counterexample that does not replay (cbmc artefact) */
  row = ROWSEL; (void) in_u8();
#else
  row = 1 + (in_u8() % 25);
#endif
  lop_parity_check(&CP, &RP);
  /* observed at one arbitrary row 1..25 */
  for (i = 0; i < 40; i++) bad |= !ref_odd_parity(RP.lop_raw[row][i]);
  if (!(RP.lop_packets & (1u << row)) || bad) {
    V_ASSERT(bytes_eq(CP.data.lop.raw[row], CP2.data.lop.raw[row], 40), "parity_bad_row_never_replaces");
    V_ASSERT(((CP.lop_packets ^ CP2.lop_packets) & (1u << row)) == 0, "parity_bad_row_not_marked");
    if (bad && (RP.lop_packets & (1u << row))) V_REACH("badrow");
  } else {
    V_ASSERT(bytes_eq(CP.data.lop.raw[row], RP.lop_raw[row], 40), "parity_good_row_copied_exactly");
    V_ASSERT(CP.lop_packets & (1u << row), "parity_good_row_marked");
    V_REACH("goodrow");
  }
  V_ASSERT(bytes_eq(CP.data.lop.raw[0], CP2.data.lop.raw[0], 40), "parity_header_untouched");
  V_END();
}
#endif

/* =============== vbi_decode_teletext dispatcher, per packet class (DESIGN R1) =============== */
/* The packet address (first two Hamming bytes) is concrete from the runner grid (-DMAGN=0..7 -DPKTN=0..31):
   an exhaustive case split which keeps every pointer into the decoder concrete.  The 40 payload bytes, the page
   function of the page in progress and the X/26 bookkeeping are symbolic. */
#ifndef MAGN
#define MAGN 1
#endif
#ifndef PKTN
#define PKTN 26
#endif
#ifdef G_DEC
static cache_network CN;

static void ttx_state_init(void)
{
  /* VBI is a static object: zero initialised (a memset of the whole decoder costs minutes of symex) */
  VBI.cn = &CN; VBI.event_mask = VBI_EVENT_TTX_PAGE | VBI_EVENT_NETWORK | VBI_EVENT_NETWORK_ID | VBI_EVENT_LOCAL_TIME | VBI_EVENT_PROG_ID;
  VBI.vt.max_level = VBI_WST_LEVEL_1p5;
}
#endif

#if defined(G_DEC)
V_HARNESS(h_ttx_rows)
{
  uint8_t buf[42]; struct raw_page *rv = &VBI.vt.raw_page[MAGN & 7]; int fn, nt; unsigned pmag = ((unsigned) PKTN << 3) | (MAGN & 7);
  int nt0; unsigned x26_0; struct ttx_triplet enh0[4]; vbi_bool r; int des; unsigned i;
  V_INIT();
  ttx_state_init();
  in_bytes(buf + 2, 40);
  buf[0] = ref_ham8(pmag & 15); buf[1] = ref_ham8(pmag >> 4);
  fn = (int) (in_u8() % 19) - 4;                       /* every enum ttx_page_function value -4 .. 14 */
  rv->page->function = (enum ttx_page_function) fn;
  rv->page->pgno = 0x100 * ((MAGN & 7) ? (MAGN & 7) : 8) + in_u8();
  nt = (int) in_u8(); V_ASSUME(nt <= 209); nt -= 1;    /* -1 (broken) .. 208 */
  rv->num_triplets = nt; rv->lop_packets = in_u32() & 0x3FFFFFF; rv->page->lop_packets = in_u32() & 0x3FFFFFF;
  rv->page->x26_designations = in_u16();
  nt0 = nt; x26_0 = rv->page->x26_designations;
  for (i = 0; i < 4; i++) enh0[i] = rv->page->data.enh_lop.enh[i * 52];
  r = vbi_decode_teletext(&VBI, buf);
  des = ref_unham8(buf[2]);
#if PKTN == 26
  /* C03(5) X/26 continuity: a designation other than the expected one (or an uncorrectable one) stores nothing */
  if (fn != PAGE_FUNCTION_DISCARD && fn != PAGE_FUNCTION_POP && fn != PAGE_FUNCTION_GPOP && fn != PAGE_FUNCTION_GDRCS && fn != PAGE_FUNCTION_DRCS
      && fn != PAGE_FUNCTION_BTT && fn != PAGE_FUNCTION_AIT && fn != PAGE_FUNCTION_MPT && fn != PAGE_FUNCTION_MPT_EX) {
    if (des < 0) { V_ASSERT(!r && rv->num_triplets == nt0 && rv->page->x26_designations == x26_0, "x26_bad_designation_changes_nothing"); }
    else if (nt0 != des * 13) {
      V_ASSERT(!r && rv->num_triplets == -1 && rv->page->x26_designations == x26_0, "x26_out_of_sequence_rejected");
      for (i = 0; i < 4; i++) V_ASSERT(bytes_eq(&enh0[i], &rv->page->data.enh_lop.enh[i * 52], sizeof enh0[i]), "x26_out_of_sequence_stores_nothing");
      V_REACH("x26_gap");
    } else {
      V_ASSERT(r && rv->num_triplets >= nt0 && rv->num_triplets <= nt0 + 13 && rv->num_triplets <= 208, "x26_in_sequence_appends");
      V_REACH("x26_ok");
    }
  }
#endif
  (void) des; (void) r; (void) nt0; (void) x26_0; (void) enh0;
  V_END();
}
#endif

/* C03(3): an uncorrectable packet address changes nothing at all */
#ifdef G_DECCOPY
static vbi_decoder VBI_COPY;
#endif
#if defined(G_DEC) && defined(G_DECCOPY)
V_HARNESS(h_ttx_addr_error)
{
  uint8_t buf[42]; vbi_bool r;
  V_INIT();
  ttx_state_init();
  in_bytes(buf, 42);
  V_ASSUME(ref_unham8(buf[0]) < 0 || ref_unham8(buf[1]) < 0);
  VBI.vt.raw_page[3].page->function = PAGE_FUNCTION_LOP; VBI.vt.raw_page[3].num_triplets = 13;
  VBI.vt.current = &VBI.vt.raw_page[3];
  VBI_COPY = VBI;
  r = vbi_decode_teletext(&VBI, buf);
  V_ASSERT(!r, "addr_error_rejected");
  V_ASSERT(VBI.vt.current == VBI_COPY.vt.current && VBI.vt.raw_page[3].page->function == PAGE_FUNCTION_LOP && VBI.vt.raw_page[3].num_triplets == 13
           && put_n == 0 && ev_n == 0, "addr_error_changes_nothing");
  V_END();
}
#endif

/* =============== parse_28_29 (X/28, M/29 enhancement) =============== */
#if defined(G_X28) && defined(G_CP)
/* Cut (R2): parse_28_29 reads vbi->cn and writes the default extension of ONE magazine.  The decoder is a never-written byte
   image that only holds the cn pointer; the network object is the PREFIX of cache_network up to and including magazine 1
   (MAGN must be 1): any access to another part of the network is then an out-of-bounds failure.  This keeps the written
   object at 3.5 KB instead of 35 KB (every store costs a new version of the whole object). */
#if (MAGN & 7) != 1
#error "h_2829 is built for magazine 1 (prefix network object)"
#endif
#define X28_CN_SIZE (offsetof(cache_network, _magazines) + sizeof(struct ttx_magazine))
static _Alignas(16) uint8_t X28_CN[X28_CN_SIZE];
static _Alignas(16) uint8_t X28_VBI[offsetof(vbi_decoder, cn) + sizeof(cache_network *)];
V_HARNESS(h_2829)
{
  uint8_t raw[40]; vbi_bool a; int pk; unsigned des;
  const int mag8 = 1; cache_network *cn = (cache_network *) X28_CN; vbi_decoder *vbi = (vbi_decoder *) X28_VBI;
  V_INIT();
  memcpy(X28_VBI + offsetof(vbi_decoder, cn), &cn, sizeof cn);
  CP.function = (enum ttx_page_function) ((int) (in_u8() % 19) - 4);
  in_bytes(&CP.data.ext_lop.ext, sizeof CP.data.ext_lop.ext);
  in_bytes(&cn->_magazines[0].extension, sizeof cn->_magazines[0].extension);
  in_bytes(raw, 40); pk = 28 + (in_u8() & 1); des = in_u8() & 15;
#ifdef DESSEL    /* designation code and packet number enumerated by the runner */
  des = (DESSEL);
#endif
#ifdef PK2829
  pk = (PK2829);
#endif
  raw[0] = (uint8_t) ref_ham8(des);
  a = parse_28_29(vbi, raw, &CP, mag8, pk);
  /* frame: of the network only the magazine's default extension may change; X/28 never touches it, M/29 never the page's */
  V_ASSERT(zero_except(X28_CN, X28_CN_SIZE, offsetof(cache_network, _magazines) + offsetof(struct ttx_magazine, extension),
                       offsetof(cache_network, _magazines) + offsetof(struct ttx_magazine, extension) + sizeof(struct ttx_extension)), "x28_network_frame");
  V_ASSERT(CP.function >= PAGE_FUNCTION_EPG && CP.function <= PAGE_FUNCTION_IEC_TRIGGER, "x28_function_stays_in_enum");
  (void) a;
  V_REACH("clean");
  V_END();
}
#endif

/* =============== TOP tables: BTT, MPT, MPT-EX (network page statistics) =============== */
#if defined(G_DEC)
V_HARNESS(h_btt)
{
  uint8_t raw[40]; int packet; unsigned i;
  V_INIT();
  ttx_state_init();
  in_bytes(raw, 40); packet = in_u8() & 31;
  FOR_CONCRETE(k, 0, 31, packet, parse_btt(&VBI, raw, k));
  for (i = 0; i < N_ELEMENTS(CN.btt_link); i++) if (CN.btt_link[i].pgno) V_ASSERT(CN.btt_link[i].pgno >= 0x100 && CN.btt_link[i].pgno <= 0x8FF, "btt_link_range");
  /* frame: besides the link table, have_top and the page statistics nothing of the network is written (initial state all zero) */
  { static const struct ttx_magazine zero_mag; static const struct ttx_page_link zero_link;
    V_ASSERT(CN.have_top == 0 || CN.have_top == 1, "btt_have_top_boolean");
    V_ASSERT(bytes_eq(&CN._magazines[0], &zero_mag, sizeof zero_mag), "btt_magazine_defaults_untouched");
    V_ASSERT(bytes_eq(&CN.initial_page, &zero_link, sizeof zero_link), "btt_initial_page_untouched"); }
  V_END();
}
#endif
#if defined(G_DEC)
V_HARNESS(h_mpt)
{
  uint8_t raw[40]; int packet;
  V_INIT();
  ttx_state_init();
  in_bytes(raw, 40); packet = in_u8() & 31;
  { unsigned i; for (i = 0; i < 0x800; i += 0x55) { CN._pages[i].page_type = in_u8(); CN._pages[i].subcode = in_u16(); } }
  FOR_CONCRETE(k, 0, 31, packet, parse_mpt(&CN, raw, k));
  V_END();
}
#endif
#if defined(G_DEC)
V_HARNESS(h_mpt_ex)
{
  uint8_t raw[40]; int packet;
  V_INIT();
  ttx_state_init();
  in_bytes(raw, 40); packet = in_u8() & 31;
  FOR_CONCRETE(k, 0, 31, packet, parse_mpt_ex(&CN, raw, k));
  V_END();
}
#endif

/* =============== parse_mip (magazine inventory page, rows 1..14 + subpage table rows 15..25) =============== */
#if defined(G_DEC) && defined(G_CP)
V_HARNESS(h_mip)
{
  const int mag8 = (MAGN & 7) ? (MAGN & 7) : 8;
  V_INIT();
  ttx_state_init();
  ZERO_STATIC(CP);
  CP.pgno = mag8 * 0x100 + 0xFD; CP.function = PAGE_FUNCTION_MIP;
  CP.lop_packets = in_u32() & 0x3FFFFFF;
  in_bytes(&CP.data.unknown.raw[0][0], sizeof CP.data.unknown.raw);
  parse_mip(&VBI, &CP);
  V_END();
}
#endif

/* =============== convert_drcs =============== */
#ifndef DRCS_FREE_FROM
#define DRCS_FREE_FROM 40      /* PTU modes are symbolic from this index on, mode DRCS_HEAD_MODE before */
#endif
#ifndef DRCS_HEAD_MODE
#define DRCS_HEAD_MODE 0
#endif
#ifdef G_CPD
static cache_page CPD;
#endif
#if defined(G_CPD)
V_HARNESS(h_drcs)
{
  unsigned i;
  V_INIT();
  init_expand();
  ZERO_STATIC(CPD);
  CPD.function = PAGE_FUNCTION_DRCS;
  CPD.lop_packets = in_u32() & 0x3FFFFFF;
  in_bytes(&CPD.data.drcs.lop.raw[1][0], 24 * 40);
  for (i = 0; i < 48; i++) { uint8_t m = in_u8() & 15; CPD.data.drcs.mode[i] = (i < DRCS_FREE_FROM) ? DRCS_HEAD_MODE : m; }
  { uint8_t m0[48]; memcpy(m0, CPD.data.drcs.mode, 48);
    convert_drcs(&CPD, CPD.data.drcs.lop.raw[1]);
    V_ASSERT(bytes_eq(m0, CPD.data.drcs.mode, 48), "drcs_mode_table_untouched"); }
  V_END();
}
#endif

/* =============== page header (packet X/0): field decoding and containment, C03(3) =============== */
/* vt.current = NULL (no page in progress to store), cache lookup misses: the header's own effect is isolated.
   Reference: EN 300 706 9.3.1: page units/tens, S1..S4 with C4 C5 C6, C7..C14 - eight Hamming 8/4 bytes. */
#if defined(G_DEC)
V_HARNESS(h_ttx_header)
{
  uint8_t buf[42]; struct raw_page *rv = &VBI.vt.raw_page[MAGN & 7]; unsigned pmag = (MAGN & 7); vbi_bool r; unsigned i;
  int n[8]; int err = 0, hi_err, page, sub, flags; const int mag8 = (MAGN & 7) ? (MAGN & 7) : 8;
  V_INIT();
  ttx_state_init();
  in_bytes(buf + 2, 40);
  buf[0] = ref_ham8(pmag & 15); buf[1] = ref_ham8(pmag >> 4);
#ifdef PAGEN   /* page number concrete (runner grid): keeps the page-function classification and the statistics slot concrete */
  buf[2] = ref_ham8((PAGEN) & 15); buf[3] = ref_ham8(((PAGEN) >> 4) & 15);
#ifdef PAGEBAD /* two bit errors in one page number byte: uncorrectable */
  buf[2 + ((PAGEBAD) & 1)] ^= 0x41;
#endif
#endif
  rv->page->function = PAGE_FUNCTION_LOP; rv->page->pgno = mag8 * 256 + 0x99; rv->page->subno = 0x3F7F;
  for (i = 0; i < 8; i++) { n[i] = ref_unham8(buf[2 + i]); if (n[i] < 0) err = 1; }
  hi_err = (n[0] < 0 || n[1] < 0);
  r = vbi_decode_teletext(&VBI, buf);
  if (hi_err) {                                   /* page number uncorrectable: pages in progress abandoned, nothing stored */
    V_ASSERT(!r && put_n == 0 && ev_n == 0, "hdr_pageno_error_stores_nothing");
    V_REACH("pageno_err");
  } else {
    page = n[0] | (n[1] << 4);
    V_ASSERT(rv->page->pgno == mag8 * 256 + page, "hdr_opens_transmitted_page_number");
    V_ASSERT(put_n == 0, "hdr_nothing_stored_without_page_in_progress");
    if (err || page == 0xFF) {                    /* subcode/control bits uncorrectable (or time filling header): page not assembled */
      V_ASSERT(!r && rv->page->function == PAGE_FUNCTION_DISCARD, "hdr_subcode_or_control_error_discards");
      V_REACH("sub_err");
    } else {
      sub = n[2] | (n[3] << 4) | (n[4] << 8) | (n[5] << 12); flags = n[6] | (n[7] << 4);
      V_ASSERT(r, "hdr_clean_accepted");
      V_ASSERT(rv->page->subno == (sub & 0x3F7F), "hdr_opens_transmitted_subcode");
      V_ASSERT(rv->page->national == (int) (ref_rev8((unsigned) flags) & 7), "hdr_national_bits");
      V_ASSERT((rv->page->flags & 0xFF7F80 & ~C4_ERASE_PAGE) == ((((unsigned) flags << 16) + (unsigned) sub) & 0xFF7F80 & ~C4_ERASE_PAGE), "hdr_control_bits");
      V_ASSERT(VBI.vt.current == rv, "hdr_becomes_current");
      V_REACH("clean");
    }
  }
  V_END();
}
#endif

/* =============== row parity gate with X/26 enhancement data (C03: "positions overridden by X/26 enhancement data excepted") =============== */
/* Reference (EN 300 706 12.3): row address triplets (address 40..63) in modes "full row colour" (0x01) and "set active
   position" (0x04) move the active row to address-40 (0 means 24), mode 0x07 to row 0; column triplets (address < 40)
   that place a character override the Level 1 character at (active row, address).  Only there may a received byte
   have even parity and the row still be taken. */
#ifndef ROWSEL
#define ROWSEL_X 5
#else
#define ROWSEL_X ROWSEL
#endif
#define NX26 3
#if defined(G_CP) && defined(G_RP)
V_HARNESS(h_lop_parity_x26)
{
  unsigned i, t, arow = 0; int overridden[40]; int blocked = 0;
  V_INIT();
  ZERO_STATIC(CP); 
  in_bytes(CP.data.lop.raw[ROWSEL_X], 40);
  CP.lop_packets = in_u32() & 0x3FFFFFF; CP.x26_designations = 1;
  memset(CP.data.enh_lop.enh, 0xFF, sizeof CP.data.enh_lop.enh);       /* unused triplets: address 0xFF terminates */
  for (t = 0; t < NX26; t++) { CP.data.enh_lop.enh[t].address = in_u8() & 63; CP.data.enh_lop.enh[t].mode = in_u8() & 31; CP.data.enh_lop.enh[t].data = in_u8() & 127; }
  CP2 = CP;
  in_bytes(RP.lop_raw[ROWSEL_X], 40);
  RP.lop_packets = 1u << ROWSEL_X;
  for (i = 0; i < 40; i++) overridden[i] = 0;
  for (t = 0; t < NX26; t++) {
    unsigned a = CP.data.enh_lop.enh[t].address, m = CP.data.enh_lop.enh[t].mode;
    if (a < 40) {
      int places_char = (m == 0x01 || m == 0x02 || m == 0x0B || m == 0x09 || m == 0x0D || m == 0x0F || m >= 0x10 || m == 0x08 /* tolerated, see DESIGN */);
      if (places_char && arow == ROWSEL_X) for (i = 0; i < 40; i++) if (i == a) overridden[i] = 1;
    } else {
      if (m == 0x01 || m == 0x04) { arow = a - 40; if (arow == 0) arow = 24; }
      else if (m == 0x07) arow = 0;
    }
  }
  for (i = 0; i < 40; i++) if (!ref_odd_parity(RP.lop_raw[ROWSEL_X][i]) && !overridden[i]) blocked = 1;
  lop_parity_check(&CP, &RP);
  if (blocked) {
    V_ASSERT(bytes_eq(CP.data.lop.raw[ROWSEL_X], CP2.data.lop.raw[ROWSEL_X], 40), "x26_gate_bad_row_never_replaces");
    V_ASSERT(CP.lop_packets == CP2.lop_packets, "x26_gate_bad_row_not_marked");
    V_REACH("blocked");
  } else {
    for (i = 0; i < 40; i++) if (!overridden[i]) V_ASSERT(CP.data.lop.raw[ROWSEL_X][i] == RP.lop_raw[ROWSEL_X][i], "x26_gate_good_bytes_copied_exactly");
    V_REACH("taken");
  }
  V_END();
}
#endif
