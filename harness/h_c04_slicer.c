/* C04 - "any horizontal offset that keeps the signal inside the line": the CRI search window of the vbi3 bit slicer is MAXIMAL.
 * h_window_maximal: vbi3_bit_slicer_set_params called exactly as vbi3_raw_decoder_add_services does for one row of the REAL
 * _vbi_service_table with symbolic sampling_rate, samples_per_line and sample_offset (the C05 params_lemma set-up; C05 proves the
 * window is not too LONG - no sample beyond the line is read -, this obligation proves it is not too SHORT).
 * Real unit: src/bit_slicer.c (included); src/raw_decoder.c linked for _vbi_service_table.
 *
 * Independent reading of the sampling scheme (bit_slicer.c CORE/PAYLOAD/SAMPLE, low_pass_bit_slicer_Y8; tied to the real loops by
 * C05 slicer_exact's closed form): search positions p = 0 .. cri_samples-1, in samples behind sample_offset.  After a CRI match at
 * p, bit k (k = 0 .. n-1, n = frc_bits + payload_bits) is sampled at t_k = p + (phase_shift + k * step) / 256 samples, by linear
 * interpolation between samples floor(t_k) and floor(t_k) + 1 (low pass slicer: one position further, 16 sample window).  A bit
 * cell is step/256 samples long; NRZ cells are sampled in the middle, biphase cells at 1/4 (first half cell), so the transmitted
 * signal ends at E(p) = t_(n-1) + step/512 (NRZ) resp. + 3 step/1024 (biphase).
 * For the first position that is NOT searched, p = cri_samples, a signal recognised there either
 *   (i)  would need a sample outside the line for its last bit: floor(t_(n-1)) + 1 (low pass: + 16) >= avail, or
 *   (ii) does not lie inside the line: E(p) > avail,
 * with avail = samples_per_line - sample_offset.  Hence every signal that is inside the line and can be sampled inside the line has
 * its CRI inside the search window. */
#include "verif.h"
#include "src/bit_slicer.c"
#include "src/raw_decoder.h"

#ifndef FMT
#define FMT VBI_PIXFMT_YUV420
#endif
#ifndef ROW
#define ROW 2            /* index into the real _vbi_service_table: Teletext System B, 625 */
#endif
#ifndef RATE_MIN
#define RATE_MIN 0
#endif
#ifndef RATE_MAX
#define RATE_MAX (1u << 27)
#endif
#ifndef SPL_MAX
#define SPL_MAX 4096
#endif
extern const _vbi_service_par _vbi_service_table[];
static vbi3_bit_slicer BS;

V_HARNESS(h_window_maximal)
{
  const _vbi_service_par *par = &_vbi_service_table[ROW];
  unsigned rate, spl, off;
  vbi_bool ok;
  V_INIT();
  rate = in_u32(); spl = in_u16(); off = in_u16();
  V_ASSUME(rate >= RATE_MIN && rate <= RATE_MAX);
  V_ASSUME(spl <= SPL_MAX);
  _vbi3_bit_slicer_init(&BS);
  ok = vbi3_bit_slicer_set_params(&BS, FMT, rate, off, spl,
                                  par->cri_frc >> par->frc_bits, par->cri_frc_mask >> par->frc_bits,
                                  par->cri_bits, par->cri_rate, ~0u,
                                  par->cri_frc & ((1U << par->frc_bits) - 1), par->frc_bits,
                                  par->payload, par->bit_rate, par->modulation);
  if (ok) {
    unsigned n = par->frc_bits + par->payload;
    int biphase = (par->modulation == VBI3_MODULATION_BIPHASE_LSB || par->modulation == VBI3_MODULATION_BIPHASE_MSB);
    int lp = (BS.func == low_pass_bit_slicer_Y8);
    uint64_t avail = (uint64_t) spl - off;
    uint64_t p = BS.cri_samples;                                   /* first position not searched */
    uint64_t t_last = p * 256 + (uint64_t) BS.phase_shift + (uint64_t) (n - 1) * BS.step;   /* 1/256 samples */
    uint64_t cell_rest = biphase ? ((uint64_t) BS.step * 3) / 4 : (uint64_t) BS.step / 2;
    uint64_t need = (t_last >> 8) + (lp ? 16 : 1);                 /* farthest sample index read for the last bit */
    V_REACH("accepted");
    V_ASSERT(n > 0 && off <= spl, "table_row_has_data_bits");
    V_ASSERT(BS.cri_samples >= 1, "search_window_not_empty");
    V_ASSERT(need >= avail || t_last + cell_rest > avail * 256, "first_unsearched_position_cannot_hold_a_signal_inside_the_line");
    if (lp) V_REACH("low_pass");
  } else {
    V_REACH("rejected");
  }
  V_END();
}
