/* C18 - each proxy client gets every captured frame, filtered to its services, in order.
 * Real units (textually included): daemon/proxyd.c, src/proxy-msg.c; linked: src/inout.c, src/misc.c.
 * Environment: models/c19_io.c (capture device delivering one symbolic frame per read, send() log).
 *
 * The property is decomposed into step contracts over an explicit queue invariant (common header, inv_queue):
 *   capture step   vbi_proxyd_forward_data   : the captured frame is appended once, for exactly the subscribed clients
 *   delivery step  vbi_proxyd_send_sliced + vbi_proxy_queue_release_sliced (as vbi_proxyd_handle_client_sockets pairs them):
 *                  the bytes given to send() are the head frame of THAT client filtered to its granted services, with the
 *                  capture time stamp; its cursor moves on by exactly one frame; nobody else's cursor moves
 * and a short SEQ run from a fresh subscription against a shadow model. */
#include "verif.h"
#include "c19_io.h"

#define vbi_proxy_msg_logger c19_real_msg_logger
#include "src/proxy-msg.c"
#undef vbi_proxy_msg_logger
void vbi_proxy_msg_logger(int level, int clnt_fd, int errCode, const char *pText, ...)
{ (void) level; (void) clnt_fd; (void) errCode; (void) pText; }

#define main proxyd_main
#include "daemon/proxyd.c"
#undef main

#ifndef W_MAXLINES
#define W_MAXLINES 3
#endif
#ifndef W_NBUF
#define W_NBUF 3
#endif
#define W_FRAME_DATA 1
#include "h_c19_common.h"

#ifndef DEVOPEN
#define DEVOPEN 1
#endif
#ifndef BDEV
#define BDEV 0
#endif
#ifndef ACT
#define ACT 0
#endif

static uint64_t dbl_bits(double d) { uint64_t u; memcpy(&u, &d, 8); return u; }

/* symbolic frame at the model device */
static void w_frame(void)
{
  unsigned i;
  C19.frame_ret = (int32_t) (int8_t) in_u8();
  C19.frame_lines = (int32_t) in_u8();
  { uint64_t t = in_u64(); memcpy(&C19.frame_ts, &t, 8); }
  for (i = 0; i < C19_MAXLINES; i++) in_bytes(C19.frame_data[i], 64);
}

static int subscribed(const PROXY_CLNT *c) { return c->dev_idx == 0 && c->state == REQ_STATE_FORWARD && c->all_services != 0; }

/* =====================================================================================================
 * capture step: vbi_proxyd_forward_data(0) from every well-formed queue state (W_NBUF buffers, NQ queued,
 * cursors symbolic), device delivering an arbitrary frame / timeout / error.
 * ===================================================================================================== */
V_HARNESS(h_fwd)
{
  PROXY_DEV *d = &proxy.dev[0]; PROXY_QUEUE *q_old[4], *tail, *p; struct clnt_obs o0[3], o1[3];
  unsigned i, k, nsub = 0, ns0 = 0, ns1 = 0; int n_exp, forced;
  V_INIT();
  w_init();
  w_device(1);
  V_ASSUME(!VBI_RAW_SERVICES(d->all_services));                         /* raw (unsliced) forwarding is outside the claim */
  for (i = 0; i < NCL; i++) w_client((i == NCL - 1) ? BDEV : 0, 0);
  w_link();
  w_queue();
  w_frame();
  w_assume_inv();
  for (i = 0; i < NCL; i++) { obs_clnt(&o0[i], W_cl[i]); if (subscribed(W_cl[i])) nsub++; }
  for (k = 0, p = d->p_sliced; k < 4; k++) { q_old[k] = p; if (p) { ns0 = k + 1; p = p->p_next; } }
  forced = (d->p_free == NULL);                                         /* no free buffer: the oldest frame is dropped by force */
  n_exp = C19.frame_lines; if (n_exp < 0) n_exp = 0; if (n_exp > C19_MAXLINES) n_exp = C19_MAXLINES; if (n_exp > W_MAXLINES) n_exp = W_MAXLINES;

  w_dump("before forward_data");
  vbi_proxyd_forward_data(0);
  w_dump("after forward_data");

  V_ASSERT(c19_locks_held() == 0, "fwd_no_lock_left_held");
  V_ASSERT(inv_queue(), "fwd_inv_queue");
  for (k = 0, p = d->p_sliced, tail = NULL; k < 4; k++) if (p) { ns1 = k + 1; tail = p; p = p->p_next; }
  for (i = 0; i < NCL; i++) obs_clnt(&o1[i], W_cl[i]);
  if (C19.frame_ret > 0 && nsub > 0) {
    /* the frame is queued once, at the tail, referenced by exactly the subscribed clients */
    V_ASSERT(ns1 == ns0 + 1 - (forced ? 1 : 0) && tail != NULL, "fwd_one_frame_appended");
    V_ASSERT(tail->ref_count >= nsub, "fwd_referenced_by_subscribers");        /* exactly: by every client whose cursor is at or before it (fwd_inv_queue) */
    V_ASSERT(tail->line_count == n_exp && dbl_bits(tail->timestamp) == dbl_bits(C19.frame_ts), "fwd_frame_header");
    for (k = 0; k < W_MAXLINES; k++)
      if ((int) k < n_exp) V_ASSERT(0 == memcmp(&tail->lines[k], C19.frame_data[k], 64), "fwd_frame_lines");
    for (i = 0; i < NCL; i++) {
      const void *exp = o0[i].p_sliced;
      if (forced && exp == (void *) q_old[0]) exp = (void *) q_old[1];   /* lost the oldest frame */
      if (exp == NULL && subscribed(W_cl[i])) exp = (void *) tail;       /* nothing pending: the new frame is next */
      V_ASSERT(o1[i].p_sliced == exp, "fwd_cursors");
    }
    for (k = (forced ? 1 : 0); k < ns0; k++) V_ASSERT(q_pos_is(d->p_sliced, q_old[k], (int) k - (forced ? 1 : 0)), "fwd_order_kept");
    V_REACH("queued");
    if (forced) V_REACH("forced");
  } else if (!forced) {
    V_ASSERT(ns1 == ns0, "fwd_nothing_queued");
    for (i = 0; i < NCL; i++) V_ASSERT(o1[i].p_sliced == o0[i].p_sliced, "fwd_cursors_unchanged");
    for (k = 0; k < ns0; k++) V_ASSERT(q_pos_is(d->p_sliced, q_old[k], (int) k), "fwd_order_unchanged");
    V_REACH("idle");
  }
  for (i = 0; i < NCL; i++)
    V_ASSERT(o1[i].state == o0[i].state && o1[i].all_services == o0[i].all_services && o1[i].writeLen == o0[i].writeLen, "fwd_clients_otherwise_untouched");
  V_END();
}

/* =====================================================================================================
 * delivery step: client ACT is idle with a pending frame and its socket is writable: vbi_proxyd_send_sliced +
 * vbi_proxy_queue_release_sliced exactly as vbi_proxyd_handle_client_sockets pairs them (proxyd.c:2479-2493).
 * Shadow: the head frame of that client, filtered to all_services, with the capture time stamp.
 * ===================================================================================================== */
V_HARNESS(h_send)
{
  PROXY_DEV *d = &proxy.dev[0]; PROXY_CLNT *a; PROXY_QUEUE *f, *nxt; struct clnt_obs o0[3], o1[3];
  unsigned i, n_sel = 0; int s0, s1; vbi_bool blocked = FALSE, ok; uint32_t ref0, len_exp;
  V_INIT();
  w_init();
  w_device(1);
  for (i = 0; i < NCL; i++) w_client((i != ACT && i == NCL - 1) ? BDEV : 0, 0);
  w_link();
  w_queue();
  w_assume_inv();
  a = W_cl[ACT];
  V_ASSUME(a->p_sliced != NULL && a->io.writeLen == 0);                  /* idle, frame pending */
  a->all_services &= ~(unsigned) (VBI_SLICED_VBI_625 | VBI_SLICED_VBI_525);   /* no raw forwarding (masked, not assumed: the message size must fold to a constant) */
  V_ASSUME(a->vbi_count[0] >= 0 && a->vbi_count[1] >= 0 && a->vbi_count[0] + a->vbi_count[1] >= W_MAXLINES);   /* line range fixed at subscription covers the device's */
  f = a->p_sliced; nxt = f->p_next; ref0 = f->ref_count;
#ifdef LC      /* number of lines in the frame, concrete: it is the size of the message the daemon allocates */
  f->line_count = LC;
#endif
  /* shadow filter, written without symbolic array indices (W_MAXLINES <= 2) */
  s0 = f->line_count > 0 && (f->lines[0].id & a->all_services) != 0;
  s1 = W_MAXLINES > 1 && f->line_count > 1 && (f->lines[W_MAXLINES > 1 ? 1 : 0].id & a->all_services) != 0;
  n_sel = (unsigned) s0 + (unsigned) s1;
  for (i = 0; i < NCL; i++) obs_clnt(&o0[i], W_cl[i]);
  C19.send_ret[0] = 0;            /* the socket takes nothing right now: the message stays in the write buffer, where it is inspected
                                     (copying it out through the send() log costs > 5 GB in the solver) */

  /* ---- proxyd.c:2482-2487 ---- */
  ok = vbi_proxyd_send_sliced(a, &blocked);
  if (ok) {
    pthread_mutex_lock(&proxy.dev[a->dev_idx].queue_mutex);
    vbi_proxy_queue_release_sliced(a);
    pthread_mutex_unlock(&proxy.dev[a->dev_idx].queue_mutex);
  }

  V_ASSERT(ok && blocked, "send_queued_and_blocked");
  V_ASSERT(C19.send_calls == 1 && C19.sent[0].fd == o0[ACT].sock_fd, "send_one_write_to_own_socket");
  len_exp = (uint32_t) (sizeof(VBIPROXY_MSG_HEADER) + VBIPROXY_SLICED_IND_SIZE(n_sel, 0));
  V_ASSERT(a->io.writeLen == len_exp && a->io.writeOff == 0 && a->io.freeWriteBuf && a->io.pWriteBuf != NULL && C19.sent[0].len_asked == len_exp, "send_length");
  { const VBIPROXY_MSG *pm = a->io.pWriteBuf;
    V_ASSERT(ntohl(pm->head.len) == len_exp && ntohl(pm->head.type) == MSG_TYPE_SLICED_IND, "send_header");
    V_ASSERT(dbl_bits(pm->body.sliced_ind.timestamp) == dbl_bits(f->timestamp), "send_capture_timestamp");
    V_ASSERT(pm->body.sliced_ind.sliced_lines == n_sel && pm->body.sliced_ind.raw_lines == 0, "send_line_count");
    if (s0) V_ASSERT(0 == memcmp(&pm->body.sliced_ind.u.sliced[0], &f->lines[0], 64), "send_exactly_the_granted_lines_in_order");
    if (s0 && s1) V_ASSERT(0 == memcmp(&pm->body.sliced_ind.u.sliced[1], &f->lines[W_MAXLINES > 1 ? 1 : 0], 64), "send_exactly_the_granted_lines_in_order");
    if (!s0 && s1) V_ASSERT(0 == memcmp(&pm->body.sliced_ind.u.sliced[0], &f->lines[W_MAXLINES > 1 ? 1 : 0], 64), "send_exactly_the_granted_lines_in_order");
  }
  /* cursor moves on by exactly one frame, the frame loses exactly this reference */
  V_ASSERT(a->p_sliced == nxt, "send_cursor_advances_one");
  for (i = 0; i < NCL; i++) {
    obs_clnt(&o1[i], W_cl[i]);
    if (i != ACT) V_ASSERT(same_clnt(&o0[i], &o1[i]), "send_other_clients_untouched");
  }
  if (ref0 > 1) { V_ASSERT(f->ref_count == ref0 - 1 && q_pos_is(d->p_sliced, f, 0) + 1 >= 1, "send_frame_kept_for_others"); V_REACH("shared"); }
  else { V_ASSERT(d->p_free == f, "send_last_reader_frees_frame"); V_REACH("freed"); }
  V_ASSERT(inv_queue(), "send_inv_queue");
  if (n_sel > 0 && n_sel < (unsigned) f->line_count) V_REACH("filtered");
  free(a->io.pWriteBuf); a->io.pWriteBuf = NULL;
  V_END();
}

/* =====================================================================================================
 * SEQ: 2 subscribed clients, an empty queue of W_NBUF buffers, k = 4 events E0..E3 (build time: the event ORDER is
 * the schedule and is enumerated on the grid, all data is symbolic):
 *   1 frame captured (<= W_MAXLINES symbolic lines, symbolic time stamp)   -> vbi_proxyd_forward_data
 *   2/3 client 0/1 idle and writable -> the forwarding loop of vbi_proxyd_handle_client_sockets (proxyd.c:2479-2493)
 *   4/5 client 0/1 disconnects       -> vbi_proxyd_close + unlink
 * Shadow model: per client the list of frames captured while it was connected and not yet delivered (the oldest is
 * dropped for the clients still waiting for it when the daemon runs out of buffers).  Assert: the messages handed to
 * send() for client i are, in capture order, exactly once, those frames filtered to all_services with the capture time.
 * ===================================================================================================== */
#ifndef E0
#define E0 1
#endif
#ifndef E1
#define E1 1
#endif
#ifndef E2
#define E2 2
#endif
#ifndef E3
#define E3 3
#endif
#define SQ_F 4
#ifndef SQ_LINES
#define SQ_LINES 1
#endif
struct sq_frame { int n; uint64_t ts; uint8_t data[W_MAXLINES][64]; };
static struct sq_frame SQ_fr[SQ_F]; static unsigned SQ_nf;
static int SQ_pend[2][SQ_F]; static unsigned SQ_np[2];          /* shadow: frame indices pending per client, capture order */
static int SQ_conn[2];

static void sq_capture(void)
{
  struct sq_frame *f = &SQ_fr[SQ_nf]; unsigned i, c, queued = 0, has_free;
  w_frame();
  C19.frame_ret = 1; C19.frame_lines = SQ_LINES;        /* concrete line count: it is the size of the message buffer the daemon allocates */
  f->n = C19.frame_lines; if (f->n < 0) f->n = 0; if (f->n > C19_MAXLINES) f->n = C19_MAXLINES; if (f->n > W_MAXLINES) f->n = W_MAXLINES;
  memcpy(&f->ts, &C19.frame_ts, 8);
  for (i = 0; i < W_MAXLINES; i++) memcpy(f->data[i], C19.frame_data[i], 64);
  /* shadow: out of buffers -> the oldest queued frame is given up by the clients still waiting for it */
  has_free = proxy.dev[0].p_free != NULL;
  (void) queued;
  if (!has_free) {
    int oldest = -1;
    for (c = 0; c < 2; c++) if (SQ_conn[c] && SQ_np[c] > 0 && (oldest < 0 || SQ_pend[c][0] < oldest)) oldest = SQ_pend[c][0];
    for (c = 0; c < 2; c++)
      if (SQ_conn[c] && SQ_np[c] > 0 && SQ_pend[c][0] == oldest) { for (i = 1; i < SQ_np[c]; i++) SQ_pend[c][i - 1] = SQ_pend[c][i]; SQ_np[c]--; }
  }
  vbi_proxyd_forward_data(0);
  for (c = 0; c < 2; c++) if (SQ_conn[c] && W_cl[c]->all_services != 0) SQ_pend[c][SQ_np[c]++] = (int) SQ_nf;
  SQ_nf++;
}

static void sq_writable(unsigned c)
{
  PROXY_CLNT *req = W_cl[c]; vbi_bool io_blocked = FALSE; unsigned s0 = C19.send_calls, j, k, s;
  if (!SQ_conn[c]) return;
  /* ---- proxyd.c:2479-2493 ---- */
  while ((req->p_sliced != NULL) && (io_blocked == FALSE)) {
    if (vbi_proxyd_send_sliced(req, &io_blocked)) {
      pthread_mutex_lock(&proxy.dev[req->dev_idx].queue_mutex);
      vbi_proxy_queue_release_sliced(req);
      pthread_mutex_unlock(&proxy.dev[req->dev_idx].queue_mutex);
    } else { vbi_proxyd_close(req, FALSE); io_blocked = TRUE; }
  }
  /* every pending frame, once, in capture order, filtered, with its time stamp */
  V_ASSERT(C19.send_calls - s0 == SQ_np[c] && req->p_sliced == NULL, "seq_all_pending_frames_sent_once");
  for (j = 0; j < SQ_F; j++) {
    const struct sq_frame *f; const uint8_t *m; unsigned nsel = 0; uint64_t ts; uint32_t nl;
    if (j >= SQ_np[c]) continue;
    s = s0 + j; f = &SQ_fr[SQ_pend[c][j]];
    V_ASSERT(s < C19_SENDLOG && C19.sent[s].fd == req->io.sock_fd, "seq_sent_to_own_socket");
    m = C19.sent[s].bytes;
    memcpy(&ts, m + 8, 8); memcpy(&nl, m + 16, 4);
    V_ASSERT(be32(m + 4) == MSG_TYPE_SLICED_IND && ts == f->ts, "seq_capture_order_and_timestamp");
    for (k = 0; k < W_MAXLINES; k++) {
      uint32_t id; memcpy(&id, f->data[k], 4);
      if ((int) k < f->n && (id & req->all_services) != 0) {
        V_ASSERT(0 == memcmp(m + 24 + 64 * nsel, f->data[k], 64), "seq_granted_lines_in_order");
        nsel++;
      }
    }
    V_ASSERT(nl == nsel && C19.sent[s].len_asked == sizeof(VBIPROXY_MSG_HEADER) + VBIPROXY_SLICED_IND_SIZE(nsel, 0), "seq_only_granted_lines");
    V_REACH("delivered");
  }
  SQ_np[c] = 0;
}

static void sq_disconnect(unsigned c)
{
  PROXY_CLNT *a = W_cl[c];
  if (!SQ_conn[c]) return;
  vbi_proxyd_close(a, FALSE);
  if (proxy.clnt_count > 0) proxy.clnt_count -= 1;                       /* proxyd.c:2516-2544, without the service re-computation */
  if (c == 0) proxy.p_clnts = a->p_next; else W_cl[0]->p_next = a->p_next;
  if (c == 0 && !SQ_conn[1]) proxy.p_clnts = NULL;
  free(a);
  W_gone[c] = 1; SQ_conn[c] = 0; SQ_np[c] = 0;
}

static void sq_event(int e)
{
  if (e == 1) sq_capture(); else if (e == 2) sq_writable(0); else if (e == 3) sq_writable(1);
  else if (e == 4) sq_disconnect(0); else if (e == 5) sq_disconnect(1);
  V_ASSERT(inv_queue(), "seq_inv_queue");
}

V_HARNESS(h_seq)
{
  unsigned i;
  V_INIT();
  w_init();
  for (i = 0; i < C19_NIO; i++) C19.send_ret[i] = 0x7fffffff;              /* sockets take everything that is written */
  w_device(1);
  V_ASSUME(!VBI_RAW_SERVICES(proxy.dev[0].all_services));
  for (i = 0; i < 2; i++) {
    PROXY_CLNT *c = w_client(0, 0);
    c->state = REQ_STATE_FORWARD; c->io.writeLen = 0; c->io.pWriteBuf = NULL; c->io.sock_fd = 10 + (int) i;
    c->chn_state.token_state = REQ_TOKEN_NONE; c->chn_status_ind = VBI_PROXY_CHN_NONE;
    c->all_services &= ~(unsigned) (VBI_SLICED_VBI_625 | VBI_SLICED_VBI_525);
    c->vbi_count[0] = W_MAXLINES; c->vbi_count[1] = 0;
    SQ_conn[i] = 1;
  }
  w_link();
  w_queue();                                                                /* NQ = 0: nothing queued, all buffers free */
  sq_event(E0); sq_event(E1); sq_event(E2); sq_event(E3);
  V_END();
}
