/* C18 - each proxy client gets every captured frame, filtered to its services, in order.
 * Real units (textually included): daemon/proxyd.c, src/proxy-msg.c; linked: src/inout.c, src/misc.c.
 * Environment: models/c19_io.c (capture device delivering one symbolic frame per read, send() log).
 *
 * The property is decomposed into step contracts over an explicit queue invariant (common header, inv_queue):
 *   capture step   vbi_proxyd_forward_data   : the captured frame is appended once, for exactly the subscribed clients
 *   delivery step  vbi_proxyd_send_sliced + vbi_proxy_queue_release_sliced (as vbi_proxyd_handle_client_sockets pairs them):
 *                  the bytes given to send() are the head frame of THAT client filtered to its granted services, with the
 *                  capture time stamp; its cursor moves on by exactly one frame; nobody else's cursor moves
 * and a short SEQ run from a fresh subscription against a shadow model. */
#include "verif.h"
#include "c19_io.h"

#define vbi_proxy_msg_logger c19_real_msg_logger
#include "src/proxy-msg.c"
#undef vbi_proxy_msg_logger
void vbi_proxy_msg_logger(int level, int clnt_fd, int errCode, const char *pText, ...)
{ (void) level; (void) clnt_fd; (void) errCode; (void) pText; }

#define main proxyd_main
#include "daemon/proxyd.c"
#undef main

#ifndef W_MAXLINES
#define W_MAXLINES 3
#endif
#ifndef W_NBUF
#define W_NBUF 3
#endif
#define W_FRAME_DATA 1
#include "h_c19_common.h"

#ifndef DEVOPEN
#define DEVOPEN 1
#endif
#ifndef BDEV
#define BDEV 0
#endif
#ifndef ACT
#define ACT 0
#endif

static uint64_t dbl_bits(double d) { uint64_t u; memcpy(&u, &d, 8); return u; }

/* symbolic frame at the model device */
static void w_frame(void)
{
  unsigned i;
  C19.frame_ret = (int32_t) (int8_t) in_u8();
  C19.frame_lines = (int32_t) in_u8();
  { uint64_t t = in_u64(); memcpy(&C19.frame_ts, &t, 8); }
  for (i = 0; i < C19_MAXLINES; i++) in_bytes(C19.frame_data[i], 64);
}

static int subscribed(const PROXY_CLNT *c) { return c->dev_idx == 0 && c->state == REQ_STATE_FORWARD && c->all_services != 0; }

/* =====================================================================================================
 * capture step: vbi_proxyd_forward_data(0) from every well-formed queue state (W_NBUF buffers, NQ queued,
 * cursors symbolic), device delivering an arbitrary frame / timeout / error.
 * ===================================================================================================== */
V_HARNESS(h_fwd)
{
  PROXY_DEV *d = &proxy.dev[0]; PROXY_QUEUE *q_old[4], *tail, *p; struct clnt_obs o0[3], o1[3];
  unsigned i, k, nsub = 0, ns0 = 0, ns1 = 0; int n_exp, forced;
  V_INIT();
  w_init();
  w_device(1);
  V_ASSUME(!VBI_RAW_SERVICES(d->all_services));                         /* raw (unsliced) forwarding is outside the claim */
  for (i = 0; i < NCL; i++) w_client((i == NCL - 1) ? BDEV : 0, 0);
  w_link();
  w_queue();
  w_frame();
  w_assume_inv();
  for (i = 0; i < NCL; i++) { obs_clnt(&o0[i], W_cl[i]); if (subscribed(W_cl[i])) nsub++; }
  for (k = 0, p = d->p_sliced; k < 4; k++) { q_old[k] = p; if (p) { ns0 = k + 1; p = p->p_next; } }
  forced = (d->p_free == NULL);                                         /* no free buffer: the oldest frame is dropped by force */
  n_exp = C19.frame_lines; if (n_exp < 0) n_exp = 0; if (n_exp > C19_MAXLINES) n_exp = C19_MAXLINES; if (n_exp > W_MAXLINES) n_exp = W_MAXLINES;

  w_dump("before forward_data");
  vbi_proxyd_forward_data(0);
  w_dump("after forward_data");

  V_ASSERT(c19_locks_held() == 0, "fwd_no_lock_left_held");
  V_ASSERT(inv_queue(), "fwd_inv_queue");
  for (k = 0, p = d->p_sliced, tail = NULL; k < 4; k++) if (p) { ns1 = k + 1; tail = p; p = p->p_next; }
  for (i = 0; i < NCL; i++) obs_clnt(&o1[i], W_cl[i]);
  if (C19.frame_ret > 0 && nsub > 0) {
    /* the frame is queued once, at the tail, referenced by exactly the subscribed clients */
    V_ASSERT(ns1 == ns0 + 1 - (forced ? 1 : 0) && tail != NULL, "fwd_one_frame_appended");
    V_ASSERT(tail->ref_count >= nsub, "fwd_referenced_by_subscribers");        /* exactly: by every client whose cursor is at or before it (fwd_inv_queue) */
    V_ASSERT(tail->line_count == n_exp && dbl_bits(tail->timestamp) == dbl_bits(C19.frame_ts), "fwd_frame_header");
    for (k = 0; k < W_MAXLINES; k++)
      if ((int) k < n_exp) V_ASSERT(0 == memcmp(&tail->lines[k], C19.frame_data[k], 64), "fwd_frame_lines");
    for (i = 0; i < NCL; i++) {
      const void *exp = o0[i].p_sliced;
      if (forced && exp == (void *) q_old[0]) exp = (void *) q_old[1];   /* lost the oldest frame */
      if (exp == NULL && subscribed(W_cl[i])) exp = (void *) tail;       /* nothing pending: the new frame is next */
      V_ASSERT(o1[i].p_sliced == exp, "fwd_cursors");
    }
    for (k = (forced ? 1 : 0); k < ns0; k++) V_ASSERT(q_pos_is(d->p_sliced, q_old[k], (int) k - (forced ? 1 : 0)), "fwd_order_kept");
    V_REACH("queued");
    if (forced) V_REACH("forced");
  } else if (!forced) {
    V_ASSERT(ns1 == ns0, "fwd_nothing_queued");
    for (i = 0; i < NCL; i++) V_ASSERT(o1[i].p_sliced == o0[i].p_sliced, "fwd_cursors_unchanged");
    for (k = 0; k < ns0; k++) V_ASSERT(q_pos_is(d->p_sliced, q_old[k], (int) k), "fwd_order_unchanged");
    V_REACH("idle");
  }
  for (i = 0; i < NCL; i++)
    V_ASSERT(o1[i].state == o0[i].state && o1[i].all_services == o0[i].all_services && o1[i].writeLen == o0[i].writeLen, "fwd_clients_otherwise_untouched");
  V_END();
}

/* =====================================================================================================
 * delivery step: client ACT is idle with a pending frame and its socket is writable: vbi_proxyd_send_sliced +
 * vbi_proxy_queue_release_sliced exactly as vbi_proxyd_handle_client_sockets pairs them (proxyd.c:2479-2493).
 * Shadow: the head frame of that client, filtered to all_services, with the capture time stamp.
 * ===================================================================================================== */
V_HARNESS(h_send)
{
  PROXY_DEV *d = &proxy.dev[0]; PROXY_CLNT *a; PROXY_QUEUE *f, *nxt; struct clnt_obs o0[3], o1[3];
  unsigned i, k, n_sel = 0, sel[W_MAXLINES]; vbi_bool blocked = FALSE, ok; uint32_t ref0, len_exp;
  V_INIT();
  w_init();
  w_device(1);
  for (i = 0; i < NCL; i++) w_client((i != ACT && i == NCL - 1) ? BDEV : 0, 0);
  w_link();
  w_queue();
  w_assume_inv();
  a = W_cl[ACT];
  V_ASSUME(a->p_sliced != NULL && a->io.writeLen == 0);                  /* idle, frame pending */
  V_ASSUME(!VBI_RAW_SERVICES(a->all_services));
  V_ASSUME(a->vbi_count[0] >= 0 && a->vbi_count[1] >= 0 && a->vbi_count[0] + a->vbi_count[1] >= W_MAXLINES);   /* line range fixed at subscription covers the device's */
  f = a->p_sliced; nxt = f->p_next; ref0 = f->ref_count;
  for (k = 0; k < W_MAXLINES; k++)
    if ((int) k < f->line_count && (f->lines[k].id & a->all_services) != 0) sel[n_sel++] = k;
  for (i = 0; i < NCL; i++) obs_clnt(&o0[i], W_cl[i]);
  V_ASSUME(C19.send_ret[0] >= 0);                                        /* the write does not fail (failure = disconnect, C19) */

  /* ---- proxyd.c:2482-2487 ---- */
  ok = vbi_proxyd_send_sliced(a, &blocked);
  if (ok) {
    pthread_mutex_lock(&proxy.dev[a->dev_idx].queue_mutex);
    vbi_proxy_queue_release_sliced(a);
    pthread_mutex_unlock(&proxy.dev[a->dev_idx].queue_mutex);
  }

  V_ASSERT(ok, "send_succeeds");
  V_ASSERT(C19.send_calls == 1 && C19.sent[0].fd == o0[ACT].sock_fd, "send_one_write_to_own_socket");
  len_exp = (uint32_t) (sizeof(VBIPROXY_MSG_HEADER) + VBIPROXY_SLICED_IND_SIZE(n_sel, 0));
  V_ASSERT(C19.sent[0].len_asked == len_exp, "send_length");
  { const uint8_t *m = C19.sent[0].bytes; uint64_t ts; uint32_t nl, nr;
    V_ASSERT(be32(m) == len_exp && be32(m + 4) == MSG_TYPE_SLICED_IND, "send_header");
    memcpy(&ts, m + 8, 8); memcpy(&nl, m + 16, 4); memcpy(&nr, m + 20, 4);
    V_ASSERT(ts == dbl_bits(f->timestamp), "send_capture_timestamp");
    V_ASSERT(nl == n_sel && nr == 0, "send_line_count");
    for (k = 0; k < W_MAXLINES; k++)
      if (k < n_sel) V_ASSERT(0 == memcmp(m + 24 + 64 * k, &f->lines[sel[k]], 64), "send_exactly_the_granted_lines_in_order");
  }
  /* cursor moves on by exactly one frame, the frame loses exactly this reference */
  V_ASSERT(a->p_sliced == nxt, "send_cursor_advances_one");
  for (i = 0; i < NCL; i++) {
    obs_clnt(&o1[i], W_cl[i]);
    if (i != ACT) V_ASSERT(same_clnt(&o0[i], &o1[i]), "send_other_clients_untouched");
  }
  if (ref0 > 1) { V_ASSERT(f->ref_count == ref0 - 1 && q_pos_is(d->p_sliced, f, 0) + 1 >= 1, "send_frame_kept_for_others"); V_REACH("shared"); }
  else { V_ASSERT(d->p_free == f, "send_last_reader_frees_frame"); V_REACH("freed"); }
  V_ASSERT(inv_queue(), "send_inv_queue");
  if (n_sel > 0 && n_sel < (unsigned) f->line_count) V_REACH("filtered");
  V_END();
}
