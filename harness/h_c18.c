/* C18 - each proxy client gets every captured frame, filtered to its services, in order.
 * Real units (textually included): daemon/proxyd.c, src/proxy-msg.c; linked: src/inout.c, src/misc.c.
 * Environment: models/c19_io.c (capture device delivering one symbolic frame per read, update_services script, send() log).
 *
 * The property is decomposed into step contracts over an explicit queue invariant (common header inv_queue, plus
 * inv18 below: no cursor survives the closing of the device) and SEQ runs against a shadow model:
 *   h_fwd      capture step   vbi_proxyd_forward_data: the captured frame is appended once, referenced by exactly the clients that
 *                             will walk onto it
 *   h_deliver  delivery step  vbi_proxyd_send_sliced + vbi_proxy_queue_release_sliced (as vbi_proxyd_handle_client_sockets pairs
 *                             them): the message is exactly the frame at THAT client's cursor, filtered to its granted services,
 *                             in line order, with the capture time stamp; its cursor moves on by exactly one frame
 *   h_svc      service step   vbi_proxyd_take_service_req: the device is asked for the union of all clients' requests, is open
 *                             exactly while something is granted, grants are subsets of requests, nobody else's queue moves
 *   h_seq      SEQ            event sequences (capture / writable / disconnect / SERVICE_REQ / device revokes services / daemon
 *                             terminates) from a fresh subscription; the event ORDER and the service pattern are concrete (grid),
 *                             all payload is symbolic.  The handlers are called as vbi_proxyd_handle_client_sockets calls them
 *                             (a few lines of that function are replicated per event, with line references)
 *   h_main     SEQ            the REAL vbi_proxyd_main_loop (get_fd_set, loop body, forward_data, handle_client_sockets: nothing
 *                             replicated) against a scripted select(): capture / stalled sockets / peer closes / termination
 * States and runs of the two open defects G (client with frames pending and no service granted is not counted for a new frame) and
 * K (closing the device frees the queue under the clients' cursors) are split off by GSTATE / KSTATE and own schedules, so that all
 * other instances are decided independently of them. */
#include "verif.h"
#include "c19_io.h"
#include <stdlib.h>

#ifdef VERIF_CBMC
/* memcpy as a byte loop (solver build; every caller of the linked units gets it).  CBMC's built-in memcpy is an array constraint over the
 * whole destination OBJECT: after the daemon copied a line into the message it is assembling, the line counter in the same buffer is no
 * constant any more, so the message length, the result of send() and the number of iterations of the delivery loop all become symbolic
 * (measured on seq_schedule, 4 events: 230 000 symex steps / 36 s with the built-in, 20 000 steps / 3 s with the loop).  Lengths are
 * concrete everywhere in this harness; the unwinding assertion on memcpy.0 guards the bound. */
void *memcpy(void *dst, const void *src, size_t n)
{
  size_t i;
  for (i = 0; i < n; i++) ((unsigned char *) dst)[i] = ((const unsigned char *) src)[i];
  return dst;
}
#endif

#ifdef VERIF_CBMC
#include <pthread.h>
/* vbi_proxyd_destroy destroys the (never used: no acquisition thread) start condition of every device; cbmc 6 flags a call without body */
int pthread_cond_destroy(pthread_cond_t *c) { (void) c; return 0; }
#endif

#define vbi_proxy_msg_logger c19_real_msg_logger
#include "src/proxy-msg.c"
#undef vbi_proxy_msg_logger
void vbi_proxy_msg_logger(int level, int clnt_fd, int errCode, const char *pText, ...)
{ (void) level; (void) clnt_fd; (void) errCode; (void) pText; }

/* Allocation model (solver build only; the native replay build uses the real malloc under ASan).  Every malloc() of daemon/proxyd.c and of the world
 * construction in h_c19_common.h goes through c18_malloc, which hands out TYPED objects:
 *  - frame buffers: the daemon allocates QUEUE_ELEM_SIZE(q, n) = sizeof(PROXY_QUEUE) + 64 (n - 1) bytes.  CBMC makes that an untyped byte array
 *    (the size is no plain sizeof): list pointer, reference count and line count are then read back through byte_extract over WITH-chains,
 *    no list walk has a concrete trip count any more and pointers are bit-blasted out of bytes (service_step from a closed device: no verdict
 *    in 200 s / 7 GB).  c18_malloc returns a typed object for 0 lines (first open) and 1 line (PROXY_QUEUE itself); for W_MAXLINES > 1 only with
 *    C18_TYPED_QN (capture steps: they never index lines[k >= 1] through the PROXY_QUEUE type, see struct c18_qn), else the byte array
 *    (delivery_step: one delivery, bearable).
 *  - the sliced indication is allocated with its actual size (24 + 64 n bytes) and filled through a VBIPROXY_MSG pointer (992 byte type).  CBMC
 *    checks `p_msg->body' (984 bytes) as a whole against the object and reports "pointer outside object bounds"; in cbmc 6 that check is FATAL:
 *    every later property comes back UNKNOWN.  An allocation of 24 + 64 n bytes (no frame buffer has such a size: they are 40 + 64 n) is an object of the
 *    size of the TYPE, a struct with the layout of a sliced indication (header, time stamp, counters, C18_MSGCAP line slots): an untyped byte array
 *    of 1000 bytes made the line counter the daemon keeps in the message - hence the message length, the result of send() and the trip count of the
 *    delivery loop - symbolic (seq_schedule, two frames: 247 000 symex steps, 61 s, 2.2 GB; typed: 30 000 steps, 9 s, 130 MB).  The size the daemon
 *    asked for is recorded; the line slot behind it carries a guard pattern that the delivery step checks (so a line written behind the
 *    allocation is still found). */
#ifdef VERIF_CBMC
static void *c18_malloc(size_t n);
static int C18_send_flag;             /* set by the harness around its own calls of vbi_proxyd_send_sliced (delivery_step: the size asked for is symbolic there) */
#define C18_SEND_BEGIN() (C18_send_flag = 1)
#define C18_SEND_END() (C18_send_flag = 0)
#define malloc(n) c18_malloc(n)
#else
#define C18_SEND_BEGIN() ((void) 0)
#define C18_SEND_END() ((void) 0)
#endif

#define main proxyd_main
#include "daemon/proxyd.c"
#undef main

#ifndef W_MAXLINES
#define W_MAXLINES 3
#endif
#ifndef W_NBUF
#define W_NBUF 3
#endif
#include "h_c19_common.h"

#ifdef VERIF_CBMC
#undef malloc
#ifndef C18_MSGCAP
#define C18_MSGCAP 4                         /* line slots of the model message: W_MAXLINES + 1 guard slot at least */
#endif
struct c18_msgobj {
  VBIPROXY_MSG_HEADER head; double timestamp; uint32_t sliced_lines, raw_lines; vbi_sliced sliced[C18_MSGCAP];
  uint8_t pad[sizeof(VBIPROXY_MSG) - sizeof(VBIPROXY_MSG_HEADER) - 16 - C18_MSGCAP * sizeof(vbi_sliced)];
};
struct c18_q0 { struct PROXY_QUEUE_s *p_next; unsigned int ref_count, use_count; int max_lines, line_count; double timestamp; void *p_raw_data; };   /* PROXY_QUEUE without lines[] */
#if W_MAXLINES > 1
/* flat layout (not { PROXY_QUEUE q; vbi_sliced more[]; }: through the prefix type `q.lines[1]' is an index into a one-element member array, which
   CBMC neither checks (last member: flexible array idiom) nor resolves - the write is lost, the read is unconstrained) */
struct c18_qn { struct PROXY_QUEUE_s *p_next; unsigned int ref_count, use_count; int max_lines, line_count; double timestamp; void *p_raw_data; vbi_sliced lines[W_MAXLINES]; };
#endif
static size_t C18_msg_asked; static struct c18_msgobj *C18_msg_obj;
#define C18_GUARD 0xA5
static uint8_t *C18_msg_bytes;
static void *c18_malloc(size_t n)
{
  int C18_in_send = C18_send_flag || (n >= 24 && (n - 24) % 64 == 0);      /* a sliced indication of (n - 24) / 64 lines (the main loop calls send_sliced itself) */
#ifdef C18_MSG_BYTES
  /* delivery_step: the line slot the daemon writes is selected by a SYMBOLIC counter (the services are symbolic).  Byte stores at a symbolic offset into
     the typed message object are not all read back by cbmc 6.11 (unconfirmed counterexample: the 9th byte of the second line kept its initial value), so
     this obligation uses an untyped byte array of the size of the type with 8 guard bytes behind the size asked for (one send only: the cost is bearable) */
  if (C18_in_send) {
    uint8_t *p = malloc(sizeof(VBIPROXY_MSG) + 8); unsigned i;
    C18_msg_asked = n; C18_msg_bytes = p;
    __CPROVER_assert(n + 8 <= sizeof(VBIPROXY_MSG) + 8, "VP:msg_alloc_within_model_bound");
    for (i = 0; i < 8; i++) p[n + i] = C18_GUARD;
    return p;
  }
#endif
  if (C18_in_send) {
    struct c18_msgobj *p = malloc(sizeof(struct c18_msgobj));
    unsigned k, b;
    C18_msg_asked = n; C18_msg_obj = p;
    __CPROVER_assert(sizeof(struct c18_msgobj) == sizeof(VBIPROXY_MSG), "VP:msg_model_object_has_the_size_of_the_type");
    __CPROVER_assert(n >= 24 && (n - 24) % 64 == 0 && (n - 24) / 64 < C18_MSGCAP, "VP:msg_alloc_within_model_bound");
    for (k = 0; k < C18_MSGCAP; k++)
      if (k == (n - 24) / 64) { p->sliced[k].id = 0xA5A5A5A5u; p->sliced[k].line = 0xA5A5A5A5u; for (b = 0; b < 56; b++) p->sliced[k].data[b] = C18_GUARD; }
    return p;
  }
  __CPROVER_assert(sizeof(struct c18_q0) == QUEUE_ELEM_SIZE(0, 0), "VP:queue_model_object_0_lines");
#if W_MAXLINES > 1
  __CPROVER_assert(sizeof(struct c18_qn) == QUEUE_ELEM_SIZE(0, W_MAXLINES), "VP:queue_model_object_n_lines");
#endif
  if (n == sizeof(struct c18_q0)) return malloc(sizeof(struct c18_q0));
  if (n == sizeof(PROXY_QUEUE)) return malloc(sizeof(PROXY_QUEUE));
#if W_MAXLINES > 1 && defined(C18_TYPED_QN)
  if (n == sizeof(struct c18_qn)) return malloc(sizeof(struct c18_qn));
#endif
  return malloc(n);
}
static int c18_guard_ok(void)
{
  unsigned k, b; int ok = 1;
#ifdef C18_MSG_BYTES
  for (b = 0; b < 8; b++) ok &= C18_msg_bytes[C18_msg_asked + b] == C18_GUARD;
  return ok;
#endif
  for (k = 0; k < C18_MSGCAP; k++)
    if (k == (C18_msg_asked - 24) / 64) {
      ok &= C18_msg_obj->sliced[k].id == 0xA5A5A5A5u && C18_msg_obj->sliced[k].line == 0xA5A5A5A5u;
      for (b = 0; b < 56; b++) ok &= C18_msg_obj->sliced[k].data[b] == C18_GUARD;
    }
  return ok;
}
#else
static int c18_guard_ok(void) { return 1; }
#endif

#ifndef DEVOPEN
#define DEVOPEN 1
#endif
#ifndef BDEV
#define BDEV 0
#endif
#ifndef ACT
#define ACT 0
#endif

static uint64_t dbl_bits(double d) { uint64_t u; memcpy(&u, &d, 8); return u; }

/* Stores into objects that hold pointers or path-selecting counters (queue elements, client structs, the environment script C19)
 * are written member by member / byte by byte, never as memcpy/memset: CBMC models those by array constraints over the whole
 * object, after which no member of it is a constant for symex any more. */
static double dbl_from_bits(uint64_t u) { union { uint64_t u; double d; } x; x.u = u; return x.d; }

/* symbolic frame at the model device */
static void w_frame(void)
{
  unsigned i, b;
  C19.frame_ret = (int32_t) (int8_t) in_u8();
  C19.frame_lines = (int32_t) in_u8();
  C19.frame_ts = dbl_from_bits(in_u64());
  for (i = 0; i < C19_MAXLINES; i++) for (b = 0; b < 64; b++) C19.frame_data[i][b] = in_u8();
}

/* symbolic contents of the frame buffers (time stamp, lines; line count 0..W_MAXLINES) */
static void w_fill_frames(void)
{
  unsigned j, k, b;
  for (j = 0; j < W_NBUF; j++) {
    PROXY_QUEUE *q = W_q[j];
    q->timestamp = dbl_from_bits(in_u64());
    q->line_count = (int) in_u8(); V_ASSUME(q->line_count >= 0 && q->line_count <= W_MAXLINES);
    for (k = 0; k < W_MAXLINES; k++) {
      q->lines[k].id = in_u32(); q->lines[k].line = in_u32();
      for (b = 0; b < 56; b++) q->lines[k].data[b] = in_u8();
    }
  }
}

/* subscribed: the client is granted something.  takes_new_frame: the clients a new frame is queued for - the subscribed ones and
 * those that still have frames pending (their cursor walks onto the new frame; the device may have revoked all their services in
 * a re-computation caused by somebody else, see seq_revoke) */
static int subscribed(const PROXY_CLNT *c) { return c->dev_idx == 0 && c->state == REQ_STATE_FORWARD && c->all_services != 0; }
static int takes_new_frame(const PROXY_CLNT *c) { return c->dev_idx == 0 && c->state == REQ_STATE_FORWARD && (c->all_services != 0 || c->p_sliced != NULL); }

static int revoked_with_frames_pending(const PROXY_CLNT *c) { return c->dev_idx == 0 && c->state == REQ_STATE_FORWARD && c->all_services == 0 && c->p_sliced != NULL; }

/* Q plus: a closed device has no queue, so no client of it may still hold a cursor (the buffers are freed) */
static int inv18(void)
{
  unsigned i; int ok = inv_queue();
  if (proxy.dev[0].p_capture == NULL)
    for (i = 0; i < W_ncl; i++)
      if (w_alive(i) && W_cl[i]->dev_idx == 0) ok &= W_cl[i]->p_sliced == NULL;
  return ok;
}

/* =====================================================================================================
 * capture step: vbi_proxyd_forward_data(0) from every well-formed queue state (W_NBUF buffers, NQ queued,
 * cursors symbolic), device delivering an arbitrary frame / timeout / error.
 * ===================================================================================================== */
V_HARNESS(h_fwd)
{
  PROXY_DEV *d = &proxy.dev[0]; PROXY_QUEUE *q_old[4], *tail, *p; struct clnt_obs o0[3], o1[3];
  unsigned i, k, nref = 0, ns0 = 0, ns1 = 0; int n_exp, forced;
  V_INIT();
  w_init();
  w_device(1);
  w_fill_frames();
  V_ASSUME(!VBI_RAW_SERVICES(d->all_services));                         /* raw (unsliced) forwarding is outside the claim */
  for (i = 0; i < NCL; i++) w_client((i == NCL - 1) ? BDEV : 0, 0);
  w_link();
  w_queue();
  w_frame();
  w_assume_inv();
  /* GSTATE 0: every client with frames pending is still granted something (the only states the daemon reaches while the device answers every
     re-computation the same way); GSTATE 1: at least one client lost all its services in a re-computation caused by somebody else while frames were
     pending for it (reached by seq_revoke[REVOKE=1] (1,7): norm change / conflicting request between two re-computations); undefined: both */
#ifdef GSTATE
  { int n_rev = 0; for (i = 0; i < NCL; i++) n_rev += revoked_with_frames_pending(W_cl[i]); V_ASSUME(GSTATE ? n_rev > 0 : n_rev == 0); }
#endif
  for (i = 0; i < NCL; i++) { obs_clnt(&o0[i], W_cl[i]); if (takes_new_frame(W_cl[i])) nref++; }
  for (k = 0, p = d->p_sliced; k < 4; k++) { q_old[k] = p; if (p) { ns0 = k + 1; p = p->p_next; } }
  forced = (d->p_free == NULL);                                         /* no free buffer: the oldest frame is dropped by force */
  n_exp = C19.frame_lines; if (n_exp < 0) n_exp = 0; if (n_exp > C19_MAXLINES) n_exp = C19_MAXLINES; if (n_exp > W_MAXLINES) n_exp = W_MAXLINES;

  w_dump("before forward_data");
  vbi_proxyd_forward_data(0);
  w_dump("after forward_data");

  V_ASSERT(c19_locks_held() == 0, "fwd_no_lock_left_held");
  V_ASSERT(inv18(), "fwd_inv_queue");
  for (k = 0, p = d->p_sliced, tail = NULL; k < 4; k++) if (p) { ns1 = k + 1; tail = p; p = p->p_next; }
  for (i = 0; i < NCL; i++) obs_clnt(&o1[i], W_cl[i]);
  if (C19.frame_ret > 0 && nref > 0) {
    /* the frame is queued once, at the tail, referenced by exactly the clients that will walk onto it */
    V_ASSERT(ns1 == ns0 + 1 - (forced ? 1 : 0) && tail != NULL, "fwd_one_frame_appended");
    V_ASSERT(tail->ref_count == nref, "fwd_referenced_by_subscribers");
    V_ASSERT(tail->line_count == n_exp && dbl_bits(tail->timestamp) == dbl_bits(C19.frame_ts), "fwd_frame_header");
    for (k = 0; k < W_MAXLINES; k++)
      if ((int) k < n_exp) V_ASSERT(0 == memcmp(&tail->lines[k], C19.frame_data[k], 64), "fwd_frame_lines");
    for (i = 0; i < NCL; i++) {
      const void *exp = o0[i].p_sliced;
      if (forced && exp == (void *) q_old[0]) exp = (void *) q_old[1];   /* lost the oldest frame */
      if (exp == NULL && subscribed(W_cl[i])) exp = (void *) tail;       /* nothing pending: the new frame is next */
      V_ASSERT(o1[i].p_sliced == exp, "fwd_cursors");
    }
    for (k = (forced ? 1 : 0); k < ns0; k++) V_ASSERT(q_pos_is(d->p_sliced, q_old[k], (int) k - (forced ? 1 : 0)), "fwd_order_kept");
    V_REACH("queued");
    if (forced) V_REACH("forced");
  } else if (!forced) {
    V_ASSERT(ns1 == ns0, "fwd_nothing_queued");
    for (i = 0; i < NCL; i++) V_ASSERT(o1[i].p_sliced == o0[i].p_sliced, "fwd_cursors_unchanged");
    for (k = 0; k < ns0; k++) V_ASSERT(q_pos_is(d->p_sliced, q_old[k], (int) k), "fwd_order_unchanged");
    V_REACH("idle");
  }
  for (i = 0; i < NCL; i++)
    V_ASSERT(o1[i].state == o0[i].state && o1[i].all_services == o0[i].all_services && o1[i].writeLen == o0[i].writeLen, "fwd_clients_otherwise_untouched");
  V_END();
}

/* =====================================================================================================
 * delivery step: client ACT is idle with a pending frame and its socket is writable: vbi_proxyd_send_sliced +
 * vbi_proxy_queue_release_sliced exactly as vbi_proxyd_handle_client_sockets pairs them (proxyd.c:2483-2497).
 * Queue: NQ frames of W_MAXLINES-line buffers, contents symbolic; the cursors CUR0, CUR1 are concrete (grid), LC = number of
 * lines in the frame at the acting client's cursor (concrete: it is the size of the message the daemon allocates).
 * Shadow: that frame, the lines whose id intersects all_services, in order, with the capture time stamp.
 * The socket takes nothing right now, so the message stays in the write buffer where it is inspected.
 * ===================================================================================================== */
#ifndef LC
#define LC W_MAXLINES
#endif
V_HARNESS(h_deliver)
{
  PROXY_DEV *d = &proxy.dev[0]; PROXY_CLNT *a; PROXY_QUEUE *f, *nxt; struct clnt_obs o0[3], o1[3];
  unsigned i, k, m, n_sel = 0; int sel[W_MAXLINES], pos0; vbi_bool blocked = FALSE, ok; uint32_t ref0, len_exp; uint8_t fr0[W_MAXLINES][64]; uint64_t ts0;
  V_INIT();
  w_init();
  w_device(1);
  w_fill_frames();
  for (i = 0; i < NCL; i++) w_client(0, 0);
  W_cl[ACT]->state = REQ_STATE_FORWARD;           /* before the queue is built: the acting client's cursor is then a constant pointer (it selects the frame whose
                                                     line count bounds the daemon's filter loop; behind a symbolic state it was NULL-or-frame and the loop ran to the unwind bound) */
  w_link();
  w_queue();
  w_assume_inv();
  a = W_cl[ACT];
  V_ASSUME(a->p_sliced != NULL);
  a->state = REQ_STATE_FORWARD; a->io.writeLen = 0; a->io.writeOff = 0; a->io.pWriteBuf = NULL; a->io.readLen = 0; a->io.readOff = 0;   /* idle, frame pending */
  a->all_services &= ~(unsigned) (VBI_SLICED_VBI_625 | VBI_SLICED_VBI_525);   /* no raw forwarding (masked, not assumed: the message size must fold to a constant) */
  V_ASSUME(a->vbi_count[0] >= 0 && a->vbi_count[0] <= 64 && a->vbi_count[1] >= 0 && a->vbi_count[1] <= 64 && a->vbi_count[0] + a->vbi_count[1] >= W_MAXLINES);   /* line range fixed at subscription covers the device's */
  f = a->p_sliced; nxt = f->p_next; ref0 = f->ref_count;
  for (pos0 = 0; pos0 < 4 && !q_pos_is(d->p_sliced, f, pos0); pos0++) ;                  /* position of the frame in the queue (stays if others still need it) */
  f->line_count = LC;
  memcpy(&ts0, &f->timestamp, 8);
  for (k = 0; k < W_MAXLINES; k++) memcpy(fr0[k], &f->lines[k], 64);
  /* shadow filter, written without symbolic array indices */
  for (k = 0; k < W_MAXLINES; k++) {
    uint32_t id; memcpy(&id, fr0[k], 4);
    sel[k] = (int) k < LC && (id & a->all_services) != 0;
    n_sel += (unsigned) sel[k];
  }
  for (i = 0; i < NCL; i++) obs_clnt(&o0[i], W_cl[i]);
  C19.send_ret[0] = 0;

  /* ---- proxyd.c:2486-2491 ---- */
  C18_SEND_BEGIN();
  ok = vbi_proxyd_send_sliced(a, &blocked);
  C18_SEND_END();
  if (ok) {
    pthread_mutex_lock(&proxy.dev[a->dev_idx].queue_mutex);
    vbi_proxy_queue_release_sliced(a);
    pthread_mutex_unlock(&proxy.dev[a->dev_idx].queue_mutex);
  }

  V_ASSERT(ok && blocked, "send_queued_and_blocked");
  V_ASSERT(C19.send_calls == 1 && C19.sent[0].fd == o0[ACT].sock_fd, "send_one_write_to_own_socket");
  len_exp = (uint32_t) (sizeof(VBIPROXY_MSG_HEADER) + VBIPROXY_SLICED_IND_SIZE(n_sel, 0));
  V_ASSERT(a->io.writeLen == len_exp && a->io.writeOff == 0 && a->io.freeWriteBuf && a->io.pWriteBuf != NULL && C19.sent[0].len_asked == len_exp, "send_length");
  V_ASSERT(c18_guard_ok(), "send_nothing_written_behind_the_allocation");
  { const uint8_t *pm = (const uint8_t *) a->io.pWriteBuf; uint64_t ts; uint32_t nl, nr; unsigned pos = 0;
    memcpy(&ts, pm + 8, 8); memcpy(&nl, pm + 16, 4); memcpy(&nr, pm + 20, 4);
    V_ASSERT(be32(pm) == len_exp && be32(pm + 4) == MSG_TYPE_SLICED_IND, "send_header");
    V_ASSERT(ts == ts0, "send_capture_timestamp");
    V_ASSERT(nl == n_sel && nr == 0, "send_line_count");
    /* the k-th granted line of the frame is the k-th line of the message */
    for (k = 0; k < W_MAXLINES; k++) {
      if (!sel[k]) continue;
      for (m = 0; m <= k; m++)
        if (m == pos) V_ASSERT(0 == memcmp(pm + 24 + 64 * m, fr0[k], 64), "send_exactly_the_granted_lines_in_order");
      pos++;
    }
  }
  /* the queued frame itself is not modified */
  for (k = 0; k < W_MAXLINES; k++) V_ASSERT(0 == memcmp(&f->lines[k], fr0[k], 64), "send_frame_unmodified");
  /* cursor moves on by exactly one frame, the frame loses exactly this reference */
  V_ASSERT(a->p_sliced == nxt, "send_cursor_advances_one");
  for (i = 0; i < NCL; i++) {
    obs_clnt(&o1[i], W_cl[i]);
    if (i != ACT) V_ASSERT(same_clnt(&o0[i], &o1[i]), "send_other_clients_untouched");
  }
  V_ASSERT(o1[ACT].all_services == o0[ACT].all_services && o1[ACT].state == o0[ACT].state, "send_own_subscription_untouched");
  if (ref0 > 1) { V_ASSERT(f->ref_count == ref0 - 1 && q_pos_is(d->p_sliced, f, pos0) && f->p_next == nxt, "send_frame_kept_for_others"); V_REACH("shared"); }
  else { V_ASSERT(d->p_free == f && d->p_sliced == nxt, "send_last_reader_frees_frame"); V_REACH("freed"); }
  V_ASSERT(inv18(), "send_inv_queue");
  if (n_sel > 0 && n_sel < (unsigned) LC) V_REACH("filtered");
  if (n_sel == (unsigned) LC) V_REACH("all");
  free(a->io.pWriteBuf); a->io.pWriteBuf = NULL;
  V_END();
}

/* =====================================================================================================
 * service step: vbi_proxyd_take_service_req(a, services, STRICTV, ..) as CONNECT_REQ / SERVICE_REQ call it (the acting client is
 * FORWARD with an empty queue: SERVICE_REQ flushed it, a new connection has none), services symbolic, from every invariant state
 * (device open with NQ queued frames / closed; the other client symbolic), the device granting an arbitrary subset per call.
 *   - the device is asked for exactly the union of what the clients of that device ask for (every strictness level)
 *   - a client is granted a subset of what it asks for; the device's service set is the union of the grants
 *   - the device is open afterwards iff something is granted (opened at most once, closed at most once)
 *   - nobody else's cursor moves while the device stays open; when it closes, no cursor survives (the buffers are freed)
 * ===================================================================================================== */
#ifndef STRICTV
#define STRICTV 0
#endif
V_HARNESS(h_svc)
{
  PROXY_DEV *d = &proxy.dev[0]; PROXY_CLNT *a; struct clnt_obs o0[3], o1[3]; struct env_obs e0, e1;
  unsigned i, k, new_services, asked_union = 0, grant_union = 0, own_asked = 0, own_after = 0; vbi_bool r; int was_open;
  static char errbuf[VBIPROXY_ERROR_STR_MAX_LENGTH];
  V_INIT();
  w_init();
  w_device(DEVOPEN);
#if !DEVOPEN && defined(PREVLINES)
  d->max_lines = PREVLINES;       /* line count of the last time the device was open (never reset by the daemon); 0: first open - the buffers allocated while opening have no line */
#endif
  for (i = 0; i < NCL; i++) w_client((i != ACT && i == NCL - 1) ? BDEV : 0, 0);
  w_link();
  w_queue();
  w_assume_inv();
  a = W_cl[ACT];
  new_services = in_u32();
  V_ASSUME(a->state == REQ_STATE_FORWARD && a->p_sliced == NULL);
  V_ASSUME(inv18());
  /* a device that is closed has nothing granted to anybody (established by this step and by upd_services) */
  if (!DEVOPEN) for (i = 0; i < NCL; i++) V_ASSUME(W_cl[i]->dev_idx != 0 || W_cl[i]->all_services == 0);
  was_open = d->p_capture != NULL;
  for (i = 0; i < NCL; i++) obs_clnt(&o0[i], W_cl[i]);
  obs_env(&e0);

  w_dump("before service request");
  r = vbi_proxyd_take_service_req(a, new_services, STRICTV, errbuf);
  w_dump("after service request");

  obs_env(&e1);
  for (i = 0; i < NCL; i++) obs_clnt(&o1[i], W_cl[i]);
  /* KSTATE 0: runs in which the device is closed while another client still has frames pending are left out (nothing is granted to anybody any more
     although that client was granted something when its frames were captured: the device changed an earlier answer, seq_revoke[REVOKE=1] (1,2,1,5));
     KSTATE 1: only those runs; undefined: all runs */
#ifdef KSTATE
  { int k_run = 0; for (i = 0; i < NCL; i++) if (i != ACT && o0[i].p_sliced != NULL) k_run = 1;
    k_run = k_run && was_open && d->p_capture == NULL;
    V_ASSUME(KSTATE ? k_run : !k_run); if (k_run) V_REACH("closed_with_cursor"); }
#endif
  /* the request table of the acting client: the new services moved to the given level, nothing else changed; after the grant
     the level holds no more than what was asked */
  for (k = 0; k < 4; k++) {
    unsigned asked_k = (k == (unsigned) (STRICTV - VBI_MIN_STRICT)) ? (o0[ACT].services[k] | new_services) : (o0[ACT].services[k] & ~new_services);
    /* what stays recorded at a level is what was asked for there, narrowed to what the device granted (proxyd.c:1102-1105: the table of the
       REQUESTING client is masked with the grants); never a service that was not asked for at that level */
    if ((int) k == STRICTV - VBI_MIN_STRICT) V_ASSERT((o1[ACT].services[k] & ~asked_k) == 0, "svc_request_level");
    else V_ASSERT((o1[ACT].services[k] & ~asked_k) == 0, "svc_request_moved_from_other_levels");
    own_asked |= asked_k; own_after |= o1[ACT].services[k];
  }
  /* a re-computation ran (the device is or was open): the requester is granted exactly what stays recorded in its table */
  if (d->p_capture != NULL || was_open) V_ASSERT(o1[ACT].all_services == own_after, "svc_own_grant_is_what_stays_recorded");
  for (i = 0; i < NCL; i++) {
    unsigned asked = 0;
    if (i == ACT) asked = own_asked; else for (k = 0; k < 4; k++) asked |= o0[i].services[k];
    if (i != ACT) V_ASSERT(o1[i].services[0] == o0[i].services[0] && o1[i].services[1] == o0[i].services[1] && o1[i].services[2] == o0[i].services[2] &&
                           o1[i].services[3] == o0[i].services[3] && o1[i].state == o0[i].state, "svc_other_requests_untouched");
    if (o1[i].dev_idx == 0 && o1[i].state == REQ_STATE_FORWARD) {
      if (d->p_capture != NULL || was_open || e1.n_open != e0.n_open) {     /* a re-computation ran */
        V_ASSERT((o1[i].all_services & ~asked) == 0, "svc_grant_is_subset_of_request");
        asked_union |= asked; grant_union |= o1[i].all_services;
      }
    } else V_ASSERT(o1[i].all_services == o0[i].all_services, "svc_other_device_untouched");
  }
  if (e1.upd_calls != e0.upd_calls) V_ASSERT(C19.upd_services_union == asked_union, "svc_device_asked_for_union_of_requests");
  V_ASSERT(e1.n_open - e0.n_open <= 1 && e1.n_delete - e0.n_delete <= 1 && (was_open ? e1.n_open == e0.n_open : 1), "svc_device_opened_and_closed_at_most_once");
  if (d->p_capture != NULL) {
    V_ASSERT(d->all_services == grant_union && grant_union != 0, "svc_device_open_for_union_of_grants");
    V_ASSERT(c19_device_is_open(), "svc_device_handle_live");
    for (i = 0; i < NCL; i++) if (i != ACT) V_ASSERT(o1[i].p_sliced == o0[i].p_sliced, "svc_other_cursors_untouched");
    V_REACH("open");
  } else {
    V_ASSERT(!c19_device_is_open(), "svc_device_closed_when_nothing_granted");
    if (was_open || e1.n_open != e0.n_open) V_ASSERT(grant_union == 0 || !r, "svc_closed_only_without_grants");
    V_REACH("closed");
  }
  if (r && new_services != 0) V_ASSERT((o1[ACT].all_services & new_services) != 0, "svc_confirmed_only_if_something_new_granted");
  V_ASSERT(o1[ACT].p_sliced == NULL || d->p_capture != NULL, "svc_own_cursor");
  V_ASSERT(inv_dev(0) && inv_dev(1), "svc_inv_device");
  V_ASSERT(inv18(), "svc_inv_queue");
  V_END();
}

/* =====================================================================================================
 * SEQ: NCL (2..3) connected clients in FORWARD, an empty queue of W_NBUF buffers, up to 8 events E0..E7.  The event ORDER, the
 * service sets (SVC0..2, LID0..2 = ids of the lines of every frame, SREQ = services of a SERVICE_REQ) and which re-computation
 * calls the device answers with "nothing" (REVOKE, bit k = k-th vbi_capture_update_services call of the run) are build-time
 * (grid); frame payload, time stamps and the clock are symbolic.  The pointer structure of the run is therefore concrete
 * (a symbolic schedule or subscription merges pointer states: the first version needed > 20 GB for 4 events).
 *   1    frame captured (W_MAXLINES lines)                          -> vbi_proxyd_forward_data
 *   9    the device has nothing (read returns 0)                    -> vbi_proxyd_forward_data
 *   2/3/8 client 0/1/2 writable -> what vbi_proxyd_handle_client_sockets does for a writable socket (proxyd.c:2437-2499)
 *   4/5  client 0/1 disconnects -> vbi_proxyd_close + unlink + service re-computation (proxyd.c:2520-2547)
 *   6/7  client 0/1 sends SERVICE_REQ(reset, SREQ, strict 0)        -> vbi_proxyd_take_message
 *   10   the daemon is told to terminate                            -> vbi_proxyd_destroy
 * Shadow model: per client the list of frames not yet delivered: a frame is appended for the clients that are subscribed (or
 * still have frames pending) when it is captured; when the daemon has no free buffer the oldest frame is given up by the clients
 * still waiting for it; a SERVICE_REQ drops the sender's own list; the closing of the device drops all lists.
 * Assert: the messages handed to send() for client i are, in capture order, exactly once, those frames, each filtered to the
 * services granted at delivery, with the capture time stamp; replies first; nothing else is sent.
 * ===================================================================================================== */
#ifndef E0
#define E0 1
#endif
#ifndef E1
#define E1 1
#endif
#ifndef E2
#define E2 2
#endif
#ifndef E3
#define E3 3
#endif
#ifndef E4
#define E4 0
#endif
#ifndef E5
#define E5 0
#endif
#ifndef E6
#define E6 0
#endif
#ifndef E7
#define E7 0
#endif
#ifndef SVC0
#define SVC0 0x3
#endif
#ifndef SVC1
#define SVC1 0x4
#endif
#ifndef SVC2
#define SVC2 0x7
#endif
#ifndef LID0
#define LID0 0x2
#endif
#ifndef LID1
#define LID1 0x4
#endif
#ifndef LID2
#define LID2 0x1
#endif
#ifndef SREQ
#define SREQ 0x4
#endif
#ifndef REVOKE
#define REVOKE 0
#endif
#ifndef SRESET
#define SRESET 0        /* 1: the request clears the table first (a memset over the client struct: symex loses its constants) */
#endif
#define SQ_F 8
struct sq_frame { int n; uint64_t ts; uint32_t id[W_MAXLINES]; uint8_t data[W_MAXLINES][64]; };
static struct sq_frame SQ_fr[SQ_F]; static unsigned SQ_nf;
static int SQ_pend[3][SQ_F]; static unsigned SQ_np[3];          /* shadow: frame indices pending per client, capture order */
static int SQ_conn[3];

static void sq_drop_all(void) { unsigned c; for (c = 0; c < 3; c++) SQ_np[c] = 0; }

static void sq_capture(int have_frame)
{
  struct sq_frame *f = &SQ_fr[SQ_nf]; unsigned i, c, has_free; static const uint32_t lid[3] = { LID0, LID1, LID2 };
  if (proxy.dev[0].p_capture == NULL) return;             /* a closed device is not in the daemon's select() set */
  w_frame();
  C19.frame_ret = have_frame ? 1 : 0; C19.frame_lines = W_MAXLINES;        /* concrete line count: it is the size of the message buffer the daemon allocates */
  for (i = 0; i < W_MAXLINES; i++) {                     /* concrete service id of line i (byte stores: a memcpy would hide the constant from symex) */
    C19.frame_data[i][0] = (uint8_t) lid[i % 3]; C19.frame_data[i][1] = (uint8_t) (lid[i % 3] >> 8);
    C19.frame_data[i][2] = (uint8_t) (lid[i % 3] >> 16); C19.frame_data[i][3] = (uint8_t) (lid[i % 3] >> 24);
  }
  f->n = W_MAXLINES;
  f->ts = dbl_bits(C19.frame_ts);
  for (i = 0; i < W_MAXLINES; i++) { unsigned b; for (b = 0; b < 64; b++) f->data[i][b] = C19.frame_data[i][b]; f->id[i] = lid[i % 3]; }
  /* shadow: out of buffers -> the oldest queued frame is given up by the clients still waiting for it */
  has_free = proxy.dev[0].p_free != NULL;
  if (!has_free) {
    int oldest = -1;
    for (c = 0; c < NCL; c++) if (SQ_conn[c] && SQ_np[c] > 0 && (oldest < 0 || SQ_pend[c][0] < oldest)) oldest = SQ_pend[c][0];
    for (c = 0; c < NCL; c++)
      if (SQ_conn[c] && SQ_np[c] > 0 && SQ_pend[c][0] == oldest) { for (i = 1; i < SQ_np[c]; i++) SQ_pend[c][i - 1] = SQ_pend[c][i]; SQ_np[c]--; V_REACH("overflow"); }
  }
  if (have_frame)
    for (c = 0; c < NCL; c++) if (SQ_conn[c] && (W_cl[c]->all_services != 0 || SQ_np[c] > 0)) SQ_pend[c][SQ_np[c]++] = (int) SQ_nf;
  vbi_proxyd_forward_data(0);
  if (have_frame) SQ_nf++;
}

static void sq_writable(unsigned c)
{
  PROXY_CLNT *req = W_cl[c]; vbi_bool io_blocked = FALSE; unsigned s0 = C19.send_calls, j, k, s, n_reply = 0; uint32_t reply_type = 0;
  if (!SQ_conn[c]) return;
  if (!vbi_proxy_msg_write_idle(&req->io)) { n_reply = 1; reply_type = ntohl(req->msg_buf.head.type); }
  /* ---- proxyd.c:2437-2499, socket in the write set ---- */
  if (!vbi_proxy_msg_write_idle(&req->io)) {
    if (vbi_proxy_msg_handle_write(&req->io, &io_blocked) == FALSE) vbi_proxyd_close(req, FALSE);
  }
  if (req->state == REQ_STATE_WAIT_CLOSE) vbi_proxyd_close(req, FALSE);
  else if (vbi_proxy_msg_is_idle(&req->io)) {
    if (req->chn_state.token_state == REQ_TOKEN_RECLAIM || req->chn_state.token_state == REQ_TOKEN_GRANT || req->chn_status_ind) {
      V_ASSERT(0, "seq_no_channel_indication_in_this_run");               /* no channel events in the schedule */
    } else {
      while ((req->p_sliced != NULL) && (io_blocked == FALSE)) {
        vbi_bool sent;
        C18_SEND_BEGIN(); sent = vbi_proxyd_send_sliced(req, &io_blocked); C18_SEND_END();
        if (sent) {
          pthread_mutex_lock(&proxy.dev[req->dev_idx].queue_mutex);
          vbi_proxy_queue_release_sliced(req);
          pthread_mutex_unlock(&proxy.dev[req->dev_idx].queue_mutex);
        } else { vbi_proxyd_close(req, FALSE); io_blocked = TRUE; }
      }
    }
  }
  /* the pending reply first, then every pending frame, once, in capture order, filtered, with its time stamp */
  V_ASSERT(C19.send_calls <= C19_NIO, "seq_send_script_long_enough");                       /* harness bound: later send() calls are refused by the socket model */
  V_ASSERT(req->state == REQ_STATE_FORWARD && req->io.writeLen == 0, "seq_connection_kept");
  V_ASSERT(C19.send_calls - s0 == n_reply + SQ_np[c] && req->p_sliced == NULL, "seq_all_pending_frames_sent_once");
  if (n_reply) {
    unsigned q;
    V_ASSERT(s0 < C19_SENDLOG, "seq_send_log_long_enough");
    for (q = 0; q < C19_SENDLOG; q++)
      if (q == s0) V_ASSERT(C19.sent[q].fd == req->io.sock_fd && be32(C19.sent[q].bytes + 4) == reply_type, "seq_reply_first");
    V_REACH("reply");
  }
  for (j = 0; j < SQ_F; j++) {
    const struct sq_frame *f; unsigned nsel = 0, q;
    if (j >= SQ_np[c]) continue;
    s = s0 + n_reply + j; f = &SQ_fr[SQ_pend[c][j]];
    V_ASSERT(s < C19_SENDLOG, "seq_send_log_long_enough");
    /* the record index is compared against constants (a symbolic index into the array of records inside C19 is resolved by CBMC 6.11
       relative to element 0 of the byte array: `C19.sent[s].bytes[0]' became `sent[[0]].bytes[100 s]', an out-of-bounds read of a
       field-split array whose value is unconstrained - the reason for the UNCONFIRMED counterexample of the first version) */
    for (q = 0; q < C19_SENDLOG; q++) {
      const struct c19_sendrec *r = &C19.sent[q]; uint64_t ts; uint32_t nl, nr;
      if (q != s) continue;
      V_ASSERT(r->fd == req->io.sock_fd, "seq_sent_to_own_socket");
      memcpy(&ts, r->bytes + 8, 8); memcpy(&nl, r->bytes + 16, 4); memcpy(&nr, r->bytes + 20, 4);
      V_ASSERT(be32(r->bytes + 4) == MSG_TYPE_SLICED_IND && ts == f->ts, "seq_capture_order_and_timestamp");
      for (k = 0; k < W_MAXLINES; k++) {
        if ((int) k < f->n && (f->id[k] & req->all_services) != 0) {
          V_ASSERT(0 == memcmp(r->bytes + 24 + 64 * nsel, f->data[k], 64), "seq_granted_lines_in_order");
          nsel++;
        }
      }
      V_ASSERT(nl == nsel && nr == 0 && be32(r->bytes) == 24 + 64 * nsel && r->len_asked == 24 + 64 * nsel && r->ret == (int32_t) (24 + 64 * nsel), "seq_only_granted_lines");
      V_REACH("delivered");
      if (nsel > 0 && nsel < W_MAXLINES) V_REACH("filtered");
    }
  }
  SQ_np[c] = 0;
}

static void sq_disconnect(unsigned c)
{
  PROXY_CLNT *a = W_cl[c], *prev = NULL; unsigned i, s0 = C19.send_calls;
  if (!SQ_conn[c]) return;
  for (i = 0; i < c; i++) if (SQ_conn[i]) prev = W_cl[i];
  vbi_proxyd_close(a, FALSE);
  /* ---- proxyd.c:2520-2547 ---- */
  { unsigned int clnt_services = a->all_services; int dev_idx = a->dev_idx;
    if (proxy.clnt_count > 0) proxy.clnt_count -= 1;
    pthread_mutex_lock(&proxy.clnt_mutex);
    if (prev == NULL) proxy.p_clnts = a->p_next; else prev->p_next = a->p_next;
    pthread_mutex_unlock(&proxy.clnt_mutex);
    if (clnt_services != 0) vbi_proxyd_update_services(dev_idx, NULL, 0, NULL);
    if (proxy.dev[dev_idx].p_capture != NULL) vbi_proxyd_channel_update(dev_idx, NULL, FALSE);
    free(a);
  }
  W_gone[c] = 1; SQ_conn[c] = 0; SQ_np[c] = 0;
  if (proxy.dev[0].p_capture == NULL) { sq_drop_all(); V_REACH("device_closed"); }
  V_ASSERT(C19.send_calls == s0, "seq_disconnect_sends_nothing");
}

static void sq_service_req(unsigned c)
{
  PROXY_CLNT *a = W_cl[c]; vbi_bool taken; unsigned s0 = C19.send_calls, asked, k;
  if (!SQ_conn[c]) return;
  V_ASSERT(vbi_proxy_msg_is_idle(&a->io), "seq_schedule_request_on_idle_connection");      /* schedule error otherwise: a W event must flush the last reply first */
  a->msg_buf.head.type = MSG_TYPE_SERVICE_REQ; a->msg_buf.head.len = sizeof(VBIPROXY_MSG_HEADER) + sizeof(VBIPROXY_SERVICE_REQ);
  a->msg_buf.body.service_req.reset = SRESET; a->msg_buf.body.service_req.commit = 1; a->msg_buf.body.service_req.strict = 0;
  a->msg_buf.body.service_req.services = SREQ;
  asked = SREQ; if (!SRESET) for (k = 0; k < 4; k++) asked |= a->services[k];             /* without reset the request adds to what the client asked for before */
  taken = vbi_proxyd_take_message(a, &a->msg_buf);
  V_ASSERT(taken && a->state == REQ_STATE_FORWARD && a->p_sliced == NULL, "seq_service_req_taken");
  V_ASSERT((a->all_services & ~asked) == 0, "seq_service_grant_subset");
  SQ_np[c] = 0;                                           /* frames still queued for the client that changes its services may be dropped */
  if (proxy.dev[0].p_capture == NULL) { sq_drop_all(); V_REACH("device_closed"); }
  V_ASSERT(C19.send_calls == s0, "seq_request_sends_nothing_yet");
}

/* event 10: the daemon is told to terminate (SIGTERM/SIGINT: vbi_proxyd_signal_handler sets proxy.should_exit, vbi_proxyd_main_loop returns,
 * main() calls vbi_proxyd_destroy): devices are closed, then every connection.  Nothing is sent, nothing freed is touched again. */
static void sq_shutdown(void)
{
  unsigned c, i, s0 = C19.send_calls; static const char path[] = "/tmp/c18-no-such-socket";
  for (i = 0; i < 2; i++) {                                /* as vbi_proxyd_add_device left it: a malloc'ed socket path */
    char *sp = malloc(sizeof path); unsigned b;
    for (b = 0; b < sizeof path; b++) sp[b] = path[b];
    proxy.dev[i].p_sock_path = sp;
  }
  vbi_proxyd_destroy();
  for (c = 0; c < NCL; c++) { W_gone[c] = 1; SQ_conn[c] = 0; SQ_np[c] = 0; }
  V_ASSERT(!c19_device_is_open() && proxy.dev[0].p_capture == NULL && proxy.p_clnts == NULL && proxy.clnt_count == 0, "seq_shutdown_closes_device_and_connections");
  V_ASSERT(C19.send_calls == s0, "seq_shutdown_sends_nothing");
  V_REACH("shutdown");
}

static void sq_event(int e)
{
  unsigned c;
  if (e == 0) return;
  if (e == 10) sq_shutdown(); else
  if (e == 1) sq_capture(1); else if (e == 9) sq_capture(0);
  else if (e == 2) sq_writable(0); else if (e == 3) sq_writable(1); else if (e == 8) sq_writable(2);
  else if (e == 4) sq_disconnect(0); else if (e == 5) sq_disconnect(1);
  else if (e == 6) sq_service_req(0); else if (e == 7) sq_service_req(1);
  V_ASSERT(inv18(), "seq_inv_queue");
  V_ASSERT(c19_locks_held() == 0, "seq_no_lock_left_held");
  { int any = 0; for (c = 0; c < NCL; c++) if (SQ_conn[c] && W_cl[c]->all_services != 0) any = 1;
    V_ASSERT((proxy.dev[0].p_capture != NULL) == any && c19_device_is_open() == any, "seq_device_open_iff_a_client_is_granted_a_service"); }
  /* shadow and daemon agree on who has something pending */
  for (c = 0; c < NCL; c++) if (SQ_conn[c]) V_ASSERT((W_cl[c]->p_sliced != NULL) == (SQ_np[c] > 0), "seq_pending_agrees_with_shadow");
}

V_HARNESS(h_seq)
{
  unsigned i; static const unsigned svc[3] = { SVC0, SVC1, SVC2 }; PROXY_DEV *d = &proxy.dev[0];
  V_INIT();
  w_init();
  for (i = 0; i < C19_NIO; i++) { C19.send_ret[i] = 0x7fffffff; C19.send_err[i] = 0; }    /* sockets take everything that is written */
  for (i = 0; i < C19_NUPD; i++) { C19.grant_mask[i] = ((REVOKE >> i) & 1) ? 0 : 0xffffffffu; C19.grant_err[i] = 0; }
  C19.dec_scanning = 625; C19.cap_fd = 9; C19.cap_scanning = 625; C19.open_v4l2_ok = 1; C19.has_decoder = 1; C19.ioctl_ret = 0;
  w_device(1);
  d->scanning = 625; d->chn_prio = VBI_CHN_PRIO_INTERACTIVE; d->vbi_api = VBI_API_V4L2; d->all_services = 0; d->vbi_fd = 9;
  for (i = 0; i < NCL; i++) {
    /* a connection as CONNECT_REQ(services at strict 0) left it: everything that selects a path is concrete */
    PROXY_CLNT *c = calloc(1, sizeof *c);
    c->state = REQ_STATE_FORWARD; c->io.sock_fd = 10 + (int) i; c->io.lastIoTime = (time_t) in_u32();
    c->dev_idx = 0; c->services[0 - VBI_MIN_STRICT] = svc[i]; c->all_services = svc[i];
    c->vbi_start[0] = 7; c->vbi_count[0] = 1; c->vbi_start[1] = 320; c->vbi_count[1] = W_MAXLINES - 1;
    c->buffer_count = W_CLBUF; c->chn_prio = DEFAULT_CHN_PRIO;
    d->all_services |= svc[i];
    W_cl[W_ncl++] = c; SQ_conn[i] = 1;
  }
  w_link();
  w_queue();                                                                /* NQ = 0: nothing queued, all buffers free */
  sq_event(E0); sq_event(E1); sq_event(E2); sq_event(E3); sq_event(E4); sq_event(E5); sq_event(E6); sq_event(E7);
  V_END();
}

/* =====================================================================================================
 * SEQ through the REAL main loop: vbi_proxyd_main_loop() runs against a scripted select() (defined here: it sees the daemon's
 * statics) - vbi_proxyd_get_fd_set, the dispatch in the loop body, vbi_proxyd_forward_data and the whole of
 * vbi_proxyd_handle_client_sockets are the daemon's own code, nothing of them is replicated.  One loop iteration per schedule entry
 * M0..M7 (build time, 0 ends the run: select() fails with EINTR after setting proxy.should_exit, as the signal handler does):
 *   bit 0     the device has a frame (symbolic payload and time stamp)
 *   bit 1     plain wake-up (sockets writable only)
 *   bit 4+c   client c is stalled in this iteration: its socket is not writable and send() fails with EAGAIN
 *   bit 8+c   client c's socket is readable and recv() returns 0 (peer closed the connection)
 * "Stalled" is what it is for the daemon: handle_client_sockets offers every queued frame to every idle client in every iteration;
 * a socket that takes nothing leaves ONE message in the client's write buffer, the other frames stay queued.
 * Shadow model per client: frames pending in the queue, the message in flight.  Checked at every select() call (i.e. after every
 * iteration): the messages accepted by send() since the last call are, client by client in list order, the message in flight and then
 * the pending frames in capture order, each exactly once, filtered, with the capture time stamp; refused attempts only for stalled
 * clients; queue invariant; the select set: device watched, every connection watched for writing iff something is pending for it.
 * ===================================================================================================== */
#ifndef M0
#define M0 1
#endif
#ifndef M1
#define M1 0
#endif
#ifndef M2
#define M2 0
#endif
#ifndef M3
#define M3 0
#endif
#ifndef M4
#define M4 0
#endif
#ifndef M5
#define M5 0
#endif
#ifndef M6
#define M6 0
#endif
#ifndef M7
#define M7 0
#endif
#ifndef MDESTROY
#define MDESTROY 0      /* 1: main() goes on with vbi_proxyd_destroy() after the loop */
#endif
static int w_in_list18(const PROXY_CLNT *c);
static const int MS_sched[9] = { M0, M1, M2, M3, M4, M5, M6, M7, 0 };
static unsigned MS_it, MS_log0; static int MS_active;
static int MS_infl[3];                                     /* frame index in the client's write buffer (refused by the socket), -1: none */
static int MS_exp_c[16], MS_exp_f[16]; static unsigned MS_nexp;  /* accepted messages expected from the iteration that just ran */
static int MS_blocked[3];

static void ms_check_iteration(void)
{
  unsigned q, e = 0, c, k;
  if (proxy.dev[0].p_capture == NULL) sq_drop_all();                         /* the device was closed: its queue is gone (what is in a write buffer stays) */
  V_ASSERT(C19.send_calls <= C19_SENDLOG, "main_send_log_long_enough");
  for (q = 0; q < C19_SENDLOG; q++) {
    const struct c19_sendrec *r = &C19.sent[q]; unsigned m;
    if (q < MS_log0 || q >= C19.send_calls) continue;
    if (r->ret < 0) {                                                        /* refused: only a stalled client's socket does that */
      int ok = 0; for (c = 0; c < NCL; c++) ok |= (MS_blocked[c] && r->fd == 10 + (int) c);
      V_ASSERT(ok, "main_only_stalled_sockets_refuse");
      continue;
    }
    V_ASSERT(e < MS_nexp, "main_nothing_sent_but_the_expected_frames");
    for (m = 0; m < 16; m++) {
      const struct sq_frame *f; unsigned nsel = 0; uint64_t ts; uint32_t nl, nr; unsigned svc = 0;
      if (m != e || m >= MS_nexp) continue;
      f = &SQ_fr[MS_exp_f[m]];
      for (c = 0; c < NCL; c++) if (MS_exp_c[m] == (int) c) svc = W_cl[c]->all_services;
      V_ASSERT(r->fd == 10 + MS_exp_c[m], "main_sent_in_list_order_to_the_right_socket");
      memcpy(&ts, r->bytes + 8, 8); memcpy(&nl, r->bytes + 16, 4); memcpy(&nr, r->bytes + 20, 4);
      V_ASSERT(be32(r->bytes + 4) == MSG_TYPE_SLICED_IND && ts == f->ts, "main_capture_order_and_timestamp");
      for (k = 0; k < W_MAXLINES; k++)
        if ((int) k < f->n && (f->id[k] & svc) != 0) { V_ASSERT(0 == memcmp(r->bytes + 24 + 64 * nsel, f->data[k], 64), "main_granted_lines_in_order"); nsel++; }
      V_ASSERT(nl == nsel && nr == 0 && be32(r->bytes) == 24 + 64 * nsel && r->len_asked == 24 + 64 * nsel && r->ret == (int32_t) (24 + 64 * nsel), "main_only_granted_lines");
      V_REACH("delivered");
    }
    e++;
  }
  V_ASSERT(e == MS_nexp, "main_every_expected_frame_sent_once");
  V_ASSERT(inv18(), "main_inv_queue");
  V_ASSERT(c19_locks_held() == 0, "main_no_lock_left_held");
  for (c = 0; c < NCL; c++)
    if (SQ_conn[c]) {
      V_ASSERT((W_cl[c]->p_sliced != NULL) == (SQ_np[c] > 0), "main_pending_agrees_with_shadow");
      V_ASSERT((W_cl[c]->io.writeLen != 0) == (MS_infl[c] >= 0), "main_in_flight_agrees_with_shadow");
    } else V_ASSERT(!w_in_list18(W_cl[c]), "main_closed_connection_unlinked");
  { int any = 0; for (c = 0; c < NCL; c++) if (SQ_conn[c] && W_cl[c]->all_services != 0) any = 1;
    V_ASSERT((proxy.dev[0].p_capture != NULL) == any && c19_device_is_open() == any, "main_device_open_iff_a_client_is_granted_a_service"); }
  MS_log0 = C19.send_calls; MS_nexp = 0;
}

/* the environment decides the next iteration: shadow update + scripts for recv()/send() in the order the daemon will call them */
static void ms_plan_iteration(int ev, fd_set *rd, fd_set *wr)
{
  unsigned c, i, k = C19.send_calls, rk = C19.recv_calls, has_free; int have_frame = (ev & 1) && proxy.dev[0].p_capture != NULL;
  /* ---- what select() reports ---- */
  for (i = 0; i < 2; i++) FD_CLR(proxy.dev[i].pipe_fd, rd);                    /* no new connections */
  if (proxy.dev[0].vbi_fd != -1) { V_ASSERT(FD_ISSET(proxy.dev[0].vbi_fd, rd), "main_open_device_is_watched"); if (!have_frame) FD_CLR(proxy.dev[0].vbi_fd, rd); }
  for (c = 0; c < NCL; c++) {
    int fd = 10 + (int) c, eof = (ev >> (8 + c)) & 1;
    MS_blocked[c] = (ev >> (4 + c)) & 1;
    if (!SQ_conn[c]) continue;
    V_ASSERT(FD_ISSET(fd, rd) != FD_ISSET(fd, wr), "main_every_connection_watched_one_way");
    V_ASSERT(FD_ISSET(fd, wr) == (SQ_np[c] > 0 || MS_infl[c] >= 0), "main_watched_for_writing_iff_something_pending");
    if (MS_blocked[c]) FD_CLR(fd, wr);
    if (!(eof && FD_ISSET(fd, rd))) FD_CLR(fd, rd);
  }
  /* ---- the frame ---- */
  if (have_frame) {
    struct sq_frame *f = &SQ_fr[SQ_nf]; static const uint32_t lid[3] = { LID0, LID1, LID2 };
    w_frame();
    C19.frame_ret = 1; C19.frame_lines = W_MAXLINES;
    for (i = 0; i < W_MAXLINES; i++) {
      C19.frame_data[i][0] = (uint8_t) lid[i % 3]; C19.frame_data[i][1] = (uint8_t) (lid[i % 3] >> 8);
      C19.frame_data[i][2] = (uint8_t) (lid[i % 3] >> 16); C19.frame_data[i][3] = (uint8_t) (lid[i % 3] >> 24);
    }
    f->n = W_MAXLINES; f->ts = dbl_bits(C19.frame_ts);
    for (i = 0; i < W_MAXLINES; i++) { unsigned b; for (b = 0; b < 64; b++) f->data[i][b] = C19.frame_data[i][b]; f->id[i] = lid[i % 3]; }
    has_free = proxy.dev[0].p_free != NULL;
    if (!has_free) {                                                           /* out of buffers: the oldest queued frame is given up by the clients still waiting for it */
      int oldest = -1;
      for (c = 0; c < NCL; c++) if (SQ_conn[c] && SQ_np[c] > 0 && (oldest < 0 || SQ_pend[c][0] < oldest)) oldest = SQ_pend[c][0];
      for (c = 0; c < NCL; c++)
        if (SQ_conn[c] && SQ_np[c] > 0 && SQ_pend[c][0] == oldest) { for (i = 1; i < SQ_np[c]; i++) SQ_pend[c][i - 1] = SQ_pend[c][i]; SQ_np[c]--; V_REACH("overflow"); }
    }
    for (c = 0; c < NCL; c++) if (SQ_conn[c] && (W_cl[c]->all_services != 0 || SQ_np[c] > 0)) SQ_pend[c][SQ_np[c]++] = (int) SQ_nf;
    SQ_nf++;
  }
  /* ---- the clients, in list order: recv()/send() scripts and the messages that will be accepted ---- */
  for (c = 0; c < NCL; c++) {
    int fd = 10 + (int) c;
    if (!SQ_conn[c]) continue;
    if (FD_ISSET(fd, rd)) {                                                   /* peer closed: recv() returns 0, the connection is dropped with everything queued for it */
      for (i = 0; i < C19_NIO; i++) if (i == rk) C19.recv_ret[i] = 0;
      rk++;
      SQ_conn[c] = 0; SQ_np[c] = 0; MS_infl[c] = -1; W_gone[c] = 1;
      V_REACH("peer_closed");
      continue;
    }
    if (MS_blocked[c]) {                                                      /* one refused attempt if it is idle and a frame is queued: that frame is then in flight */
      if (MS_infl[c] < 0 && SQ_np[c] > 0) {
        for (i = 0; i < C19_NIO; i++) if (i == k) { C19.send_ret[i] = -1; C19.send_err[i] = 0; }
        k++;
        MS_infl[c] = SQ_pend[c][0]; for (i = 1; i < SQ_np[c]; i++) SQ_pend[c][i - 1] = SQ_pend[c][i]; SQ_np[c]--;
        V_REACH("stalled");
      }
      continue;
    }
    if (MS_infl[c] >= 0) { MS_exp_c[MS_nexp] = (int) c; MS_exp_f[MS_nexp] = MS_infl[c]; MS_nexp++; MS_infl[c] = -1;
                           for (i = 0; i < C19_NIO; i++) if (i == k) C19.send_ret[i] = 0x7fffffff; k++; V_REACH("resumed"); }
    for (i = 0; i < SQ_F; i++)
      if (i < SQ_np[c]) { MS_exp_c[MS_nexp] = (int) c; MS_exp_f[MS_nexp] = SQ_pend[c][i]; MS_nexp++;
                          { unsigned j; for (j = 0; j < C19_NIO; j++) if (j == k) C19.send_ret[j] = 0x7fffffff; } k++; }
    SQ_np[c] = 0;
  }
  V_ASSERT(k <= C19_NIO && rk <= C19_NIO && MS_nexp <= 16, "main_script_long_enough");
}

static int w_in_list18(const PROXY_CLNT *c)
{
  const PROXY_CLNT *p = proxy.p_clnts; unsigned k;
  for (k = 0; k < 3; k++) { if (p == NULL) return 0; if (p == c) return 1; p = p->p_next; }
  return 0;
}

/* select() as the main loop sees it (only h_main runs the loop; the native build links this definition instead of libc's) */
int select(int nfds, fd_set *rd, fd_set *wr, fd_set *ex, struct timeval *tv)
{
  int ev;
  (void) nfds; (void) ex; (void) tv;
  if (!MS_active) { errno = EINTR; return -1; }
  if (MS_it > 0) {
    ms_check_iteration();
  }
  ev = MS_sched[MS_it];
  if (ev == 0) { proxy.should_exit = TRUE; errno = EINTR; return -1; }      /* SIGTERM / SIGINT */
  MS_it++;
  ms_plan_iteration(ev, rd, wr);
  return 1;
}

V_HARNESS(h_main)
{
  unsigned i; static const unsigned svc[3] = { SVC0, SVC1, SVC2 }; PROXY_DEV *d = &proxy.dev[0];
  V_INIT();
  w_init();
  for (i = 0; i < C19_NIO; i++) { C19.send_ret[i] = 0x7fffffff; C19.send_err[i] = 0; C19.recv_ret[i] = -1; C19.recv_err[i] = 0; }
  for (i = 0; i < C19_NUPD; i++) { C19.grant_mask[i] = ((REVOKE >> i) & 1) ? 0 : 0xffffffffu; C19.grant_err[i] = 0; }
  C19.dec_scanning = 625; C19.cap_fd = 9; C19.cap_scanning = 625; C19.open_v4l2_ok = 1; C19.has_decoder = 1; C19.ioctl_ret = 0;
  C19.stream = (const uint8_t *) ""; C19.stream_len = 0;
  w_device(1);
  d->scanning = 625; d->chn_prio = VBI_CHN_PRIO_INTERACTIVE; d->vbi_api = VBI_API_V4L2; d->all_services = 0; d->vbi_fd = 9;
  for (i = 0; i < NCL; i++) {
    PROXY_CLNT *c = calloc(1, sizeof *c);
    c->state = REQ_STATE_FORWARD; c->io.sock_fd = 10 + (int) i; c->io.lastIoTime = (time_t) in_u32();
    c->dev_idx = 0; c->services[0 - VBI_MIN_STRICT] = svc[i]; c->all_services = svc[i];
    c->vbi_start[0] = 7; c->vbi_count[0] = 1; c->vbi_start[1] = 320; c->vbi_count[1] = W_MAXLINES - 1;
    c->buffer_count = W_CLBUF; c->chn_prio = DEFAULT_CHN_PRIO;
    d->all_services |= svc[i];
    W_cl[W_ncl++] = c; SQ_conn[i] = 1; MS_infl[i] = -1;
  }
  w_link();
  w_queue();
  proxy.max_conn = 0; proxy.should_exit = FALSE; proxy.chn_sched_alarm = FALSE;
  MS_active = 1; MS_it = 0; MS_log0 = 0; MS_nexp = 0;
  vbi_proxyd_main_loop();
  MS_active = 0;
  V_ASSERT(proxy.should_exit && MS_sched[MS_it] == 0, "main_loop_ran_the_whole_schedule");
#if MDESTROY
  { unsigned s0 = C19.send_calls; static const char path[] = "/tmp/c18-no-such-socket";
    for (i = 0; i < 2; i++) { char *sp = malloc(sizeof path); unsigned b; for (b = 0; b < sizeof path; b++) sp[b] = path[b]; proxy.dev[i].p_sock_path = sp; }
    for (i = 0; i < NCL; i++) W_gone[i] = 1;
    vbi_proxyd_destroy();
    V_ASSERT(!c19_device_is_open() && proxy.p_clnts == NULL && C19.send_calls == s0, "main_shutdown_closes_everything_and_sends_nothing");
  }
#endif
  V_END();
}
