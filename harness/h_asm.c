/* Multi-packet page assembly through the REAL vbi_decode_teletext (src/packet.c), shared by C02 / C03 / C01:
 *   C02 "as soon as a page has been terminated by the next header carrying a different page number in its own magazine (in serial mode it may be
 *        completed earlier by a header of another magazine, never later) ... exactly one page event carrying that number has been delivered for
 *        that transmission.  Rows not retransmitted keep their previous content unless the erase flag was set"
 *   C03 "an uncorrectable header only abandons the pages in progress"; X/26 triplets behind an uncorrectable triplet are not applied
 *   C01 X/28 designation bookkeeping (x28_designations selects the size class of the cached page: only designations whose extension was taken)
 *
 * Real unit: src/packet.c (included), src/hamm.c linked.  Prelude (type carving, environment stubs) as in h_packet.c, with a RECORDING cache /
 * event stub.  What made the earlier attempt (h_c02asm.c) stall is avoided by (R19) byte-loop models of memcpy/memset/memmove - cbmc's built-ins
 * replace a byte range of the whole 52 KB decoder, after which function/flags/pgno of the page in progress no longer constant-fold and every arm
 * of the termination switch is explored - and by (R16) constant selecting pointers: vt.current, both magazines, both page numbers, serial/erase
 * bits and the cache's answer are grid constants; sub-codes, the other control bits, header text and row payloads are symbolic. */
#include "verif.h"
#include "ref_codes.h"

#define CC_H
#include <pthread.h>
#include "src/bcd.h"
#include "src/format.h"
#ifndef VBI_DECODER
#define VBI_DECODER
typedef struct vbi_decoder vbi_decoder;
#endif
struct caption { int carved_out; };

#ifdef VERIF_CBMC
/* THE CUT (vlib/props/_asm.py ASM_CUT; scratch copies regenerated from the current source on every run, first on the include path):
   raw_page[8] as eight pointers to harness-owned raw pages; the Level One family of the page union as one struct.  Included first so that the
   include guards win over /repo/src. */
#include "cache-priv.h"
#include "teletext_decoder.h"
#include "src/packet.c"
#define RPG(i) (VBI.vt.raw_page[(i) & 7])
#define LOPD(cp) ((cp)->data.ext_lop.lop)
#define ENHD(cp) ((cp)->data.ext_lop.enh)
#else
/* the native replay build runs the UNCUT real unit (real union, real raw_page[8] array): a counterexample that is an artefact of the cut does not
   reproduce and is reported as unconfirmed.  The path through a directory that does not exist in the scratch include directory makes the
   preprocessor fall through to the real tree. */
#include "test/../src/packet.c"
#define RPG(i) (&VBI.vt.raw_page[(i) & 7])
#define LOPD(cp) ((cp)->data.lop)
#define ENHD(cp) ((cp)->data.enh_lop.enh)
#endif

#ifdef VERIF_CBMC
/* libc models (part of the claim, R19): cbmc's built-in memcpy/memset/memmove replace a byte range of the WHOLE destination object, after which none
   of its members constant-folds.  Byte loops (lengths are concrete at every call site of the paths encoded here) keep the objects field sensitive.
   A byte store that does not hit a byte-typed member costs a rewrite of every scalar of the object, so the copies of whole typed sub-objects
   (page data; page head + Level One part in vbi_convert_page; the link table fill) are typed assignments with the same effect on every byte but
   padding.  The native replay build uses libc. */
typedef __typeof__(((cache_page *) 0)->data) asm_page_data_t;
void *memcpy(void *dst, const void *src, size_t n)
{ uint8_t *d = dst; const uint8_t *s = src; size_t i;
  if (n == sizeof(asm_page_data_t)) { *(asm_page_data_t *) dst = *(const asm_page_data_t *) src; return dst; }
  if (n == offsetof(cache_page, data) + sizeof(struct ttx_lop)) { cache_page *dp = dst; const cache_page *sp = src;
    dp->hash_node = sp->hash_node; dp->pri_node = sp->pri_node; dp->network = sp->network; dp->ref_count = sp->ref_count; dp->priority = sp->priority;
    dp->function = sp->function; dp->pgno = sp->pgno; dp->subno = sp->subno; dp->national = sp->national; dp->flags = sp->flags;
    dp->lop_packets = sp->lop_packets; dp->x26_designations = sp->x26_designations; dp->x27_designations = sp->x27_designations;
    dp->x28_designations = sp->x28_designations; dp->data.ext_lop.lop = sp->data.ext_lop.lop; return dst; }
  for (i = 0; i < n; i++) d[i] = s[i]; return dst; }
void *memset(void *dst, int c, size_t n)
{ uint8_t *d = dst; size_t i;
  if (n == sizeof(asm_page_data_t) && c == 0) { static const asm_page_data_t zero; *(asm_page_data_t *) dst = zero; return dst; }
  if (n == sizeof(((struct ttx_lop *) 0)->link) && (c & 0xFF) == 0xFF) { struct ttx_page_link *l = dst;
    for (i = 0; i < N_ELEMENTS(((struct ttx_lop *) 0)->link); i++) { l[i].function = (enum ttx_page_function) -1; l[i].pgno = -1; l[i].subno = -1; } return dst; }
  for (i = 0; i < n; i++) d[i] = (uint8_t) c; return dst; }
void *memmove(void *dst, const void *src, size_t n)
{ uint8_t *d = dst; const uint8_t *s = src; size_t i; if (d == s || n == 0) return dst;
  if (d < s) for (i = 0; i < n; i++) d[i] = s[i]; else for (i = n; i > 0; i--) d[i - 1] = s[i - 1]; return dst; }
#endif

/* ---------------- grid parameters ---------------- */
#ifndef AM1
#define AM1 1          /* magazine 1..8 and tens/units of the page in progress P (vt.current) */
#endif
#ifndef AP1
#define AP1 0x70
#endif
#ifndef AM2
#define AM2 1          /* the following header H */
#endif
#ifndef AP2
#define AP2 0x71
#endif
#ifndef ASER
#define ASER 0         /* C11 magazine serial: in P's control bits, in Q's and in both headers */
#endif
#ifndef AERA1
#define AERA1 0        /* P carries C4_ERASE_PAGE (set by its header or forced by the decoder on a cache miss) */
#endif
#ifndef AERA2
#define AERA2 0        /* H carries C4 */
#endif
#ifndef AHIT2
#define AHIT2 0        /* the cache answers the look-up for H's page with a hit */
#endif
#ifndef AQ
#define AQ 0           /* 0: nothing in progress in H's magazine (AM2 != AM1); 1: a page Q in progress there with C4; 2: without C4 */
#endif
#ifndef AQP
#define AQP 0x33       /* tens/units of Q */
#endif
#ifndef AH3
#define AH3 0          /* 1: a second header H3 follows in P's own magazine, page AP3 (cache miss) */
#endif
#ifndef AP3
#define AP3 0x75
#endif
#ifndef AROLL
#define AROLL 0        /* 0: P, Q and the headers carry C7 suppress header (store_lop's channel switch heuristic not entered) */
#endif
#ifndef AGOT
#define AGOT 1         /* the row packet X/ARA of P arrives before H (1) or not (0) */
#endif
#ifndef ARA
#define ARA 7          /* the row of P received through the decoder before H */
#endif
#ifndef ARB
#define ARB 12         /* a row of P not retransmitted (keeps its previous content) */
#endif

/* ---------------- environment (everything packet.c references outside itself) ---------------- */
#define NREC 4
struct put_rec { int pgno, subno, function; unsigned lop_packets, flags; uint8_t row0[40], rowA[40], rowB[40]; };
static unsigned put_n; static struct put_rec put_log[NREC];
static unsigned ev_n, ev_other; static int ev_pgno[NREC], ev_subno[NREC];
void vbi_send_event(vbi_decoder *vbi, vbi_event *ev)
{ (void) vbi;
  if (ev->type == VBI_EVENT_TTX_PAGE) { if (ev_n < NREC) { ev_pgno[ev_n] = ev->ev.ttx_page.pgno; ev_subno[ev_n] = ev->ev.ttx_page.subno; } ev_n++; }
  else ev_other++; }
static unsigned chsw_n;
void vbi_chsw_reset(vbi_decoder *vbi, vbi_nuid nuid) { (void) vbi; (void) nuid; chsw_n++; }
static cache_page STORED;          /* what a store answers with (packet.c only unreferences it) */
static cache_page *get_result;
cache_page *_vbi_cache_put_page(vbi_cache *ca, cache_network *cn, const cache_page *cp)
{ (void) ca; (void) cn;
  if (put_n < NREC) { struct put_rec *r = &put_log[put_n]; unsigned i;
    r->pgno = cp->pgno; r->subno = cp->subno; r->function = cp->function; r->lop_packets = cp->lop_packets; r->flags = cp->flags;
    for (i = 0; i < 40; i++) { r->row0[i] = LOPD(cp).raw[0][i]; r->rowA[i] = LOPD(cp).raw[ARA][i]; r->rowB[i] = LOPD(cp).raw[ARB][i]; } }
  put_n++; return &STORED; }
cache_page *_vbi_cache_get_page(vbi_cache *ca, cache_network *cn, vbi_pgno pgno, vbi_subno subno, vbi_subno mask)
{ (void) ca; (void) cn; (void) pgno; (void) subno; (void) mask; return get_result; }
void cache_page_unref(cache_page *cp) { (void) cp; }
unsigned int cache_page_size(const cache_page *cp) { (void) cp; return sizeof(cache_page); }
void vbi_eacem_trigger(vbi_decoder *vbi, unsigned char *s) { (void) vbi; (void) s; }
int vbi_format_vt_page(vbi_decoder *vbi, vbi_page *pg, cache_page *vtp, vbi_wst_level max_level, int display_rows, vbi_bool navigation)
{ (void) vbi; (void) pg; (void) vtp; (void) max_level; (void) display_rows; (void) navigation; return 0; }
const struct vbi_cni_entry vbi_cni_table[1];
struct vbi_font_descr vbi_font_descriptors[88];
vbi_bool vbi_decode_teletext_8301_local_time(time_t *t, int *se, const uint8_t b[42]) { (void) t; (void) se; (void) b; return FALSE; }
vbi_bool vbi_decode_teletext_8302_pdc(vbi_program_id *pid, const uint8_t b[42]) { (void) pid; (void) b; return FALSE; }
vbi_bool vbi_decode_vps_cni(unsigned int *cni, const uint8_t b[13]) { (void) cni; (void) b; return FALSE; }
vbi_bool vbi_decode_vps_pdc(vbi_program_id *pid, const uint8_t b[13]) { (void) pid; (void) b; return FALSE; }
size_t _vbi_strlcpy(char *dst, const char *src, size_t size) { size_t i = 0; if (size) { for (; i + 1 < size && src[i]; i++) dst[i] = src[i]; dst[i] = 0; } return i; }

static vbi_decoder VBI;            /* static zero object (R12); the fields that matter are set below */
static cache_network CN;
#ifdef VERIF_CBMC
static struct raw_page RP_A, RP_B, RP_X;   /* the raw pages of the two magazines involved; the other six magazines share RP_X */
#endif

#ifdef VERIF_CBMC
#pragma CPROVER check push
#pragma CPROVER check disable "pointer"
#pragma CPROVER check disable "bounds"
#pragma CPROVER check disable "pointer-overflow"
#pragma CPROVER check disable "signed-overflow"
#pragma CPROVER check disable "unsigned-overflow"
#pragma CPROVER check disable "pointer-primitive"
#pragma CPROVER check disable "conversion"
#endif
static int row_eq(const uint8_t *a, const uint8_t *b) { unsigned i; int ok = 1; for (i = 0; i < 40; i++) ok &= (a[i] == b[i]); return ok; }
static int row_odd(const uint8_t *a) { unsigned i; int ok = 1; for (i = 0; i < 40; i++) ok &= (int) ref_odd_parity(a[i]); return ok; }
static unsigned n_puts(int pgno) { unsigned k, n = 0; for (k = 0; k < NREC; k++) if (k < put_n && put_log[k].pgno == pgno) n++; return n; }
static unsigned n_evs(int pgno) { unsigned k, n = 0; for (k = 0; k < NREC; k++) if (k < ev_n && ev_pgno[k] == pgno) n++; return n; }
static int first_put(int pgno) { int k, r = -1; for (k = NREC - 1; k >= 0; k--) if ((unsigned) k < put_n && put_log[k].pgno == pgno) r = k; return r; }
static int first_ev(int pgno) { int k, r = -1; for (k = NREC - 1; k >= 0; k--) if ((unsigned) k < ev_n && ev_pgno[k] == pgno) r = k; return r; }
#ifdef VERIF_CBMC
#pragma CPROVER check pop
#endif

/* a clean packet address: magazine mag8 (1..8), packet number */
static void mk_addr(uint8_t *buf, unsigned mag8, unsigned packet)
{ unsigned pmag = (mag8 & 7) | (packet << 3); buf[0] = (uint8_t) ref_ham8(pmag & 15); buf[1] = (uint8_t) ref_ham8(pmag >> 4); }
/* a clean header X/0 (EN 300 706 9.3.1): page tens/units pg, sub-code field sub (S1..S4 incl. C4 = 0x80, C5 = 0x4000, C6 = 0x8000), control C7..C14 */
static void mk_header(uint8_t *buf, unsigned mag8, unsigned pg, unsigned sub, unsigned ctl)
{
  mk_addr(buf, mag8, 0);
  buf[2] = (uint8_t) ref_ham8(pg & 15); buf[3] = (uint8_t) ref_ham8((pg >> 4) & 15);
  buf[4] = (uint8_t) ref_ham8(sub & 15); buf[5] = (uint8_t) ref_ham8((sub >> 4) & 15); buf[6] = (uint8_t) ref_ham8((sub >> 8) & 15); buf[7] = (uint8_t) ref_ham8((sub >> 12) & 15);
  buf[8] = (uint8_t) ref_ham8(ctl & 15); buf[9] = (uint8_t) ref_ham8((ctl >> 4) & 15);
}
#define CTL_C7 0x01u
#define CTL_C11 0x10u
#define SUB_C4 0x80u

static void asm_state_init(void)
{
  VBI.cn = &CN; VBI.event_mask = VBI_EVENT_TTX_PAGE; VBI.vt.max_level = VBI_WST_LEVEL_1p5;
#ifdef VERIF_CBMC
  { unsigned i; for (i = 0; i < 8; i++) VBI.vt.raw_page[i] = (i == (AM1 & 7)) ? &RP_A : (i == (AM2 & 7)) ? &RP_B : &RP_X; }
#endif
  { unsigned i; for (i = 0; i < 8; i++) RPG(i)->page->function = PAGE_FUNCTION_DISCARD; }   /* nothing in progress anywhere (state after vbi_teletext_desync) */
}
/* a LOP in progress in raw page rp: as the header path leaves it (function LOP, rows so far none), flags/sub-code from the arguments */
static void open_lop(struct raw_page *rp, int pgno, unsigned subno, unsigned flags)
{
  rp->page->function = PAGE_FUNCTION_LOP; rp->page->pgno = pgno; rp->page->subno = (int) (subno & 0x3F7F);
  rp->page->flags = flags; rp->page->lop_packets = 1; rp->lop_packets = 0; rp->num_triplets = 0;
}

/* =============== (a) termination of the page in progress by the following header(s) =============== */
#ifdef H_TERM
static cache_page HIT;             /* the cached copy a look-up hit returns: a plain LOP */
V_HARNESS(h_asm_term)
{
  struct raw_page *r1, *r2;
  const int pgP = AM1 * 256 + AP1, pgH = AM2 * 256 + AP2, pgQ = AM2 * 256 + AQP, pg3 = AM1 * 256 + AP3;
  uint8_t rowpkt[42], h2[42], h3[42], rowA[40], rowB0[40], hdrP[40];
  unsigned subP, flP, subQ, flQ, sub2, ctl2, sub3, ctl3; vbi_bool got_rowA; int k;
  V_INIT();
  in_bytes(rowpkt + 2, 40); in_bytes(h2 + 10, 32); in_bytes(h3 + 10, 32); in_bytes(rowB0, 40); in_bytes(hdrP, 40);
  subP = in_u16() & 0x3F7F; flP = in_u32(); subQ = in_u16() & 0x3F7F; flQ = in_u32();
  sub2 = in_u16(); ctl2 = in_u8(); sub3 = in_u16(); ctl3 = in_u8(); (void) in_bool(); got_rowA = AGOT;   /* grid: symbolic, lop_parity_check walks all 25 rows (0.1 s of symex per byte read) */
  /* grid constants: serial/parallel (C11) and erase (C4) everywhere; C7 unless AROLL */
  flP = (flP & 0xEFC000u) | subP | (ASER ? C11_MAGAZINE_SERIAL : 0) | (AERA1 ? C4_ERASE_PAGE : 0) | (AROLL ? 0 : C7_SUPPRESS_HEADER);
  flQ = (flQ & 0xEFC000u) | subQ | (ASER ? C11_MAGAZINE_SERIAL : 0) | (AQ == 1 ? C4_ERASE_PAGE : 0) | (AROLL ? 0 : C7_SUPPRESS_HEADER);
  sub2 = (sub2 & ~SUB_C4) | (AERA2 ? SUB_C4 : 0); ctl2 = (ctl2 & ~CTL_C11) | (ASER ? CTL_C11 : 0) | (AROLL ? 0 : CTL_C7);
  ctl3 = (ctl3 & ~CTL_C11) | (ASER ? CTL_C11 : 0) | (AROLL ? 0 : CTL_C7);
  mk_addr(rowpkt, AM1, ARA); mk_header(h2, AM2, AP2, sub2, ctl2); mk_header(h3, AM1, AP3, sub3, ctl3);

  asm_state_init(); r1 = RPG(AM1); r2 = RPG(AM2);
  open_lop(r1, pgP, subP, flP);
  memcpy(LOPD(r1->page).raw[0], hdrP, 40); memcpy(LOPD(r1->page).raw[ARB], rowB0, 40);
  VBI.vt.current = r1;
#if AQ
  open_lop(r2, pgQ, subQ, flQ);
#endif
  HIT.function = PAGE_FUNCTION_LOP; HIT.pgno = pgH; HIT.lop_packets = 1;

  /* a row of P arrives (or not) */
  if (got_rowA) (void) vbi_decode_teletext(&VBI, rowpkt);
  memcpy(rowA, rowpkt + 2, 40);
  V_ASSERT(put_n == 0 && ev_n == 0, "row_packet_stores_nothing");

  /* ---- the header H ---- */
  get_result = AHIT2 ? &HIT : NULL;
  (void) vbi_decode_teletext(&VBI, h2);
  V_ASSERT(put_n <= NREC && ev_n <= NREC, "record_room");
  V_ASSERT(chsw_n == 0, "no_channel_switch_assumed");
  V_ASSERT(VBI.vt.current == r2 && r2->page->pgno == pgH, "header_opens_its_page_in_its_magazine");

#if (AM2 == AM1) && (AP2 != AP1)
  /* next header of P's own magazine with a different page number: P is terminated NOW, exactly once */
  V_ASSERT(n_puts(pgP) == 1 && put_n == 1, "terminated_page_stored_exactly_once");
  V_ASSERT(n_evs(pgP) == 1 && ev_n == 1, "exactly_one_page_event_for_the_transmission");
  k = first_put(pgP);
  V_ASSERT(k == 0 && put_log[0].subno == (int) subP && put_log[0].function == PAGE_FUNCTION_LOP, "stored_under_transmitted_page_and_subpage_number");
  V_ASSERT(ev_subno[0] == (int) subP, "page_event_carries_transmitted_subpage_number");
  V_ASSERT(row_eq(put_log[0].row0, hdrP), "stored_header_row_as_received");
  V_ASSERT(row_eq(put_log[0].rowB, rowB0), "row_not_retransmitted_keeps_previous_content");
  if (got_rowA && row_odd(rowA)) { V_ASSERT(row_eq(put_log[0].rowA, rowA) && (put_log[0].lop_packets & (1u << ARA)), "received_row_stored_as_sent"); V_REACH("row_stored"); }
  if (!got_rowA) V_ASSERT(!(put_log[0].lop_packets & (1u << ARA)), "row_not_received_not_marked");
#elif (AM2 == AM1)
  /* H repeats P's own number */
#if !AERA1
  V_ASSERT(put_n == 0 && ev_n == 0, "same_page_number_does_not_terminate");
#else
  V_ASSERT(put_n <= 1 && ev_n <= 1 && n_puts(pgP) == put_n, "same_page_number_stores_at_most_once");
#endif
#else
  /* H belongs to another magazine */
#if !ASER
  V_ASSERT(n_puts(pgP) == 0 && n_evs(pgP) == 0, "parallel_mode_other_magazine_does_not_terminate");
  V_ASSERT(r1->page->function == PAGE_FUNCTION_LOP && r1->page->pgno == pgP && r1->page->subno == (int) subP && r1->page->flags == flP
           && r1->lop_packets == (got_rowA ? (1u << ARA) : 0u), "parallel_mode_other_magazine_leaves_page_in_progress_untouched");
  V_ASSERT(row_eq(LOPD(r1->page).raw[0], hdrP) && row_eq(LOPD(r1->page).raw[ARB], rowB0) && (!got_rowA || row_eq(r1->lop_raw[ARA], rowA)),
           "parallel_mode_other_magazine_leaves_rows_untouched");
#else
  V_ASSERT(n_puts(pgP) <= 1 && n_evs(pgP) == n_puts(pgP), "serial_mode_completed_early_at_most_once");
  if (n_puts(pgP) == 1) { V_ASSERT(put_log[first_put(pgP)].subno == (int) subP, "stored_under_transmitted_page_and_subpage_number"); V_REACH("early"); }
  else V_ASSERT(r1->page->function == PAGE_FUNCTION_LOP && r1->page->pgno == pgP && r1->lop_packets == (got_rowA ? (1u << ARA) : 0u), "serial_mode_page_not_completed_stays_in_progress");
#endif
#if AQ
  /* Q was in progress in H's magazine: H is the next header of Q's own magazine */
#if AQP != AP2
#if !(defined(KNOWN_serial_open_page_dropped) && ASER && !AERA1)
  V_ASSERT(n_puts(pgQ) == 1 && n_evs(pgQ) == 1, "page_in_progress_in_headers_magazine_stored_exactly_once");
  V_ASSERT(put_log[first_put(pgQ)].subno == (int) subQ && ev_subno[first_ev(pgQ)] == (int) subQ, "stored_under_transmitted_page_and_subpage_number");
#endif
#endif
#else
  V_ASSERT(put_n == n_puts(pgP), "nothing_else_stored");
#endif
#endif

#if AH3
  /* ---- a second header H3 in P's own magazine, different page: the latest point at which P may be completed ---- */
  get_result = NULL;
  (void) vbi_decode_teletext(&VBI, h3);
  V_ASSERT(put_n <= NREC && ev_n <= NREC, "record_room");
  V_ASSERT(chsw_n == 0, "no_channel_switch_assumed");
#if (AM2 != AM1) || !AERA1 || (AP2 != AP1)
#if (AM2 == AM1) && (AP2 == AP1)
  V_ASSERT(n_puts(pgP) == 1 && n_evs(pgP) == 1, "page_stored_exactly_once_by_next_header_of_its_magazine");
#else
  V_ASSERT(n_puts(pgP) == 1, "page_stored_exactly_once_by_next_header_of_its_magazine");
  V_ASSERT(n_evs(pgP) == 1, "exactly_one_page_event_for_the_transmission");
  V_ASSERT(put_log[first_put(pgP)].subno == (int) subP && ev_subno[first_ev(pgP)] == (int) subP, "stored_under_transmitted_page_and_subpage_number");
  { int kk = first_put(pgP);
    V_ASSERT(row_eq(put_log[kk].rowB, rowB0), "row_not_retransmitted_keeps_previous_content");
    if (got_rowA && row_odd(rowA)) V_ASSERT(row_eq(put_log[kk].rowA, rowA) && (put_log[kk].lop_packets & (1u << ARA)), "received_row_stored_as_sent"); }
#endif
#endif
#if (AM2 != AM1)
  /* the page H opened in the other magazine is not lost: still in progress there, or completed (serial mode) exactly once */
  V_ASSERT((r2->page->function != PAGE_FUNCTION_DISCARD && r2->page->pgno == pgH && n_puts(pgH) == 0) || (ASER && n_puts(pgH) == 1 && n_evs(pgH) == 1),
           "other_magazines_page_in_progress_not_lost");
#endif
  V_ASSERT(VBI.vt.current == r1 && r1->page->pgno == pg3, "header_opens_its_page_in_its_magazine");
#endif
  (void) k; (void) pgQ; (void) pg3; (void) flQ; (void) subQ; (void) h3;
  V_END();
}
#endif
