/* Multi-packet page assembly through the REAL vbi_decode_teletext (src/packet.c), shared by C02 / C03 / C01:
 *   C02 "as soon as a page has been terminated by the next header carrying a different page number in its own magazine (in serial mode it may be
 *        completed earlier by a header of another magazine, never later) ... exactly one page event carrying that number has been delivered for
 *        that transmission.  Rows not retransmitted keep their previous content unless the erase flag was set"
 *   C03 "an uncorrectable header only abandons the pages in progress"; X/26 triplets behind an uncorrectable triplet are not applied
 *   C01 X/28 designation bookkeeping (x28_designations selects the size class of the cached page: only designations whose extension was taken)
 *
 * Real unit: src/packet.c (included), src/hamm.c linked.  Prelude (type carving, environment stubs) as in h_packet.c, with a RECORDING cache /
 * event stub.  What made the earlier attempt (h_c02asm.c) stall is avoided by (R19) byte-loop models of memcpy/memset/memmove - cbmc's built-ins
 * replace a byte range of the whole 52 KB decoder, after which function/flags/pgno of the page in progress no longer constant-fold and every arm
 * of the termination switch is explored - and by (R16) constant selecting pointers: vt.current, both magazines, both page numbers, serial/erase
 * bits and the cache's answer are grid constants; sub-codes, the other control bits, header text and row payloads are symbolic. */
#include "verif.h"
#include "ref_codes.h"

#define CC_H
#include <pthread.h>
#ifdef VERIF_CBMC
#include "event.h"       /* the cut copy (union ev as a struct), before anything includes the real one */
#endif
#include "src/bcd.h"
#include "src/format.h"
#ifndef VBI_DECODER
#define VBI_DECODER
typedef struct vbi_decoder vbi_decoder;
#endif
struct caption { int carved_out; };

#ifdef VERIF_CBMC
/* THE CUT (vlib/props/_asm.py ASM_CUT; scratch copies regenerated from the current source on every run, first on the include path):
   (1) raw_page[8] as eight pointers to harness-owned raw pages; (2) the Level One family of the page union as one struct; (3) union `ev` of vbi_event as a
   struct (event.h, included above); (4) cache_network_page_stat() hands out harness-owned statistics entries (asm_page_stat below).  Measured effect on
   h_asm_term: decoder as one 52 KB object + byte-loop libc models: > 150 s symex for the first 100 byte stores (every access rewrites / expands all
   scalars of the object); with the cut 15-27 s and 0.5 GB per instance.  Included first so that the include guards win over /repo/src. */
#include "cache-priv.h"
#include "teletext_decoder.h"
#include "src/packet.c"
#define RPG(i) (VBI.vt.raw_page[(i) & 7])
#define LOPD(cp) ((cp)->data.ext_lop.lop)
#define ENHD(cp) ((cp)->data.ext_lop.enh)
#define LOPX(cp) ((cp)->data.ext_lop.ext)
#else
/* the native replay build runs the UNCUT real unit (real union, real raw_page[8] array): a counterexample that is an artefact of the cut does not
   reproduce and is reported as unconfirmed.  The path through a directory that does not exist in the scratch include directory makes the
   preprocessor fall through to the real tree. */
#include "test/../src/packet.c"
#define RPG(i) (&VBI.vt.raw_page[(i) & 7])
#define LOPD(cp) ((cp)->data.lop)
#define ENHD(cp) ((cp)->data.enh_lop.enh)
#define LOPX(cp) ((cp)->data.ext_lop.ext)
#endif

#ifdef VERIF_CBMC
/* libc models (part of the claim, R19): cbmc's built-in memcpy/memset/memmove replace a byte range of the WHOLE destination object, after which none
   of its members constant-folds.  Byte loops (lengths are concrete at every call site of the paths encoded here) keep the objects field sensitive.
   A byte store that does not hit a byte-typed member costs a rewrite of every scalar of the object, so the copies of whole typed sub-objects
   (page data; page head + Level One part in vbi_convert_page; the link table fill) are typed assignments with the same effect on every byte but
   padding.  The native replay build uses libc. */
typedef __typeof__(((cache_page *) 0)->data) asm_page_data_t;
void *memcpy(void *dst, const void *src, size_t n)
{ uint8_t *d = dst; const uint8_t *s = src; size_t i;
  if (n == sizeof(asm_page_data_t)) { *(asm_page_data_t *) dst = *(const asm_page_data_t *) src; return dst; }
  if (n == offsetof(cache_page, data) + sizeof(struct ttx_lop)) { cache_page *dp = dst; const cache_page *sp = src;
    dp->hash_node = sp->hash_node; dp->pri_node = sp->pri_node; dp->network = sp->network; dp->ref_count = sp->ref_count; dp->priority = sp->priority;
    dp->function = sp->function; dp->pgno = sp->pgno; dp->subno = sp->subno; dp->national = sp->national; dp->flags = sp->flags;
    dp->lop_packets = sp->lop_packets; dp->x26_designations = sp->x26_designations; dp->x27_designations = sp->x27_designations;
    dp->x28_designations = sp->x28_designations; dp->data.ext_lop.lop = sp->data.ext_lop.lop; return dst; }
  for (i = 0; i < n; i++) d[i] = s[i]; return dst; }
void *memset(void *dst, int c, size_t n)
{ uint8_t *d = dst; size_t i;
  if (n == sizeof(asm_page_data_t) && c == 0) { static const asm_page_data_t zero; *(asm_page_data_t *) dst = zero; return dst; }
  if (n == sizeof(((struct ttx_lop *) 0)->link) && (c & 0xFF) == 0xFF) { struct ttx_page_link *l = dst;
    for (i = 0; i < N_ELEMENTS(((struct ttx_lop *) 0)->link); i++) { l[i].function = (enum ttx_page_function) -1; l[i].pgno = -1; l[i].subno = -1; } return dst; }
  for (i = 0; i < n; i++) d[i] = (uint8_t) c; return dst; }
void *memmove(void *dst, const void *src, size_t n)
{ uint8_t *d = dst; const uint8_t *s = src; size_t i; if (d == s || n == 0) return dst;
  if (d < s) for (i = 0; i < n; i++) d[i] = s[i]; else for (i = n; i > 0; i--) d[i - 1] = s[i - 1]; return dst; }
#endif

/* ---------------- grid parameters ---------------- */
#ifndef AM1
#define AM1 1          /* magazine 1..8 and tens/units of the page in progress P (vt.current) */
#endif
#ifndef AP1
#define AP1 0x70
#endif
#ifndef AM2
#define AM2 1          /* the following header H */
#endif
#ifndef AP2
#define AP2 0x71
#endif
#ifndef ASER
#define ASER 0         /* C11 magazine serial: in P's control bits, in Q's and in both headers */
#endif
#ifndef AERA1
#define AERA1 0        /* P carries C4_ERASE_PAGE (set by its header or forced by the decoder on a cache miss) */
#endif
#ifndef AERA2
#define AERA2 0        /* H carries C4 */
#endif
#ifndef AHIT2
#define AHIT2 0        /* the cache answers the look-up for H's page with a hit */
#endif
#ifndef AQ
#define AQ 0           /* 0: nothing in progress in H's magazine (AM2 != AM1); 1: a page Q in progress there with C4; 2: without C4 */
#endif
#ifndef AQP
#define AQP 0x33       /* tens/units of Q */
#endif
#ifndef AH3
#define AH3 0          /* 1: a second header H3 follows in P's own magazine, page AP3 (cache miss) */
#endif
#ifndef AP3
#define AP3 0x75
#endif
#ifndef AROLL
#define AROLL 0        /* 0: P, Q and the headers carry C7 suppress header (store_lop's channel switch heuristic not entered) */
#endif
#ifndef AFLX
#define AFLX 0          /* further control bits of the pages in progress (C5, C6, C8..C10, C12..C14 as in cache_page.flags) */
#endif
#ifndef ACTLX
#define ACTLX 0         /* further control bits C8..C10, C12..C14 of the headers (control byte, C7 = 1 ... C14 = 0x80) */
#endif
#ifndef ASUB2
#define ASUB2 0x0001    /* sub-code S1..S4 of H and of H3 */
#endif
#ifndef ASUB3
#define ASUB3 0x0002
#endif
#ifndef AGOT
#define AGOT 1         /* the row packet X/ARA of P arrives before H (1) or not (0) */
#endif
#ifndef ARA
#define ARA 7          /* the row of P received through the decoder before H */
#endif
#ifndef ARB
#define ARB 12         /* a row of P not retransmitted (keeps its previous content) */
#endif

/* ---------------- environment (everything packet.c references outside itself) ---------------- */
#define NREC 4
struct put_rec { int pgno, subno, function; unsigned lop_packets, flags; uint8_t row0[40], rowA[40], rowB[40]; };
static unsigned put_n; static struct put_rec put_log[NREC];
static unsigned ev_n, ev_other; static int ev_pgno[NREC], ev_subno[NREC];
void vbi_send_event(vbi_decoder *vbi, vbi_event *ev)
{ (void) vbi;
  if (ev->type == VBI_EVENT_TTX_PAGE) { if (ev_n < NREC) { ev_pgno[ev_n] = ev->ev.ttx_page.pgno; ev_subno[ev_n] = ev->ev.ttx_page.subno; } ev_n++; }
  else ev_other++; }
static unsigned chsw_n;
void vbi_chsw_reset(vbi_decoder *vbi, vbi_nuid nuid) { (void) vbi; (void) nuid; chsw_n++; }
static cache_page STORED;          /* what a store answers with (packet.c only unreferences it) */
static cache_page *get_result;
cache_page *_vbi_cache_put_page(vbi_cache *ca, cache_network *cn, const cache_page *cp)
{ (void) ca; (void) cn;
  if (put_n < NREC) { struct put_rec *r = &put_log[put_n]; unsigned i;
    r->pgno = cp->pgno; r->subno = cp->subno; r->function = cp->function; r->lop_packets = cp->lop_packets; r->flags = cp->flags;
    for (i = 0; i < 40; i++) { r->row0[i] = LOPD(cp).raw[0][i]; r->rowA[i] = LOPD(cp).raw[ARA][i]; r->rowB[i] = LOPD(cp).raw[ARB][i]; } }
  put_n++; return &STORED; }
cache_page *_vbi_cache_get_page(vbi_cache *ca, cache_network *cn, vbi_pgno pgno, vbi_subno subno, vbi_subno mask)
{ (void) ca; (void) cn; (void) pgno; (void) subno; (void) mask; return get_result; }
void cache_page_unref(cache_page *cp) { (void) cp; }
unsigned int cache_page_size(const cache_page *cp) { (void) cp; return sizeof(cache_page); }
void vbi_eacem_trigger(vbi_decoder *vbi, unsigned char *s) { (void) vbi; (void) s; }
int vbi_format_vt_page(vbi_decoder *vbi, vbi_page *pg, cache_page *vtp, vbi_wst_level max_level, int display_rows, vbi_bool navigation)
{ (void) vbi; (void) pg; (void) vtp; (void) max_level; (void) display_rows; (void) navigation; return 0; }
const struct vbi_cni_entry vbi_cni_table[1];
struct vbi_font_descr vbi_font_descriptors[88];
vbi_bool vbi_decode_teletext_8301_local_time(time_t *t, int *se, const uint8_t b[42]) { (void) t; (void) se; (void) b; return FALSE; }
vbi_bool vbi_decode_teletext_8302_pdc(vbi_program_id *pid, const uint8_t b[42]) { (void) pid; (void) b; return FALSE; }
vbi_bool vbi_decode_vps_cni(unsigned int *cni, const uint8_t b[13]) { (void) cni; (void) b; return FALSE; }
vbi_bool vbi_decode_vps_pdc(vbi_program_id *pid, const uint8_t b[13]) { (void) pid; (void) b; return FALSE; }
size_t _vbi_strlcpy(char *dst, const char *src, size_t size) { size_t i = 0; if (size) { for (; i + 1 < size && src[i]; i++) dst[i] = src[i]; dst[i] = 0; } return i; }

#ifdef VERIF_CBMC
/* cut (4): page statistics entries as separate small objects, selected by the (concrete) page number */
static struct ttx_page_stat PS_0, PS_1, PS_2, PS_3, PS_X; static unsigned ps_other;
#define PSN(m, p) (((m) & 7 ? (m) & 7 : 8) * 256 + (p))
struct ttx_page_stat *asm_page_stat(cache_network *cn, vbi_pgno pgno)
{ (void) cn;
  if (pgno == PSN(AM1, AP1)) return &PS_0;
  if (pgno == PSN(AM2, AP2)) return &PS_1;
  if (pgno == PSN(AM2, AQP)) return &PS_2;
  if (pgno == PSN(AM1, AP3)) return &PS_3;
  ps_other++; return &PS_X; }
#define PS_OTHER_ACCESSES ps_other
#else
#define PS_OTHER_ACCESSES 0u
#endif

static vbi_decoder VBI;            /* static zero object (R12); the fields that matter are set below */
static cache_network CN;
#ifdef VERIF_CBMC
static struct raw_page RP_A, RP_B, RP_X;   /* the raw pages of the two magazines involved; the other six magazines share RP_X */
#endif

#ifdef VERIF_CBMC
#pragma CPROVER check push
#pragma CPROVER check disable "pointer"
#pragma CPROVER check disable "bounds"
#pragma CPROVER check disable "pointer-overflow"
#pragma CPROVER check disable "signed-overflow"
#pragma CPROVER check disable "unsigned-overflow"
#pragma CPROVER check disable "pointer-primitive"
#pragma CPROVER check disable "conversion"
#endif
static int row_eq(const uint8_t *a, const uint8_t *b) { unsigned i; int ok = 1; for (i = 0; i < 40; i++) ok &= (a[i] == b[i]); return ok; }
static int row_odd(const uint8_t *a) { unsigned i; int ok = 1; for (i = 0; i < 40; i++) ok &= (int) ref_odd_parity(a[i]); return ok; }
static unsigned n_puts(int pgno) { unsigned k, n = 0; for (k = 0; k < NREC; k++) if (k < put_n && put_log[k].pgno == pgno) n++; return n; }
static unsigned n_evs(int pgno) { unsigned k, n = 0; for (k = 0; k < NREC; k++) if (k < ev_n && ev_pgno[k] == pgno) n++; return n; }
static int first_put(int pgno) { int k, r = -1; for (k = NREC - 1; k >= 0; k--) if ((unsigned) k < put_n && put_log[k].pgno == pgno) r = k; return r; }
static int first_ev(int pgno) { int k, r = -1; for (k = NREC - 1; k >= 0; k--) if ((unsigned) k < ev_n && ev_pgno[k] == pgno) r = k; return r; }
#ifdef VERIF_CBMC
#pragma CPROVER check pop
#endif

/* a clean packet address: magazine mag8 (1..8), packet number */
static void mk_addr(uint8_t *buf, unsigned mag8, unsigned packet)
{ unsigned pmag = (mag8 & 7) | (packet << 3); buf[0] = (uint8_t) ref_ham8(pmag & 15); buf[1] = (uint8_t) ref_ham8(pmag >> 4); }
/* a clean header X/0 (EN 300 706 9.3.1): page tens/units pg, sub-code field sub (S1..S4 incl. C4 = 0x80, C5 = 0x4000, C6 = 0x8000), control C7..C14 */
static void mk_header(uint8_t *buf, unsigned mag8, unsigned pg, unsigned sub, unsigned ctl)
{
  mk_addr(buf, mag8, 0);
  buf[2] = (uint8_t) ref_ham8(pg & 15); buf[3] = (uint8_t) ref_ham8((pg >> 4) & 15);
  buf[4] = (uint8_t) ref_ham8(sub & 15); buf[5] = (uint8_t) ref_ham8((sub >> 4) & 15); buf[6] = (uint8_t) ref_ham8((sub >> 8) & 15); buf[7] = (uint8_t) ref_ham8((sub >> 12) & 15);
  buf[8] = (uint8_t) ref_ham8(ctl & 15); buf[9] = (uint8_t) ref_ham8((ctl >> 4) & 15);
}
#define CTL_C7 0x01u
#define CTL_C11 0x10u
#define SUB_C4 0x80u

static void asm_state_init(void)
{
  VBI.cn = &CN; VBI.event_mask = VBI_EVENT_TTX_PAGE; VBI.vt.max_level = VBI_WST_LEVEL_1p5;
#ifdef VERIF_CBMC
  { unsigned i; for (i = 0; i < 8; i++) VBI.vt.raw_page[i] = (i == (AM1 & 7)) ? &RP_A : (i == (AM2 & 7)) ? &RP_B : &RP_X; }
#endif
  { unsigned i; for (i = 0; i < 8; i++) RPG(i)->page->function = PAGE_FUNCTION_DISCARD; }   /* nothing in progress anywhere (state after vbi_teletext_desync) */
}
/* a LOP in progress in raw page rp: as the header path leaves it (function LOP, rows so far none), flags/sub-code from the arguments */
static void open_lop(struct raw_page *rp, int pgno, unsigned subno, unsigned flags)
{
  rp->page->function = PAGE_FUNCTION_LOP; rp->page->pgno = pgno; rp->page->subno = (int) (subno & 0x3F7F);
  rp->page->flags = flags; rp->page->lop_packets = 1; rp->lop_packets = 0; rp->num_triplets = 0;
}

/* =============== (a) termination of the page in progress by the following header(s) =============== */
#ifdef H_TERM
static cache_page HIT;             /* the cached copy a look-up hit returns: a plain LOP */
V_HARNESS(h_asm_term)
{
  struct raw_page *r1, *r2;
  const int pgP = AM1 * 256 + AP1, pgH = AM2 * 256 + AP2, pgQ = AM2 * 256 + AQP, pg3 = AM1 * 256 + AP3;
  uint8_t rowpkt[42], h2[42], h3[42], rowA[40], rowB0[40], hdrP[40];
  unsigned subP, flP, subQ, flQ, sub2, ctl2, sub3, ctl3; vbi_bool got_rowA; int k;
  V_INIT();
  in_bytes(rowpkt + 2, 40); in_bytes(h2 + 10, 32); in_bytes(h3 + 10, 32); in_bytes(rowB0, 40); in_bytes(hdrP, 40);
  subP = in_u16() & 0x3F7F; flP = in_u32(); subQ = in_u16() & 0x3F7F; flQ = in_u32();
  sub2 = in_u16(); ctl2 = in_u8(); sub3 = in_u16(); ctl3 = in_u8(); (void) in_bool(); got_rowA = AGOT;   /* grid: symbolic, lop_parity_check walks all 25 rows (0.1 s of symex per byte read) */
  /* Control bits are grid constants everywhere (serial/parallel C11, erase C4, suppress header C7 unless AROLL, the rest from AFLX / ACTLX): they decide
     WHICH raw page the decoder terminates and whether store_lop enters its channel switch heuristic; a flag word with symbolic bits does not fold
     (`flags & C4` stays symbolic: both arms, same_header() with symbolic pointer offsets: 5 M variables / 86 M clauses).  Likewise the sub-code and
     control bytes of the headers (ASUB2/ASUB3: S1..S4; the decoder's `flags` of the page a header opens is computed from them).  Symbolic: the
     sub-page numbers of the pages in progress, all row payloads, the 32 display bytes of every header. */
  (void) flP; (void) flQ; (void) sub2; (void) ctl2; (void) sub3; (void) ctl3;
  flP = (unsigned) (AFLX) | (ASER ? C11_MAGAZINE_SERIAL : 0) | (AERA1 ? C4_ERASE_PAGE : 0) | (AROLL ? 0 : C7_SUPPRESS_HEADER);
  flQ = (unsigned) (AFLX) | (ASER ? C11_MAGAZINE_SERIAL : 0) | (AQ == 1 ? C4_ERASE_PAGE : 0) | (AROLL ? 0 : C7_SUPPRESS_HEADER);
  sub2 = ((unsigned) (ASUB2) & 0x3F7Fu) | (AERA2 ? SUB_C4 : 0); ctl2 = (unsigned) (ACTLX) | (ASER ? CTL_C11 : 0) | (AROLL ? 0 : CTL_C7);
  sub3 = ((unsigned) (ASUB3) & 0x3F7Fu) | SUB_C4; ctl3 = ctl2;
  mk_addr(rowpkt, AM1, ARA); mk_header(h2, AM2, AP2, sub2, ctl2); mk_header(h3, AM1, AP3, sub3, ctl3);

  asm_state_init(); r1 = RPG(AM1); r2 = RPG(AM2);
  open_lop(r1, pgP, subP, flP);     /* flags: control bits only (the S-bits the decoder also keeps there are never read) */
  memcpy(LOPD(r1->page).raw[0], hdrP, 40); memcpy(LOPD(r1->page).raw[ARB], rowB0, 40);
  VBI.vt.current = r1;
#if AQ
  open_lop(r2, pgQ, subQ, flQ);
#endif
  HIT.function = PAGE_FUNCTION_LOP; HIT.pgno = pgH; HIT.lop_packets = 1;

  /* a row of P arrives (or not) */
  if (got_rowA) (void) vbi_decode_teletext(&VBI, rowpkt);
  memcpy(rowA, rowpkt + 2, 40);
  V_ASSERT(put_n == 0 && ev_n == 0, "row_packet_stores_nothing");

  /* ---- the header H ---- */
  get_result = AHIT2 ? &HIT : NULL;
  (void) vbi_decode_teletext(&VBI, h2);
  V_ASSERT(put_n <= NREC && ev_n <= NREC, "record_room");
  V_ASSERT(chsw_n == 0, "no_channel_switch_assumed");
  V_ASSERT(VBI.vt.current == r2 && r2->page->pgno == pgH, "header_opens_its_page_in_its_magazine");

#if (AM2 == AM1) && (AP2 != AP1)
  /* next header of P's own magazine with a different page number: P is terminated NOW, exactly once */
  V_ASSERT(n_puts(pgP) == 1 && put_n == 1, "terminated_page_stored_exactly_once");
  V_ASSERT(n_evs(pgP) == 1 && ev_n == 1, "exactly_one_page_event_for_the_transmission");
  k = first_put(pgP);
  V_ASSERT(k == 0 && put_log[0].subno == (int) subP && put_log[0].function == PAGE_FUNCTION_LOP, "stored_under_transmitted_page_and_subpage_number");
  V_ASSERT(ev_subno[0] == (int) subP, "page_event_carries_transmitted_subpage_number");
  V_ASSERT(row_eq(put_log[0].row0, hdrP), "stored_header_row_as_received");
  V_ASSERT(row_eq(put_log[0].rowB, rowB0), "row_not_retransmitted_keeps_previous_content");
  if (got_rowA && row_odd(rowA)) { V_ASSERT(row_eq(put_log[0].rowA, rowA) && (put_log[0].lop_packets & (1u << ARA)), "received_row_stored_as_sent"); V_REACH("row_stored"); }
  if (!got_rowA) V_ASSERT(!(put_log[0].lop_packets & (1u << ARA)), "row_not_received_not_marked");
#elif (AM2 == AM1)
  /* H repeats P's own number */
#if !AERA1
  V_ASSERT(put_n == 0 && ev_n == 0, "same_page_number_does_not_terminate");
#else
  V_ASSERT(put_n <= 1 && ev_n <= 1 && n_puts(pgP) == put_n, "same_page_number_stores_at_most_once");
#endif
#else
  /* H belongs to another magazine */
#if !ASER
  V_ASSERT(n_puts(pgP) == 0 && n_evs(pgP) == 0, "parallel_mode_other_magazine_does_not_terminate");
  V_ASSERT(r1->page->function == PAGE_FUNCTION_LOP && r1->page->pgno == pgP && r1->page->subno == (int) subP && r1->page->flags == flP
           && r1->lop_packets == (got_rowA ? (1u << ARA) : 0u), "parallel_mode_other_magazine_leaves_page_in_progress_untouched");
  V_ASSERT(row_eq(LOPD(r1->page).raw[0], hdrP) && row_eq(LOPD(r1->page).raw[ARB], rowB0) && (!got_rowA || row_eq(r1->lop_raw[ARA], rowA)),
           "parallel_mode_other_magazine_leaves_rows_untouched");
#else
  V_ASSERT(n_puts(pgP) <= 1 && n_evs(pgP) == n_puts(pgP), "serial_mode_completed_early_at_most_once");
  if (n_puts(pgP) == 1) { V_ASSERT(put_log[first_put(pgP)].subno == (int) subP, "stored_under_transmitted_page_and_subpage_number"); V_REACH("early"); }
  else V_ASSERT(r1->page->function == PAGE_FUNCTION_LOP && r1->page->pgno == pgP && r1->lop_packets == (got_rowA ? (1u << ARA) : 0u), "serial_mode_page_not_completed_stays_in_progress");
#endif
#if AQ
  /* Q was in progress in H's magazine: H is the next header of Q's own magazine */
#if AQP != AP2
#if !(defined(KNOWN_serial_open_page_dropped) && ASER && !AERA1)
  V_ASSERT(n_puts(pgQ) == 1 && n_evs(pgQ) == 1, "page_in_progress_in_headers_magazine_stored_exactly_once");
  V_ASSERT(put_log[first_put(pgQ)].subno == (int) subQ && ev_subno[first_ev(pgQ)] == (int) subQ, "stored_under_transmitted_page_and_subpage_number");
#endif
#endif
#else
  V_ASSERT(put_n == n_puts(pgP), "nothing_else_stored");
#endif
#endif

#if AH3
  /* ---- a second header H3 in P's own magazine, different page: the latest point at which P may be completed ---- */
  get_result = NULL;
  (void) vbi_decode_teletext(&VBI, h3);
  V_ASSERT(put_n <= NREC && ev_n <= NREC, "record_room");
  V_ASSERT(chsw_n == 0, "no_channel_switch_assumed");
#if defined(KNOWN_serial_open_page_dropped) && ASER && AERA1 && AHIT2 && !AERA2 && (AM2 != AM1)
  /* known finding: P (with C4) is not completed by H; H3 completes H's page (serial, no C4) instead and P's buffer is reused: P is never stored */
  V_ASSERT(n_puts(pgP) <= 1 && n_evs(pgP) == n_puts(pgP), "page_stored_at_most_once");
#elif (AM2 != AM1) || !AERA1 || (AP2 != AP1)
#if (AM2 == AM1) && (AP2 == AP1)
  V_ASSERT(n_puts(pgP) == 1 && n_evs(pgP) == 1, "page_stored_exactly_once_by_next_header_of_its_magazine");
#else
  V_ASSERT(n_puts(pgP) == 1, "page_stored_exactly_once_by_next_header_of_its_magazine");
  V_ASSERT(n_evs(pgP) == 1, "exactly_one_page_event_for_the_transmission");
  V_ASSERT(put_log[first_put(pgP)].subno == (int) subP && ev_subno[first_ev(pgP)] == (int) subP, "stored_under_transmitted_page_and_subpage_number");
  { int kk = first_put(pgP);
    V_ASSERT(row_eq(put_log[kk].rowB, rowB0), "row_not_retransmitted_keeps_previous_content");
    if (got_rowA && row_odd(rowA)) V_ASSERT(row_eq(put_log[kk].rowA, rowA) && (put_log[kk].lop_packets & (1u << ARA)), "received_row_stored_as_sent"); }
#endif
#endif
#if (AM2 != AM1)
  /* the page H opened in the other magazine is not lost: still in progress there, or completed (serial mode) exactly once */
  V_ASSERT((r2->page->function != PAGE_FUNCTION_DISCARD && r2->page->pgno == pgH && n_puts(pgH) == 0) || (ASER && n_puts(pgH) == 1 && n_evs(pgH) == 1),
           "other_magazines_page_in_progress_not_lost");
#endif
  V_ASSERT(VBI.vt.current == r1 && r1->page->pgno == pg3, "header_opens_its_page_in_its_magazine");
#endif
  V_ASSERT(PS_OTHER_ACCESSES == 0, "cut_page_statistics_only_of_the_pages_involved");
  (void) k; (void) pgQ; (void) pg3; (void) flQ; (void) subQ; (void) h3;
  V_END();
}
#endif

/* =============== (b) C03: an uncorrectable page number abandons EVERY page in progress, stores nothing =============== */
#ifdef H_PGERR
#ifndef AMH
#define AMH AM2         /* magazine of the damaged header */
#endif
#ifndef ABADBYTE
#define ABADBYTE 0
#endif
#ifndef ABADMASK
#define ABADMASK 0x41
#endif
#ifndef ABADDIGIT
#define ABADDIGIT 3
#endif
#ifndef ABADOTHER
#define ABADOTHER 5
#endif
V_HARNESS(h_asm_pageno_error)
{
  struct raw_page *r1, *r2; uint8_t hb[42], rowpkt[42], h3[42]; unsigned subP, subQ, flP, flQ, i; vbi_bool r; uint8_t rowQ0[40];
  const int pgP = AM1 * 256 + AP1, pgQ = AM2 * 256 + AQP;
  V_INIT();
  in_bytes(hb + 2, 40); in_bytes(rowpkt + 2, 40); in_bytes(h3 + 10, 32); in_bytes(rowQ0, 40);
  subP = in_u16() & 0x3F7F; subQ = in_u16() & 0x3F7F;
  flP = (unsigned) (AFLX) | (ASER ? C11_MAGAZINE_SERIAL : 0) | (AERA1 ? C4_ERASE_PAGE : 0) | (AROLL ? 0 : C7_SUPPRESS_HEADER);
  flQ = (unsigned) (AFLX) | (ASER ? C11_MAGAZINE_SERIAL : 0) | (AQ == 1 ? C4_ERASE_PAGE : 0) | (AROLL ? 0 : C7_SUPPRESS_HEADER);
  mk_addr(hb, AMH, 0);
  /* page number uncorrectable: the byte ABADBYTE (0 units, 1 tens) is the code word of a digit with the two bits ABADMASK flipped - grid constants (with a
     symbolic byte the decoder's "correctable" continuation is explored with a symbolic page number: every page function, every statistics entry:
     5 GB, no verdict in 300 s); sub-code, control bytes and text arbitrary */
  hb[2 + (ABADBYTE)] = (uint8_t) (ref_ham8(ABADDIGIT) ^ (ABADMASK));
  hb[3 - (ABADBYTE)] = (uint8_t) ref_ham8(ABADOTHER);     /* the other digit: a clean code word (symbolic, `units | tens << 4` does not fold to "negative") */
  V_ASSERT(ref_unham8(hb[2 + (ABADBYTE)]) < 0, "grid_byte_is_uncorrectable");
  mk_addr(rowpkt, AM2, ARA);
  mk_header(h3, AM2, AP2, ((unsigned) (ASUB3) & 0x3F7Fu) | SUB_C4, (unsigned) (ACTLX) | (ASER ? CTL_C11 : 0) | (AROLL ? 0 : CTL_C7));
  asm_state_init(); r1 = RPG(AM1); r2 = RPG(AM2);
  /* two pages in progress: P in magazine AM1 (opened by the most recent header: vt.current), Q in magazine AM2, both with a row received */
  open_lop(r1, pgP, subP, flP); r1->lop_packets = 1u << ARA; VBI.vt.current = r1;
  open_lop(r2, pgQ, subQ, flQ); r2->lop_packets = 1u << ARB; memcpy(LOPD(r2->page).raw[ARA], rowQ0, 40);
  r = vbi_decode_teletext(&VBI, hb);
  V_ASSERT(!r, "pageno_error_rejected");
  V_ASSERT(put_n == 0 && ev_n == 0 && chsw_n == 0, "pageno_error_stores_nothing");
  V_ASSERT(r1->page->function == PAGE_FUNCTION_DISCARD, "pageno_error_abandons_current_page");
  V_ASSERT(r2->page->function == PAGE_FUNCTION_DISCARD, "pageno_error_abandons_pages_in_progress_of_every_magazine");
  for (i = 0; i < 8; i++) V_ASSERT(RPG(i)->page->function == PAGE_FUNCTION_DISCARD, "pageno_error_abandons_pages_in_progress_of_every_magazine");
  /* the rows that follow belong to an unknown page: they are not collected, and the next good header of that magazine stores nothing */
  (void) vbi_decode_teletext(&VBI, rowpkt);
  get_result = NULL;
  (void) vbi_decode_teletext(&VBI, h3);
  V_ASSERT(put_n == 0 && ev_n == 0, "abandoned_page_never_stored");
  V_ASSERT(VBI.vt.current == r2 && r2->page->pgno == AM2 * 256 + AP2, "header_opens_its_page_in_its_magazine");
  V_ASSERT(PS_OTHER_ACCESSES == 0, "cut_page_statistics_only_of_the_pages_involved");
  V_END();
}
#endif

#if defined(H_X26) || defined(H_X28)
/* independent decoder of the Hamming 24/18 code (EN 300 706 8.3): position p (1..24) of the word is bit p-1; five parity tests over the positions whose
   number has bit j set (odd parity each), overall odd parity over all 24.  All tests hold: no error.  Overall test fails: one error, at the position
   the failed tests spell (0: the overall bit itself; > 24: impossible, three or more errors).  Overall holds, some test fails: double error.
   Returns the 18 data bits or -1. */
static int ref_unham24(const uint8_t *p)
{
  unsigned w = p[0] | ((unsigned) p[1] << 8) | ((unsigned) p[2] << 16), syn = 0, j, all;
  static const unsigned mask[5] = { 0x555555u, 0x666666u, 0x787878u, 0x007F80u, 0x7F8000u };
  static const unsigned pbit[5] = { 0, 1, 3, 7, 15 };
  for (j = 0; j < 5; j++) if (!ref_par32(w & (mask[j] | (1u << pbit[j])))) syn |= 1u << j;
  all = ref_par32(w & 0xFFFFFFu);
  if (!all) { if (syn > 24) return -1; if (syn) w ^= 1u << (syn - 1); }
  else if (syn) return -1;
  return (int) (((w >> 2) & 1u) | (((w >> 4) & 7u) << 1) | (((w >> 8) & 0x7Fu) << 4) | (((w >> 16) & 0x7Fu) << 11));
}
#endif

/* =============== (c) C03: X/26 - no triplet behind an uncorrectable one is applied =============== */
#ifdef H_X26
#ifndef ADES
#define ADES 0          /* designation code of the X/26 packet; ADES earlier packets were received completely */
#endif
V_HARNESS(h_asm_x26)
{
  struct raw_page *r1; uint8_t pk[42], pk2[42]; unsigned subP, flP, i, first_bad = 13; int t[13]; vbi_bool r, r2; struct ttx_triplet e0[39], e1[39];
  const int pgP = AM1 * 256 + AP1; const unsigned base = ADES * 13u;
  V_INIT();
  in_bytes(pk + 3, 39); in_bytes(pk2 + 3, 39); subP = in_u16() & 0x3F7F;
  flP = (unsigned) (AFLX) | (ASER ? C11_MAGAZINE_SERIAL : 0) | (AERA1 ? C4_ERASE_PAGE : 0) | (AROLL ? 0 : C7_SUPPRESS_HEADER);
  mk_addr(pk, AM1, 26); pk[2] = (uint8_t) ref_ham8(ADES); mk_addr(pk2, AM1, 26); pk2[2] = (uint8_t) ref_ham8(ADES + 1);
  asm_state_init(); r1 = RPG(AM1);
  open_lop(r1, pgP, subP, flP); VBI.vt.current = r1;
  /* as the header path leaves the enhancement: every slot 0xFF (address > 63 terminates: lop_parity_check, the formatter); ADES packets already taken */
  for (i = 0; i < 39; i++) { ENHD(r1->page)[base + i].address = 0xFF; ENHD(r1->page)[base + i].mode = 0xFF; ENHD(r1->page)[base + i].data = 0xFF; }   /* the three packets' worth from here on */
  r1->num_triplets = (int) base; r1->page->x26_designations = (1u << ADES) - 1u;
  for (i = 0; i < 39; i++) e0[i] = ENHD(r1->page)[base + i];
  /* which triplets are correctable, and to what, is taken from vbi_unham24p itself (decided against the standard by C03 ham24 / ham24_err1 / ham24_err2):
     with an independent decoder here the solver has to prove the equivalence of the two decoders for 13 triplets at once (no verdict in 200 s);
     this obligation is about what the dispatcher does with the verdicts */
  for (i = 0; i < 13; i++) t[i] = vbi_unham24p(pk + 3 + 3 * i);
  for (i = 13; i > 0; i--) if (t[i - 1] < 0) first_bad = i - 1;
#ifdef AKBAD      /* the place of the first uncorrectable triplet as a grid constant (symbolic otherwise) */
  V_ASSUME(first_bad == (AKBAD));
#endif
  r = vbi_decode_teletext(&VBI, pk);
  for (i = 0; i < 39; i++) e1[i] = ENHD(r1->page)[base + i];
  V_ASSERT(r, "x26_packet_accepted");
  for (i = 0; i < 13; i++) {
    if (i < first_bad) V_ASSERT(e1[i].address == (t[i] & 0x3F) && e1[i].mode == ((t[i] >> 6) & 0x1F) && e1[i].data == (t[i] >> 11), "x26_triplets_before_the_error_stored_in_place");
    else V_ASSERT(e1[i].address == 0xFF && e1[i].mode == 0xFF && e1[i].data == 0xFF, "x26_no_triplet_behind_an_uncorrectable_one_is_stored");
  }
  for (i = 13; i < 39; i++) V_ASSERT(e1[i].address == e0[i].address && e1[i].mode == e0[i].mode && e1[i].data == e0[i].data, "x26_packet_writes_only_its_13_slots");
  V_ASSERT(r1->num_triplets == (int) (base + first_bad), "x26_triplet_count_stops_at_the_error");
  if (first_bad < 13) V_REACH("bad_triplet"); else V_REACH("all_good");
  /* the next X/26 packet of the page: after an error it is out of sequence and stores nothing (the 0xFF slot left at the error ends the enhancement) */
  r2 = vbi_decode_teletext(&VBI, pk2);
  if (first_bad < 13) {
    V_ASSERT(!r2 && r1->num_triplets == -1, "x26_packets_behind_an_error_rejected");
    for (i = 0; i < 39; i++) V_ASSERT(ENHD(r1->page)[base + i].address == e1[i].address && ENHD(r1->page)[base + i].mode == e1[i].mode && ENHD(r1->page)[base + i].data == e1[i].data, "x26_packets_behind_an_error_store_nothing");
  } else V_ASSERT(r2, "x26_next_packet_in_sequence_accepted");
  V_ASSERT(put_n == 0 && ev_n == 0, "x26_stores_no_page");
  V_ASSERT(r1->page->function == PAGE_FUNCTION_LOP && r1->page->pgno == pgP && r1->page->subno == (int) subP, "x26_page_in_progress_kept");
  V_END();
}
#endif

/* =============== (d) C01: x28_designations records exactly the designations whose extension was taken =============== */
/* cache_page_size() gives a cached Level One page the room for data.ext_lop.ext only if x28_designations & 0x13 (X/28/0, /1, /4), while page_language()
   reads ext_lop.ext for ANY non-zero x28_designations: a bit outside 0x13, or a bit of a packet that was rejected, makes later readers run past the
   allocation.  One X/28 packet with designation ADES28 (grid) on a Level One page in progress; triplet 1 (page function / coding) from AX28FN. */
#ifdef H_X28
#ifndef ADES28
#define ADES28 2
#endif
V_HARNESS(h_asm_x28)
{
  struct raw_page *r1; uint8_t pk[42]; unsigned subP, flP, x0, d18; vbi_bool r; const int pgP = AM1 * 256 + AP1; int t0;
  V_INIT();
  in_bytes(pk + 3, 39); subP = in_u16() & 0x3F7F; x0 = in_u8() & 0x13; d18 = in_u32() & 0x3FFFF;
  flP = (unsigned) (AFLX) | (ASER ? C11_MAGAZINE_SERIAL : 0) | (AERA1 ? C4_ERASE_PAGE : 0) | (AROLL ? 0 : C7_SUPPRESS_HEADER);
  mk_addr(pk, AM1, 28); pk[2] = (uint8_t) ref_ham8(ADES28);
#ifdef AX28FN     /* first triplet clean, page function AX28FN (0 = LOP ... ), the other 14 bits symbolic */
  d18 = (d18 & ~15u) | ((unsigned) (AX28FN) & 15u);
  { unsigned w = ref_ham24(d18); pk[3] = (uint8_t) w; pk[4] = (uint8_t) (w >> 8); pk[5] = (uint8_t) (w >> 16); }
#endif
  asm_state_init(); r1 = RPG(AM1);
  open_lop(r1, pgP, subP, flP); VBI.vt.current = r1;
  r1->page->x28_designations = x0;
  t0 = ref_unham24(pk + 3);
  r = vbi_decode_teletext(&VBI, pk);
  V_ASSERT((r1->page->x28_designations & ~0x13u) == 0, "x28_designations_only_0_1_4");
  V_ASSERT((r1->page->x28_designations & ~(x0 | (1u << ADES28))) == 0 && (r1->page->x28_designations & x0) == x0, "x28_designations_only_gains_this_packets_bit");
#if ADES28 == 0 || ADES28 == 4
  /* taken iff all 13 triplets are correctable and the page function it announces is LOP */
  if (t0 >= 0 && (t0 & 15) != PAGE_FUNCTION_LOP) { V_ASSERT(r1->page->x28_designations == x0, "x28_rejected_packet_not_recorded"); V_REACH("rejected"); }
  if (r1->page->x28_designations != x0) V_ASSERT(LOPX(r1->page).designations & (1u << ADES28), "x28_recorded_only_with_its_extension_taken");
#elif ADES28 == 1
  V_ASSERT(r1->page->x28_designations == (x0 | 2u) && (LOPX(r1->page).designations & 2u), "x28_1_taken_and_recorded");
#else
  V_ASSERT(r1->page->x28_designations == x0, "x28_designation_without_extension_not_recorded");
#endif
  V_ASSERT(put_n == 0 && ev_n == 0, "x28_stores_no_page");
  (void) r; (void) t0;
  V_END();
}
#endif

/* =============== (e) C02 "same-header test must not mistake a consistent network for a channel change" =============== */
/* A network with a CONSISTENT header: every page carries the same 24 characters of header text (bytes 8..31 of row 0) except the three page number
   digits at a fixed place AKPOS, followed by an 8-character clock.  The decoder has seen page AP0 of magazine AM1 before (vt.header_page / vt.header);
   page P of the same magazine arrives with a rolling header (no C5, C6, C7, C9, C10) and is terminated by the next header of its magazine.  store_lop's
   heuristic must not signal a channel switch (which flushes the cache and swallows the page).  Text: a concrete template with AKWIN symbolic characters
   (odd parity, any 7-bit code) in front of the page number - fully symbolic text makes same_header's pointers symbolic in every iteration. */
#ifdef H_ROLL
#ifndef AP0
#define AP0 0x00
#endif
#ifndef AKPOS
#define AKPOS 24        /* index in row 0 (8..28) of the hundreds digit */
#endif
#ifndef AKWIN
#define AKWIN 4         /* symbolic characters at AKPOS-AKWIN-1 .. AKPOS-2 */
#endif
static void mk_text(uint8_t *row0, const uint8_t *win, const uint8_t *clock, int pgno)
{
  static const char tmpl[] = "ZVBITEXT MO 30 SEP          ";     /* 24 characters for bytes 8..31 */
  unsigned i;
  for (i = 0; i < 24; i++) row0[8 + i] = (uint8_t) ref_par8((unsigned char) tmpl[i]);
  for (i = 0; i < AKWIN; i++) row0[AKPOS - AKWIN - 1 + i] = win[i];
  row0[AKPOS] = (uint8_t) ref_par8('0' + ((pgno >> 8) & 15)); row0[AKPOS + 1] = (uint8_t) ref_par8('0' + ((pgno >> 4) & 15)); row0[AKPOS + 2] = (uint8_t) ref_par8('0' + (pgno & 15));
  for (i = 0; i < 8; i++) row0[32 + i] = clock[i];
}
V_HARNESS(h_asm_roll_header)
{
  struct raw_page *r1; uint8_t h2[42], win[AKWIN], clk0[8], clk1[8]; unsigned subP, flP, i; const int pgP = AM1 * 256 + AP1, pg0 = AM1 * 256 + AP0;
  V_INIT();
  in_bytes(h2 + 10, 32); in_bytes(win, AKWIN); in_bytes(clk0, 8); in_bytes(clk1, 8); subP = in_u16() & 0x3F7F;
  for (i = 0; i < AKWIN; i++) V_ASSUME(ref_odd_parity(win[i]));
  for (i = 0; i < 8; i++) V_ASSUME(ref_odd_parity(clk0[i]) && ref_odd_parity(clk1[i]));
  flP = (unsigned) (AFLX) | (ASER ? C11_MAGAZINE_SERIAL : 0) | C4_ERASE_PAGE;
  mk_header(h2, AM1, AP2, ((unsigned) (ASUB2) & 0x3F7Fu) | SUB_C4, (unsigned) (ACTLX) | (ASER ? CTL_C11 : 0));
  asm_state_init(); r1 = RPG(AM1);
  open_lop(r1, pgP, subP, flP); VBI.vt.current = r1;
  mk_text(LOPD(r1->page).raw[0], win, clk1, pgP);
  VBI.vt.header_page.pgno = pg0; mk_text(VBI.vt.header, win, clk0, pg0);
  get_result = NULL;
  (void) vbi_decode_teletext(&VBI, h2);
#ifndef KNOWN_same_header_first_match
  V_ASSERT(chsw_n == 0, "consistent_header_not_taken_for_a_channel_switch");
  V_ASSERT(n_puts(pgP) == 1 && put_n == 1 && n_evs(pgP) == 1, "terminated_page_stored_exactly_once");
#else
  /* known finding: characters in front of the page number that happen to spell it are taken for the page number */
  V_ASSERT(put_n <= 1 && ev_n == put_n, "terminated_page_stored_at_most_once");
#endif
  V_ASSERT(PS_OTHER_ACCESSES == 0, "cut_page_statistics_only_of_the_pages_involved");
  V_END();
}
#endif
