/* h_c17_foreach.c - C17: the REAL page walk of the search, cache.c:_vbi_cache_foreach_page.
 *
 * The function is compiled from a scratch copy of src/cache.c that is regenerated from the CURRENT source on every run and
 * holds the file head (includes) and this one function (Ob(patch={"src/cache.c": extract})).  What it calls is modelled here:
 *   _vbi_cache_get_page   look-up in a population of slots (below), takes a reference; VBI_ANY_SUBNO: some cached subpage of
 *                         the page (symbolic choice); the hash/priority lists of the real function are C10's subject;
 *   cache_page_unref      gives the reference back (counted).
 * The per-page statistics table the walk steers by is the real one (cn->_pages[0x800], real cache_network_page_stat).
 *
 * Population: NC page numbers PG0 < PG1 < PG2 (grid), each with a window of W consecutive subpage numbers SM_c .. SM_c + W - 1
 * (grid) = the subno_min/subno_max statistics of that page.  Which slots are cached: a bit mask from the grid (PRES, one bit per
 * slot): the page statistics are then constants and the skeleton of the walk (page number, subpage number, wrapped) is concrete.
 * The statistics invariant of cache.c is what the harness constructs: n_subpages == number of cached subpages of the page,
 * subno_min <= every cached subno <= subno_max (the range may be wider: the library never shrinks it).
 * Start page and subpage (START_PG, START_SUB; -1 = VBI_ANY_SUBNO) and the direction are grid constants too.
 * The subpage a VBI_ANY_SUBNO look-up returns (ANYSEL-th cached one) is a grid constant as well.
 * Symbolic in every instance: the call at which the callback stops the walk (or never) and the value it returns.
 *
 * Contract asserted (what search.c relies on):
 *   - the callback sees only cached pages, each holding exactly one reference taken for the call;
 *   - pages come in cyclic (pgno, subno) order, ascending for dir = +1, descending for dir = -1, beginning with the start
 *     page itself if it is cached; `wrapped' is FALSE until the page number wrapped and TRUE from then on;
 *   - no cached page between two consecutive callbacks is skipped;
 *   - a non-zero callback result ends the walk and is returned; nothing cached: 0 without a callback;
 *   - if the callback never stops the walk it ENDS: -1 after every cached page has been presented once with wrapped = TRUE
 *     (termination: unwinding assertions of the two loops; the defect fixed by 4f8119b walked for ever);
 *   - all references are given back.
 */
#include "verif.h"
#include "src/cache.c"

#ifndef NC
#define NC 2
#endif
#ifndef W
#define W 3
#endif
#ifndef PG0
#define PG0 0x150
#endif
#ifndef PG1
#define PG1 0x151
#endif
#ifndef PG2
#define PG2 0x8FF
#endif
#ifndef SM0
#define SM0 0
#endif
#ifndef SM1
#define SM1 1
#endif
#ifndef SM2
#define SM2 0
#endif
#ifndef START_PG
#define START_PG 0x200
#endif
#ifndef DIR
#define DIR 1
#endif
#ifndef START_SUB
#define START_SUB 0
#endif
#ifndef ANYSEL
#define ANYSEL 0			/* which cached subpage of the page a VBI_ANY_SUBNO look-up returns (k-th in ascending order) */
#endif
#ifndef PRES
#define PRES 0x1FF
#endif

#if W != 3
#error "the static initialiser below is written for windows of 3 subpage numbers"
#endif
static const int fe_pg[3] = { PG0, PG1, PG2 };
static const int fe_sm[3] = { SM0, SM1, SM2 };
static vbi_cache FE_CA;
/* The statistics table is set up by a STATIC INITIALISER, not by assignments: symex propagates an array only while its value is a
   constant expression; after the first store `_pages' is a chain of array updates, every `ps->n_subpages' of the walk is then a
   symbolic read, no loop test folds and the 2 x 0x800 iterations of the skip loop pile up guards (measured: 20 iterations/s and
   falling; with the table expanded by field sensitivity instead: 5 s per iteration). */
#define FE_NP(c) ((((PRES) >> ((c) * 3)) & 1) + (((PRES) >> ((c) * 3 + 1)) & 1) + (((PRES) >> ((c) * 3 + 2)) & 1))
#define FE_STAT(c, sm) { .n_subpages = FE_NP(c), .max_subpages = 3, .subno_min = (sm), .subno_max = (sm) + 2 }
static cache_network FE_CN = {			/* zero statistics for every other page number */
  .cache = &FE_CA,
  .n_cached_pages = FE_NP(0) + (NC > 1 ? FE_NP(1) : 0) + (NC > 2 ? FE_NP(2) : 0),
  ._pages = {
    [PG0 - 0x100] = FE_STAT(0, SM0),
#if NC > 1
    [PG1 - 0x100] = FE_STAT(1, SM1),
#endif
#if NC > 2
    [PG2 - 0x100] = FE_STAT(2, SM2),
#endif
  }
};
static cache_page FE_CP[NC][W];
static uint8_t fe_present[NC][W];
static int fe_ref[NC][W];
static unsigned fe_cnt_unwrapped[NC][W], fe_cnt_wrapped[NC][W];
static unsigned fe_any_choice;			/* which cached subpage a VBI_ANY_SUBNO look-up returns */
static unsigned fe_n_cb, fe_stop_at; static int fe_stop_val;
static int fe_have_last; static long fe_last_key; static int fe_last_wrapped;
static long fe_start_key; static int fe_start_known;

static long fe_key(int pgno, int subno) { return ((long) pgno << 16) + subno; }

cache_page *_vbi_cache_get_page(vbi_cache *ca, cache_network *cn, vbi_pgno pgno, vbi_subno subno, vbi_subno subno_mask)
{
  int c, s, k = 0; cache_page *r = NULL;
  V_ASSERT(ca == &FE_CA && cn == &FE_CN, "get_page_handles");
  V_ASSERT(subno_mask == -1, "get_page_mask");
  V_ASSERT(pgno >= 0x100 && pgno <= 0x8FF, "get_page_pgno_in_range");
  for (c = 0; c < NC; c++)
    for (s = 0; s < W; s++)
      if (fe_present[c][s] && fe_pg[c] == pgno) {
	if (subno == VBI_ANY_SUBNO ? (k == (int) fe_any_choice || r == NULL) : (fe_sm[c] + s == subno)) r = &FE_CP[c][s];
	k++;
      }
  for (c = 0; c < NC; c++)
    for (s = 0; s < W; s++)
      if (r == &FE_CP[c][s]) fe_ref[c][s]++;
  return r;
}

void cache_page_unref(cache_page *cp)
{
  int c, s, hit = 0;
  if (cp == NULL) return;
  for (c = 0; c < NC; c++)
    for (s = 0; s < W; s++)
      if (cp == &FE_CP[c][s]) { fe_ref[c][s]--; hit = 1; }
  V_ASSERT(hit, "unref_of_a_page_handed_out");
}

/* is a cached slot strictly between key a (exclusive) and key b (exclusive) in walking direction, without wrap? */
static int fe_cached_between(long a, long b)
{
  int c, s, any = 0;
  for (c = 0; c < NC; c++)
    for (s = 0; s < W; s++)
      if (fe_present[c][s]) {
	long k = fe_key(fe_pg[c], fe_sm[c] + s);
	if (DIR > 0 ? (k > a && k < b) : (k < a && k > b)) any = 1;
      }
  return any;
}

static int fe_cb(cache_page *cp, vbi_bool wrapped, void *ud)
{
  int c, s, hit = 0; long k = 0;
  V_ASSERT(ud == (void *) &fe_n_cb, "cb_user_data");
  for (c = 0; c < NC; c++)
    for (s = 0; s < W; s++)
      if (cp == &FE_CP[c][s]) {
	hit = 1; k = fe_key(fe_pg[c], fe_sm[c] + s);
	V_ASSERT(fe_present[c][s], "cb_page_is_cached");
	V_ASSERT(fe_ref[c][s] == 1, "cb_page_referenced_once");
	if (wrapped) fe_cnt_wrapped[c][s]++; else fe_cnt_unwrapped[c][s]++;
      }
  V_ASSERT(hit, "cb_page_from_the_cache");
  V_ASSERT(wrapped == TRUE || wrapped == FALSE, "cb_wrapped_is_boolean");
  if (!fe_have_last) {
    /* first page presented: the start page if cached, else the nearest one ahead; not wrapped unless nothing lies ahead */
    if (!wrapped) {
      V_ASSERT(!fe_start_known || (DIR > 0 ? k >= fe_start_key : k <= fe_start_key), "first_page_not_behind_start");
      if (fe_start_known) V_ASSERT(k == fe_start_key || !fe_cached_between(DIR > 0 ? fe_start_key - 1 : fe_start_key + 1, k), "first_page_is_nearest");
    } else {
      V_ASSERT(!fe_cached_between(DIR > 0 ? fe_key(0, 0) : fe_key(0x900, 0), k), "first_wrapped_page_is_first_in_range");
      if (fe_start_known) V_ASSERT(!fe_cached_between(DIR > 0 ? fe_start_key - 1 : fe_start_key + 1, DIR > 0 ? fe_key(0x900, 0) : fe_key(0, 0)), "wrapped_only_when_nothing_ahead");
    }
  } else if (wrapped == fe_last_wrapped) {
    V_ASSERT(DIR > 0 ? k > fe_last_key : k < fe_last_key, "pages_in_walking_order");
    V_ASSERT(!fe_cached_between(fe_last_key, k), "no_cached_page_skipped");
  } else {
    V_ASSERT(wrapped && !fe_last_wrapped, "wrapped_never_cleared");
    V_ASSERT(!fe_cached_between(fe_last_key, DIR > 0 ? fe_key(0x900, 0) : fe_key(0, 0)), "no_cached_page_skipped_before_wrap");
    V_ASSERT(!fe_cached_between(DIR > 0 ? fe_key(0, 0) : fe_key(0x900, 0), k), "no_cached_page_skipped_after_wrap");
  }
  fe_have_last = 1; fe_last_key = k; fe_last_wrapped = wrapped;
  fe_n_cb++;
  if (fe_n_cb == fe_stop_at) return fe_stop_val;
  return 0;
}

V_HARNESS(h_c17_foreach)
{
  int c, s, ret = 12345, n = 0, called = 0; unsigned mask, sel;
  V_INIT();
  (void) in_u16(); sel = in_u8(); (void) in_u8(); fe_any_choice = ANYSEL;	/* concrete: a symbolic choice makes the start subpage, hence the whole walk, symbolic (no verdict in 900 s) */ fe_stop_at = in_u8(); fe_stop_val = (int) in_u32();
  mask = PRES;
  V_ASSUME(fe_stop_val != 0);
  for (c = 0; c < NC; c++) {
    const struct ttx_page_stat *ps = cache_network_const_page_stat(&FE_CN, fe_pg[c]);
    unsigned np = 0;
    for (s = 0; s < W; s++) {
      fe_present[c][s] = (mask >> (c * W + s)) & 1; np += fe_present[c][s];
      FE_CP[c][s].pgno = fe_pg[c]; FE_CP[c][s].subno = fe_sm[c] + s; FE_CP[c][s].network = &FE_CN;
    }
    /* the statistics invariant of cache.c, as initialised above */
    V_ASSERT(ps->n_subpages == np && ps->subno_min == fe_sm[c] && ps->subno_max == fe_sm[c] + W - 1, "harness_statistics_match_population");
    n += np;
  }
  V_ASSERT(FE_CN.n_cached_pages == (unsigned) n, "harness_page_count_matches_population");

  /* start subpage START_SUB from the grid (-1: VBI_ANY_SUBNO): one walk costs 2 x 0x800 iterations of the skip loop at ~20-50 ms
     of symex each (every statistics read copies the 2048 entry array constant), so one call per instance */
  (void) sel;
#if START_SUB >= 0
  fe_start_key = fe_key(START_PG, START_SUB); fe_start_known = 1;
  ret = _vbi_cache_foreach_page(&FE_CA, &FE_CN, START_PG, START_SUB, DIR, fe_cb, &fe_n_cb); called = 1;
#else
  fe_start_known = 0;				/* the walk begins at whichever cached subpage the look-up returned, else at subpage 0 */
  ret = _vbi_cache_foreach_page(&FE_CA, &FE_CN, START_PG, VBI_ANY_SUBNO, DIR, fe_cb, &fe_n_cb); called = 1;
#endif
  V_ASSUME(called);

  for (c = 0; c < NC; c++)
    for (s = 0; s < W; s++)
      V_ASSERT(fe_ref[c][s] == 0, "all_references_given_back");
  if (n == 0) {
    V_ASSERT(ret == 0 && fe_n_cb == 0, "nothing_cached_returns_zero");
    V_REACH("empty");
  } else if (fe_stop_at >= 1 && fe_n_cb >= fe_stop_at) {
    V_ASSERT(ret == fe_stop_val && fe_n_cb == fe_stop_at, "callback_result_ends_the_walk_and_is_returned");
    V_REACH("stopped");
  } else {
    /* never stopped: the walk ended by itself, after presenting every cached page once with wrapped = TRUE */
    V_ASSERT(ret == -1, "unstopped_walk_ends_with_minus_one");
    for (c = 0; c < NC; c++)
      for (s = 0; s < W; s++) {
	V_ASSERT(fe_cnt_wrapped[c][s] == (unsigned) fe_present[c][s], "every_cached_page_presented_once_after_the_wrap");
	V_ASSERT(fe_cnt_unwrapped[c][s] <= (unsigned) fe_present[c][s], "no_page_presented_twice_before_the_wrap");
	if (fe_start_known && fe_present[c][s]) {
	  long k = fe_key(fe_pg[c], fe_sm[c] + s);
	  V_ASSERT(fe_cnt_unwrapped[c][s] == (unsigned) (DIR > 0 ? k >= fe_start_key : k <= fe_start_key), "pages_ahead_of_start_presented_before_the_wrap");
	}
      }
    V_REACH("full_cycle");
  }
  V_END();
}
