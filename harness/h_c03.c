/* C03 - error protection primitives (src/hamm.c, src/hamm.h) against reference codes written from the
 * parity equations of EN 300 706 section 8 (models/ref_codes.h). */
#include "verif.h"
#include "ref_codes.h"
#include "src/hamm.h"

/* Hamming 8/4: encoder = reference; decode corrects 1 error, rejects 2 */
V_HARNESS(h_ham8)
{
  unsigned d, c, e1, e2, b1, b2; int r;
  V_INIT();
  d = in_u8() & 15; c = in_u8(); b1 = in_u8() & 7; b2 = in_u8() & 7;
  V_ASSERT(vbi_ham8(d) == ref_ham8(d), "ham8_encode");
  V_ASSERT(vbi_unham8(ref_ham8(d)) == (int) d, "ham8_roundtrip");
  e1 = ref_ham8(d) ^ (1u << b1);
  V_ASSERT(vbi_unham8(e1) == (int) d, "ham8_single_error_corrected");
  V_ASSUME(b1 != b2);
  e2 = e1 ^ (1u << b2);
  V_ASSERT(vbi_unham8(e2) < 0, "ham8_double_error_rejected");
  /* arbitrary byte: library decode == nearest-code-word decode */
  r = vbi_unham8(c);
  V_ASSERT(r == ref_unham8(c), "ham8_decode_any");
  V_ASSERT(r >= -1 && r <= 15, "ham8_range");
  V_END();
}

V_HARNESS(h_ham16)
{
  uint8_t p[2]; int r, lo, hi;
  V_INIT();
  p[0] = in_u8(); p[1] = in_u8();
  r = vbi_unham16p(p); lo = ref_unham8(p[0]); hi = ref_unham8(p[1]);
  if (lo < 0 || hi < 0) { V_ASSERT(r < 0, "ham16_error_negative"); V_REACH("err"); }
  else V_ASSERT(r == (lo | (hi << 4)), "ham16_value");
  V_END();
}

V_HARNESS(h_par)
{
  unsigned c; int r; uint8_t buf[4], o[4]; int i, ok;
  V_INIT();
  c = in_u8();
  V_ASSERT(vbi_par8(c & 0x7F) == ref_par8(c), "par8_encode");
  r = vbi_unpar8(c);
  if (ref_odd_parity(c)) V_ASSERT(r == (int) (c & 0x7F), "unpar8_good"); else { V_ASSERT(r < 0, "unpar8_bad"); V_REACH("bad"); }
  in_bytes(buf, 4); memcpy(o, buf, 4);
  vbi_par(buf, 4);
  for (i = 0; i < 4; i++) V_ASSERT(buf[i] == ref_par8(o[i]), "par_block");
  memcpy(buf, o, 4);
  ok = vbi_unpar(buf, 4) >= 0;
  { int exp = 1; for (i = 0; i < 4; i++) exp &= (int) ref_odd_parity(o[i]); V_ASSERT(ok == exp, "unpar_block_result"); }
  for (i = 0; i < 4; i++) V_ASSERT(buf[i] == (o[i] & 0x7F), "unpar_block_strips");
  V_END();
}

/* Hamming 24/18 */
V_HARNESS(h_ham24)
{
  unsigned d, w; uint8_t p[3];
  V_INIT();
  d = in_u32() & 0x3FFFF;
  w = ref_ham24(d);
  vbi_ham24p(p, d);
  V_ASSERT(((unsigned) p[0] | ((unsigned) p[1] << 8) | ((unsigned) p[2] << 16)) == w, "ham24_encode");
  V_ASSERT(vbi_unham24p(p) == (int) d, "ham24_roundtrip");
  V_END();
}
V_HARNESS(h_ham24_err1)
{
  unsigned d, w, b1; uint8_t q[3];
  V_INIT();
  d = in_u32() & 0x3FFFF; b1 = in_u8() % 24;
#ifdef B1SEL
  b1 = B1SEL;      /* error position enumerated by the runner */
#endif
  w = ref_ham24(d) ^ (1u << b1); q[0] = w & 255; q[1] = (w >> 8) & 255; q[2] = (w >> 16) & 255;
  V_ASSERT(vbi_unham24p(q) == (int) d, "ham24_single_error_corrected");
  V_END();
}
V_HARNESS(h_ham24_err2)
{
  unsigned d, w, b1, b2; uint8_t q[3];
  V_INIT();
  d = in_u32() & 0x3FFFF; b1 = in_u8() % 24; b2 = in_u8() % 24;
#ifdef B1SEL
  b1 = B1SEL;      /* first error position enumerated by the runner, second symbolic */
#endif
  V_ASSUME(b1 != b2);
  w = ref_ham24(d) ^ (1u << b1) ^ (1u << b2); q[0] = w & 255; q[1] = (w >> 8) & 255; q[2] = (w >> 16) & 255;
  V_ASSERT(vbi_unham24p(q) < 0, "ham24_double_error_rejected");
  V_END();
}

V_HARNESS(h_rev)
{
  unsigned c;
  V_INIT();
  c = in_u16();
  V_ASSERT(vbi_rev8(c & 255) == ref_rev8(c & 255), "rev8");
  V_ASSERT(vbi_rev16(c) == (ref_rev8(c & 255) << 8 | ref_rev8(c >> 8)), "rev16");
  V_END();
}
