/* C09 - XDS demultiplexer (src/xds_demux.c, stand-alone).
 * Real unit: src/xds_demux.c (included), src/hamm.c (linked, vbi_unpar8 tables). */
#include "verif.h"
#include "ref_codes.h"
#include "src/xds_demux.c"

/* only referenced by the (unused) packet dump helper; tables.c is not linked */
const char *vbi_rating_string(vbi_rating_auth auth, int id) { (void) auth; (void) id; return ""; }
const char *vbi_prog_type_string(vbi_prog_classf classf, int id) { (void) classf; (void) id; return ""; }

#ifndef CLS1
#define CLS1 0
#endif
#ifndef TYP1
#define TYP1 1
#endif
#ifndef CLS2
#define CLS2 0
#endif
#ifndef TYP2
#define TYP2 2
#endif
#ifndef N1
#define N1 3
#endif
#ifndef N2
#define N2 2
#endif
#ifndef KSLOTS
#define KSLOTS 8
#endif

/* ---- callback log -------------------------------------------------- */
#define LOGMAX 6
static struct { unsigned cls, sub, size; uint8_t buf[36]; } cb_log[LOGMAX];
static unsigned cb_n;
static vbi_xds_demux XD;            /* exact-size object: any access outside is a bounds failure */

static vbi_bool cb(vbi_xds_demux *xd, const vbi_xds_packet *xp, void *ud)
{
  unsigned i;
  V_ASSERT(xd == &XD && ud == (void *) &cb_n, "cb_args");
  /* documented contract of the packet handed to the user */
  V_ASSERT(xp->buffer_size >= 1 && xp->buffer_size <= 32, "cb_size_1_32");
  V_ASSERT(xp->buffer[xp->buffer_size] == 0, "cb_nul_terminated");
  V_ASSERT((unsigned) xp->xds_class <= VBI_XDS_CLASS_MISC, "cb_class");
  if (cb_n < LOGMAX) {
    cb_log[cb_n].cls = xp->xds_class; cb_log[cb_n].sub = xp->xds_subclass; cb_log[cb_n].size = xp->buffer_size;
    for (i = 0; i < 36; i++) cb_log[cb_n].buf[i] = xp->buffer[i];
  }
  cb_n++;
  return TRUE;
}

static int sp_inv(const _vbi_xds_subpacket *sp)
{ return sp->count == 0 || (sp->count >= 2 && sp->count <= 34); }

static unsigned slot_of(unsigned sub) { return sub >= 0x40 ? sub - 0x30 : sub; }

/* slot access at a symbolic (c,i) through concrete loops: symbolic indices into the field-sensitive demux object stall symex */
static _vbi_xds_subpacket slot_get(int sc, int si)
{ _vbi_xds_subpacket r; unsigned c, i; memset(&r, 0, sizeof r);
  for (c = 0; c < VBI_XDS_MAX_CLASSES; c++) for (i = 0; i < VBI_XDS_MAX_SUBCLASSES; i++) if ((int) c == sc && (int) i == si) r = XD.subpacket[c][i];
  return r; }
static _vbi_xds_subpacket *slot_ptr(int sc, int si)
{ _vbi_xds_subpacket *r = NULL; unsigned c, i;
  for (c = 0; c < VBI_XDS_MAX_CLASSES; c++) for (i = 0; i < VBI_XDS_MAX_SUBCLASSES; i++) if ((int) c == sc && (int) i == si) r = &XD.subpacket[c][i];
  return r; }

/* current slot of a demux, -1/-1 if none; returns 0 if curr_sp is not consistent with curr.xds_class/subclass */
static int xd_cur(const vbi_xds_demux *xd, int *cur_c, int *cur_i)
{
  *cur_c = *cur_i = -1;
  if (xd->curr_sp) {
    unsigned cc = (unsigned) xd->curr.xds_class, ii = slot_of(xd->curr.xds_subclass);
    if (cc > VBI_XDS_CLASS_MISC || ii >= VBI_XDS_MAX_SUBCLASSES || xd->curr.xds_subclass > 0x7F) return 0;
    if (xd->curr_sp != slot_ptr((int) cc, (int) ii)) return 0;
    *cur_c = (int) cc; *cur_i = (int) ii;
  }
  return 1;
}

static int ref_unpar(unsigned b) { return ref_odd_parity(b) ? (int) (b & 0x7F) : -1; }

/* ---- 1. INV-STEP + step contract: arbitrary state satisfying the invariant, one arbitrary byte pair.
 * Invariant: every slot's count in {0} u [2,34]; curr_sp is NULL or the slot named by curr.xds_class/subclass
 * (class <= MISC) and that slot is started (count >= 2).
 * The contract is EIA-608 section 9 reassembly written as a relation between pre state, pair, post state and
 * deliveries; from it and the invariant "exactly once, iff checksum and parities good, 1..32 bytes,
 * class/type of the start code" follows for histories of any length.
 * Encoding: the three slots the step can depend on (current, the one a header names, an arbitrary observer)
 * are copied out before and after; the invariant is assumed only for them (weaker assumption, stronger theorem). */
V_HARNESS(h_xds_step)
{
  unsigned i; uint8_t pair[2]; int c1, c2, cc, ci, nc, ni; vbi_bool r;
  int t_c = -1, t_i = -1;           /* slot that may change */
  int hc = -1, hi = -1, oc, oi;     /* slot named by a header pair; arbitrary observer slot */
  _vbi_xds_subpacket o_cur, o_hdr, o_obs, n_cur, n_hdr, n_obs; vbi_xds_packet o_curr;
  V_INIT();
  memcpy(&XD, &VINS.b[0], sizeof XD);                            /* arbitrary state image */
  vin_pos = sizeof XD;
  XD.callback = cb; XD.user_data = &cb_n;
  { unsigned has = in_u8(), sc = in_u8(), si = in_u8();
    if (has & 1) { V_ASSUME(sc <= VBI_XDS_CLASS_MISC && si < VBI_XDS_MAX_SUBCLASSES); XD.curr_sp = slot_ptr((int) sc, (int) si); }
    else XD.curr_sp = NULL; }
  pair[0] = in_u8(); pair[1] = in_u8();
#ifdef C1FIX      /* case split on the first byte (runner grid): the demux dispatches on it */
  pair[0] = (C1FIX < 0) ? (uint8_t) (ref_par8(-(C1FIX)) ^ 0x80) : (uint8_t) ref_par8(C1FIX);
#endif
  c1 = ref_unpar(pair[0]); c2 = ref_unpar(pair[1]);
  if (c1 >= 1 && c1 <= 0x0E && c2 >= 0 && (unsigned) (c1 - 1) >> 1 <= VBI_XDS_CLASS_MISC && slot_of((unsigned) c2) < VBI_XDS_MAX_SUBCLASSES) {
    hc = (c1 - 1) >> 1; hi = (int) slot_of((unsigned) c2); }
  oc = in_u8(); oi = in_u8(); V_ASSUME(oc < VBI_XDS_MAX_CLASSES && oi < VBI_XDS_MAX_SUBCLASSES);
  V_ASSUME(xd_cur(&XD, &cc, &ci));
  memset(&o_cur, 0, sizeof o_cur); memset(&o_hdr, 0, sizeof o_hdr);
  if (cc >= 0) { o_cur = slot_get(cc, ci); V_REACH("cur0"); V_ASSUME(o_cur.count >= 2 && o_cur.count <= 34); V_REACH("cur"); }
  if (hc >= 0) { o_hdr = slot_get(hc, hi); V_ASSUME(sp_inv(&o_hdr)); }
  o_obs = slot_get(oc, oi); V_ASSUME(sp_inv(&o_obs));
  o_curr = XD.curr;

  r = vbi_xds_demux_feed(&XD, pair);

  V_ASSERT(xd_cur(&XD, &nc, &ni), "step_inv_curr_consistent");
  n_cur = o_cur; n_hdr = o_hdr;
  if (cc >= 0) { n_cur = slot_get(cc, ci); V_ASSERT(sp_inv(&n_cur), "step_inv_prev_current"); }
  if (hc >= 0) { n_hdr = slot_get(hc, hi); V_ASSERT(sp_inv(&n_hdr), "step_inv_header_slot"); }
  n_obs = slot_get(oc, oi); V_ASSERT(sp_inv(&n_obs), "step_inv_observer");
  if (nc >= 0) V_ASSERT((nc == cc && ni == ci && n_cur.count >= 2) || (nc == hc && ni == hi && n_hdr.count >= 2), "step_inv_current_started");
  V_ASSERT(cb_n <= 1, "step_at_most_one_delivery");
  /* ---- contract ---- */
  if (c1 < 0 || c2 < 0) {                       /* parity error: current packet dropped, nothing delivered */
    V_ASSERT(!r && cb_n == 0 && nc < 0, "step_parity_drops_current");
    t_c = cc; t_i = ci;
    if (cc >= 0) V_ASSERT(n_cur.count == 0, "step_parity_clears");
    V_REACH("parity");
  } else if (c1 == 0) {
    V_ASSERT(r && cb_n == 0 && nc == cc && ni == ci, "step_stuffing_noop");
  } else if (c1 <= 0x0E) {
    V_ASSERT(r && cb_n == 0, "step_header_no_delivery");
    if (hc < 0) {                               /* unknown class or type: ends the current packet */
      V_ASSERT(nc < 0, "step_unknown_header_ends_current");
      t_c = cc; t_i = ci;
      if (cc >= 0) V_ASSERT(n_cur.count == 0, "step_unknown_header_clears");
      V_REACH("badhdr");
    } else if (c1 & 1) {
      t_c = hc; t_i = hi;
      V_ASSERT(nc == hc && ni == hi, "step_start_selects");
      V_ASSERT(n_hdr.count == 2 && ((n_hdr.checksum ^ (unsigned) (c1 + c2)) & 0x7F) == 0, "step_start_resets");
      V_ASSERT((int) XD.curr.xds_class == hc && XD.curr.xds_subclass == (unsigned) c2, "step_start_class_type");
    } else if (o_hdr.count == 0) {
      t_c = hc; t_i = hi;
      V_ASSERT(nc < 0 && n_hdr.count == 0, "step_continue_without_start");
    } else {
      V_ASSERT(nc == hc && ni == hi, "step_continue_selects");
      V_ASSERT((int) XD.curr.xds_class == hc && slot_of(XD.curr.xds_subclass) == (unsigned) hi, "step_continue_class_type");
      V_REACH("continue");
    }
  } else if (c1 == 0x0F) {
    if (cc < 0) V_ASSERT(r && cb_n == 0 && nc < 0, "step_end_without_packet");
    else {
      int good = (((o_cur.checksum + (unsigned) c1 + (unsigned) c2) & 0x7F) == 0) && o_cur.count > 2;
      t_c = cc; t_i = ci;
      V_ASSERT(nc < 0 && n_cur.count == 0, "step_end_closes");
      V_ASSERT((cb_n == 1) == good, "step_deliver_iff_checksum_good");
      if (good) {
        V_ASSERT(cb_log[0].cls == (unsigned) o_curr.xds_class && cb_log[0].sub == o_curr.xds_subclass, "step_deliver_class_type");
        V_ASSERT(cb_log[0].size == o_cur.count - 2, "step_deliver_length");
        for (i = 0; i < 32; i++) if (i < o_cur.count - 2) V_ASSERT(cb_log[0].buf[i] == o_cur.buffer[i], "step_deliver_bytes");
        V_REACH("delivered");
      }
    }
  } else if (c1 <= 0x1F) {
    V_ASSERT(r && cb_n == 0 && nc < 0, "step_caption_ends_xds");
  } else {
    V_ASSERT(r && cb_n == 0, "step_content_no_delivery");
    if (cc < 0) V_ASSERT(nc < 0, "step_content_ignored");
    else {
      t_c = cc; t_i = ci;
      if (o_cur.count + 2 > 34) { V_ASSERT(nc < 0 && n_cur.count == 0, "step_overlong_discarded"); V_REACH("overlong"); }
      else {
        V_ASSERT(nc == cc && ni == ci, "step_content_keeps_current");
        V_ASSERT(n_cur.count == o_cur.count + 1 + (c2 != 0), "step_content_count");
        V_ASSERT(n_cur.checksum == o_cur.checksum + (unsigned) c1 + (unsigned) c2, "step_content_checksum");
        for (i = 0; i < 32; i++) {
          if (i + 2 < o_cur.count) V_ASSERT(n_cur.buffer[i] == o_cur.buffer[i], "step_content_prefix_kept");
          if (i + 2 == o_cur.count) V_ASSERT(n_cur.buffer[i] == c1, "step_content_byte1");
          if (i + 1 == o_cur.count && c2 != 0) V_ASSERT(n_cur.buffer[i] == c2, "step_content_byte2");
        }
        V_REACH("content");
      }
    }
  }
  /* the slot a header names is untouched unless it is the target */
  if (hc >= 0 && !(hc == t_c && hi == t_i) && !(hc == cc && hi == ci)) {
    V_ASSERT(n_hdr.count == o_hdr.count && n_hdr.checksum == o_hdr.checksum, "step_frame_hdr");
  }
  if (cc >= 0 && !(cc == t_c && ci == t_i)) {
    V_ASSERT(n_cur.count == o_cur.count && n_cur.checksum == o_cur.checksum, "step_frame_cur");
    for (i = 0; i < 32; i++) V_ASSERT(n_cur.buffer[i] == o_cur.buffer[i], "step_frame_cur_bytes");
  }
  /* frame: no other packet is ever touched ("never corrupts another packet"); (oc,oi) is arbitrary */
  if (!(oc == t_c && oi == t_i)) {
    V_ASSERT(n_obs.count == o_obs.count && n_obs.checksum == o_obs.checksum, "step_frame_count");
    for (i = 0; i < 32; i++) V_ASSERT(n_obs.buffer[i] == o_obs.buffer[i], "step_frame_bytes");
    V_REACH("frame");
  }
  V_END();
}

/* ---- 2. INIT |= invariant ------------------------------------------ */
V_HARNESS(h_xds_init)
{
  int a, b; unsigned c, i;
  V_INIT();
  memcpy(&XD, &VINS.b[0], sizeof XD);          /* dirty memory */
  _vbi_xds_demux_init(&XD, cb, &cb_n);
  for (c = 0; c < VBI_XDS_MAX_CLASSES; c++)
    for (i = 0; i < VBI_XDS_MAX_SUBCLASSES; i++)
      V_ASSERT(sp_inv(&XD.subpacket[c][i]), "init_inv");
  V_ASSERT(xd_cur(&XD, &a, &b) && a < 0, "init_no_curr");
  V_END();
}

/* ---- 3. SEQ with a reference *sender* ------------------------------- *
 * Two packets (class/type/length from the grid) are cut into byte pairs and multiplexed by a symbolic schedule
 * with caption control pairs, caption text and null pairs, resumed by continue codes.  One optional symbolic
 * fault (parity flip of either byte of a packet pair, value change of a payload byte, wrong checksum byte).
 * Encoding rule (DESIGN R2): the FIRST byte of every pair is concrete at its call site (the demux switches on
 * it and would otherwise compute a symbolic slot pointer); second bytes, schedule and fault are symbolic. */
#ifndef FB
#define FB 0x41
#endif
#ifndef CTRL
#define CTRL 0x14
#endif
struct pk { unsigned n; uint8_t pay[34]; unsigned sent; int started, done, dirty; unsigned sum; };
static struct pk PK[2];
static unsigned last_owner;       /* 0,1 = packet owning the XDS channel, 2 = nobody */
static int hdr_hit;
static unsigned exp_n, exp_who[4];

static void emit(uint8_t a, uint8_t b) { uint8_t p[2]; p[0] = a; p[1] = b; vbi_xds_demux_feed(&XD, p); }
/* a is a compile-time constant at every call site */
#define SEND(a, b, fa, fb) do { if (fa) emit(ref_par8(a) ^ 0x80, ref_par8(b)); else if (fb) emit(ref_par8(a), ref_par8(b) ^ 0x80); else emit(ref_par8(a), ref_par8(b)); } while (0)

#define PACKET_STEP(j, CLS, TYP) do { \
    struct pk *p = &PK[j]; int fa = fault && bad_kind == 0, fb = fault && bad_kind == 1; \
    if (!p->started) { SEND(1 + 2 * (CLS), (TYP), fa, fb); p->started = 1; p->sum += 1 + 2 * (CLS) + (TYP); if (fa || fb) { p->dirty = 1; hdr_hit = 1; } } \
    else if (last_owner != (j)) { SEND(2 + 2 * (CLS), (TYP), fa, fb); if (fa || fb) { p->dirty = 1; hdr_hit = 1; } } \
    else if (p->sent < p->n) { uint8_t b = (p->sent + 1 < p->n) ? p->pay[p->sent + 1] : 0; \
      if (fault && bad_kind == 2 && b != 0) { V_ASSUME(bad_val >= 0x20 && bad_val != b); b = bad_val; p->dirty = 1; } \
      if (fa || fb) p->dirty = 1; \
      SEND(FB, b, fa, fb); p->sum += FB + ((p->sent + 1 < p->n) ? p->pay[p->sent + 1] : 0); p->sent += 2; } \
    else { uint8_t b = (uint8_t) ((128 - ((p->sum + 0x0F) & 0x7F)) & 0x7F); \
      if (fault && bad_kind == 3) { V_ASSUME(bad_val != b); b = bad_val; p->dirty = 1; } \
      if (fa || fb) p->dirty = 1; \
      SEND(0x0F, b, fa, fb); p->done = 1; \
      if (!p->dirty) { if (exp_n < 4) exp_who[exp_n] = (j); exp_n++; } } \
    last_owner = p->done ? 2 : (j); \
  } while (0)

V_HARNESS(h_xds_sender)
{
  static const unsigned cls_of[2] = { CLS1, CLS2 }, typ_of[2] = { TYP1, TYP2 };
  unsigned s, j, i; unsigned bad_slot, bad_kind; uint8_t bad_val;
  V_INIT();
  _vbi_xds_demux_init(&XD, cb, &cb_n);
  PK[0].n = N1; PK[1].n = N2; last_owner = 2; hdr_hit = 0; exp_n = 0;
  for (j = 0; j < 2; j++) {
    PK[j].sent = 0; PK[j].started = PK[j].done = PK[j].dirty = 0; PK[j].sum = 0;
    for (i = 0; i < 34; i++) PK[j].pay[i] = 0;
    for (i = 0; i < PK[j].n; i++) { uint8_t v = in_u8() & 0x7F; if (i & 1) { V_ASSUME(v >= 0x20); PK[j].pay[i] = v; } else PK[j].pay[i] = FB; }
  }
  bad_slot = in_u8(); bad_kind = in_u8() & 3; bad_val = in_u8() & 0x7F;
  for (s = 0; s < KSLOTS; s++) {
    unsigned op = in_u8() & 7; uint8_t r2 = in_u8() & 0x7F; int fault = (s == bad_slot);
    if (op == 0 && !PK[0].done) PACKET_STEP(0, CLS1, TYP1);
    else if (op == 1 && !PK[1].done) PACKET_STEP(1, CLS2, TYP2);
    else if (op == 2) { V_ASSUME(r2 >= 0x20); SEND(CTRL, r2, 0, 0); last_owner = 2; }                 /* caption control code interrupts XDS */
    else if (op == 3 && last_owner == 2) { V_ASSUME(r2 >= 0x20); SEND(0x54, r2, 0, 0); }           /* caption text, only outside XDS */
    else SEND(0, 0, 0, 0);                                                                          /* null pair */
  }
  /* oracle: deliveries == cleanly terminated packets, once each, in termination order, byte exact */
  for (i = 0; i < cb_n && i < LOGMAX; i++) {
    int m = -1;
    for (j = 0; j < 2; j++) if (cb_log[i].cls == cls_of[j] && cb_log[i].sub == typ_of[j]) m = (int) j;
    V_ASSERT(m >= 0, "sender_delivered_unknown_packet");
    V_ASSERT(PK[m].done && !PK[m].dirty, "sender_delivered_corrupt_or_incomplete");
    V_ASSERT(cb_log[i].size == PK[m].n, "sender_length");
    for (j = 0; j < 34; j++) if (j < PK[m].n) V_ASSERT(cb_log[i].buf[j] == PK[m].pay[j], "sender_bytes");
  }
  V_ASSERT(cb_n <= 2, "sender_at_most_once_each");
  if (cb_n == 2) V_ASSERT(cb_log[0].cls != cb_log[1].cls || cb_log[0].sub != cb_log[1].sub, "sender_no_duplicate");
  /* a parity error in a header pair makes the demux drop whatever packet is current (it cannot know whom the
     header named), so a clean packet may be lost then; otherwise every clean terminated packet arrives, in order */
  if (!hdr_hit) {
    V_ASSERT(cb_n == exp_n, "sender_every_clean_packet_delivered");
    for (i = 0; i < 4; i++) if (i < exp_n && i < cb_n)
      V_ASSERT(cb_log[i].cls == cls_of[exp_who[i]] && cb_log[i].sub == typ_of[exp_who[i]], "sender_order");
  }
  if (cb_n == 2) V_REACH("both");
  if (exp_n == 1 && cb_n == 1) V_REACH("one");
  V_END();
}

/* ---- 4. too long / missing start: never delivered ---------------------- */
V_HARNESS(h_xds_overlong)
{
  unsigned s; uint8_t hdr;
  V_INIT();
  _vbi_xds_demux_init(&XD, cb, &cb_n);
  /* start (or continue without start), KSLOTS content pairs (first byte FB, second arbitrary incl. NUL), terminator with any checksum */
  hdr = in_bool();
  if (hdr) SEND(1 + 2 * CLS1, TYP1, 0, 0);
  else SEND(2 + 2 * CLS1, TYP1, 0, 0);
  for (s = 0; s < KSLOTS; s++) { uint8_t b = in_u8() & 0x7F; SEND(FB, b, 0, 0); }
  { uint8_t b = in_u8() & 0x7F; SEND(0x0F, b, 0, 0); }
  if (!hdr) V_ASSERT(cb_n == 0, "missing_start_never_delivered");
  if (cb_n) { V_ASSERT(cb_log[0].size <= 32, "overlong_never_delivered"); V_REACH("delivered"); }
  V_END();
}
