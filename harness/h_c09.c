/* C09 - XDS demultiplexer (src/xds_demux.c, stand-alone).
 * Real unit: src/xds_demux.c (included), src/hamm.c (linked, vbi_unpar8 tables). */
#include "verif.h"
#include "ref_codes.h"
#include "src/xds_demux.c"

/* only referenced by the (unused) packet dump helper; tables.c is not linked */
const char *vbi_rating_string(vbi_rating_auth auth, int id) { (void) auth; (void) id; return ""; }
const char *vbi_prog_type_string(vbi_prog_classf classf, int id) { (void) classf; (void) id; return ""; }

#ifndef CLS1
#define CLS1 0
#endif
#ifndef TYP1
#define TYP1 1
#endif
#ifndef CLS2
#define CLS2 0
#endif
#ifndef TYP2
#define TYP2 2
#endif
#ifndef N1
#define N1 3
#endif
#ifndef N2
#define N2 2
#endif
#ifndef KSLOTS
#define KSLOTS 8
#endif

/* ---- callback log -------------------------------------------------- */
#define LOGMAX 6
static struct { unsigned cls, sub, size; uint8_t buf[36]; } cb_log[LOGMAX];
static unsigned cb_n;
static vbi_xds_demux XD;            /* exact-size object: any access outside is a bounds failure */

static vbi_bool cb(vbi_xds_demux *xd, const vbi_xds_packet *xp, void *ud)
{
  unsigned i;
  V_ASSERT(xd == &XD && ud == (void *) &cb_n, "cb_args");
  /* documented contract of the packet handed to the user */
  V_ASSERT(xp->buffer_size >= 1 && xp->buffer_size <= 32, "cb_size_1_32");
  V_ASSERT(xp->buffer[xp->buffer_size] == 0, "cb_nul_terminated");
  V_ASSERT((unsigned) xp->xds_class <= VBI_XDS_CLASS_MISC, "cb_class");
  if (cb_n < LOGMAX) {
    cb_log[cb_n].cls = xp->xds_class; cb_log[cb_n].sub = xp->xds_subclass; cb_log[cb_n].size = xp->buffer_size;
    for (i = 0; i < 36; i++) cb_log[cb_n].buf[i] = xp->buffer[i];
  }
  cb_n++;
  return TRUE;
}

static int sp_inv(const _vbi_xds_subpacket *sp)
{ return sp->count == 0 || (sp->count >= 2 && sp->count <= 34); }

static unsigned slot_of(unsigned sub) { return sub >= 0x40 ? sub - 0x30 : sub; }

/* slot access at a symbolic (c,i) through concrete loops: symbolic indices into the field-sensitive demux object stall symex.
 * Only classes <= MISC can be selected (the others are never current and never named by an accepted header). */
#define NCLS_USED (VBI_XDS_CLASS_MISC + 1)
static _vbi_xds_subpacket slot_get(int sc, int si)
{ _vbi_xds_subpacket r; unsigned c, i; memset(&r, 0, sizeof r);
  for (c = 0; c < NCLS_USED; c++) for (i = 0; i < VBI_XDS_MAX_SUBCLASSES; i++) if ((int) c == sc && (int) i == si) r = XD.subpacket[c][i];
  return r; }
static _vbi_xds_subpacket *slot_ptr(int sc, int si)
{ _vbi_xds_subpacket *r = NULL; unsigned c, i;
  for (c = 0; c < NCLS_USED; c++) for (i = 0; i < VBI_XDS_MAX_SUBCLASSES; i++) if ((int) c == sc && (int) i == si) r = &XD.subpacket[c][i];
  return r; }

/* curr.xds_class/xds_subclass name slot (c,i) */
static int names(const vbi_xds_demux *xd, int c, int i)
{ return c >= 0 && (int) xd->curr.xds_class == c && xd->curr.xds_subclass <= 0x7F && (int) slot_of(xd->curr.xds_subclass) == i; }

/* current slot of a demux, -1/-1 if none; returns 0 if curr_sp is not consistent with curr.xds_class/subclass */
static int xd_cur(const vbi_xds_demux *xd, int *cur_c, int *cur_i)
{
  *cur_c = *cur_i = -1;
  if (xd->curr_sp) {
    unsigned cc = (unsigned) xd->curr.xds_class, ii = slot_of(xd->curr.xds_subclass);
    if (cc > VBI_XDS_CLASS_MISC || ii >= VBI_XDS_MAX_SUBCLASSES || xd->curr.xds_subclass > 0x7F) return 0;
    if (xd->curr_sp != slot_ptr((int) cc, (int) ii)) return 0;
    *cur_c = (int) cc; *cur_i = (int) ii;
  }
  return 1;
}

static int ref_unpar(unsigned b) { return ref_odd_parity(b) ? (int) (b & 0x7F) : -1; }

/* ---- 1. INV-STEP + step contract: arbitrary state satisfying the invariant, one byte pair.
 * Invariant: every slot's count in {0} u [2,34]; curr_sp is NULL or the slot named by curr.xds_class/subclass
 * (class <= MISC) and that slot is started (count >= 2).
 * The contract is EIA-608 section 9 reassembly written as a relation between pre state, pair, post state and
 * deliveries; from it and the invariant "exactly once, iff checksum and parities good, 1..32 bytes,
 * class/type of the start code" follows for histories of any length.
 *
 * Encoding (all measured, numbers in C09.py): a slot pointer selected by a symbolic index is dereferenced by cbmc as
 * "somewhere in XD" and every access through it then costs a selection over the whole 6.8 KB object (0.8 M variables, final
 * UNSAT call 250-800 s per instance, terminator class no verdict in 1200 s).  Therefore the call is made once per possible
 * value of the selecting quantity, so that at each call site the pointer the step dereferences is a CONSTANT; exactly one
 * of the call sites executes, which one is symbolic:
 *   MODE_CUR   first bytes after which only the current packet is dereferenced (parity error, stuffing, header of a class
 *              the demux does not store, terminator, caption code, content): one call site per current slot
 *              (none / [class][0..0x17]), dispatched by a balanced tree of if/else so that the states are merged pairwise
 *              (a linear chain of 96 exclusive branches accumulates a 96-deep selection per slot member: quadratic);
 *              CURC on the grid restricts an instance to one class of the current packet (4x smaller, 4 instances);
 *   MODE_HDR   header of a stored class with an accepted type: 32 call sites, one per type (0x00-0x17, 0x40-0x47; the second
 *              byte is then a constant at the call site, the header's slot too); the current-packet pointer stays symbolic
 *              (it is only overwritten);
 *   MODE_SYM   header of a stored class with a type it rejects or a parity error in the second byte (every such second byte):
 *              one call with everything symbolic (the earlier encoding; both the current and the named slot could be
 *              dereferenced, a call site per pair of them is too many); 50-75 s because the second byte is confined to
 *              the rejected values and the contract/frame are the cheap ones of above.
 * The contract is asserted once, on the before/after copies of the one slot concerned that the executed call site leaves
 * in L_o/L_n; the frame ("no other packet is ever touched") slot by slot for all 168 slots against a copy of the pre state. */
#ifndef C1FIX
#define C1FIX 0x41
#endif
#define C1V ((C1FIX) < 0 ? -1 : (C1FIX))                 /* decoded first byte, -1 = parity error */
#define IS_HDR (C1V >= 1 && C1V <= 0x0E)
#define HCLS ((C1V - 1) >> 1)                            /* class a header pair names */
#define CLS_MISC 3                                       /* = VBI_XDS_CLASS_MISC, an enum constant: not visible to #if */
_Static_assert(CLS_MISC == VBI_XDS_CLASS_MISC, "CLS_MISC");
#define HCLS_OK (IS_HDR && HCLS <= CLS_MISC)
#define HC (HCLS_OK ? HCLS : 0)
#define K_SLOT 1                                         /* C2K: second byte names an accepted type (MODE_HDR) */
#define K_OTHERSYM 3                                     /*      rejected type or parity error, all values (MODE_SYM) */
#ifndef C2K
#define C2K K_SLOT
#endif
#define MODE_HDR (HCLS_OK && C2K == K_SLOT)
#define MODE_SYM (HCLS_OK && C2K == K_OTHERSYM)
#define MODE_CUR (!HCLS_OK)
static vbi_xds_demux OLD;
static int W_key, W_cur;
static int T_set;                 /* the slot concerned (current slot resp. header's slot) may change */
static _vbi_xds_subpacket L_o, L_n; static int L_none, L_this;      /* left by the executed call site */

/* contract for everything but accepted headers, about the current slot: o/n = its state before/after, has = there is one;
   now_none / now_this: curr_sp afterwards is NULL / still this slot.  W_key: the most specific case of the class was reached. */
static void contract_cur(int has, int cc, int ci, _vbi_xds_subpacket o, _vbi_xds_subpacket n, int c1, int c2, vbi_bool r,
                         int now_none, int now_this, unsigned o_class, unsigned o_sub)
{
  unsigned i;
  V_ASSERT(now_none || (has && now_this && names(&XD, cc, ci)), "step_inv_curr_consistent");
  if (has) V_ASSERT(sp_inv(&n), "step_inv_prev_current");
  if (!now_none) V_ASSERT(n.count >= 2, "step_inv_current_started");
  V_ASSERT(cb_n <= 1, "step_at_most_one_delivery");
  if (c1 < 0 || c2 < 0) {                       /* parity error: current packet dropped, nothing delivered */
    V_ASSERT(!r && cb_n == 0 && now_none, "step_parity_drops_current");
    T_set = 1;
    if (has) { V_ASSERT(n.count == 0, "step_parity_clears"); if (C1V < 0) W_key = 1; }
  } else if (c1 == 0) {
    V_ASSERT(r && cb_n == 0 && (has ? now_this : now_none), "step_stuffing_noop");
    if (has) W_key = 1;
  } else if (c1 <= 0x0E) {                      /* header with unknown class or type: ends the current packet */
    V_ASSERT(r && cb_n == 0, "step_header_no_delivery");
    V_ASSERT(now_none, "step_unknown_header_ends_current");
    T_set = 1;
    if (has) { V_ASSERT(n.count == 0, "step_unknown_header_clears"); W_key = 1; }
  } else if (c1 == 0x0F) {
    if (!has) V_ASSERT(r && cb_n == 0 && now_none, "step_end_without_packet");
    else {
      int good = (((o.checksum + (unsigned) c1 + (unsigned) c2) & 0x7F) == 0) && o.count > 2;
      T_set = 1;
      V_ASSERT(now_none && n.count == 0, "step_end_closes");
      V_ASSERT((cb_n == 1) == good, "step_deliver_iff_checksum_good");
      if (good) {
        V_ASSERT(cb_log[0].cls == o_class && cb_log[0].sub == o_sub, "step_deliver_class_type");
        V_ASSERT(cb_log[0].size == o.count - 2, "step_deliver_length");
        for (i = 0; i < 32; i++) if (i < o.count - 2) V_ASSERT(cb_log[0].buf[i] == o.buffer[i], "step_deliver_bytes");
        if (o.count == 34) W_key = 1;           /* a full 32 byte packet is delivered */
      }
    }
  } else if (c1 <= 0x1F) {
    V_ASSERT(r && cb_n == 0 && now_none, "step_caption_ends_xds");
    if (has) W_key = 1;
  } else {
    V_ASSERT(r && cb_n == 0, "step_content_no_delivery");
    if (!has) V_ASSERT(now_none, "step_content_ignored");
    else {
      T_set = 1;
      if (o.count + 2 > 34) V_ASSERT(now_none && n.count == 0, "step_overlong_discarded");
      else {
        V_ASSERT(now_this, "step_content_keeps_current");
        V_ASSERT(n.count == o.count + 1 + (c2 != 0), "step_content_count");
        V_ASSERT(n.checksum == o.checksum + (unsigned) c1 + (unsigned) c2, "step_content_checksum");
        for (i = 0; i < 32; i++) {
          if (i + 2 < o.count) V_ASSERT(n.buffer[i] == o.buffer[i], "step_content_prefix_kept");
          if (i + 2 == o.count) V_ASSERT(n.buffer[i] == c1, "step_content_byte1");
          if (i + 1 == o.count && c2 != 0) V_ASSERT(n.buffer[i] == c2, "step_content_byte2");
        }
        if (n.count == 34) W_key = 1;           /* the buffer gets full */
      }
    }
  }
}

/* contract for an accepted header (stored class, accepted type) about the slot it names: o/n = that slot before/after */
static void contract_hdr(int hc, int hi, _vbi_xds_subpacket o, _vbi_xds_subpacket n, int c1, int c2, vbi_bool r, int now_none, int now_this)
{
  V_ASSERT(now_none || (now_this && names(&XD, hc, hi)), "step_inv_curr_consistent");
  V_ASSERT(sp_inv(&n), "step_inv_header_slot");
  if (!now_none) V_ASSERT(n.count >= 2, "step_inv_current_started");
  V_ASSERT(r && cb_n == 0, "step_header_no_delivery");
  if (c1 & 1) {
    T_set = 1;
    V_ASSERT(now_this, "step_start_selects");
    V_ASSERT(n.count == 2 && ((n.checksum ^ (unsigned) (c1 + c2)) & 0x7F) == 0, "step_start_resets");
    V_ASSERT((int) XD.curr.xds_class == hc && XD.curr.xds_subclass == (unsigned) c2, "step_start_class_type");
    if (o.count > 2) W_key = 1;                 /* a packet in progress is restarted */
  } else if (o.count == 0) {
    T_set = 1;
    V_ASSERT(now_none && n.count == 0, "step_continue_without_start");
  } else {
    V_ASSERT(now_this, "step_continue_selects");
    V_ASSERT((int) XD.curr.xds_class == hc && XD.curr.xds_subclass == (unsigned) c2, "step_continue_class_type");
    W_key = 1;
  }
}

#if MODE_CUR
/* one call site: the current slot is the constant (c,i) */
static vbi_bool leaf_cur(unsigned c, unsigned i, int cc, int ci, const uint8_t *pair)
{
  _vbi_xds_subpacket o = XD.subpacket[c][i]; vbi_bool r;
  V_ASSERT((int) c == cc && (int) i == ci, "harness_dispatch");
  V_ASSUME(o.count >= 2 && o.count <= 34); W_cur = 1;           /* invariant, assumed for the current slot only */
  XD.curr_sp = &XD.subpacket[c][i];
  r = vbi_xds_demux_feed(&XD, pair);
  L_o = o; L_n = XD.subpacket[c][i]; L_none = (XD.curr_sp == NULL); L_this = (XD.curr_sp == &XD.subpacket[c][i]);
  return r;
}
#define LEAF(c, i) { r = leaf_cur((c), (i), cc, ci, pair); }
#define T3(c, i)   { if (ci <= (i)) LEAF(c, i) else { if (ci <= (i) + 1) LEAF(c, (i) + 1) else LEAF(c, (i) + 2) } }
#define T6(c, i)   { if (ci <= (i) + 2) T3(c, i) else T3(c, (i) + 3) }
#define T12(c, i)  { if (ci <= (i) + 5) T6(c, i) else T6(c, (i) + 6) }
#define T24(c)     { if (ci <= 11) T12(c, 0) else T12(c, 12) }
#ifdef CURC        /* runner grid: class of the current packet (one instance per class; "no current packet" is part of every instance) */
#define T96        T24(CURC)
#else
#define T96        { if (cc <= 1) { if (cc <= 0) T24(0) else T24(1) } else { if (cc <= 2) T24(2) else T24(3) } }
#endif
#endif

V_HARNESS(h_xds_step)
{
  unsigned i, c; uint8_t pair[2]; int c1, c2, cc = -1, ci = -1; vbi_bool r = FALSE; unsigned o_class, o_sub;
  V_INIT();
  memcpy(&XD, &VINS.b[0], sizeof XD);                            /* arbitrary state image */
  vin_pos = sizeof XD;
  XD.callback = cb; XD.user_data = &cb_n;
  XD.curr_sp = NULL;
  { unsigned has = in_u8(), sc = in_u8(), si = in_u8();
    if (has & 1) { V_ASSUME(sc <= VBI_XDS_CLASS_MISC && si < VBI_XDS_MAX_SUBCLASSES); cc = (int) sc; ci = (int) si;
#ifdef CURC
      V_ASSUME(sc == CURC);
#endif
      V_ASSUME(names(&XD, cc, ci)); } }                           /* curr names the current slot; curr_sp itself is set below */
  pair[0] = in_u8(); pair[1] = in_u8();
  /* case split on the first byte (runner grid): the demux dispatches on it */
  pair[0] = (C1FIX < 0) ? (uint8_t) (ref_par8(-(C1FIX)) ^ 0x80) : (uint8_t) ref_par8(C1FIX);
  c1 = ref_unpar(pair[0]); c2 = ref_unpar(pair[1]);
  V_ASSERT(c1 == C1V, "harness_first_byte");
  o_class = (unsigned) XD.curr.xds_class; o_sub = XD.curr.xds_subclass;
  memset(&L_o, 0, sizeof L_o); memset(&L_n, 0, sizeof L_n);

#if MODE_CUR
  OLD = XD;
  if (cc < 0) { r = vbi_xds_demux_feed(&XD, pair); L_none = (XD.curr_sp == NULL); L_this = 0; }
  else T96
  contract_cur(cc >= 0, cc, ci, L_o, L_n, c1, c2, r, L_none, L_this, o_class, o_sub);
  goto called;
#elif MODE_HDR
  { unsigned k;
    V_ASSUME(c2 >= 0 && slot_of((unsigned) c2) < VBI_XDS_MAX_SUBCLASSES);
    XD.curr_sp = slot_ptr(cc, ci);                               /* symbolic, never dereferenced on this path */
    if (cc >= 0) { _vbi_xds_subpacket o = slot_get(cc, ci); V_ASSUME(o.count >= 2 && o.count <= 34); W_cur = 1; }
    OLD = XD;
    for (k = 0; k < 32; k++) { unsigned v = k < 0x18 ? k : 0x40 + (k - 0x18), hi = slot_of(v);
      if (c2 == (int) v) {
        _vbi_xds_subpacket o = XD.subpacket[HC][hi], n;
        V_ASSUME(sp_inv(&o));
        pair[1] = (uint8_t) ref_par8(v);                         /* constant at this call site */
        r = vbi_xds_demux_feed(&XD, pair);
        n = XD.subpacket[HC][hi];
        contract_hdr(HC, (int) hi, o, n, c1, (int) v, r, XD.curr_sp == NULL, XD.curr_sp == &XD.subpacket[HC][hi]);
        cc = HC; ci = (int) hi;                                  /* the slot concerned, for the frame */
        goto called;
      } }
  }
#else /* MODE_SYM */
  { int nc, ni;
    V_ASSUME(c2 < 0 || slot_of((unsigned) c2) >= VBI_XDS_MAX_SUBCLASSES);
    XD.curr_sp = slot_ptr(cc, ci);
    if (cc >= 0) { L_o = slot_get(cc, ci); V_ASSUME(L_o.count >= 2 && L_o.count <= 34); W_cur = 1; }
    OLD = XD;
    r = vbi_xds_demux_feed(&XD, pair);
    L_n = L_o; if (cc >= 0) L_n = slot_get(cc, ci);
    V_ASSERT(xd_cur(&XD, &nc, &ni), "step_inv_curr_consistent");
    contract_cur(cc >= 0, cc, ci, L_o, L_n, c1, c2, r, nc < 0, nc >= 0 && nc == cc && ni == ci, o_class, o_sub);
    goto called;
  }
#endif
  V_ASSERT(0, "harness_one_call_site_taken");
called:

  /* frame: no packet other than the one this pair starts, extends or ends is touched ("never corrupts another packet"),
     in particular an interrupted packet stays as it was (resumable) */
  for (c = 0; c < VBI_XDS_MAX_CLASSES; c++)
    for (i = 0; i < VBI_XDS_MAX_SUBCLASSES; i++)
      if (!(T_set && (int) c == cc && (int) i == ci)) {
        _vbi_xds_subpacket a = XD.subpacket[c][i], b = OLD.subpacket[c][i]; unsigned j; int same = 1;      /* R11: small locals; every access to a member of XD costs symex time ~ |XD| */
        V_ASSERT(a.count == b.count && a.checksum == b.checksum, "step_frame_count");
        for (j = 0; j < 32; j++) same &= (a.buffer[j] == b.buffer[j]);
        V_ASSERT(same, "step_frame_bytes");
      }
  V_ASSERT(XD.callback == cb && XD.user_data == (void *) &cb_n, "step_frame_callback");
  if (W_cur) V_REACH("cur");
  if (W_key) V_REACH("key");
  V_END();
}

/* ---- 2. INIT |= invariant ------------------------------------------ */
V_HARNESS(h_xds_init)
{
  int a, b; unsigned c, i;
  V_INIT();
  memcpy(&XD, &VINS.b[0], sizeof XD);          /* dirty memory */
  _vbi_xds_demux_init(&XD, cb, &cb_n);
  for (c = 0; c < VBI_XDS_MAX_CLASSES; c++)
    for (i = 0; i < VBI_XDS_MAX_SUBCLASSES; i++)
      V_ASSERT(sp_inv(&XD.subpacket[c][i]), "init_inv");
  V_ASSERT(xd_cur(&XD, &a, &b) && a < 0, "init_no_curr");
  V_END();
}

/* ---- 3. SEQ with a reference *sender* ------------------------------- *
 * Two packets (class/type/length from the grid) are cut into byte pairs and multiplexed by a symbolic schedule
 * with caption control pairs, caption text and null pairs, resumed by continue codes.  One optional symbolic
 * fault (parity flip of either byte of a packet pair, value change of a payload byte, wrong checksum byte).
 * Encoding rule (DESIGN R2): the FIRST byte of every pair is concrete at its call site (the demux switches on
 * it and would otherwise compute a symbolic slot pointer); second bytes, schedule and fault are symbolic. */
#ifndef FB
#define FB 0x41
#endif
#ifndef CTRL
#define CTRL 0x14
#endif
struct pk { unsigned n; uint8_t pay[34]; unsigned sent; int started, done, dirty; unsigned sum; };
static struct pk PK[2];
static unsigned last_owner;       /* 0,1 = packet owning the XDS channel, 2 = nobody */
static int hdr_hit;
static unsigned exp_n, exp_who[4];

static void emit(uint8_t a, uint8_t b) { uint8_t p[2]; p[0] = a; p[1] = b; vbi_xds_demux_feed(&XD, p); }
/* a is a compile-time constant at every call site */
#define SEND(a, b, fa, fb) do { if (fa) emit(ref_par8(a) ^ 0x80, ref_par8(b)); else if (fb) emit(ref_par8(a), ref_par8(b) ^ 0x80); else emit(ref_par8(a), ref_par8(b)); } while (0)

#define PACKET_STEP(j, CLS, TYP) do { \
    struct pk *p = &PK[j]; int fa = fault && bad_kind == 0, fb = fault && bad_kind == 1; \
    if (!p->started) { SEND(1 + 2 * (CLS), (TYP), fa, fb); p->started = 1; p->sum += 1 + 2 * (CLS) + (TYP); if (fa || fb) { p->dirty = 1; hdr_hit = 1; } } \
    else if (last_owner != (j)) { SEND(2 + 2 * (CLS), (TYP), fa, fb); if (fa || fb) { p->dirty = 1; hdr_hit = 1; } } \
    else if (p->sent < p->n) { uint8_t b = (p->sent + 1 < p->n) ? p->pay[p->sent + 1] : 0; \
      if (fault && bad_kind == 2 && b != 0) { V_ASSUME(bad_val >= 0x20 && bad_val != b); b = bad_val; p->dirty = 1; } \
      if (fa || fb) p->dirty = 1; \
      SEND(FB, b, fa, fb); p->sum += FB + ((p->sent + 1 < p->n) ? p->pay[p->sent + 1] : 0); p->sent += 2; } \
    else { uint8_t b = (uint8_t) ((128 - ((p->sum + 0x0F) & 0x7F)) & 0x7F); \
      if (fault && bad_kind == 3) { V_ASSUME(bad_val != b); b = bad_val; p->dirty = 1; } \
      if (fa || fb) p->dirty = 1; \
      SEND(0x0F, b, fa, fb); p->done = 1; \
      if (!p->dirty) { if (exp_n < 4) exp_who[exp_n] = (j); exp_n++; } } \
    last_owner = p->done ? 2 : (j); \
  } while (0)

V_HARNESS(h_xds_sender)
{
  static const unsigned cls_of[2] = { CLS1, CLS2 }, typ_of[2] = { TYP1, TYP2 };
  unsigned s, j, i; unsigned bad_slot, bad_kind; uint8_t bad_val;
  V_INIT();
  _vbi_xds_demux_init(&XD, cb, &cb_n);
  PK[0].n = N1; PK[1].n = N2; last_owner = 2; hdr_hit = 0; exp_n = 0;
  for (j = 0; j < 2; j++) {
    PK[j].sent = 0; PK[j].started = PK[j].done = PK[j].dirty = 0; PK[j].sum = 0;
    for (i = 0; i < 34; i++) PK[j].pay[i] = 0;
    for (i = 0; i < PK[j].n; i++) { uint8_t v = in_u8() & 0x7F; if (i & 1) { V_ASSUME(v >= 0x20); PK[j].pay[i] = v; } else PK[j].pay[i] = FB; }
  }
  bad_slot = in_u8(); bad_kind = in_u8() & 3; bad_val = in_u8() & 0x7F;
  for (s = 0; s < KSLOTS; s++) {
    unsigned op = in_u8() & 7; uint8_t r2 = in_u8() & 0x7F; int fault = (s == bad_slot);
    if (op == 0 && !PK[0].done) PACKET_STEP(0, CLS1, TYP1);
    else if (op == 1 && !PK[1].done) PACKET_STEP(1, CLS2, TYP2);
    else if (op == 2) { V_ASSUME(r2 >= 0x20); SEND(CTRL, r2, 0, 0); last_owner = 2; }                 /* caption control code interrupts XDS */
    else if (op == 3 && last_owner == 2) { V_ASSUME(r2 >= 0x20); SEND(0x54, r2, 0, 0); }           /* caption text, only outside XDS */
    else SEND(0, 0, 0, 0);                                                                          /* null pair */
  }
  /* oracle: deliveries == cleanly terminated packets, once each, in termination order, byte exact */
  for (i = 0; i < cb_n && i < LOGMAX; i++) {
    int m = -1;
    for (j = 0; j < 2; j++) if (cb_log[i].cls == cls_of[j] && cb_log[i].sub == typ_of[j]) m = (int) j;
    V_ASSERT(m >= 0, "sender_delivered_unknown_packet");
    V_ASSERT(PK[m].done && !PK[m].dirty, "sender_delivered_corrupt_or_incomplete");
    V_ASSERT(cb_log[i].size == PK[m].n, "sender_length");
    for (j = 0; j < 34; j++) if (j < PK[m].n) V_ASSERT(cb_log[i].buf[j] == PK[m].pay[j], "sender_bytes");
  }
  V_ASSERT(cb_n <= 2, "sender_at_most_once_each");
  if (cb_n == 2) V_ASSERT(cb_log[0].cls != cb_log[1].cls || cb_log[0].sub != cb_log[1].sub, "sender_no_duplicate");
  /* a parity error in a header pair makes the demux drop whatever packet is current (it cannot know whom the
     header named), so a clean packet may be lost then; otherwise every clean terminated packet arrives, in order */
  if (!hdr_hit) {
    V_ASSERT(cb_n == exp_n, "sender_every_clean_packet_delivered");
    for (i = 0; i < 4; i++) if (i < exp_n && i < cb_n)
      V_ASSERT(cb_log[i].cls == cls_of[exp_who[i]] && cb_log[i].sub == typ_of[exp_who[i]], "sender_order");
  }
  if (cb_n == 2) V_REACH("both");
  if (exp_n == 1 && cb_n == 1) V_REACH("one");
  V_END();
}

/* ---- 4. too long / missing start: never delivered ---------------------- */
V_HARNESS(h_xds_overlong)
{
  unsigned s; uint8_t hdr;
  V_INIT();
  _vbi_xds_demux_init(&XD, cb, &cb_n);
  /* start (or continue without start), KSLOTS content pairs (first byte FB, second arbitrary incl. NUL), terminator with any checksum */
  hdr = in_bool();
  if (hdr) SEND(1 + 2 * CLS1, TYP1, 0, 0);
  else SEND(2 + 2 * CLS1, TYP1, 0, 0);
  for (s = 0; s < KSLOTS; s++) { uint8_t b = in_u8() & 0x7F; SEND(FB, b, 0, 0); }
  { uint8_t b = in_u8() & 0x7F; SEND(0x0F, b, 0, 0); }
  if (!hdr) V_ASSERT(cb_n == 0, "missing_start_never_delivered");
  if (cb_n) { V_ASSERT(cb_log[0].size <= 32, "overlong_never_delivered"); V_REACH("delivered"); }
  V_END();
}
