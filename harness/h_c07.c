/* C07 - DVB demultiplexer: output depends only on the byte stream; damaged input is contained.
 * Real unit: src/dvb_demux.c (included, statics reachable), src/hamm.c (linked).
 * Grid parameters (-D): CAP, SS (wrap_around step); TS, CUT, CUT2, SHAPE (split equivalence);
 *                       LEN1, LEN2 (garbage); DUL, RAW (data-unit garbage).
 */
#include "verif.h"
#include "ref_codes.h"
#define ENV_LOOP_MEM 1
#include "c06_env.h"
#include "src/dvb_demux.c"

#ifndef CAP
#define CAP 16
#endif
#ifndef SS
#define SS 24
#endif
#ifndef TS
#define TS 0
#endif
#ifndef CUT
#define CUT 100
#endif
#ifndef CUT2
#define CUT2 0
#endif
#ifndef LEN1
#define LEN1 64
#endif
#ifndef LEN2
#define LEN2 0
#endif
#ifndef DUL
#define DUL 24
#endif
#ifndef RAW
#define RAW 0
#endif

/* Harness groups: big static objects cost symex time in every harness of the file (field-sensitive zero
 * initialisation), so each obligation compiles only its group (-DG_WRAP / -DG_INIT / -DG_SEQ / -DG_DU); none given = all. */
#if !defined(G_WRAP) && !defined(G_INIT) && !defined(G_SEQ) && !defined(G_DU)
#define G_WRAP
#define G_INIT
#define G_SEQ
#define G_DU
#endif

/* pointer p inside object [base, base+size]?  (*off = offset) - without comparing pointers of different objects */
static int in_obj(const uint8_t *p, const uint8_t *base, unsigned size, unsigned *off)
{
#ifdef VERIF_CBMC
  if (__CPROVER_POINTER_OBJECT(p) != __CPROVER_POINTER_OBJECT(base)) return 0;
  *off = (unsigned) (__CPROVER_POINTER_OFFSET(p) - __CPROVER_POINTER_OFFSET(base));
  return __CPROVER_POINTER_OFFSET(p) >= __CPROVER_POINTER_OFFSET(base) && *off <= size;
#else
  uintptr_t a = (uintptr_t) p, b = (uintptr_t) base;
  if (a < b || a > b + size) return 0;
  *off = (unsigned) (a - b);
  return 1;
#endif
}

/* =========================================================================================
 * 1. wrap_around() refinement (INV-STEP).
 *    Logical stream  = PREV[0..CAP) ++ SRC[0..SS)   (bytes of earlier buffers, then the current source buffer)
 *    *src = SRC + (SS - src_left), logical position pos = CAP + SS - src_left.
 *    Invariant I:  w.buffer = WB (CAP bytes), WB <= bp - leftover, bp <= WB + CAP, lookahead <= CAP,
 *                  WB bytes [bp-leftover, bp) == stream[pos-leftover, pos)      (the unconsumed tail of the stream)
 *    Step: any skip/lookahead/leftover/bp/src_left.  Claims: no access outside WB/SRC (exact-size objects);
 *      cursor conservation (pos' - leftover') + skip' == (pos - leftover) + skip;  I again;
 *      TRUE  => skip' = 0, [*dst, *scan_end + lookahead) lies in WB or in SRC, scan_end >= dst, and equals the stream
 *               at the cursor;  FALSE => *src_left = 0 (everything consumed).
 * ========================================================================================= */
#ifdef G_WRAP
static uint8_t WB[CAP], PREVB[CAP], SRCB[SS];
static uint8_t logical(unsigned i) { return i < CAP ? PREVB[i] : SRCB[(i - CAP) < SS ? (i - CAP) : 0]; }

V_HARNESS(h_wrap_step)
{
  struct wrap w; const uint8_t *dst = NULL, *scan_end = NULL, *src; unsigned src_left, sl0, i, idx, bpoff, off_d = 0, off_e = 0;
  uint64_t pos, cur, target, pos2; vbi_bool r; unsigned lookahead0;
  V_INIT();
  in_bytes(WB, CAP); in_bytes(PREVB, CAP); in_bytes(SRCB, SS);
  w.consume = 0;
  w.skip = in_u32(); w.lookahead = in_u32(); w.leftover = in_u32(); bpoff = in_u32(); src_left = in_u32(); idx = in_u16();
  V_ASSUME(w.lookahead <= CAP);
  V_ASSUME(bpoff <= CAP && w.leftover <= bpoff);
  V_ASSUME(src_left <= SS);
  w.buffer = WB; w.bp = WB + bpoff;
  pos = (uint64_t) CAP + SS - src_left;
  for (i = 0; i < CAP; i++)
    if (i < w.leftover) V_ASSUME(WB[bpoff - w.leftover + i] == logical((unsigned) (pos - w.leftover + i)));
  cur = pos - w.leftover; target = cur + w.skip; lookahead0 = w.lookahead; sl0 = src_left;
  src = SRCB + (SS - src_left);

  r = wrap_around(&w, &dst, &scan_end, &src, &src_left, SS);

  V_ASSERT(src_left <= sl0, "wa_src_left_not_growing");
  V_ASSERT(src == SRCB + (SS - src_left), "wa_src_advanced_by_consumed");
  V_ASSERT(w.buffer == WB && w.lookahead == lookahead0 && w.consume == 0, "wa_config_untouched");
  V_ASSERT(in_obj(w.bp, WB, CAP, &off_d) && w.leftover <= off_d, "wa_inv_bp_leftover_in_buffer");
  pos2 = (uint64_t) CAP + SS - src_left;
  V_ASSERT(pos2 - w.leftover + w.skip == target, "wa_cursor_conservation");
  if (in_obj(w.bp, WB, CAP, &off_d) && w.leftover <= off_d && idx < w.leftover)
    V_ASSERT(WB[off_d - w.leftover + idx] == logical((unsigned) (pos2 - w.leftover + idx)), "wa_inv_leftover_bytes_are_stream_tail");
  if (r) {
    unsigned len, in_wb, in_src;
    V_ASSERT(w.skip == 0, "wa_true_skip_done");
    in_wb = in_obj(dst, WB, CAP, &off_d) && in_obj(scan_end, WB, CAP, &off_e);
    in_src = !in_wb && in_obj(dst, SRCB, SS, &off_d) && in_obj(scan_end, SRCB, SS, &off_e);
    V_ASSERT(in_wb || in_src, "wa_true_window_in_one_object");
    if (in_wb || in_src) {
      V_ASSERT(off_e >= off_d, "wa_true_scan_end_ge_dst");
      len = off_e - off_d + lookahead0;
      V_ASSERT(off_d + len <= (in_wb ? CAP : SS), "wa_true_window_readable");
      if (off_e >= off_d && off_d + len <= (in_wb ? CAP : SS) && idx < len)
        V_ASSERT((in_wb ? WB : SRCB)[off_d + idx] == logical((unsigned) (target + idx)), "wa_true_window_equals_stream_at_cursor");
      if (in_wb) V_REACH("wrapped"); else V_REACH("in_place");
    }
  } else {
    V_ASSERT(src_left == 0, "wa_false_consumed_everything");
    V_REACH("need_more");
  }
  V_END();
}

#endif /* G_WRAP */

#ifdef G_INIT
/* INIT |= I for both wrap contexts, and the other post-constructor facts used by the SEQ harnesses below */
static vbi_dvb_demux DX0;
V_HARNESS(h_reset_init)
{
  V_INIT();
  DX0.pes_wrap.skip = in_u32(); DX0.pes_wrap.leftover = in_u32(); DX0.pes_wrap.lookahead = in_u32(); DX0.pes_wrap.consume = in_u32();
  DX0.ts_wrap.skip = in_u32(); DX0.ts_wrap.consume = in_u32(); DX0.new_frame = in_u8(); DX0.ts_in_sync = in_u8();
  DX0.ts_pes_todo = in_u32(); DX0.ts_frame_todo = in_u32(); DX0.ts_continuity = in_int(); DX0.frame.raw_offset = in_u32();
  DX0.frame.last_frame_line = in_u32(); DX0.frame.last_data_unit_id = in_u32();
  vbi_dvb_demux_reset(&DX0);
  V_ASSERT(DX0.pes_wrap.buffer == DX0.pes_buffer && DX0.pes_wrap.bp == DX0.pes_buffer && DX0.pes_wrap.leftover == 0
           && DX0.pes_wrap.skip == 0 && DX0.pes_wrap.consume == 0 && DX0.pes_wrap.lookahead == 48
           && DX0.pes_wrap.lookahead <= sizeof DX0.pes_buffer, "init_pes_wrap_invariant");
  V_ASSERT(DX0.ts_wrap.buffer == DX0.ts_buffer && DX0.ts_wrap.bp == DX0.ts_buffer && DX0.ts_wrap.skip == 0 && DX0.ts_wrap.consume == 0
           && DX0.ts_wrap.lookahead == 197 && sizeof DX0.ts_buffer >= 197, "init_ts_wrap");
  V_ASSERT(DX0.frame.sliced_begin == DX0.sliced && DX0.frame.sp == DX0.sliced && DX0.frame.sliced_end == DX0.sliced + 64
           && DX0.frame.raw == NULL && DX0.frame.rp == NULL && DX0.frame.raw_offset == 0 && DX0.frame.last_frame_line == 0
           && DX0.frame.last_data_unit_id == 0 && DX0.frame.log.mask == 0, "init_frame");
  V_ASSERT(DX0.new_frame && !DX0.ts_in_sync && DX0.ts_pes_todo == 0 && DX0.ts_frame_todo == 0 && DX0.ts_continuity == -1, "init_flags");
  V_ASSERT(sizeof DX0.pes_buffer >= 6 + 65535, "pes_buffer_holds_largest_packet");
  V_END();
}

#endif /* G_INIT */

#ifdef G_SEQ
/* =========================================================================================
 * Demux objects for the SEQ harnesses: static (zero) objects + the real vbi_dvb_demux_reset() (R7: the constructor's
 * malloc + CLEAR of 70 KB is not executed; h_reset_init shows reset() overwrites every field it reads later),
 * then R2(e): the frame's output array is re-pointed to an exact-size harness array of OUTN lines.
 * ========================================================================================= */
#ifndef OUTN
#define OUTN 8
#endif
#ifndef LOGN
#define LOGN 2
#endif
struct cblog { unsigned calls; unsigned n[LOGN]; int64_t pts[LOGN]; vbi_sliced lines[LOGN][OUTN]; };
static vbi_dvb_demux DXA, DXB;
#ifdef OUT_BYTES      /* R2(f): flat byte backing, for runs in which frame.sp becomes symbolic */
static _Alignas(8) uint8_t OUTA_MEM[OUTN * sizeof(vbi_sliced)], OUTB_MEM[OUTN * sizeof(vbi_sliced)];
#define OUTA ((vbi_sliced *) OUTA_MEM)
#define OUTB ((vbi_sliced *) OUTB_MEM)
#else
static vbi_sliced OUTA[OUTN], OUTB[OUTN];
#endif
static struct cblog LOGA, LOGB;
static int cb_ret = 1;
/* EN 301 775 4.1: a VBI PES packet carries data of one and only one video frame, so a stream of n PES packets completes at most n frames.  The SEQ harnesses set
   cb_max to their packet count; the assertion sits in the callback because a demultiplexer that keeps announcing frames without consuming input never returns
   (cbmc then only reports an unwinding assertion, for which cbmc 6.11 cannot produce a trace: `--property <loop>.unwind.N' is rejected as unknown). */
static unsigned cb_max = ~0u;

static vbi_bool log_cb(vbi_dvb_demux *dx, void *ud, const vbi_sliced *sliced, unsigned int n, int64_t pts)
{
  struct cblog *l = (struct cblog *) ud; unsigned i;
  V_ASSERT((dx == &DXA && l == &LOGA) || (dx == &DXB && l == &LOGB), "cb_args");
  V_ASSERT(sliced == dx->frame.sliced_begin, "cb_sliced_is_frame_buffer");
  V_ASSERT(n <= OUTN, "cb_lines_within_buffer");
  V_ASSERT(l->calls < cb_max, "cb_at_most_one_frame_per_pes_packet");
  if (l->calls < LOGN) {
    l->n[l->calls] = n; l->pts[l->calls] = pts;
    for (i = 0; i < OUTN; i++) if (i < n) l->lines[l->calls][i] = sliced[i];
  }
  l->calls++;
  return cb_ret;
}

/* R2(e) for the PES wrap-around buffer: the SEQ streams only contain 184 byte PES packets (lookahead <= 138), so the
 * 65552 byte pes_buffer is replaced, for the PES demultiplexer, by an exact-size array of PESCAP bytes (any access
 * beyond it is a bounds failure).  The TS demultiplexer addresses dx->pes_buffer directly: there the obligations run
 * on a scaled copy of the unit (runner patch: pes_buffer[ALIGN(6 + 65536)] -> [PESCAP]), stated per obligation. */
#ifndef PESCAP
#define PESCAP 192
#endif
static uint8_t PESA[PESCAP], PESB[PESCAP];
#ifdef SCALED_PES_BUFFER
#define PESBUF(dx) ((dx)->pes_buffer)
#define PESBUFSZ(dx) (sizeof (dx)->pes_buffer)
#else
#define PESBUF(dx) ((dx) == &DXA ? PESA : PESB)
#define PESBUFSZ(dx) PESCAP
#endif

static void setup(vbi_dvb_demux *dx, vbi_sliced *out, struct cblog *l, int ts, unsigned pid)
{
  vbi_dvb_demux_reset(dx);
#ifndef SCALED_PES_BUFFER
  if (!ts) { dx->pes_wrap.buffer = PESBUF(dx); dx->pes_wrap.bp = PESBUF(dx); }
#endif
  dx->demux_packet = ts ? demux_ts_packet : demux_pes_packet;
  dx->ts_pid = pid;
  dx->callback = log_cb; dx->user_data = l;
  dx->frame.sliced_begin = out; dx->frame.sliced_end = out + OUTN; dx->frame.sp = out;   /* R2(e) */
  l->calls = 0;
}

/* representation invariant of a demux context between calls (checked after every feed), plus FRAME conditions:
 * CBMC checks an index into a struct member only against the end of the enclosing 70 KB object, so overruns of
 * pes_buffer/ts_buffer into their neighbours are caught by canaries instead: the member `sliced[64]` (directly behind
 * ts_buffer) is never legitimately written because the frame array is re-pointed; in PES mode the same holds for
 * pes_buffer and ts_buffer (wrap buffer re-pointed).  CANARY is a universally quantified byte index (one symbolic value). */
static unsigned CANARY;
static void check_inv(const vbi_dvb_demux *dx, const vbi_sliced *out)
{
  unsigned off = 0;
  V_ASSERT(((const uint8_t *) dx->sliced)[CANARY % sizeof dx->sliced] == 0, "frame_canary_behind_ts_buffer_untouched");
  if (dx->demux_packet == demux_pes_packet) {
#ifndef SCALED_PES_BUFFER
    V_ASSERT(dx->pes_buffer[CANARY % sizeof dx->pes_buffer] == 0, "frame_unused_pes_buffer_untouched");
#endif
    V_ASSERT(dx->ts_buffer[CANARY % sizeof dx->ts_buffer] == 0, "frame_unused_ts_buffer_untouched");
  } else {
    V_ASSERT(dx->ts_pes_todo == 0 || (in_obj(dx->ts_pes_bp, dx->pes_buffer, sizeof dx->pes_buffer, &off)
                                      && off + dx->ts_pes_todo <= sizeof dx->pes_buffer), "frame_ts_payload_fits_pes_buffer");
    V_ASSERT(dx->ts_frame_todo == 0 || (in_obj(dx->ts_frame_bp, dx->pes_buffer, sizeof dx->pes_buffer, &off)
                                        && off + dx->ts_frame_todo <= sizeof dx->pes_buffer), "frame_ts_units_inside_pes_buffer");
  }
  if (dx->demux_packet == demux_pes_packet)
    V_ASSERT(dx->pes_wrap.buffer == PESBUF(dx) && in_obj(dx->pes_wrap.bp, PESBUF(dx), PESBUFSZ(dx), &off)
             && dx->pes_wrap.leftover <= off && dx->pes_wrap.lookahead >= 48, "inv_pes_wrap");
  V_ASSERT(dx->ts_wrap.buffer == dx->ts_buffer && in_obj(dx->ts_wrap.bp, dx->ts_buffer, sizeof dx->ts_buffer, &off)
           && off + dx->ts_wrap.lookahead <= sizeof dx->ts_buffer, "inv_ts_wrap");
  V_ASSERT(dx->frame.sliced_begin == out && dx->frame.sliced_end == out + OUTN
           && dx->frame.sp >= out && dx->frame.sp <= out + OUTN, "inv_frame_sp");
  V_ASSERT(dx->frame.raw == NULL && dx->frame.raw_offset == 0, "inv_no_raw");
}

static int same_line(const vbi_sliced *a, const vbi_sliced *b)
{ unsigned i; int same = a->id == b->id && a->line == b->line; for (i = 0; i < 42; i++) if (a->data[i] != b->data[i]) same = 0; return same; }

/* observable + pending state of two runs over the same byte stream must agree */
static void check_same(const vbi_dvb_demux *a, const vbi_dvb_demux *b)
{
  unsigned i, k, na, nb, offa = 0, offb = 0;
  V_ASSERT(LOGA.calls == LOGB.calls, "eq_callback_count");
  for (k = 0; k < LOGN; k++)
    if (k < LOGA.calls && k < LOGB.calls) {
      V_ASSERT(LOGA.n[k] == LOGB.n[k], "eq_frame_lines");
      V_ASSERT(LOGA.pts[k] == LOGB.pts[k], "eq_frame_pts");
      for (i = 0; i < OUTN; i++)
        if (i < LOGA.n[k] && i < LOGB.n[k])
          V_ASSERT(same_line(&LOGA.lines[k][i], &LOGB.lines[k][i]), "eq_frame_line_contents");
    }
  /* pending frame (delivered by the next frame boundary) and frame state */
  na = (unsigned) (a->frame.sp - a->frame.sliced_begin); nb = (unsigned) (b->frame.sp - b->frame.sliced_begin);
  V_ASSERT(!a->new_frame == !b->new_frame, "eq_new_frame_flag");
  if (!a->new_frame) {
    V_ASSERT(na == nb, "eq_pending_lines");
    for (i = 0; i < OUTN; i++)
      if (i < na && i < nb) V_ASSERT(same_line(&OUTA[i], &OUTB[i]), "eq_pending_line_contents");
    V_ASSERT(a->frame_pts == b->frame_pts, "eq_pending_frame_pts");
    V_ASSERT(a->frame.last_field == b->frame.last_field && a->frame.last_field_line == b->frame.last_field_line
             && a->frame.last_frame_line == b->frame.last_frame_line && a->frame.last_data_unit_id == b->frame.last_data_unit_id,
             "eq_frame_line_state");
  }
  V_ASSERT(a->packet_pts == b->packet_pts, "eq_packet_pts");
  /* resume position in the byte stream */
  V_ASSERT(a->pes_wrap.skip == b->pes_wrap.skip && a->pes_wrap.lookahead == b->pes_wrap.lookahead
           && a->pes_wrap.leftover == b->pes_wrap.leftover, "eq_pes_resume_position");
  V_ASSERT(a->ts_wrap.skip == b->ts_wrap.skip && a->ts_wrap.consume == b->ts_wrap.consume && a->ts_wrap.lookahead == b->ts_wrap.lookahead
           && a->ts_pes_todo == b->ts_pes_todo && a->ts_frame_todo == b->ts_frame_todo && !a->ts_in_sync == !b->ts_in_sync
           && a->ts_continuity == b->ts_continuity, "eq_ts_resume_position");
  if (in_obj(a->ts_wrap.bp, a->ts_buffer, sizeof a->ts_buffer, &offa) && in_obj(b->ts_wrap.bp, b->ts_buffer, sizeof b->ts_buffer, &offb))
    V_ASSERT(offa == offb, "eq_ts_header_bytes_collected");
}

/* ---- a valid stream: 2 VBI PES packets of 184 bytes (optionally in 2 TS packets of 188 bytes).
 *  Header bytes that steer the wrap-around/packet logic are concrete (start code, length, flags, header length,
 *  data_identifier 0x10, data_unit_length 0x2C); symbolic: both PTS (5 bytes each, marker bits included), payload of
 *  every data unit, and the first unit of packet 2 entirely (data_unit_id, line_offset/field_parity: continuation,
 *  new frame, illegal line, unknown unit, stuffing ... all in play).
 *  SHAPE selects the concrete part. */
#ifndef SHAPE
#define SHAPE 0
#endif
#define PKT 184
#define TSP (TS ? 188 : 184)
#define NPK 2
#define SLEN (NPK * TSP)
#define PID 0x123
static uint8_t STREAM[SLEN];

static void put_unit(uint8_t *p, unsigned id, unsigned lofp)
{ unsigned i; p[0] = (uint8_t) id; p[1] = 0x2C; p[2] = (uint8_t) lofp; if (id == 0x02 || id == 0x03) p[3] = 0xE4;
  if (id == 0xFF) for (i = 2; i < 46; i++) p[i] = 0xFF; }

/* unit tables per SHAPE: {id, lofp} x 3 units x 2 packets; id 0 = fully symbolic unit (id, lofp, framing code) */
static const uint8_t SHAPES[][2][3][2] = {
  /* 0: packet 2 starts a new frame (line 7 again): frame 1 delivered with PTS1 */
  { { {0x02, 0xE0 | 7}, {0x03, 0xE0 | 8}, {0xFF, 0xFF} }, { {0x02, 0xE0 | 7}, {0xFF, 0xFF}, {0xFF, 0xFF} } },
  /* 1: packet 2 continues the frame in the second field (line 320) */
  { { {0xC3, 0xE0 | 16}, {0xC5, 0xE0 | 21}, {0xC4, 0xE0 | 23} }, { {0x02, 0xC0 | 7}, {0x02, 0xC0 | 0}, {0xFF, 0xFF} } },
  /* 2: second field first, stuffing in the middle; packet 2 = VPS line 16 (new frame) + WSS */
  { { {0x02, 0xC0 | 7}, {0xFF, 0xFF}, {0x02, 0xC0 | 22} }, { {0xC3, 0xE0 | 16}, {0xC4, 0xE0 | 23}, {0xFF, 0xFF} } },
  /* 3: packet 2 begins with an illegal line (Teletext line_offset 3): error, frame discarded */
  { { {0x02, 0xE0 | 7}, {0x02, 0xE0 | 8}, {0x02, 0xE0 | 9} }, { {0x02, 0xE0 | 3}, {0x02, 0xE0 | 10}, {0xFF, 0xFF} } },
  /* 4: unknown and libzvbi-private units, duplicate line in packet 2 (error after one good unit) */
  { { {0x80, 0x00}, {0xB5, 0xE0 | 21}, {0xC1, 0xFF} }, { {0xB5, 0xC0 | 21}, {0xB5, 0xC0 | 21}, {0xFF, 0xFF} } },
  /* 5: first unit of packet 2 fully symbolic (thorough; output array byte-backed, see OUT_BYTES) */
  { { {0x02, 0xE0 | 7}, {0x03, 0xE0 | 8}, {0xFF, 0xFF} }, { {0x00, 0x00}, {0xFF, 0xFF}, {0xFF, 0xFF} } },
  /* 6: Teletext units with line_offset 0 (undefined line, EN 300 472 4.5.2), second field in a PES packet of its own: the field toggle at the start of
        packet 2 starts a new frame (frame 1 delivered with PTS1), both units of packet 2 are stored with line 0 */
  { { {0x02, 0xE0 | 0}, {0x02, 0xE0 | 0}, {0xFF, 0xFF} }, { {0x02, 0xC0 | 0}, {0x02, 0xC0 | 0}, {0xFF, 0xFF} } },
  /* 7: as 6 after defined lines in the first field */
  { { {0x02, 0xE0 | 7}, {0x02, 0xE0 | 8}, {0xFF, 0xFF} }, { {0x02, 0xC0 | 0}, {0xFF, 0xFF}, {0x02, 0xC0 | 0} } },
};
#define P1LINES (SHAPE == 1 || SHAPE == 3 ? 3u : SHAPE == 4 ? 1u : 2u)

static void build_stream(void)
{
  unsigned k, i, j;
  for (k = 0; k < NPK; k++) {
    uint8_t *t = STREAM + k * TSP, *p = t + (TS ? 4 : 0), *u;
    if (TS) { t[0] = 0x47; t[1] = 0x40 | (PID >> 8); t[2] = PID & 0xFF; t[3] = 0x10 | ((5 + k) & 15); }
    in_bytes(p + 46, 138);                                  /* symbolic payload everywhere first */
    p[0] = 0; p[1] = 0; p[2] = 1; p[3] = 0xBD; p[4] = 0; p[5] = 178; p[6] = 0x84; p[7] = 0x80; p[8] = 0x24;
    in_bytes(p + 9, 5);                                     /* PTS, fully symbolic bytes */
    for (i = 14; i < 45; i++) p[i] = 0xFF;
    p[45] = 0x10;
    u = p + 46;
    for (j = 0; j < 3; j++) {
      if (SHAPES[SHAPE][k][j][0] == 0) u[j * 46 + 1] = 0x2C;
      else put_unit(u + j * 46, SHAPES[SHAPE][k][j][0], SHAPES[SHAPE][k][j][1]);
    }
  }
}

/* 2. whole feed vs. feeds cut at CUT (and CUT2): identical callbacks, pending frame and resume state */
V_HARNESS(h_split_equiv)
{
  V_INIT();
  cb_max = NPK;
  build_stream(); CANARY = in_u16();
  setup(&DXA, OUTA, &LOGA, TS, PID); setup(&DXB, OUTB, &LOGB, TS, PID);
  V_ASSERT(vbi_dvb_demux_feed(&DXA, STREAM, SLEN), "whole_feed_ok");
  check_inv(&DXA, OUTA);
  V_ASSERT(vbi_dvb_demux_feed(&DXB, STREAM, CUT), "split_feed1_ok");
  check_inv(&DXB, OUTB);
#if CUT2 > CUT
  V_ASSERT(vbi_dvb_demux_feed(&DXB, STREAM + CUT, CUT2 - CUT), "split_feed2_ok");
  check_inv(&DXB, OUTB);
  V_ASSERT(vbi_dvb_demux_feed(&DXB, STREAM + CUT2, SLEN - CUT2), "split_feed3_ok");
#else
  V_ASSERT(vbi_dvb_demux_feed(&DXB, STREAM + CUT, SLEN - CUT), "split_feed2_ok");
#endif
  check_inv(&DXB, OUTB);
  check_same(&DXA, &DXB);
  if (LOGA.calls == 1) {
    V_REACH("frame_delivered");
    V_ASSERT(LOGA.n[0] == P1LINES, "delivered_frame_is_packet1");
  }
  if (LOGA.calls == 0 && !DXA.new_frame && DXA.frame.sp - DXA.frame.sliced_begin > (long) P1LINES) V_REACH("frame_continued");
  if (DXA.new_frame) V_REACH("frame_discarded");
  V_END();
}

/* 2b. single-byte feeding of the same stream equals the whole feed */
V_HARNESS(h_bytewise_equiv)
{
  unsigned i;
  V_INIT();
  cb_max = NPK;
  build_stream(); CANARY = in_u16();
  setup(&DXA, OUTA, &LOGA, TS, PID); setup(&DXB, OUTB, &LOGB, TS, PID);
  V_ASSERT(vbi_dvb_demux_feed(&DXA, STREAM, SLEN), "whole_feed_ok");
  for (i = 0; i < SLEN; i++) V_ASSERT(vbi_dvb_demux_feed(&DXB, STREAM + i, 1), "byte_feed_ok");
  check_inv(&DXB, OUTB);
  check_same(&DXA, &DXB);
  V_END();
}

/* 2c. coroutine interface (callback NULL) delivers what the callback interface delivers */
/* COR_MAX: size of the CALLER's array handed to vbi_dvb_demux_cor (an exact-size object: a copy of more than max_lines records is a bounds
   failure).  Default: as big as the frame array.  Smaller than the frame: the documented result is the first COR_MAX lines of the frame. */
#ifndef COR_MAX
#define COR_MAX OUTN
#endif
V_HARNESS(h_cor_equiv)
{
  static vbi_sliced got[COR_MAX]; const uint8_t *bp; unsigned left, n, i, calls = 0, it; int64_t pts = 0;
  V_INIT();
  cb_max = NPK;
  build_stream(); CANARY = in_u16();
  setup(&DXA, OUTA, &LOGA, TS, PID); setup(&DXB, OUTB, &LOGB, TS, PID);
  DXB.callback = NULL;
  V_ASSERT(vbi_dvb_demux_feed(&DXA, STREAM, SLEN), "whole_feed_ok");
  bp = STREAM; left = SLEN;
  for (it = 0; it < 3 && left > 0; it++) {
    n = vbi_dvb_demux_cor(&DXB, got, COR_MAX, &pts, &bp, &left);
    if (n > 0) {
      V_ASSERT(calls < LOGA.calls, "cor_no_extra_frame");
      V_ASSERT(n <= COR_MAX, "cor_at_most_max_lines");
      if (calls < LOGA.calls && calls < LOGN) {
        V_ASSERT(n == (LOGA.n[calls] < COR_MAX ? LOGA.n[calls] : COR_MAX) && pts == LOGA.pts[calls], "cor_same_frame_header");
        for (i = 0; i < COR_MAX; i++) if (i < n) V_ASSERT(same_line(&got[i], &LOGA.lines[calls][i]), "cor_same_lines");
        if (LOGA.n[calls] > COR_MAX) V_REACH("truncated");
      }
      calls++;
    }
  }
  V_ASSERT(left == 0 && bp == STREAM + SLEN, "cor_consumed_stream");
  /* an empty frame (0 lines) is indistinguishable from "need more data" in this interface: only non-empty frames counted */
  { unsigned k, nonempty = 0; for (k = 0; k < LOGN; k++) if (k < LOGA.calls && LOGA.n[k] > 0) nonempty++;
    V_ASSERT(calls == nonempty, "cor_same_number_of_frames"); }
  V_END();
}

/* =========================================================================================
 * 3. garbage: LEN1 (+ LEN2) fully symbolic bytes from reset; callback result symbolic.
 *    Claims: every CBMC safety property in dvb_demux.c (bounds of the exact-size source buffers, of pes_buffer/ts_buffer,
 *    of the output array, pointer arithmetic, overflow, shift), termination within the unwind bounds, representation
 *    invariant after every call, feed() == TRUE unless the callback refused.
 * ========================================================================================= */
static uint8_t G1[LEN1 > 0 ? LEN1 : 1], G2[LEN2 > 0 ? LEN2 : 1];
V_HARNESS(h_garbage)
{
  vbi_bool ok; unsigned pid;
  V_INIT();
  in_bytes(G1, LEN1 > 0 ? LEN1 : 1); in_bytes(G2, LEN2 > 0 ? LEN2 : 1);
  cb_ret = in_bool(); pid = 0x10 + (in_u16() % 0x1FEF); CANARY = in_u16();
  setup(&DXA, OUTA, &LOGA, TS, pid);
  ok = vbi_dvb_demux_feed(&DXA, G1, LEN1);
  V_ASSERT(ok || (!cb_ret && LOGA.calls > 0), "garbage_feed_true_unless_callback_refused");
  check_inv(&DXA, OUTA);
#if LEN2 > 0
  ok = vbi_dvb_demux_feed(&DXA, G2, LEN2);
  V_ASSERT(ok || (!cb_ret && LOGA.calls > 0), "garbage_feed2_true_unless_callback_refused");
  check_inv(&DXA, OUTA);
#endif
  V_END();
}

#endif /* G_SEQ (part 1) */

#ifdef G_DU
/* 3b. extract_data_units on a fully symbolic payload of DUL bytes (exact-size object) and a symbolic frame state.
 *     RAW=0: the only configuration the public API can reach (frame.raw == NULL, "Raw data ignored for now").
 *     RAW=1: latent configuration frame.raw != NULL (2 lines of 720 samples) - see KNOWN_MONO_P5_OVERREAD. */
#ifdef KNOWN_MONO_P5_OVERREAD
#define DUPAD 3          /* tolerate the 3 byte over-read of p[5]; anything beyond is still a bounds failure */
#else
#define DUPAD 0
#endif
#define DUOUTN 3
static uint8_t DU[DUL + DUPAD];
static uint8_t RAWBUF[RAW ? 2 * 720 : 1];
static _Alignas(8) uint8_t DUOUT_MEM[DUOUTN * sizeof(vbi_sliced)];      /* R2(f): flat byte backing, frame.sp is symbolic */
/* INV-STEP over the data-unit loop: one iteration from ANY frame state (sp anywhere in [begin,end], any last line /
 * field / unit id / extracted count).  The payload is DUL bytes whose first unit reaches to within 2 bytes of the end
 * (assumed), so that the loop body runs exactly once; by induction over the (trivial) state invariant asserted at the
 * end - sp inside the output array - this covers payloads of any number of units of these sizes. */
V_HARNESS(h_data_units)
{
  static struct frame f; vbi_sliced *out = (vbi_sliced *) DUOUT_MEM;
  const uint8_t *src = DU; unsigned left = DUL, spi, rpi, off = 0; int err;
  V_INIT();
  in_bytes(DU, DUL);
  in_bytes(DUOUT_MEM, sizeof DUOUT_MEM);
  spi = in_u8(); rpi = in_u8();
  f.last_field = in_u8() & 1; f.last_field_line = in_u8() & 31; f.last_frame_line = in_u16();
  f.last_data_unit_id = in_u8(); f.n_data_units_extracted_from_packet = in_u8();
  V_ASSUME(spi <= DUOUTN);
  if (DUL >= 5 && DU[1] + 4u < DUL) DU[1] = (uint8_t) (DUL - 4 + (DU[1] & 3));   /* single iteration: every length >= DUL-4 stays possible */
  f.sliced_begin = out; f.sliced_end = out + DUOUTN; f.sp = out + spi;
#if RAW
  f.raw = RAWBUF; f.raw_start[0] = 7; f.raw_start[1] = 320; f.raw_count[0] = 1; f.raw_count[1] = 1;
  f.raw_offset = in_u16();
  V_ASSUME(rpi <= 1); f.rp = RAWBUF + rpi * 720;
  V_ASSUME(f.raw_offset < 720);
  V_ASSUME(f.raw_offset == 0 || spi > 0);         /* a started raw line owns the last sliced slot */
#else
  (void) rpi;
#endif
  err = extract_data_units(&f, &src, &left);
  V_ASSERT(f.sp >= out && f.sp <= out + DUOUTN, "du_sp_in_output_array");
  V_ASSERT(in_obj(src, DU, DUL, &off), "du_src_in_payload");
  if (err == 0) { V_ASSERT(left == 0, "du_success_consumed_all"); V_REACH("ok"); }
  else { V_ASSERT(off + left == DUL, "du_error_points_at_offending_unit"); V_REACH("error"); }
  V_ASSERT(err == 0 || err == -1 || (err >= 0x7080600 && err <= 0x7080a00), "du_error_code_range");
  if (err == 0 && (unsigned) (f.sp - out) == spi + 1) V_REACH("line_stored");
  V_END();
}

#endif /* G_DU */

#ifdef G_SEQ
/* =========================================================================================
 * 4. recovery: damaged packet D (kind DKIND on the grid, payload and PTS symbolic), then three intact packets A, B, C
 *    (one Teletext line 7 each, symbolic payload and PTS: every packet starts a new frame).  Whatever D carries: frame B
 *    is delivered exactly as sent with B's PTS (frame A may be lost or merged with the damage: "all but at most the first
 *    frame"), C is pending with its PTS, D's PTS never labels B.
 *    DKIND: 0 PES flags byte wrong, 1 data_identifier reserved, 2 PES_header_data_length 0x23, 3 first unit on an illegal
 *    line, 4 first unit's length crosses the packet, 5 foreign stream id, 6 no PTS at a frame start, 7 second unit
 *    duplicates the line of the first, 8 D intact but one line number higher than A (A must not be merged into it).
 * ========================================================================================= */
#ifndef DKIND
#define DKIND 0
#endif
#define RLEN (4 * TSP)
static uint8_t RS[RLEN];
static void good_packet(uint8_t *t, unsigned cc, const uint8_t *pay, const uint8_t *ptsb, unsigned lofp)
{
  uint8_t *p = t + (TS ? 4 : 0); unsigned i;
  if (TS) { t[0] = 0x47; t[1] = 0x40 | (PID >> 8); t[2] = PID & 0xFF; t[3] = 0x10 | (cc & 15); }
  p[0] = 0; p[1] = 0; p[2] = 1; p[3] = 0xBD; p[4] = 0; p[5] = 178; p[6] = 0x84; p[7] = 0x80; p[8] = 0x24;
  for (i = 0; i < 5; i++) p[9 + i] = ptsb[i];
  for (i = 14; i < 45; i++) p[i] = 0xFF;
  p[45] = 0x10;
  put_unit(p + 46, 0x02, lofp);
  for (i = 0; i < 42; i++) p[46 + 4 + i] = pay[i];
  put_unit(p + 92, 0xFF, 0xFF); put_unit(p + 138, 0xFF, 0xFF);
}
static int64_t pts_of(const uint8_t *b)
{ return ((int64_t) (b[0] & 0x0E) << 29) | ((int64_t) b[1] << 22) | ((int64_t) (b[2] & 0xFE) << 14) | ((int64_t) b[3] << 7) | (b[4] >> 1); }

V_HARNESS(h_recovery)
{
  static uint8_t pay[4][42], ptsb[4][5]; unsigned i, k, found = 0; uint8_t *d;
  V_INIT();
  in_bytes(pay, sizeof pay); in_bytes(ptsb, sizeof ptsb); CANARY = in_u16();
  cb_max = 4;
  good_packet(RS, 1, pay[3], ptsb[3], 0xE0 | (DKIND == 8 ? 8 : 7));
  d = RS + (TS ? 4 : 0);
  switch (DKIND) {
  case 0: d[6] = 0x04; break;
  case 1: d[45] = 0x20; break;
  case 2: d[8] = 0x23; break;
  case 3: d[46 + 2] = 0xE0 | 3; break;
  case 4: d[46 + 1] = 0xFF; break;
  case 5: d[3] = 0xBE; break;
  case 6: d[7] = 0x00; break;
  case 7: put_unit(d + 92, 0x02, 0xE0 | 7); break;
  default: break;
  }
  for (k = 0; k < 3; k++) good_packet(RS + (k + 1) * TSP, 2 + k, pay[k], ptsb[k], 0xE0 | 7);
#if TS && defined(TSJUMP)
  /* TS damage: transport packets of the PID were lost (or the counter otherwise jumps) between D (counter 1) and A: A, B, C carry the continuity counters
     cA, cA+1, cA+2, cA = TSJUMP on the runner grid (2: nothing lost; 1: A looks like a repetition of D; a symbolic cA forks every packet three ways:
     no verdict in 600 s).  A is the first frame after the damage and may be lost; B and C are intact packets with consecutive counters and must come through. */
  { const unsigned cA = (TSJUMP) & 15; for (k = 0; k < 3; k++) RS[(k + 1) * TSP + 3] = (uint8_t) (0x10 | ((cA + k) & 15)); }
#endif
  setup(&DXA, OUTA, &LOGA, TS, PID);
  V_ASSERT(vbi_dvb_demux_feed(&DXA, RS, RLEN), "recovery_feed_ok");
  check_inv(&DXA, OUTA);
  V_ASSERT(LOGA.calls >= 1 && LOGA.calls <= 3, "recovery_frames_delivered");
  /* the last delivered frame is B, exactly; the one before (if any) is A or damage, never labelled with B's PTS unless equal */
  k = LOGA.calls - 1;
  if (LOGA.calls >= 1 && LOGA.calls <= LOGN) {
    V_ASSERT(LOGA.n[k] == 1 && LOGA.lines[k][0].line == 7 && LOGA.lines[k][0].id == VBI_SLICED_TELETEXT_B, "recovery_B_line");
    V_ASSERT(LOGA.pts[k] == pts_of(ptsb[1]), "recovery_B_pts");
    found = 1;
    for (i = 0; i < 42; i++) if (LOGA.lines[k][0].data[i] != ref_rev8(pay[1][i])) found = 0;
    V_ASSERT(found, "recovery_B_payload_exact");
  }
  V_ASSERT(!DXA.new_frame && DXA.frame.sp == OUTA + 1 && DXA.frame_pts == pts_of(ptsb[2]) && OUTA[0].line == 7, "recovery_frame_C_pending");
  for (i = 0; i < 42; i++) V_ASSERT(OUTA[0].data[i] == ref_rev8(pay[2][i]), "recovery_frame_C_payload");
  V_END();
}
#endif /* G_SEQ (part 2) */
