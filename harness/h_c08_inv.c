/* C08 (and the caption part of C01) - INV-STEP: one command from an ARBITRARY channel state.
 *
 * Everything of h_c08.c is reused (state construction, step literals, invariant / frame / canary checks).
 * State: channel IDX (grid: caption CH or its text sibling), mode, hidden page, roll-up depth, window top and cursor ROW on the
 * grid (they select pointers and memmove lengths: must be literals; a 15-way split of the row inside one query was
 * measured at 65 M clauses / 23 GB); symbolic: column and word start (1 <= col1 <= col <= 33), pen attributes,
 * null counter, the field-1 repetition memory and ALL 2 x 510 cells of both pages.
 * One pair of class ICLS: first byte / control code literal, the second byte of text pairs symbolic.
 * Asserted: the representation invariant again (incl. line == pg[hidden].text + row * 34), page header / trailer
 * members and the 34 cells behind row 15 untouched, mutex released, events sent without the mutex, plus all CBMC
 * checks of the library code.  No reference model here: what the step does to the display is the SEQ obligations' job. */
#include "h_c08.c"

#ifndef IMODE
#define IMODE MODE_POP_ON
#endif
#ifndef IHID
#define IHID 0
#endif
#ifndef IROLL
#define IROLL 3
#endif
#ifndef IROW1
#define IROW1 12
#endif
#ifndef IB1
#define IB1 ODD(0x41)         /* first byte (literal, with parity bit) */
#endif
#ifndef IB2
#define IB2 -1                /* second byte literal, or -1: symbolic */
#endif
#define IDX ((IMODE == MODE_TEXT) ? (CH & 3) + 4 : (CH & 3))

#ifndef IROW
#define IROW 14
#endif

V_HARNESS(h_cc_inv)
{
  cc_channel *ch = &VBI.cc.channel[IDX];
  int col, col1, nul; uint8_t b2; vbi_char attr;
  V_INIT();
  cc_prologue();
  ch->mode = IMODE; ch->hidden = IHID; ch->roll = IROLL; ch->row1 = IROW1;
  ch->row = IROW; ch->line = ch->pg[IHID].text + IROW * COLUMNS;
  VBI.cc.curr_chan = IDX;
  in_bytes(ch->pg[0].text, ROWS * COLUMNS * sizeof(vbi_char));
  in_bytes(ch->pg[1].text, ROWS * COLUMNS * sizeof(vbi_char));
  in_bytes(&attr, sizeof attr); ch->attr = attr;
  col = in_u8(); col1 = in_u8(); nul = in_u16();
#ifdef ICOL                  /* column literal: needed for Delete To End Of Row (its loop starts at the column) */
  col = ICOL;
#endif
  V_ASSUME(col1 >= 1 && col1 <= col && col <= COLUMNS - 1);
  ch->col = col; ch->col1 = col1; ch->nul_ct = nul;
  VBI.cc.last[0] = in_u8(); VBI.cc.last[1] = in_u8();
  b2 = in_u8();
  if (IB2 >= 0) b2 = (uint8_t) IB2;
  lib_feed(IB1, b2);
  V_ASSERT(!c08_mutex_held(&VBI.cc.mutex), "mutex_released");
  check_channel(CH & 3);
  check_channel((CH & 3) + 4);
  check_canary(IDX);
  V_ASSERT(VBI.cc.curr_chan == (CH & 3) || VBI.cc.curr_chan == (CH & 3) + 4, "inv_curr_chan");
  V_END();
}
