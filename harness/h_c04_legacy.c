/* (1) h_legacy_sample: unit obligation on sample() - LISTED (C04 legacy_sample_interpolation).
 * (2) h_legacy_format_invariance: relational obligation below - NOT LISTED: no verdict in 300 s (cadical) at 24 and at 40 samples per line
 *     (equivalence of the two threshold-adaptation multiplier chains); kept as a starting point.
 * C04 - "any of the supported pixel formats ... old and new bit slicer interfaces alike ... exactly the transmitted payload bits":
 * PIXEL FORMAT INVARIANCE of the legacy bit slicer (vbi_bit_slicer_init / vbi_bit_slice, src/decoder.c, public in libzvbi.h).
 * Relational oracle, no model: one line of ARBITRARY luma samples Y[0..SPL) is sliced twice by the real code,
 *   (a) as plain 8 bit samples (VBI_PIXFMT_YUV420), and
 *   (b) packed into pixel format FMT (BPS bytes per pixel, luma/green in byte GOFF of each pixel, every other byte of the
 *       line - chroma, red, blue, alpha - arbitrary),
 * with the same service parameters, arbitrary CRI/FRC words and mask: same verdict and, on success, the same payload.
 * A slicer that looks at any byte but the luma/green byte of a pixel (or at the wrong pixel) differs for some content.
 * Together with the waveform round trip of the vbi3 slicer on 8 bit samples (h_wave) this carries "exactly the transmitted
 * bits" over to every 8-bit-per-component format of the old interface.
 * (The 15/16 bit RGB formats quantise green and are not covered by this relation.)
 * Real unit: src/decoder.c (included). */
#include "verif.h"
#include "src/decoder.c"

#ifndef FMT
#define FMT VBI_PIXFMT_YUYV
#endif
#ifndef BPS
#define BPS 2
#endif
#ifndef GOFF
#define GOFF 0
#endif
#ifndef RATE
#define RATE 2500
#endif
#ifndef SPL
#define SPL 40
#endif
#ifndef CRI_RATE
#define CRI_RATE 1000
#endif
#ifndef PAY_RATE
#define PAY_RATE 1000
#endif
#ifndef CRI_BITS
#define CRI_BITS 4
#endif
#ifndef FRC_BITS
#define FRC_BITS 2
#endif
#ifndef PAY_BITS
#define PAY_BITS 8
#endif
#ifndef MOD
#define MOD VBI_MODULATION_NRZ_LSB
#endif

#define OUT_BYTES ((PAY_BITS + 7) / 8)
static _Alignas(8) uint8_t Y8[SPL];             /* (a) the luma samples */
static _Alignas(8) uint8_t PK[SPL * BPS];       /* (b) the packed line */
static uint8_t OUTA[OUT_BYTES], OUTB[OUT_BYTES];
static vbi_bit_slicer LA, LB;

V_HARNESS(h_legacy_format_invariance)
{
  unsigned cri_frc, cri_mask, i;
  vbi_bool ra, rb;
  V_INIT();
  in_bytes(Y8, SPL);
  in_bytes(PK, SPL * BPS);
  cri_frc = in_u32(); cri_mask = in_u32();
  for (i = 0; i < SPL; i++) PK[i * BPS + GOFF] = Y8[i];
  for (i = 0; i < OUT_BYTES; i++) OUTA[i] = OUTB[i] = 0;
  memset(&LA, 0, sizeof LA); memset(&LB, 0, sizeof LB);
  vbi_bit_slicer_init(&LA, SPL, RATE, CRI_RATE, PAY_RATE, cri_frc, cri_mask, CRI_BITS, FRC_BITS, PAY_BITS, MOD, VBI_PIXFMT_YUV420);
  vbi_bit_slicer_init(&LB, SPL, RATE, CRI_RATE, PAY_RATE, cri_frc, cri_mask, CRI_BITS, FRC_BITS, PAY_BITS, MOD, FMT);
  V_ASSERT(LA.cri_bytes > 0 && LB.cri_bytes == LA.cri_bytes, "same_search_window");
  ra = vbi_bit_slice(&LA, Y8, OUTA);
  rb = vbi_bit_slice(&LB, PK, OUTB);
  V_ASSERT(!ra == !rb, "same_verdict_in_every_pixel_format");
  if (ra && rb) {
    for (i = 0; i < OUT_BYTES; i++) {
      unsigned m = (i == OUT_BYTES - 1 && (PAY_BITS & 7)) ? (1u << (PAY_BITS & 7)) - 1 : 255u;   /* doc: msbs of the last byte undefined */
      V_ASSERT((OUTA[i] & m) == (OUTB[i] & m), "same_payload_in_every_pixel_format");
    }
    V_REACH("sliced");
  }
  if (!ra) V_REACH("no_signal");
  V_END();
}

/* sample(): the FRC/payload sampling helper of the legacy slicer, 8 bit formats (bpp = bytes per pixel 1..4; the caller has
 * skipped to the luma/green byte of pixel 0).  Independent reading of the documented behaviour ("translates from the image format
 * to plain bytes, with linear interpolation of samples"): at position offs (24.8 fixed point, in pixels) the value is
 * Y[i] * 256 + (Y[i+1] - Y[i]) * frac with i = offs >> 8, frac = offs & 255, Y[k] = the luma/green byte of pixel k - whatever the
 * other bytes of the pixels hold. */
#define NPIX 6
V_HARNESS(h_legacy_sample)
{
  static uint8_t px[NPIX * BPS]; unsigned offs, i, k, frac; int y0 = 0, y1 = 0; unsigned got;
  V_INIT();
  in_bytes(px, sizeof px); offs = in_u16();
  V_ASSUME(offs < (NPIX - 1) * 256);
  i = offs >> 8; frac = offs & 255;
  for (k = 0; k + 1 < NPIX; k++) if (k == i) { y0 = px[k * BPS]; y1 = px[(k + 1) * BPS]; }
  got = sample(px, (int) offs, BPS, 0);
  V_ASSERT(got == (unsigned) ((y1 - y0) * (int) frac + (y0 << 8)), "sample_interpolates_luma_of_neighbouring_pixels");
  V_END();
}
