/* C13 - announcements (network id, programme id, local time, aspect ratio) are faithful and debounced.
 * Real units: src/packet.c (vbi_decode_vps, parse_8_30, parse_bsd, station_lookup), src/wss.c,
 * src/vps.c + src/packet-830.c + src/hamm.c linked (the codecs themselves are C12's subject).
 * Environment: vbi_send_event logs a snapshot of every event; vbi_chsw_reset (= cache of the old
 * station dropped) logs its calls; station table = 3 entries of the real struct type. */
#include "verif.h"
#include "ref_codes.h"

/* Cuts (DESIGN R2): struct caption AND struct teletext are carved out of vbi_decoder through their include guards (the announcement
 * code touches neither; byte-wise libc access - memcmp, strlcpy, CLEAR - into a member of the 220 KB decoder made symex crawl).
 * "src/packet.c" resolves to a scratch copy holding ONLY unham_page_link, station_lookup, unknown_cni, vbi_decode_vps, parse_bsd and
 * parse_8_30, extracted textually from the current /repo/src/packet.c on every run (vlib/extract.py via Ob(patch=...)). */
#define CC_H
#define TELETEXT_H
#include <pthread.h>
#ifdef C13_LT_MODEL
/* Assume-guarantee with C12 (obligations p8301_*: the codec inverts the EN 300 706 9.8.1 encoding over the full MJD/UTC/LTO ranges): inside this
   translation unit the local time codec is a model returning arbitrary logged results, so that the 64 bit MJD arithmetic stays out of the debounce
   query (with the real codec: no verdict in 900 s).  The obligation then shows that the event carries exactly what the codec returned for exactly
   this packet, and that a codec failure suppresses the event. */
#define vbi_decode_teletext_8301_local_time c13_codec_8301_lt
#endif
#include "src/bcd.h"
#include "src/format.h"
#include "src/cache-priv.h"
#ifndef VBI_DECODER
#define VBI_DECODER
typedef struct vbi_decoder vbi_decoder;
#endif
typedef enum { VBI_WST_LEVEL_1, VBI_WST_LEVEL_1p5, VBI_WST_LEVEL_2p5, VBI_WST_LEVEL_3p5 } vbi_wst_level;
struct caption { int carved_out; };
#ifdef C13_REAL_CHSW
struct teletext { struct ttx_page_link header_page; };   /* the one member vbi_chsw_reset names */
#else
struct teletext { int carved_out; };
#endif

#include "src/tables.h"
/* defined BEFORE packet.c is parsed: with only the incomplete declaration `extern ... vbi_cni_table[]' in scope cbmc 6.11 checks
   p->name in station_lookup against an object of unknown size and reports spurious bounds failures (DESIGN R16) */
const struct vbi_cni_entry vbi_cni_table[4] = {
  { 1, "DE", "ARD",  0x4901, 0x3D41, 0x3341, 0x0DC1 },
  { 2, "DE", "ZDF",  0x4902, 0x3D42, 0x3342, 0x0DC2 },
  { 3, "AT", "ORF1", 0x4301, 0x2AC1, 0x3AC1, 0x0AC1 },
  { 0, 0, 0, 0, 0, 0, 0 }
};
#include "src/packet.c"
#include "src/wss.c"

static void c13_event(vbi_decoder *vbi, vbi_event *ev);
static unsigned chsw_n; static unsigned chsw_nuid;
void vbi_send_event(vbi_decoder *vbi, vbi_event *ev) { c13_event(vbi, ev); }
#ifndef C13_REAL_CHSW
void vbi_chsw_reset(vbi_decoder *vbi, vbi_nuid nuid) { (void) vbi; chsw_n++; chsw_nuid = nuid; }
#else
/* the REAL vbi_chsw_reset + vbi_reset_prog_info, extracted textually from the current /repo/src/vbi.c (Ob(patch=...)); what it calls outside the
   announcement state is modelled: the cache hand-over (C10's subject) = call log + a fresh static network, subsystem resets = call counters */
static cache_network CN13_NEW; static unsigned c13_n_unref, c13_n_addnet, c13_n_ttx, c13_n_cc, c13_n_trig;
void cache_network_unref(cache_network *cn) { (void) cn; c13_n_unref++; }
cache_network *_vbi_cache_add_network(vbi_cache *ca, const vbi_network *nk, vbi_videostd_set s) { (void) ca; (void) nk; (void) s; c13_n_addnet++; return &CN13_NEW; }
void vbi_teletext_channel_switched(vbi_decoder *vbi) { (void) vbi; c13_n_ttx++; }
void vbi_caption_channel_switched(vbi_decoder *vbi) { (void) vbi; c13_n_cc++; }
void vbi_trigger_flush(vbi_decoder *vbi) { (void) vbi; c13_n_trig++; }
#ifdef VERIF_CBMC
int pthread_mutex_lock(pthread_mutex_t *m) { (void) m; return 0; }
int pthread_mutex_unlock(pthread_mutex_t *m) { (void) m; return 0; }
#endif
#include <assert.h>
#include "src/vbi.c"
#endif
size_t _vbi_strlcpy(char *dst, const char *src, size_t size) { size_t i = 0; if (size) { for (; i + 1 < size && src[i]; i++) dst[i] = src[i]; dst[i] = 0; } return i; }
/* externs the packet.c head declares/uses but the extracted functions never call */
struct vbi_font_descr vbi_font_descriptors[88];
static int bytes_eq(const void *a, const void *b, size_t n)
{ const uint8_t *p = a, *q = b; size_t i; int ok = 1; for (i = 0; i < n; i++) ok &= (p[i] == q[i]); return ok; }
/* EN 300 706 9.6.1 page link (for the initial page field of packet 8/30) */
static void ref_encode_link(uint8_t *raw, unsigned mag_cur, unsigned mag_link, unsigned page, unsigned subno)
{
  unsigned rel = (mag_link & 7) ^ mag_cur;
  unsigned s1 = subno & 15, s2 = (subno >> 4) & 7, s3 = (subno >> 8) & 15, s4 = (subno >> 12) & 3;
  raw[0] = ref_ham8(page & 15); raw[1] = ref_ham8(page >> 4);
  raw[2] = ref_ham8(s1); raw[3] = ref_ham8(s2 | ((rel & 1) << 3));
  raw[4] = ref_ham8(s3); raw[5] = ref_ham8(s4 | (((rel >> 1) & 1) << 2) | (((rel >> 2) & 1) << 3));
}
static vbi_decoder VBI;
static cache_network CN13;

/* independent table scan */
static unsigned ref_station(int which /*1=8301 2=8302 4=VPS*/, unsigned cni)
{
  unsigned i;
  if (!cni) return 0;
  for (i = 0; i < 3; i++) {
    if (which == 1 && vbi_cni_table[i].cni1 == cni) return (unsigned) vbi_cni_table[i].id;
    if (which == 2 && vbi_cni_table[i].cni2 == cni) return (unsigned) vbi_cni_table[i].id;
  }
  if (which == 2) { cni &= 0x0FFF; which = 4; }
  for (i = 0; i < 3; i++) if (which == 4 && vbi_cni_table[i].cni4 == cni) return (unsigned) vbi_cni_table[i].id;
  return 0;
}

#ifndef EVMAX
#define EVMAX 8
#endif
static struct evrec { int type; unsigned cni_vps, cni_8301, cni_8302, nuid;
                      struct { int channel, cni_type; unsigned cni, pil; int luf, mi, prf, pcs_audio; unsigned pty; int tape_delayed; } pid;   /* scalars only: see c13_event */
                      long long lt; int se; int se_valid;
                      int first_line, last_line, film, subt, anamorphic; } EV[EVMAX];
static unsigned EVN;
static void c13_event(vbi_decoder *vbi, vbi_event *ev)
{
  /* The record is assembled in a local and stored through a loop over constant indices (DESIGN R9): EVN is symbolic (whether a NETWORK event
     precedes depends on the data), and memset + member stores through &EV[EVN] made cbmc 6.11 return counterexamples that do not exist
     (DESIGN R16). */
  struct evrec tmp; unsigned i; (void) vbi;
  if (EVN >= EVMAX) { EVN++; return; }
  { static const struct evrec zero; tmp = zero; }   /* no memset: evrec used to hold a vbi_program_id (pointer members), and cbmc's byte-wise memset
                                                         of a struct with pointers corrupted the member stores that followed */
  tmp.type = ev->type;
#if defined(VERIF_NATIVE) && defined(C13_DEBUG)
  fprintf(stderr, "event #%u type 0x%x cni_vps %x nuid %u\n", EVN, ev->type, ev->ev.network.cni_vps, ev->ev.network.nuid);
#endif
  if (ev->type == VBI_EVENT_NETWORK || ev->type == VBI_EVENT_NETWORK_ID) {
    tmp.cni_vps = (unsigned) ev->ev.network.cni_vps; tmp.cni_8301 = (unsigned) ev->ev.network.cni_8301; tmp.cni_8302 = (unsigned) ev->ev.network.cni_8302; tmp.nuid = ev->ev.network.nuid;
  } else if (ev->type == VBI_EVENT_PROG_ID) { const vbi_program_id *pp; memcpy(&pp, &ev->ev.prog_id, sizeof pp);   /* R16: see LOCAL_TIME below */
    tmp.pid.channel = pp->channel; tmp.pid.cni_type = pp->cni_type; tmp.pid.cni = pp->cni; tmp.pid.pil = pp->pil; tmp.pid.luf = pp->luf;
    tmp.pid.mi = pp->mi; tmp.pid.prf = pp->prf; tmp.pid.pcs_audio = pp->pcs_audio; tmp.pid.pty = pp->pty; tmp.pid.tape_delayed = pp->tape_delayed; }
  else if (ev->type == VBI_EVENT_LOCAL_TIME) {
    /* DESIGN R16: cbmc 6.11 stores a pointer written to ANY pointer member of the vbi_event union under the type of the FIRST pointer member
       (vbi_link *); `ev->ev.local_time->time' is then dereferenced against an object smaller than vbi_link and yields arbitrary values (a
       counterexample that does not exist; reproduced in a 30 line program).  Copying the pointer out of the union bytes gives it its own type. */
    const vbi_local_time *lp; memcpy(&lp, &ev->ev.local_time, sizeof lp);
    tmp.lt = (long long) lp->time; tmp.se = lp->seconds_east; tmp.se_valid = lp->seconds_east_valid; }
  else if (ev->type == VBI_EVENT_ASPECT) { tmp.first_line = ev->ev.aspect.first_line; tmp.last_line = ev->ev.aspect.last_line; tmp.film = ev->ev.aspect.film_mode;
    tmp.subt = ev->ev.aspect.open_subtitles; tmp.anamorphic = (ev->ev.aspect.ratio < 0.9); }
  for (i = 0; i < EVMAX; i++) if (i == EVN) EV[i] = tmp;
  EVN++;
}

#ifdef C13_LT_MODEL
static long long LTM_T; static int LTM_SE; static int LTM_OK; static const uint8_t *LTM_BUF; static unsigned LTM_CALLS; static int LTM_BUF_OK = 1;
vbi_bool c13_codec_8301_lt(time_t *t, int *se, const uint8_t buffer[42])
{ LTM_CALLS++; if (buffer != LTM_BUF) LTM_BUF_OK = 0; if (!LTM_OK) return FALSE; *t = (time_t) LTM_T; *se = LTM_SE; return TRUE; }
#endif

/* independent reading of the VPS line (EN 300 231 / TR 101 231) */
static unsigned ref_vps_cni(const uint8_t *b)
{ unsigned c = ((b[10] & 3u) << 10) | ((b[11] & 0xC0u) << 2) | (b[8] & 0xC0u) | (b[11] & 0x3Fu); if (c == 0xDC3) c = (b[2] & 0x10) ? 0xDC1 : 0xDC2; /* TR 101 231: distinction bit set = ARD */ return c; }
static unsigned ref_vps_pil(const uint8_t *b) { return ((b[8] & 0x3Fu) << 14) | ((unsigned) b[9] << 6) | (b[10] >> 2); }

#ifndef KREC
#define KREC 5
#endif

/* ---- VPS: histories of KREC receptions over two arbitrary lines A, B chosen by a symbolic pattern ---- */
V_HARNESS(h_vps_debounce)
{
  uint8_t L[2][13], buf[13]; unsigned t, sel[KREC], cni[KREC]; unsigned nuid_model = 0, e = 0, chsw_model = 0;
  V_INIT();
  /* VBI is a static object: zero initialised (a memset of the whole decoder costs minutes of symex) */
  VBI.event_mask = VBI_EVENT_NETWORK | VBI_EVENT_NETWORK_ID | VBI_EVENT_PROG_ID;
  in_bytes(L[0], 13); in_bytes(L[1], 13);
  V_ASSUME(ref_vps_cni(L[0]) != 0 && ref_vps_cni(L[1]) != 0);     /* CNI 0 = "no identifier" is the decoder's initial value */
  for (t = 0; t < KREC; t++) sel[t] = in_u8() & 1;
  for (t = 0; t < KREC; t++) {
    unsigned before = EVN;
    memcpy(buf, L[sel[t]], 13); cni[t] = ref_vps_cni(buf);
    vbi_decode_vps(&VBI, buf);
    /* reference: an identifier is announced at its second consecutive identical reception, and only then */
    { int second = (t >= 1 && cni[t] == cni[t - 1] && (t == 1 || cni[t - 2] != cni[t - 1]));
      if (!second) V_ASSERT(EVN == before, "vps_no_event_unless_confirmed");
      else {
        unsigned id = ref_station(4, cni[t]); unsigned k = before;
        if (id != nuid_model) {              /* the identified station changed: exactly one NETWORK event, old cache dropped */
          V_ASSERT(EVN > k && EV[k].type == VBI_EVENT_NETWORK && EV[k].cni_vps == cni[t] && EV[k].nuid == id, "vps_network_event_on_change");
          if (nuid_model != 0) chsw_model++;
          nuid_model = id; k++;
        }
        V_ASSERT(EVN > k && EV[k].type == VBI_EVENT_NETWORK_ID && EV[k].cni_vps == cni[t], "vps_network_id_carries_transmitted_cni");
        k++;
        /* programme id: only if both receptions carried the same PDC data, and then exactly those values */
        if (EVN > k) {
          V_ASSERT(EV[k].type == VBI_EVENT_PROG_ID, "vps_third_event_is_prog_id");
          V_ASSERT(bytes_eq(L[sel[t]], L[sel[t - 1]], 13) || (ref_vps_pil(L[sel[t]]) == ref_vps_pil(L[sel[t - 1]]) && L[sel[t]][12] == L[sel[t - 1]][12] && (L[sel[t]][2] >> 6) == (L[sel[t - 1]][2] >> 6)), "vps_prog_id_only_if_repeated");
          V_ASSERT(EV[k].pid.pil == ref_vps_pil(buf), "vps_prog_id_pil");
          V_ASSERT(EV[k].pid.pty == buf[12], "vps_prog_id_pty");
          V_ASSERT((unsigned) EV[k].pid.pcs_audio == (unsigned) (buf[2] >> 6), "vps_prog_id_pcs");
          V_ASSERT(EV[k].pid.cni == cni[t], "vps_prog_id_cni");
          k++; V_REACH("progid");
        }
        V_ASSERT(EVN == k, "vps_no_further_events");
        V_REACH("announced");
      } }
    V_ASSERT(chsw_n == chsw_model, "vps_cache_dropped_exactly_on_station_change");
    (void) e;
  }
  V_END();
}

/* ---- WSS 625: KREC receptions over two arbitrary words with non-decreasing time stamps ---- */
static int ref_wss_parity_ok(unsigned b0) { unsigned p = b0 & 15; p ^= p >> 2; p ^= p >> 1; return p & 1; }
/* the history part: from a decoder whose WSS debouncer is in its initial state (fresh decoder, or directly after a channel switch) */
static void c13_wss_history(void)
{
  uint8_t W[2][2], buf[2]; unsigned t, sel[KREC]; unsigned run = 0; int have_prev = 0;
  struct { int fl, ll, film, subt, ana; } cur = { 0, 0, 0, 0, 0 };
  static const int FL[8] = { 23, 41, 23, 59, 23, 59, 23, 23 }, LL[8] = { 310, 292, 274, 273, 237, 273, 310, 310 };
  in_bytes(W[0], 2); in_bytes(W[1], 2);
  V_ASSUME(!(W[0][0] == 0 && W[0][1] == 0) && !(W[1][0] == 0 && W[1][1] == 0));   /* 00 00 is the decoder's initial "last word" */
  for (t = 0; t < KREC; t++) sel[t] = in_u8() & 1;
  for (t = 0; t < KREC; t++) {
    unsigned before = EVN; int expect;
    memcpy(buf, W[sel[t]], 2);
    run = (t > 0 && sel[t] == sel[t - 1]) || (t > 0 && bytes_eq(W[sel[t]], W[sel[t - 1]], 2)) ? run + 1 : 0;   /* identical repeats so far */
    vbi_decode_wss_625(&VBI, buf, (double) t);
    /* reference (EN 300 294): valid only after >= 3 identical repeats and with odd parity over bits 0..3; announced only when it differs from what was announced */
    expect = 0;
    if (run >= 3 && ref_wss_parity_ok(buf[0])) {
      int fl = FL[buf[0] & 7], ll = LL[buf[0] & 7], film = !!(buf[0] & 0x10), subt = (buf[1] >> 1) & 3, ana = ((buf[0] & 7) == 7);
      static const int SUBT[4] = { VBI_SUBT_NONE, VBI_SUBT_ACTIVE, VBI_SUBT_MATTE, VBI_SUBT_UNKNOWN };
      subt = SUBT[subt];
      if (!have_prev ? !(fl == 0 && ll == 0 && film == 0 && subt == 0 && 0) : 1) {
        if (!have_prev || fl != cur.fl || ll != cur.ll || film != cur.film || subt != cur.subt || ana != cur.ana) {
          expect = 1; cur.fl = fl; cur.ll = ll; cur.film = film; cur.subt = subt; cur.ana = ana; have_prev = 1;
        }
      }
    }
    if (expect) {
      V_ASSERT(EVN == before + 2 && EV[before].type == VBI_EVENT_ASPECT && EV[before + 1].type == VBI_EVENT_PROG_INFO, "wss_event_after_confirmed_change");
      V_ASSERT(EV[before].first_line == cur.fl && EV[before].last_line == cur.ll && EV[before].film == cur.film && EV[before].subt == cur.subt && EV[before].anamorphic == cur.ana, "wss_event_values");
      V_REACH("announced");
    } else V_ASSERT(EVN == before, "wss_no_event");
  }
}
V_HARNESS(h_wss_debounce)
{
  V_INIT();
  /* VBI is a static object: zero initialised (a memset of the whole decoder costs minutes of symex) */
  VBI.event_mask = VBI_EVENT_ASPECT | VBI_EVENT_PROG_INFO;
  c13_wss_history();
  V_END();
}

#ifdef C13_REAL_CHSW
/* ---- channel switch: the REAL vbi_chsw_reset from ANY state of the WSS debouncer / aspect announcement, identified or not; afterwards the decoder must
 * treat every WSS history exactly like a fresh decoder (same reference as h_wss_debounce): nothing the old station sent counts as a repeat on the new one.
 * The reset itself raises at most: one NETWORK event (only when an identified station becomes unidentified - the identified case is announced by the caller,
 * see *_network_event_on_change) and one ASPECT event revoking an announced ratio. ---- */
V_HARNESS(h_chsw_wss)
{
  unsigned identified, old_nuid, asrc, k = 0; unsigned n_net = 0, n_asp = 0, i;
  V_INIT();
  VBI.cn = &CN13;
  VBI.event_mask = VBI_EVENT_ASPECT | VBI_EVENT_PROG_INFO | VBI_EVENT_NETWORK | VBI_EVENT_NETWORK_ID;
  VBI.wss_last[0] = in_u8(); VBI.wss_last[1] = in_u8();
  VBI.wss_rep_ct = (int) (in_u16() & 0x3FF);
  VBI.wss_time = (double) in_u8();
  asrc = in_u8(); V_ASSUME(asrc <= 2); VBI.aspect_source = (int) asrc;
  in_bytes(&VBI.prog_info[0].aspect, sizeof VBI.prog_info[0].aspect);
  old_nuid = in_u32(); VBI.network.ev.network.nuid = old_nuid;
  VBI.network.ev.network.cni_vps = in_u16(); VBI.network.ev.network.cycle = in_u8() % 3;
  identified = in_u32();
  vbi_chsw_reset(&VBI, identified);
  for (i = 0; i < EVMAX; i++) if (i < EVN) { if (EV[i].type == VBI_EVENT_NETWORK) n_net++; else if (EV[i].type == VBI_EVENT_ASPECT) n_asp++; }
  V_ASSERT(EVN == n_net + n_asp && n_net <= 1 && n_asp <= 1, "chsw_raises_at_most_one_network_and_one_aspect_event");
  V_ASSERT(n_net == (unsigned) (identified == 0 && old_nuid != 0), "chsw_network_event_iff_identified_station_lost");
  V_ASSERT(n_asp == (unsigned) (asrc > 0), "chsw_aspect_revoked_iff_announced");
  V_ASSERT(c13_n_unref == 1 && c13_n_addnet == 1 && VBI.cn == &CN13_NEW, "chsw_old_network_released_new_one_attached");
  if (identified == 0) V_REACH("unidentified"); else V_REACH("identified");
  (void) k;
  c13_wss_history();
  V_END();
}
#endif

/* ---- 8/30 format 1: receptions over two arbitrary CNIs/times; packets from a reference encoder ---- */
static void ref_encode_8301(uint8_t *p /*42*/, unsigned des, unsigned cni, unsigned mjd_digits[5], unsigned hms_digits[6], unsigned lto /*6 bit + sign*/)
{
  memset(p, 0x15, 42);                      /* Hamming 8/4 of 0 everywhere first */
  p[0] = ref_ham8(0); p[1] = ref_ham8(15 << 1 >> 1 & 0xF);      /* magazine 8 packet 30: mag bits 000, packet 30 = 11110 */
  { unsigned pmag = (30u << 3) | 0; p[0] = ref_ham8(pmag & 15); p[1] = ref_ham8(pmag >> 4); }
  p[2] = ref_ham8(des);
  ref_encode_link(p + 3, 0, 1, 0x00, 0x3F7F);
  p[9] = ref_rev8(cni >> 8); p[10] = ref_rev8(cni & 0xFF);
  p[11] = (uint8_t) lto;
  p[12] = (uint8_t) (mjd_digits[0] + 1);
  p[13] = (uint8_t) (((mjd_digits[1] + 1) << 4) | (mjd_digits[2] + 1));
  p[14] = (uint8_t) (((mjd_digits[3] + 1) << 4) | (mjd_digits[4] + 1));
  p[15] = (uint8_t) (((hms_digits[0] + 1) << 4) | (hms_digits[1] + 1));
  p[16] = (uint8_t) (((hms_digits[2] + 1) << 4) | (hms_digits[3] + 1));
  p[17] = (uint8_t) (((hms_digits[4] + 1) << 4) | (hms_digits[5] + 1));
}

V_HARNESS(h_8301_debounce)
{
  unsigned C[2], t, sel[KREC], cni[KREC], d, nuid_model = 0, chsw_model = 0; uint8_t pkt[42];
  unsigned mjd[5], hms[6], lto; long long exp_time; int exp_se;
  V_INIT();
  VBI.cn = &CN13;                    /* VBI static: zero initialised */
  VBI.event_mask = VBI_EVENT_NETWORK | VBI_EVENT_NETWORK_ID | VBI_EVENT_LOCAL_TIME;
  C[0] = in_u16(); C[1] = in_u16(); V_ASSUME(C[0] != 0 && C[1] != 0);
  for (d = 0; d < 5; d++) { mjd[d] = in_u8() & 15; V_ASSUME(mjd[d] <= 9); }
  for (d = 0; d < 6; d++) { hms[d] = in_u8() & 15; V_ASSUME(hms[d] <= 9); }
  V_ASSUME(hms[0] * 10 + hms[1] <= 23 && hms[2] <= 5 && hms[4] <= 5);
  lto = in_u8();
  exp_time = ((long long) (mjd[0] * 10000 + mjd[1] * 1000 + mjd[2] * 100 + mjd[3] * 10 + mjd[4]) - 40587) * 86400
           + (hms[0] * 10 + hms[1]) * 3600 + (hms[2] * 10 + hms[3]) * 60 + hms[4] * 10 + hms[5];
  exp_se = (int) ((lto >> 1) & 0x1F) * 1800; if (lto & 0x40) exp_se = -exp_se;
  for (t = 0; t < KREC; t++) sel[t] = in_u8() & 1;
  for (t = 0; t < KREC; t++) {
    unsigned before = EVN, k; int second;
    cni[t] = C[sel[t]];
    ref_encode_8301(pkt, in_u8() & 1, cni[t], mjd, hms, lto);
#ifdef C13_LT_MODEL
    LTM_T = (long long) in_u32() | ((long long) in_u32() << 32); LTM_SE = (int) in_u32(); LTM_OK = 1; LTM_BUF = pkt;
#endif
    V_ASSERT(parse_8_30(&VBI, pkt, 30), "p8301_accepted");
    second = (t >= 1 && cni[t] == cni[t - 1] && (t == 1 || cni[t - 2] != cni[t - 1]));
    k = before;
    if (second) {
      unsigned id = ref_station(1, cni[t]);
      if (id != nuid_model) {
        V_ASSERT(EVN > k && EV[k].type == VBI_EVENT_NETWORK && EV[k].cni_8301 == cni[t] && EV[k].nuid == id, "p8301_network_event_on_change");
        if (nuid_model != 0) chsw_model++;
        nuid_model = id; k++;
      }
      V_ASSERT(EVN > k && EV[k].type == VBI_EVENT_NETWORK_ID && EV[k].cni_8301 == cni[t], "p8301_network_id_carries_transmitted_cni");
      k++; V_REACH("announced");
    }
    /* local time of every packet, exactly as transmitted */
    V_ASSERT(EVN == k + 1 && EV[k].type == VBI_EVENT_LOCAL_TIME, "p8301_local_time_event");
#ifdef C13_LT_MODEL
    V_ASSERT(LTM_CALLS == t + 1 && LTM_BUF_OK, "p8301_codec_called_once_on_this_packet");
    V_ASSERT(EV[k].lt == LTM_T && EV[k].se == LTM_SE && EV[k].se_valid, "p8301_local_time_values");
#else
    V_ASSERT(EV[k].lt == exp_time && EV[k].se == exp_se && EV[k].se_valid, "p8301_local_time_values");
#endif
    V_ASSERT(chsw_n == chsw_model, "p8301_cache_dropped_exactly_on_station_change");
  }
  V_END();
}

/* ---- 8/30 format 2: receptions over two ARBITRARY 13-byte Hamming-protected blocks (bytes 9..21 of the packet, EN 300 706 9.8.2 / EN 300 231) ----
 * Reference = independent nearest-code-word decode (ref_unham8) + field extraction.  A block with an uncorrectable byte is a damaged reception: the
 * packet is refused and is invisible to the debounce (no event, no state change: the NEXT clean reception behaves as if the damaged one had not been
 * there).  Over the clean receptions the rule is the one of the other carriers: NETWORK_ID at the second consecutive identical CNI and at no other time. */
static int ref_8302_byte(const uint8_t *blk /* bytes 9..21 */, unsigned k /* 0..5: byte pairs 10/11 .. 20/21 */)
{ int lo = ref_unham8(blk[1 + 2 * k]), hi = ref_unham8(blk[2 + 2 * k]); if (lo < 0 || hi < 0) return -1; return (int) ref_rev8((unsigned) lo | ((unsigned) hi << 4)); }
struct ref8302 { int valid; unsigned cni, pil, pty; };
static struct ref8302 ref_decode_8302(const uint8_t *blk)
{
  struct ref8302 r; int b[6]; unsigned k; r.valid = (ref_unham8(blk[0]) >= 0); r.cni = r.pil = r.pty = 0;
  for (k = 0; k < 6; k++) { b[k] = ref_8302_byte(blk, k); if (b[k] < 0) r.valid = 0; }
  if (r.valid) {
    r.cni = (((unsigned) b[0] & 0x0F) << 12) | (((unsigned) b[3] & 3) << 10) | (((unsigned) b[4] & 0xC0) << 2) | ((unsigned) b[1] & 0xC0) | ((unsigned) b[4] & 0x3F);
    r.pil = (((unsigned) b[1] & 0x3F) << 14) | ((unsigned) b[2] << 6) | ((unsigned) b[3] >> 2);
    r.pty = (unsigned) b[5];
  }
  return r;
}

V_HARNESS(h_8302_debounce)
{
  uint8_t L[2][13], pkt[42]; struct ref8302 R[2]; unsigned t, sel[KREC], des[KREC]; unsigned nuid_model = 0, chsw_model = 0, run = 0, last = 0;
  V_INIT();
  VBI.cn = &CN13;                    /* VBI static: zero initialised */
  VBI.event_mask = VBI_EVENT_NETWORK | VBI_EVENT_NETWORK_ID | VBI_EVENT_PROG_ID;
  in_bytes(L[0], 13); in_bytes(L[1], 13);
  R[0] = ref_decode_8302(L[0]); R[1] = ref_decode_8302(L[1]);
  V_ASSUME(!R[0].valid || (R[0].cni != 0 && R[0].cni != 0x0DC3));
  V_ASSUME(!R[1].valid || (R[1].cni != 0 && R[1].cni != 0x0DC3));
  for (t = 0; t < KREC; t++) { sel[t] = in_u8() & 1; des[t] = 2 + (in_u8() & 1); }
  for (t = 0; t < KREC; t++) {
    unsigned before = EVN, k = before; vbi_bool ok; const struct ref8302 *r = &R[sel[t]];
    memset(pkt, 0x15, 42);
    { unsigned pmag = (30u << 3) | 0; pkt[0] = ref_ham8(pmag & 15); pkt[1] = ref_ham8(pmag >> 4); }
    pkt[2] = ref_ham8(des[t]);
    ref_encode_link(pkt + 3, 0, 1, 0x00, 0x3F7F);
    memcpy(pkt + 9, L[sel[t]], 13);
    ok = parse_8_30(&VBI, pkt, 30);
    V_ASSERT(!!ok == !!r->valid, "p8302_accepted_iff_all_protected_bytes_decode");
    if (!r->valid) {
      V_ASSERT(EVN == before, "p8302_damaged_packet_raises_nothing");
      V_REACH("damaged");
    } else {
      run = (run > 0 && r->cni == last) ? run + 1 : 1; last = r->cni;
      if (run == 2) {
        unsigned id = ref_station(2, r->cni);
        if (id != nuid_model) {
          V_ASSERT(EVN > k && EV[k].type == VBI_EVENT_NETWORK && EV[k].cni_8302 == r->cni && EV[k].nuid == id, "p8302_network_event_on_change");
          if (nuid_model != 0) chsw_model++;
          nuid_model = id; k++;
        }
        V_ASSERT(EVN > k && EV[k].type == VBI_EVENT_NETWORK_ID && EV[k].cni_8302 == r->cni, "p8302_network_id_carries_transmitted_cni");
        k++; V_REACH("announced");
      }
      /* programme id of every clean packet, exactly as transmitted */
      V_ASSERT(EVN == k + 1 && EV[k].type == VBI_EVENT_PROG_ID, "p8302_prog_id_event_and_nothing_else");
      V_ASSERT(EV[k].pid.cni == r->cni && EV[k].pid.pil == r->pil && EV[k].pid.pty == r->pty && EV[k].pid.cni_type == VBI_CNI_TYPE_8302, "p8302_prog_id_values");
    }
    V_ASSERT(chsw_n == chsw_model, "p8302_cache_dropped_exactly_on_station_change");
    V_ASSERT(EVN <= EVMAX, "harness_event_log_large_enough");
  }
  V_END();
}
