/* C02 groups (b) Level-1 formatting of one row and (c) character set designation / mapping.
 *
 * Real unit: src/teletext.c (included: vbi_format_vt_page, character_set_designation, screen_color, column_41).
 * Linked:    src/lang.c (vbi_teletext_unicode, vbi_font_descriptors), src/hamm.c (odd parity table).
 * Cut (DESIGN R2, models/c02fmt_carve.h): struct caption (168 KB) and the packet assembly buffers of struct teletext (45 KB),
 * never touched by teletext.c, are carved out of vbi_decoder through the include guards of cc.h / teletext_decoder.h.
 * The decoder is a static zero object; only what vbi_format_vt_page() reads at
 * Level 1 is set (vt.default_magazine.extension = EN 300 706 defaults as ttx_extension_init() builds them).
 *
 * The oracles (models/c02fmt_ref.h) are transcriptions of EN 300 706 12.2 Table 26 (spacing attributes),
 * 15.2 Table 32 (character set designation) and 15.6.2 Table 36 (Latin national option sub-sets). */
#include "verif.h"
#include "ref_codes.h"

#include "c02fmt_carve.h"

#ifdef VERIF_CBMC
/* goto-cc turns calls of the printf family into output statements without side effects: the header text of row 0 would be
   8 nondeterministic bytes.  Route the one reachable call to a model (c02fmt_stubs.h). */
#include <stdio.h>
int c02fmt_snprintf(char *s, size_t n, const char *fmt, ...);
#define snprintf c02fmt_snprintf
#endif

/* vbi_format_vt_page() walks the page with vtp->data.lop.raw[0][i++], i = 0..999: flat indexing of raw[26][40] through its
   first row.  This stays inside data.lop (i <= 40 * 25 + 39; the guard area behind data.lop below checks it) but is an index >= 40 into a
   uint8_t[40] sub-object: standard-level UB that -fsanitize=bounds aborts on at the first byte of row 1.  It is recorded
   as a ub_note (DESIGN 3.2), and the array-index sanitizer is switched off for the functions of teletext.c only, so that
   native replays get as far as the property; ASan and the other UBSan checks stay on. */
#if defined(VERIF_NATIVE) && defined(__clang__)
#pragma clang attribute push (__attribute__((no_sanitize("bounds"))), apply_to = function)
#endif
#include "src/teletext.c"
#if defined(VERIF_NATIVE) && defined(__clang__)
#pragma clang attribute pop
#endif

#include "c02fmt_ref.h"

/* ---------------- environment stubs (everything teletext.c references outside itself, lang.c and hamm.c) ---------------- */
#include "c02fmt_stubs.h"

/* ---------------- harness parameters (runner grid) ---------------- */
#ifndef FMT_FIRST
#define FMT_FIRST 0          /* first symbolic column of the row (>= 8 in the header row) */
#endif
#ifndef FMT_NSYM
#define FMT_NSYM 10          /* number of symbolic columns; the others transmit SPACE */
#endif
#ifndef FMT_ROW
#define FMT_ROW 1            /* page row under test: 0 (header row, display_rows 1), 24 (last row, display_rows 25) - in both double height/size
                                are not used (12.2) and the formatter's lower-row pass never runs - or 1 (display_rows 2, double height reaches
                                row 2; used with the concrete rows FMT_PLAN, see below) */
#endif
#define FMT_DISPLAY_ROWS ((FMT_ROW) == 1 ? 2 : (FMT_ROW) + 1)      /* row 0: header only (columns 0..7 are the decoder's page number text) */
#ifndef FMT_NATIONAL
#define FMT_NATIONAL 0       /* C12-C14 national option of the page (Table 32 region 0: 0 English ... 6 Czech/Slovak) */
#endif
#ifndef FMT_SECOND
#define FMT_SECOND 0         /* second G0 designation code (ext->charset_code[1]); 8 => Polish when FMT_NATIONAL == 0 */
#endif

#ifdef C02FMT_ROWS            /* the (carved, 6 KB) decoder and the 9 KB vbi_page are compiled in only for the row obligations */
static vbi_decoder VBI;
static vbi_page PG;
#endif
/* The page object: a typed replica of cache_page whose union part is the plain LOP (cache_page_size() bytes) followed by a
   guard area up to sizeof(cache_page).  A cached LOP is allocated with cache_page_size() bytes only, so the formatter must not
   touch the guard: natively it is ASan-poisoned (any access aborts), under CBMC its content is nondeterministic (a read that
   influenced the result would break an assertion; the counterexample then replays into the poisoned area).
   raw[26][40] is declared flat because vbi_format_vt_page() indexes it as raw[0][0..999]. */
#define CP_LOP_SIZE (offsetof(cache_page, data) + sizeof(((cache_page *) 0)->data.lop))
struct c02_guard { uint8_t b[sizeof(cache_page) - CP_LOP_SIZE]; };
struct __attribute__((packed)) c02_lop_page {
  struct node hash_node, pri_node; cache_network *network; unsigned int ref_count; cache_priority priority;
  enum ttx_page_function function; vbi_pgno pgno; vbi_subno subno; int national; unsigned int flags;
  unsigned int lop_packets, x26_designations, x27_designations, x28_designations;
  uint32_t pad_before_union;
  uint8_t raw_flat[26 * 40]; struct ttx_page_link link[6 * 6]; vbi_bool have_flof;      /* struct ttx_lop */
  struct c02_guard guard;
};
typedef char c02_layout_check[(offsetof(struct c02_lop_page, raw_flat) == offsetof(cache_page, data.lop.raw) && offsetof(struct c02_lop_page, guard) == CP_LOP_SIZE
  && sizeof(struct c02_lop_page) == sizeof(cache_page)
  && offsetof(struct c02_lop_page, function) == offsetof(cache_page, function) && offsetof(struct c02_lop_page, national) == offsetof(cache_page, national)
  && offsetof(struct c02_lop_page, flags) == offsetof(cache_page, flags) && offsetof(struct c02_lop_page, x28_designations) == offsetof(cache_page, x28_designations)) ? 1 : -1];
static _Alignas(8) struct c02_lop_page CPMEM;
#ifdef VERIF_CBMC
struct c02_guard nondet_c02_guard(void);
#define GUARD_ARM() do { CPMEM.guard = nondet_c02_guard(); } while (0)
#else
#if defined(__has_feature)
#if __has_feature(address_sanitizer)
#include <sanitizer/asan_interface.h>
#define GUARD_ARM() ASAN_POISON_MEMORY_REGION(&CPMEM.guard, sizeof CPMEM.guard)
#endif
#endif
#ifndef GUARD_ARM
#define GUARD_ARM() do { } while (0)
#endif
#endif

#ifdef C02FMT_ROWS
static const vbi_rgba ref_default_cmap8[8] = { 0xFF000000u, 0xFF0000FFu, 0xFF00FF00u, 0xFF00FFFFu, 0xFFFF0000u, 0xFFFF00FFu, 0xFFFFFF00u, 0xFFFFFFFFu };

static void setup_decoder(unsigned code0, unsigned code1)
{
  struct ttx_extension *ext = &VBI.vt.default_magazine.extension;
  unsigned i;
  VBI.vt.max_level = VBI_WST_LEVEL_1;
  VBI.brightness = 128; VBI.contrast = 64;
  /* ttx_extension_init(): EN 300 706 A.5 defaults */
  ext->def_screen_color = VBI_BLACK; ext->def_row_color = VBI_BLACK;
  ext->foreground_clut = 0; ext->background_clut = 0;
  for (i = 0; i < 8; i++) ext->color_map[i] = ref_default_cmap8[i];
  ext->charset_code[0] = code0; ext->charset_code[1] = code1;
}
#endif

static cache_page *setup_page(unsigned national, unsigned flags)
{
  cache_page *cp = (cache_page *) &CPMEM;
  unsigned r, c;
  cp->function = PAGE_FUNCTION_LOP;
  cp->pgno = 0x100; cp->subno = 0;
  cp->national = (int) national;
  cp->flags = flags;
  GUARD_ARM();
  cp->lop_packets = 7; cp->x26_designations = 0; cp->x27_designations = 0; cp->x28_designations = 0;
  for (r = 0; r < 26; r++) for (c = 0; c < 40; c++) CPMEM.raw_flat[r * 40 + c] = (uint8_t) ref_par8((r == 2) ? 0x58 /* X */ : 0x20);
  return cp;
}

/* =====================================================================================================
 * (b) Level 1 formatting of one row
 * ===================================================================================================== */
#ifdef C02FMT_ROWS
/* frame: PG is a static zero object and the formatter never produces unicode 0, so "all zero" marks an untouched cell.
   Formatting rows 0..last touches text rows 0..last (+ the row below a double height row) and the artificial column 41
   (index 40) of rows 0..24 (column_41), nothing else in text[]; the members around text[] have their documented values
   (an index running off text[] lands in `dirty`; CBMC's own bounds check only covers the end of the enclosing vbi_page) */
static int cell_zero(unsigned k) { vbi_char a = PG.text[k]; return a.unicode == 0 && a.size == 0 && a.opacity == 0 && a.foreground == 0 && a.background == 0; }
static int frame_ok(unsigned last)
{ unsigned r, c; int ok = 1;
  for (r = last + 1; r < 25 && r < last + 3; r++) for (c = 0; c < 40; c++) ok &= cell_zero(r * 41 + c);   /* the two rows that follow */
  for (c = 25 * 41; c < 1056; c++) ok &= cell_zero(c);                                                   /* the unused tail of text[] */
  ok &= (PG.columns == 41);
  ok &= (PG.dirty.y0 == 0 && PG.dirty.y1 == 24 && PG.dirty.roll == 0);
  for (r = 0; r < 6; r++) ok &= (PG.nav_link[r].pgno == 0 && PG.nav_link[r].subno == 0);
  for (r = 0; r < 64; r++) ok &= (PG.nav_index[r] == 0);
  return ok; }

#ifdef FMT_PLAN
/* Double height / double size: concrete rows.  The formatter's lower-row pass advances its column index by the size it
   reads back from the upper row; any symbolic byte in the row makes every later size - and with it that index into the 9 KB
   vbi_page - symbolic, and the query was measured intractable (see report).  So the double height obligation runs on three
   concrete rows that exercise every size transition; symbolic there: the national option (0..6) and the C5/C6 page flags. */
static const uint8_t fmt_plan[3][40] = {
  { 0x0D, 'A', 0x01, 'b', 0x1D, 0x07, 'c', 0x0C, 'd', 0x0F, 'E', 'x', 'F', 'y', 0x11, 0x1E, 0x7F, 0x12, 0x35, 0x0C,
    0x13, 0x66, 0x0E, 'g', 'h', 0x0B, 0x0B, 'i', 'j', 0x0A, 0x0A, 0x0D, 0x08, 'k', 0x18, 'l', 0x0F, 'M', 'n', 'o' },
  { 'p', 0x0E, 'q', 0x0D, 'r', 's', 0x16, 0x1A, 0x2B, 0x1E, 0x0F, 0x7A, 0x04, 0x19, 0x1B, '#', '$', 0x1B, '@', 0x0C,
    0x1C, 0x0B, 0x0B, 0x0D, 'T', 0x09, 0x03, 0x1D, 'u', 0x0A, 0x0A, 0x1F, 0x15, 0x0C, 0x39, 0x0D, 0x17, 0x6C, 0x0F, 'z' },
  { 0x0F, 0x14, 0x1E, 0x3F, 0x0D, 0x10, 0x5B, 0x60, 0x0F, 0x18, 0x7E, 0x02, 0x7B, 0x7C, 0x0E, 0x0D, 0x05, 0x1D, 0x0F, 'W',
    'v', 0x0C, 0x08, 0x0D, 0x06, 'Q', 0x09, 0x0C, 0x0D, 0x1C, 0x0B, 0x0B, 0x0F, 0x11, 0x23, 0x5F, 0x0A, 0x0A, 0x0E, 0x0D },
};
#endif

V_HARNESS(h_fmt_row)
{
  cache_page *cp; struct ref_row R; uint8_t code[FMT_NSYM]; uint8_t tx[40]; uint64_t errmask; unsigned flags, c, national; int ok;
  vbi_opacity page_op, box_op;
  V_INIT();
  in_bytes(code, FMT_NSYM); errmask = in_u64(); flags = 0;
  { unsigned f = in_u8(); if (f & 1) flags |= C5_NEWSFLASH; if (f & 2) flags |= C6_SUBTITLE; }
  national = in_u8() % 7u;
#ifndef FMT_PLAN
  national = FMT_NATIONAL;
#endif
  setup_decoder(0, FMT_SECOND);
  cp = setup_page(national, flags);
  /* the transmitter: 7-bit codes with odd parity; errmask flips the parity bit of a column (=> parity error at the receiver) */
  for (c = 0; c < 40; c++) {
#ifdef FMT_PLAN
    tx[c] = (uint8_t) ref_par8(fmt_plan[FMT_PLAN][c]);
#else
    unsigned v = (c >= FMT_FIRST && c < FMT_FIRST + FMT_NSYM) ? (code[c - FMT_FIRST] & 0x7Fu) : 0x20u;
#if FMT_ROW != 1
    /* EN 300 706 12.2: double height / double size are not used in the header row and in rows 23, 24: such codes are sent as SPACE
       (mapped, not assumed away: the same set of rows, and every input file replays) */
    if (v == 0x0D || v == 0x0F) v = 0x20;
#endif
    unsigned bad = (c >= FMT_FIRST && c < FMT_FIRST + FMT_NSYM) ? (unsigned) ((errmask >> (c - FMT_FIRST)) & 1u) : 0u;
    tx[c] = (uint8_t) (ref_par8(v) ^ (bad ? 0x80u : 0u));
#endif
#if FMT_ROW == 0
    if (c < 8) { static const uint8_t hdr[8] = { 0x02, '1', '0', '0', '.', '0', '0', 0x07 };   /* "\2%x.%02x\7" for page 100.00: generated by the formatter */
      tx[c] = (uint8_t) ref_par8(hdr[c]); }
#endif
    CPMEM.raw_flat[FMT_ROW * 40 + c] = tx[c];
  }
#ifdef FMT_PREV_PLAN
  /* start-of-row defaults (EN 300 706 12.2: every row starts white on black, steady, normal size, contiguous mosaics, unboxed, not concealed,
     release, first G0): the row ABOVE the row under test is a concrete row that leaves every one of these attributes in its non-default state
     at its end; the reference of the row under test is computed from the row alone */
  { static const uint8_t prev[40] = { 0x11, 0x1A, 0x35, 0x1E, 0x18, 0x08, 0x1D, 0x0B, 0x0B, 0x1B, 0x16, 0x7F, 0x6A, 0x1A, 0x2B, 0x1E, 0x12, 0x1D, 0x15, 0x3F,
                                      0x08, 0x18, 0x1B, 0x14, 0x1A, 0x7E, 0x1E, 0x13, 0x1D, 0x17, 0x1A, 0x55, 0x2A, 0x1E, 0x16, 0x08, 0x18, 0x0B, 0x0B, 0x75 };
    typedef char fmt_prev_check[(FMT_ROW) >= 2 ? 1 : -1];
    for (c = 0; c < 40; c++) CPMEM.raw_flat[(FMT_ROW - 1) * 40 + c] = (uint8_t) ref_par8(prev[c]); }
#endif
#if FMT_ROW == 0
  { typedef char fmt_window_check[(FMT_FIRST) >= 8 ? 1 : -1]; }
#endif
  ok = vbi_format_vt_page(&VBI, &PG, cp, VBI_WST_LEVEL_1, FMT_DISPLAY_ROWS, FALSE);
  V_ASSERT(ok, "fmt_accepts_lop");
  V_ASSERT(PG.pgno == 0x100 && PG.subno == 0 && PG.rows == FMT_DISPLAY_ROWS && PG.columns == 41, "fmt_page_header_fields");

  /* --- character set designation end to end: header national bits -> font --- */
  V_ASSERT(PG.font[0] == &vbi_font_descriptors[national], "fmt_font_primary");
  V_ASSERT(PG.font[1] == &vbi_font_descriptors[(FMT_SECOND & ~7) + national], "fmt_font_secondary");

  /* --- page / boxed opacity as format.h documents them --- */
  page_op = (flags & (C5_NEWSFLASH | C6_SUBTITLE)) ? VBI_TRANSPARENT_SPACE : VBI_OPAQUE;
  box_op = VBI_SEMI_TRANSPARENT;
  V_ASSERT(PG.page_opacity[1] == page_op && PG.boxed_opacity[1] == box_op, "fmt_page_opacity");
  V_ASSERT(PG.screen_color == VBI_BLACK && PG.screen_opacity == page_op, "fmt_screen_color");

  /* --- reference: EN 300 706 12.2 --- */
  V_ASSERT(ref_t32_subset(national) >= 0 && ref_t32_subset((FMT_SECOND & ~7) + national) >= 0, "harness_config_sets_transcribed");
  ref_row_l1(&R, tx, ref_t32_subset(national), ref_t32_subset((FMT_SECOND & ~7) + national));

  for (c = 0; c < 40; c++) {
    vbi_char a = PG.text[FMT_ROW * 41 + c];
    struct ref_cell e = R.cell[c];
    /* character */
    if (!e.skip_unicode) {
      if (e.held_space) V_ASSERT(a.unicode == 0x0020 || a.unicode == 0xEE20 || a.unicode == 0xEE00, "fmt_held_mosaic_is_space_after_reset");
      else V_ASSERT(ref_glyph_equiv(a.unicode, e.unicode), "fmt_unicode");
    }
    V_ASSERT(a.foreground == e.fg, "fmt_foreground");
    V_ASSERT(a.background == e.bg, "fmt_background");
    V_ASSERT(a.flash == e.flash, "fmt_flash");
    V_ASSERT(a.conceal == e.conceal, "fmt_conceal");
    V_ASSERT(a.opacity == (e.boxed ? box_op : page_op), "fmt_boxing");
    if (!e.skip_size) V_ASSERT(a.size == e.size, "fmt_size");
    V_ASSERT(!a.underline && !a.bold && !a.italic && !a.proportional && !a.link && a.drcs_clut_offs == 0, "fmt_no_other_attributes");
  }

#if FMT_ROW == 1
  /* --- lower row of double height / double size --- */
  if (R.dh_cell) {
    V_REACH("double_height");
    V_ASSERT(PG.double_height_lower == 4, "fmt_dh_lower_flag");
    for (c = 0; c < 40; c++) {
      vbi_char a = PG.text[2 * 41 + c];
      struct ref_cell e = R.cell[c];
      if (e.skip_size) continue;
      if (e.size == VBI_DOUBLE_HEIGHT || e.size == VBI_DOUBLE_SIZE || (e.size == VBI_OVER_TOP && R.cell[c ? c - 1 : 0].size == VBI_DOUBLE_SIZE)) {
        /* lower half: same character and attributes as the anchor (format.h) */
        V_ASSERT(a.size == (e.size == VBI_DOUBLE_HEIGHT ? VBI_DOUBLE_HEIGHT2 : e.size == VBI_DOUBLE_SIZE ? VBI_DOUBLE_SIZE2 : VBI_OVER_BOTTOM), "fmt_dh_lower_size");
        if (!e.skip_unicode && !e.held_space) V_ASSERT(ref_glyph_equiv(a.unicode, e.unicode), "fmt_dh_lower_unicode");
        V_ASSERT(a.foreground == e.fg && a.background == e.bg && a.flash == e.flash && a.conceal == e.conceal
                 && a.opacity == (e.boxed ? box_op : page_op), "fmt_dh_lower_attr");
      } else {
        /* below a normal height character: a space with the background of the upper character; row 2 data suppressed */
        V_ASSERT(a.unicode == 0x0020 && a.size == VBI_NORMAL_SIZE, "fmt_dh_lower_blank");
        V_ASSERT(a.background == e.bg && a.opacity == (e.boxed ? box_op : page_op), "fmt_dh_lower_blank_bg");
      }
    }
  }
  V_ASSERT(frame_ok(2), "fmt_frame");
  if (!R.dh_code) {
    V_REACH("single_height");
    V_ASSERT(PG.double_height_lower == 0, "fmt_no_dh_flag");
    V_ASSERT(frame_ok(1), "fmt_rows_beyond_display_rows_untouched");
  }
#else
  V_ASSERT(PG.double_height_lower == 0, "fmt_no_dh_flag");
  V_ASSERT(!R.dh_code && !R.dh_cell, "harness_no_dh_in_last_rows");
  V_ASSERT(frame_ok(FMT_ROW), "fmt_frame");
  /* the neighbouring row transmitted spaces only */
#ifndef FMT_PREV_PLAN
  for (c = 0; c < 40 && FMT_ROW > 1; c++) { vbi_char a = PG.text[(FMT_ROW > 1 ? FMT_ROW - 1 : 1) * 41 + c];
    V_ASSERT(a.unicode == 0x0020 && a.foreground == 7 && a.background == 0 && a.size == VBI_NORMAL_SIZE && !a.flash && !a.conceal && a.opacity == page_op, "fmt_other_row_unaffected"); }
#endif
#endif
  if (R.saw_held) V_REACH("held_mosaic");
  if (R.saw_box) V_REACH("boxed");
  if (R.saw_wide) V_REACH("double_width");
  if (R.saw_parity_error) V_REACH("parity_error");
  if (R.saw_esc_text) V_REACH("second_g0");
  V_END();
}

/* Strict form of the held mosaic reset rule alone (Table 26, 1/E): short window, no KNOWN_ guard.  Separate so that the
   deviation of the code under test is one obligation, not a blocker for the rest.  Header row (display_rows 1, cheap; no double
   height there): the size changes are normal size <-> double width. */
V_HARNESS(h_fmt_held_reset)
{
  static const uint8_t hdr[8] = { 0x02, '1', '0', '0', '.', '0', '0', 0x07 };
  cache_page *cp; struct ref_row R; uint8_t code[6]; uint8_t tx[40]; unsigned c; int ok;
  V_INIT();
  in_bytes(code, 6);
  setup_decoder(0, 0);
  cp = setup_page(0, 0);
  /* only mosaic/alpha colour codes, hold/release, size codes and characters (anything else is sent as SPACE): keeps the
     question on the reset rule */
  for (c = 0; c < 6; c++) { unsigned v = code[c] & 0x7Fu;
    if (!(v >= 0x20 || v <= 0x07 || (v >= 0x10 && v <= 0x17) || v == 0x1E || v == 0x1F || v == 0x0C || v == 0x0E)) v = 0x20;
    code[c] = (uint8_t) v; }
  for (c = 0; c < 40; c++) { tx[c] = (uint8_t) ref_par8(c < 8 ? hdr[c] : c < 14 ? code[c - 8] : 0x20u); CPMEM.raw_flat[c] = tx[c]; }
  ok = vbi_format_vt_page(&VBI, &PG, cp, VBI_WST_LEVEL_1, 1, FALSE);
  V_ASSERT(ok, "fmt_accepts_lop");
  ref_row_l1_strict(&R, tx, ref_t32_subset(0), ref_t32_subset(0));
  for (c = 8; c < 16; c++) {
    vbi_char a = PG.text[c];
    struct ref_cell e = R.cell[c];
    if (e.held_space) { V_ASSERT(a.unicode == 0x0020 || a.unicode == 0xEE20 || a.unicode == 0xEE00, "fmt_held_mosaic_reset_on_mode_or_size_change"); }
    else V_ASSERT(ref_glyph_equiv(a.unicode, e.unicode), "fmt_unicode");
  }
  if (R.saw_reset) V_REACH("reset");
  V_END();
}
#endif /* C02FMT_ROWS */

/* =====================================================================================================
 * (c) character set mapping and designation
 * ===================================================================================================== */

/* Latin G0 with every national option sub-set of the library against Table 36 */
V_HARNESS(h_cs_latin)
{
  unsigned n, c, u; int pos, row;
  V_INIT();
  n = in_u8() % 14u; c = 0x20u + in_u8() % 96u;
  u = vbi_teletext_unicode(LATIN_G0, (vbi_national_subset) n, c);
  V_ASSERT(u != 0 && u <= 0xFFFF, "cs_latin_nonzero_ucs2");
  pos = ref_t36_position(c);
  if (pos < 0) {
    /* outside the 13 national option positions the Latin G0 set is ISO 646 IRV; 7/F is the filled block */
    V_ASSERT(u == (c == 0x7F ? 0x25A0u : c), "cs_latin_invariant_positions");
    V_REACH("invariant");
  } else {
    row = ref_t36_row_of_libenum((int) n);
    if (row >= 0) {
      V_ASSERT(ref_glyph_equiv(u, ref_t36[row][pos]), "cs_latin_national_option_table36");
      V_REACH("national");
    }
  }
  V_END();
}

/* every character set of section 15, every code: total, non-zero, UCS-2; shared structure of all G0 sets */
V_HARNESS(h_cs_all)
{
  unsigned s, n, c, u;
  V_INIT();
  s = LATIN_G0 + in_u8() % 13u; n = in_u8() % 14u; c = 0x20u + in_u8() % 96u;
  if (s == BLOCK_MOSAIC_G1 && c >= 0x40 && c <= 0x5F) c ^= 0x20;   /* documented precondition: G1 has no codes 4/0..5/F */
  u = vbi_teletext_unicode((vbi_character_set) s, (vbi_national_subset) n, c);
  V_ASSERT(u != 0 && u <= 0xFFFF, "cs_nonzero_ucs2");
  if (s == LATIN_G0 || s == CYRILLIC_1_G0 || s == CYRILLIC_2_G0 || s == CYRILLIC_3_G0 || s == GREEK_G0 || s == ARABIC_G0 || s == HEBREW_G0) {
    V_ASSERT(c != 0x20 || u == 0x0020, "cs_g0_space");
    V_ASSERT(!(c >= 0x30 && c <= 0x39) || u == c, "cs_g0_digits");
    V_ASSERT(c != 0x7F || u == 0x25A0, "cs_g0_7f_block");
    V_REACH("g0");
  }
  if (s == BLOCK_MOSAIC_G1) V_ASSERT(u == 0xEE00u + c && vbi_is_gfx(u), "cs_g1_private_codes");
  if (s == SMOOTH_MOSAIC_G3) V_ASSERT(u == 0xEF00u + c && vbi_is_gfx(u), "cs_g3_private_codes");
  V_END();
}

/* character_set_designation(): Table 32 */
V_HARNESS(h_cs_designation)
{
  struct ttx_extension ext; cache_page *cp; struct vbi_font_descr *font[2]; unsigned code[2], national, i;
  V_INIT();
  code[0] = in_u8() & 0x7Fu; code[1] = in_u8() & 0x7Fu; national = in_u8() & 7u;    /* 7 bit designation code (X/28, M/29), 3 header bits */
  memset(&ext, 0, sizeof ext);
  ext.charset_code[0] = code[0]; ext.charset_code[1] = code[1];
  cp = setup_page(national, 0);
  font[0] = font[1] = 0;
  character_set_designation(font, &ext, cp);
  for (i = 0; i < 2; i++) {
    unsigned byhdr = (code[i] & 0x78u) | national;      /* region of the designation code, option from C12-C14 */
    long idx = font[i] - vbi_font_descriptors;
    int want = -1;
    V_ASSERT(font[i] != 0 && idx >= 0 && idx < 88, "csd_font_in_table");
    V_ASSERT(font[i]->G0 >= LATIN_G0 && font[i]->G0 <= HEBREW_G0 && font[i]->G2 != 0 && (unsigned) font[i]->subset <= 13, "csd_font_usable");
    /* Table 32: the region comes from the designation code, the option within the region from C12-C14 of the page header
       ("the three least significant bits will be replaced", vbi_teletext_set_default_region).  Where Table 32 reserves that
       combination the standard defines nothing: only a usable font is required. */
    if (ref_t32_defined(byhdr)) want = (int) byhdr;
    if (want >= 0) {
      V_ASSERT(idx == want, "csd_font_follows_table32");
      V_ASSERT(ref_t32_matches(want, (int) font[i]->G0, (int) font[i]->G2, (int) font[i]->subset), "csd_descriptor_is_table32_row");
      if (i == 0) V_REACH("defined");
    } else if (i == 0) V_REACH("reserved");
  }
  V_END();
}
