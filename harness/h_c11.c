/* C11 - event handlers run exactly once, in order, and may re-register from callbacks.
 *
 * Real unit: src/vbi.c (included): vbi_event_handler_register/_unregister/_add/_remove, vbi_send_event,
 * vbi_event_enable, vbi_reset_prog_info.  Everything else vbi.c references is in models/c11_stubs.c
 * (mutex flag model with lock-discipline assertions, logged reset functions, abort-if-reached stubs);
 * struct caption / struct teletext are carved (models/c11_carve.h).
 *
 * Decoder: a static zero object = what calloc in vbi_decoder_new() leaves in every field the event code reads
 * (handlers = next_handler = NULL, event_mask = 0, unlocked mutex); vbi_decoder_new is not run.
 *
 * Four harnesses share one reference model (the shadow list) and one callback body:
 *
 *  h_api_step     INV-STEP.  From EVERY handler list satisfying the representation invariant I (<= N0 records)
 *                 one API call (any of the four functions, any arguments) outside delivery: the list afterwards
 *                 is exactly what the documentation says, I holds again, event_mask = OR of masks, Teletext
 *                 reset exactly when the TTX_PAGE bit appears, mutex released.
 *  h_api_step_cb  INV-STEP inside delivery (cursor lemma): same with the event mutex held and the traversal
 *                 cursor at an arbitrary record: afterwards the cursor is the next surviving record.
 *  h_deliver      From EVERY list satisfying I (<= N0 records): NEV x vbi_send_event() with a symbolic single-bit
 *                 type; every handler invocation checks the delivery contract and performs up to NACT further
 *                 symbolic API calls (on itself or any other (function, user pointer) pair; at most CBK per
 *                 event - this bounds the traversal, every call from a callback can append one more record).
 *                 Afterwards the list is again exactly the expected one and I holds (so any number of events /
 *                 API calls between events follows by induction, as long as the list stays within the bound).
 *  h_events       SEQ cross-check without I: zero decoder, R_OPS symbolic API calls, then the events as above.
 *
 * Composition (argument, each part a solver verdict): at every head of the vbi_send_event loop "list == shadow,
 * cursor == first record after the current one that is still registered" holds; the loop step keeps it
 * (h_deliver, all list shapes), every nested API call keeps it (h_api_step_cb, every cursor position), hence
 * nesting of any depth; h_deliver with CBK = 2, 3 checks the composition directly for bounded nesting.
 *
 *  I:  vbi->handlers is a NULL-terminated list of distinct malloc'ed records with pairwise different
 *      (handler, user_data), every event_mask != 0, vbi->event_mask = OR of the masks, next_handler = NULL,
 *      event_mutex unlocked.  (Every such list is reachable: register the records in order.)
 *
 * Shadow list = reference model written from the API documentation (vbi.c doc comments) and the property
 * text: one entry per registration INSTANCE in registration order.  "remove X, register X again" makes a new
 * instance at the end of the order.  An instance takes part in the delivery of an event iff it is live and
 * its mask contains the event type at its turn;
 *   must  = it was live with the type in its mask when the event was raised and neither removed nor had the
 *           type masked out since              -> has to be called exactly once, in order;
 *   other = added, or had the type added to its mask, during the delivery -> at most once, in order.
 * Legacy vbi_event_handler_add(mask, fn, ud): "replaces all existing handlers with this handler function,
 * ignoring user_data": every live instance of fn gets the mask (0: all are removed); only if there is none a
 * new instance (fn, ud) is appended.
 */
#include "c11_carve.h"
#include "verif.h"
#include "c11_stubs.h"

/* Indirect call cut (default; -DC11_DIRECT_CALL switches it off): the one indirect call of the unit,
 * `eh->handler(ev, eh->user_data)` in vbi_send_event(), is routed through c11_dispatch(), which maps the
 * function pointer to the index of the harness handler function (asserting that it IS one of them) and runs
 * the common callback body once.  This is what CBMC's function pointer removal does anyway (an if-chain over
 * the NF candidates), except that the callback body - which contains nested, inlined copies of the list code -
 * is symbolically executed once per traversal step instead of NF times.  `eh->handler` is still evaluated in
 * place (dereference checks on the record stay).  The -DC11_DIRECT_CALL obligations run the verbatim call. */
#ifndef C11_DIRECT_CALL
#include "vbi.h"
static void c11_dispatch(vbi_event_handler fp, vbi_event *ev, void *ud);
#define handler(e, u) handler, c11_dispatch(eh->handler, (e), (u))
#endif
#include "src/vbi.c"
#undef handler

#ifndef NF
#define NF 3            /* handler functions (<= 4) */
#endif
#define NU 2            /* user pointers: NULL and &ucell */
#ifndef N0
#define N0 3            /* h_api_step / h_deliver: records in the initial list (<= NF * NU) */
#endif
#ifndef R_OPS
#define R_OPS 3         /* h_events: prologue API calls */
#endif
#ifndef NEV
#define NEV 1           /* events raised */
#endif
#ifndef NACT
#define NACT 1          /* API calls per callback invocation */
#endif
#ifndef CBK
#define CBK 3           /* API calls from callbacks per event, total */
#endif
#define START ((N0) > (R_OPS) ? (N0) : (R_OPS))
#define MAXI (START + NEV * CBK)   /* registration instances that can ever exist (CBK >= 1 covers h_api_step) */

enum { OP_NONE, OP_REGISTER, OP_ADD, OP_UNREGISTER, OP_REMOVE, OP_KINDS };
/* API calls made from callbacks: by default register/add with any mask INCLUDING 0 (= what the one-line
 * wrappers unregister/remove expand to; the wrappers themselves are exercised by h_api_step and the h_events
 * prologue); all five kinds with -DCB_WRAPPERS.  Halves the number of inlined copies of the list code. */
#ifndef CB_API
#define CB_API 0        /* 0: callbacks call register or legacy add (symbolic choice); 1: register only; 2: legacy add only */
#endif
#ifdef CB_WRAPPERS
#define CB_KINDS OP_KINDS
#else
#define CB_KINDS (OP_ADD + 1)
#endif
struct op { uint8_t kind, f, u; int mask; };

static vbi_decoder V;                 /* static zero object, never malloc'ed symbolically */
static int ucell;
static vbi_event EV;

static struct inst { uint8_t live, f, u, must, called; int mask; } sh[MAXI];
static unsigned sh_n, snap_n;
static int in_delivery, cur_type, last_called;
static unsigned n_calls, budget_used, cur_event;
static struct op act[NEV][CBK];

static void on_call(unsigned f, vbi_event *ev, void *ud);
static void hf0(vbi_event *ev, void *ud) { on_call(0, ev, ud); }
static void hf1(vbi_event *ev, void *ud) { on_call(1, ev, ud); }
static void hf2(vbi_event *ev, void *ud) { on_call(2, ev, ud); }
#if NF > 3
static void hf3(vbi_event *ev, void *ud) { on_call(3, ev, ud); }
static const vbi_event_handler H[4] = { hf0, hf1, hf2, hf3 };
#else
static const vbi_event_handler H[4] = { hf0, hf1, hf2, hf2 };
#endif
static void *U(unsigned u) { return u ? (void *) &ucell : NULL; }

#ifndef C11_DIRECT_CALL
static void c11_dispatch(vbi_event_handler fp, vbi_event *ev, void *ud)
{
  unsigned f = NF;
  if (fp == hf0) f = 0; else if (fp == hf1) f = 1; else if (fp == hf2) f = 2;
#if NF > 3
  else if (fp == hf3) f = 3;
#endif
  V_ASSERT(f < NF, "called_function_is_a_registered_handler");
  if (f < NF) on_call(f, ev, ud);
}
#endif

static void read_op(struct op *o, unsigned kinds)
{
  /* total decoding: every byte string is a valid input (native smoke / replay never hits an assumption here) */
  o->kind = (uint8_t) (in_u8() % kinds); o->f = (uint8_t) (in_u8() % NF); o->u = (uint8_t) (in_u8() % NU); o->mask = in_int();
#ifdef MASK_AND
  o->mask &= MASK_AND;
#endif
}

/* ---- shadow list ------------------------------------------------------ */
static int sh_or(void)
{ unsigned i; int m = 0; for (i = 0; i < MAXI; i++) if (i < sh_n && sh[i].live) m |= sh[i].mask; return m; }

static void sh_new(unsigned f, unsigned u, int mask)
{
  V_ASSERT(sh_n < MAXI, "harness_shadow_capacity");
  if (sh_n < MAXI) {
    sh[sh_n].live = 1; sh[sh_n].f = (uint8_t) f; sh[sh_n].u = (uint8_t) u; sh[sh_n].mask = mask;
    sh[sh_n].must = 0; sh[sh_n].called = 0; sh_n++;
  }
}

/* by_fn_only = legacy add/remove (user pointer ignored when matching) */
static void sh_set(unsigned f, unsigned u, int mask, int by_fn_only)
{
  unsigned i; int found = 0;
  for (i = 0; i < MAXI; i++)
    if (i < sh_n && sh[i].live && sh[i].f == f && (by_fn_only || sh[i].u == u)) {
      found = 1;
      if (!mask) sh[i].live = 0;
      else { sh[i].mask = mask; if (!(mask & cur_type)) sh[i].must = 0; }
    }
  if (!found && mask) sh_new(f, u, mask);
}

/* Frame: decoder members the event code has no business with (the neighbours of the members vbi_event_enable may
 * reset - network, prog_info[], aspect_source, vps_pid - and of the list head) hold sentinels before and must
 * hold them after every API call / event.  (CBMC checks p->member[i] only against the end of the enclosing
 * object, so an overrun from one decoder member into the next would otherwise pass.) */
static void frame_set(void)
{
  V.time = 2.5; V.chswcd = 0x5A5A; V.triggers = (vbi_trigger *) &ucell;
  V.brightness = 77; V.contrast = 88; V.cn = (cache_network *) &ucell; V.ca = (vbi_cache *) &ucell;
  V.pageref = 99; V.wss_last[0] = 0xA5; V.wss_last[1] = 0x5A; V.wss_rep_ct = 0x1234; V.wss_time = 1.5;
}
static void frame_check(void)
{
  V_ASSERT(V.time == 2.5 && V.chswcd == 0x5A5A && V.triggers == (vbi_trigger *) &ucell, "frame_before_and_after_network");
  V_ASSERT(!c11_mutex_held(&V.chswcd_mutex) && !c11_mutex_held(&V.prog_info_mutex), "frame_other_mutexes");
  V_ASSERT(V.brightness == 77 && V.contrast == 88, "frame_after_prog_info");
  V_ASSERT(V.cn == (cache_network *) &ucell && V.ca == (vbi_cache *) &ucell && V.pageref == 99, "frame_before_event_list");
  V_ASSERT(V.wss_last[0] == 0xA5 && V.wss_last[1] == 0x5A && V.wss_rep_ct == 0x1234 && V.wss_time == 1.5, "frame_between_list_and_vps_pid");
}

/* the real list is exactly the live shadow instances, in registration order (=> invariant I again);
 * idle: not inside vbi_send_event (cursor cleared, mutex free).  Remembers the record of instance `watch`. */
static struct event_handler *watched;
static void list_matches_shadow(int idle, unsigned watch)
{
  unsigned i; struct event_handler *p = V.handlers;
  watched = NULL;
  for (i = 0; i < MAXI; i++)
    if (i < sh_n && sh[i].live) {
      V_ASSERT(p != NULL, "list_has_every_live_registration");
      if (!p) return;
      V_ASSERT(p->handler == H[sh[i].f] && p->user_data == U(sh[i].u), "list_order_and_identity");
      V_ASSERT(p->event_mask == sh[i].mask && p->event_mask != 0, "list_masks");
      if (i == watch) watched = p;
      p = p->next;
    }
  V_ASSERT(p == NULL, "list_has_nothing_else");
  V_ASSERT(V.event_mask == sh_or(), "event_mask_is_or_of_live_masks");
  frame_check();
  if (idle) {
    V_ASSERT(V.next_handler == NULL, "traversal_cursor_cleared");
    V_ASSERT(!c11_mutex_held(&V.event_mutex), "event_mutex_released");
  }
}

/* an arbitrary list satisfying I, built directly (N0 malloc'ed records, the first n linked) + its shadow */
static struct event_handler *nd[N0];
static void build_list(void)
{
  unsigned i, j, n; uint8_t f[N0], u[N0]; int mask[N0], m = 0;
  n = in_u8() % (N0 + 1);
  for (i = 0; i < N0; i++) {
    f[i] = (uint8_t) (in_u8() % NF); u[i] = (uint8_t) (in_u8() % NU); mask[i] = in_int();
#ifdef MASK_AND
    mask[i] &= MASK_AND;
#endif
    V_ASSUME(i >= n || mask[i] != 0);                                        /* I: no record with an empty mask */
    for (j = 0; j < i; j++) V_ASSUME(i >= n || f[i] != f[j] || u[i] != u[j]);  /* I: (function, user pointer) pairs differ */
  }
  for (i = 0; i < N0; i++) {
    nd[i] = (struct event_handler *) calloc(1, sizeof *nd[i]);
    nd[i]->handler = H[f[i]]; nd[i]->user_data = U(u[i]); nd[i]->event_mask = mask[i];
  }
  for (i = 0; i < N0; i++) nd[i]->next = (i + 1 < N0 && i + 1 < n) ? nd[i + 1] : NULL;
  V.handlers = n ? nd[0] : NULL; V.next_handler = NULL;
  for (i = 0; i < N0; i++) {
    if (i < n) {
      sh[i].live = 1; sh[i].f = f[i]; sh[i].u = u[i]; sh[i].mask = mask[i]; sh[i].must = 0; sh[i].called = 0;
      m |= mask[i];
    } else
      free(nd[i]);
  }
  sh_n = n; V.event_mask = m;
  frame_set();
}

/* ---- one API call + the checks that hold after every API call -------------- */
static void do_op(const struct op *o, int all_kinds, int api)
{
  int before = sh_or(), now; unsigned t0 = c11_n_ttx_switched; vbi_bool r = TRUE;
  if (api != 2 && o->kind == OP_REGISTER) {
    r = vbi_event_handler_register(&V, o->mask, H[o->f], U(o->u)); sh_set(o->f, o->u, o->mask, 0);
  } else if (api != 1 && o->kind == OP_ADD) {
    r = vbi_event_handler_add(&V, o->mask, H[o->f], U(o->u)); sh_set(o->f, o->u, o->mask, 1);
  } else if (all_kinds && o->kind == OP_UNREGISTER) {
    vbi_event_handler_unregister(&V, H[o->f], U(o->u)); sh_set(o->f, o->u, 0, 0);
  } else if (all_kinds && o->kind == OP_REMOVE) {
    vbi_event_handler_remove(&V, H[o->f]); sh_set(o->f, 0, 0, 1);
  } else
    return;
  now = sh_or();
  V_ASSERT(r == TRUE, "api_call_succeeds");
  V_ASSERT(V.event_mask == now, "event_mask_is_or_of_live_masks");
  V_ASSERT(!(V.event_mask & VBI_EVENT_TTX_PAGE) == !(now & VBI_EVENT_TTX_PAGE), "ttx_acquisition_iff_ttx_handler");
  /* Teletext decoder state is reset when (and only when) the TTX_PAGE bit appears: a reset while a TTX handler
   * stays registered would throw away pages being acquired */
  V_ASSERT(c11_n_ttx_switched - t0 == ((now & ~before & VBI_EVENT_TTX_PAGE) ? 1u : 0u), "ttx_reset_iff_ttx_bit_appears");
  V_ASSERT(c11_mutex_held(&V.event_mutex) == in_delivery, "event_mutex_state_after_api_call");
  if (now & ~before & VBI_EVENT_TTX_PAGE) { if (in_delivery) V_REACH("ttx_on_in_callback"); else V_REACH("ttx_on"); }
  if (!in_delivery && (before & ~now & VBI_EVENT_TTX_PAGE)) V_REACH("ttx_off");
}

/* ---- every handler invocation lands here -------------------------------------- */
static void on_call(unsigned f, vbi_event *ev, void *ud)
{
  unsigned i, a, u; int me = -1;
  V_ASSERT(in_delivery, "called_only_during_send_event");
  V_ASSERT(ev == &EV && ev->type == cur_type, "event_passed_through");
  V_ASSERT(ud == NULL || ud == (void *) &ucell, "user_pointer_is_one_that_was_registered");
  V_ASSERT(c11_mutex_held(&V.event_mutex), "event_mutex_held_in_callback");
  u = (ud != NULL);
  for (i = 0; i < MAXI; i++)
    if (i < sh_n && sh[i].live && sh[i].f == f && sh[i].u == u) me = (int) i;
  /* a live registration of exactly this (function, user pointer): not called after removal, own user pointer */
  V_ASSERT(me >= 0, "called_handler_is_live_with_this_user_pointer");
  if (me < 0) return;
  V_ASSERT((sh[me].mask & cur_type) != 0, "called_only_for_requested_type");
  V_ASSERT(!sh[me].called, "called_at_most_once");
  V_ASSERT(me > last_called, "called_in_registration_order");
  for (i = 0; i < MAXI; i++)
    if ((int) i > last_called && (int) i < me)
      V_ASSERT(!(sh[i].live && sh[i].must), "no_due_handler_skipped");
  sh[me].called = 1; last_called = me; n_calls++;
  if (n_calls == 3) V_REACH("three_calls");
  if ((unsigned) me >= snap_n) V_REACH("added_during_delivery_called");
  for (a = 0; a < NACT; a++)
    if (budget_used < CBK) {
      struct op o = act[cur_event][budget_used];
      budget_used++;
      do_op(&o, CB_KINDS == OP_KINDS, CB_API);
      if (!sh[me].live) V_REACH("removed_itself");
    }
}

static void raise_event(unsigned e, int type)
{
  unsigned i;
  cur_type = type; cur_event = e;
  for (i = 0; i < MAXI; i++) {
    sh[i].must = (i < sh_n && sh[i].live && (sh[i].mask & type)) ? 1 : 0;
    sh[i].called = 0;
  }
  snap_n = sh_n; last_called = -1; n_calls = 0; budget_used = 0;
  memset(&EV, 0, sizeof EV); EV.type = type;
  in_delivery = 1;
  vbi_send_event(&V, &EV);
  in_delivery = 0;
  for (i = 0; i < MAXI; i++) {
    if ((int) i > last_called)
      V_ASSERT(!(sh[i].live && sh[i].must), "no_due_handler_skipped_at_end");
    if (sh[i].live && sh[i].must)
      V_ASSERT(sh[i].called == 1, "due_handler_called_exactly_once");
    if (i < snap_n && !sh[i].live && sh[i].must && !sh[i].called) V_REACH("removed_before_its_turn");
  }
  V_ASSERT(!c11_mutex_held(&V.event_mutex), "event_mutex_released_after_send");
  V_ASSERT(EV.type == type, "event_not_modified");
  cur_type = 0;
}

static void read_events(int *type)
{
  unsigned i, e;
  for (e = 0; e < NEV; e++) {
#ifdef TYPE_N                                     /* grid: the bit is one of TYPE_LO .. TYPE_LO+TYPE_N-1 */
    uint32_t t = 1u << (TYPE_LO + in_u8() % TYPE_N);
#else
    uint32_t t = 1u << (in_u8() & 31);            /* event types are single bits: any of the 32 */
#endif
    type[e] = (int) t;
    for (i = 0; i < CBK; i++) read_op(&act[e][i], CB_KINDS);
  }
}

/* ---- 1. INV-STEP for the API outside delivery ----------------------------------- */
V_HARNESS(h_api_step)
{
  struct op o; unsigned n0;
  V_INIT();
  build_list();
  read_op(&o, OP_KINDS);
  n0 = sh_n;
  do_op(&o, 1, 0);
  list_matches_shadow(1, MAXI);
  if (sh_n > n0) V_REACH("appended");
  if (sh_n == n0 && n0 >= 2 && !sh[0].live && !sh[1].live) V_REACH("removed_two");
  V_END();
}

/* ---- 1b. INV-STEP for an API call made from inside a handler: the cursor lemma ----------
 * Mid-delivery state: list satisfying I except that the event mutex is held (by vbi_send_event) and the
 * traversal cursor vbi->next_handler points to an arbitrary record nd[c] of the list or is NULL (c == n: the
 * running handler is the last one).  One API call of any kind.  Afterwards: list as documented; the cursor is
 * the first record at or after the old cursor position that was not removed - so every instance that is still
 * due will be visited, removed ones never, in order; if no such record exists the cursor is NULL or the record
 * appended by this very call (either is allowed: "added during delivery => at most once"); mutex still held.
 * Together with h_deliver (traversal step + bounded nesting) this gives nesting of any depth by induction. */
V_HARNESS(h_api_step_cb)
{
  struct op o; unsigned i, c, n0; int exp = -1;
  V_INIT();
  build_list();
  read_op(&o, OP_KINDS);
  c = in_u8();
  n0 = sh_n;
  if (c > n0) c = n0;
  for (i = 0; i < N0; i++) if (i == c && i < n0) V.next_handler = nd[i];
  pthread_mutex_lock(&V.event_mutex); in_delivery = 1;
  do_op(&o, 1, 0);
  list_matches_shadow(0, n0);
  V_ASSERT(c11_mutex_held(&V.event_mutex), "event_mutex_still_held_by_send_event");
  for (i = 0; i < N0; i++) if (exp < 0 && i >= c && i < n0 && sh[i].live) exp = (int) i;
  if (exp >= 0) {
    V_ASSERT(V.next_handler == nd[exp], "cursor_is_next_surviving_record");
    if (exp != (int) c) V_REACH("cursor_patched");
  } else {
    V_ASSERT(V.next_handler == NULL || (sh_n > n0 && V.next_handler == watched), "cursor_null_or_new_record_when_tail_removed");
    if (c < n0) V_REACH("cursor_tail_removed");
  }
  in_delivery = 0;
  V_END();
}

/* ---- 2. delivery from an arbitrary list satisfying I -------------------------------- */
V_HARNESS(h_deliver)
{
  unsigned e; int type[NEV];
  V_INIT();
  build_list();
  read_events(type);
  for (e = 0; e < NEV; e++) {
    raise_event(e, type[e]);
    list_matches_shadow(1, MAXI);
  }
  V_END();
}

/* ---- 3. SEQ cross-check from the constructor state ------------------------------------ */
V_HARNESS(h_events)
{
  unsigned i, e; struct op pro[R_OPS]; int type[NEV];
  V_INIT();
  for (i = 0; i < R_OPS; i++) read_op(&pro[i], OP_KINDS);
  read_events(type);
  frame_set();
  list_matches_shadow(1, MAXI);                          /* INIT |= I */
  for (i = 0; i < R_OPS; i++) do_op(&pro[i], 1, 0);
  list_matches_shadow(1, MAXI);
  for (e = 0; e < NEV; e++) {
    raise_event(e, type[e]);
    list_matches_shadow(1, MAXI);
  }
  V_END();
}
