/* C04 "never as a service that was not requested": the job table of the new raw decoder after vbi3_raw_decoder_remove_services.
 *
 * Real unit: src/raw_decoder.c (included).  The number of jobs NJ and WHICH of them match the removed service set (bit i of MATCH)
 * are a case split done by the runner (exhaustive for NJ <= 3: the memmove length and the loop's trip count are then concrete on every
 * path - with a symbolic match pattern the compaction gave no verdict: 174 s, 6.4 GB, killed); the contents of every job (service id bits,
 * the whole bit slicer state), the service sets and the pattern table are symbolic. */
#include "verif.h"
#include "src/raw_decoder.c"

#ifdef VERIF_CBMC
/* libc model (part of the claim): cbmc's built-in memmove replaces a byte range of the WHOLE decoder object, after which n_jobs and the job ids
   no longer constant-fold and the compaction loop forks at every iteration (no verdict).  A byte loop with concrete length and offsets
   keeps the decoder field sensitive.  Overlap handled as ISO C requires.  The native replay build uses the real libc memmove. */
void *memmove(void *dst, const void *src, size_t n)
{
  uint8_t *d = dst; const uint8_t *s = src; size_t i;
  if (d == s || n == 0) return dst;
  if (d < s) for (i = 0; i < n; i++) d[i] = s[i];
  else for (i = n; i > 0; i--) d[i - 1] = s[i - 1];
  return dst;
}
#endif

#ifndef NJ
#define NJ 2
#endif
#ifndef MATCH
#define MATCH 2
#endif
#ifndef SVC_REMOVED
#define SVC_REMOVED (VBI_SLICED_TELETEXT_B | VBI_SLICED_VPS)      /* what the caller no longer wants */
#define SVC_MATCHING VBI_SLICED_TELETEXT_B_L25_625                /* a job of the removed set (Teletext B jobs carry a subset id) */
#define SVC_OTHER VBI_SLICED_CAPTION_625_F1                       /* << i: caption 625 F1/F2, caption 525 F1: jobs of services that stay */
#endif
#ifndef PROWS
#define PROWS 1          /* rows of the pattern table (0: no pattern table allocated) */
#endif

static vbi3_raw_decoder RD;
static _vbi3_raw_decoder_job J0[NJ];
#if PROWS > 0
static int8_t PAT[PROWS * _VBI3_RAW_DECODER_MAX_WAYS], PAT0[PROWS * _VBI3_RAW_DECODER_MAX_WAYS];
#endif

static int jobs_eq(const _vbi3_raw_decoder_job *a, const _vbi3_raw_decoder_job *b)
{ const uint8_t *p = (const uint8_t *) a, *q = (const uint8_t *) b; size_t i; int ok = 1; for (i = 0; i < sizeof *a; i++) ok &= (p[i] == q[i]); return ok; }
static int job_zero(const _vbi3_raw_decoder_job *a)
{ const uint8_t *p = (const uint8_t *) a; size_t i; int ok = 1; for (i = 0; i < sizeof *a; i++) ok &= (p[i] == 0); return ok; }

V_HARNESS(h_remove_services)
{
  vbi_service_set services, all, ret; unsigned i, k, kept = 0;
  V_INIT();
  /* the removed set and the id of every job are CONCRETE (a job with a symbolic id forks the loop at every iteration and the memmove length
     becomes symbolic: no verdict); job i decodes a service of the removed set iff bit i of MATCH; everything else of a job is symbolic */
  services = SVC_REMOVED; all = in_u32() & ~(vbi_service_set) SVC_REMOVED;
  for (i = 0; i < NJ; i++) {
    /* scalar members assigned one by one (a memcpy of symbolic bytes over the job would make its id a byte extract that no longer
       constant-folds after the compaction's memmove) */
    { vbi3_bit_slicer *b = &RD.jobs[i].slicer;
      b->sample_format = (vbi_pixfmt) in_u32(); b->cri = in_u32(); b->cri_mask = in_u32(); b->thresh = in_u32(); b->thresh_frac = in_u32();
      b->cri_samples = in_u32(); b->cri_rate = in_u32(); b->oversampling_rate = in_u32(); b->phase_shift = in_u32(); b->step = in_u32();
      b->frc = in_u32(); b->frc_bits = in_u32(); b->total_bits = in_u32(); b->payload = in_u32(); b->endian = in_u32();
      b->bytes_per_sample = in_u32(); b->skip = in_u32(); b->green_mask = in_u32(); }
    RD.jobs[i].id = ((MATCH >> i) & 1) ? SVC_MATCHING : (SVC_OTHER << i);
    all |= RD.jobs[i].id;
    J0[i] = RD.jobs[i];
  }
  RD.n_jobs = NJ; RD.services = all;
  RD.sampling.count[0] = PROWS; RD.sampling.count[1] = 0;
#if PROWS > 0
  /* pattern rows: representation invariant of add_job_to_pattern (entries 0..n_jobs or negative = blank line counter) */
  for (i = 0; i < PROWS * _VBI3_RAW_DECODER_MAX_WAYS; i++) { PAT[i] = (int8_t) in_u8(); V_ASSUME(PAT[i] <= NJ); PAT0[i] = PAT[i]; }
  RD.pattern = PAT;
#endif

  ret = vbi3_raw_decoder_remove_services(&RD, services);

  V_ASSERT(ret == (all & ~services) && RD.services == ret, "remove_services_returns_remaining_set");
  /* the jobs that remain are exactly the jobs of services that were not removed, in their old order, unmodified */
  for (i = 0; i < NJ; i++)
    if (!((MATCH >> i) & 1)) {
      V_ASSERT(kept < RD.n_jobs, "job_of_kept_service_survives");
      if (kept < RD.n_jobs) V_ASSERT(jobs_eq(&RD.jobs[kept], &J0[i]), "kept_job_unmodified_in_order");
      kept++;
    }
  V_ASSERT(RD.n_jobs == kept, "no_job_of_a_removed_service_remains");
  for (k = 0; k < NJ; k++) if (k < RD.n_jobs) V_ASSERT((RD.jobs[k].id & services) == 0, "remaining_jobs_decode_only_requested_services");
  for (k = 0; k < NJ; k++) if (k >= RD.n_jobs) V_ASSERT(job_zero(&RD.jobs[k]), "vacated_slots_cleared");
#if PROWS > 0
  /* pattern table: no way refers to a job that no longer exists; the ways of kept jobs still name them (renumbered) */
  for (i = 0; i < PROWS * _VBI3_RAW_DECODER_MAX_WAYS; i++) V_ASSERT(PAT[i] <= (int) RD.n_jobs, "pattern_names_only_existing_jobs");
#endif
  if (RD.n_jobs < NJ) V_REACH("removed");
  V_END();
}
