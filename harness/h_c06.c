/* C06 - DVB VBI multiplexer: output conforms to EN 300 472 / EN 301 775 / ISO 13818-1 and
 *       demultiplexes (real demux) to its input.
 * Real units: src/dvb_mux.c and src/dvb_demux.c (both included textually: statics reachable), src/hamm.c (linked).
 * The two units define file-local enum constants of the same name (VBI_ERR_BUFFER_OVERFLOW, VBI_ERR_RAW_BUFFER_OVERFLOW);
 * the multiplexer's are renamed by macro while dvb_mux.c is read (no other textual change).
 * Grid parameters (-D): NL lines per frame, BUF data-unit buffer size, FIXED data_identifier class,
 *                       TS, PMIN, PMAX, OBUF (coroutine output buffer size).
 */
#include "verif.h"
#include "ref_codes.h"
#include "c06_env.h"
#define VBI_ERR_BUFFER_OVERFLOW MUX_VBI_ERR_BUFFER_OVERFLOW
#define VBI_ERR_RAW_BUFFER_OVERFLOW MUX_VBI_ERR_RAW_BUFFER_OVERFLOW
#include "src/dvb_mux.c"
#undef VBI_ERR_BUFFER_OVERFLOW
#undef VBI_ERR_RAW_BUFFER_OVERFLOW
#include "src/dvb_demux.c"

/* Harness groups (big static objects cost symex time in every harness of the file): G_PK = h_mux_packets with the
 * 70 KB demultiplexer object; everything else needs no big object.  None given = all. */
#if !defined(G_PK) && !defined(G_SL) && !defined(G_MX)
#define G_PK
#define G_SL
#define G_MX
#endif
#ifndef NL
#define NL 2
#endif
#ifndef BUF
#define BUF 92
#endif
#ifndef FIXED
#define FIXED 1
#endif
#ifndef TS
#define TS 0
#endif
#ifndef PMIN
#define PMIN 184
#endif
#ifndef PMAX
#define PMAX 184
#endif
#ifndef OBUF
#define OBUF 50
#endif
#ifndef F2L
#define F2L 7     /* line number of the one Teletext line of the SECOND frame (h_mux_packets, h_mux_cor_equiv) */
#endif
/* Service ids/mask: symbolic by default.  With -DID0=.. [-DID1 ..] -DMASK=.. they are fixed by the grid, which makes
 * every data-unit offset and the demultiplexer's output cursor concrete (measured: a 4-byte store through a
 * symbolic frame.sp costs ~100 K clauses, ~2.3 M clauses per demux loop iteration); line numbers, payload,
 * data_identifier, stuffing flag, PTS, PID stay symbolic.  The real demultiplexer is run only in that mode
 * (WITH_DEMUX); with symbolic ids the independent parser alone decides. */
#ifdef ID0
#define WITH_DEMUX 1
#endif
static void fix_ids(vbi_sliced *sl, uint32_t *mask)
{
  (void) sl; (void) mask;
#ifdef ID0
  sl[0].id = ID0;
#endif
#if defined(L0) && NL > 0
  sl[0].line = L0;
#endif
#if defined(ID1) && NL > 1
  sl[1].id = ID1;
#endif
#if defined(L1) && NL > 1
  sl[1].line = L1;
#endif
#if defined(ID2) && NL > 2
  sl[2].id = ID2;
#endif
#if defined(L2) && NL > 2
  sl[2].line = L2;
#endif
#if defined(ID3) && NL > 3
  sl[3].id = ID3;
#endif
#if defined(L3) && NL > 3
  sl[3].line = L3;
#endif
#if defined(ID4) && NL > 4
  sl[4].id = ID4;
#endif
#if defined(L4) && NL > 4
  sl[4].line = L4;
#endif
#if defined(ID5) && NL > 5
  sl[5].id = ID5;
#endif
#if defined(L5) && NL > 5
  sl[5].line = L5;
#endif
#if defined(ID6) && NL > 6
  sl[6].id = ID6;
#endif
#if defined(L6) && NL > 6
  sl[6].line = L6;
#endif
#ifdef MASK
  *mask = MASK;
#endif
}

/* ------------------------------------------------------------------------------------------
 * Independent reading of the standards (not derived from dvb_mux.c):
 *  EN 301 775 4.4/table 1: data_unit() = data_unit_id(8) data_unit_length(8) data_field() N*stuffing_byte(0xFF);
 *     data_identifier 0x10..0x1F => data_unit_length == 0x2C always (EN 300 472 compatibility).
 *  4.5 Teletext (id 0x02/0x03): '11' field_parity line_offset(5) framing_code(8)=0xE4 m&pa(16) data_block(320),
 *     bits in VBI transmission order, first transmitted bit = msb; line_offset 0 (undefined) or 7..22.
 *  4.6 VPS (0xC3): '11' fp lo, 13 bytes, line 16 first field.  4.7 WSS (0xC4): '11' fp lo, 14 bits + '11', line 23.
 *  4.8 Closed Caption (0xC5): '11' fp lo, 16 bits, line 21 first field.  Stuffing unit: id 0xFF.
 *  field_parity '1' = first field; second field line = 313 + line_offset.
 * libzvbi vbi_sliced conventions (sliced.h): Teletext/WSS/CC payload bytes hold the first transmitted bit in
 *  the lsb (=> bit reversal per byte), VPS bytes are msb first (no reversal); WSS carries 14 bits
 *  (data[0], data[1] bits 0..5).
 */
enum { K_NONE = 0, K_TTX, K_VPS, K_WSS, K_CC };

static int svc_class(uint32_t id)
{
  if (id == VBI_SLICED_TELETEXT_B_L10_625 || id == VBI_SLICED_TELETEXT_B_L25_625 || id == VBI_SLICED_TELETEXT_B_625) return K_TTX;
  if (id == VBI_SLICED_VPS) return K_VPS;
  if (id == VBI_SLICED_WSS_625) return K_WSS;
  if (id == VBI_SLICED_CAPTION_625_F1 || id == VBI_SLICED_CAPTION_625) return K_CC;
  return K_NONE;
}
static int line_legal(int k, unsigned line)
{
  switch (k) {
  case K_TTX: return line == 0 || (line >= 7 && line <= 22) || (line >= 313 + 7 && line <= 313 + 22);
  case K_VPS: return line == 16;
  case K_WSS: return line == 23;
  case K_CC:  return line == 21;
  default:    return 0;
  }
}
static unsigned nat_size(int k) { return k == K_TTX ? 2 + 44 : k == K_VPS ? 2 + 14 : 2 + 3; }
static unsigned du_size(int k, int fixed) { return fixed ? 2 + 0x2C : nat_size(k); }
static unsigned exp_lofp(unsigned line, int second_field)
{
  if (line == 0) return 0xC0u | (second_field ? 0u : 0x20u);
  if (line < 313) return 0xC0u | 0x20u | line;
  return 0xC0u | (line - 313);
}

/* one data unit at offset o of b[0..used) must encode line *s; returns offset behind the unit.
 * padj: universally quantified pad index (one symbolic value stands for all) */
static unsigned check_unit(const uint8_t *b, unsigned used, unsigned o, const vbi_sliced *s, int k,
                           unsigned lofp, int fixed, unsigned padj)
{
  unsigned len, i, min = nat_size(k) - 2;
  V_ASSERT(o + 2 <= used, "du_header_inside");
  if (o + 2 > used) return used;
  len = b[o + 1];
  V_ASSERT(o + 2 + len <= used, "du_not_crossing_buffer");
  if (o + 2 + len > used) return used;
  V_ASSERT(len >= min, "du_length_covers_field");
  if (len < min) return used;
  if (fixed) V_ASSERT(len == 0x2C, "du_fixed_length_2c");
  if (s->line > 0) V_ASSERT(b[o + 2] == lofp, "du_reserved_parity_line_offset");
  else { /* undefined line: line_offset 0; the field is not known from vbi_sliced, but must not go back to field 1 */
    V_ASSERT((b[o + 2] & 0xDF) == 0xC0, "du_reserved_line_offset_0");
    if (!(lofp & 0x20)) V_ASSERT(!(b[o + 2] & 0x20), "du_undefined_line_stays_in_second_field"); }
  switch (k) {
  case K_TTX:
    V_ASSERT(b[o] == 0x02 || b[o] == 0x03, "du_id_teletext");
    V_ASSERT(b[o + 3] == 0xE4, "du_framing_code");
    for (i = 0; i < 42; i++) V_ASSERT(b[o + 4 + i] == ref_rev8(s->data[i]), "du_ttx_payload_msb_first");
    break;
  case K_VPS:
    V_ASSERT(b[o] == 0xC3, "du_id_vps");
    for (i = 0; i < 13; i++) V_ASSERT(b[o + 3 + i] == s->data[i], "du_vps_payload");
    break;
  case K_WSS:
    V_ASSERT(b[o] == 0xC4, "du_id_wss");
    V_ASSERT(b[o + 3] == ref_rev8(s->data[0]), "du_wss_payload0");
    V_ASSERT(b[o + 4] == ((ref_rev8(s->data[1]) & 0xFC) | 3), "du_wss_payload1_reserved11");
    break;
  default:
    V_ASSERT(b[o] == 0xC5, "du_id_cc");
    V_ASSERT(b[o + 3] == ref_rev8(s->data[0]) && b[o + 4] == ref_rev8(s->data[1]), "du_cc_payload");
    break;
  }
  if (padj >= min && padj < len) V_ASSERT(b[o + 2 + padj] == 0xFF, "du_stuffing_bytes_ff");
  return o + 2 + len;
}

/* b[o..used) must be stuffing data units only (any number, any length); t: universal byte index */
static void check_stuffing_tail(const uint8_t *b, unsigned used, unsigned o, int fixed, unsigned t, unsigned maxunits)
{
  unsigned n;
  for (n = 0; n < maxunits; n++) {
    unsigned len;
    if (o >= used) break;
    V_ASSERT(o + 2 <= used, "st_header_inside");
    if (o + 2 > used) return;
    V_ASSERT(b[o] == 0xFF, "st_id_ff");
    len = b[o + 1];
    V_ASSERT(o + 2 + len <= used, "st_not_crossing_buffer");
    if (fixed) V_ASSERT(len == 0x2C, "st_fixed_length_2c");
    if (t >= o + 2 && t < o + 2 + len && t < used) V_ASSERT(b[t] == 0xFF, "st_bytes_ff");
    o += 2 + len;
  }
  V_ASSERT(o == used, "st_tail_ends_at_buffer_end");
}

/* Data-unit demultiplexing of one packet payload.  Default: the real _vbi_dvb_demultiplex_sliced().
 * With ENV_LOOP_MEM (concrete-structure runs) its three statements are replayed on a static zero frame, because
 * CLEAR(frame) on a stack object through the byte-loop memset leaves frame.raw/log.mask non-constant for symex and
 * all raw-VBI paths would be explored (measured: a 1000 iteration memcpy in demux_samples); the call into the real
 * extract_data_units() is the same. */
static vbi_bool rt_demux(vbi_sliced *sliced, unsigned *n_lines, unsigned max_lines, const uint8_t **buffer, unsigned *buffer_left)
{
#ifdef ENV_LOOP_MEM
  static const struct frame zero_frame; struct frame frame; int err;
  if (NULL == *buffer || *buffer_left < 2) return FALSE;
  frame = zero_frame;
  frame.sliced_begin = sliced; frame.sliced_end = sliced + max_lines; frame.sp = sliced;
  err = extract_data_units(&frame, buffer, buffer_left);
  *n_lines = (unsigned) (frame.sp - frame.sliced_begin);
  return 0 == err;
#else
  return _vbi_dvb_demultiplex_sliced(sliced, n_lines, max_lines, buffer, buffer_left);
#endif
}

/* what the real demultiplexer must return for an accepted line */
static void check_demuxed(const vbi_sliced *o, const vbi_sliced *s, int k)
{
  unsigned i;
  V_ASSERT(svc_class(o->id) == k || (k == K_TTX && o->id == VBI_SLICED_TELETEXT_B), "rt_service");
  V_ASSERT((o->id & s->id) != 0, "rt_service_bits");
  V_ASSERT(o->line == s->line, "rt_line");
  switch (k) {
  case K_TTX: for (i = 0; i < 42; i++) V_ASSERT(o->data[i] == s->data[i], "rt_ttx_payload"); break;
  case K_VPS: for (i = 0; i < 13; i++) V_ASSERT(o->data[i] == s->data[i], "rt_vps_payload"); break;
  case K_WSS: V_ASSERT(o->data[0] == s->data[0] && (o->data[1] & 0x3F) == (s->data[1] & 0x3F), "rt_wss_payload"); break;
  default:    V_ASSERT(o->data[0] == s->data[0] && o->data[1] == s->data[1], "rt_cc_payload"); break;
  }
}

/* Walk over the input lines sl[0..NL) against the data-unit area b[0..used):
 *   lines [0,cons) were consumed: each unmasked one must be a legal line in legal order and be encoded, in order;
 *   line cons (if any) stopped the multiplexer: ok => it did not fit, !ok => it is illegal.
 * Returns the offset behind the last data unit; *nacc = number of encoded lines, acc[] their indices. */
static unsigned walk_frame(const uint8_t *b, unsigned used, unsigned cap, const vbi_sliced *sl, unsigned cons,
                           uint32_t mask, int fixed, int ok, const uint8_t *padj, unsigned *nacc, unsigned *acc)
{
  unsigned o = 0, last_line = 0, k, n = 0;
  for (k = 0; k < NL; k++) {
    int kc = svc_class(sl[k].id);
    unsigned line = sl[k].line;
    if (k < cons) {
      if (0 == (sl[k].id & mask)) continue;                 /* not selected: dropped silently */
      V_ASSERT(kc != K_NONE, "consumed_service_encodable");
      V_ASSERT(line_legal(kc, line), "consumed_line_legal");
      if (kc == K_NONE || !line_legal(kc, line)) { *nacc = n; return o; }
      if (line > 0) { V_ASSERT(line > last_line, "consumed_line_ascending"); last_line = line; }
      o = check_unit(b, used, o, &sl[k], kc, exp_lofp(line, last_line >= 313), fixed, padj[k]);
      acc[n++] = k;
    } else if (k == cons) {
      int bad = kc == K_NONE || !line_legal(kc, line) || (line > 0 && line <= last_line);
      V_ASSERT((sl[k].id & mask) != 0, "stop_line_selected");
      if (!ok) V_ASSERT(bad, "rejected_only_for_illegal_line");
      else { V_ASSERT(kc != K_NONE, "stop_service_encodable");
             if (kc != K_NONE) V_ASSERT(du_size(kc, fixed) > cap - o, "stopped_only_when_unit_does_not_fit"); }
    }
  }
  *nacc = n;
  return o;
}

/* =========================================================================================
 * (a) vbi_dvb_multiplex_sliced: NL symbolic lines into a BUF byte data-unit buffer
 * ========================================================================================= */
#define BUF_TAIL_UNITS (FIXED ? BUF / 46 + 1 : BUF / 2 + 1)
#define PES_TAIL_UNITS (FIXED ? PMAX / 46 + 1 : PMAX / 2 + 1)

V_HARNESS(h_mux_sliced)
{
  static vbi_sliced sl[NL];
  static _Alignas(8) uint8_t out_mem[(NL + 1) * sizeof(vbi_sliced)];   /* R2(f): flat byte backing for the symbolic frame.sp */
  vbi_sliced *out = (vbi_sliced *) out_mem;
  static uint8_t buf[BUF], orig[BUF];
  uint8_t padj[NL]; unsigned tix, acc[NL], nacc = 0, cons, used, o, j;
  uint32_t mask; unsigned di; vbi_bool stuffing, ok;
  uint8_t *p; unsigned left, sleft; const vbi_sliced *s;

  V_INIT();
  in_bytes(sl, sizeof sl); mask = in_u32(); di = in_u32(); stuffing = in_bool();
  fix_ids(sl, &mask);
  in_bytes(buf, BUF); memcpy(orig, buf, BUF);
  in_bytes(padj, NL); tix = in_u8();
  if (FIXED) di = 0x10 | (di & 15); else if (di >= 0x10 && di <= 0x1F) di |= 0x80;   /* class by grid, value symbolic */
#ifdef DI
  di = DI;            /* round-trip mode: concrete (must agree with FIXED) */
#endif
#ifdef STUFF
  stuffing = STUFF;
#endif

  p = buf; left = BUF; s = sl; sleft = NL;
  ok = vbi_dvb_multiplex_sliced(&p, &left, &s, &sleft, mask, di, stuffing);

  V_ASSERT(p >= buf && p <= buf + BUF, "packet_ptr_in_buffer");
  used = (unsigned) (p - buf);
  V_ASSERT(used + left == BUF, "packet_left_consistent");
  V_ASSERT(s >= sl && s <= sl + NL, "sliced_ptr_in_array");
  cons = (unsigned) (s - sl);
  V_ASSERT(cons + sleft == NL, "sliced_left_consistent");
  V_ASSERT(ok || cons < NL, "failure_names_offending_line");
  if (ok && stuffing) V_ASSERT(left == 0, "stuffing_fills_buffer");

  o = walk_frame(buf, used, BUF, sl, cons, mask, FIXED, ok, padj, &nacc, acc);
  if (ok && stuffing) check_stuffing_tail(buf, used, o, FIXED, tix, BUF_TAIL_UNITS);
  else V_ASSERT(o == used, "no_bytes_behind_last_unit");
  if (tix >= used && tix < BUF) V_ASSERT(buf[tix] == orig[tix], "bytes_behind_output_untouched");

  /* the real demultiplexer on the same bytes */
#ifdef WITH_DEMUX
  if (used >= 2) {
    const uint8_t *bp = buf; unsigned bl = used, n = 99; vbi_bool dok;
    dok = rt_demux(out, &n, NL + 1, &bp, &bl);
    V_ASSERT(dok, "rt_demux_accepts");
    V_ASSERT(n == nacc, "rt_same_number_of_lines");
    /* a trailing 2 byte stuffing unit (FF 00) is not stepped over by the demultiplexer's loop (`p < end - 2`), *buffer then stays 2 bytes
     * short of the end although *buffer_left is 0 (doc: "pointing to the end of the buffer on success") - harmless, see report */
    V_ASSERT(bl == 0 && bp >= buf && bp <= buf + used && (unsigned) (bp - buf) + 2 >= used, "rt_demux_consumed_all");   /* offsets, not bp + 2: forming buf + BUF + 2 is itself out of bounds */
    for (j = 0; j < NL; j++)
      if (j < nacc && j < n) check_demuxed(&out[j], &sl[acc[j]], svc_class(sl[acc[j]].id));
  } else {
    V_ASSERT(nacc == 0, "tiny_output_no_lines");
  }
#endif
  if (nacc == NL) V_REACH("all_lines");
  if (!ok) V_REACH("rejected");
  if (ok && cons < NL) V_REACH("full");
  V_END();
}

/* buffer size the function must refuse: < 2, or not a multiple of 46 in fixed-length mode; nothing changes */
V_HARNESS(h_mux_sliced_badsize)
{
  static vbi_sliced sl[1]; static uint8_t buf[64], orig[64];
  uint8_t *p = buf; unsigned left, sleft = 1, di, i; const vbi_sliced *s = sl; uint32_t mask; vbi_bool ok, stuffing;
  V_INIT();
  in_bytes(sl, sizeof sl); in_bytes(buf, 64); memcpy(orig, buf, 64);
  left = in_u32(); di = in_u32(); mask = in_u32(); stuffing = in_bool();
  V_ASSUME(left < 2 || ((di >= 0x10 && di <= 0x1F) && left % 46 != 0));
  ok = vbi_dvb_multiplex_sliced(&p, &left, &s, &sleft, mask, di, stuffing);
  V_ASSERT(!ok, "badsize_refused");
  V_ASSERT(p == buf && s == sl && sleft == 1, "badsize_args_unchanged");
  for (i = 0; i < 64; i++) V_ASSERT(buf[i] == orig[i], "badsize_buffer_unchanged");
  V_END();
}

/* =========================================================================================
 * (b) PES / TS packetisation through the public mux object
 * ========================================================================================= */
#define NPK (PMAX / 184)                        /* max TS packets per PES packet */
#define RECMAX ((NPK + PMIN / 184) * 188)
static uint8_t rec[RECMAX]; static unsigned rec_len, rec_calls, rec_fail_at = 99;
static vbi_dvb_mux *rec_mx;

static vbi_bool rec_cb(vbi_dvb_mux *mx, void *ud, const uint8_t *packet, unsigned int size)
{
  unsigned i;
  V_ASSERT(mx == rec_mx && ud == (void *) &rec_len, "cb_args");
  V_ASSERT(packet != NULL, "cb_packet");
  V_ASSERT(TS ? size == 188 : (size >= PMIN && size <= PMAX && size % 184 == 0), "cb_packet_size");
  V_ASSERT(rec_len + size <= RECMAX, "cb_record_room");
  for (i = 0; i < (TS ? 188 : PMAX); i++)
    if (i < size && rec_len + i < RECMAX) rec[rec_len + i] = packet[i];
  rec_len += size; rec_calls++;
  return rec_calls != rec_fail_at;
}

/* Multiplexer objects.
 * REAL_CTOR (h_mux_ctor, h_mux_config): the real vbi_dvb_pes_mux_new/vbi_dvb_ts_mux_new.
 * Otherwise (R7 + R2(e)): the post-constructor state is constructed directly in a static object - zero, the five fields
 * the constructor sets, the real init_pes_packet_header() - with an exact-size packet buffer of 4 + PMAX bytes instead
 * of the malloc'ed 65508 bytes (any access beyond 4 + max_packet_size becomes a bounds failure).  Reason (measured):
 * CLEAR(*mx) on the malloc'ed object leaves mx->pid etc. non-constant for symex, so both the PES and the TS output path
 * were explored (mux_packets: no verdict in 400 s).  h_mux_ctor decides that the real constructors produce exactly this
 * state (every field, first 50 packet bytes). */
static uint8_t small_packet_a[4 + PMAX], small_packet_b[4 + PMAX];
static struct _vbi_dvb_mux MXS_A, MXS_B;
static int mxs_slot;            /* 0 / 1: set (to a constant) by the harness before a second multiplexer is made */

static vbi_dvb_mux *construct_mux(unsigned pid, int ts, vbi_dvb_mux_cb *cb, void *ud)
{
  static const struct _vbi_dvb_mux zero_mux;
  vbi_dvb_mux *mx;
  if (ts && (pid <= 0x000F || pid >= 0x1FFF)) return NULL;
  if (mxs_slot == 0) { mx = &MXS_A; *mx = zero_mux; mx->packet = small_packet_a; }
  else { mx = &MXS_B; *mx = zero_mux; mx->packet = small_packet_b; }
  mx->min_packet_size = 184; mx->max_packet_size = 65504; mx->data_identifier = 0x10;
  init_pes_packet_header(mx);
  mx->callback = cb; mx->user_data = ud;
  if (ts) mx->pid = pid;
  return mx;
}
static void release_mux(vbi_dvb_mux *mx) { (void) mx; }

/* PES header per ISO 13818-1 2.4.3.6/2.4.3.7 and EN 300 472 4.2 / EN 301 775 4.3 */
static void check_pes_header(const uint8_t *pes, unsigned size, int64_t pts, unsigned di)
{
  unsigned i; uint64_t t = (uint64_t) pts;
  V_ASSERT(size % 184 == 0 && size >= PMIN && size <= PMAX, "pes_size_multiple_of_184_in_bounds");
  V_ASSERT(pes[0] == 0 && pes[1] == 0 && pes[2] == 1, "pes_start_code_prefix");
  V_ASSERT(pes[3] == 0xBD, "pes_stream_id_private_1");
  V_ASSERT(pes[4] * 256u + pes[5] == size - 6, "pes_packet_length");
  V_ASSERT((pes[6] & 0xC0) == 0x80, "pes_marker_10");
  V_ASSERT((pes[6] & 0x30) == 0x00, "pes_not_scrambled");
  V_ASSERT((pes[6] & 0x04) == 0x04, "pes_data_alignment_indicator");
  V_ASSERT(pes[7] == 0x80, "pes_flags_pts_only");
  V_ASSERT(pes[8] == 0x24, "pes_header_data_length_24");
  V_ASSERT((pes[9] & 0xF0) == 0x20, "pts_prefix_0010");
  V_ASSERT((pes[9] & 1) && (pes[11] & 1) && (pes[13] & 1), "pts_marker_bits");
  V_ASSERT(((pes[9] >> 1) & 7u) == ((t >> 30) & 7u), "pts_32_30");
  V_ASSERT(pes[10] == ((t >> 22) & 0xFF) && (pes[11] >> 1) == ((t >> 15) & 0x7F), "pts_29_15");
  V_ASSERT(pes[12] == ((t >> 7) & 0xFF) && (pes[13] >> 1) == (t & 0x7F), "pts_14_0");
  for (i = 14; i < 45; i++) V_ASSERT(pes[i] == 0xFF, "pes_header_stuffing");
  V_ASSERT(pes[45] == di, "pes_data_identifier");
}

/* TS header per ISO 13818-1 2.4.3.2 and EN 300 472 4.1 */
static void check_ts_header(const uint8_t *tp, unsigned pid, int first, unsigned cc)
{
  V_ASSERT(tp[0] == 0x47, "ts_sync_byte");
  V_ASSERT((tp[1] & 0x80) == 0, "ts_no_transport_error");
  V_ASSERT(((tp[1] >> 6) & 1) == (first ? 1u : 0u), "ts_payload_unit_start");
  V_ASSERT((((tp[1] & 0x1F) << 8) | tp[2]) == pid, "ts_pid");
  V_ASSERT((tp[3] & 0xC0) == 0, "ts_not_scrambled");
  V_ASSERT((tp[3] & 0x30) == 0x10, "ts_payload_only");
  V_ASSERT((tp[3] & 0x0F) == (cc & 15), "ts_continuity_counter");
}

static int frame_model(const vbi_sliced *sl, uint32_t mask, int fixed, unsigned *total)
{ /* 1 iff every selected line is encodable, on a legal line, in ascending order; *total = bytes of data units */
  unsigned k, last = 0, sum = 0; int good = 1;
  for (k = 0; k < NL; k++) {
    int kc = svc_class(sl[k].id);
    if (0 == (sl[k].id & mask)) continue;
    if (kc == K_NONE || !line_legal(kc, sl[k].line)) { good = 0; continue; }
    if (sl[k].line > 0) { if (sl[k].line <= last) good = 0; last = sl[k].line; }
    sum += du_size(kc, fixed);
  }
  *total = sum;
  return good;
}

static vbi_dvb_mux *new_mux_cb(unsigned pid, unsigned di, vbi_dvb_mux_cb *cb, void *ud)
{
  vbi_dvb_mux *mx = construct_mux(pid, TS, cb, ud);
  V_ASSERT(mx != NULL, "mux_new");
  rec_mx = mx;
  V_ASSERT(vbi_dvb_mux_set_pes_packet_size(mx, PMIN, PMAX), "set_size_ok");
  V_ASSERT(vbi_dvb_mux_get_min_pes_packet_size(mx) == PMIN && vbi_dvb_mux_get_max_pes_packet_size(mx) == PMAX, "get_size");
  V_ASSERT(vbi_dvb_mux_set_data_identifier(mx, di), "set_di_ok");
  V_ASSERT(vbi_dvb_mux_get_data_identifier(mx) == di, "get_di");
  return mx;
}
static vbi_dvb_mux *new_mux(unsigned pid, unsigned di) { return new_mux_cb(pid, di, rec_cb, &rec_len); }

static void in_config(unsigned *pid, unsigned *di)
{
  *pid = in_u16() & 0x1FFF; *di = in_u8();
  if (*pid < 0x10) *pid += 0x10; else if (*pid == 0x1FFF) *pid = 0x1FFE;      /* all legal PIDs 0x10..0x1FFE */
  *di = FIXED ? (0x10 | (*di & 15)) : (*di & 2) ? 0x9B : (0x99 + (*di & 1));  /* all legal data_identifiers of the class */
#ifdef DI
  *di = DI;
#endif
#ifdef PIDV
  *pid = PIDV;
#endif
}

/* gather the PES packet from the recorded output starting at rec[from]; returns its size (0 = none) */
static uint8_t pes[PMAX];
static unsigned gather_pes(unsigned from, unsigned ncalls, unsigned pid, unsigned cc0)
{
  unsigned i, j;
  if (!TS) {
    V_ASSERT(ncalls == 1, "pes_one_callback_per_frame");
    for (j = 0; j < PMAX; j++) pes[j] = (from + j < RECMAX) ? rec[from + j] : 0;
    return pes[4] * 256u + pes[5] + 6;
  }
  V_ASSERT(ncalls >= 1 && ncalls <= NPK, "ts_packets_per_frame");
  for (i = 0; i < NPK; i++)
    if (i < ncalls) {
      check_ts_header(&rec[from + i * 188], pid, i == 0, cc0 + i);
      for (j = 0; j < 184; j++) pes[i * 184 + j] = rec[from + i * 188 + 4 + j];
    }
  return ncalls * 184;
}

#ifdef G_PK
/* ---- the real demultiplexer object for the end-to-end run: static zero object + real vbi_dvb_demux_reset() (R7),
 * R2(e): frame output array and (PES mode) wrap-around buffer re-pointed to exact-size harness arrays; in TS mode the
 * unit is compiled with pes_buffer scaled to PESCAP_SCALED bytes (runner patch, SCALED_PES_BUFFER). */
#define ROUTN (NL + 2)
static vbi_dvb_demux RDX;
static vbi_sliced ROUT[ROUTN];
static uint8_t RPES[PMAX + 8];
static struct { unsigned calls, n; int64_t pts; vbi_sliced lines[ROUTN]; } RLOG;
static vbi_bool rdx_cb(vbi_dvb_demux *dx, void *ud, const vbi_sliced *sliced, unsigned int n, int64_t pts)
{
  unsigned i;
  V_ASSERT(dx == &RDX && ud == (void *) &RLOG && sliced == ROUT && n <= ROUTN, "demux_cb_args");
  if (RLOG.calls == 0) { RLOG.n = n; RLOG.pts = pts; for (i = 0; i < ROUTN; i++) if (i < n) RLOG.lines[i] = sliced[i]; }
  RLOG.calls++;
  return TRUE;
}
static void setup_demux(unsigned pid)
{
  vbi_dvb_demux_reset(&RDX);
  RDX.demux_packet = TS ? demux_ts_packet : demux_pes_packet;
  RDX.ts_pid = pid; RDX.callback = rdx_cb; RDX.user_data = &RLOG;
  RDX.frame.sliced_begin = ROUT; RDX.frame.sliced_end = ROUT + ROUTN; RDX.frame.sp = ROUT;
#ifndef SCALED_PES_BUFFER
  if (!TS) { RDX.pes_wrap.buffer = RPES; RDX.pes_wrap.bp = RPES; }
#endif
  RLOG.calls = 0;
}
#define PTS33(x) ((int64_t) ((uint64_t) (x) & 0x1FFFFFFFFull))

V_HARNESS(h_mux_packets)
{
  static vbi_sliced sl[NL], sl2[1];
  uint8_t padj[NL]; unsigned tix, acc[NL], nacc = 0, pid, di, total, size, o, j, calls1, len1;
  uint32_t mask; int64_t pts, pts2; vbi_bool ok, ok1; int good; vbi_dvb_mux *mx;

  V_INIT();
  in_bytes(sl, sizeof sl); mask = in_u32(); pts = (int64_t) in_u64(); pts2 = (int64_t) in_u64();
  in_bytes(padj, NL); tix = in_u16(); in_config(&pid, &di);
  in_bytes(sl2[0].data, 42);
  fix_ids(sl, &mask);

  rec_len = rec_calls = 0;
  mx = new_mux(pid, di);
  ok1 = ok = vbi_dvb_mux_feed(mx, sl, NL, mask, NULL, NULL, pts);
  good = frame_model(sl, mask, FIXED, &total);
  V_ASSERT(ok == (good && total <= PMAX - 46), "accepted_iff_legal_and_fits");
  if (!ok) {
    V_ASSERT(rec_calls == 0 && rec_len == 0, "rejected_frame_emits_nothing");
    V_REACH("rejected");
  } else {
    size = gather_pes(0, rec_calls, pid, 0);
    V_ASSERT(TS ? rec_len == rec_calls * 188 : rec_len == size, "emitted_byte_count");
    V_ASSERT(size <= PMAX, "pes_size_le_max");
    if (size <= PMAX && size >= 184) {
      check_pes_header(pes, size, pts, di);
      o = 46 + walk_frame(pes + 46, size - 46, size - 46, sl, NL, mask, FIXED, 1, padj, &nacc, acc);
      check_stuffing_tail(pes, size, o, FIXED, tix, PES_TAIL_UNITS);
      if (size > 184) V_REACH("two_ts_packets");
      if (nacc == NL) V_REACH("all_lines");
    }
  }
  /* the multiplexer stays usable: a second, valid frame (one Teletext line 7) is accepted; TS continuity goes on */
  calls1 = rec_calls; len1 = rec_len;
  sl2[0].id = VBI_SLICED_TELETEXT_B; sl2[0].line = F2L;
  ok = vbi_dvb_mux_feed(mx, sl2, 1, VBI_SLICED_TELETEXT_B, NULL, NULL, pts2);
  V_ASSERT(ok, "next_valid_frame_accepted");
  V_ASSERT(rec_calls == calls1 + PMIN / 184 || !TS, "second_frame_ts_packets");
  V_ASSERT(rec_len == len1 + (TS ? (PMIN / 184) * 188 : PMIN), "second_frame_min_size");
  if (len1 + PMIN / 184 * 188 <= RECMAX) {
    size = gather_pes(len1, rec_calls - calls1, pid, calls1);
    V_ASSERT(size == PMIN, "second_frame_size");
    if (size == PMIN) {
      check_pes_header(pes, size, pts2, di);
      V_ASSERT(pes[46] == 0x02 && pes[47] == 0x2C && pes[48] == exp_lofp(F2L, F2L >= 313) && pes[49] == 0xE4, "second_frame_unit");
      for (j = 0; j < 42; j++) V_ASSERT(pes[50 + j] == ref_rev8(sl2[0].data[j]), "second_frame_payload");
      check_stuffing_tail(pes, size, 46 + 46, FIXED, tix, PES_TAIL_UNITS);
    }
  }
  release_mux(mx);

#ifdef WITH_DEMUX
  /* the library's demultiplexer on everything that was emitted: frame 1 (if accepted) comes back at the frame boundary
   * (line F2L of frame 2 is not above the last line of frame 1 - grid: lower or EQUAL) with its PTS; frame 2 is pending with its PTS */
  setup_demux(pid);
  V_ASSERT(vbi_dvb_demux_feed(&RDX, rec, rec_len), "e2e_demux_feed_ok");
  /* FRAME: members of the 70 KB object that must stay untouched (CBMC checks member indices only against the end of the
   * enclosing object): `sliced` (frame array re-pointed), in PES mode also ts_buffer; tix = universally quantified index */
  V_ASSERT(((const uint8_t *) RDX.sliced)[tix % sizeof RDX.sliced] == 0, "e2e_frame_canary_behind_ts_buffer");
  if (!TS) V_ASSERT(RDX.ts_buffer[tix % sizeof RDX.ts_buffer] == 0, "e2e_frame_unused_ts_buffer");
  V_ASSERT(RDX.frame.sp >= ROUT && RDX.frame.sp <= ROUT + ROUTN, "e2e_frame_sp_in_array");
  if (ok1 && nacc > 0) {
    V_ASSERT(RLOG.calls == 1, "e2e_one_frame_delivered");
    V_ASSERT(RLOG.n == nacc, "e2e_same_number_of_lines");
    V_ASSERT(RLOG.pts == PTS33(pts), "e2e_frame_pts");
    for (j = 0; j < NL; j++)
      if (j < nacc && j < RLOG.n) check_demuxed(&RLOG.lines[j], &sl[acc[j]], svc_class(sl[acc[j]].id));
    V_REACH("e2e_frame");
  } else {
    V_ASSERT(RLOG.calls == 0, "e2e_no_frame_from_rejected_input");
  }
  if (!TS || ok1) {   /* a lone TS packet (188 bytes) is not examined before the sync byte of the next one is seen (197 byte look-ahead) */
    V_ASSERT(!RDX.new_frame && RDX.frame.sp == ROUT + 1 && RDX.frame_pts == PTS33(pts2), "e2e_second_frame_pending_with_pts");
    check_demuxed(&ROUT[0], &sl2[0], K_TTX);
  }
#endif
  V_END();
}

/* (b2) capacity: the biggest frame the multiplexer accepts - every permitted line used: Teletext 7..15, VPS 16, Teletext 17..20,
 * Caption 21, Teletext 22, WSS 23, Teletext 320..335 = MAXFR lines (EN 301 775: lines 7..23 of both fields; libzvbi encodes no
 * sliced service on line 336) - goes through the REAL demultiplexer object with its OWN frame array (real vbi_dvb_demux_reset,
 * nothing re-pointed) and comes back complete at the next frame boundary.  Line structure concrete (symex = constant
 * propagation), payload of the first, a middle (VPS) and the last line and of the second frame symbolic. */
#define MAXFR 33
static struct { unsigned calls, n; const vbi_sliced *base; unsigned line[MAXFR + 1]; uint32_t id[MAXFR + 1]; vbi_sliced first, mid, last; } MLOG;
static vbi_bool maxfr_cb(vbi_dvb_demux *dx, void *ud, const vbi_sliced *sliced, unsigned int n, int64_t pts)
{
  unsigned i; (void) pts;
  V_ASSERT(dx == &RDX && ud == (void *) &MLOG, "demux_cb_args");
  if (MLOG.calls == 0) {
    MLOG.n = n; MLOG.base = sliced;
    for (i = 0; i < MAXFR + 1; i++) if (i < n) { MLOG.line[i] = sliced[i].line; MLOG.id[i] = sliced[i].id; }
    if (n == MAXFR) { MLOG.first = sliced[0]; MLOG.mid = sliced[9]; MLOG.last = sliced[MAXFR - 1]; }
  }
  MLOG.calls++;
  return TRUE;
}
V_HARNESS(h_demux_maxframe)
{
  static vbi_sliced sl[MAXFR], sl2[1]; static uint8_t du[MAXFR * 46], du2[46];
  uint8_t *p; const uint8_t *q; unsigned left, sleft, k, n = 0, di; const vbi_sliced *s; int err; vbi_bool ok;
  V_INIT();
  for (k = 7; k <= 23; k++, n++) { sl[n].line = k; sl[n].id = k == 16 ? VBI_SLICED_VPS : k == 21 ? VBI_SLICED_CAPTION_625 : k == 23 ? VBI_SLICED_WSS_625 : VBI_SLICED_TELETEXT_B; }
  for (k = 320; k <= 335; k++, n++) { sl[n].line = k; sl[n].id = VBI_SLICED_TELETEXT_B; }
  in_bytes(sl[0].data, 42); in_bytes(sl[9].data, 13); in_bytes(sl[MAXFR - 1].data, 42); in_bytes(sl2[0].data, 42);
#ifdef DI
  di = DI;
#else
  di = 0x10;     /* concrete: a symbolic data_identifier makes every unit length (memset/memcpy size) symbolic */
#endif
  sl2[0].id = VBI_SLICED_TELETEXT_B; sl2[0].line = F2L;
  p = du; left = sizeof du; s = sl; sleft = MAXFR;
  ok = vbi_dvb_multiplex_sliced(&p, &left, &s, &sleft, 0xFFFFFFFFu, di, FALSE);
  V_ASSERT(ok && left == 0 && sleft == 0, "maxframe_multiplexed");
  p = du2; left = sizeof du2; s = sl2; sleft = 1;
  ok = vbi_dvb_multiplex_sliced(&p, &left, &s, &sleft, 0xFFFFFFFFu, di, FALSE);
  V_ASSERT(ok && left == 0 && sleft == 0, "second_frame_multiplexed");

  vbi_dvb_demux_reset(&RDX);
  RDX.callback = maxfr_cb; RDX.user_data = &MLOG; MLOG.calls = 0;
  RDX.frame.n_data_units_extracted_from_packet = 0;              /* as demux_pes_packet() does for every PES packet */
  q = du; left = sizeof du;
  err = demux_pes_packet_frame(&RDX, &q, &left);
  V_ASSERT(err == 0, "maxframe_packet_accepted");
  V_ASSERT(MLOG.calls == 0, "maxframe_not_delivered_early");
  V_ASSERT(RDX.frame.sp == RDX.frame.sliced_begin + MAXFR, "maxframe_all_lines_stored");
  RDX.frame.n_data_units_extracted_from_packet = 0;
  q = du2; left = sizeof du2;
  err = demux_pes_packet_frame(&RDX, &q, &left);
  V_ASSERT(err == 0, "maxframe_next_packet_accepted");
  V_ASSERT(MLOG.calls == 1 && MLOG.n == MAXFR && MLOG.base == RDX.frame.sliced_begin, "maxframe_delivered_once_complete");
  if (MLOG.calls == 1 && MLOG.n == MAXFR) {
    for (k = 0; k < MAXFR; k++) {
      V_ASSERT(MLOG.line[k] == sl[k].line, "rt_line");
      V_ASSERT(svc_class(MLOG.id[k]) == svc_class(sl[k].id) && (MLOG.id[k] & sl[k].id) != 0, "rt_service");
    }
    check_demuxed(&MLOG.first, &sl[0], K_TTX); check_demuxed(&MLOG.mid, &sl[9], K_VPS); check_demuxed(&MLOG.last, &sl[MAXFR - 1], K_TTX);
    V_REACH("maxframe");
  }
  V_ASSERT(RDX.frame.sp == RDX.frame.sliced_begin + 1, "maxframe_second_frame_pending");
  check_demuxed(&RDX.frame.sliced_begin[0], &sl2[0], K_TTX);
  V_END();
}

#endif /* G_PK */

/* (c) rejected frame: zero bytes, multiplexer state unchanged (every field compared) at an arbitrary continuity counter */
V_HARNESS(h_mux_reject_state)
{
  static vbi_sliced sl[NL];
  unsigned pid, di, total; uint32_t mask; int64_t pts; vbi_bool ok; int good; vbi_dvb_mux *mx;
  unsigned b_min, b_max, b_di, b_pid, b_cc, b_off, b_end; uint8_t *b_packet; vbi_dvb_mux_cb *b_cb; void *b_ud;
  V_INIT();
  in_bytes(sl, sizeof sl); mask = in_u32(); pts = (int64_t) in_u64(); in_config(&pid, &di);
  fix_ids(sl, &mask);
  rec_len = rec_calls = 0;
  mx = new_mux(pid, di);
  mx->continuity_counter = in_u8();   /* arbitrary point in the TS stream */
  b_min = mx->min_packet_size; b_max = mx->max_packet_size; b_di = mx->data_identifier; b_pid = mx->pid;
  b_cc = mx->continuity_counter; b_off = mx->cor_offset; b_end = mx->cor_end; b_packet = mx->packet; b_cb = mx->callback; b_ud = mx->user_data;
  good = frame_model(sl, mask, FIXED, &total);
  V_ASSUME(!(good && total <= PMAX - 46));
  ok = vbi_dvb_mux_feed(mx, sl, NL, mask, NULL, NULL, pts);
  V_ASSERT(!ok, "bad_frame_rejected");
  V_ASSERT(rec_calls == 0 && rec_len == 0, "rejected_frame_emits_nothing");
  V_ASSERT(mx->packet == b_packet && mx->min_packet_size == b_min && mx->max_packet_size == b_max && mx->data_identifier == b_di
           && mx->raw_samples_left == 0 && mx->pid == b_pid && mx->continuity_counter == b_cc && mx->cor_offset == b_off
           && mx->cor_end == b_end && mx->callback == b_cb && mx->user_data == b_ud, "rejected_frame_state_unchanged");
  release_mux(mx);
  V_END();
}

/* coroutine interface with an OBUF byte output buffer delivers the same bytes as the callback interface */
V_HARNESS(h_mux_cor_equiv)
{
  static vbi_sliced sl[NL], sl2[1];
  static uint8_t cor_out[RECMAX], chunk[OBUF];
  unsigned pid, di, total, cor_len = 0, it, i; uint32_t mask; int64_t pts, pts2; vbi_bool ok, ok2 = 1; int good;
  vbi_dvb_mux *mx, *mx2; const vbi_sliced *s; unsigned sleft;
  V_INIT();
  in_bytes(sl, sizeof sl); mask = in_u32(); pts = (int64_t) in_u64(); in_config(&pid, &di);
  fix_ids(sl, &mask);
  rec_len = rec_calls = 0;
  mx = new_mux(pid, di);
  ok = vbi_dvb_mux_feed(mx, sl, NL, mask, NULL, NULL, pts);
  release_mux(mx);
  good = frame_model(sl, mask, FIXED, &total);
  V_ASSERT(ok == (good && total <= PMAX - 46), "accepted_iff_legal_and_fits");

  mxs_slot = 1;
  mx2 = new_mux_cb(pid, di, NULL, NULL);
  s = sl; sleft = NL;
  for (it = 0; it < RECMAX / OBUF + 2 && sleft > 0 && ok2; it++) {
    uint8_t *bp = chunk; unsigned bl = OBUF, got;
    ok2 = vbi_dvb_mux_cor(mx2, &bp, &bl, &s, &sleft, mask, NULL, NULL, pts);
    if (!ok2) break;
    got = OBUF - bl;
    V_ASSERT(bp == chunk + got, "cor_buffer_ptr_consistent");
    V_ASSERT(got > 0, "cor_progress");
    V_ASSERT(bl == 0 || sleft == 0, "cor_fills_buffer_or_finishes");
    for (i = 0; i < OBUF; i++) if (i < got && cor_len + i < RECMAX) cor_out[cor_len + i] = chunk[i];
    cor_len += got;
  }
  V_ASSERT(ok2 == ok, "cor_same_verdict");
  if (ok) {
    V_ASSERT(sleft == 0 && s == sl + NL, "cor_consumed_frame");
    V_ASSERT(cor_len == rec_len, "cor_same_length");
    for (i = 0; i < RECMAX; i++) if (i < rec_len && i < cor_len) V_ASSERT(cor_out[i] == rec[i], "cor_same_bytes");
    V_REACH("accepted");
  } else {
    V_ASSERT(cor_len == 0, "cor_rejected_emits_nothing");
    V_ASSERT(s >= sl && s < sl + NL && sleft == (unsigned) (sl + NL - s), "cor_rejected_names_line");
  }
  /* HISTORY: whatever happened to the first frame (accepted, rejected for its content, rejected for its size), a second,
   * valid frame (one Teletext line F2L) comes out of both interfaces with the same bytes ("leaves the multiplexer usable";
   * the callback side is pinned down by h_mux_packets) */
  {
    unsigned len1 = rec_len, cor1 = cor_len, calls1 = rec_calls; vbi_bool okb;
    in_bytes(sl2[0].data, 42); pts2 = (int64_t) in_u64();
    sl2[0].id = VBI_SLICED_TELETEXT_B; sl2[0].line = F2L;
    rec_mx = mx;
    okb = vbi_dvb_mux_feed(mx, sl2, 1, VBI_SLICED_TELETEXT_B, NULL, NULL, pts2);
    V_ASSERT(okb, "next_valid_frame_accepted");
    V_ASSERT(rec_len == len1 + (TS ? (PMIN / 184) * 188 : PMIN) && rec_calls > calls1, "second_frame_min_size");
    s = sl2; sleft = 1; ok2 = 1;
    for (it = 0; it < RECMAX / OBUF + 2 && sleft > 0 && ok2; it++) {
      uint8_t *bp = chunk; unsigned bl = OBUF, got;
      ok2 = vbi_dvb_mux_cor(mx2, &bp, &bl, &s, &sleft, VBI_SLICED_TELETEXT_B, NULL, NULL, pts2);
      if (!ok2) break;
      got = OBUF - bl;
      V_ASSERT(bp == chunk + got, "cor2_buffer_ptr_consistent");
      V_ASSERT(got > 0, "cor2_progress");
      V_ASSERT(bl == 0 || sleft == 0, "cor2_fills_buffer_or_finishes");
      for (i = 0; i < OBUF; i++) if (i < got && cor_len + i < RECMAX) cor_out[cor_len + i] = chunk[i];
      cor_len += got;
    }
    V_ASSERT(ok2, "cor2_next_valid_frame_accepted");
    V_ASSERT(sleft == 0 && s == sl2 + 1, "cor2_consumed_frame");
    V_ASSERT(cor1 == (ok ? len1 : 0) && cor_len - cor1 == rec_len - len1, "cor2_same_length");
    for (i = 0; i < RECMAX; i++)
      if (i >= len1 && i < rec_len && i < cor_len) V_ASSERT(cor_out[i] == rec[i], "cor2_same_bytes");
  }
  release_mux(mx2);
  V_END();
}

/* the real constructors produce exactly the state construct_mux() builds (R7 made a checked statement) */
V_HARNESS(h_mux_ctor)
{
  unsigned pid, i; int ts; vbi_dvb_mux *r, *c;
  V_INIT();
  pid = in_u32(); ts = in_bool();
  r = ts ? vbi_dvb_ts_mux_new(pid, rec_cb, &rec_len) : vbi_dvb_pes_mux_new(rec_cb, &rec_len);
  c = construct_mux(pid, ts, rec_cb, &rec_len);
  V_ASSERT((r == NULL) == (c == NULL), "ctor_same_refusal");
  if (r != NULL && c != NULL) {
    V_ASSERT(r->min_packet_size == c->min_packet_size && r->max_packet_size == c->max_packet_size && r->data_identifier == c->data_identifier
             && r->raw_samples_left == c->raw_samples_left && r->raw_line == c->raw_line && r->raw_offset == c->raw_offset
             && r->raw_samples_per_line == c->raw_samples_per_line && r->pid == c->pid && r->continuity_counter == c->continuity_counter
             && r->cor_offset == c->cor_offset && r->cor_end == c->cor_end && r->cor_ts_left == c->cor_ts_left
             && r->callback == c->callback && r->user_data == c->user_data && r->log.mask == c->log.mask && r->log.fn == c->log.fn, "ctor_same_fields");
    V_ASSERT(r->packet != NULL, "ctor_packet_allocated");
    for (i = 4; i < 4 + 45; i++) if (i != 8 && i != 9) V_ASSERT(r->packet[i] == c->packet[i], "ctor_same_header_bytes");
    vbi_dvb_mux_delete(r);
    V_REACH("constructed");
  }
  V_END();
}

/* configuration functions: size rounding and data_identifier / PID validation as documented */
V_HARNESS(h_mux_config)
{
  unsigned mn, mx_, gmin, gmax, di, pid; vbi_dvb_mux *mx, *t;
  V_INIT();
  mn = in_u32(); mx_ = in_u32(); di = in_u32(); pid = in_u32();
  mx = vbi_dvb_pes_mux_new(NULL, NULL);
  V_ASSERT(mx != NULL, "mux_new");
  V_ASSERT(vbi_dvb_mux_get_min_pes_packet_size(mx) == 184 && vbi_dvb_mux_get_max_pes_packet_size(mx) == 65504
           && vbi_dvb_mux_get_data_identifier(mx) == 0x10, "documented_defaults");
  V_ASSERT(vbi_dvb_mux_set_pes_packet_size(mx, mn, mx_), "set_size_ok");
  gmin = vbi_dvb_mux_get_min_pes_packet_size(mx); gmax = vbi_dvb_mux_get_max_pes_packet_size(mx);
  V_ASSERT(gmin % 184 == 0 && gmax % 184 == 0 && gmin >= 184 && gmax <= 65504 && gmin <= gmax, "sizes_multiples_of_184_in_range");
  if (mn <= 65504) V_ASSERT(gmin >= mn && (gmin < mn + 184 || gmin == 184), "min_rounded_up");
  if (mx_ >= gmin && mx_ <= 65504) V_ASSERT(gmax <= mx_ && gmax + 184 > mx_, "max_rounded_down");
  if (mx_ < gmin) V_ASSERT(gmax == gmin, "max_raised_to_min");
  V_ASSERT(vbi_dvb_mux_set_data_identifier(mx, di) == ((di >= 0x10 && di <= 0x1F) || (di >= 0x99 && di <= 0x9B)), "di_validation");
  V_ASSERT(vbi_dvb_mux_get_data_identifier(mx) == (((di >= 0x10 && di <= 0x1F) || (di >= 0x99 && di <= 0x9B)) ? di : 0x10), "di_kept_on_refusal");
  vbi_dvb_mux_delete(mx);
  t = vbi_dvb_ts_mux_new(pid, NULL, NULL);
  V_ASSERT((t != NULL) == (pid >= 0x10 && pid <= 0x1FFE), "pid_validation");
  vbi_dvb_mux_delete(t);
  V_END();
}
