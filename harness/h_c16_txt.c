/* h_c16_txt.c - C16 group 2: bounded text output, vbi_print_page_region / print_unicode of src/exp-txt.c.
 *
 * Page: PC x PR character cells (default 3 x 2) with fully symbolic vbi_char contents (unicode, size, attributes),
 * region (column,row,width,height) symbolic, output buffer an exact-size heap object of TSIZE bytes (grid
 * 0..needed+1; `needed' is symbolic because cell contents are), iconv = models/c16_iconv.c (charset CS on the grid:
 * 2 ISO-8859-1, 3 UTF-8; byte order of "UCS-2" and the "substitute '@'" behaviour symbolic).
 *
 *   h_c16_txt_table   table mode: result == the region's characters row by row (cells wider than DOUBLE_SIZE and
 *                     characters the charset cannot represent -> space, rows separated by '\n'), returned length ==
 *                     bytes written <= TSIZE; when the buffer is too small: returns 0 (documented failure);
 *                     invalid region / charset: returns 0; object bounds: buf[TSIZE] never accessed.
 *   h_c16_txt_flow    flow mode (table == FALSE): returned length <= TSIZE, every output character is a space or the
 *                     character of a scanned cell, in scan order (subsequence), bounds as above.
 *
 * KNOWN_C16_E2BIG_AS_SPACE: print_unicode treats iconv's E2BIG ("no room") like EILSEQ and retries with a space:
 * with a multi-byte target charset a too-small buffer yields SUCCESS with the last character(s) replaced by spaces
 * instead of the documented failure.  With the define, the "too small => 0" assertion is relaxed to "0 or <= TSIZE".
 */
#include "verif.h"
#include "c16_iconv.h"
#include "src/exp-txt.c"

#ifndef PC
#define PC 3
#endif
#ifndef PR
#define PR 2
#endif
#ifndef TSIZE
#define TSIZE 7
#endif
#ifndef CS
#define CS 2
#endif
#define NCELL (PC * PR)
#define EMAX (NCELL * 3 + PR)

static vbi_page PAGE;
static const char *c16_format(void) { return CS == 1 ? "ASCII" : CS == 2 ? "ISO-8859-1" : CS == 3 ? "UTF-8" : "KLINGON"; }

static int column, row, width, height;
static uint8_t *OUT;

static void c16_txt_setup(void)
{
  unsigned i;
  PAGE.columns = PC; PAGE.rows = PR;
  for (i = 0; i < NCELL; i++) in_bytes(&PAGE.text[i], sizeof(vbi_char));
  /* width, height >= 1 is the documented precondition; everything else (negative origin, region beyond the page) must be
     rejected by the function */
  column = (int) (in_u8() % (PC + 2)) - 1; row = (int) (in_u8() % (PR + 2)) - 1;
  width = 1 + in_u8() % (PC + 1); height = 1 + in_u8() % (PR + 1);
  C16_ICONV.big_endian = in_bool(); C16_ICONV.subst_at = in_bool();
  OUT = (uint8_t *) malloc(TSIZE);          /* exact size */
  V_ASSUME(OUT != NULL);
}

static int c16_region_valid(void)
{
  return column >= 0 && row >= 0 && column + width <= PC && row + height <= PR;
}

/* one output character of the oracle: code point -> bytes, unrepresentable -> space */
static unsigned c16_put(uint8_t *exp, unsigned n, unsigned u)
{
  uint8_t e[3];
  unsigned k = c16_encode(CS, u, e), j;
  if (k == 0) { e[0] = 0x20; k = 1; }
  for (j = 0; j < 3; j++) if (j < k) exp[n + j] = e[j];
  return n + k;
}

V_HARNESS(h_c16_txt_table)
{
  static uint8_t EXP[EMAX + 4];
  unsigned n = 0, i;
  int x, y, r;
  V_INIT();
  c16_txt_setup();

  r = vbi_print_page_region(&PAGE, (char *) OUT, TSIZE, c16_format(), /* table */ TRUE, /* rtl */ FALSE, column, row, width, height);

  V_ASSERT(C16_ICONV.n_open == C16_ICONV.n_close, "iconv_descriptors_closed");
  V_ASSERT(PAGE.columns == PC && PAGE.rows == PR, "page_geometry_untouched");
  if (!c16_region_valid() || CS > 3) {
    V_ASSERT(r == 0, "invalid_region_or_charset_returns_zero");
    V_REACH("invalid");
  } else {
    /* the oracle: PR, PC are small constants, the region is symbolic */
    for (y = 0; y < PR; y++) {
      if (y < row || y >= row + height) continue;
      for (x = 0; x < PC; x++) {
        vbi_char c;
        if (x < column || x >= column + width) continue;
        c = PAGE.text[y * PC + x];
        n = c16_put(EXP, n, c.size > VBI_DOUBLE_SIZE ? 0x20 : c.unicode);
      }
      if (y + 1 < row + height) EXP[n++] = '\n';
    }
    V_ASSERT(r >= 0 && r <= TSIZE, "returned_length_within_size");
    if (n <= TSIZE) {
      V_ASSERT(r == (int) n, "table_returns_number_of_bytes_needed");
      for (i = 0; i < TSIZE; i++)
        if (i < n) V_ASSERT(OUT[i] == EXP[i], "table_output_equals_region_text");
      if (n == TSIZE) V_REACH("exact_fit");
      V_REACH("fits");
    } else {
#ifndef KNOWN_C16_E2BIG_AS_SPACE
      V_ASSERT(r == 0, "too_small_buffer_fails");
#endif
      if (n == TSIZE + 1) V_REACH("one_short");
    }
  }
  free(OUT);
  V_END();
}

V_HARNESS(h_c16_txt_flow)
{
  int r, y, x;
  unsigned pos = 0, i;
  V_INIT();
  c16_txt_setup();
  /* CS must be 2 here (one byte per character: the subsequence oracle below compares bytes with code points) */

  r = vbi_print_page_region(&PAGE, (char *) OUT, TSIZE, c16_format(), /* table */ FALSE, FALSE, column, row, width, height);

  V_ASSERT(C16_ICONV.n_open == C16_ICONV.n_close, "iconv_descriptors_closed");
  V_ASSERT(r >= 0 && r <= TSIZE, "returned_length_within_size");
  if (!c16_region_valid()) {
    V_ASSERT(r == 0, "invalid_region_returns_zero");
  } else {
    /* every output byte is a space or the (Latin-1) character of a scanned cell; cells are consumed in scan order:
       first row from `column', last row up to column+width-1, rows in between in full */
    for (i = 0; i < TSIZE; i++) {
      if ((int) i < r && OUT[i] != 0x20) {
        int found = 0;
        for (y = 0; y < PR; y++)
          for (x = 0; x < PC; x++) {
            unsigned idx = (unsigned) (y * PC + x);
            int scanned = y >= row && y < row + height && (y > row || x >= column) && (y < row + height - 1 || x < column + width);
            if (!found && scanned && idx >= pos && PAGE.text[idx].unicode == OUT[i]) { found = 1; pos = idx + 1; }
          }
        V_ASSERT(found, "flow_output_is_subsequence_of_scanned_cells");
      }
    }
    if (r > 0) V_REACH("printed");
    if (r == TSIZE && TSIZE > 0) V_REACH("full");
  }
  free(OUT);
  V_END();
}
