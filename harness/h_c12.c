/* C12 - VPS, DVB PDC descriptor, Teletext 8/30 format 1/2 codecs.
 * Real units: src/vps.c, src/packet-830.c (included), src/hamm.c (linked). */
#include "verif.h"
#include "ref_codes.h"
#include "src/vps.c"
#include "src/packet-830.c"

static void in_pid(vbi_program_id *pid)
{
  memset(pid, 0, sizeof *pid);
  pid->cni = in_u32(); pid->pil = in_u32(); pid->pcs_audio = (vbi_pcs_audio) in_int(); pid->pty = in_u32();
  pid->channel = (vbi_pid_channel) (in_u8() & 15); pid->luf = in_bool(); pid->mi = in_bool(); pid->prf = in_bool();
}

/* encode_vps_pdc -> decode_vps_pdc; refusal iff out of range, buffer untouched; only field bits change */
V_HARNESS(h_vps_pdc_roundtrip)
{
  uint8_t buf[13], orig[13]; vbi_program_id pid, out; int i; vbi_bool ok;
  V_INIT();
  in_bytes(buf, 13); memcpy(orig, buf, 13);
  in_pid(&pid);
  ok = vbi_encode_vps_pdc(buf, &pid);
  V_ASSERT(ok == (pid.cni <= 0xFFF && pid.pil <= 0xFFFFF && (unsigned) pid.pcs_audio <= 3 && pid.pty <= 0xFF), "vps_enc_refuse_iff_range");
  if (!ok) {
    for (i = 0; i < 13; i++) V_ASSERT(buf[i] == orig[i], "vps_enc_refuse_untouched");
    V_REACH("refused");
    return;
  }
  V_ASSERT(vbi_decode_vps_pdc(&out, buf), "vps_dec_ok");
  V_ASSERT(out.pil == pid.pil, "vps_pil");
  V_ASSERT(out.pty == pid.pty, "vps_pty");
  V_ASSERT(out.pcs_audio == pid.pcs_audio, "vps_pcs");
  V_ASSERT(out.channel == VBI_PID_CHANNEL_VPS && out.cni_type == VBI_CNI_TYPE_VPS, "vps_channel");
  if (pid.cni != 0xDC3) V_ASSERT(out.cni == pid.cni, "vps_cni");
  else V_ASSERT(out.cni == ((buf[2] & 0x10) ? 0xDC1u : 0xDC2u), "vps_cni_dc3");
  /* bits not belonging to CNI/PIL/PCS/PTY fields stay */
  V_ASSERT(buf[0] == orig[0] && buf[1] == orig[1] && (buf[2] & 0x3F) == (orig[2] & 0x3F), "vps_untouched_0_2");
  for (i = 3; i < 8; i++) V_ASSERT(buf[i] == orig[i], "vps_untouched_3_7");
  /* re-encoding the decoded id reproduces the bits (DC3 exception) */
  { uint8_t b2[13]; memcpy(b2, buf, 13);
    if (pid.cni != 0xDC3) { V_ASSERT(vbi_encode_vps_pdc(b2, &out), "vps_reenc_ok");
      for (i = 0; i < 13; i++) V_ASSERT(b2[i] == buf[i], "vps_reenc_same"); } }
  V_END();
}

V_HARNESS(h_vps_cni_roundtrip)
{
  uint8_t buf[13], orig[13]; unsigned cni, out = 0x55555555u; int i; vbi_bool ok;
  V_INIT();
  in_bytes(buf, 13); memcpy(orig, buf, 13); cni = in_u32();
  ok = vbi_encode_vps_cni(buf, cni);
  V_ASSERT(ok == (cni <= 0xFFF), "vpscni_refuse_iff");
  if (!ok) { for (i = 0; i < 13; i++) V_ASSERT(buf[i] == orig[i], "vpscni_untouched_refuse"); V_REACH("refused"); return; }
  V_ASSERT(vbi_decode_vps_cni(&out, buf), "vpscni_dec_ok");
  if (cni != 0xDC3) V_ASSERT(out == cni, "vpscni_eq"); else V_ASSERT(out == ((buf[2] & 0x10) ? 0xDC1u : 0xDC2u), "vpscni_dc3");
  for (i = 0; i < 13; i++) {
    uint8_t mask = (i == 8) ? 0xC0 : (i == 10) ? 0x03 : (i == 11) ? 0xFF : 0;
    V_ASSERT((buf[i] & ~mask) == (orig[i] & ~mask), "vpscni_only_field_bits");
  }
  V_END();
}

/* decode(any 13 bytes) -> encode into the same buffer reproduces the field bits (except raw 0xDC3) */
V_HARNESS(h_vps_decode_reencode)
{
  uint8_t buf[13], b2[13]; vbi_program_id pid; int i; unsigned rawcni;
  V_INIT();
  in_bytes(buf, 13); memcpy(b2, buf, 13);
  V_ASSERT(vbi_decode_vps_pdc(&pid, buf), "vps_dec_any_ok");
  /* independent field extraction per EN 300 231 / TR 101 231 VPS bit layout */
  rawcni = ((buf[10] & 3u) << 10) | ((buf[11] & 0xC0u) << 2) | (buf[8] & 0xC0u) | (buf[11] & 0x3Fu);
  V_ASSERT(pid.pil == (((buf[8] & 0x3Fu) << 14) | ((unsigned) buf[9] << 6) | (buf[10] >> 2)), "vps_dec_pil_bits");
  V_ASSERT(pid.pty == buf[12] && (unsigned) pid.pcs_audio == (buf[2] >> 6), "vps_dec_pty_pcs");
  V_ASSERT(pid.luf == 0 && pid.prf == 0 && pid.mi == 1, "vps_dec_flags");
  if (rawcni != 0xDC3) V_ASSERT(pid.cni == rawcni, "vps_dec_cni_bits");
  V_ASSERT(vbi_encode_vps_pdc(b2, &pid), "vps_reenc2_ok");
  if (rawcni != 0xDC3) for (i = 0; i < 13; i++) V_ASSERT(b2[i] == buf[i], "vps_reenc2_same");
  else { V_ASSERT(pid.cni == ((buf[2] & 0x10) ? 0xDC1u : 0xDC2u), "vps_dc3_rule"); V_REACH("dc3"); }
  V_END();
}

V_HARNESS(h_dvb_pdc)
{
  uint8_t buf[5], orig[5]; vbi_program_id pid, out, out0; int i; vbi_bool ok;
  V_INIT();
  in_bytes(buf, 5); memcpy(orig, buf, 5); in_pid(&pid);
  in_bytes(&out, sizeof out); out0 = out;
  ok = vbi_encode_dvb_pdc_descriptor(buf, &pid);
  V_ASSERT(ok == (pid.pil <= 0xFFFFF), "dvb_enc_refuse_iff");
  if (!ok) { for (i = 0; i < 5; i++) V_ASSERT(buf[i] == orig[i], "dvb_enc_untouched"); V_REACH("refused"); return; }
  V_ASSERT(buf[0] == 0x69 && buf[1] == 3 && (buf[2] & 0xF0) == 0xF0, "dvb_enc_tag_len_reserved");
  V_ASSERT(vbi_decode_dvb_pdc_descriptor(&out, buf), "dvb_dec_ok");
  V_ASSERT(out.pil == pid.pil && out.channel == VBI_PID_CHANNEL_PDC_DESCRIPTOR, "dvb_pil");
  /* decoder refuses wrong tag / length and leaves pid untouched */
  { uint8_t bad[5]; memcpy(bad, buf, 5); bad[0] = in_u8(); bad[1] = in_u8();
    out = out0;
    ok = vbi_decode_dvb_pdc_descriptor(&out, bad);
    V_ASSERT(ok == (bad[0] == 0x69 && bad[1] == 3), "dvb_dec_refuse_iff");
    if (!ok) V_ASSERT(0 == memcmp(&out, &out0, sizeof out), "dvb_dec_untouched"); }
  V_END();
}

/* 8/30 format 1: independent decoder for ARBITRARY packets (digits are transmitted +1) */
V_HARNESS(h_8301_any)
{
  uint8_t buf[42]; time_t t = 0x1122334455667788LL, t0; int se = 0x31415926, se0; unsigned cni = 0; vbi_bool ok;
  unsigned d[5], u[6], i, valid = 1; long long mjd, utc; int off;
  V_INIT();
  in_bytes(buf, 42); t0 = t; se0 = se;
  d[4] = buf[12] & 15; d[3] = buf[13] >> 4; d[2] = buf[13] & 15; d[1] = buf[14] >> 4; d[0] = buf[14] & 15;
  u[5] = buf[15] >> 4; u[4] = buf[15] & 15; u[3] = buf[16] >> 4; u[2] = buf[16] & 15; u[1] = buf[17] >> 4; u[0] = buf[17] & 15;
  for (i = 0; i < 5; i++) if (d[i] < 1 || d[i] > 10) valid = 0;
  for (i = 0; i < 6; i++) if (u[i] < 1 || u[i] > 10) valid = 0;
  mjd = 0; { long long f = 1; for (i = 0; i < 5; i++) { mjd += (long long)(d[i] - 1) * f; f *= 10; } }
  { unsigned s = (u[0]-1) + (u[1]-1)*10, m = (u[2]-1) + (u[3]-1)*10, h = (u[4]-1) + (u[5]-1)*10;
    if (s > 60 || m >= 60 || h >= 24) valid = 0;
    utc = (long long) h * 3600 + m * 60 + s; }
  off = (int)((buf[11] >> 1) & 31) * 30 * 60; if (buf[11] & 0x40) off = -off;
  ok = vbi_decode_teletext_8301_local_time(&t, &se, buf);
  V_ASSERT(ok == (vbi_bool) valid, "8301_accept_iff_valid");
  if (!ok) { V_ASSERT(t == t0 && se == se0, "8301_reject_untouched"); V_REACH("rejected"); }
  else {
    V_ASSERT((long long) t == (mjd - 40587) * 86400 + utc, "8301_time");
    V_ASSERT(se == off, "8301_lto");
  }
  V_ASSERT(vbi_decode_teletext_8301_cni(&cni, buf), "8301_cni_ok");
  V_ASSERT(cni == (ref_rev8(buf[9]) << 8 | ref_rev8(buf[10])), "8301_cni");
  V_END();
}

/* 8/30 format 2: reference encoder -> decoder, all fields full range, one optional bit error */
V_HARNESS(h_8302_roundtrip)
{
  uint8_t buf[42]; vbi_program_id pid; unsigned c2 = 0;
  unsigned lci, luf, prf, pcs, mi, cni, pil, pty, pos, i;
  unsigned bb[6], b6;
  V_INIT();
  in_bytes(buf, 42);
  lci = in_u8() & 3; luf = in_u8() & 1; prf = in_u8() & 1; pcs = in_u8() & 3; mi = in_u8() & 1;
  cni = in_u16(); pil = in_u32() & 0xFFFFF; pty = in_u8(); pos = in_u8();
  b6 = (lci << 2) | (luf << 1) | prf;
  bb[0] = (pcs << 6) | (mi << 5) | ((cni >> 12) & 0xF);
  bb[1] = (cni & 0xC0) | ((pil >> 14) & 0x3F);
  bb[2] = (pil >> 6) & 0xFF;
  bb[3] = ((pil & 0x3F) << 2) | ((cni >> 10) & 3);
  bb[4] = ((cni >> 2) & 0xC0) | (cni & 0x3F);
  bb[5] = pty;
  buf[9] = ref_ham8(ref_rev4(b6));
  for (i = 0; i < 6; i++) { unsigned v = ref_rev8(bb[i]); buf[10 + 2*i] = ref_ham8(v & 15); buf[11 + 2*i] = ref_ham8(v >> 4); }
  V_ASSUME(pos <= 13 * 8);
  if (pos < 13 * 8) buf[9 + pos / 8] ^= 1u << (pos & 7);   /* pos == 104: no error */
  V_ASSERT(vbi_decode_teletext_8302_pdc(&pid, buf), "8302_dec_ok");
  V_ASSERT(pid.cni == cni, "8302_cni"); V_ASSERT(pid.pil == pil, "8302_pil"); V_ASSERT(pid.pty == pty, "8302_pty");
  V_ASSERT((unsigned) pid.pcs_audio == pcs, "8302_pcs");
  V_ASSERT(pid.luf == (int) luf && pid.mi == (int) mi && pid.prf == (int) prf, "8302_flags");
  V_ASSERT(pid.channel == VBI_PID_CHANNEL_LCI_0 + lci && pid.cni_type == VBI_CNI_TYPE_8302, "8302_lci");
  V_ASSERT(vbi_decode_teletext_8302_cni(&c2, buf) && c2 == cni, "8302_cni_fn");
  V_END();
}

/* 8/30 format 2: arbitrary packet: accepted iff all 13 protected bytes are within distance 1 of a code word */
V_HARNESS(h_8302_any)
{
  uint8_t buf[42]; vbi_program_id pid, pid0; unsigned c = 0x12345678u; int good = 1, goodc = 1, i; vbi_bool ok;
  V_INIT();
  in_bytes(buf, 42); in_bytes(&pid, sizeof pid); pid0 = pid;
  for (i = 9; i <= 21; i++) if (ref_unham8(buf[i]) < 0) good = 0;
  for (i = 10; i <= 13; i++) if (ref_unham8(buf[i]) < 0) goodc = 0;
  for (i = 16; i <= 19; i++) if (ref_unham8(buf[i]) < 0) goodc = 0;
  ok = vbi_decode_teletext_8302_pdc(&pid, buf);
  V_ASSERT(ok == (vbi_bool) good, "8302_accept_iff_hamming_ok");
  if (!ok) { V_ASSERT(0 == memcmp(&pid, &pid0, sizeof pid), "8302_reject_untouched"); V_REACH("rejected"); }
  ok = vbi_decode_teletext_8302_cni(&c, buf);
  V_ASSERT(ok == (vbi_bool) goodc, "8302cni_accept_iff");
  if (!ok) V_ASSERT(c == 0x12345678u, "8302cni_reject_untouched");
  else if (good) V_ASSERT(c == pid.cni, "8302cni_agrees");
  V_END();
}
