/* C02 (b),(c) type carving (DESIGN R2): src/teletext.c never touches the caption decoder state (168 KB of vbi_decoder) and
 * of the Teletext decoder state (46 KB) only vt.default_magazine.  Both types are replaced through their include guards by
 * small stand-ins that keep the members teletext.c names; all other declarations of the two headers are repeated verbatim.
 * vbi_decoder shrinks from 220 KB to about 6 KB (the static zero object costs symex time per expanded array element).
 * Must be included before any zvbi header. */
#ifndef C02FMT_CARVE_H
#define C02FMT_CARVE_H

#include "site_def.h"
#ifdef HAVE_CONFIG_H
#  include "config.h"
#endif

/* ---- src/cc.h ---- */
#define CC_H
#include <pthread.h>
#include "src/bcd.h"
#include "src/format.h"
#ifndef VBI_DECODER
#define VBI_DECODER
typedef struct vbi_decoder vbi_decoder;
#endif
struct caption { int carved_out; };

/* ---- src/teletext_decoder.h ---- */
#define TELETEXT_H
#include "src/cache-priv.h"
typedef enum {
	VBI_WST_LEVEL_1,
	VBI_WST_LEVEL_1p5,
	VBI_WST_LEVEL_2p5,
	VBI_WST_LEVEL_3p5
} vbi_wst_level;
struct teletext {
	vbi_wst_level			max_level;
	struct ttx_page_link		header_page;
	uint8_t		        	header[40];
	struct ttx_magazine		default_magazine;
	int                     	region;
	/* carved out: struct raw_page raw_page[8] (45 KB), *current */
};
extern void		vbi_teletext_set_default_region(vbi_decoder *vbi, int default_region);
extern void		vbi_teletext_set_level(vbi_decoder *vbi, int level);
extern vbi_bool		vbi_fetch_vt_page(vbi_decoder *vbi, vbi_page *pg,
					  vbi_pgno pgno, vbi_subno subno,
					  vbi_wst_level max_level, int display_rows,
					  vbi_bool navigation);
extern int		vbi_page_title(vbi_decoder *vbi, int pgno, int subno, char *buf);
extern void		vbi_resolve_link(vbi_page *pg, int column, int row,
					 vbi_link *ld);
extern void		vbi_resolve_home(vbi_page *pg, vbi_link *ld);
extern void		vbi_teletext_init(vbi_decoder *vbi);
extern void		vbi_teletext_destroy(vbi_decoder *vbi);
extern vbi_bool		vbi_decode_teletext(vbi_decoder *vbi, uint8_t *p);
extern void		vbi_teletext_desync(vbi_decoder *vbi);
extern void             vbi_teletext_channel_switched(vbi_decoder *vbi);
extern cache_page *	vbi_convert_page(vbi_decoder *vbi, cache_page *vtp,
					 vbi_bool cached,
					 enum ttx_page_function new_function);
extern void		vbi_decode_vps(vbi_decoder *vbi, uint8_t *p);
extern vbi_bool		vbi_format_vt_page(vbi_decoder *, vbi_page *,
					   cache_page *,
					   vbi_wst_level max_level,
					   int display_rows,
					   vbi_bool navigation);
#endif
