/* c19_io.c - environment model for the proxy daemon checks (C18, C19); see c19_io.h. */
#include <stddef.h>
#include <stdint.h>
#include <stdlib.h>
#include <string.h>
#include <errno.h>
#include <assert.h>
#include <sys/types.h>
#include <sys/socket.h>
#include <sys/time.h>
#include <pthread.h>
#include "config.h"
#include "src/vbi.h"
#include "src/inout.h"
#include "c19_io.h"

struct c19_env C19;

static int c19_read(vbi_capture *, vbi_capture_buffer **, vbi_capture_buffer **, const struct timeval *);
static vbi_raw_decoder *c19_parameters(vbi_capture *);
static unsigned int c19_update_services(vbi_capture *, vbi_bool, vbi_bool, unsigned int, int, char **);
static int c19_get_scanning(vbi_capture *);
static void c19_flush(vbi_capture *);
static int c19_get_fd(vbi_capture *);
static VBI_CAPTURE_FD_FLAGS c19_get_fd_flags(vbi_capture *);
static void c19_delete(vbi_capture *);

static vbi_raw_decoder c19_dec;
/* the method table is a constant: the solver then resolves every capture->method() call to one target on every path */
static struct vbi_capture c19_cap = {
  .read = c19_read, .parameters = c19_parameters, .update_services = c19_update_services, .get_scanning = c19_get_scanning,
  .flush = c19_flush, .get_fd = c19_get_fd, .get_fd_flags = c19_get_fd_flags, ._delete = c19_delete
};
static int c19_open;


/* ------------------------------------------------------------------ sockets */

ssize_t recv(int fd, void *buf, size_t n, int flags)
{
  uint32_t k = C19.recv_calls, r, left, i;
  uint8_t *dst = (uint8_t *) buf;
  (void) flags;
  assert(fd >= 0);                        /* never called on a closed connection */
  C19.recv_calls = k + 1;
  if (k >= C19_NIO) { errno = EAGAIN; return -1; }
  if (C19.recv_ret[k] < 0) {
    errno = C19.recv_err[k] == 0 ? EAGAIN : C19.recv_err[k] == 1 ? EINTR : ECONNRESET;
    return -1;
  }
  r = (uint32_t) C19.recv_ret[k];
  if (r > n) r = (uint32_t) n;
  if (r > C19_MAXCHUNK) r = C19_MAXCHUNK;
  left = C19.stream_len - C19.stream_pos;
  if (r > left) r = left;                 /* 0 = orderly shutdown by the peer (or n == 0) */
  for (i = 0; i < C19_MAXCHUNK; i++)
    if (i < r) dst[i] = C19.stream[C19.stream_pos + i];
  C19.stream_pos += r;
  return (ssize_t) r;
}

static void c19_log_send(uint32_t k, int fd, const uint8_t *src, size_t n, int32_t ret)
{
  uint32_t j, i;
  /* the record index is compared against constants: a store through a symbolic index into the (large) script object stalls symex */
  for (j = 0; j < C19_SENDLOG; j++)
    if (k == j) {
      C19.sent[j].fd = fd; C19.sent[j].len_asked = (uint32_t) n; C19.sent[j].ret = ret;
      for (i = 0; i < C19_SENDBYTES; i++)
        if (i < n) C19.sent[j].bytes[i] = src[i];       /* reads the bytes: the buffer handed to send() must be that long */
    }
}

ssize_t send(int fd, const void *buf, size_t n, int flags)
{
  uint32_t k = C19.send_calls, r;
  (void) flags;
  assert(fd >= 0);
  assert(buf != NULL && n > 0);
  C19.send_calls = k + 1;
  if (k >= C19_NIO) { errno = EAGAIN; return -1; }
  if (C19.send_ret[k] < 0) {
    errno = C19.send_err[k] == 0 ? EAGAIN : C19.send_err[k] == 1 ? EINTR : EPIPE;
    c19_log_send(k, fd, (const uint8_t *) buf, 0, -1);
    return -1;
  }
  r = (uint32_t) C19.send_ret[k];
  if (r > n) r = (uint32_t) n;
  c19_log_send(k, fd, (const uint8_t *) buf, n, (int32_t) r);
  return (ssize_t) r;
}

int close(int fd)
{
  C19.n_close++;
  C19.last_closed_fd = fd;
  return 0;
}

/* ------------------------------------------------------------------ clock, process */

time_t time(time_t *t)
{
  if (t) *t = C19.now;
  return C19.now;
}

unsigned int alarm(unsigned int s)
{
  C19.n_alarm++;
  C19.last_alarm = s;
  return 0;
}

pid_t getpid(void) { return 4242; }

void perror(const char *s) { (void) s; }

int ioctl(int fd, unsigned long request, ...)
{
  (void) fd; (void) request;
  C19.n_ioctl++;
  return C19.ioctl_ret;
}

/* ------------------------------------------------------------------ capture device */

static int c19_read(vbi_capture *c, vbi_capture_buffer **raw, vbi_capture_buffer **sliced, const struct timeval *tv)
{
  unsigned i;
  (void) tv;
  assert(c == &c19_cap && c19_open);
  C19.n_read++;
  if (C19.frame_ret <= 0)
    return C19.frame_ret < 0 ? -1 : 0;
  if (raw && *raw) { (*raw)->size = 0; (*raw)->timestamp = C19.frame_ts; }
  if (sliced && *sliced) {
    uint8_t *dst = (uint8_t *) (*sliced)->data;
    int n = C19.frame_lines;
    if (n < 0) n = 0;
    if (n > C19_MAXLINES) n = C19_MAXLINES;
    if (n > c19_dec.count[0] + c19_dec.count[1]) n = c19_dec.count[0] + c19_dec.count[1];   /* contract: at most count[0]+count[1] lines */
    for (i = 0; i < C19_MAXLINES; i++)
      if ((int) i < n) {
#ifdef VERIF_CBMC
        /* typed, member-wise copy (x86 byte order), same bytes as the memcpy of the native build: CBMC models memcpy by array constraints
           over the WHOLE destination object - a queue element, which also holds the list pointer, line count and reference count.  After a
           memcpy none of them is a constant for symex any more (C18 seq_*: 230 000 symex steps, symbolic number of send() calls; with the
           member-wise copy everything that selects a path stays concrete and a CONSTANT service id set by a harness reaches the daemon's filter) */
        vbi_sliced *out = (vbi_sliced *) (void *) dst + i; const uint8_t *s = C19.frame_data[i]; unsigned b;
        out->id = (uint32_t) s[0] | ((uint32_t) s[1] << 8) | ((uint32_t) s[2] << 16) | ((uint32_t) s[3] << 24);
        out->line = (uint32_t) s[4] | ((uint32_t) s[5] << 8) | ((uint32_t) s[6] << 16) | ((uint32_t) s[7] << 24);
        for (b = 0; b < 56; b++) out->data[b] = s[8 + b];
#else
        memcpy(dst + 64 * i, C19.frame_data[i], 64);
#endif
      }
    (*sliced)->size = n * 64;
    (*sliced)->timestamp = C19.frame_ts;
  }
  return 1;
}

static vbi_raw_decoder *c19_parameters(vbi_capture *c)
{
  assert(c == &c19_cap && c19_open);
  return C19.has_decoder ? &c19_dec : NULL;
}

static unsigned int c19_update_services(vbi_capture *c, vbi_bool reset, vbi_bool commit,
                                        unsigned int services, int strict, char **errorstr)
{
  uint32_t k = C19.upd_calls;
  (void) commit; (void) strict;
  assert(c == &c19_cap && c19_open);
  C19.upd_calls = k + 1;
  if (reset) C19.upd_services_union = 0;
  C19.upd_services_union |= services;
  if (k >= C19_NUPD) return 0;
  if (errorstr && C19.grant_err[k]) {
    char *s = malloc(8);
    if (s) { memcpy(s, "refused", 8); *errorstr = s; }
  }
  return services & C19.grant_mask[k];
}

static int c19_get_scanning(vbi_capture *c) { assert(c == &c19_cap && c19_open); return C19.cap_scanning; }
static void c19_flush(vbi_capture *c) { assert(c == &c19_cap && c19_open); C19.n_flush++; }
static int c19_get_fd(vbi_capture *c) { assert(c == &c19_cap && c19_open); return C19.cap_fd; }
static VBI_CAPTURE_FD_FLAGS c19_get_fd_flags(vbi_capture *c)
{ assert(c == &c19_cap && c19_open); return VBI_FD_HAS_SELECT | VBI_FD_IS_DEVICE; }   /* acquisition thread mode is outside the claim */
static void c19_delete(vbi_capture *c) { assert(c == &c19_cap && c19_open); c19_open = 0; C19.n_delete++; }

static vbi_capture *c19_do_open(int ok)
{
  assert(!c19_open);                       /* the daemon never opens a device twice */
  if (!ok) return NULL;
  memset(&c19_dec, 0, sizeof c19_dec);
  c19_dec.scanning = C19.dec_scanning;
  c19_dec.start[0] = C19.dec_start[0]; c19_dec.start[1] = C19.dec_start[1];
  c19_dec.count[0] = C19.dec_count[0]; c19_dec.count[1] = C19.dec_count[1];
  c19_open = 1;
  C19.n_open++;
  return &c19_cap;
}

vbi_capture *vbi_capture_v4l2_new(const char *dev_name, int buffers, unsigned int *services, int strict,
                                  char **errorstr, vbi_bool trace)
{
  (void) dev_name; (void) buffers; (void) services; (void) strict; (void) errorstr; (void) trace;
  return c19_do_open(C19.open_v4l2_ok);
}

vbi_capture *vbi_capture_v4l_new(const char *dev_name, int scanning, unsigned int *services, int strict,
                                 char **errorstr, vbi_bool trace)
{
  (void) dev_name; (void) scanning; (void) services; (void) strict; (void) errorstr; (void) trace;
  return c19_do_open(C19.open_v4l_ok);
}

int c19_device_is_open(void) { return c19_open; }

/* an already open device (for harnesses that start in the middle of a run) */
void *c19_device_handle(void)
{
  if (!c19_open) (void) c19_do_open(1);
  return &c19_cap;
}

void c19_env_reset(void)
{
  memset(&C19, 0, sizeof C19);
  c19_open = 0;
  C19.last_closed_fd = -2;
}

/* ------------------------------------------------------------------ pthread (solver build only) */
#ifdef VERIF_CBMC
/* lock discipline: a table of held mutexes (the mutex objects themselves are never written: a store through a
 * pthread_mutex_t* that may point to 13 different members of the daemon's state object stalls symex);
 * lock asserts "not already held" (self deadlock), unlock asserts "held" */
static const void *c19_held[4];
int pthread_mutex_init(pthread_mutex_t *m, const pthread_mutexattr_t *a) { (void) m; (void) a; return 0; }
int pthread_mutex_destroy(pthread_mutex_t *m) { (void) m; return 0; }
int pthread_mutex_lock(pthread_mutex_t *m)
{
  unsigned i; int slot = -1;
  for (i = 0; i < 4; i++) { assert(c19_held[i] != (const void *) m); if (c19_held[i] == NULL && slot < 0) slot = (int) i; }
  assert(slot >= 0);
  c19_held[slot] = (const void *) m;
  return 0;
}
int pthread_mutex_unlock(pthread_mutex_t *m)
{
  unsigned i; int found = 0;
  for (i = 0; i < 4; i++) if (c19_held[i] == (const void *) m) { c19_held[i] = NULL; found = 1; }
  assert(found);
  return 0;
}
int c19_locks_held(void) { unsigned i; int n = 0; for (i = 0; i < 4; i++) n += c19_held[i] != NULL; return n; }
/* The acquisition thread (devices without select()) is outside the claim and the model device always has select();
 * symex nevertheless walks into vbi_proxyd_start_acq_thread under an infeasible guard.  No thread is ever spawned: */
int pthread_create(pthread_t *t, const pthread_attr_t *a, void *(*fn)(void *), void *arg)
{ (void) t; (void) a; (void) fn; (void) arg; assert(0 && "acquisition thread requested although the device supports select()"); return EAGAIN; }
#else
int c19_locks_held(void) { return 0; }
#endif
