/* c14_time.h - environment model for property C14 (src/pdc.c): calendar, clock, TZ environment.
 *
 * Replaces (by REAL libc names, function definitions in c14_time.c, because pdc.c #undefs
 * mktime/timegm):  time gmtime_r timegm mktime localtime_r getenv setenv unsetenv tzset
 * (+ strdup under CBMC only; natively the real strdup/free run under ASan).
 *
 * Calendar: proleptic Gregorian, no leap seconds (POSIX), years M14_YLO..M14_YHI.
 *   forward  m14_days_from_civil()/m14_secs_from_civil(): closed form, only multiply/shift/add (n/100 == n*5243>>19),
 *            linear in mday/hour/minute/second like mktime's normalisation; the month term is memoised (pure cache)
 *   inverse  m14_civil_from_secs(): under CBMC RELATIONAL (nondet fields + assume forward(fields) == t) plus one
 *            harness-registered lemma instance (m14_hint_civil, justified by injectivity of the forward function);
 *            natively an independent closed-form inverse.  Cross-checked natively against glibc and
 *            symbolically (anchors, leap rule, successor-day step) in h_m14_selfcheck.
 * TZ environment: abstract cell {UNSET, AMBIENT, UTC, NAMED}; every id has a fixed offset
 *   M14.off[id] (seconds east, symbolic, chosen by the harness).  `active` = zone libc converts with
 *   (updated by tzset() and, as POSIX requires, implicitly by mktime(); NOT by localtime_r()).
 * Ghost state for the harnesses: log of every mktime()/timegm() call (fields, zone id, secs_from_civil(fields)).
 * Failure injection: setenv("TZ", v) with v != ambient string fails when bit k of setenv_fail_mask is
 *   set for the k-th such call (EINVAL/ENOMEM); setenv("TZ", <ambient string>) = the restore, never fails;
 *   mktime fails (-1, EOVERFLOW) when bit k of mktime_fail_mask is set for the k-th call;
 *   time() fails when now == -1.
 */
#ifndef C14_TIME_H
#define C14_TIME_H
#include <stdint.h>
#include <time.h>

#ifndef M14_YLO
#define M14_YLO 1600
#endif
#ifndef M14_YHI
#define M14_YHI 4000
#endif

enum { M14_TZ_UNSET = 0, M14_TZ_AMBIENT = 1, M14_TZ_UTC = 2, M14_TZ_NAMED = 3, M14_TZ_N = 4 };
#define M14_STRMAX 5            /* longest TZ string incl. NUL handled by the model */
#define M14_AMBIENT_STR "AMB"   /* opaque value of TZ when the ambient environment has it set */

#define M14_LOG 3
/* ghost log of one mktime() call: the broken-down fields passed in, the zone libc used, secs_from_civil(fields) */
struct m14_mkcall { int y, mon0, mday, h, mi, s, isdst, zone, failed; int64_t local; };

struct m14_state {
  /* configuration, filled by the harness from VINS */
  int32_t off[M14_TZ_N];        /* seconds east of UTC per cell id; off[M14_TZ_UTC] must be 0 */
  int64_t now;                  /* value returned by time(); -1 = time() fails */
  uint8_t setenv_fail_mask;
  uint8_t mktime_fail_mask;
  const char *named_tz;         /* optional: a string object the harness vouches to denote the NAMED zone (identity shortcut) */
  /* state */
  int cell;                     /* TZ environment variable (abstract id) */
  int active;                   /* zone in effect inside libc */
  unsigned n_setenv, n_setenv_failed, n_unsetenv, n_tzset, n_mktime, n_mktime_failed, n_time_failed;
  unsigned n_localtime_dirty;   /* localtime_r called while active != cell (tzset missing) */
  struct m14_mkcall mk[M14_LOG]; /* ghost: first M14_LOG mktime calls */
  int64_t hint_midnight;        /* ghost: 00:00:00 of the day registered by m14_hint_civil (same zone) */
};
extern struct m14_state M14;

/* (re)initialise the model state; ambient_set != 0 => TZ=M14_AMBIENT_STR else TZ unset */
void m14_reset(int ambient_set);
/* id a TZ string denotes: AMBIENT / UTC / NAMED (anything else) */
int m14_classify(const char *value);

int m14_is_leap(int y);
int m14_days_in_month(int y, int mon0);
/* days since 1970-01-01 of y-(mon0+1)-mday; mday may be out of range (linear), mon0 in 0..11 */
int64_t m14_days_from_civil(int y, int mon0, int mday);
/* seconds since the epoch of the given UTC civil time (fields may exceed their canonical range except mon0) */
int64_t m14_secs_from_civil(int y, int mon0, int mday, int h, int mi, int s);
/* harness-built instant: returns secs_from_civil(fields) and registers that this instant has
   exactly these canonical fields (see c14_time.c) */
int64_t m14_hint_civil(int y, int mon0, int mday, int h, int mi, int s);
/* inverse (relational under CBMC) */
void m14_civil_from_secs(int64_t t, int *y, int *mon0, int *mday, int *h, int *mi, int *s, int *wday, int *yday);

#endif
