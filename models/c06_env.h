/* Environment for the DVB mux/demux harnesses (C06, C07).
 *
 * dvb_mux.c / dvb_demux.c reference, besides hamm.c (linked, real):
 *   _vbi_global_log, _vbi_log_printf       (misc.c)   - logging; all log masks are 0 in the harnesses,
 *                                                        so the printf is never reached (asserted)
 *   _vbi_sampling_par_valid_log            (sampling_par.c) - only reached with a non-NULL sampling
 *                                                        parameter (raw VBI), which no harness passes
 * Everything here is part of the claim and is listed in `stubs=` of the obligations.
 */
#ifndef C06_ENV_H
#define C06_ENV_H
#include "verif.h"
#include <stdarg.h>
#include "src/misc.h"
#include "src/sampling_par.h"

_vbi_log_hook _vbi_global_log;          /* zero: mask 0, fn NULL (as in misc.c before vbi_set_log_fn) */

static unsigned env_log_calls;

void _vbi_log_printf(vbi_log_fn *log_fn, void *user_data, vbi_log_mask level,
                     const char *source_file, const char *context, const char *templ, ...)
{
  (void) log_fn; (void) user_data; (void) level; (void) source_file; (void) context; (void) templ;
  env_log_calls++;
}

vbi_bool _vbi_sampling_par_valid_log(const vbi_sampling_par *sp, _vbi_log_hook *log)
{
  (void) sp; (void) log;
  V_ASSERT(0, "env_sampling_par_unreachable");
  return 0;
}

#if defined(VERIF_CBMC) && defined(ENV_LOOP_MEM)
/* (opt-in per harness: #define ENV_LOOP_MEM before including this file)
 * Loop models of the libc block functions (R3/R5: CBMC's built-in memcpy with a symbolic length
 * allocates a variable-length temporary and goes through the array theory; a bounded byte loop with
 * a concrete destination start is linear).  Byte-exact, overlap-correct (memmove); any access outside
 * the objects is a CBMC pointer/bounds failure at the offending index.  Unwind bound: `unwindset`
 * memcpy.0 / memmove.0 / memmove.1 / memset.0 >= maximal length + 1 (unwinding assertions on). */
void *memcpy(void *dst, const void *src, size_t n)
{
  unsigned char *d = (unsigned char *) dst; const unsigned char *s = (const unsigned char *) src; size_t i;
  for (i = 0; i < n; i++) d[i] = s[i];
  return dst;
}
void *memmove(void *dst, const void *src, size_t n)
{
  unsigned char *d = (unsigned char *) dst; const unsigned char *s = (const unsigned char *) src; size_t i;
  if (n == 0 || d == s) return dst;
  if (__CPROVER_POINTER_OBJECT(d) != __CPROVER_POINTER_OBJECT(s) || __CPROVER_POINTER_OFFSET(d) < __CPROVER_POINTER_OFFSET(s)) {
    for (i = 0; i < n; i++) d[i] = s[i];
  } else {
    for (i = n; i > 0; i--) d[i - 1] = s[i - 1];
  }
  return dst;
}
void *memset(void *dst, int c, size_t n)
{
  unsigned char *d = (unsigned char *) dst; size_t i;
  for (i = 0; i < n; i++) d[i] = (unsigned char) c;
  return dst;
}
#endif

#endif
