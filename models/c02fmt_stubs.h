/* environment of src/teletext.c for the C02 (b),(c) harness.  Nothing here is on the Level 1 formatting path except
   vbi_transp_colormap (palette copy; colours are compared as indices, the palette is not part of the claim) and,
   under CBMC, snprintf (text of the page number in row 0, which is not compared). */
#ifndef C02FMT_STUBS_H
#define C02FMT_STUBS_H

const char _zvbi_intl_domainname[] = "zvbi";

/* cache: not reachable with navigation == FALSE at Level 1 (a call would be a harness error) */
static unsigned c02fmt_cache_calls;
cache_page *_vbi_cache_get_page(vbi_cache *ca, cache_network *cn, vbi_pgno pgno, vbi_subno subno, vbi_subno mask)
{ (void) ca; (void) cn; (void) pgno; (void) subno; (void) mask; c02fmt_cache_calls++; return 0; }
void cache_page_unref(cache_page *cp) { (void) cp; c02fmt_cache_calls++; }
cache_page *vbi_convert_page(vbi_decoder *vbi, cache_page *vtp, vbi_bool cached, enum ttx_page_function new_function)
{ (void) vbi; (void) vtp; (void) cached; (void) new_function; c02fmt_cache_calls++; return 0; }

/* vbi.c: brightness/contrast transposition of the palette; here: plain copy */
void vbi_transp_colormap(vbi_decoder *vbi, vbi_rgba *d, vbi_rgba *s, int entries)
{ int i; (void) vbi; for (i = 0; i < entries; i++) d[i] = s[i]; }

#ifdef VERIF_CBMC
/* the only reachable call: snprintf(buf, 16, "\2%x.%02x\7", pgno, subno & 0xff) with pgno 0x100, subno 0 */
int c02fmt_snprintf(char *s, size_t n, const char *fmt, ...)
{ static const char t[9] = { 2, '1', '0', '0', '.', '0', '0', 7, 0 }; unsigned i; (void) fmt; for (i = 0; i < 9 && i < n; i++) s[i] = t[i]; return 8; }
#endif
#endif
