/* c16_io.h - output-target model for the C16 write-layer obligations (file / stdio targets of export.c).
 *
 * The real names fwrite, clearerr, open, write, close, stat, unlink are DEFINED in c16_io.c (CBMC: they replace
 * the built-in library models; native replay: they interpose libc for the calls made by the unit under test).
 *
 * Contract (part of the claim):
 *   fwrite(p, 1, n, fp)   fp must be the stream handed to vbi_export_stdio; reads the first min(n, 16) and the last byte
 *                         of p (so the source must be that long); appends them to the log and returns n -- or, at the call selected
 *                         by the fault plan, appends only `fault_part' (< n) bytes and returns that (short write).
 *   write(fd, p, n)       fd must be the open descriptor; same as fwrite, faults: -1 (errno EIO), 0 (no progress,
 *                         the caller may retry) or a short count.
 *   open                  returns C16_FD, or -1 with errno EINTR (fault plan: n_eintr times first) / EACCES.
 *   close                 counts; fails (EIO) if the plan says so.
 *   stat                  reports a regular file iff plan.stat_regular; unlink counts.
 */
#ifndef C16_IO_H
#define C16_IO_H
#include <stdint.h>
#include <stddef.h>

#define C16_LOG_MAX 16
#define C16_FD 5
#define C16_NCALLS 8          /* per-call records kept for the first C16_NCALLS write/fwrite calls */

struct c16_io {
  /* fault plan (inputs) */
  uint8_t fault_call;        /* index of the write/fwrite call that misbehaves (>= number of calls: none) */
  uint8_t fault_kind;        /* 0: short count `fault_part', 1: -1/EIO (write only; fwrite: short 0), 2: returns 0 */
  uint8_t fault_part;
  uint8_t zero_repeat;       /* kind 2: how many consecutive calls return 0 before writes work again */
  uint8_t open_eintr;        /* number of EINTR failures before open succeeds */
  uint8_t open_fail;         /* open fails for good (EACCES) */
  uint8_t close_fail;
  uint8_t stat_regular;
  /* observations */
  uint8_t log[C16_LOG_MAX];   /* the first C16_LOG_MAX bytes the target received */
  uint32_t len;               /* number of bytes the target received */
  uint32_t len_full;          /* ... by complete writes (log position; stays concrete) */
  int short_seen;             /* a short write happened */
  struct { uint32_t n; uint8_t first, last; const void *src; } call[C16_NCALLS];
  uint32_t n_write_calls, n_open, n_close, n_unlink, n_stat, n_clearerr;
  int fd_open;               /* 1 while C16_FD is open */
  int faulted;               /* a short count or an error was injected */
  uint32_t n_zero;           /* number of write() calls that returned 0 for a non-empty request (no progress, not an error) */
  void *fp;                  /* the stream object handed to vbi_export_stdio */
};
extern struct c16_io C16IO;
extern char c16_stream_object[8];
#endif
