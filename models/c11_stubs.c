/* C11 environment model.
 *
 * src/vbi.c is the unit under test (event handler list).  It references the whole decoder; everything it
 * references outside itself is defined here so that the goto binary has no body-less (havoc'ed) callee on the
 * paths of the event code and the native replay build links.
 *
 *  (a) pthread mutex model: one flag per mutex (glibc's __data.__lock word of the mutex object itself, so a
 *      zero-initialised static mutex is "unlocked").  lock asserts "not held" (a second lock by the only thread
 *      is a self-deadlock), unlock asserts "held", trylock returns EBUSY iff held and acquires otherwise.
 *      vbi.c relies on exactly this: "trylock failed => we are called from a handler => do not unlock".
 *  (b) the subsystem reset functions vbi_event_enable() calls: no effect on the decoder, call counters.
 *  (c) functions the event code never reaches (constructors, decode functions, cache): abort if reached.
 */
#include "c11_carve.h"
#include "site_def.h"
#ifdef HAVE_CONFIG_H
#  include "config.h"
#endif
#include <stdio.h>
#include <stdlib.h>
#include <unistd.h>
#include <errno.h>
#include <pthread.h>
#include "misc.h"
#include "vbi.h"
#include "lang.h"
#include "wss.h"
#include "c11_stubs.h"

#ifdef VERIF_CBMC
#define M_ASSERT(c, tag) __CPROVER_assert((c), "VP:" tag)
#else
#define M_ASSERT(c, tag) do { if (!(c)) { printf("VP-ASSERT-FAILED %s %s:%d\n", tag, __FILE__, __LINE__); fflush(stdout); _exit(99); } } while (0)
#endif

/* ---- (a) mutex ------------------------------------------------------- */
int pthread_mutex_init(pthread_mutex_t *m, const pthread_mutexattr_t *a)
{ (void) a; m->__data.__lock = 0; return 0; }
int pthread_mutex_destroy(pthread_mutex_t *m)
{ M_ASSERT(m->__data.__lock == 0, "mutex_destroy_while_held"); return 0; }
int pthread_mutex_lock(pthread_mutex_t *m)
{ M_ASSERT(m->__data.__lock == 0, "mutex_lock_self_deadlock"); m->__data.__lock = 1; return 0; }
int pthread_mutex_trylock(pthread_mutex_t *m)
{ if (m->__data.__lock) return EBUSY; m->__data.__lock = 1; return 0; }
int pthread_mutex_unlock(pthread_mutex_t *m)
{ M_ASSERT(m->__data.__lock == 1, "mutex_unlock_not_held"); m->__data.__lock = 0; return 0; }
int c11_mutex_held(const pthread_mutex_t *m) { return m->__data.__lock != 0; }

/* ---- (b) reset functions called by vbi_event_enable ------------------- */
unsigned c11_n_ttx_switched, c11_n_cc_switched, c11_n_trigger_flush;
void vbi_teletext_channel_switched(vbi_decoder *vbi) { (void) vbi; c11_n_ttx_switched++; }
void vbi_caption_channel_switched(vbi_decoder *vbi) { (void) vbi; c11_n_cc_switched++; }
void vbi_trigger_flush(vbi_decoder *vbi) { (void) vbi; c11_n_trigger_flush++; }

/* ---- (c) never reached by the event code ----------------------------- */
static void c11_unreached(void)
{
#ifdef VERIF_CBMC
  __CPROVER_assert(0, "VP:c11_stub_unreached");
#else
  printf("VP-ASSERT-FAILED c11_stub_unreached\n"); fflush(stdout); _exit(99);
#endif
}
_vbi_log_hook _vbi_global_log;
struct vbi_font_descr vbi_font_descriptors[88];

cache_network *_vbi_cache_add_network(vbi_cache *ca, const vbi_network *nk, vbi_videostd_set s)
{ (void) ca; (void) nk; (void) s; c11_unreached(); return NULL; }
cache_page *_vbi_cache_get_page(vbi_cache *ca, cache_network *cn, vbi_pgno pgno, vbi_subno subno, vbi_subno mask)
{ (void) ca; (void) cn; (void) pgno; (void) subno; (void) mask; c11_unreached(); return NULL; }
void cache_network_unref(cache_network *cn) { (void) cn; c11_unreached(); }
void cache_page_unref(cache_page *cp) { (void) cp; c11_unreached(); }
void vbi_cache_delete(vbi_cache *ca) { (void) ca; c11_unreached(); }
vbi_cache *vbi_cache_new(void) { c11_unreached(); return NULL; }
void vbi_caption_color_level(vbi_decoder *vbi) { (void) vbi; c11_unreached(); }
void vbi_caption_destroy(vbi_decoder *vbi) { (void) vbi; c11_unreached(); }
void vbi_caption_desync(vbi_decoder *vbi) { (void) vbi; c11_unreached(); }
void vbi_caption_init(vbi_decoder *vbi) { (void) vbi; c11_unreached(); }
void vbi_decode_caption(vbi_decoder *vbi, int line, uint8_t *buf) { (void) vbi; (void) line; (void) buf; c11_unreached(); }
vbi_bool vbi_decode_teletext(vbi_decoder *vbi, uint8_t *p) { (void) vbi; (void) p; c11_unreached(); return FALSE; }
void vbi_decode_vps(vbi_decoder *vbi, uint8_t *p) { (void) vbi; (void) p; c11_unreached(); }
void vbi_decode_wss_625(vbi_decoder *vbi, uint8_t *buf, double time) { (void) vbi; (void) buf; (void) time; c11_unreached(); }
void vbi_decode_wss_cpr1204(vbi_decoder *vbi, uint8_t *buf) { (void) vbi; (void) buf; c11_unreached(); }
void vbi_deferred_trigger(vbi_decoder *vbi) { (void) vbi; c11_unreached(); }
void vbi_teletext_desync(vbi_decoder *vbi) { (void) vbi; c11_unreached(); }
void vbi_teletext_init(vbi_decoder *vbi) { (void) vbi; c11_unreached(); }
void vbi_teletext_set_level(vbi_decoder *vbi, int level) { (void) vbi; (void) level; c11_unreached(); }
