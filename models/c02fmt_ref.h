/* Reference models for C02 (b),(c): independent transcriptions of EN 300 706
 *   - 12.2 Table 26 "Spacing attributes" (Level 1 row interpretation),
 *   - 15.2 Table 32 (default G0/G2 designation and national option selection),
 *   - 15.6.2 Table 36 (Latin national option sub-sets).
 * Written from the standard, not from teletext.c / lang.c.  Where the standard shows a glyph for which more than one
 * Unicode is defensible the oracle accepts the alternatives (ref_glyph_equiv).  The representation of the result
 * (vbi_size values, private codes U+EE00.. for G1 mosaics with bit 5 = contiguous) is the one documented in format.h. */
#ifndef C02FMT_REF_H
#define C02FMT_REF_H

/* ------------------------------------------------------------------ Table 36 ---------------------------------------- */
/* the 13 national option positions: 2/3 2/4 4/0 5/B 5/C 5/D 5/E 5/F 6/0 7/B 7/C 7/D 7/E */
static int ref_t36_position(unsigned c)
{
  switch (c) {
  case 0x23: return 0; case 0x24: return 1; case 0x40: return 2;
  case 0x5B: return 3; case 0x5C: return 4; case 0x5D: return 5; case 0x5E: return 6; case 0x5F: return 7;
  case 0x60: return 8;
  case 0x7B: return 9; case 0x7C: return 10; case 0x7D: return 11; case 0x7E: return 12;
  default: return -1;
  }
}

enum { T36_ENGLISH, T36_GERMAN, T36_SWE_FIN_HUN, T36_ITALIAN, T36_FRENCH, T36_PORTUG_SPANISH, T36_CZECH_SLOVAK, T36_POLISH, T36_ESTONIAN, T36_ROWS };

static const uint16_t ref_t36[T36_ROWS][13] = {
  /*                    2/3     2/4     4/0     5/B     5/C     5/D     5/E     5/F     6/0     7/B     7/C     7/D     7/E  */
  /* English        */ { 0x00A3, 0x0024, 0x0040, 0x2190, 0x00BD, 0x2192, 0x2191, 0x0023, 0x2014, 0x00BC, 0x2016, 0x00BE, 0x00F7 },  /* pound $ @ <- 1/2 -> ^ # dash 1/4 || 3/4 divide */
  /* German         */ { 0x0023, 0x0024, 0x00A7, 0x00C4, 0x00D6, 0x00DC, 0x005E, 0x005F, 0x00B0, 0x00E4, 0x00F6, 0x00FC, 0x00DF },  /* # $ section A" O" U" ^ _ degree a" o" u" sz */
  /* Swedish/Finnish*/ { 0x0023, 0x00A4, 0x00C9, 0x00C4, 0x00D6, 0x00C5, 0x00DC, 0x005F, 0x00E9, 0x00E4, 0x00F6, 0x00E5, 0x00FC },  /* # currency E' A" O" Ao U" _ e' a" o" ao u" */
  /* Italian        */ { 0x00A3, 0x0024, 0x00E9, 0x00B0, 0x00E7, 0x2192, 0x2191, 0x0023, 0x00F9, 0x00E0, 0x00F2, 0x00E8, 0x00EC },  /* pound $ e' degree c, -> ^ # u` a` o` e` i` */
  /* French         */ { 0x00E9, 0x00EF, 0x00E0, 0x00EB, 0x00EA, 0x00F9, 0x00EE, 0x0023, 0x00E8, 0x00E2, 0x00F4, 0x00FB, 0x00E7 },  /* e' i" a` e" e^ u` i^ # e` a^ o^ u^ c, */
  /* Portug./Spanish*/ { 0x00E7, 0x0024, 0x00A1, 0x00E1, 0x00E9, 0x00ED, 0x00F3, 0x00FA, 0x00BF, 0x00FC, 0x00F1, 0x00E8, 0x00E0 },  /* c, $ !inv a' e' i' o' u' ?inv u" n~ e` a` */
  /* Czech/Slovak   */ { 0x0023, 0x016F, 0x010D, 0x0165, 0x017E, 0x00FD, 0x00ED, 0x0159, 0x00E9, 0x00E1, 0x011B, 0x00FA, 0x0161 },  /* # u-ring c-caron t-caron z-caron y' i' r-caron e' a' e-caron u' s-caron */
  /* Polish         */ { 0x0023, 0x0144, 0x0105, 0x01B5, 0x015A, 0x0141, 0x0107, 0x00F3, 0x0119, 0x017C, 0x015B, 0x0142, 0x017A },  /* # n' a-ogonek Z-stroke S' L-stroke c' o' e-ogonek z-dot s' l-stroke z' */
  /* Estonian       */ { 0x0023, 0x00F5, 0x0160, 0x00C4, 0x00D6, 0x017D, 0x00DC, 0x00D5, 0x0161, 0x00E4, 0x00F6, 0x017E, 0x00FC },  /* # o~ S-caron A" O" Z-caron U" O~ s-caron a" o" z-caron u" */
};

/* glyphs of the standard with more than one defensible Unicode */
static int ref_glyph_equiv(unsigned a, unsigned b)
{
  if (a == b) return 1;
#define BOTH_IN3(x, y, z) ((a == (x) || a == (y) || a == (z)) && (b == (x) || b == (y) || b == (z)))
  if (BOTH_IN3(0x2014, 0x2015, 0x2500)) return 1;     /* English 6/0: long horizontal bar */
  if (BOTH_IN3(0x2016, 0x2225, 0x01C1)) return 1;     /* English 7/C: double vertical bar */
  if (BOTH_IN3(0x01B5, 0x017B, 0x017B)) return 1;     /* Polish 5/B: Z with stroke = variant of Z with dot above */
#undef BOTH_IN3
  return 0;
}

/* Latin G0 code -> Unicode for Table 36 row `row` */
static unsigned ref_latin_g0(int row, unsigned c)
{
  int pos = ref_t36_position(c);
  if (pos < 0) return c == 0x7F ? 0x25A0u : c;
  return ref_t36[row][pos];
}

/* library enum vbi_national_subset (names are the API's) -> Table 36 row transcribed above, -1: not transcribed */
static int ref_t36_row_of_libenum(int n)
{
  switch (n) {
  case ENGLISH: return T36_ENGLISH; case GERMAN: return T36_GERMAN; case SWE_FIN_HUN: return T36_SWE_FIN_HUN;
  case ITALIAN: return T36_ITALIAN; case FRENCH: return T36_FRENCH; case PORTUG_SPANISH: return T36_PORTUG_SPANISH;
  case CZECH_SLOVAK: return T36_CZECH_SLOVAK; case POLISH: return T36_POLISH; case ESTONIAN: return T36_ESTONIAN;
  default: return -1;
  }
}

/* ------------------------------------------------------------------ Table 32 ---------------------------------------- */
/* index = 7 bit designation code: bits 6..3 = triplet bits 14..11 (region), bits 2..0 = national option (C12 C13 C14
   in the page header select the option within the region).  g0 == 0: reserved. */
struct ref_t32_row { uint8_t g0, g2, subset; };
static const struct ref_t32_row ref_t32[88] = {
  [0]  = { LATIN_G0, LATIN_G2, ENGLISH }, [1]  = { LATIN_G0, LATIN_G2, GERMAN }, [2]  = { LATIN_G0, LATIN_G2, SWE_FIN_HUN }, [3]  = { LATIN_G0, LATIN_G2, ITALIAN },
  [4]  = { LATIN_G0, LATIN_G2, FRENCH },  [5]  = { LATIN_G0, LATIN_G2, PORTUG_SPANISH }, [6] = { LATIN_G0, LATIN_G2, CZECH_SLOVAK },
  [8]  = { LATIN_G0, LATIN_G2, POLISH },  [9]  = { LATIN_G0, LATIN_G2, GERMAN }, [10] = { LATIN_G0, LATIN_G2, SWE_FIN_HUN }, [11] = { LATIN_G0, LATIN_G2, ITALIAN },
  [12] = { LATIN_G0, LATIN_G2, FRENCH },  [14] = { LATIN_G0, LATIN_G2, CZECH_SLOVAK },
  [16] = { LATIN_G0, LATIN_G2, ENGLISH }, [17] = { LATIN_G0, LATIN_G2, GERMAN }, [18] = { LATIN_G0, LATIN_G2, SWE_FIN_HUN }, [19] = { LATIN_G0, LATIN_G2, ITALIAN },
  [20] = { LATIN_G0, LATIN_G2, FRENCH },  [21] = { LATIN_G0, LATIN_G2, PORTUG_SPANISH }, [22] = { LATIN_G0, LATIN_G2, TURKISH },
  [29] = { LATIN_G0, LATIN_G2, SERB_CRO_SLO }, [31] = { LATIN_G0, LATIN_G2, RUMANIAN },
  [32] = { CYRILLIC_1_G0, CYRILLIC_G2, NO_SUBSET }, [33] = { LATIN_G0, LATIN_G2, GERMAN }, [34] = { LATIN_G0, LATIN_G2, ESTONIAN }, [35] = { LATIN_G0, LATIN_G2, LETT_LITH },
  [36] = { CYRILLIC_2_G0, CYRILLIC_G2, NO_SUBSET }, [37] = { CYRILLIC_3_G0, CYRILLIC_G2, NO_SUBSET }, [38] = { LATIN_G0, LATIN_G2, CZECH_SLOVAK },
  [54] = { LATIN_G0, LATIN_G2, TURKISH }, [55] = { GREEK_G0, GREEK_G2, NO_SUBSET },
  [64] = { LATIN_G0, ARABIC_G2, ENGLISH }, [68] = { LATIN_G0, ARABIC_G2, FRENCH }, [71] = { ARABIC_G0, ARABIC_G2, NO_SUBSET },
  [85] = { HEBREW_G0, ARABIC_G2, NO_SUBSET }, [87] = { ARABIC_G0, ARABIC_G2, NO_SUBSET },
};
static int ref_t32_defined(unsigned code) { return code < 88 && ref_t32[code].g0 != 0; }
static int ref_t32_matches(int code, int g0, int g2, int subset)
{
  if (ref_t32[code].g0 != g0 || ref_t32[code].g2 != g2) return 0;
  return g0 != LATIN_G0 || ref_t32[code].subset == subset;       /* the sub-set applies to Latin G0 only */
}
/* Table 36 row of a designation code (only for Latin codes whose row is transcribed), else -1 */
static int ref_t32_subset(unsigned code)
{
  if (!ref_t32_defined(code) || ref_t32[code].g0 != LATIN_G0) return -1;
  return ref_t36_row_of_libenum(ref_t32[code].subset);
}

/* ------------------------------------------------------------------ Table 26 ---------------------------------------- */
struct ref_cell {
  uint16_t unicode;
  uint8_t fg, bg, flash, conceal, boxed, size;
  uint8_t held_space;     /* a held mosaic is displayed here and the held mosaic character is SPACE (reset) */
  uint8_t skip_unicode;   /* not asserted (KNOWN_C02_HELD_MOSAIC_NO_RESET) */
  uint8_t skip_size;      /* double width/size character in the last column: not defined */
};
struct ref_row {
  struct ref_cell cell[40];
  int dh_code;            /* a double height / double size code was received in the row */
  int dh_cell;            /* at least one character cell is displayed in double height / size */
  int saw_held, saw_box, saw_wide, saw_parity_error, saw_esc_text, saw_reset;
};

enum { RS_NORMAL = VBI_NORMAL_SIZE, RS_DW = VBI_DOUBLE_WIDTH, RS_DH = VBI_DOUBLE_HEIGHT, RS_DS = VBI_DOUBLE_SIZE };

/* received code of a column: 7 bits if the byte has odd parity, else the character is replaced by a space */
static unsigned ref_rx(uint8_t b, int *err) { if (!ref_odd_parity(b)) { *err = 1; return 0x20; } return b & 0x7Fu; }

static void ref_row_core(struct ref_row *R, const uint8_t tx[40], int set1, int set2, int strict)
{
  /* start-of-row defaults: white on black, steady, revealed, normal size, alphanumerics, contiguous, release, unboxed, first G0 */
  unsigned fg = 7, bg = 0, flash = 0, conceal = 0, size = RS_NORMAL, mosaic = 0, separated = 0, hold = 0, boxed = 0, esc = 0;
  unsigned held_u = 0x0020; int held_blank = 1, taint = 0;   /* Held-Mosaic character: SPACE at the start of each row */
  int covered = 0; unsigned col;
  memset(R, 0, sizeof *R);
#define RESET_HELD() do { if (!held_blank) { taint = 1; R->saw_reset = 1; } held_blank = 1; held_u = 0x0020; } while (0)
  for (col = 0; col < 40; col++) {
    int perr = 0; unsigned c = ref_rx(tx[col], &perr);
    struct ref_cell e;
    memset(&e, 0, sizeof e);
    if (perr) R->saw_parity_error = 1;

    /* ---- "Set-At" attributes take effect in this cell ---- */
    switch (c) {
    case 0x09: flash = 0; break;                                            /* steady */
    case 0x0C: if (size != RS_NORMAL) { size = RS_NORMAL; RESET_HELD(); } break;   /* normal size */
    case 0x18: conceal = 1; break;                                          /* conceal */
    case 0x19: separated = 0; break;                                        /* contiguous mosaic graphics */
    case 0x1A: separated = 1; break;                                        /* separated mosaic graphics */
    case 0x1C: bg = 0; break;                                               /* black background */
    case 0x1D: bg = fg; break;                                              /* new background = current foreground */
    case 0x1E: hold = 1; break;                                             /* hold mosaics */
    default: break;
    }

    /* ---- what the cell displays ---- */
    if (c < 0x20) {
      /* a spacing attribute is displayed as a space, or as the Held-Mosaic character in mosaics mode with hold in force */
      if (hold && mosaic) {
        R->saw_held = 1;
        if (held_blank) { e.held_space = 1; if (taint && !strict) e.skip_unicode = 1; }
        else e.unicode = (uint16_t) held_u;
      } else e.unicode = 0x0020;
    } else if (mosaic && (c & 0x20)) {
      /* G1 block mosaic (codes 2/0..3/F, 6/0..7/F); private code: EE00 + 6 bit pattern index, bit 5 set = contiguous */
      unsigned u = 0xEE00u + (c & 0x1Fu) + ((c & 0x40u) ? 0x40u : 0u) + (separated ? 0u : 0x20u);
      e.unicode = (uint16_t) u;
      held_u = u; held_blank = 0; taint = 0;       /* displayed later in its original contiguous/separated form */
    } else {
      /* alphanumeric character, also 4/0..5/F in mosaics mode, from the current G0 set */
      e.unicode = (uint16_t) ref_latin_g0(esc ? set2 : set1, c);
      if (esc) R->saw_esc_text = 1;
    }
    e.fg = (uint8_t) fg; e.bg = (uint8_t) bg; e.flash = (uint8_t) flash; e.conceal = (uint8_t) conceal; e.boxed = (uint8_t) boxed;
    if (boxed) R->saw_box = 1;

    /* ---- size: a double width / size character also occupies the next cell, whose own character is not displayed ---- */
    if (covered) {
      e = R->cell[col - 1]; e.size = VBI_OVER_TOP; covered = 0;
    } else {
      e.size = (uint8_t) size;
      if (size == RS_DW || size == RS_DS) {
        if (col < 39) { covered = 1; R->saw_wide = 1; } else e.skip_size = 1;
      }
      if (size == RS_DH || (size == RS_DS && col < 39)) R->dh_cell = 1;
    }
    R->cell[col] = e;

    /* ---- "Set-After" attributes take effect from the next cell ---- */
    switch (c) {
    case 0x00: case 0x01: case 0x02: case 0x03: case 0x04: case 0x05: case 0x06: case 0x07:      /* alpha colour */
      fg = c; conceal = 0; if (mosaic) { mosaic = 0; RESET_HELD(); } break;
    case 0x10: case 0x11: case 0x12: case 0x13: case 0x14: case 0x15: case 0x16: case 0x17:      /* mosaic colour */
      fg = c & 7u; conceal = 0; if (!mosaic) { mosaic = 1; RESET_HELD(); } break;
    case 0x08: flash = 1; break;
    case 0x0A: case 0x0B:                           /* end box / start box: sent twice, the action takes place between the two */
      if (col < 39) { int e2 = 0; unsigned nx = ref_rx(tx[col + 1], &e2); if (!e2 && nx == c) boxed = (c == 0x0B); }
      break;
    case 0x0D: R->dh_code = 1; if (size != RS_DH) { size = RS_DH; RESET_HELD(); } break;
    case 0x0E: if (col < 39 && size != RS_DW) { size = RS_DW; RESET_HELD(); } break;
    case 0x0F: R->dh_code = 1; if (col < 39 && size != RS_DS) { size = RS_DS; RESET_HELD(); } break;
    case 0x1B: esc ^= 1u; break;                    /* switch between the first and second G0 set */
    case 0x1F: hold = 0; break;                     /* release mosaics */
    default: break;
    }
  }
#undef RESET_HELD
}

static void ref_row_l1_strict(struct ref_row *R, const uint8_t tx[40], int set1, int set2) { ref_row_core(R, tx, set1, set2, 1); }
static void ref_row_l1(struct ref_row *R, const uint8_t tx[40], int set1, int set2)
{
#ifdef KNOWN_C02_HELD_MOSAIC_NO_RESET
  ref_row_core(R, tx, set1, set2, 0);
#else
  ref_row_core(R, tx, set1, set2, 1);
#endif
}
#endif
