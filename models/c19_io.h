/* c19_io.h - environment model for the proxy daemon checks (C18, C19).
 *
 * The daemon (daemon/proxyd.c + src/proxy-msg.c + src/inout.c, all REAL) talks to
 *   - client sockets      : recv(), send(), close()
 *   - the clock           : time(), alarm()
 *   - the capture device  : vbi_capture_v4l2_new()/vbi_capture_v4l_new() -> a vbi_capture object whose
 *                           method table points to the model functions below (the real wrapper layer
 *                           src/inout.c with its NULL checks / assert()s stays in the loop), ioctl()
 * Every result the environment may return is taken from the script C19 which the harness fills from the
 * symbolic input array before the real code runs (so a counterexample replays natively).  The model
 * only enforces the POSIX / libzvbi contract of each call (recv returns -1 or 0..n and fills exactly that
 * many bytes of the client's byte stream; update_services grants a subset of what was asked; ...).
 */
#ifndef C19_IO_H
#define C19_IO_H
#include <stdint.h>
#include <time.h>

#ifndef C19_NIO
#define C19_NIO 4            /* scripted recv()/send() calls; further calls return -1/EAGAIN */
#endif
#ifndef C19_MAXCHUNK
#define C19_MAXCHUNK 16      /* most bytes one recv() delivers (short reads are POSIX-conformant) */
#endif
#ifndef C19_NUPD
#define C19_NUPD 4           /* scripted vbi_capture_update_services() calls; further calls grant nothing */
#endif
#ifndef C19_MAXLINES
#define C19_MAXLINES 3       /* most sliced lines the model device delivers per frame */
#endif
#ifndef C19_SENDLOG
#define C19_SENDLOG 4        /* send() calls whose buffer head is recorded */
#endif
#ifndef C19_SENDBYTES
#define C19_SENDBYTES 16
#endif

struct c19_sendrec { int fd; uint32_t len_asked; int32_t ret; uint8_t bytes[C19_SENDBYTES]; };

struct c19_env {
  /* ---- script (inputs) ---- */
  int32_t  recv_ret[C19_NIO];      /* < 0: fail with recv_err; else deliver min(ret, n, C19_MAXCHUNK, bytes left in stream) */
  uint8_t  recv_err[C19_NIO];      /* 0 EAGAIN, 1 EINTR, else ECONNRESET */
  const uint8_t *stream;           /* the client's byte stream */
  uint32_t stream_len;
  int32_t  send_ret[C19_NIO];      /* < 0: fail with send_err; else accept min(ret, n) */
  uint8_t  send_err[C19_NIO];
  time_t   now;                    /* time(); the harness may change it between steps */
  uint8_t  open_v4l2_ok, open_v4l_ok;   /* device open succeeds? */
  uint8_t  has_decoder;            /* vbi_capture_parameters() != NULL */
  int32_t  cap_fd;                 /* vbi_capture_fd() of an open device */
  int32_t  cap_scanning;           /* vbi_capture_get_scanning() */
  uint32_t grant_mask[C19_NUPD];   /* k-th update_services(services) returns services & grant_mask[k] */
  uint8_t  grant_err[C19_NUPD];    /* k-th call also stores a malloc()ed message in *errorstr (if asked for) */
  int32_t  dec_start[2], dec_count[2], dec_scanning;   /* decoder parameters reported by the device */
  int32_t  ioctl_ret;
  /* frame source for vbi_capture_read_sliced(): one frame per call */
  int32_t  frame_ret;              /* -1 error, 0 timeout, 1 frame */
  int32_t  frame_lines;            /* 0..C19_MAXLINES */
  double   frame_ts;
  uint8_t  frame_data[C19_MAXLINES][64];   /* sizeof(vbi_sliced) == 64 */
  /* ---- observations (outputs) ---- */
  uint32_t recv_calls, send_calls, stream_pos;
  uint32_t upd_calls, n_open, n_delete, n_flush, n_close, n_ioctl, n_alarm, n_read;
  int32_t  last_closed_fd;
  uint32_t last_alarm;
  uint32_t upd_services_union;     /* union of services passed to update_services since last reset flag */
  struct c19_sendrec sent[C19_SENDLOG];
};

extern struct c19_env C19;
extern void c19_env_reset(void);
/* the device object handed out by the open functions (NULL while closed) */
extern int c19_device_is_open(void);
extern void *c19_device_handle(void);
extern int c19_locks_held(void);   /* mutexes held (solver build; 0 natively) */

#endif
