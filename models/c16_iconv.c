/* c16_iconv.c - see c16_iconv.h */
#include <stdio.h>
#include <stdlib.h>
#include <string.h>
#include <errno.h>
#include <unistd.h>
#include <iconv.h>
#include "c16_iconv.h"

#ifdef VERIF_CBMC
#define M_ASSERT(c, tag) __CPROVER_assert((c), "VP:" tag)
#else
#define M_ASSERT(c, tag) do { if (!(c)) { printf("VP-ASSERT-FAILED %s %s:%d\n", tag, __FILE__, __LINE__); fflush(stdout); _exit(99); } } while (0)
#endif

struct c16_iconv C16_ICONV;

struct c16_cd { int cs; int open; };
static struct c16_cd c16_cds[4];

unsigned c16_encode(int cs, unsigned u, uint8_t out[3])
{
  switch (cs) {
  case C16_CS_ASCII:
    if (u >= 0x80) return 0;
    out[0] = (uint8_t) u; return 1;
  case C16_CS_LATIN1:
    if (u >= 0x100) return 0;
    out[0] = (uint8_t) u; return 1;
  case C16_CS_UTF8:
    if (u < 0x80) { out[0] = (uint8_t) u; return 1; }
    if (u < 0x800) { out[0] = (uint8_t) (0xC0 | (u >> 6)); out[1] = (uint8_t) (0x80 | (u & 0x3F)); return 2; }
    if (u >= 0xD800 && u <= 0xDFFF) return 0;
    out[0] = (uint8_t) (0xE0 | (u >> 12)); out[1] = (uint8_t) (0x80 | ((u >> 6) & 0x3F)); out[2] = (uint8_t) (0x80 | (u & 0x3F));
    return 3;
  default:
    return 0;
  }
}

iconv_t iconv_open(const char *to, const char *from)
{
  int cs = 0;
  unsigned i;
  M_ASSERT(to != NULL && from != NULL, "iconv_open_args");
  if (0 == strcmp(from, "UCS-2")) {
    if (0 == strcmp(to, "ASCII")) cs = C16_CS_ASCII;
    else if (0 == strcmp(to, "ISO-8859-1")) cs = C16_CS_LATIN1;
    else if (0 == strcmp(to, "UTF-8")) cs = C16_CS_UTF8;
  } else if (0 == strcmp(from, "ISO-8859-1") && 0 == strcmp(to, "UCS-2")) {
    cs = C16_CS_TO_UCS2;
  }
  if (!cs) { errno = EINVAL; return (iconv_t) -1; }
  for (i = 0; i < 4; i++)
    if (!c16_cds[i].open) {
      c16_cds[i].open = 1; c16_cds[i].cs = cs;
      C16_ICONV.n_open++;
      return (iconv_t) &c16_cds[i];
    }
  M_ASSERT(0, "iconv_descriptor_leak");
  errno = EMFILE;
  return (iconv_t) -1;
}

int iconv_close(iconv_t cd)
{
  struct c16_cd *d = (struct c16_cd *) cd;
  M_ASSERT(d == &c16_cds[0] || d == &c16_cds[1] || d == &c16_cds[2] || d == &c16_cds[3], "iconv_close_valid_descriptor");
  M_ASSERT(d->open, "iconv_close_open_descriptor");
  d->open = 0;
  C16_ICONV.n_close++;
  return 0;
}

size_t iconv(iconv_t cd, char **in, size_t *inleft, char **out, size_t *outleft)
{
  struct c16_cd *d = (struct c16_cd *) cd;
  size_t irreversible = 0;
  unsigned k, j;
  M_ASSERT(d == &c16_cds[0] || d == &c16_cds[1] || d == &c16_cds[2] || d == &c16_cds[3], "iconv_valid_descriptor");
  M_ASSERT(d->open, "iconv_open_descriptor");
  M_ASSERT(in && *in && inleft && out && *out && outleft, "iconv_args");
  C16_ICONV.n_calls++;
  for (k = 0; k < C16_ICONV_MAXCH; k++) {
    uint8_t enc[3];
    unsigned n, u;
    if (d->cs == C16_CS_TO_UCS2) {
      if (*inleft < 1) break;
      u = (uint8_t) (*in)[0];
      if (*outleft < 2) { errno = E2BIG; return (size_t) -1; }
      (*out)[C16_ICONV.big_endian ? 1 : 0] = (char) u;
      (*out)[C16_ICONV.big_endian ? 0 : 1] = 0;
      *in += 1; *inleft -= 1; *out += 2; *outleft -= 2;
      continue;
    }
    if (*inleft == 0) break;
    if (*inleft < 2) { errno = EINVAL; return (size_t) -1; }      /* incomplete input character */
    u = C16_ICONV.big_endian ? (((uint8_t) (*in)[0] << 8) | (uint8_t) (*in)[1])
                             : (((uint8_t) (*in)[1] << 8) | (uint8_t) (*in)[0]);
    n = c16_encode(d->cs, u, enc);
    if (n == 0) {
      if (!C16_ICONV.subst_at) { errno = EILSEQ; return (size_t) -1; }
      enc[0] = 0x40; n = 1; irreversible++;
      if (*outleft < n) { irreversible--; errno = E2BIG; return (size_t) -1; }
    } else if (*outleft < n) {
      errno = E2BIG; return (size_t) -1;
    }
    for (j = 0; j < 3; j++)
      if (j < n) (*out)[j] = (char) enc[j];
    *in += 2; *inleft -= 2; *out += n; *outleft -= n;
  }
  M_ASSERT(*inleft == 0 || d->cs == 0, "iconv_model_input_bound");
  return irreversible;
}
