/* c16_iconv.h - iconv model for the C16 text-output obligations.
 *
 * This build has HAVE_ICONV: exp-txt.c calls iconv_open(format, "UCS-2") / iconv() / iconv_close() directly, one
 * character per call, and export.c:vbi_ucs2be() probes the byte order of "UCS-2" by converting 'b' from
 * ISO-8859-1.  The real names iconv_open, iconv, iconv_close are DEFINED in c16_iconv.c.
 *
 * Contract (part of the claim):
 *   iconv_open(to, "UCS-2")     to in { "ASCII", "ISO-8859-1", "UTF-8" }: a converter from UCS-2; anything else: -1/EINVAL
 *   iconv_open("UCS-2", "ISO-8859-1")  a converter to UCS-2 (used by vbi_ucs2be only)
 *   "UCS-2" is big endian iff C16_ICONV.big_endian (fixed per run, symbolic).
 *   iconv(cd, in, inleft, out, outleft): converts whole characters while input is left:
 *     - target needs more bytes than *outleft: stops, errno = E2BIG, returns -1, NOTHING of that character written;
 *     - code point not representable (>= 0x80 ASCII, >= 0x100 ISO-8859-1, surrogate D800..DFFF UTF-8):
 *          C16_ICONV.subst_at == 0: stops, errno = EILSEQ, returns -1
 *          C16_ICONV.subst_at == 1: writes '@' and counts one irreversible conversion (the behaviour print_unicode
 *                                   in exp-txt.c guards against)
 *     - advances all four in/out arguments by what was consumed/produced, never writes beyond *outleft,
 *       returns the number of irreversible conversions.
 *   at most C16_ICONV_MAXCH characters per call (the callers pass one).
 */
#ifndef C16_ICONV_H
#define C16_ICONV_H
#include <stdint.h>
#define C16_ICONV_MAXCH 2
enum { C16_CS_ASCII = 1, C16_CS_LATIN1, C16_CS_UTF8, C16_CS_TO_UCS2 };
struct c16_iconv {
  uint8_t big_endian, subst_at;          /* inputs */
  uint32_t n_open, n_close, n_calls;     /* observations */
};
extern struct c16_iconv C16_ICONV;
/* reference encoder shared with the harness oracle: bytes for code point u in charset cs; 0 = not representable */
unsigned c16_encode(int cs, unsigned u, uint8_t out[3]);
#endif
