/* Stub of the bit slicer interface used by src/raw_decoder.c (C05 layer 3, C04 line/pattern obligations).
 * Contract (what the real slicer's own obligations h_slice_exact / h_slice_bufsize establish):
 *  - vbi3_bit_slicer_slice(bs, buffer, size, raw) reads only [raw, raw + samples_per_line*bytes_per_sample)
 *    and, when it returns TRUE, writes only buffer[0 .. size-1]; it returns an arbitrary verdict.
 * The stub records every call and checks what the raw decoder hands to it:
 *  - bs is the slicer of one of rd->jobs[0 .. n_jobs-1]
 *  - buffer is the data[] member of the next free output record, below max_lines; size is sizeof data
 *  - raw is the start of a row of the image object and the whole row lies inside the image.
 * The harness provides: ST_RD (decoder), ST_OUT/ST_NOUT (output array), ST_IMG/ST_NROWS/ST_BPL (image),
 * st_max_lines, st_verdict[row][job] (pre-read symbolic verdicts). */
#ifndef C05_SLICER_STUB_H
#define C05_SLICER_STUB_H

/* Representation invariant of the raw decoder's pattern table (8 "ways" per scan line, each a job number
 * 1..n_jobs, 0, or a negative counter): every entry <= n_jobs, and in every row the first or the last way is not
 * a job.  decode_pattern() scans a row until the first non-positive way, so this bounds the scan to the row.
 * Inductive: decode_pattern (C05 decode_out), add_job_to_pattern incl. its failure path and
 * remove_job_from_pattern (C04 pattern obligations); initial: all-zero table (vbi3_raw_decoder_add_services). */
static int st_pat_inv(const int8_t *pat, unsigned nrows, unsigned n_jobs)
{
  unsigned r, w;
  for (r = 0; r < nrows; r++) {
    for (w = 0; w < _VBI3_RAW_DECODER_MAX_WAYS; w++)
      if (pat[r * _VBI3_RAW_DECODER_MAX_WAYS + w] > (int) n_jobs) return 0;
    if (pat[r * _VBI3_RAW_DECODER_MAX_WAYS] > 0 && pat[r * _VBI3_RAW_DECODER_MAX_WAYS + _VBI3_RAW_DECODER_MAX_WAYS - 1] > 0) return 0;
  }
  return 1;
}

#define ST_MAXROWS 8
static unsigned st_max_lines;
static uint8_t st_verdict[ST_MAXROWS][_VBI3_RAW_DECODER_MAX_JOBS];
static unsigned st_n_calls, st_n_hits;
static int st_hit_row[ST_MAXROWS + 2], st_hit_job[ST_MAXROWS + 2];
static uint8_t st_fill;           /* payload byte the stub writes */
static unsigned st_set_params_calls;

vbi_bool
vbi3_bit_slicer_slice(vbi3_bit_slicer *bs, uint8_t *buffer, unsigned int buffer_size, const uint8_t *raw)
{
  /* identify job, row and record by pointer equality against the (few) legal values: cheap for the solver and
   * free of out-of-object pointer arithmetic in the stub itself */
  unsigned j = 99, row = 99, k = 99, i;
  for (i = 0; i < _VBI3_RAW_DECODER_MAX_JOBS; i++) if (bs == &ST_RD.jobs[i].slicer) j = i;
  for (i = 0; i < ST_NROWS; i++) if (raw == ST_IMG + (size_t) i * ST_BPL) row = i;
  for (i = 0; i < ST_NOUT; i++) if (buffer == ST_OUT[i].data) k = i;
  V_ASSERT(j < ST_RD.n_jobs, "slicer_of_an_active_job");
  V_ASSERT(row < ST_NROWS, "row_inside_image");
  V_ASSERT(k < ST_NOUT, "buffer_is_data_of_a_record");
  V_ASSERT(k < st_max_lines, "record_below_max_lines");
  V_ASSERT(k == st_n_hits, "records_dense");
  V_ASSERT(buffer_size == sizeof(ST_OUT[0].data), "buffer_size_is_record_payload_size");
  { /* the job is one of the ways of this scan line's pattern row (pattern rows are in decode order: field 1 rows, then field 2) */
    unsigned pi = row, w, found = 0;
    if (ST_RD.sampling.interlaced) pi = (row & 1) ? (unsigned) ST_RD.sampling.count[0] + (row >> 1) : (row >> 1);
    for (w = 0; w < _VBI3_RAW_DECODER_MAX_WAYS; w++)
      if (pi < ST_NROWS) found |= ST_RD.pattern[pi * _VBI3_RAW_DECODER_MAX_WAYS + w] == (int) j + 1;
    V_ASSERT(found, "job_belongs_to_the_rows_pattern");
  }
  st_n_calls++;
  if (row < ST_MAXROWS && j < _VBI3_RAW_DECODER_MAX_JOBS && (st_verdict[row][j] & 1)) {
    for (i = 0; i < 4 && i < buffer_size; i++) buffer[i] = st_fill;     /* some payload */
    if (st_n_hits < ST_MAXROWS + 2) { st_hit_row[st_n_hits] = (int) row; st_hit_job[st_n_hits] = (int) j; }
    st_n_hits++;
    return TRUE;
  }
  return FALSE;
}

vbi_bool
vbi3_bit_slicer_slice_with_points(vbi3_bit_slicer *bs, uint8_t *buffer, unsigned int buffer_size,
                                  vbi3_bit_slicer_point *points, unsigned int *n_points, unsigned int max_points,
                                  const uint8_t *raw)
{
  (void) points; (void) max_points;
  *n_points = 0;
  return vbi3_bit_slicer_slice(bs, buffer, buffer_size, raw);
}

vbi_bool _vbi3_bit_slicer_init(vbi3_bit_slicer *bs) { memset(bs, 0, sizeof *bs); return TRUE; }
void _vbi3_bit_slicer_destroy(vbi3_bit_slicer *bs) { memset(bs, 0, sizeof *bs); }

/* accepts; records the geometry the raw decoder configures (checked by the harness) */
static unsigned st_sp_spl, st_sp_rate, st_sp_off; static vbi_pixfmt st_sp_fmt;
vbi_bool
vbi3_bit_slicer_set_params(vbi3_bit_slicer *bs, vbi_pixfmt sample_format, unsigned int sampling_rate,
                           unsigned int sample_offset, unsigned int samples_per_line, unsigned int cri,
                           unsigned int cri_mask, unsigned int cri_bits, unsigned int cri_rate,
                           unsigned int cri_end, unsigned int frc, unsigned int frc_bits,
                           unsigned int payload_bits, unsigned int payload_rate, vbi3_modulation modulation)
{
  (void) cri; (void) cri_mask; (void) cri_bits; (void) cri_rate; (void) cri_end; (void) frc; (void) frc_bits;
  (void) payload_rate; (void) modulation;
  bs->sample_format = sample_format; bs->payload = payload_bits;
  st_sp_spl = samples_per_line; st_sp_rate = sampling_rate; st_sp_off = sample_offset; st_sp_fmt = sample_format;
  st_set_params_calls++;
  return TRUE;
}

void vbi3_bit_slicer_set_log_fn(vbi3_bit_slicer *bs, vbi_log_mask mask, vbi_log_fn *log_fn, void *user_data)
{ bs->log.mask = mask; bs->log.fn = log_fn; bs->log.user_data = user_data; }

#endif
