/* C08 type carving (DESIGN.md R2, brief rule 2).
 *
 * src/caption.c never touches the Teletext decoder state (struct teletext, 46 KB of the 220 KB vbi_decoder).
 * For the C08 build the type is replaced, through the include guard of src/teletext_decoder.h, by a small
 * stand-in; all declarations of that header which vbi.h and its users name are repeated verbatim.  The caption
 * types (src/cc.h) are the REAL ones.  Must be included before any zvbi header in every translation unit of
 * the C08 build which sees vbi_decoder (harness and models/c08_env.c).
 */
#ifndef C08_CARVE_H
#define C08_CARVE_H

#include "site_def.h"
#ifdef HAVE_CONFIG_H
#  include "config.h"
#endif

#define TELETEXT_H
#include "cache-priv.h"
typedef enum {
	VBI_WST_LEVEL_1,
	VBI_WST_LEVEL_1p5,
	VBI_WST_LEVEL_2p5,
	VBI_WST_LEVEL_3p5
} vbi_wst_level;
struct teletext {
	vbi_wst_level			max_level;
};
extern void		vbi_teletext_set_default_region(vbi_decoder *vbi, int default_region);
extern void		vbi_teletext_set_level(vbi_decoder *vbi, int level);
extern vbi_bool		vbi_fetch_vt_page(vbi_decoder *vbi, vbi_page *pg,
					  vbi_pgno pgno, vbi_subno subno,
					  vbi_wst_level max_level, int display_rows,
					  vbi_bool navigation);
extern int		vbi_page_title(vbi_decoder *vbi, int pgno, int subno, char *buf);
extern void		vbi_resolve_link(vbi_page *pg, int column, int row,
					 vbi_link *ld);
extern void		vbi_resolve_home(vbi_page *pg, vbi_link *ld);
extern void		vbi_teletext_init(vbi_decoder *vbi);
extern void		vbi_teletext_destroy(vbi_decoder *vbi);
extern vbi_bool		vbi_decode_teletext(vbi_decoder *vbi, uint8_t *p);
extern void		vbi_teletext_desync(vbi_decoder *vbi);
extern void             vbi_teletext_channel_switched(vbi_decoder *vbi);
extern void		vbi_decode_vps(vbi_decoder *vbi, uint8_t *p);

#endif
