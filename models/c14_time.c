/* c14_time.c - environment model for C14, see c14_time.h.  Separate translation unit (models=[...]). */
#include <errno.h>
#include <stdlib.h>
#include <string.h>
#include "c14_time.h"

#ifdef VERIF_CBMC
int nondet_int(void);
#define M_ASSERT(c, tag) __CPROVER_assert((c), "VP:" tag)
#define M_ASSUME(c) __CPROVER_assume(c)
#else
#include <stdio.h>
#include <unistd.h>
#include <dlfcn.h>
#define M_ASSERT(c, tag) do { if (!(c)) { printf("VP-ASSERT-FAILED %s %s:%d\n", tag, __FILE__, __LINE__); fflush(stdout); _exit(99); } } while (0)
#endif

struct m14_state M14;
static int m14_hint_valid, m14_ms_valid, m14_mk_valid;
static char m14_envbuf[M14_STRMAX + 3];
static const char m14_ambient[M14_STRMAX] = M14_AMBIENT_STR;

/* ------------------------------------------------------------------ strings (bounded, no libc) */
static int m14_streq(const char *a, const char *b)
{
  int i;
  for (i = 0; i < M14_STRMAX; i++) {
    if (a[i] != b[i]) return 0;
    if (a[i] == 0) return 1;
  }
  M_ASSERT(0, "m14_string_too_long");
  return 0;
}

int m14_classify(const char *value)
{
  /* shortcut by identity: the harness registered this very object as a NAMED zone string (it assumes/fixes its
     content accordingly), so no byte comparison is needed when pdc.c passes the pointer through unchanged */
  if (M14.named_tz && value == M14.named_tz) return M14_TZ_NAMED;
  if (m14_streq(value, m14_ambient)) return M14_TZ_AMBIENT;
  if (m14_streq(value, "UTC")) return M14_TZ_UTC;
  return M14_TZ_NAMED;
}

void m14_reset(int ambient_set)
{
  int i;
  M14.cell = M14.active = ambient_set ? M14_TZ_AMBIENT : M14_TZ_UNSET;
  M14.n_setenv = M14.n_setenv_failed = M14.n_unsetenv = M14.n_tzset = 0;
  M14.n_mktime = M14.n_mktime_failed = M14.n_time_failed = M14.n_localtime_dirty = 0;
  m14_hint_valid = 0; m14_ms_valid = 0; m14_mk_valid = 0;
  M14.named_tz = 0;
  M14.hint_midnight = 0;
  for (i = 0; i < M14_LOG; i++) {
    struct m14_mkcall *c = &M14.mk[i];
    c->y = c->mon0 = c->mday = c->h = c->mi = c->s = c->isdst = c->zone = c->failed = 0; c->local = 0;
  }
  for (i = 0; i < (int) sizeof m14_envbuf; i++) m14_envbuf[i] = 0;
  if (ambient_set) for (i = 0; i < M14_STRMAX; i++) m14_envbuf[i] = m14_ambient[i];
}

/* ------------------------------------------------------------------ calendar, forward direction */
/* a * c in two's complement without a signed-overflow check of double width (the operands are range-asserted,
 * the products cannot overflow; an unsigned product is the same bits and keeps the formula small) */
#define M14_MUL64(a, c) ((int64_t) ((uint64_t) (int64_t) (a) * (uint64_t) (c)))


/* floor(n/100) for 0 <= n < 43699 without a divider (checked natively against '/' in the self check) */
static int m14_div100(int n) { return (int) (((unsigned) n * 5243u) >> 19); }

int m14_is_leap(int y)
{
  int c = m14_div100(y);
  if (y & 3) return 0;
  if (y != c * 100) return 1;
  return (c & 3) == 0;
}

int m14_days_in_month(int y, int mon0)
{
  static const unsigned char dim[12] = { 31, 28, 31, 30, 31, 30, 31, 31, 30, 31, 30, 31 };
  if (mon0 < 0 || mon0 > 11) return 0;
  return dim[mon0] + (mon0 == 1 && m14_is_leap(y));
}

/* number of leap years in 1..n (n >= 0) */
static int m14_leaps_upto(int n)
{
  int c = m14_div100(n);
  return (n >> 2) - c + (c >> 2);
}

/* days since 1970-01-01 of the first day of month mon0 (0..11) of year y */
static int m14_month_start(int y, int mon0)
{
  static const short cum[12] = { 0, 31, 59, 90, 120, 151, 181, 212, 243, 273, 304, 334 };
  M_ASSERT(y >= M14_YLO && y <= M14_YHI + 1, "m14_model_year_range");
  M_ASSERT(mon0 >= 0 && mon0 <= 11, "m14_model_month_range");
  if (mon0 < 0 || mon0 > 11) mon0 = 0;
  return 365 * (y - 1970) + (m14_leaps_upto(y - 1) - 477 /* leap years 1..1969 */)
         + cum[mon0] + ((mon0 >= 2 && m14_is_leap(y)) ? 1 : 0);
}

/* 00:00:00 of the first day of the month in seconds; memoises the last (y, mon0): a pure-function cache.
 * Two conversions in the same month (pdc.c: begin/end of a validity window) then share one term, so the
 * solver compares their results by the linear part only instead of comparing two multiplier circuits. */
static int m14_ms_y, m14_ms_m;
static int64_t m14_ms_secs;
static int64_t m14_month_start_secs(int y, int mon0)
{
  if (!(m14_ms_valid && y == m14_ms_y && mon0 == m14_ms_m)) {
    m14_ms_secs = M14_MUL64(m14_month_start(y, mon0), 86400);   /* |month_start| < 2^20 */
    m14_ms_y = y; m14_ms_m = mon0; m14_ms_valid = 1;
  }
  return m14_ms_secs;
}

int64_t m14_days_from_civil(int y, int mon0, int mday)
{
  M_ASSERT(mday >= -1000 && mday <= 1000, "m14_model_mday_range");
  return m14_month_start(y, mon0) + (mday - 1);
}

static int64_t m14_linear_part(int mday, int h, int mi, int s)
{
  M_ASSERT(mday >= -1000 && mday <= 1000, "m14_model_mday_range");
  M_ASSERT(h >= -100000 && h <= 100000 && mi >= -100000 && mi <= 100000 && s >= -100000 && s <= 100000, "m14_model_hms_range");
  /* 1001*86400 + 100000*(3600 + 60 + 1) = 452586400: |sum| < 2^31 by the ranges above: computed modulo 2^32 (no overflow-check circuits), then sign extended */
  return (int64_t) (int32_t) ((uint32_t) (mday - 1) * 86400u + (uint32_t) h * 3600u + (uint32_t) mi * 60u + (uint32_t) s);
}

/* LINEAR in mday, h, mi, s by construction (this is how mktime/timegm treat out-of-range fields):
 *   secs(y, m, d + a, h, mi, s) == secs(y, m, d, 0, 0, 0) + a*86400 + h*3600 + mi*60 + s  */
int64_t m14_secs_from_civil(int y, int mon0, int mday, int h, int mi, int s)
{
  return m14_month_start_secs(y, mon0) + m14_linear_part(mday, h, mi, s);
}

/* ------------------------------------------------------------------ calendar, inverse direction */
/* CBMC: RELATIONAL - pick fields, assume forward(fields) == t (the solver multiplies, never divides).
 * Because the forward function is strictly monotone in the canonical fields (successor-day step proved
 * in h_m14_selfcheck + Euclid for the seconds of the day) it is injective, so a harness may register ONE
 * instant it built forward itself (m14_hint_civil): if the queried t equals that instant the fields are
 * the registered ones.  That lemma instance only spares the solver the injectivity proof (measured: no
 * verdict in 200 s without, seconds with); for any other t the plain relation applies.
 * Native: independent closed-form inverse with real divisions (era algorithm), compared with glibc. */
static int m14_hint_f[6];
static int64_t m14_hint_t;

int64_t m14_hint_civil(int y, int mon0, int mday, int h, int mi, int s)
{
  M_ASSERT(y >= M14_YLO && y <= M14_YHI && mon0 >= 0 && mon0 <= 11 && mday >= 1 && mday <= m14_days_in_month(y, mon0)
           && h >= 0 && h < 24 && mi >= 0 && mi < 60 && s >= 0 && s < 60, "m14_hint_is_canonical");
  M14.hint_midnight = m14_month_start_secs(y, mon0) + (int64_t) ((mday - 1) * 86400);
  m14_hint_t = M14.hint_midnight + (int64_t) (h * 3600 + mi * 60 + s);
  m14_hint_f[0] = y; m14_hint_f[1] = mon0; m14_hint_f[2] = mday; m14_hint_f[3] = h; m14_hint_f[4] = mi; m14_hint_f[5] = s;
  m14_hint_valid = 1;
  return m14_hint_t;
}

#ifndef VERIF_CBMC
static void m14_native_civil_from_days(int64_t z, int *y, int *mon0, int *mday)
{
  int64_t era, doe, yoe, doy, mp;
  z += 719468;
  era = (z >= 0 ? z : z - 146096) / 146097;
  doe = z - era * 146097;
  yoe = (doe - doe / 1460 + doe / 36524 - doe / 146096) / 365;
  doy = doe - (365 * yoe + yoe / 4 - yoe / 100);
  mp = (5 * doy + 2) / 153;
  *mday = (int) (doy - (153 * mp + 2) / 5 + 1);
  *mon0 = (int) (mp < 10 ? mp + 2 : mp - 10);
  *y = (int) (yoe + era * 400 + (*mon0 <= 1));
}
#endif

void m14_civil_from_secs(int64_t t, int *y, int *mon0, int *mday, int *h, int *mi, int *s, int *wday, int *yday)
{
  const int64_t dlo = m14_days_from_civil(M14_YLO, 0, 1), dhi = m14_days_from_civil(M14_YHI + 1, 0, 1);
  M_ASSERT(t >= dlo * 86400 && t < dhi * 86400, "m14_model_time_range");
#ifdef VERIF_CBMC
#ifndef M14_NO_HINT
  if (m14_hint_valid && t == m14_hint_t) {
    /* lemma instance: the forward function is injective on canonical fields (see above) */
    *y = m14_hint_f[0]; *mon0 = m14_hint_f[1]; *mday = m14_hint_f[2];
    *h = m14_hint_f[3]; *mi = m14_hint_f[4]; *s = m14_hint_f[5];
  } else
#endif
  {
    int days = nondet_int(), sod = nondet_int();
    int yy = nondet_int(), mm = nondet_int(), dd = nondet_int();
    int hh = nondet_int(), mi_ = nondet_int(), ss = nondet_int();
    M_ASSUME(days >= dlo && days < dhi);
    M_ASSUME(sod >= 0 && sod < 86400);
    M_ASSUME(M14_MUL64(days, 86400) + sod == t);
    M_ASSUME(yy >= M14_YLO && yy <= M14_YHI);
    M_ASSUME(mm >= 0 && mm <= 11);
    M_ASSUME(dd >= 1 && dd <= m14_days_in_month(yy, mm));
    M_ASSUME(m14_month_start(yy, mm) + (dd - 1) == days);
    M_ASSUME(hh >= 0 && hh < 24 && mi_ >= 0 && mi_ < 60 && ss >= 0 && ss < 60);
    M_ASSUME(hh * 3600 + mi_ * 60 + ss == sod);
    *y = yy; *mon0 = mm; *mday = dd; *h = hh; *mi = mi_; *s = ss;
  }
  /* not used by the unit under test: unconstrained under CBMC (over-approximation) */
  *wday = nondet_int(); *yday = nondet_int();
#else
  {
    int64_t days = (t >= 0 ? t : t - 86399) / 86400;
    int64_t sod = t - days * 86400;
    int64_t w;
    m14_native_civil_from_days(days, y, mon0, mday);
    *h = (int) (sod / 3600); *mi = (int) (sod % 3600 / 60); *s = (int) (sod % 60);
    w = (days + 4) % 7; if (w < 0) w += 7;
    *wday = (int) w;
    *yday = (int) (days - m14_days_from_civil(*y, 0, 1));
  }
#endif
}

static void m14_fill_tm(struct tm *tm, int64_t local, int32_t off)
{
  int y, mo, d, h, mi, s, wd, yd;
  m14_civil_from_secs(local, &y, &mo, &d, &h, &mi, &s, &wd, &yd);
  tm->tm_year = y - 1900; tm->tm_mon = mo; tm->tm_mday = d;
  tm->tm_hour = h; tm->tm_min = mi; tm->tm_sec = s;
  tm->tm_wday = wd; tm->tm_yday = yd; tm->tm_isdst = 0;
  tm->tm_gmtoff = off; tm->tm_zone = "M14";
}

/* ------------------------------------------------------------------ libc: clock and conversions */
time_t time(time_t *p)
{
  if (M14.now == -1) { M14.n_time_failed++; errno = EFAULT; return (time_t) -1; }
  if (p) *p = (time_t) M14.now;
  return (time_t) M14.now;
}

struct tm *gmtime_r(const time_t *t, struct tm *tm)
{
  m14_fill_tm(tm, (int64_t) *t, 0);
  return tm;
}

struct tm *localtime_r(const time_t *t, struct tm *tm)
{
  int32_t off;
  /* glibc: localtime_r does not re-read TZ; conversions use the zone of the last tzset()/mktime() */
  if (M14.active != M14.cell) M14.n_localtime_dirty++;
  M_ASSERT(M14.active >= 0 && M14.active < M14_TZ_N, "m14_active_id");
  off = M14.off[M14.active];
  M_ASSERT(off >= -100000000 && off <= 100000000, "m14_model_offset_range");
  M_ASSERT((int64_t) *t >= -(INT64_C(1) << 50) && (int64_t) *t <= (INT64_C(1) << 50), "m14_model_time_range");
  m14_fill_tm(tm, (int64_t) *t + off, off);
  return tm;
}

static void m14_log_mk(unsigned k, const struct tm *tm, int zone)
{
  if (k < M14_LOG) {
    struct m14_mkcall *c = &M14.mk[k];
    c->y = tm->tm_year + 1900; c->mon0 = tm->tm_mon; c->mday = tm->tm_mday;
    c->h = tm->tm_hour; c->mi = tm->tm_min; c->s = tm->tm_sec; c->isdst = tm->tm_isdst; c->zone = zone;
    c->failed = 1; c->local = 0;
  }
}

/* secs_from_civil(tm_year + 1900, tm_mon, tm_mday, tm_hour, tm_min, tm_sec).  The month term is memoised on the raw
 * tm_year/tm_mon, unconditionally and before any failure exit, so that two calls on copies of one struct tm
 * (pdc.c: begin/end of a validity window) share it syntactically and their results differ by the linear part only */
static int m14_mk_ty, m14_mk_tm;
static int64_t m14_mk_base;
static int64_t m14_mk_local(const struct tm *tm)
{
  M_ASSERT(tm->tm_year >= M14_YLO - 1900 && tm->tm_year <= M14_YHI - 1900, "m14_model_year_range");
  if (!(m14_mk_valid && tm->tm_year == m14_mk_ty && tm->tm_mon == m14_mk_tm)) {
    m14_mk_base = m14_month_start_secs(tm->tm_year + 1900, tm->tm_mon);
    m14_mk_ty = tm->tm_year; m14_mk_tm = tm->tm_mon; m14_mk_valid = 1;
  }
  return m14_mk_base + m14_linear_part(tm->tm_mday, tm->tm_hour, tm->tm_min, tm->tm_sec);
}

static time_t m14_mk_finish(struct tm *tm, int64_t local, int32_t off, unsigned k)
{
  if (k < M14_LOG) { M14.mk[k].failed = 0; M14.mk[k].local = local; }
#ifdef VERIF_CBMC
  /* normalised fields are written back by the real mktime; the unit under test never reads them:
     left unconstrained under CBMC (over-approximation: any use would see arbitrary values) */
  tm->tm_year = nondet_int(); tm->tm_mon = nondet_int(); tm->tm_mday = nondet_int();
  tm->tm_hour = nondet_int(); tm->tm_min = nondet_int(); tm->tm_sec = nondet_int();
  tm->tm_wday = nondet_int(); tm->tm_yday = nondet_int(); tm->tm_isdst = 0; tm->tm_gmtoff = off;
#else
  m14_fill_tm(tm, local, off);
#endif
  return (time_t) (local - off);
}

time_t mktime(struct tm *tm)
{
  unsigned k = M14.n_mktime++;
  int64_t local;
  M14.active = M14.cell;  /* POSIX: mktime() behaves as though tzset() were called */
  m14_log_mk(k, tm, M14.active);
  local = m14_mk_local(tm);
  if (k < 8 && ((M14.mktime_fail_mask >> k) & 1)) { M14.n_mktime_failed++; errno = EOVERFLOW; return (time_t) -1; }
  M_ASSERT(M14.active >= 0 && M14.active < M14_TZ_N, "m14_active_id");
  return m14_mk_finish(tm, local, M14.off[M14.active], k);
}

time_t timegm(struct tm *tm)
{
  unsigned k = M14.n_mktime++;   /* same ghost log as mktime, zone UTC (not used by pdc.c without HAVE_TIMEGM) */
  m14_log_mk(k, tm, M14_TZ_UTC);
  return m14_mk_finish(tm, m14_mk_local(tm), 0, k);
}

/* ------------------------------------------------------------------ libc: environment */
char *getenv(const char *name)
{
  if (!m14_streq(name, "TZ")) return 0;
  if (M14.cell == M14_TZ_UNSET) return 0;
  return m14_envbuf;
}

int setenv(const char *name, const char *value, int overwrite)
{
  int id, i;
  if (!m14_streq(name, "TZ")) return 0;
  if (!overwrite && M14.cell != M14_TZ_UNSET) return 0;
  id = m14_classify(value);
  if (id != M14_TZ_AMBIENT) {
    unsigned k = M14.n_setenv++;
    if (k < 8 && ((M14.setenv_fail_mask >> k) & 1)) { M14.n_setenv_failed++; errno = EINVAL; return -1; }
  }
  /* value is copied first (it may point into the old environment string), then installed */
  {
    char tmp[M14_STRMAX];
    for (i = 0; i < M14_STRMAX; i++) tmp[i] = 0;
    for (i = 0; i < M14_STRMAX - 1 && value[i]; i++) tmp[i] = value[i];
    for (i = 0; i < M14_STRMAX; i++) m14_envbuf[i] = tmp[i];
  }
  M14.cell = id;
  return 0;
}

int unsetenv(const char *name)
{
  int i;
  if (!m14_streq(name, "TZ")) return 0;
  M14.n_unsetenv++;
  for (i = 0; i < M14_STRMAX; i++) m14_envbuf[i] = 0;
  M14.cell = M14_TZ_UNSET;
  return 0;
}

void tzset(void)
{
  M14.n_tzset++;
  M14.active = M14.cell;
}

#ifdef VERIF_CBMC
char *strdup(const char *s)
{
  char *p = malloc(M14_STRMAX);
  int i;
  if (!p) return 0;
  for (i = 0; i < M14_STRMAX; i++) p[i] = 0;
  for (i = 0; i < M14_STRMAX - 1 && s[i]; i++) p[i] = s[i];
  M_ASSERT(s[i] == 0, "m14_string_too_long");
  return p;
}
#endif

/* ------------------------------------------------------------------ native cross-check against glibc */
#ifndef VERIF_CBMC
static int m14_cmp_one(int64_t t, struct tm *(*real_gmtime_r)(const time_t *, struct tm *), time_t (*real_timegm)(struct tm *))
{
  struct tm a, b; time_t tt = (time_t) t, back;
  memset(&a, 0, sizeof a); memset(&b, 0, sizeof b);
  if (!real_gmtime_r(&tt, &a)) { printf("glibc gmtime_r failed for %lld\n", (long long) t); return 1; }
  gmtime_r(&tt, &b);   /* the model */
  if (a.tm_year != b.tm_year || a.tm_mon != b.tm_mon || a.tm_mday != b.tm_mday || a.tm_hour != b.tm_hour
      || a.tm_min != b.tm_min || a.tm_sec != b.tm_sec || a.tm_wday != b.tm_wday || a.tm_yday != b.tm_yday) {
    printf("M14-MISMATCH gmtime_r t=%lld glibc %d-%d-%d %d:%d:%d wd%d yd%d model %d-%d-%d %d:%d:%d wd%d yd%d\n", (long long) t,
           a.tm_year, a.tm_mon, a.tm_mday, a.tm_hour, a.tm_min, a.tm_sec, a.tm_wday, a.tm_yday,
           b.tm_year, b.tm_mon, b.tm_mday, b.tm_hour, b.tm_min, b.tm_sec, b.tm_wday, b.tm_yday);
    return 1;
  }
  if (m14_secs_from_civil(a.tm_year + 1900, a.tm_mon, a.tm_mday, a.tm_hour, a.tm_min, a.tm_sec) != t) {
    printf("M14-MISMATCH secs_from_civil t=%lld\n", (long long) t); return 1; }
  if (m14_is_leap(a.tm_year + 1900) != (((a.tm_year + 1900) % 4 == 0 && (a.tm_year + 1900) % 100 != 0) || (a.tm_year + 1900) % 400 == 0)) {
    printf("M14-MISMATCH is_leap %d\n", a.tm_year + 1900); return 1; }
  /* denormalised day/hour as used by pdc.c (mday-1, mday+1, mday+29, hour 20/4) against glibc timegm */
  { static const int dd[4] = { -1, 1, 29, 0 }, hh[4] = { 20, 4, 4, 0 }; int k;
    for (k = 0; k < 4; k++) {
      struct tm c = a, m = a; time_t r1, r2;
      c.tm_mday += dd[k]; c.tm_hour = hh[k]; m.tm_mday += dd[k]; m.tm_hour = hh[k];
      r1 = real_timegm(&c); r2 = timegm(&m);
      if (r1 != r2 || c.tm_mday != m.tm_mday || c.tm_mon != m.tm_mon || c.tm_year != m.tm_year) {
        printf("M14-MISMATCH timegm t=%lld k=%d glibc %lld model %lld\n", (long long) t, k, (long long) r1, (long long) r2); return 1; }
    } }
  back = real_timegm(&a);
  if ((int64_t) back != t) { printf("glibc timegm(gmtime_r(t)) != t for %lld\n", (long long) t); return 1; }
  return 0;
}

/* compares the model with glibc on n pseudo-random instants (seeded) + fixed boundary instants; 0 = all equal */
int m14_native_crosscheck(uint64_t seed, unsigned n)
{
  struct tm *(*real_gmtime_r)(const time_t *, struct tm *) = (struct tm *(*)(const time_t *, struct tm *)) dlsym(RTLD_NEXT, "gmtime_r");
  time_t (*real_timegm)(struct tm *) = (time_t (*)(struct tm *)) dlsym(RTLD_NEXT, "timegm");
  const int64_t lo = m14_days_from_civil(M14_YLO, 0, 1) * 86400 + 2 * 86400;
  const int64_t hi = m14_days_from_civil(M14_YHI + 1, 0, 1) * 86400 - 31 * 86400;
  static const int64_t fixed[] = { 0, 1, -1, 86399, 86400, -86400, 951782400 /* 2000-02-29 */, 951868800, 951782399,
    2147483647, 2147483648LL, -2147483648LL, 4107542400LL /* 2100-03-01 */, 4107456000LL, 4107455999LL,
    1078012800 /* 2004-02-29 */, 68169600 /* 1972-02-29 */, 13569465600LL /* 2400-01-01 */, 13574563200LL /* 2400-02-29 */ };
  unsigned i; int y, n100;
  if (!real_gmtime_r || !real_timegm || real_gmtime_r == gmtime_r || real_timegm == timegm) {
    printf("M14: cannot reach glibc gmtime_r/timegm through dlsym(RTLD_NEXT)\n"); return 2; }
  for (n100 = 0; n100 < 43699; n100++)
    if (m14_div100(n100) != n100 / 100) { printf("M14-MISMATCH div100 %d\n", n100); return 1; }
  for (i = 0; i < sizeof fixed / sizeof fixed[0]; i++)
    if (fixed[i] >= lo && fixed[i] < hi && m14_cmp_one(fixed[i], real_gmtime_r, real_timegm)) return 1;
  for (y = M14_YLO + 1; y <= M14_YHI - 1; y++) {   /* every year boundary and end of February */
    int64_t t0 = m14_days_from_civil(y, 0, 1) * 86400, t1 = m14_days_from_civil(y, 2, 1) * 86400;
    if (m14_cmp_one(t0, real_gmtime_r, real_timegm) || m14_cmp_one(t0 - 1, real_gmtime_r, real_timegm)
        || m14_cmp_one(t1, real_gmtime_r, real_timegm) || m14_cmp_one(t1 - 1, real_gmtime_r, real_timegm)) return 1;
  }
  for (i = 0; i < n; i++) {
    int64_t t;
    seed = seed * 6364136223846793005ULL + 1442695040888963407ULL;
    t = lo + (int64_t) ((seed >> 11) % (uint64_t) (hi - lo));
    if (m14_cmp_one(t, real_gmtime_r, real_timegm)) return 1;
  }
  return 0;
}
#endif
