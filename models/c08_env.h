/* C08 environment model (declarations) - see c08_env.c */
#ifndef C08_ENV_H
#define C08_ENV_H
#include <pthread.h>

/* event log filled by the vbi_send_event model */
#define C08_EVMAX 8
struct c08_event { int type; int pgno; };
extern struct c08_event c08_ev[C08_EVMAX];    /* first C08_EVMAX events */
extern unsigned c08_ev_n;                     /* all events */
extern unsigned c08_ev_caption[10];           /* VBI_EVENT_CAPTION events per pgno 1..8 (0, 9: anything else) */
/* vbi_atvef_trigger model */
extern unsigned c08_trig_n;                   /* calls */
extern const unsigned char *c08_trig_ptr;     /* argument of the last call */
extern unsigned c08_trig_len;                 /* strlen of the argument of the last call, <= 256, 999 if no NUL in 256 bytes */
/* 1 iff the model mutex is currently held */
extern int c08_mutex_held(const pthread_mutex_t *m);

#endif
