/* c16_stubs.c - link-time environment of src/export.c for the C16 obligations.
 *
 * None of these is on a path the obligations exercise (module registration, option parsing, iconv output helper);
 * they exist so that the native replay build links and so that CBMC has no body-less callee it would havoc.
 * Select what the harness already defines with -DC16_HAVE_TEXT / -DC16_HAVE_GFX.
 */
#ifdef HAVE_CONFIG_H
#  include "config.h"
#endif
#include <stdio.h>
#include <stdlib.h>
#include <stdarg.h>
#include <string.h>
#include <unistd.h>
#include <pthread.h>
#include "src/misc.h"
#include "src/export.h"
#include "src/conv.h"

#ifdef VERIF_CBMC
#define M_UNREACHED(tag) __CPROVER_assert(0, "VP:" tag)
#else
#define M_UNREACHED(tag) do { printf("VP-ASSERT-FAILED %s %s:%d\n", tag, __FILE__, __LINE__); fflush(stdout); _exit(99); } while (0)
#endif

pthread_once_t vbi_init_once = PTHREAD_ONCE_INIT;
void vbi_init(void) { }

#ifndef C16_HAVE_GFX
vbi_export_class vbi_export_class_ppm, vbi_export_class_xpm;
#endif
vbi_export_class vbi_export_class_png;      /* the gfx harness compiles exp-gfx.c without HAVE_LIBPNG */
#ifndef C16_HAVE_TEXT
vbi_export_class vbi_export_class_text;
#endif
vbi_export_class vbi_export_class_html, vbi_export_class_tmpl;

#ifndef C16_HAVE_CONV
char *_vbi_strndup_iconv(unsigned long *out_size, const char *dst_codeset, const char *src_codeset,
                         const char *src, unsigned long src_size, int repl_char)
{
  (void) out_size; (void) dst_codeset; (void) src_codeset; (void) src; (void) src_size; (void) repl_char;
  M_UNREACHED("c16_stub_unreached_strndup_iconv");
  return NULL;
}
size_t vbi_strlen_ucs2(const uint16_t *src)
{
  (void) src;
  M_UNREACHED("c16_stub_unreached_strlen_ucs2");
  return 0;
}
#endif

#ifdef VERIF_CBMC
/* error-message formatting (vbi_export_error_printf and friends): CBMC has no body for the printf family and would
   leave the buffer unterminated; the message text is outside every claim -> empty string */
/* template "%s" (obligation write_printf): C99 7.19.6.12 - at most n-1 characters are written, then a NUL (nothing if n == 0); the
   return value is the number of characters that would have been written had n been large enough, never negative */
int vsnprintf(char *s, size_t n, const char *fmt, va_list ap)
{
  if (fmt[0] == '%' && fmt[1] == 's' && fmt[2] == 0) {
    const char *a = va_arg(ap, const char *);
    size_t i;
    for (i = 0; a[i] != 0; i++)
      if (i + 1 < n) s[i] = a[i];
    if (n > 0) s[i < n - 1 ? i : n - 1] = 0;
    return (int) i;
  }
  if (n > 0) s[0] = 0;
  return 0;
}
int snprintf(char *s, size_t n, const char *fmt, ...) { (void) fmt; if (n > 0) s[0] = 0; return 0; }
char *strerror(int e) { static char msg[2] = "E"; (void) e; return msg; }
char *dgettext(const char *d, const char *m) { (void) d; return (char *) m; }
int pthread_once(pthread_once_t *o, void (*f)(void)) { (void) o; f(); return 0; }

#ifdef C16_REALLOC_MODEL
/* realloc: CBMC's built-in model copies with ARRAY_COPY, which came back with unconstrained contents when the
   pointer argument may denote one of several heap objects (measured: alloc_equals_reference failed although the
   bytes are equal natively).  This model: fresh exact-size object (so the bounds checks stay exact), byte-wise
   copy of min(old size, new size) bytes, old object freed (so use-after-free is still detected).  The write layer
   owns at most ONE realloc'ed block at a time (e->buffer.data); the model keeps that block's size in a variable
   (concrete on every path when the request sizes are) and asserts the single-block discipline.
   Allocation never fails (--no-malloc-may-fail). */
static void *c16_blk;
static size_t c16_blk_size;
void *realloc(void *p, size_t n)
{
  char *q = (char *) malloc(n);
  size_t i;
  __CPROVER_assert(n <= C16_REALLOC_MODEL, "VP:realloc_model_size_bound");
  if (p != NULL) {
    __CPROVER_assert(p == c16_blk, "VP:realloc_model_single_live_block");
    for (i = 0; i < C16_REALLOC_MODEL; i++)
      if (i < c16_blk_size && i < n) q[i] = ((const char *) p)[i];
    free(p);
  }
  c16_blk = q; c16_blk_size = n;
  return q;
}
#endif
#endif
