/* c16_io.c - see c16_io.h */
#include <stdio.h>
#include <stdlib.h>
#include <string.h>
#include <errno.h>
#include <unistd.h>
#include <fcntl.h>
#include <stdarg.h>
#include <sys/types.h>
#include <sys/stat.h>
#include "c16_io.h"

#ifdef VERIF_CBMC
#define M_ASSERT(c, tag) __CPROVER_assert((c), "VP:" tag)
#else
#define M_ASSERT(c, tag) do { if (!(c)) { printf("VP-ASSERT-FAILED %s %s:%d\n", tag, __FILE__, __LINE__); fflush(stdout); _exit(99); } } while (0)
#endif

struct c16_io C16IO;
char c16_stream_object[8];

/* append the first k of n source bytes (the first min(n,16) and the last are read: the source object must be n bytes long).
   The log position of COMPLETE writes is kept in its own counter so that it stays concrete on every path; a short write
   (k < n) may happen once, and nothing may be written after it (the caller must have seen the error). */
static void c16_append(const void *p, size_t n, size_t k)
{
  const uint8_t *s = (const uint8_t *) p;
  unsigned i;
  uint32_t c = C16IO.n_write_calls - 1;
  if (c < C16_NCALLS) {
    C16IO.call[c].n = (uint32_t) n; C16IO.call[c].src = p;
    if (n > 0) { C16IO.call[c].first = s[0]; C16IO.call[c].last = s[n - 1]; }
  }
  if (k == 0 && n > 0) return;                                  /* no progress: nothing reaches the target */
  M_ASSERT(!C16IO.short_seen, "no_write_after_a_short_write");
  for (i = 0; i < C16_LOG_MAX; i++)
    if (i < n) {
      uint8_t b = s[i];
      if (i < k && C16IO.len_full + i < C16_LOG_MAX) C16IO.log[C16IO.len_full + i] = b;
    }
  if (k == n) C16IO.len_full += (uint32_t) n;
  else C16IO.short_seen = 1;
  C16IO.len += (uint32_t) k;
}

/* returns the number of bytes accepted, -1 for an error, for a request of n bytes */
static long c16_plan(size_t n, int is_fd)
{
  uint32_t k = C16IO.n_write_calls++;
  long r = (long) n;
  if (C16IO.fault_kind == 2) {
    if (k >= C16IO.fault_call && k < (uint32_t) C16IO.fault_call + C16IO.zero_repeat) r = 0;
  } else if (k == C16IO.fault_call) {
    if (C16IO.fault_kind == 1) r = is_fd ? -1 : 0;
    else if (C16IO.fault_part < n) r = C16IO.fault_part;
  }
  if (r < 0) { C16IO.faulted = 1; errno = EIO; }
  else if ((size_t) r != n) {
    if (r == 0 && is_fd) C16IO.n_zero++;        /* write(2) made no progress: not an error by itself */
    else C16IO.faulted = 1;                     /* short count */
  }
  return r;
}

size_t fwrite(const void *p, size_t size, size_t nmemb, FILE *fp)
{
  long r;
  M_ASSERT((void *) fp == C16IO.fp && fp != NULL, "fwrite_on_the_given_stream");
  M_ASSERT(size == 1, "fwrite_element_size");
  r = c16_plan(nmemb, 0);
  c16_append(p, nmemb, (size_t) r);
  if ((size_t) r != nmemb) errno = EIO;
  return (size_t) r;
}

void clearerr(FILE *fp)
{
  M_ASSERT((void *) fp == C16IO.fp, "clearerr_on_the_given_stream");
  C16IO.n_clearerr++;
}

ssize_t write(int fd, const void *p, size_t n)
{
  long r;
  M_ASSERT(fd == C16_FD && C16IO.fd_open, "write_on_open_descriptor");
  r = c16_plan(n, 1);
  if (r < 0) return -1;
  c16_append(p, n, (size_t) r);
  return (ssize_t) r;
}

int open(const char *name, int flags, ...)
{
  M_ASSERT(name != NULL, "open_name");
  M_ASSERT((flags & (O_WRONLY | O_CREAT | O_TRUNC)) == (O_WRONLY | O_CREAT | O_TRUNC), "open_flags");
  M_ASSERT(!C16IO.fd_open, "open_twice");
  C16IO.n_open++;
  if (C16IO.n_open <= C16IO.open_eintr) { errno = EINTR; return -1; }
  if (C16IO.open_fail) { errno = EACCES; return -1; }
  C16IO.fd_open = 1;
  return C16_FD;
}

int close(int fd)
{
  M_ASSERT(fd == C16_FD && C16IO.fd_open, "close_of_open_descriptor");
  C16IO.n_close++;
  C16IO.fd_open = 0;                /* POSIX: the descriptor is gone even if close reports an error (no EINTR modelled) */
  if (C16IO.close_fail) { errno = EIO; return -1; }
  return 0;
}

int stat(const char *name, struct stat *st)
{
  M_ASSERT(name != NULL && st != NULL, "stat_args");
  C16IO.n_stat++;
  memset(st, 0, sizeof *st);
  st->st_mode = C16IO.stat_regular ? (S_IFREG | 0644) : (S_IFIFO | 0644);
  return 0;
}

int unlink(const char *name)
{
  M_ASSERT(name != NULL, "unlink_name");
  C16IO.n_unlink++;
  return 0;
}
