/* Independent reference implementations of the EN 300 706 section 8 codes,
 * written from the standard's parity equations (not from the library's tables).
 * Validated natively against the library on every C03 run (h_ref_selftest). */
#ifndef REF_CODES_H
#define REF_CODES_H
#include <stdint.h>

static inline unsigned ref_bit(unsigned v, unsigned i) { return (v >> i) & 1u; }

/* Hamming 8/4: transmitted bits b1..b8 = P1 D1 P2 D2 P3 D3 P4 D4 (b1 = lsb).
   P1 = 1^D1^D3^D4, P2 = 1^D1^D2^D4, P3 = 1^D1^D2^D3, P4 = 1^P1^D1^P2^D2^P3^D3^D4 */
static inline unsigned ref_ham8(unsigned d)
{
  unsigned D1 = ref_bit(d,0), D2 = ref_bit(d,1), D3 = ref_bit(d,2), D4 = ref_bit(d,3);
  unsigned P1 = 1u^D1^D3^D4, P2 = 1u^D1^D2^D4, P3 = 1u^D1^D2^D3;
  unsigned P4 = 1u^P1^D1^P2^D2^P3^D3^D4;
  return P1 | (D1<<1) | (P2<<2) | (D2<<3) | (P3<<4) | (D3<<5) | (P4<<6) | (D4<<7);
}

static inline unsigned ref_popcount8(unsigned v)
{ v &= 0xFF; v = (v & 0x55) + ((v >> 1) & 0x55); v = (v & 0x33) + ((v >> 2) & 0x33); return (v + (v >> 4)) & 0x0F; }

/* nearest code word decoding: -1 if no code word within distance 1 */
static inline int ref_unham8(unsigned c)
{
  int r = -1; unsigned d;
  for (d = 0; d < 16; d++)
    if (ref_popcount8(ref_ham8(d) ^ (c & 0xFF)) <= 1) r = (int) d;
  return r;
}

static inline unsigned ref_rev8(unsigned c)
{
  unsigned r = 0, i;
  for (i = 0; i < 8; i++) r |= ref_bit(c, i) << (7 - i);
  return r;
}
static inline unsigned ref_rev4(unsigned c)
{ return (ref_bit(c,0)<<3) | (ref_bit(c,1)<<2) | (ref_bit(c,2)<<1) | ref_bit(c,3); }

/* odd parity over 8 bits: returns 1 if the byte has odd parity */
static inline unsigned ref_odd_parity(unsigned c)
{ return ref_popcount8(c) & 1u; }
/* set bit 7 so that the byte has odd parity */
static inline unsigned ref_par8(unsigned c)
{ c &= 0x7F; return c | ((ref_popcount8(c) & 1u) ? 0u : 0x80u); }

/* Hamming 24/18 (EN 300 706 8.3): positions 1..24; protection bits at positions 1,2,4,8,16, each giving odd
   parity over the positions whose index has that bit set; overall odd parity at 24; data bits D1..D18 fill the
   other positions in ascending order.  Returns the 24-bit word, position 1 = bit 0.  Straight-line code
   (the loop version cost minutes of symex per call). */
static inline unsigned ref_par32(unsigned v) { v ^= v >> 16; v ^= v >> 8; v ^= v >> 4; v ^= v >> 2; v ^= v >> 1; return v & 1u; }
static inline unsigned ref_ham24(unsigned d18)
{
  /* D1 -> pos 3; D2..D4 -> pos 5..7; D5..D11 -> pos 9..15; D12..D18 -> pos 17..23 */
  unsigned w = ((d18 & 1u) << 2) | (((d18 >> 1) & 7u) << 4) | (((d18 >> 4) & 0x7Fu) << 8) | (((d18 >> 11) & 0x7Fu) << 16);
  /* masks of positions 1..23 (bit = pos-1) whose index has bit j set */
  const unsigned M1 = 0x555555u, M2 = 0x666666u, M4 = 0x787878u, M8 = 0x007F80u, M16 = 0x7F8000u;
  w |= (1u ^ ref_par32(w & M1)) << 0;
  w |= (1u ^ ref_par32(w & M2)) << 1;
  w |= (1u ^ ref_par32(w & M4)) << 3;
  w |= (1u ^ ref_par32(w & M8)) << 7;
  w |= (1u ^ ref_par32(w & M16)) << 15;
  w |= (1u ^ ref_par32(w & 0x7FFFFFu)) << 23;
  return w;
}
#endif
