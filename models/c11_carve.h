/* C11 type carving (DESIGN.md R2, brief rule 2).
 *
 * The event code of src/vbi.c never touches the caption decoder state (168 KB of the 220 KB vbi_decoder) nor the
 * Teletext decoder state (46 KB).  For the C11 harness both types are replaced, through their include guards,
 * by small stand-ins which keep exactly the members the rest of vbi.c names (so the unit still compiles
 * unchanged): caption: channel[].time/.language; teletext: header_page.  All other declarations of the two
 * headers are repeated verbatim.  Must be included before any zvbi header, in every translation unit of the
 * C11 build (harness and models/c11_stubs.c), so that all of them see the same vbi_decoder.
 */
#ifndef C11_CARVE_H
#define C11_CARVE_H
#ifndef C11_NO_CARVE

#include "site_def.h"
#ifdef HAVE_CONFIG_H
#  include "config.h"
#endif

/* ---- src/cc.h -------------------------------------------------------- */
#define CC_H
#include <pthread.h>
#include "bcd.h"
#include "format.h"
#ifndef VBI_DECODER
#define VBI_DECODER
typedef struct vbi_decoder vbi_decoder;
#endif
typedef struct {
	double			time;
	unsigned char *		language;
} cc_channel;
struct caption {
	cc_channel		channel[9];
};
extern void		vbi_caption_init(vbi_decoder *vbi);
extern void		vbi_caption_destroy(vbi_decoder *vbi);
extern void		vbi_decode_caption(vbi_decoder *vbi, int line, uint8_t *buf);
extern void		vbi_caption_desync(vbi_decoder *vbi);
extern void		vbi_caption_channel_switched(vbi_decoder *vbi);
extern void		vbi_caption_color_level(vbi_decoder *vbi);

/* ---- src/teletext_decoder.h ------------------------------------------------ */
#define TELETEXT_H
#include "cache-priv.h"
typedef enum {
	VBI_WST_LEVEL_1,
	VBI_WST_LEVEL_1p5,
	VBI_WST_LEVEL_2p5,
	VBI_WST_LEVEL_3p5
} vbi_wst_level;
struct teletext {
	vbi_wst_level			max_level;
	struct ttx_page_link		header_page;
};
extern void		vbi_teletext_set_default_region(vbi_decoder *vbi, int default_region);
extern void		vbi_teletext_set_level(vbi_decoder *vbi, int level);
extern vbi_bool		vbi_fetch_vt_page(vbi_decoder *vbi, vbi_page *pg,
					  vbi_pgno pgno, vbi_subno subno,
					  vbi_wst_level max_level, int display_rows,
					  vbi_bool navigation);
extern int		vbi_page_title(vbi_decoder *vbi, int pgno, int subno, char *buf);
extern void		vbi_resolve_link(vbi_page *pg, int column, int row,
					 vbi_link *ld);
extern void		vbi_resolve_home(vbi_page *pg, vbi_link *ld);
extern void		vbi_teletext_init(vbi_decoder *vbi);
extern void		vbi_teletext_destroy(vbi_decoder *vbi);
extern vbi_bool		vbi_decode_teletext(vbi_decoder *vbi, uint8_t *p);
extern void		vbi_teletext_desync(vbi_decoder *vbi);
extern void             vbi_teletext_channel_switched(vbi_decoder *vbi);
extern void		vbi_decode_vps(vbi_decoder *vbi, uint8_t *p);

#endif /* !C11_NO_CARVE */
#endif
