/* C08 environment model.
 *
 * src/caption.c is the unit under test.  Everything it references outside itself, src/lang.c and src/hamm.c is
 * defined here, so the goto binary has no body-less (havoc'ed) callee and the native replay build links.
 *
 *  (a) pthread mutex model: one flag per mutex (glibc's __data.__lock word of the mutex object itself, so a
 *      zero-initialised static mutex is "unlocked").  lock asserts "not held" (self-deadlock), unlock asserts "held".
 *  (b) vbi_send_event: appends (type, pgno) to a small log, counts caption events per page number and asserts
 *      that the caption mutex is NOT held (documented in caption.c: "Permits calling vbi_fetch_cc_page from handler").
 *  (c) vbi_atvef_trigger: counts calls, remembers the argument and its length (the ITV obligation checks that
 *      the string is NUL terminated inside cc.itv_buf).
 *  (d) XDS side: vbi_reset_prog_info, vbi_chsw_reset, vbi_transp_colormap (plain copy): no effect on the caption state.
 */
#include "c08_carve.h"
#include <stdio.h>
#include <stdlib.h>
#include <unistd.h>
#include <errno.h>
#include <pthread.h>
#include "misc.h"
#include "vbi.h"
#include "trigger.h"
#include "c08_env.h"

#ifdef VERIF_CBMC
#define M_ASSERT(c, tag) __CPROVER_assert((c), "VP:" tag)
#else
#define M_ASSERT(c, tag) do { if (!(c)) { printf("VP-ASSERT-FAILED %s %s:%d\n", tag, __FILE__, __LINE__); fflush(stdout); _exit(99); } } while (0)
#endif

/* ---- (a) mutex ------------------------------------------------------- */
int pthread_mutex_init(pthread_mutex_t *m, const pthread_mutexattr_t *a)
{ (void) a; m->__data.__lock = 0; return 0; }
int pthread_mutex_destroy(pthread_mutex_t *m)
{ M_ASSERT(m->__data.__lock == 0, "mutex_destroy_while_held"); return 0; }
int pthread_mutex_lock(pthread_mutex_t *m)
{ M_ASSERT(m->__data.__lock == 0, "mutex_lock_self_deadlock"); m->__data.__lock = 1; return 0; }
int pthread_mutex_unlock(pthread_mutex_t *m)
{ M_ASSERT(m->__data.__lock == 1, "mutex_unlock_not_held"); m->__data.__lock = 0; return 0; }
int c08_mutex_held(const pthread_mutex_t *m) { return m->__data.__lock != 0; }

/* ---- (b) events ------------------------------------------------------ */
struct c08_event c08_ev[C08_EVMAX];
unsigned c08_ev_n;
unsigned c08_ev_caption[10];

void vbi_send_event(vbi_decoder *vbi, vbi_event *ev)
{
  unsigned k;
  M_ASSERT(vbi->cc.mutex.__data.__lock == 0, "event_sent_with_caption_mutex_held");
  if (c08_ev_n < C08_EVMAX) {
    c08_ev[c08_ev_n].type = ev->type;
    c08_ev[c08_ev_n].pgno = (ev->type == VBI_EVENT_CAPTION) ? ev->ev.caption.pgno : 0;
  }
  c08_ev_n++;
  if (ev->type == VBI_EVENT_CAPTION) {
    int p = ev->ev.caption.pgno;
    M_ASSERT(p >= 1 && p <= 9, "caption_event_pgno_range");
    for (k = 1; k < 10; k++) if ((int) k == p) c08_ev_caption[k]++;
  } else
    c08_ev_caption[0]++;
}

/* ---- (c) ITV trigger ------------------------------------------------- */
unsigned c08_trig_n;
const unsigned char *c08_trig_ptr;
unsigned c08_trig_len;

void vbi_atvef_trigger(vbi_decoder *vbi, unsigned char *s)
{
  unsigned i;
  (void) vbi;
  c08_trig_n++; c08_trig_ptr = s; c08_trig_len = 999;
  for (i = 0; i < 256; i++) if (s[i] == 0) { c08_trig_len = i; break; }
}

/* ---- (d) XDS side effects outside the caption state --------------------- */
void vbi_reset_prog_info(vbi_program_info *pi) { (void) pi; }
void vbi_chsw_reset(vbi_decoder *vbi, vbi_nuid nuid) { (void) vbi; (void) nuid; }
void vbi_transp_colormap(vbi_decoder *vbi, vbi_rgba *d, vbi_rgba *s, int entries)
{ int i; (void) vbi; for (i = 0; i < entries; i++) d[i] = s[i]; }
