/* C11 environment model (declarations) - see c11_stubs.c */
#ifndef C11_STUBS_H
#define C11_STUBS_H
#include <pthread.h>

/* call counters of the stubbed subsystem reset functions (what vbi_event_enable triggers) */
extern unsigned c11_n_ttx_switched, c11_n_cc_switched, c11_n_trigger_flush;
/* 1 iff the model mutex is currently held */
extern int c11_mutex_held(const pthread_mutex_t *m);

#endif
