/* C10 environment model, part 1: redirects the allocator of src/cache.c.
 *
 * Included by harness/h_c10.c BEFORE src/cache.c.  misc.h defines vbi_malloc/vbi_free as macros for
 * malloc/free in 0.2 builds (vbi_cache_malloc/vbi_cache_free expand to them); here they are re-pointed to
 * c10_alloc/c10_free, which harness/h_c10.c defines next to the pool objects (part of the claim):
 *
 *  c10_alloc(size)   size == sizeof(vbi_cache)      -> the one cache object
 *                    size == sizeof(cache_network)  -> one of C10_NN network slots
 *                    else (a page)                  -> one of C10_NP page slots; size must be C10_PSIZE, the
 *                                                     page size class of the run (VP:alloc_size_is_...)
 *                    never fails; a request with all slots of the class in use ends the path (V_ASSUME:
 *                    "at most C10_NP pages / C10_NN networks alive at once" is a stated bound).
 *  c10_free(p)       NULL is a no-op; p must be a live slot (else VP:free_of_live_object fails: double free /
 *                    free of a foreign pointer); counts frees.
 *  Under CBMC the slots are separate static objects (vbi_cache, cache_network; pages: cache_page header layout +
 *  C10_DATA body bytes, see the memcpy model in the harness); natively every slot is a real calloc(size) block
 *  of the exact size (ASan: overflow, use-after-free; LeakSanitizer at exit).
 */
#ifndef C10_ENV_H
#define C10_ENV_H

#ifndef C10_NP
#define C10_NP 3
#endif
#ifndef C10_NN
#define C10_NN 2
#endif

static void *c10_alloc(size_t size);
static void c10_free(void *p);

#include "src/misc.h"
#undef vbi_malloc
#undef vbi_free
#define vbi_malloc c10_alloc
#define vbi_free c10_free

#endif
