/* C10 environment model: allocator pool + log stubs for src/cache.c.
 *
 * Included by harness/h_c10.c BEFORE src/cache.c is included (it redirects vbi_malloc/vbi_free, which
 * misc.h defines as macros for malloc/free in 0.2 builds, to c10_alloc/c10_free) - part of the claim:
 *
 *  c10_alloc(size)   size == sizeof(vbi_cache)      -> the one cache object
 *                    size == sizeof(cache_network)  -> one of C10_NN network slots
 *                    else (a page, 88 .. 4504 bytes)-> one of C10_NP page slots
 *                    never fails; a request with all slots of the class in use ends the path (V_ASSUME:
 *                    "at most C10_NP pages / C10_NN networks alive at once" is a stated bound).
 *  c10_free(p)       NULL is a no-op; p must be a live slot (else VP:free_of_live_object fails: double free /
 *                    free of a foreign pointer); counts frees.
 *  Under CBMC the slots are separate static objects (typed: cache_page / cache_network / vbi_cache, or with
 *  -DC10_EXACT=<bytes> page slots are exact-size byte arrays so that running off the end of an allocation is
 *  a bounds failure); natively every slot is a real malloc(size) block (ASan: exact-size, use-after-free).
 */
#ifndef C10_ENV_H
#define C10_ENV_H

#ifndef C10_NP
#define C10_NP 3
#endif
#ifndef C10_NN
#define C10_NN 2
#endif

static void *c10_alloc(size_t size);
static void c10_free(void *p);

#include "src/misc.h"
#undef vbi_malloc
#undef vbi_free
#define vbi_malloc c10_alloc
#define vbi_free c10_free

#endif
