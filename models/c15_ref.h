/* C15 reference material: independent reading of EN 300 708
 *   section 6.5 (IDL format A)  - check word arithmetic, bit serial
 *   section 4   (Page Format Clear) - nothing here but constants
 * Nothing in this file is derived from the library's tables. */
#ifndef C15_REF_H
#define C15_REF_H
#include <stdint.h>

/* ---- IDL format A check word ------------------------------------------
 * Generator x^16 + x^9 + x^7 + x^4 + 1.  The message is the bit sequence in
 * transmission order (every byte lsb first).  Division register `reg` kept in
 * transmission order as well: bit 0 holds the coefficient of x^15 (the bit that
 * leaves the register next and is transmitted first), bit 15 the coefficient of
 * x^0; hence the feedback taps x^9, x^7, x^4, x^0 sit at bits 6, 8, 11, 15.
 * Register starts at 0, no final inversion.  The check word is chosen such that
 * the receiver's register, after the two check bytes, is 0 (explicit CI) or holds
 * the CI in both of its bytes (implicit CI).  */
#define C15_TAPS ((1u << (15 - 9)) | (1u << (15 - 7)) | (1u << (15 - 4)) | (1u << (15 - 0)))

static inline unsigned c15_crc_bit(unsigned reg, unsigned bit)
{
  unsigned fb = (reg ^ bit) & 1u;
  reg >>= 1;
  return fb ? (reg ^ C15_TAPS) : reg;
}
static inline unsigned c15_crc_byte(unsigned reg, unsigned byte)
{
  unsigned k;
  for (k = 0; k < 8; k++) reg = c15_crc_bit(reg, (byte >> k) & 1u);
  return reg;
}
/* one step backwards (multiplication by x^-1 mod G; G has constant term 1, i.e. tap bit 15) */
static inline unsigned c15_crc_unshift(unsigned reg)
{
  if (reg & 0x8000u) return (((reg ^ C15_TAPS) << 1) | 1u) & 0xFFFFu;
  return (reg << 1) & 0xFFFFu;
}
/* check word B (bit 0 = first transmitted bit) so that a receiver register that
   holds `reg` after the message ends at `target` after the 16 check bits:
   reg_end = x^16 * (reg + B) mod G  =>  B = reg + target * x^-16 */
static inline unsigned c15_checkword(unsigned reg, unsigned target)
{
  unsigned k;
  for (k = 0; k < 16; k++) target = c15_crc_unshift(target);
  return (reg ^ target) & 0xFFFFu;
}

/* ---- PFC constants (EN 300 708 section 4.3) ----------------------------- */
#define C15_BS 0x0C		/* block separator, Hamming 8/4 coded */
#define C15_FILL 0x03		/* filler, Hamming 8/4 coded */

#endif
