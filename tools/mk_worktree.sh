#!/bin/bash
# usage: mk_worktree.sh <dir>   -> scratch git worktree of /repo HEAD, configured and built (outside /repo and /verif)
# configure and the Makefile.in files are generated (not tracked): copied from /repo, then ./configure runs in the worktree
WT=$1
[ -d "$WT/.git" ] || [ -f "$WT/.git" ] || git -C /repo worktree add -f -q --detach "$WT" HEAD || exit 2
rsync -a --exclude .git --exclude '*.o' --exclude '*.lo' --exclude '*.la' --exclude '.libs' --exclude '.deps' --exclude Makefile \
  --exclude config.status --exclude config.log --exclude libtool --exclude config.h --exclude stamp-h1 --exclude '_build' \
  --ignore-existing /repo/ "$WT"/
cd "$WT" && ./configure --disable-nls >/dev/null 2>&1 && make -j4 >/dev/null 2>&1 && echo "ready $WT" || { echo "build failed $WT"; exit 2; }
