#!/usr/bin/env python3
# usage: import_seed.py <PROP> <srcdir> <id> "<needs>" "<what>"  -> /verif/seeded/<id>/{patch.diff, demo files, meta.json}
import sys, os, shutil, json, glob
prop, src, sid, needs, what = sys.argv[1:6]
dst = os.path.join("/verif/seeded", sid); os.makedirs(dst, exist_ok=True)
for f in glob.glob(os.path.join(src, "*")):
    if os.path.isfile(f) and os.path.getsize(f) < 200000:
        shutil.copy(f, dst)
meta = {"id": sid, "breaks_property": prop, "what": what, "needs_to_manifest": needs,
        "origin": "written by an independent sub-agent that saw only the property text and its own scratch worktree of /repo",
        "confirmed_by": "tools/confirm_seed.sh in a scratch worktree: demo exits 0 on the clean tree, non-zero with patch.diff; patch compiles; make -C test check: 18 PASS 0 FAIL with the patch",
        "detected_by": []}
json.dump(meta, open(os.path.join(dst, "meta.json"), "w"), indent=1)
print(dst)
