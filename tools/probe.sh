#!/bin/bash
# usage: tools/probe.sh <harness.c> <func> "<-D defs>" "<cbmc flags>" [units...]   -> runs cbmc with phase timestamps
H=$1; F=$2; DEFS=$3; FLAGS=$4; shift 4
D=$(mktemp -d /tmp/probe-XXXX); cd $D
UN=""; for u in "$@"; do case $u in /*) UN="$UN $u";; *) UN="$UN /repo/$u";; esac; done
goto-cc -DVERIF_CBMC -o h.gb -DHAVE_CONFIG_H -D_GNU_SOURCE -D_REENTRANT -DZVBI_VERIF -I/verif/include -I/verif/models -I/verif/harness -I/repo -I/repo/src $DEFS /verif/harness/$H $UN 2>&1 | grep -v "warning" | head -20
/usr/bin/time -f "TOTAL %es %MKB" cbmc h.gb --function $F --unwinding-assertions --pointer-overflow-check --undefined-shift-check --signed-overflow-check --drop-unused-functions --no-malloc-may-fail --object-bits 12 --verbosity 9 $FLAGS 2>&1 | python3 -c "
import sys,time
t0=time.time()
for l in sys.stdin:
    if 'Unwinding loop' in l or not l.strip(): continue
    if l.startswith('[') and 'FAIL' not in l: continue
    print('%6.1f %s'%(time.time()-t0,l.rstrip()[:220]),flush=True)
"
cd /; rm -rf $D
