#!/usr/bin/env python3
# usage: eval_seeds.py [--tier quick|thorough] [--jobs N] <seed-id-regex> [PROP-override]
# For every seeded change whose id matches: apply it to a private scratch worktree of /repo HEAD, run ./check <breaks_property> against it
# (VERIF_REPO), record which obligations reported a replayed violation in seeded/<id>/meta.json ("detected_by").  /repo itself is never touched.
import os, sys, re, json, subprocess, tempfile, shutil, argparse
from concurrent.futures import ThreadPoolExecutor
V = os.path.dirname(os.path.dirname(os.path.abspath(__file__)))

def one(sid, prop, tier, vjobs):
    sd = os.path.join(V, "seeded", sid)
    wt = tempfile.mkdtemp(prefix="wt-eval-", dir="/tmp")
    os.rmdir(wt)
    try:
        subprocess.check_call(["git", "-C", "/repo", "worktree", "add", "-f", "-q", "--detach", wt, "HEAD"])
        for f in ("config.h", "site_def.h"):
            shutil.copy(os.path.join("/repo", f), wt)
        r = subprocess.run(["git", "-C", wt, "apply", os.path.join(sd, "patch.diff")], capture_output=True, text=True)
        if r.returncode != 0:     # the seed was written against an older HEAD (before later fix: commits): retry with context fuzz
            r = subprocess.run("patch -d %s -p1 --fuzz=3 --no-backup-if-mismatch < %s" % (wt, os.path.join(sd, "patch.diff")), shell=True, capture_output=True, text=True)
        if r.returncode != 0:
            return sid, prop, None, "patch does not apply: " + (r.stderr + r.stdout)[-200:]
        env = dict(os.environ, VERIF_REPO=wt, VERIF_EVIDENCE_DIR=os.path.join(wt, "evidence"), VERIF_REPLAY_DIR=os.path.join(wt, "replays"), VERIF_NO_SMOKE="1", VERIF_JOBS=str(vjobs))
        r = subprocess.run([os.path.join(V, "check"), prop, "--tier", tier], capture_output=True, text=True, env=env, cwd=V)
        hits = []
        for line in r.stdout.splitlines():
            m = re.match(r"\s*\[%s\] (\S+)\s+(REFUTED)" % prop, line)     # a KNOWN-FINDING also shows on the unchanged tree: not a detection
            if m:
                hits.append(m.group(1))
        tail = [l for l in r.stdout.splitlines() if l.startswith("[%s] tier=" % prop)]
        # replays written under /verif/replays by an evaluation run refer to a mutated tree: remove them
        for line in r.stdout.splitlines():
            m = re.match(r"VIOLATION property=\S+ replay=(\S+)", line)
            if m and os.path.exists(m.group(1)):
                os.unlink(m.group(1))
        return sid, prop, hits, (tail[-1] if tail else r.stdout[-300:]) + " exit=%d" % r.returncode
    finally:
        subprocess.call(["git", "-C", "/repo", "worktree", "remove", "--force", wt], stderr=subprocess.DEVNULL)
        shutil.rmtree(wt, ignore_errors=True)

def main():
    ap = argparse.ArgumentParser(); ap.add_argument("rx"); ap.add_argument("prop", nargs="?"); ap.add_argument("--tier", default="quick"); ap.add_argument("--jobs", type=int, default=1)
    ap.add_argument("--vjobs", type=int, default=15)
    a = ap.parse_args()
    todo = []
    for sid in sorted(os.listdir(os.path.join(V, "seeded"))):
        if not re.search(a.rx, sid):
            continue
        meta = json.load(open(os.path.join(V, "seeded", sid, "meta.json")))
        todo.append((sid, a.prop or meta["breaks_property"]))
    with ThreadPoolExecutor(max_workers=a.jobs) as ex:
        for sid, prop, hits, info in ex.map(lambda t: one(t[0], t[1], a.tier, a.vjobs), todo):
            mp = os.path.join(V, "seeded", sid, "meta.json"); meta = json.load(open(mp))
            det = [d for d in meta.get("detected_by", []) if not (isinstance(d, dict) and d.get("property") == prop and d.get("tier") == a.tier)]
            if hits is not None:
                det.append({"property": prop, "tier": a.tier, "obligations": sorted(set(hits)), "detected": bool(hits)})
            meta["detected_by"] = det
            json.dump(meta, open(mp, "w"), indent=1)
            print("%-45s %s %-8s %s :: %s" % (sid, prop, "CAUGHT" if hits else ("MISSED" if hits is not None else "ERROR"), ",".join(sorted(set(hits or [])))[:150], info[:160]), flush=True)

if __name__ == "__main__":
    main()
