#!/bin/bash
# usage: eval_seed.sh <PROP> <patch.diff> [check args...]
# runs ./check PROP --tier quick against a private scratch worktree of /repo HEAD with the patch applied (so /repo itself stays untouched while other checks run)
PROP=$1; PATCH=$(readlink -f $2); shift 2
WT=$(mktemp -d /tmp/wt-eval-XXXXXX)
git -C /repo worktree add -f -q --detach $WT HEAD || exit 2
cp /repo/config.h /repo/site_def.h $WT/; cp /repo/src/version.h $WT/src/ 2>/dev/null
git -C $WT apply $PATCH 2>/dev/null || patch -d $WT -p1 --fuzz=3 --no-backup-if-mismatch < $PATCH >/dev/null || { echo "patch does not apply"; git -C /repo worktree remove --force $WT; exit 2; }
cd /verif
VERIF_REPO=$WT VERIF_EVIDENCE_DIR=$WT/evidence VERIF_REPLAY_DIR=$WT/replays VERIF_NO_SMOKE=1 ./check $PROP --tier quick "$@" 2>&1 | grep -E "REFUTED|VIOLATION|UNCONFIRMED|INCONCLUSIVE|KNOWN|tier=.*instances=.*discharged" | cut -c1-260
RC=${PIPESTATUS[0]}
git -C /repo worktree remove --force $WT
echo "check exit=$RC"
