#!/bin/bash
# usage: eval_seed.sh <PROP> <patch.diff> [check args...]   - runs ./check PROP against a scratch worktree (/tmp/wt-eval at /repo HEAD) with the patch applied
PROP=$1; PATCH=$2; shift 2
WT=/tmp/wt-eval
git -C $WT checkout -q -- . && git -C $WT apply $PATCH || { echo "patch does not apply"; exit 2; }
cd /verif
VERIF_REPO=$WT VERIF_EVIDENCE_DIR=/tmp/eval-evidence VERIF_NO_SMOKE=1 ./check $PROP --tier quick "$@" 2>&1 | grep -E "REFUTED|VIOLATION|UNCONFIRMED|INCONCLUSIVE|tier=.*instances=.*discharged" | cut -c1-260
RC=${PIPESTATUS[0]}
git -C $WT checkout -q -- .
echo "check exit=$RC"
