#!/usr/bin/env python3
# setup: nothing to build; verify that the tools the checks need are on PATH
import shutil, sys
missing = [t for t in ("goto-cc", "cbmc", "goto-instrument", "clang", "gcc", "prlimit", "/usr/bin/time") if not shutil.which(t)]
if missing:
    print("missing tools: %s" % missing); sys.exit(1)
print("setup ok")
