#!/bin/bash
# usage: killrun.sh <regex>   - kill processes whose command line matches, except this script and its ancestors
RX="$1"
anc=" $$ "; p=$$
while [ "$p" -gt 1 ]; do p=$(ps -o ppid= -p $p | tr -d ' '); [ -z "$p" ] && break; anc="$anc$p "; done
for pid in $(pgrep -f -- "$RX"); do
  case "$anc" in *" $pid "*) continue;; esac
  kill $pid 2>/dev/null
done
exit 0
