#!/bin/bash
# usage: tools/refresh_evidence.sh [jobs]  - runs every claimed property's quick check once against /repo and rewrites evidence/<ID>.json; prints a one-line summary per property
J=${1:-15}
cd /verif
for p in $(python3 -c "import json;print(' '.join(c['property_id'] for c in json.load(open('MANIFEST.json'))['checks']))"); do
  VERIF_JOBS=$J ./check $p --tier quick > /tmp/ev/refresh-$p.log 2>&1; rc=$?
  echo "$p exit=$rc $(grep -E '^\[C[0-9]+\] tier=' /tmp/ev/refresh-$p.log | tail -1) $(grep -c -E '^(VIOLATION|INCONCLUSIVE)' /tmp/ev/refresh-$p.log) alarms/inconclusive"
done
