#!/bin/bash
# usage: confirm_seed.sh <built scratch worktree> <seed dir with patch.diff run_demo.sh>
# checks: demo passes on the clean tree, patch applies, builds, `make check` passes, demo fails with the patch; leaves the worktree clean
WT=$1; SD=$2; cd $WT || exit 2
L=$(mktemp -d /tmp/cs-XXXXXX)
git checkout -q -- . ; make -j4 >/dev/null 2>&1
bash $SD/run_demo.sh $WT >$L/clean.log 2>&1; RC_CLEAN=$?
git apply $SD/patch.diff || { echo "PATCH DOES NOT APPLY"; exit 2; }
make -j4 >$L/build.log 2>&1 || { echo "BUILD FAILS"; git checkout -q -- .; exit 2; }
make -C test check >$L/check.log 2>&1; NFAIL=$(grep -c "^FAIL" $L/check.log); NPASS=$(grep -c "^PASS" $L/check.log)
(cd examples && sh pdc2-test1.sh >$L/ex.log 2>&1); RC_EX=$?
bash $SD/run_demo.sh $WT >$L/mut.log 2>&1; RC_MUT=$?
git checkout -q -- . ; make -j4 >/dev/null 2>&1
echo "$SD: demo clean rc=$RC_CLEAN  demo mutated rc=$RC_MUT  make check with patch: PASS=$NPASS FAIL=$NFAIL example rc=$RC_EX"
cp $L/check.log $SD/make_check.txt 2>/dev/null
rm -rf $L
[ $RC_CLEAN -eq 0 ] && [ $RC_MUT -ne 0 ] && [ $NFAIL -eq 0 ] && [ $NPASS -ge 18 ] && [ $RC_EX -eq 0 ] && echo "CONFIRMED $SD" || echo "NOT-CONFIRMED $SD"
