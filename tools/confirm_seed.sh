#!/bin/bash
# usage: confirm_seed.sh <built scratch worktree> <seed dir with patch.diff run_demo.sh>
# checks: demo passes on the clean tree, patch applies, builds, `make check` passes, demo fails with the patch; leaves the worktree clean
WT=$1; SD=$2; cd $WT || exit 2
git checkout -q -- . ; make -j4 >/dev/null 2>&1
bash $SD/run_demo.sh $WT >/tmp/cs_clean.log 2>&1; RC_CLEAN=$?
git apply $SD/patch.diff || { echo "PATCH DOES NOT APPLY"; exit 2; }
make -j4 >/tmp/cs_build.log 2>&1 || { echo "BUILD FAILS"; git checkout -q -- .; exit 2; }
make -C test check >/tmp/cs_check.log 2>&1; NFAIL=$(grep -c "^FAIL" /tmp/cs_check.log); NPASS=$(grep -c "^PASS" /tmp/cs_check.log)
bash $SD/run_demo.sh $WT >/tmp/cs_mut.log 2>&1; RC_MUT=$?
git checkout -q -- . ; make -j4 >/dev/null 2>&1
echo "demo clean rc=$RC_CLEAN  demo mutated rc=$RC_MUT  make check with patch: PASS=$NPASS FAIL=$NFAIL"
[ $RC_CLEAN -eq 0 ] && [ $RC_MUT -ne 0 ] && [ $NFAIL -eq 0 ] && [ $NPASS -ge 18 ] && echo CONFIRMED || echo NOT-CONFIRMED
