#!/usr/bin/env python3
# regenerates /verif/MANIFEST.json from the table below
import json, os
HERE = os.path.dirname(os.path.dirname(os.path.abspath(__file__)))
TECH = "bounded symbolic execution of the real C units with CBMC 6.11 (goto-cc + SAT/SMT), unwinding assertions, reachability witnesses, native ASan/UBSan replay of counterexamples"
NOTE = ("Trusted: cbmc 6.11 front end/symex/back end; harness reference models and environment stubs (listed per obligation in the evidence); "
        "all claims hold only within the bounds recorded in coverage.obligation_details (symbolic buffer sizes, unwind bounds, enumerated grids); "
        "allocation failure out of scope; left shift of negative values treated as GNU-C defined.")
CLAIMED = {
 "C12": ("Every codec pair (VPS, DVB PDC descriptor, 8/30 format 1 and 2) is executed symbolically over its full input space (all 13/5/42-byte buffers, all field values, every single-bit error position) "
         "and compared with independent reference encoders/decoders written from the standards; no enumeration, no sampling; bounded only by the fixed packet sizes.", "5 C12"),
}
NA = {
}
def main():
    props = [json.loads(l)["id"] for l in open(os.path.join(HERE, "properties.jsonl"))]
    checks = []
    for pid in props:
        if pid in CLAIMED:
            text, ref = CLAIMED[pid]
            checks.append({
                "property_id": pid,
                "quick_cmd": "./check %s --tier quick" % pid,
                "thorough_cmd": "./check %s --tier thorough" % pid,
                "evidence_file": "evidence/%s.json" % pid,
                "replay_cmd_template": "./check %s --replay {path}" % pid,
                "engine": "cbmc-runner",
                "level_claimed": {"category": "model_checking", "text": text, "design_ref": "DESIGN.md section " + ref},
                "level_note": NOTE,
                "technique": TECH,
            })
    na = []
    for pid in props:
        if pid not in CLAIMED:
            na.append({"property_id": pid, "reason": NA.get(pid, "no check built yet in this round; see DESIGN.md section 5 for the planned obligations")})
    m = {
        "version": 1,
        "setup_cmd": "python3 tools/selfcheck.py",
        "hooks": {"guard": "ZVBI_VERIF", "enable": "every goto-cc / clang invocation of the checks passes -DZVBI_VERIF; harnesses #include the real .c files, no source hook is needed",
                  "baseline_off_cmd": "make -C /repo -j8 check", "source_commits": [], "add_only": True},
        "engines": [{"name": "cbmc-runner", "path": "check", "serves_properties": sorted(CLAIMED),
                     "kind_free_text": "python runner: goto-cc builds harness+real units from /repo's working tree, cbmc decides, clang ASan/UBSan replays counterexamples"}],
        "checks": checks,
        "notes": "see DESIGN.md; known findings in known_findings.json",
        "not_applicable": na,
    }
    json.dump(m, open(os.path.join(HERE, "MANIFEST.json"), "w"), indent=1)
if __name__ == "__main__":
    main()
