#!/usr/bin/env python3
# regenerates /verif/MANIFEST.json from the table below
import json, os
HERE = os.path.dirname(os.path.dirname(os.path.abspath(__file__)))
TECH = "bounded symbolic execution of the real C units with CBMC 6.11 (goto-cc + SAT/SMT), unwinding assertions, reachability witnesses, native ASan/UBSan replay of counterexamples"
NOTE = ("Trusted: cbmc 6.11 front end/symex/back end; harness reference models and environment stubs (listed per obligation in the evidence); "
        "all claims hold only within the bounds recorded in coverage.obligation_details (symbolic buffer sizes, unwind bounds, enumerated grids); "
        "allocation failure out of scope; left shift of negative values treated as GNU-C defined.")
CLAIMED = {
 "C01": ("Memory safety, assertion freedom, defined arithmetic and loop termination of the Teletext packet decoder, decided per leaf parser and per packet class: every parser "
         "(MOT, POP, X/27, X/28-29, AIT, BTT, MPT, MPT-EX, MIP, DRCS conversion, page links, row parity gate) and the vbi_decode_teletext dispatcher for every packet number are executed "
         "symbolically on an arbitrary 40-byte row with exact-size state objects, so an access one byte outside an object is a refutation. Caption/XDS units are covered under C09, raw decoding under C05, "
         "DVB under C07, proxy under C19; formatting/export/search at full size are outside (see evidence 'outside').", "0.3 / 5 C01"),
 "C02": ("Page links (X/27/0..3) produced by a reference encoder for all page/subcode/magazine values are stored exactly; the row parity gate copies a good row byte-exactly and never lets a bad row replace a "
         "cached one; header field decoding (page number, subcode, national and control bits) equals an independent Hamming decode. Assembly across packets, Level-1 formatting and character sets are "
         "claimed only as far as the listed obligations go.", "0.3 / 5 C02"),
 "C03": ("All Hamming 8/4, 24/18, parity and bit-reversal primitives equal reference codes written from the parity equations for every input, every single error is corrected and every double error rejected; "
         "for each consumer (page link, MOT, POP, X/27, X/28-29, AIT) one symbolic single-bit error anywhere in a clean protected byte/triplet leaves exactly the same decoder state as the clean packet; "
         "an uncorrectable address changes nothing; an uncorrectable header subcode/control byte never lets the page be assembled; a row with a parity error never replaces a good row; X/26 out of sequence stores nothing.", "0.3 / 5 C03"),
 "C09": ("One inductive step of the XDS demultiplexer from an arbitrary state satisfying a stated invariant, for every byte pair (first byte case-split over every dispatch class, second byte symbolic), is shown to be "
         "exactly the EIA-608 reassembly step (start/continue/content/terminator/parity error/caption interruption), to deliver iff the checksum is good with the packet's class, type, length <= 32 and bytes, and to "
         "touch no other packet; the invariant holds initially. Same step for the service decoder's own separator and memory safety of its XDS decoder for every type/length (thorough tier).", "0.3 / 5 C09"),
 "C11": ("Inductive decomposition around a stated list invariant (NULL-terminated list of malloc'ed records with pairwise different (handler, user_data), masks != 0, event_mask == OR of masks, cursor NULL, mutex free): "
         "one symbolic register/unregister/add/remove call from every such list (outside delivery and, with the cursor lemma, inside a callback) yields exactly the documented list; one vbi_send_event of any type with 1-2 "
         "nested calls from callbacks satisfies the full delivery contract against a shadow list of registration instances (exactly once, own user pointer, registration order, added-during-delivery at most once, "
         "never after removal, no freed record touched, event_mask == OR after every call, Teletext reset exactly when the TTX_PAGE bit appears). Lists up to 3-5 records.", "0.3 / 5 C11"),
 "C12": ("Every codec pair (VPS, DVB PDC descriptor, 8/30 format 1 and 2) is executed symbolically over its full input space (all 13/5/42-byte buffers, all field values, every single-bit error position) "
         "and compared with independent reference encoders/decoders written from the standards; no enumeration, no sampling; bounded only by the fixed packet sizes.", "5 C12"),
 "C14": ("vbi_pil_lto_to_time, vbi_pil_to_time (tz NULL/UTC/named), vbi_pty_validity_window, vbi_pil_lto_validity_window and vbi_pil_validity_window are executed on all 2^20 PILs, every second of local years "
         "1971..2105 (thorough 1971..2420, plus the 1969/70 edge), offsets up to +-16 h, ambient TZ set/unset, with a relational proleptic-Gregorian calendar model (itself proved monotone/injective by lemma "
         "obligations and cross-checked natively against glibc) and an abstract TZ cell: result has the PIL's fields in the nearest year, Feb 29 only in leap years, -1 exactly for invalid PILs/environment failures, "
         "window lengths per EN 300 231, and after every call on every exit the TZ cell and libc's active zone are what they were.", "0.3 / 5 C14"),
 "C13": ("Every reception history of bounded length (4-7 receptions drawn from two arbitrary symbolic values, symbolic pattern) per carrier (VPS, 8/30 format 1, WSS 625) is executed through the real decoder "
         "functions and compared with a history-based reference of the debounce rule (announce at the second consecutive identical reception / after three WSS repeats with good parity, only on change), "
         "event payloads against independent field extraction, NETWORK event and cache drop exactly on station change.", "0.3 / 5 C13"),
}
NA = {
 "C20": "quantifier is thread schedules: goto-instrument --race-check crashes on struct-member shared state and cbmc's thread support aborts ('pointer handling for concurrency is unsound') on the real functions; "
        "no other engine is installed; lock discipline is checked sequentially inside other properties' harnesses (DESIGN section 5 C20)",
}
READY = ["C11", "C12", "C14"]   # properties whose quick check is known to pass on the unchanged tree

def main():
    props = [json.loads(l)["id"] for l in open(os.path.join(HERE, "properties.jsonl"))]
    checks = []
    for pid in props:
        if pid in CLAIMED and pid in READY:
            text, ref = CLAIMED[pid]
            checks.append({
                "property_id": pid,
                "quick_cmd": "./check %s --tier quick" % pid,
                "thorough_cmd": "./check %s --tier thorough" % pid,
                "evidence_file": "evidence/%s.json" % pid,
                "replay_cmd_template": "./check %s --replay {path}" % pid,
                "engine": "cbmc-runner",
                "level_claimed": {"category": "model_checking", "text": text, "design_ref": "DESIGN.md section " + ref},
                "level_note": NOTE,
                "technique": TECH,
            })
    na = []
    for pid in props:
        if not (pid in CLAIMED and pid in READY):
            na.append({"property_id": pid, "reason": NA.get(pid, "no check built yet in this round; see DESIGN.md section 5 for the planned obligations")})
    m = {
        "version": 1,
        "setup_cmd": "python3 tools/selfcheck.py",
        "hooks": {"guard": "ZVBI_VERIF", "enable": "every goto-cc / clang invocation of the checks passes -DZVBI_VERIF; harnesses #include the real .c files, no source hook is needed",
                  "baseline_off_cmd": "make -C /repo -j8 check", "source_commits": [], "add_only": True},
        "engines": [{"name": "cbmc-runner", "path": "check", "serves_properties": sorted(set(CLAIMED) & set(READY)),
                     "kind_free_text": "python runner: goto-cc builds harness+real units from /repo's working tree, cbmc decides, clang ASan/UBSan replays counterexamples"}],
        "checks": checks,
        "notes": "see DESIGN.md; known findings in known_findings.json",
        "not_applicable": na,
    }
    json.dump(m, open(os.path.join(HERE, "MANIFEST.json"), "w"), indent=1)
if __name__ == "__main__":
    main()
