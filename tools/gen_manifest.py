#!/usr/bin/env python3
# regenerates /verif/MANIFEST.json from the table below
import json, os
HERE = os.path.dirname(os.path.dirname(os.path.abspath(__file__)))
TECH = "bounded symbolic execution of the real C units with CBMC 6.11 (goto-cc + SAT/SMT), unwinding assertions, reachability witnesses, native ASan/UBSan replay of counterexamples"
NOTE = ("Trusted: cbmc 6.11 front end/symex/back end; harness reference models and environment stubs (listed per obligation in the evidence); "
        "all claims hold only within the bounds recorded in coverage.obligation_details (symbolic buffer sizes, unwind bounds, enumerated grids); "
        "allocation failure out of scope; left shift of negative values treated as GNU-C defined.")
CLAIMED = {
 "C01": ("Memory safety, assertion freedom, defined arithmetic and loop termination, decided unit by unit on arbitrary input with exact-size state objects and frame assertions "
         "(an access one byte outside an object or a member is a refutation): the Teletext packet decoder per leaf parser (MOT with exact result, POP, X/27, AIT, MPT, MPT-EX, page links, row parity gate; "
         "BTT, MIP, DRCS, X/28-29 in the thorough tier) and the vbi_decode_teletext dispatcher per packet class and page header; Closed Caption (roll-up window, last column, one step per command class from an "
         "arbitrary channel state), XDS demultiplexer / separator / decoder steps at the buffer limit and terminator, caption rendering and text/export write layer on exact-size canvases and buffers "
         "(selected C08/C09/C16 obligations). trigger.c, object enhancement in vbi_fetch_vt_page, image exporters, search and whole-decoder composition are outside (see evidence 'outside' and DESIGN 0.3).", "0.3 C01"),
 "C02": ("Page links (X/27/0..3) produced by a reference encoder for all page/subcode/magazine values are stored exactly; the row parity gate copies a good row byte-exactly and never lets a bad row replace a "
         "cached one; header field decoding (page number, subcode, national and control bits) equals an independent Hamming decode; Level-1 formatting of symbolic rows against a transcription of EN 300 706 12.2 "
         "Table 26 incl. start-of-row defaults; character set designation; sub-page keying and wildcard fetch on the real cache (SEQ-3); multi-packet ASSEMBLY through the real vbi_decode_teletext (page in progress + "
         "header + next header of its own magazine on a grid of magazines, page numbers, serial/parallel mode, erase flag, cache hit/miss; rows, sub-code and header text symbolic): stored exactly once with its number, "
         "sub-code and rows, exactly one page event, never later than its own magazine's next header. Symbolic control bits inside assembly runs, pages other than LOPs in assembly and the channel-switch heuristic are outside.", "0.3 C02"),
 "C03": ("All Hamming 8/4, 24/18, parity and bit-reversal primitives equal reference codes written from the parity equations for every input, every single error is corrected and every double error rejected; "
         "for each consumer (page link, MOT, POP, X/27, AIT) one symbolic single-bit error anywhere in a clean protected byte/triplet leaves exactly the same decoder state as the clean packet; "
         "an uncorrectable header subcode/control byte never lets the page be assembled; a row with a parity error never replaces a good row (plain and with X/26 overrides); through the dispatcher with pages in progress "
         "in two magazines an uncorrectable page number is rejected, stores nothing and abandons all pages in progress, and no X/26 triplet behind an uncorrectable one is stored. Thorough tier: uncorrectable address "
         "changes nothing, X/26 out of sequence stores nothing.", "0.3 C03"),
 "C09": ("One inductive step of the XDS demultiplexer (xds_demux.c) and of the service decoder's own separator (caption.c, real struct caption) from an arbitrary state satisfying a stated invariant, "
         "for every byte pair class (first byte case-split over every switch arm and its boundaries, second byte symbolic; every accepted type and every rejected/parity-damaged second byte of a header), is shown to be "
         "exactly the EIA-608 reassembly step (start/continue/content/terminator/parity error/caption interruption), to deliver iff the checksum is good and >= 1 byte with the packet's class, type, length <= 32 and bytes, "
         "and to touch none of the other packet slots; the invariant holds initially; sequences of any length follow by induction (argument). xds_decoder for class x type x length: memory safety, frame on the decoder head "
         "(a packet changes only the record of its own class), exact title/description/network name/call letters/PIN/length/CGMS/type/tape delay, event discipline.", "0.3 C09"),
 "C11": ("Inductive decomposition around a stated list invariant (NULL-terminated list of malloc'ed records with pairwise different (handler, user_data), masks != 0, event_mask == OR of masks, cursor NULL, mutex free): "
         "one symbolic register/unregister/add/remove call from every such list (outside delivery and, with the cursor lemma, inside a callback) yields exactly the documented list; one vbi_send_event of any type with 1-2 "
         "nested calls from callbacks satisfies the full delivery contract against a shadow list of registration instances (exactly once, own user pointer, registration order, added-during-delivery at most once, "
         "never after removal, no freed record touched, event_mask == OR after every call, Teletext reset exactly when the TTX_PAGE bit appears). Lists up to 3-5 records.", "0.3 / 5 C11"),
 "C12": ("Every codec pair (VPS, DVB PDC descriptor, 8/30 format 1 and 2) is executed symbolically over its full input space (all 13/5/42-byte buffers, all field values, every single-bit error position) "
         "and compared with independent reference encoders/decoders written from the standards; no enumeration, no sampling; bounded only by the fixed packet sizes.", "5 C12"),
 "C14": ("vbi_pil_lto_to_time, vbi_pil_to_time (tz NULL/UTC/named), vbi_pty_validity_window, vbi_pil_lto_validity_window and vbi_pil_validity_window are executed on all 2^20 PILs, every second of local years "
         "1971..2105 (thorough 1971..2420, plus the 1969/70 edge), offsets up to +-16 h, ambient TZ set/unset, with a relational proleptic-Gregorian calendar model (itself proved monotone/injective by lemma "
         "obligations and cross-checked natively against glibc) and an abstract TZ cell: result has the PIL's fields in the nearest year, Feb 29 only in leap years, -1 exactly for invalid PILs/environment failures, "
         "window lengths per EN 300 231, and after every call on every exit the TZ cell and libc's active zone are what they were.", "0.3 / 5 C14"),
 "C13": ("Every reception history of bounded length (4-7 receptions drawn from two arbitrary symbolic values, symbolic pattern) per carrier (VPS, 8/30 format 1, WSS 625) is executed through the real decoder "
         "functions and compared with a history-based reference of the debounce rule (announce at the second consecutive identical reception / after three WSS repeats with good parity, only on change), "
         "event payloads against independent field extraction, NETWORK event and cache drop exactly on station change.", "0.3 / 5 C13"),

 "C04": ("For each configuration on the runner's grid (service x sampling rate x pixel format x offset; tables derived at check time from the REAL reference transmitter vbi_raw_vbi_image and "
         "validated natively on 260 payloads) the nominal waveform with ALL payload bits symbolic is decoded by the real vbi3_raw_decoder / bit slicer to exactly one record with the transmitted "
         "service id, line and payload, the blank row gives none, nothing is written behind the records; line assignment (lines_containing_data, add_job_to_pattern, remove_job_from_pattern) "
         "as inductive steps over arbitrary sampling parameters / pattern tables. Rates and offsets are a grid (stated), payloads are decided by the solver.", "5 C04"),
 "C05": ("The real new and legacy bit slicers run on one line of ARBITRARY content held in an exact-size object for every template instantiation on a grid of (rate, offset, length) points: every access "
         "inside the line and the payload buffer; an arithmetic lemma over symbolic sampling rate / samples per line / offset for every row of the real service table ties the search window to the line "
         "at broadcast parameters; vbi3_raw_decoder_decode never writes beyond max_lines records for arbitrary pattern tables; _vbi_sampling_par_valid_log accepts only parameters under which the image holds all lines.", "5 C05"),
 "C06": ("vbi_dvb_multiplex_sliced / vbi_dvb_mux_feed / _cor on frames of fully symbolic lines: an independent EN 300 472 / EN 301 775 / ISO 13818-1 parser written in the harness accepts the output and finds exactly the "
         "accepted input lines in order (PES size multiple of 184 within bounds, header, PTS layout, data units never crossing a packet, stuffing, TS sync/PID/continuity), the REAL demultiplexer returns the same lines, "
         "a rejected frame leaves output and multiplexer state unchanged, coroutine == callback interface, constructor and configuration contracts. Frame structure on a grid, contents symbolic.", "5 C06"),
 "C07": ("wrap_around as a refinement step from every state satisfying its invariant (contents, counters symbolic); two-packet PES/TS streams with symbolic PTS and data units fed whole vs cut at a grid of positions give identical "
         "callback sequences; coroutine == callback; fully symbolic garbage of stated lengths and one fully symbolic data unit from any frame state are memory safe and terminate; recovery: after each of 9 damage kinds the frames of the following intact packets are delivered exactly.", "5 C07"),
 "C08": ("INV-STEP: one byte pair of every command class from an ARBITRARY channel state (all cells, cursor, mode, pen symbolic) is compared cell by cell with a reference EIA-608 / 47 CFR 15.119 step written in the harness; "
         "SEQ skeletons from the reset state (pop-on, roll-up 2-4, paint-on, text, channels CC1-4/T1-4, field 1 doubling) with symbolic characters against the same reference at every point where content becomes visible, caption event "
         "whenever the visible page changed; vbi_fetch_cc_page contract; field-2 routing; ITV separator step.", "5 C08"),
 "C10": ("The real cache.c with an audit (every page on exactly the lists its state requires, counters and memory accounting exact, statistics cover the stored subpages) as invariant: INIT from vbi_cache_new, inductive steps for lookup, "
         "reference, release (incl. zombies and network recycling) from arbitrary audited states of up to 3 pages, and SEQ-2/3 histories of puts and lookups from the empty cache against a reference map (most recent version, wildcard and masked lookups, subpage range).", "5 C10"),
 "C15": ("IDL format A and PFC demultiplexers against reference SENDERS written from EN 300 708 (CRC by bit-serial reference for all register/byte values, dummy bytes, RI/CI/DL options, block pointers, fillers, structure headers): "
         "symbolic user data, addresses and options on a grid of shapes; delivered bytes equal sent bytes, nothing for other addresses, corrupted packets never delivered, continuity gaps flagged (IDL) / damaged block only discarded (PFC); PFC step invariant from every state.", "5 C15"),
 "C16": ("Write layer: an arbitrary exporter (symbolic writes) through vbi_export_mem with every buffer size 0..needed+1 (exact-size object), vbi_export_alloc, stdio and file targets: same bytes, size reported, nothing past the buffer; "
         "vbi_print_page_region on symbolic cells: bytes written <= size, exact table-mode content; vbi_draw_vt_page_region / vbi_draw_cc_page_region on exact-size canvases with symbolic stride, position and cells: nothing outside the rectangle, unsupported formats draw nothing. "
         "PNG/XPM/PPM whole-page identity and real iconv are outside.", "5 C16"),
 "C17": ("PARTLY: the walk/stop/termination logic of vbi_search_next / search_page_fwd / search_page_rev with an abstract matcher over a symbolic universe of pages (start page, direction per call, cache membership per call symbolic) against an order oracle, "
         "and literal pattern escaping. The regular expression engine (ure.c), haystack construction and highlighting are outside (no verdict / not encodable - see DESIGN).", "5 C17"),
 "C18": ("Step contracts over an explicit queue invariant (every queued frame referenced exactly by the clients whose cursor is at or before it, cursors inside the queue, no buffer both queued and free, "
         "no cursor on a closed device) from symbolic invariant states of up to 3 clients / 3 buffers: capture (vbi_proxyd_forward_data incl. queue overflow: frame appended once with exact reference count, lines, time stamp; "
         "only the oldest frame dropped), delivery (send_sliced + release_sliced: the message is exactly the frame at that client's cursor, filtered to its granted services, in line order, byte for byte, with the capture time stamp), "
         "service requests (device asked for the union of requests, grants are subsets, device open iff something granted); plus SEQ runs of up to 8 daemon events on a grid of schedules (capture, writable, disconnect, "
         "SERVICE_REQ, revocation, shutdown) through the real handlers and the REAL vbi_proxyd_main_loop with a scripted select(), frame payloads symbolic, against a shadow model: every frame captured while subscribed exactly once, "
         "in order, filtered; a stalled client costs the others nothing. Raw services, the acquisition thread, partial writes and more than 3 clients are outside.", "0.3 C18"),
 "C19": ("Message framing for arbitrary client byte streams in arbitrary chunks; one step of the daemon's event loop from every connection I/O state; check_msg + take_message on a fully symbolic message in every connection state from an arbitrary daemon state satisfying a stated invariant "
         "(all safety checks and assert()s of the real proxyd.c / proxy-msg.c, rejected message changes nothing else); token exclusivity as inductive step over 3 clients for every token message and the scheduler timer; disconnect from every state releases queue references and the token.", "5 C19"),
}
NA = {
 "C20": "quantifier is thread schedules: goto-instrument --race-check crashes on struct-member shared state and cbmc's thread support aborts ('pointer handling for concurrency is unsound') on the real functions; "
        "no other engine is installed; lock discipline is checked sequentially inside other properties' harnesses (DESIGN section 5 C20)",
}
READY = ["C01", "C02", "C03", "C04", "C05", "C06", "C07", "C08", "C09", "C10", "C11", "C12", "C13", "C14", "C15", "C16", "C17", "C18", "C19"]   # properties whose quick check is known to pass on the unchanged tree

def main():
    props = [json.loads(l)["id"] for l in open(os.path.join(HERE, "properties.jsonl"))]
    checks = []
    for pid in props:
        if pid in CLAIMED and pid in READY:
            text, ref = CLAIMED[pid]
            checks.append({
                "property_id": pid,
                "quick_cmd": "./check %s --tier quick" % pid,
                "thorough_cmd": "./check %s --tier thorough" % pid,
                "evidence_file": "evidence/%s.json" % pid,
                "replay_cmd_template": "./check %s --replay {path}" % pid,
                "engine": "cbmc-runner",
                "level_claimed": {"category": "model_checking", "text": text, "design_ref": "DESIGN.md section " + ref},
                "level_note": NOTE,
                "technique": TECH,
            })
    na = []
    for pid in props:
        if not (pid in CLAIMED and pid in READY):
            na.append({"property_id": pid, "reason": NA.get(pid, "check exists in /verif but its quick tier is not yet decisive inside the budget on the unchanged tree (being repaired; see DESIGN.md section 0.3)")})
    m = {
        "version": 1,
        "setup_cmd": "python3 tools/selfcheck.py",
        "hooks": {"guard": "ZVBI_VERIF", "enable": "every goto-cc / clang invocation of the checks passes -DZVBI_VERIF; harnesses #include the real .c files, no source hook is needed",
                  "baseline_off_cmd": "make -C /repo -j8 check", "source_commits": [], "add_only": True},
        "engines": [{"name": "cbmc-runner", "path": "check", "serves_properties": sorted(set(CLAIMED) & set(READY)),
                     "kind_free_text": "python runner: goto-cc builds harness+real units from /repo's working tree, cbmc decides, clang ASan/UBSan replays counterexamples"}],
        "checks": checks,
        "notes": "see DESIGN.md; known findings in known_findings.json",
        "not_applicable": na,
    }
    json.dump(m, open(os.path.join(HERE, "MANIFEST.json"), "w"), indent=1)
if __name__ == "__main__":
    main()
