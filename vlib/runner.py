# Runner for the zvbi solver-based checks.  python3 stdlib only.
#
# obligation = harness function + real units + models + bounds.
# For every (obligation, grid point):
#   goto-cc  (harness #includes the current /repo source)  ->  cbmc (all properties)
#   verdict  = every property SUCCESS and every WITNESS:* assertion FAILURE
#   failure  -> rerun with --trace, extract VINS bytes, native sanitizer replay
import os, sys, json, time, hashlib, shutil, subprocess, tempfile, threading, re, random
from concurrent.futures import ThreadPoolExecutor

VERIF = os.path.dirname(os.path.dirname(os.path.abspath(__file__)))
REPO = os.environ.get("VERIF_REPO", "/repo")
GUARD = "ZVBI_VERIF"

CFLAGS = ["-DHAVE_CONFIG_H", "-D_GNU_SOURCE", "-D_REENTRANT", "-D" + GUARD,
          "-I" + VERIF + "/include", "-I" + VERIF + "/models", "-I" + VERIF + "/harness",
          "-I" + REPO, "-I" + REPO + "/src"]

CBMC_BASE = ["--unwinding-assertions", "--pointer-overflow-check", "--undefined-shift-check",
             "--signed-overflow-check", "--drop-unused-functions", "--no-malloc-may-fail"]
# NOTE: no --json-ui: with it cbmc 6.11 prints a full trace for EVERY failed property (the reachability witnesses always
# fail) - hundreds of MB per run.  Plain text results are parsed instead; a trace is requested only for refuted properties.

NATIVE_CC = ["clang", "-O1", "-g", "-fsanitize=address,undefined", "-fno-sanitize-recover=all", "-fno-sanitize=shift-base",
             "-fno-omit-frame-pointer", "-DVERIF_NATIVE", "-w",
             "-Werror=implicit-function-declaration", "-Werror=int-conversion", "-Werror=return-type"]


class Ob(object):
    """One obligation (possibly a grid of instances)."""
    def __init__(self, name, harness, func, desc, encodes, unwind=2, unwindset=None,
                 units=(), models=(), defines=None, grid=None, flags=(), noflags=(),
                 nafs=False, tier="quick", timeout=300, mem_gb=4, solver=None,
                 stubs=(), assumes=(), bounds="", outside="", reach=("end",),
                 object_bits=12, patch=None, native=True, vin_size=256, ignore=(),
                 native_units=None, quick_grid=None, remove_bodies=()):
        self.name = name; self.harness = harness; self.func = func; self.desc = desc
        self.encodes = list(encodes); self.unwind = unwind; self.unwindset = dict(unwindset or {})
        self.units = list(units); self.models = list(models); self.defines = dict(defines or {})
        self.grid = list(grid) if grid else [dict()]
        self.quick_grid = list(quick_grid) if quick_grid is not None else None
        self.flags = list(flags); self.noflags = list(noflags); self.nafs = nafs
        self.tier = tier; self.timeout = timeout; self.mem_gb = mem_gb; self.solver = solver
        self.stubs = list(stubs); self.assumes = list(assumes); self.bounds = bounds
        self.outside = outside; self.reach = list(reach); self.object_bits = object_bits
        self.patch = dict(patch or {}); self.native = native; self.vin_size = vin_size
        # left shift of a negative value: defined by GNU C (gcc manual, "Integers implementation"), pervasive
        # idiom in zvbi (-1 << 4 error propagation); recorded as ub_note, shift *distance* checks stay on
        self.ignore = list(ignore) + [r"shift operand is negative", r"arithmetic overflow on signed shl"]   # regexes on "file:function:description" recorded as ub_notes
        self.native_units = native_units
        self.remove_bodies = list(remove_bodies)


def sha1_file(p):
    try:
        return hashlib.sha1(open(p, "rb").read()).hexdigest()
    except Exception:
        return None


def run_cmd(cmd, timeout, cwd=None, mem_gb=None, env=None):
    """returns (rc, stdout, stderr, wall, maxrss_kb, timed_out)"""
    tf = tempfile.NamedTemporaryFile(prefix="tm", delete=False, dir=cwd)
    tf.close()
    pre = ["/usr/bin/time", "-f", "%e %M", "-o", tf.name]
    if mem_gb:
        pre = ["prlimit", "--as=%d" % int(mem_gb * (1 << 30))] + pre
    t0 = time.time()
    p = subprocess.Popen(pre + cmd, cwd=cwd, stdout=subprocess.PIPE, stderr=subprocess.PIPE,
                         env=env, start_new_session=True)
    to = False
    try:
        out, err = p.communicate(timeout=timeout)
    except subprocess.TimeoutExpired:
        to = True
        try:
            os.killpg(p.pid, 9)
        except Exception:
            pass
        out, err = p.communicate()
    wall = time.time() - t0
    rss = 0
    try:
        s = open(tf.name).read().split()
        rss = int(s[-1])
    except Exception:
        pass
    try:
        os.unlink(tf.name)
    except Exception:
        pass
    return p.returncode, out.decode("utf-8", "replace"), err.decode("utf-8", "replace"), wall, rss, to


class MemGate(object):
    def __init__(self, total_gb):
        self.total = total_gb; self.used = 0; self.cv = threading.Condition()

    def acquire(self, gb):
        gb = min(gb, self.total)
        with self.cv:
            while self.used + gb > self.total:
                self.cv.wait()
            self.used += gb
        return gb

    def release(self, gb):
        with self.cv:
            self.used -= gb
            self.cv.notify_all()


RES_RX = re.compile(r"^\[([^\]]+)\] (?:line (\d+) )?(.*): (SUCCESS|FAILURE|UNKNOWN|ERROR)$")
HDR_RX = re.compile(r"^(\S+) function (\S+)$")


def parse_text_results(out, res):
    """plain-text cbmc output -> list of property dicts (same keys as the json-ui result objects)"""
    props = []; errors = []; cur_file = ""; cur_fn = ""; seen_results = False; verdict = False
    for line in out.splitlines():
        if line.startswith("** Results:"):
            seen_results = True; continue
        m = RES_RX.match(line)
        if m and seen_results:
            props.append({"property": m.group(1), "description": m.group(3), "status": m.group(4),
                          "sourceLocation": {"file": cur_file, "function": cur_fn, "line": m.group(2)}})
            continue
        m = HDR_RX.match(line)
        if m and seen_results:
            cur_file, cur_fn = m.group(1), m.group(2); continue
        if line.startswith("VERIFICATION "):
            verdict = True
        mm = re.search(r"size of program expression: (\d+) steps", line)
        if mm: res["program_steps"] = int(mm.group(1))
        mm = re.search(r"Generated (\d+) VCC\(s\), (\d+) remaining", line)
        if mm: res["vccs"] = int(mm.group(1)); res["vccs_remaining"] = int(mm.group(2))
        mm = re.search(r"Runtime Solver: ([0-9.e+-]+)s", line)
        if mm: res["solver_s"] = res.get("solver_s", 0.0) + float(mm.group(1))
        mm = re.search(r"Runtime Symex: ([0-9.e+-]+)s", line)
        if mm: res["symex_s"] = round(float(mm.group(1)), 1)
        mm = re.search(r"Runtime Convert SSA: ([0-9.e+-]+)s", line)
        if mm: res["convert_s"] = round(float(mm.group(1)), 1)
        mm = re.search(r"^(\d+) variables, (\d+) clauses", line)
        if mm: res["sat_vars"] = int(mm.group(1)); res["sat_clauses"] = int(mm.group(2))
        if "rror" in line or "Out of memory" in line or "out of memory" in line:
            errors.append(line.strip()[:200])
    if not verdict or not props:
        return None, errors
    return props, errors


def vin_from_text(txt):
    """last whole-array assignment to VINS in a plain-text trace -> bytes"""
    val = None
    for line in txt.splitlines():
        m = re.match(r"^\s*VINS(?:=\{ \.b|\.b)=\{ ([^}]*) \}", line)
        if m:
            val = m.group(1)
    if val is None:
        return None
    try:
        return bytes(int(x) & 255 for x in val.replace(" ", "").split(",") if x != "")
    except Exception:
        return None


def vin_from_trace(trace):
    """last assignment to VINS in the trace -> bytes"""
    val = None
    for s in trace:
        if s.get("stepType") == "assignment" and s.get("lhs") == "VINS":
            val = s.get("value")
    if not val:
        return None
    try:
        els = val["members"][0]["value"]["elements"]
        b = bytearray(len(els))
        for e in els:
            v = e["value"]
            if "binary" in v:
                b[e["index"]] = int(v["binary"], 2)
            else:
                b[e["index"]] = int(re.sub(r"[^0-9-]", "", v["data"])) & 255
        return bytes(b)
    except Exception:
        return None


class Runner(object):
    def __init__(self, prop, tier, seed, jobs=None, keep=False, only=None, verbose=True):
        self.prop = prop; self.tier = tier; self.seed = seed
        self.jobs = jobs or int(os.environ.get("VERIF_JOBS", "0")) or max(2, (os.cpu_count() or 4) - 1)
        self.keep = keep; self.only = only; self.verbose = verbose
        base = os.environ.get("TMPDIR", "/tmp")
        self.work = tempfile.mkdtemp(prefix="zvbi-verif-%s-" % prop, dir=base)
        self.gate = MemGate(float(os.environ.get("VERIF_MEM_GB", "48")))
        self.lock = threading.Lock()
        self.queries = 0
        self.solver_s = 0.0
        self.known = self.load_known()

    def load_known(self):
        p = os.path.join(VERIF, "known_findings.json")
        try:
            return json.load(open(p)).get("findings", [])
        except Exception:
            return []

    def log(self, *a):
        if self.verbose:
            with self.lock:
                print(*a, flush=True)

    def cleanup(self):
        if not self.keep:
            shutil.rmtree(self.work, ignore_errors=True)

    # ---- build helpers -------------------------------------------------
    def patched_include_dir(self, ob, d):
        """scratch copies of repo units with textual patches (e.g. search.c prototype)"""
        if not ob.patch:
            return []
        pdir = os.path.join(d, "patched")
        os.makedirs(os.path.join(pdir, "src"), exist_ok=True)
        os.makedirs(os.path.join(pdir, "daemon"), exist_ok=True)
        for rel, subs in ob.patch.items():
            txt = open(os.path.join(REPO, rel), encoding="latin-1").read()
            if callable(subs):          # e.g. extract a subset of functions from the CURRENT source (regenerated on every run)
                txt = subs(txt)
            else:
                for pat, rep in subs:
                    txt, n = re.subn(pat, rep, txt)
            with open(os.path.join(pdir, rel), "w", encoding="latin-1") as f:
                f.write(txt)
        return ["-I" + pdir, "-I" + os.path.join(pdir, "src")]

    def src_list(self, ob, d):
        srcs = [os.path.join(VERIF, "harness", ob.harness)]
        for u in ob.units:
            if u in ob.patch:
                srcs.append(os.path.join(d, "patched", u))
            else:
                srcs.append(os.path.join(REPO, u))
        for m in ob.models:
            srcs.append(os.path.join(VERIF, "models", m))
        return srcs

    def defs(self, ob, gp):
        dd = dict(ob.defines); dd.update(gp)
        dd.setdefault("VIN_SIZE", ob.vin_size)
        return ["-D%s=%s" % (k, v) if v is not None else "-D%s" % k for k, v in sorted(dd.items())]

    # ---- one instance --------------------------------------------------
    def run_instance(self, ob, gi, gp):
        name = ob.name + ("" if len(ob.grid) == 1 and not gp else "[" + ",".join("%s=%s" % kv for kv in sorted(gp.items())) + "]")
        d = os.path.join(self.work, re.sub(r"[^A-Za-z0-9_.-]", "_", name))
        os.makedirs(d, exist_ok=True)
        res = {"obligation": name, "function": ob.func, "harness": "harness/" + ob.harness,
               "grid_point": gp, "status": "inconclusive", "detail": "", "unwind": ob.unwind,
               "unwindset": ob.unwindset, "encodes": ob.encodes, "desc": ob.desc}
        mem = self.gate.acquire(ob.mem_gb)
        try:
            self._run_instance(ob, gp, d, name, res)
        except Exception as e:  # tool error = inconclusive, never a pass
            res["status"] = "inconclusive"; res["detail"] = "runner exception: %r" % (e,)
        finally:
            self.gate.release(mem)
        self.log("  [%s] %-60s %s %s" % (self.prop, name, res["status"].upper(),
                                        ("%.1fs %dMB" % (res.get("cbmc_wall_s", 0), res.get("cbmc_rss_mb", 0)))
                                        + (" (symex %.0fs conv %.0fs sat %.0fs)" % (res.get("symex_s", 0), res.get("convert_s", 0), res.get("solver_s", 0)) if res.get("symex_s") else "")
                                        + ((" :: " + res["detail"][:160]) if res["status"] != "discharged" else "")))
        return res

    def _run_instance(self, ob, gp, d, name, res):
        inc = self.patched_include_dir(ob, d)
        gb = os.path.join(d, "h.gb")
        cmd = ["goto-cc", "-DVERIF_CBMC", "-o", gb] + inc + CFLAGS + self.defs(ob, gp) + self.src_list(ob, d)
        rc, out, err, wall, rss, to = run_cmd(cmd, 300, cwd=d)
        if rc != 0:
            res["detail"] = "goto-cc failed: " + (err or out)[-400:]
            return
        for fn in ob.remove_bodies:
            rc, out, err, w2, r2, to = run_cmd(["goto-instrument", "--remove-function-body", fn, gb, gb], 120, cwd=d)
            if rc != 0:
                res["detail"] = "goto-instrument failed: " + (err or out)[-300:]
                return
        flags = [f for f in CBMC_BASE if f not in ob.noflags] + ["--object-bits", str(ob.object_bits)]
        flags += ["--unwind", str(ob.unwind)]
        if ob.unwindset:
            flags += ["--unwindset", ",".join("%s:%d" % kv for kv in sorted(ob.unwindset.items()))]
        if ob.nafs:
            flags += ["--no-array-field-sensitivity"]
        env = dict(os.environ)
        if ob.solver == "cadical":
            flags += ["--sat-solver", "cadical"]
        elif ob.solver == "kissat":
            flags += ["--external-sat-solver", "kissat"]
        elif ob.solver == "z3":
            flags += ["--z3"]
        elif ob.solver == "cvc5":
            flags += ["--cvc5", "--slice-formula"]
            env["PATH"] = os.path.join(VERIF, "vlib", "shim") + ":" + env.get("PATH", "")
        flags += ob.flags
        cmd = ["cbmc", gb, "--function", ob.func] + flags
        res["cbmc_cmd"] = " ".join(["cbmc", "h.gb", "--function", ob.func] + flags)
        rc, out, err, wall, rss, to = run_cmd(cmd, ob.timeout, cwd=d, mem_gb=ob.mem_gb * 1.5 + 2, env=env)
        with self.lock:
            self.queries += 1; self.solver_s += wall
        res["cbmc_wall_s"] = round(wall, 2); res["cbmc_rss_mb"] = rss // 1024
        if to:
            res["detail"] = "timeout after %ds (cap)" % ob.timeout
            return
        props, errors = parse_text_results(out, res)
        if props is None:
            res["detail"] = "cbmc gave no result rc=%s: %s" % (rc, ("; ".join(errors)[-400:] or (out[-300:] + err[-300:])))
            return
        n_ok = 0; fails = []; wit_ok = []; wit_missing = []; notes = []; unknown = []
        seen_wit = {}
        for p in props:
            dsc = p.get("description", "")
            if dsc.startswith("WITNESS:"):
                seen_wit[dsc[8:]] = p["status"]
                continue
            if p["status"] == "SUCCESS":
                n_ok += 1
            elif p["status"] == "UNKNOWN":
                # cbmc 6 reports properties behind a failed *fatal* check (e.g. the ignored negative-shift check) as UNKNOWN
                unknown.append(p["property"])
            else:
                sl = p.get("sourceLocation", {})
                key = "%s:%s:%s" % (os.path.basename(sl.get("file", "")), sl.get("function", ""), dsc)
                if any(re.search(rx, key) for rx in ob.ignore):
                    notes.append(key)
                else:
                    fails.append(p)
        for w in ob.reach:
            if seen_wit.get(w) == "FAILURE":
                wit_ok.append(w)
            else:
                wit_missing.append(w)
        res["properties_total"] = len(props) - len(seen_wit)
        res["properties_success"] = n_ok
        res["witness"] = {"reached": wit_ok, "missing": wit_missing}
        if notes:
            res["ub_notes"] = notes[:20]
        if fails:
            self.handle_failure(ob, gp, d, name, res, fails, cmd, env)
            return
        if unknown:
            res["status"] = "inconclusive"
            res["detail"] = "%d properties UNKNOWN (behind a failed fatal check that the runner ignores, e.g. %s): add --no-undefined-shift-check to the obligation" % (
                len(unknown), (notes or ["?"])[0][:80])
            return
        if wit_missing:
            res["status"] = "inconclusive"
            res["detail"] = "VACUOUS: witness assertion(s) not reachable: %s" % wit_missing
            return
        res["status"] = "discharged"

    # ---- failure: trace, replay ---------------------------------------
    def handle_failure(self, ob, gp, d, name, res, fails, cmd, env):
        res["failed_properties"] = []
        for p in fails[:12]:
            sl = p.get("sourceLocation", {})
            res["failed_properties"].append({"property": p["property"], "description": p.get("description"),
                                             "file": sl.get("file"), "line": sl.get("line"), "function": sl.get("function")})
        # unwinding assertion failures: a bound problem unless the native replay hangs/crashes
        unw = [p for p in fails if "unwinding assertion" in p.get("description", "")]
        real = [p for p in fails if "unwinding assertion" not in p.get("description", "")]
        real.sort(key=lambda p: 0 if p.get("description", "").startswith("VP:") else 1)
        real = real[:4] + unw[:1]
        if not ob.native:
            res["status"] = "unconfirmed"
            res["detail"] = "cbmc refuted %s (%s) but harness has no native replay" % (real[0]["property"], real[0].get("description"))
            return
        nat = self.build_native(ob, gp, d)
        if not nat[0]:
            res["status"] = "unconfirmed"; res["detail"] = "native replay build failed: " + nat[1][-300:]
            return
        confirmed = None; tried = []
        for p in real:
            if "unwinding assertion" in p.get("description", ""):
                # cbmc 6.11 rejects --property <func>.unwind.N.  Only unwinding assertions failed (they sort last): rebuild without the
                # reachability witnesses (which fail by construction) and take the trace of the first failing property.
                if [q for q in fails if "unwinding assertion" not in q.get("description", "")]:
                    continue
                gb2 = os.path.join(d, "h_nowit.gb")
                inc = self.patched_include_dir(ob, d)
                rc2, o2, e2, w2, r2, to2 = run_cmd(["goto-cc", "-DVERIF_CBMC", "-DVERIF_NO_WITNESS", "-o", gb2] + inc + CFLAGS + self.defs(ob, gp) + self.src_list(ob, d), 300, cwd=d)
                if rc2 != 0:
                    tried.append({"property": p["property"], "replay": "rebuild without witnesses failed"}); continue
                for fn in ob.remove_bodies:
                    run_cmd(["goto-instrument", "--remove-function-body", fn, gb2, gb2], 120, cwd=d)
                tcmd = [gb2 if c == cmd[1] else c for c in cmd] + ["--trace", "--stop-on-fail"]
            else:
                tcmd = list(cmd) + ["--trace", "--property", p["property"]]
            sh = " ".join("'%s'" % c.replace("'", "'\\''") for c in tcmd) + " 2>/dev/null | grep -a -E '^ *VINS(=\\{ \\.b|\\.b)=\\{ '"
            rc, out, err, wall, rss, to = run_cmd(["bash", "-c", sh], ob.timeout, cwd=d, mem_gb=ob.mem_gb * 1.5 + 2, env=env)
            with self.lock:
                self.queries += 1; self.solver_s += wall
            vin = vin_from_text(out)
            if vin is None:
                tried.append({"property": p["property"], "replay": "no VINS in trace"})
                continue
            vf = os.path.join(d, "vin-%s.bin" % re.sub(r"[^A-Za-z0-9_.-]", "_", p["property"]))
            open(vf, "wb").write(vin)
            rrc, rout = self.run_native(nat[1], ob.func, vf)
            tried.append({"property": p["property"], "replay_exit": rrc, "replay_out": rout[-600:]})
            if rrc not in (0, 77, 2):
                confirmed = (p, vin, rrc, rout)
                break
        res["replay_attempts"] = tried
        if not confirmed:
            res["status"] = "unconfirmed"
            if not [p for p in fails if "unwinding assertion" not in p.get("description", "")]:
                res["status"] = "inconclusive"
            res["detail"] = "cbmc refuted %s (%s @%s:%s) but the counterexample did not reproduce natively" % (
                real[0]["property"], real[0].get("description"),
                real[0].get("sourceLocation", {}).get("file"), real[0].get("sourceLocation", {}).get("line"))
            return
        p, vin, rrc, rout = confirmed
        sl = p.get("sourceLocation", {})
        rdir = os.path.join(os.environ.get("VERIF_REPLAY_DIR") or os.path.join(VERIF, "replays"), self.prop)   # redirected when evaluating seeded changes
        os.makedirs(rdir, exist_ok=True)
        h = hashlib.sha1(vin + name.encode()).hexdigest()[:10]
        rpath = os.path.join(rdir, "%s-%s.json" % (re.sub(r"[^A-Za-z0-9_.-]", "_", name), h))
        rec = {"property_id": self.prop, "obligation": ob.name, "instance": name, "grid_point": gp,
               "function": ob.func, "harness": ob.harness,
               "cbmc_property": p["property"], "description": p.get("description"),
               "file": os.path.basename(sl.get("file") or ""), "line": sl.get("line"), "in_function": sl.get("function"),
               "vin_hex": vin.hex(), "native_exit": rrc, "native_output_tail": rout[-1500:]}
        json.dump(rec, open(rpath, "w"), indent=1)
        res["status"] = "refuted"; res["replay"] = rpath
        res["violation"] = {"cbmc_property": p["property"], "description": p.get("description"),
                            "file": rec["file"], "line": rec["line"], "function": rec["in_function"]}
        res["detail"] = "%s (%s @%s:%s) reproduced natively (exit %s)" % (p["property"], p.get("description"), rec["file"], rec["line"], rrc)
        kf = self.match_known(ob, rec)
        if kf:
            res["status"] = "known-finding"; res["known"] = kf.get("what")

    def match_known(self, ob, rec):
        for k in self.known:
            if k.get("property") != self.prop or k.get("status", "open") != "open":
                continue
            if k.get("obligation") and k["obligation"] != ob.name:
                continue
            m = k.get("match", {})
            if m.get("file") and m["file"] != rec["file"]:
                continue
            if m.get("function") and m["function"] != rec["in_function"]:
                continue
            if m.get("description_re") and not re.search(m["description_re"], rec["description"] or ""):
                continue
            return k
        return None

    def build_native(self, ob, gp, d):
        exe = os.path.join(d, "h.native")
        if os.path.exists(exe):
            return True, exe
        inc = self.patched_include_dir(ob, d)
        srcs = self.src_list(ob, d)
        if ob.native_units is not None:
            srcs = [srcs[0]] + [os.path.join(REPO, u) for u in ob.native_units] + \
                   [os.path.join(VERIF, "models", m) for m in ob.models]
        cmd = NATIVE_CC + inc + CFLAGS + self.defs(ob, gp) + srcs + ["-o", exe, "-lm", "-lpthread"]
        rc, out, err, wall, rss, to = run_cmd(cmd, 300, cwd=d)
        if rc != 0:
            return False, err or out
        return True, exe

    def run_native(self, exe, func, vinfile):
        env = dict(os.environ)
        env["ASAN_OPTIONS"] = "detect_leaks=1:abort_on_error=0:exitcode=98"
        env["UBSAN_OPTIONS"] = "print_stacktrace=1:halt_on_error=1:exitcode=97"
        rc, out, err, wall, rss, to = run_cmd([exe, func, vinfile], 60, env=env)
        if to:
            return 124, "native replay timed out (hang)"
        return rc, (out + err)

    def smoke_native(self, ob, gp, d_name):
        """build the native replay binary and run it on the zero input and a seeded random input"""
        d = os.path.join(self.work, d_name + "_smoke")
        os.makedirs(d, exist_ok=True)
        ok, exe = self.build_native(ob, gp, d)
        if not ok:
            return {"build": False, "detail": exe[-300:]}
        rnd = random.Random(self.seed ^ hash(ob.name) & 0xffff)
        outs = []
        for k in range(3):
            vf = os.path.join(d, "smoke%d.bin" % k)
            size = gp.get("VIN_SIZE", ob.defines.get("VIN_SIZE", ob.vin_size))
            data = bytes(size) if k == 0 else bytes(rnd.getrandbits(8) for _ in range(int(size)))
            open(vf, "wb").write(data)
            rc, out = self.run_native(exe, ob.func, vf)
            outs.append(rc)
        return {"build": True, "exits": outs}

    # ---- replay of a stored counterexample --------------------------------
    def replay_file(self, path, obs):
        rec = json.load(open(path))
        ob = [o for o in obs if o.name == rec["obligation"]]
        if not ob:
            print("unknown obligation in replay file"); return 2
        ob = ob[0]
        d = os.path.join(self.work, "replay"); os.makedirs(d, exist_ok=True)
        ok, exe = self.build_native(ob, rec.get("grid_point", {}), d)
        if not ok:
            print("native build failed:\n" + exe); return 2
        vf = os.path.join(d, "vin.bin"); open(vf, "wb").write(bytes.fromhex(rec["vin_hex"]))
        rc, out = self.run_native(exe, ob.func, vf)
        print(out[-3000:])
        if rc not in (0, 77, 2):
            print("REPRODUCED exit=%s  (%s)" % (rc, rec.get("description")))
            return 1
        print("not reproduced (exit %s)" % rc)
        return 0

    # ---- property level -----------------------------------------------
    def run(self, obs, level_text=""):
        t0 = time.time()
        sel = []
        for ob in obs:
            if self.only and not (re.search(self.only, ob.name) or "[" in self.only or "=" in self.only):
                continue
            if self.tier == "quick" and ob.tier != "quick":
                continue
            grid = ob.grid
            if self.tier == "quick" and ob.quick_grid is not None:
                grid = ob.quick_grid
            for gi, gp in enumerate(grid):
                sel.append((ob, gi, gp))
        if self.only:   # --only also selects single grid instances: name[k=v,...]
            def iname(ob, gp):
                return ob.name + ("" if not gp else "[" + ",".join("%s=%s" % kv for kv in sorted(gp.items())) + "]")
            sel = [t for t in sel if re.search(self.only, iname(t[0], t[2]))]
        # long jobs first
        sel.sort(key=lambda t: -t[0].timeout)
        self.log("[%s] tier=%s obligations=%d instances=%d jobs=%d work=%s" % (
            self.prop, self.tier, len(set(o.name for o, _, _ in sel)), len(sel), self.jobs, self.work))
        results = []; smokes = {}
        with ThreadPoolExecutor(max_workers=self.jobs) as ex:
            futs = [ex.submit(self.run_instance, ob, gi, gp) for ob, gi, gp in sel]
            sm = {}
            if os.environ.get("VERIF_NO_SMOKE") != "1":
                done = set()
                for ob, gi, gp in sel:
                    if ob.native and ob.name not in done:
                        done.add(ob.name)
                        sm[ob.name] = ex.submit(self.smoke_native, ob, gp, ob.name)
            for f in futs:
                results.append(f.result())
            for k, f in sm.items():
                try:
                    smokes[k] = f.result()
                except Exception as e:
                    smokes[k] = {"build": False, "detail": repr(e)}
        wall = time.time() - t0
        return self.finish(obs, sel, results, smokes, wall)

    def finish(self, obs, sel, results, smokes, wall):
        n = len(results)
        dis = [r for r in results if r["status"] == "discharged"]
        ref = [r for r in results if r["status"] == "refuted"]
        kn = [r for r in results if r["status"] == "known-finding"]
        inc = [r for r in results if r["status"] in ("inconclusive", "unconfirmed")]
        obmap = {}
        for ob in obs:
            obmap[ob.name] = ob
        used = sorted(set(o.name for o, _, _ in sel))
        units = set()
        for name in used:
            ob = obmap[name]
            for u in ob.units:
                units.add(u)
            # units #included by the harness
            try:
                txt = open(os.path.join(VERIF, "harness", ob.harness)).read()
                for m in re.finditer(r'#include\s+"((?:src|daemon)/[^"]+\.c)"', txt):
                    units.add(m.group(1))
            except Exception:
                pass
        ob_desc = []
        for name in used:
            ob = obmap[name]
            rs = [r for r in results if r["obligation"].split("[")[0] == name]
            ob_desc.append({
                "obligation": name, "what": ob.desc, "functions_encoded": ob.encodes,
                "harness": "harness/" + ob.harness + ":" + ob.func,
                "stubs_models": ob.stubs, "assumptions": ob.assumes, "bounds": ob.bounds,
                "outside": ob.outside, "unwind": ob.unwind, "unwindset": ob.unwindset,
                "instances": len(rs), "discharged": len([r for r in rs if r["status"] == "discharged"]),
                "solver": ob.solver or "minisat(default)", "cap_s": ob.timeout,
                "wall_s_max": max([r.get("cbmc_wall_s", 0) for r in rs] or [0]),
                "rss_mb_max": max([r.get("cbmc_rss_mb", 0) for r in rs] or [0]),
                "cbmc_properties_checked": sum(r.get("properties_total", 0) for r in rs),
                "native_replay_smoke": smokes.get(name),
            })
        samples = []
        for r in results[:3] + ref[:3] + kn[:3] + inc[:3]:
            samples.append({k: r.get(k) for k in ("obligation", "function", "grid_point", "status", "cbmc_cmd",
                                                   "properties_total", "properties_success", "program_steps", "vccs", "symex_s", "convert_s", "solver_s", "sat_vars", "sat_clauses",
                                                   "cbmc_wall_s", "witness", "detail", "violation", "replay") if r.get(k) is not None})
        ev = {
            "property_id": self.prop, "tier": self.tier, "seed": self.seed, "level": "model_checking",
            "wall_s": round(wall, 2), "violations": len(ref),
            "coverage": {
                "evaluations": self.queries,
                "distinct_nontrivial": len(dis),
                "rule": "one evaluation = one cbmc run (bounded symbolic execution of the real translation units + SAT/SMT query over all "
                        "values of the symbolic inputs within the stated bounds); an obligation instance counts as distinct_nontrivial "
                        "iff every generated property (harness assertions, array/pointer/overflow/shift/div checks, unwinding assertions) "
                        "is SUCCESS *and* its reachability witness assertion(s) came back FAILURE (harness not vacuous). "
                        "Timeouts, tool errors and unreplayed counterexamples are inconclusive, never counted.",
                "obligations": n, "discharged": len(dis), "inconclusive": len(inc),
                "refuted_and_replayed": len(ref), "known_findings_hit": len(kn),
                "solver_wall_s_total": round(self.solver_s, 1),
                "cbmc_properties_checked": sum(r.get("properties_total", 0) for r in results),
                "obligation_details": ob_desc,
                "inconclusive_list": [{"obligation": r["obligation"], "why": r["detail"][:300]} for r in inc],
                "units": {u: sha1_file(os.path.join(REPO, u)) for u in sorted(units)},
                "checker_cmd": "cbmc 6.11.0 " + " ".join(CBMC_BASE),
                "trusted_base": ["cbmc 6.11.0 (goto-cc front end, symex, bit-blasting)", "SAT/SMT back end",
                                 "harness reference models and environment stubs listed per obligation",
                                 "clang-14 ASan/UBSan native replay for counterexamples"],
                "samples": samples,
                "exhaustive": False,
            },
            "assumptions": sorted(set(a for name in used for a in obmap[name].assumes) |
                                  set("stub/model: " + s for name in used for s in obmap[name].stubs) |
                                  {"allocation failure out of scope (--no-malloc-may-fail)",
                                   "all claims bounded: see coverage.obligation_details[].bounds / unwind; nothing claimed outside"}),
        }
        evdir = os.environ.get("VERIF_EVIDENCE_DIR") or os.path.join(VERIF, "evidence")   # redirected only when evaluating seeded changes on a scratch tree
        os.makedirs(evdir, exist_ok=True)
        json.dump(ev, open(os.path.join(evdir, self.prop + ".json"), "w"), indent=1)
        for r in inc:
            print("INCONCLUSIVE property=%s obligation=%s %s" % (self.prop, r["obligation"], r["detail"][:200]))
        for r in kn:
            print("KNOWN-FINDING: property=%s %s [%s]" % (self.prop, r.get("known"), r["obligation"]))
        for r in ref:
            print("VIOLATION property=%s replay=%s" % (self.prop, r["replay"]))
            print("  obligation=%s %s" % (r["obligation"], r["detail"]))
        print("[%s] tier=%s instances=%d discharged=%d inconclusive=%d refuted=%d known=%d queries=%d wall=%.1fs" % (
            self.prop, self.tier, n, len(dis), len(inc), len(ref), len(kn), self.queries, wall))
        if ref:
            return 1
        if len(dis) < 2:
            print("[%s] fewer than 2 obligations discharged - check is not decisive" % self.prop)
            return 3
        return 0
