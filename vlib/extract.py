# textual extraction of whole functions from a C unit of /repo (K&R layout of zvbi: name at column 0, body closed by "}" at column 0)
import re


def c_functions(txt, names, keep_head_until=None, extra_lines=()):
    """return: file head (up to the first line matching keep_head_until) + extra_lines found verbatim + the complete definitions of `names` in source order"""
    lines = txt.split("\n")
    out = []
    if keep_head_until:
        for i, l in enumerate(lines):
            if re.match(keep_head_until, l):
                out = lines[:i]
                break
        else:
            raise RuntimeError("extract: head marker not found: %s" % keep_head_until)
    found = {}
    for i, l in enumerate(lines):
        for n in names:
            if n in found:
                continue
            if re.match(r"^%s\s*\(" % re.escape(n), l):
                # definition starts with the return type on the preceding line(s) (until a blank line or '}' / ';' / '#')
                j = i
                while j > 0 and lines[j - 1].strip() and not lines[j - 1].startswith(("}", "#")) and not lines[j - 1].rstrip().endswith(";") and not lines[j - 1].rstrip().endswith("*/"):
                    j -= 1
                # find the opening brace line, then the closing "}" at column 0
                k = i
                while k < len(lines) and not lines[k].startswith("{"):
                    if lines[k].rstrip().endswith(";"):   # a prototype, not a definition
                        k = None
                        break
                    k += 1
                if k is None or k >= len(lines):
                    continue
                e = k
                while e < len(lines) and not lines[e].startswith("}"):
                    e += 1
                found[n] = (j, e)
    missing = [n for n in names if n not in found]
    if missing:
        raise RuntimeError("extract: function(s) not found in the current source: %s" % missing)
    for x in extra_lines:
        hit = [l for l in lines if l.startswith(x)]
        if not hit:
            raise RuntimeError("extract: line not found: %s" % x)
        out.append(hit[0])
    for n in sorted(names, key=lambda n: found[n][0]):
        j, e = found[n]
        out.append("")
        out.extend(lines[j:e + 1])
    return "\n".join(out) + "\n"
