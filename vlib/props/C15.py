import os
from vlib.runner import Ob

# ---------------------------------------------------------------------------------------------
# C15 - IDL (format A) and PFC demultiplexers deliver the sent data in order and flag loss
# harness/h_c15.c (IDL), harness/h_c15_pfc.c (PFC), models/c15_ref.h (bit serial check word)
# ---------------------------------------------------------------------------------------------

CRC_STUB = ("CBMC build: idl_a_crc_table is overwritten before every feed by a constant table that makes the demux' "
            "CRC recurrence end in the residue class (zero / both bytes equal to CI / failing) computed by the bit serial "
            "reference on the same packet; justified by obligation idl_crc_step (+ induction over the bytes); "
            "the native replay build keeps the real table")


def pfc_layout(p):
    """python twin of pfc_layout() in h_c15_pfc.c: returns (first, last) data packet index per block or None"""
    npages, ppp, nb = p.get("NPAGES", 3), p.get("PPP", 2), p.get("NB", 3)
    size = [p.get("SZ%d" % i, (5, 40, 3, 1)[i]) for i in range(4)]
    pad = [p.get("PAD%d" % i, 0) for i in range(4)]
    cap = npages * ppp * 39
    seen = [False] * (npages * ppp)
    pos = 0
    res = []
    for b in range(nb):
        pos += pad[b]
        if pos >= cap:
            return None
        if not seen[pos // 39]:
            while (pos % 39) % 3:
                pos += 1
                if pos >= cap:
                    return None
        seen[pos // 39] = True
        if pos + 5 + size[b] > cap:
            return None
        first = pos // 39
        pos += 5 + size[b]
        res.append((first, (pos - 1) // 39, size[b], (pos - 1) % 39))
    return res


def pfc_ok_point(p):
    """layout fits and DROP is not the 'last packet of a page lost while a block is in progress' case (known defect)"""
    lay = pfc_layout(p)
    if lay is None:
        return False
    ppp = p.get("PPP", 2)
    d = p.get("DROP", -1)
    for (f, l, s, e) in lay:
        if s >= 1 and e == 38:            # known defect pfc_block_end_overread
            return False
    if d >= 0 and d % (ppp + 1) == ppp:
        gd = d // (ppp + 1) * ppp + ppp - 1
        for (f, l, s, e) in lay:
            if s >= 1 and f < gd <= l:
                return False
    return True


def pfc_delivered(p):
    lay = pfc_layout(p)
    ppp = p.get("PPP", 2)
    d = p.get("DROP", -1)
    n = 0
    for (f, l, s, e) in lay:
        ok = s >= 1
        if d >= 0:
            g, j = divmod(d, ppp + 1)
            lost_from = g * ppp if j == 0 else g * ppp + j - 1
            if not (l < lost_from or f >= (g + 1) * ppp):
                ok = False
        n += ok
    return n


def pfc_grid(tier):
    pts = []

    def add(**kw):
        if pfc_ok_point(kw) and pfc_delivered(kw) >= 1:
            pts.append(kw)
    # -- alignment edge cases, no loss (2 pages are enough) --
    base = dict(NPAGES=2, PPP=2)
    add(NB=2, SZ0=33, SZ1=7, **base)                       # second BS in the last byte of packet 1 (offset 38)
    add(NB=2, SZ0=32, PAD1=1, SZ1=7, STREAM=11, CI0=7, **base)   # one filler, then BS in the last byte (kills "filler scan ends a byte early")
    add(NB=2, SZ0=5, PAD1=26, SZ1=9, **base)               # BS at offset 36: structure header split 2 + 2 across packets
    add(NB=3, SZ0=29, SZ1=0, SZ2=12, **base)               # structure header of a zero size block ends with the packet; BP = 0 next
    add(NB=2, SZ0=90, SZ1=4, PAD0=3, MAG=0, PG=0x1C, STREAM=0, CI0=15, CBITS=5, **base)   # block over 3 packets and 2 pages, magazine 8
    # -- one lost packet, three pages --
    add(NB=3, SZ0=5, SZ1=40, SZ2=3, PAD2=80, DROP=4)       # packet 1 of page 2 lost, last block lies on page 3
    add(NB=3, SZ0=5, SZ1=40, SZ2=3, PAD2=80, DROP=3, MAG=7, STREAM=15, CI0=3)   # header of page 2 lost
    add(NB=3, SZ0=5, SZ1=12, SZ2=30, PAD1=20, PAD2=100, DROP=1, CBITS=7)        # first packet lost, delivery resumes on page 2
    add(NB=4, SZ0=2, SZ1=70, SZ2=8, SZ3=1, PAD2=5, PAD3=60, DROP=5, MAG=4, PG=0x00)   # last packet of page 2 lost, nothing in progress
    if tier != "thorough":
        return pts
    # -- sweep: block size 0..90 x start offset; second block right behind, third on the last page --
    for s in range(0, 91):
        add(NPAGES=2, PPP=2, NB=2, SZ0=s, PAD0=(s * 7) % 36, SZ1=1 + s % 5, PAD1=s % 3, MAG=s % 8, CI0=s % 16, STREAM=(s * 5) % 16)
    # -- every single lost packet for four layouts --
    lays = [dict(NB=3, SZ0=5, SZ1=40, SZ2=3, PAD2=80),
            dict(NB=4, SZ0=30, SZ1=50, SZ2=0, SZ3=20, PAD1=2, PAD3=70, MAG=2),
            dict(NB=3, SZ0=77, SZ1=1, SZ2=60, PAD0=36, PAD2=9, MAG=0, STREAM=9),
            dict(NPAGES=3, PPP=3, NB=4, SZ0=100, SZ1=10, SZ2=40, SZ3=25, PAD1=1, PAD2=30, PAD3=50, CI0=0)]
    for lay in lays:
        n = lay.get("NPAGES", 3) * (lay.get("PPP", 2) + 1)
        for d in range(n):
            add(DROP=d, **lay)
    return pts


def pfc_hamming_grid(tier):
    """places and bit error masks of the one damaged Hamming 8/4 byte (python twin of the DMG_* macros of h_c15_pfc.c)"""
    A = dict(NPAGES=3, PPP=2, NB=4, SZ0=5, SZ1=40, SZ2=3, PAD2=80, SZ3=6, PAD3=50)      # blocks 0,1 on page 0 (1 spans 2 packets), 2 on page 1, 3 on page 2
    B = dict(NPAGES=2, PPP=2, NB=3, SZ0=5, PAD1=26, SZ1=9, PAD2=30, SZ2=3, MAG=0, STREAM=12, CI0=15)   # structure header of block 1 split 2+2; block 2 on page 1
    for lay in (A, B):
        assert pfc_layout(lay) is not None
    q = [dict(DMG_KIND=1, DMG_F=3, DMG_BYTE=4, DMG_MASK=0x21, **A),     # page 1 header, S1 (low byte pair of the sub-code)
         dict(DMG_KIND=1, DMG_F=0, DMG_BYTE=5, DMG_MASK=0x82, **A),     # page 0 header, S2/C4
         dict(DMG_KIND=1, DMG_F=3, DMG_BYTE=7, DMG_MASK=0x14, **A),     # S4/C5/C6 (high pair)
         dict(DMG_KIND=1, DMG_F=3, DMG_BYTE=2, DMG_MASK=0x48, **A),     # page number units
         dict(DMG_KIND=1, DMG_F=2, DMG_BYTE=2, DMG_MASK=0x03, **A),     # block pointer of packet 2 of page 0
         dict(DMG_KIND=2, DMG_BLK=1, DMG_NIB=0, DMG_MASK=0x50, **A),    # structure header, low pair
         dict(DMG_KIND=2, DMG_BLK=1, DMG_NIB=3, DMG_MASK=0x0A, **A),    # structure header, high pair
         dict(DMG_KIND=2, DMG_BLK=1, DMG_NIB=1, DMG_MASK=0x84, **B),    # split structure header, first half
         dict(DMG_KIND=3, DMG_BLK=1, DMG_MASK=0x11, **A),               # separator found by the filler scan
         dict(DMG_KIND=1, DMG_F=3, DMG_BYTE=4, DMG_MASK=0x08, **A),     # single errors: corrected, nothing changes
         dict(DMG_KIND=2, DMG_BLK=1, DMG_NIB=2, DMG_MASK=0x40, **A)]
    if tier != "thorough":
        return q
    t = list(q)
    two = [0x03, 0x05, 0x21, 0x82, 0x14, 0x48, 0x50, 0x0A, 0x84, 0x11, 0x60, 0xC0, 0x09, 0x90, 0x28, 0x41]
    n = [0]

    def m():
        n[0] += 1
        return two[n[0] % len(two)]
    for f in (0, 3):
        for by in range(0, 8):
            t.append(dict(DMG_KIND=1, DMG_F=f, DMG_BYTE=by, DMG_MASK=m(), **A))
    for by in range(0, 3):
        t.append(dict(DMG_KIND=1, DMG_F=1, DMG_BYTE=by, DMG_MASK=m(), **A))
        t.append(dict(DMG_KIND=1, DMG_F=5, DMG_BYTE=by, DMG_MASK=m(), **A))
    for k in range(4):
        t.append(dict(DMG_KIND=2, DMG_BLK=1, DMG_NIB=k, DMG_MASK=m(), **A))
        t.append(dict(DMG_KIND=2, DMG_BLK=1, DMG_NIB=k, DMG_MASK=m(), **B))
        t.append(dict(DMG_KIND=2, DMG_BLK=2, DMG_NIB=k, DMG_MASK=m(), **A))
    for b in (0, 2, 3):
        t.append(dict(DMG_KIND=3, DMG_BLK=b, DMG_MASK=m(), **A))           # separators found through the block pointer
    t.append(dict(DMG_KIND=3, DMG_BLK=1, DMG_MASK=m(), **B))
    for bit in range(8):                                                    # every single bit error on S1 of a header and on a structure header nibble
        t.append(dict(DMG_KIND=1, DMG_F=3, DMG_BYTE=4, DMG_MASK=1 << bit, **A))
        t.append(dict(DMG_KIND=2, DMG_BLK=1, DMG_NIB=0, DMG_MASK=1 << bit, **A))
    seen, out = set(), []
    for g in t:
        k = tuple(sorted(g.items()))
        if k not in seen:
            seen.add(k); out.append(g)
    return out


def obligations(tier, seed):
    U = ["src/hamm.c"]
    idl = dict(harness="h_c15.c", units=U, vin_size=512, unwind=43,
               unwindset={"init_crc16_table.0": 257, "init_crc16_table.1": 257, "idl_feed.0": 257, "h_idl_crc_table.0": 257, "h_idl_crc_table.1": 257})
    pfc = dict(harness="h_c15_pfc.c", units=U)
    KN = {"KNOWN_IDL_IMPLICIT_CI_RUN": None}
    # vbi_unham16p / idl_a_demux_feed shift the (negative) Hamming error code left: GNU C defined and on the runner's ignore list, but cbmc 6.11
    # makes the failed check fatal and reports everything behind it as UNKNOWN (197 properties in idl_a_hamming) -> where undecodable Hamming
    # bytes are part of the input space the shift check is off (no data dependent shift distance in these units)
    NOSHL = ["--no-undefined-shift-check"]
    idl_assumes = ["sender reading of EN 300 708 6.5 as in the library comments: SPA nibbles least significant first; a 0x00/0xFF run starts with a "
                   "transmitted CI and continues in the user data; a dummy byte 0xAA follows the 8th equal byte if the data area has room; DL counts "
                   "dummy bytes; implicit CI = residue with both bytes equal to CI",
                   "excluded corner: CI and DL both present, CI in {0x00,0xFF} and first user byte equal to CI (does the run continue across DL?)",
                   "RI = 0x00 when present (repeats: idl_a_repeat)"]
    # (FT, SPALEN, DEP)
    ft_all = [(ft, sp, (ft // 2 + sp) & 1) for ft in range(0, 16, 2) for sp in range(7)]
    q1 = [dict(FT=ft, SPALEN=sp, DEP=d, NPK=1) for (ft, sp, d) in [(4, 1, 0), (8, 2, 1), (12, 3, 1)]]
    t1 = [dict(FT=ft, SPALEN=sp, DEP=d, NPK=1) for (ft, sp, d) in ft_all]
    obs = [
        Ob("idl_crc_table", func="h_idl_crc_table", desc="all 256 entries of the table built by the real init_crc16_table(0x8940) equal the bit serial division by "
           "x^16+x^9+x^7+x^4+1 (register in transmission order) of the byte; entry 1 != 0 (init guard); post state of _vbi_idl_demux_init",
           encodes=["init_crc16_table", "_vbi_idl_demux_init", "vbi_idl_demux_reset"], bounds="none (256 concrete entries)", timeout=120, **idl),
        Ob("idl_crc_step", func="h_idl_crc_step", desc="for EVERY 16 bit register value and EVERY byte: (crc >> 8) ^ table[(crc & 0xFF) ^ byte] (the expression of "
           "idl_a_demux_feed) == 8 bit serial steps of the reference; by induction the demux' check word computation is the reference residue for messages of any length",
           encodes=["init_crc16_table", "idl_a_demux_feed:116 (expression)"], bounds="none: 2^24 (register, byte) pairs", timeout=120, **idl),
        Ob("idl_a_seq1", func="h_idl_a_seq", desc="IDL-A SEQ-1: reference sender (symbolic channel, address, CI, user bytes incl. 0x00/0xFF runs -> dummy bytes, DL, fill bytes) "
           "-> real vbi_idl_demux_feed: callback gets exactly the sent user bytes iff channel and address are ours and the check word is intact; an optional symbolic "
           "corruption (non-zero XOR mask on any byte of the check word protected part, check fails) is never delivered and returns FALSE; other addresses return TRUE, no delivery; "
           "an unrelated packet before it changes nothing",
           encodes=["vbi_idl_demux_feed", "idl_a_demux_feed", "_vbi_idl_demux_init", "vbi_unham8"], defines=KN, stubs=[CRC_STUB],
           assumes=idl_assumes, bounds="1 packet; layout (FT, SPALEN, DEP) enumerated: quick 3 points, thorough all 56 (FT, SPALEN) pairs",
           outside="flags argument (known defect, see idl_a_flags_argument); implicit CI run corner (idl_a_implicit_ci_run)",
           grid=t1, quick_grid=q1, reach=["end", "all", "crcfail"], flags=["--slice-formula"], timeout=900, mem_gb=4, **idl),
        Ob("idl_a_seq2", func="h_idl_a_gap_flags", tier="thorough",
           desc="IDL-A SEQ-2 (light): two consecutive packets of ours from _vbi_idl_demux_init, CI symbolic per packet, each optionally damaged in its check word "
                "(symbolic mask): a damaged packet is never delivered and returns FALSE, delivery continues with the next packet, deliveries in order with the sent "
                "length and bytes (payload concrete except its first byte), only documented flag bits",
           encodes=["vbi_idl_demux_feed", "idl_a_demux_feed", "_vbi_idl_demux_init"], defines={"GAP_DAMAGE": None}, stubs=[CRC_STUB],
           assumes=idl_assumes[:1] + ["payload concrete except its first byte"], bounds="2 packets; FT in {4, 0, 12, 14}",
           outside="value of the flags argument (known defect); fully symbolic payloads over 2 and 3 packets (h_idl_a_seq with NPK=2: no verdict in 1500 s, 1.1 GB - dropped)",
           grid=[dict(FT=ft, SPALEN=sp, DEP=d, NGAP=2) for (ft, sp, d) in [(4, 1, 0), (0, 0, 1), (12, 3, 0), (14, 6, 1)]],
           reach=["end"], flags=["--slice-formula"], timeout=1200, mem_gb=6, **idl),
        Ob("idl_a_hamming", func="h_idl_a_hamming", desc="every Hamming 8/4 protected header byte in turn: channel, designation, SPA nibbles replaced by a symbolic value "
           "(within distance 1 of the sent code word -> corrected, same delivery; not decodable -> FALSE, nothing delivered, demux state untouched); FT and IAL (layout "
           "defining, concrete) with bit HBIT flipped (corrected) and bits HBIT, HBIT+3 flipped (refused)",
           encodes=["vbi_idl_demux_feed", "idl_a_demux_feed", "vbi_unham8"], defines=KN, stubs=[CRC_STUB], assumes=idl_assumes[:1] + ["payload concrete except its first byte"],
           bounds="1 packet per try; thorough only (337 s measured): 8 bit positions x 4 layouts",
           grid=[dict(FT=ft, SPALEN=sp, DEP=d, HBIT=h) for h in range(8) for (ft, sp, d) in [(12, 2, 0), (6, 6, 1), (0, 0, 1), (10, 4, 0)]],
           quick_grid=[dict(FT=12, SPALEN=2, DEP=0, HBIT=2)],
           reach=["end", "refused", "corrected"], flags=["--slice-formula"] + NOSHL, tier="thorough", timeout=900, mem_gb=6, **idl),
        Ob("idl_a_repeat", func="h_idl_a_repeat", desc="repeat indicator: packet A sent twice (RI 0x80, 0x01) then B (RI 0x00); every transmission clean / corrupted in the protected "
           "part (symbolic place and mask) / not received (the 27 combinations on the grid): A delivered exactly once if its first copy is clean or (first corrupted and repeat "
           "clean), never twice, never without a clean copy; B iff clean; bytes exact",
           encodes=["vbi_idl_demux_feed", "idl_a_demux_feed"], defines=KN, stubs=[CRC_STUB], assumes=idl_assumes[:1] + ["payload concrete except its first byte"],
           bounds="3 transmissions; quick: FT=6, combination damaged/damaged/clean; thorough: FT=6 x 27 combinations, FT in {2,10,14} x 5 combinations",
           outside="RI bits 4-6; more than one repeat; a repeat whose first copy was never received is discarded by this demux (loss then flagged): accepted",
           grid=[dict(FT=6, SPALEN=2, DEP=0, ST0=a, ST1=b, ST2=c) for a in range(3) for b in range(3) for c in range(3)] +
                [dict(FT=ft, SPALEN=sp, DEP=1, ST0=a, ST1=b, ST2=c) for (ft, sp) in [(2, 0), (10, 3), (14, 6)] for (a, b, c) in [(0, 0, 0), (1, 0, 0), (1, 1, 0), (2, 0, 0), (0, 1, 1)]],
           quick_grid=[dict(FT=6, SPALEN=2, DEP=0, ST0=1, ST1=1, ST2=0)],
           reach=["end"], flags=["--slice-formula"], timeout=2400, mem_gb=6, **idl),
        # ---- obligations that refuted the pinned tree (genuine defects, fixed in /repo: known_findings.json "fixed"); idl_a_implicit_ci_run is an open known finding ----
        Ob("idl_a_flags_argument", func="h_idl_a_gap_flags", desc="two packets of ours with symbolic CI values: the flags "
           "ARGUMENT of every callback equals (DATA_LOST iff a packet failed its check since the last delivery or CI is not the successor of the last delivered CI) | (DEPENDENT "
           "iff IAL bit 3); refuted: idl_demux.c:213 passes dx->flags (DATA_LOST already cleared, DEPENDENT never set) instead of the local flags",
           encodes=["idl_a_demux_feed"], stubs=[CRC_STUB], assumes=idl_assumes[:1] + ["payload concrete except its first byte"],
           bounds="quick: 1 packet with IAL bit 3 set (DEPENDENT missing), 43 s; thorough: + 2 packets, DEP=0, so that only DATA_LOST can differ (471 s with trace run)",
           grid=[dict(FT=4, SPALEN=1, DEP=1, NGAP=1), dict(FT=4, SPALEN=1, DEP=0, NGAP=2)], quick_grid=[dict(FT=4, SPALEN=1, DEP=1, NGAP=1)],
           reach=["end"], flags=["--slice-formula"], timeout=900, mem_gb=4, **idl),
        Ob("idl_a_first_flags", func="h_idl_a_first_flags", desc="demux constructed on dirty memory (vbi_idl_a_demux_new = malloc + _vbi_idl_demux_init): the first "
           "delivery carries only documented flag bits and no DATA_LOST; refuted: dx->flags is never initialised",
           encodes=["_vbi_idl_demux_init", "vbi_idl_demux_reset", "idl_a_demux_feed"], stubs=[CRC_STUB], assumes=idl_assumes,
           bounds="1 packet, FT=4, SPALEN=1", grid=[dict(FT=4, SPALEN=1, DEP=0)], flags=["--slice-formula"], timeout=600, mem_gb=4, **idl),
        Ob("idl_a_implicit_ci_run", func="h_idl_a_seq", desc="idl_a_seq1 without the exclusion of 'implicit CI in {0x00,0xFF} and the first 7 user bytes equal to it': "
           "refuted: the demux seeds its run counter with the untransmitted implicit CI and drops the 8th user byte (or delivers the real dummy byte)",
           encodes=["idl_a_demux_feed"], defines={}, stubs=[CRC_STUB], assumes=idl_assumes,
           bounds="1 packet, FT=0, SPALEN=0", grid=[dict(FT=0, SPALEN=0, DEP=0, NPK=1)], reach=["end", "all", "crcfail"],
           flags=["--slice-formula"], timeout=600, mem_gb=4, **idl),
    ]
    # ---------------- PFC ----------------
    pfc_seq = dict(unwind=240, unwindset={"c15_memcpy.0": 40, "c15_memcpy.1": 40}, vin_size=2400,
                   flags=["--max-field-sensitivity-array-size", "2048"],
                   stubs=["CBMC build: the unit's one memcpy is a bounded byte loop with w_ok/r_ok checks (native: real memcpy)"], **pfc)
    obs += [
        Ob("pfc_seq", func="h_pfc_seq", desc="PFC SEQ: reference sender (page header with S1 = CI, S2/S4 = packet count, S3 = stream; block pointer; block separators; "
           "structure header 4 x Hamming 8/4; fillers; first separator of a packet 3-aligned) builds NPAGES pages carrying up to 4 blocks with symbolic bytes, interleaved with "
           "unrelated packets (other magazine / packets 26-31, symbolic body); optionally one packet is not fed: the callback gets exactly the completely received blocks, in order, "
           "byte exact, with application id, size, page, stream; zero size blocks are not delivered; the blocks touching the lost part are dropped, delivery resumes with the first "
           "block that starts on the next page; invariant after every packet",
           encodes=["vbi_pfc_demux_feed", "_vbi_pfc_demux_decode", "_vbi_pfc_demux_init", "vbi_pfc_demux_reset", "vbi_unham8", "vbi_unham16p"],
           defines={},
           assumes=["every quantity that steers the demux is a grid constant (sizes, paddings, geometry, app ids, page, stream, CI, control bits, lost packet); symbolic: block bytes, "
                    "header text, unrelated packet bodies", "unrelated traffic has decodable address bytes and is not a page header (a header of another magazine ends our page in this demux: serial mode assumption)"],
           bounds="quick: 9 layouts (BS in last byte of a packet, structure header split 2+2, block ending with the packet, zero size block, block over 3 packets / 2 pages, magazine 8, "
                  "4 loss cases); thorough: + block size 0..90 sweep x start offsets, every single lost packet for 4 layouts",
           outside="block sizes > 128 in SEQ (2047 limit: pfc_step only); blocks after the gap on the SAME page are also discarded by this demux (waits for the next page header) - "
                   "accepted as 'damaged block discarded, delivery resumes'; loss of the last packet of a page while a block is in progress (defect, pfc_last_packet_loss)",
           grid=pfc_grid("thorough"), quick_grid=pfc_grid("quick"), reach=["end", "some"], timeout=600, mem_gb=3, **pfc_seq),
        Ob("pfc_hamming", func="h_pfc_seq", desc="pfc_seq with ONE Hamming 8/4 protected byte hit by a double bit error (undecodable) or a single bit error (corrected): "
           "a byte of a page header (address, page number, S1..S4) or of a data packet (address, block pointer), a nibble of a structure header, a block "
           "separator (place and error mask on the grid).  Undecodable: exactly the feed() call that meets the byte returns FALSE (documented), the block hit / every block touching the "
           "packet hit is never delivered, blocks completed before are delivered, delivery resumes byte exact with the first block starting on the next page; corrected: everything as "
           "without the error",
           encodes=["vbi_pfc_demux_feed", "_vbi_pfc_demux_decode", "vbi_pfc_demux_reset", "vbi_unham8", "vbi_unham16p"], defines={},
           assumes=["as pfc_seq; one damaged byte per run; the error mask is a grid constant like everything else that steers the demux (behaviour depends on the byte only through "
                    "vbi_unham8, whose table C03 decides for all 256 values)"],
           bounds="two layouts (4 blocks on 3 pages; structure header split 2+2 across packets); quick 9 places + 2 single errors, thorough ~60: every header byte 2..7 of two pages, address and block pointer "
                  "of a data packet, all 4 structure header nibbles, separators found through the block pointer and by the filler scan",
           outside="two or more damaged bytes; damaged filler bytes (skipped unread before the block pointer target); parity of block bytes (PFC block bytes are not protected)",
           grid=pfc_hamming_grid("thorough"), quick_grid=pfc_hamming_grid("quick"), reach=["end"], flags=pfc_seq["flags"] + NOSHL, timeout=600, mem_gb=3,
           **{k: v for k, v in pfc_seq.items() if k != "flags"}),
        Ob("pfc_foreign_header", func="h_pfc_seq", desc="pfc_seq with the header of another page of the same magazine fed before every page header of ours but the first (serial "
           "mode: other pages lie between two transmissions of our page; sub-code, control bits and text of the foreign header symbolic): nothing changes, every block delivered",
           encodes=["vbi_pfc_demux_feed", "_vbi_pfc_demux_decode"], defines={},
           grid=[dict(NB=3, SZ0=5, SZ1=40, SZ2=3, UNREL=0, FOREIGN_HDR=1), dict(NPAGES=2, PPP=2, NB=2, SZ0=90, SZ1=4, PAD0=3, MAG=0, PG=0x1C, STREAM=0, CI0=15, FOREIGN_HDR=1),
                 dict(NPAGES=2, PPP=2, NB=2, SZ0=90, SZ1=4, PAD0=3, MAG=0, PG=0x1C, STREAM=0, CI0=15, FOREIGN_HDR=3)],     # (a block spanning both pages) FOREIGN_HDR=3: the foreign header is followed by a row packet of that page (a whole unrelated page in between)
           bounds="3 layouts, no loss", reach=["end", "some"], timeout=600, mem_gb=3, **pfc_seq),
    ] + ([
        # FORMER CANDIDATES (refuted the pinned tree; the defects are repaired by fix commits, the obligations now guard them):, see the report of the seed evaluation (TODO-defect-candidates.md item 4)
        Ob("pfc_last_packet_loss_foreign_header", func="h_pfc_seq", desc="pfc_last_packet_loss with the header of another page of the same magazine between the two pages: "
           "the foreign header clears n_packets (pfc_demux.c:238), the test `dx->packet <= dx->n_packets' of the next header of ours can no longer see that packet 2 never "
           "came, the 40 byte block is completed with bytes of the next page and delivered",
           encodes=["vbi_pfc_demux_feed"], defines={}, grid=[dict(NB=3, SZ0=5, SZ1=40, SZ2=3, DROP=2, UNREL=0, FOREIGN_HDR=1)],
           bounds="1 layout", reach=["end"], timeout=900, mem_gb=6, **pfc_seq),
        Ob("pfc_parallel_magazine_header", func="h_pfc_seq", desc="pfc_seq with the page header of ANOTHER magazine fed right after each page header of ours (parallel magazine "
           "transmission): the demux clears n_packets on any header that is not ours and then ignores the packets of our page without a reset; a block in progress is "
           "continued on the next page",
           encodes=["vbi_pfc_demux_feed"], defines={}, grid=[dict(NB=3, SZ0=5, SZ1=40, SZ2=3, UNREL=0, FOREIGN_HDR=2)],
           bounds="1 layout", reach=["end"], timeout=900, mem_gb=6, **pfc_seq),
    ] if True else []) + [   # former candidates: the defects they decide are repaired in /repo (see known_findings.json)
        Ob("pfc_last_packet_loss", func="h_pfc_seq", desc="pfc_seq with the LAST packet of page 1 lost while a 40 byte block is in progress: refuted - the next page header "
           "(CI continuous) does not notice that packet 2 never came, the block is completed with bytes of the next page and delivered corrupted",
           encodes=["vbi_pfc_demux_feed", "_vbi_pfc_demux_decode"], grid=[dict(NB=3, SZ0=5, SZ1=40, SZ2=3, DROP=2, UNREL=0)],
           defines={}, bounds="1 layout", reach=["end"], timeout=900, mem_gb=6, **pfc_seq),
        Ob("pfc_block_end_overread", func="h_pfc_seq", desc="one page, one packet, one 34 byte block whose last byte is byte 41 of the packet: refuted - after the "
           "callback _vbi_pfc_demux_decode falls into the filler scan with col == 42 and reads buffer[42] (pfc_demux.c:160); the byte found there decides between 'fine', a "
           "phantom block start and a reset",
           encodes=["_vbi_pfc_demux_decode"], defines={}, grid=[dict(NPAGES=1, PPP=1, NB=1, SZ0=34, UNREL=0)],
           bounds="1 layout", reach=["end"], timeout=600, mem_gb=4, **pfc_seq),
        Ob("pfc_step", func="h_pfc_step", tier="thorough",
           desc="PFC INV-STEP: from EVERY demux state satisfying the representation invariant (ci, packet, n_packets ranges; header phase: bi+left in {0,4}; "
                "data phase: app <= 31, size <= 2047, bi+left == size) and EVERY 42 byte packet, vbi_pfc_demux_feed stays inside the exact-size demux object (memcpy ranges, "
                "block[2048], packet[42]), re-establishes the invariant, hands only complete blocks of 1..2047 bytes to the callback (which may return FALSE), leaves page/stream/"
                "callback alone; packets of another magazine and packets 26..31 change nothing; undecodable address -> FALSE",
           encodes=["vbi_pfc_demux_feed", "_vbi_pfc_demux_decode", "vbi_pfc_demux_reset"], defines={"PFC_MEMCPY_PREFIX": 4},
           stubs=["CBMC build: memcpy model = w_ok/r_ok range checks + copy of only the bytes that land in block[0..3] (the structure header, the only bytes ever read back); "
                  "block contents beyond are arbitrary from the start",
                  "the packet buffer is an exact 42 byte object (the over-read of buffer[42] found here is fixed in /repo)"],
           assumes=["representation invariant pfc_inv (established by _vbi_pfc_demux_init: asserted in pfc_seq; preserved: this obligation)"],
           bounds="one step; histories of any length by induction", unwind=43,
           unwindset={"_vbi_pfc_demux_decode.1": 19, "_vbi_pfc_demux_decode.0": 40, "c15_memcpy.0": 40, "c15_memcpy.1": 40},
           reach=["end", "unrelated", "delivered", "delivered2"], solver="cadical", timeout=1500, mem_gb=12, vin_size=2400,
           flags=NOSHL, **pfc),
    ]
    return obs
