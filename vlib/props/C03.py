from vlib.runner import Ob
from vlib.props._packet import packet_obs


def obligations(tier, seed):
    H = dict(harness="h_c03.c", units=["src/hamm.c"], vin_size=64, flags=["--no-undefined-shift-check"])
    prim = [
        Ob("ham8", func="h_ham8", unwind=20, desc="Hamming 8/4: library encoder/decoder == reference from the parity equations for all 256 bytes; every single error corrected, every double error rejected",
           encodes=["vbi_ham8", "vbi_unham8"], bounds="none (exhaustive by solver)", timeout=120, **H),
        Ob("ham16", func="h_ham16", unwind=20, desc="vbi_unham16p: negative iff either byte uncorrectable, else low|high<<4", encodes=["vbi_unham16p"], bounds="none",
           reach=["end", "err"], timeout=120, **H),
        Ob("parity", func="h_par", unwind=20, desc="odd parity encode/decode (single and block) == reference", encodes=["vbi_par8", "vbi_unpar8", "vbi_par", "vbi_unpar"],
           bounds="blocks of 4 bytes", reach=["end", "bad"], timeout=120, **H),
        Ob("ham24", func="h_ham24", unwind=30, desc="Hamming 24/18: library encoder == reference (closed form of the EN 300 706 8.3 parity equations) for all 2^18 values; decode inverts",
           encodes=["vbi_ham24p", "vbi_unham24p"], bounds="none", timeout=300, **H),
        Ob("ham24_err1", func="h_ham24_err1", unwind=30, desc="Hamming 24/18: every single bit error (24 positions) of every code word is corrected to the transmitted 18 bits",
           encodes=["vbi_unham24p"], bounds="none (error position enumerated by the runner: all 24 thorough, 6 quick; data symbolic)",
           grid=[dict(B1SEL=b) for b in range(24)], quick_grid=[dict(B1SEL=b) for b in (0, 2, 7, 8, 16, 23)], timeout=600, **H),
        Ob("ham24_err2", func="h_ham24_err2", unwind=30, desc="Hamming 24/18: every double bit error of every code word is rejected (negative result)",
           encodes=["vbi_unham24p"], bounds="none (first error position enumerated by the runner: all 24 thorough, 4 quick; second position and data symbolic)",
           grid=[dict(B1SEL=b) for b in range(24)], quick_grid=[dict(B1SEL=b) for b in (0, 7, 15, 23)], timeout=900, **H),
        Ob("bitrev", func="h_rev", unwind=20, desc="bit reversal tables == reference", encodes=["vbi_rev8", "vbi_rev16"], bounds="none", timeout=120, **H),
    ]
    p = packet_obs()
    # quick grids = the instances measured decisive on the unchanged tree inside the quick budget (DESIGN 0.3 C03); everything else is thorough
    P = lambda k, vals, key="PKTSEL": setattr(p[k], "quick_grid", [g for g in p[k].grid if g.get(key) in vals])
    P("pop", (1, 3, 4)); P("x27", (0, 3, 6), "DESSEL");     # pop 26 (symbolic designation -> symbolic triplet index): 7.9 GB; X/27/4, /5 (Hamming 24/18 links): > 900 s: thorough
    P("ait", (0, 1, 23, 24)); P("lop_parity", (1, 12, 24, 25), "ROWSEL")
    p["rows"].quick_grid = [dict(MAGN=1, PKTN=k) for k in (25, 29, 30, 31)]      # X/26 continuity (PKTN=26), X/27, X/28: no verdict inside the quick budget (thorough, 12 GB cap)
    p["rows"].mem_gb = 12; p["pop"].mem_gb = 12; p["x27"].timeout = 2400
    p["addr_error"].tier = "thorough"; p["addr_error"].timeout = 1500; p["addr_error"].mem_gb = 12
    from vlib.props._asm import asm_obs
    asm = [o for o in asm_obs() if o.name in ("asm_header_pageno_error", "asm_x26_triplet_error")]    # containment through the dispatcher with pages in progress
    return prim + [p[k] for k in ("pagelink", "pagelink_any", "mot", "pop", "x27", "ait", "lop_parity", "lop_parity_x26", "header", "header_badpage", "header_timefill", "addr_error", "rows")] + asm
